import TRV.Proofs.Sound
import TRV.Proofs.Engine
import TRV.Proofs.OwnProbe
/-!
# C01 — Attribution soundness: only a genuine reply to probe t can fill hop t

Matcher level, on the RAW BYTES of the packet the driver read (`pkt.take bufSize`): whenever a
driver model returns `accept t a dest sentAt`, the executable reference predicate
`Spec.genuine*` — fields read at RFC offsets, independently of the layered parser — holds: the
packet was sent by `a` and is an ICMP error quoting this run's probe for TTL `t` (addresses, ports,
per-probe identifier at full width, `t` among the probes sent so far) or a direct reply on the
probe's own flow.  All packets of all lengths, all configurations (identifier bases and sequence
numbers at wrap-around included: the arithmetic is modulo 2^16 / 2^32 as in the code), all
reachable driver states.

Run level: the engines only ever put accepted outcomes into the hop list (`c01_run_only_accepted`).
-/
namespace TRV.Props.C01
open TRV TRV.Wire TRV.Drv TRV.Spec TRV.Proofs TRV.Engine

/-- ICMP over IPv4 (time-exceeded quoting our echo request, or echo reply from the target) -/
theorem c01_icmp4_sound {s : IcmpSt} {pkt : Bytes} {t : Nat} {a : Bytes} {d : Bool} {tm : Nat}
    (h : icmpRecv s pkt = .accept t a d tm) (hv4 : ∃ b0, u8 pkt 0 = some b0 ∧ b0 / 16 = 4) :
    genuineIcmp4 s.cfg s.sent t a d (pkt.take bufSize) = true :=
  (icmp4_sound h hv4).1

/-- ICMP over IPv6, full strength: no restriction on the quoted header.  (On the pinned tree this
    was provable only for packets whose quoted IPv6 header has no hop-by-hop header; since the fix
    for F11 the driver demands that the quoted next-header field is ICMPv6, so a quote with an
    extension header — which no probe of this tool carries — is never accepted.) -/
theorem c01_icmp6_sound {s : IcmpSt} {pkt : Bytes} {t : Nat} {a : Bytes} {d : Bool} {tm : Nat}
    (hmin : 1 ≤ s.cfg.min) (h : icmpRecv s pkt = .accept t a d tm)
    (hv6 : ∃ b0, u8 (pkt.take bufSize) 0 = some b0 ∧ b0 / 16 = 6) :
    genuineIcmp6 s.cfg s.sent t a d (pkt.take bufSize) = true :=
  (icmp6_sound hmin h hv6).1

/-- UDP over IPv4, strict and relaxed source checking, every state reachable by sends -/
theorem c01_udp4_sound {s : UdpSt} {pkt : Bytes} {t : Nat} {a : Bytes} {d : Bool} {tm : Nat}
    (hinv : UdpInv s) (h4 : s.cfg.target.length = 4) (h : udpRecv s pkt = .accept t a d tm)
    (hv4 : ∃ b0, u8 (pkt.take bufSize) 0 = some b0 ∧ b0 / 16 = 4) :
    genuineUdp4 s.cfg s.sent t a d (pkt.take bufSize) = true :=
  (udp4_sound hinv h4 h hv4).1

/-- UDP over IPv6 -/
theorem c01_udp6_sound {s : UdpSt} {pkt : Bytes} {t : Nat} {a : Bytes} {d : Bool} {tm : Nat}
    (hinv : UdpInv s) (h6 : s.cfg.target.length ≠ 4) (h : udpRecv s pkt = .accept t a d tm)
    (hv6 : ∃ b0, u8 (pkt.take bufSize) 0 = some b0 ∧ b0 / 16 = 6) :
    genuineUdp6 s.cfg s.sent t a d (pkt.take bufSize) = true :=
  (udp6_sound hinv h6 h hv6).1

/-- the invariant used above holds in every state reachable by `SendProbe` calls -/
theorem c01_udp_inv_reachable (cfg : UdpCfg) (ops : List (Nat × Nat)) :
    UdpInv (ops.foldl (fun s op => match udpSend s op.1 op.2 with | .ok s' _ => s' | .err => s) { cfg, sent := [] }) := by
  have : ∀ (s : UdpSt), UdpInv s →
      UdpInv (ops.foldl (fun s op => match udpSend s op.1 op.2 with | .ok s' _ => s' | .err => s) s) := by
    induction ops with
    | nil => intro s hs; simpa using hs
    | cons op ops ih =>
      intro s hs
      simp only [List.foldl_cons]
      apply ih
      cases hsend : udpSend s op.1 op.2 with
      | ok s' pkt => exact (udpInv_send hs hsend).1
      | err => exact hs
  exact this _ (udpInv_init cfg)

/-- TCP SYN, default and Paris mode: a time-exceeded is credited to the probe whose (IP id, sequence
    number) it quotes; a SYN-ACK / RST from the target port is credited to the LAST sent probe (the
    caveat that is part of C01), never to an earlier one -/
theorem c01_tcp_sound {s : TcpSt} {pkt : Bytes} {t : Nat} {a : Bytes} {d : Bool} {tm : Nat}
    (h : tcpRecv s pkt = .accept t a d tm) (hv4 : ∃ b0, u8 (pkt.take bufSize) 0 = some b0 ∧ b0 / 16 = 4) :
    genuineTcp s.cfg s.sent t a d (pkt.take bufSize) = true :=
  (tcp_sound h hv4).1

/-- TCP SACK: time-exceeded quoting sequence number ISN + t (mod 2^32), or a selective ACK from
    the target whose smallest relative left edge is t -/
theorem c01_sack_sound {s : SackSt} {pkt : Bytes} {t : Nat} {a : Bytes} {d : Bool} {tm : Nat}
    (h : sackRecv s pkt = .accept t a d tm) (hv4 : ∃ b0, u8 (pkt.take bufSize) 0 = some b0 ∧ b0 / 16 = 4) :
    genuineSack s.cfg s.sent t a d (pkt.take bufSize) = true :=
  (sack_sound h hv4).1

/-- a reply is only ever attributed to a TTL that has been probed: the accepted TTL has a recorded
    send (all four drivers) — "a TTL not yet probed never creates a hop" -/
theorem c01_only_sent_ttls_icmp {s : IcmpSt} {pkt : Bytes} {t : Nat} {a : Bytes} {d : Bool} {tm : Nat}
    (h : icmpRecv s pkt = .accept t a d tm) (hv4 : ∃ b0, u8 pkt 0 = some b0 ∧ b0 / 16 = 4) :
    ∃ p ∈ s.sent, p.ttl = t ∧ p.time = tm :=
  (icmp4_sound h hv4).2

/-- the tool's own outgoing probes, which the capture handle also sees, never create a hop:
    ICMP/IPv4 echo request, UDP/IPv4 datagram, TCP SYN — for every TTL, address, port, identifier -/
theorem c01_own_probe_ignored_icmp4 (s : IcmpSt) {src dst : Bytes} {echoId ttl : Nat} (hs : src.length = 4)
    (hd : dst.length = 4) (hid : echoId < 65536) (httl : ttl < 256) :
    icmpRecv s (Build.icmp4 src dst echoId ttl) = .retry := icmp4_own_probe s hs hd hid httl

theorem c01_own_probe_ignored_udp4 (s : UdpSt) {src dst : Bytes} {sport dport ttl : Nat} (hs : src.length = 4)
    (hd : dst.length = 4) (hsp : sport < 65536) (hdp : dport < 65536) (httl : ttl < 256) :
    udpRecv s (Build.udp4 src dst sport dport ttl) = .retry := udp4_own_probe s hs hd hsp hdp httl

theorem c01_own_probe_ignored_tcp (s : TcpSt) {src dst : Bytes} {sport dport id seq ttl : Nat} (hs : src.length = 4)
    (hd : dst.length = 4) (hsp : sport < 65536) (hdp : dport < 65536) (hid : id < 65536) (hseq : seq < 4294967296)
    (httl : ttl < 256) :
    tcpRecv s (Build.tcpSyn src dst sport dport id seq ttl) = .retry := tcp_own_probe s hs hd hsp hdp hid hseq httl

/-- run level: every filled slot of a parallel run's result is one of the accepted outcomes (the
    engine never invents or alters a hop) -/
theorem c01_run_only_accepted {min max : Nat} {outs : List ROut} {r : List (Option Probe)} {p : Probe}
    (h : parallelRun min max true outs false false = .ok r) (hp : some p ∈ r) : p ∈ accepted outs := by
  obtain ⟨hr, _, _, _⟩ := parallel_result h
  subst hr
  simp only [expected, List.mem_map] at hp
  obtain ⟨t, _, ht⟩ := hp
  exact best_mem ht

/-- non-vacuity: a concrete genuine time-exceeded (router 10.9.8.7, TTL 3, echo id 0x1234) is
    accepted by the ICMP model and satisfies the reference predicate; the same packet with sequence
    number 259 (= 3 mod 256) is rejected -/
example :
    let cfg : IcmpCfg := { localA := [192,0,2,2], target := [198,51,100,9], echoId := 0x1234, min := 1, max := 30 }
    let st : IcmpSt := { cfg, sent := [{ ttl := 3, id := 0x1234, seq := 3, time := 100 }] }
    let quote (seq : Nat) : Bytes := Build.ip4Header 0 29 0x1234 0 1 1 [192,0,2,2] [198,51,100,9] ++
        [8, 0, 0, 0] ++ be16 0x1234 ++ be16 seq
    let te (seq : Nat) : Bytes := Build.ip4Header 0xc0 56 0 0 250 1 [10,9,8,7] [192,0,2,2] ++ [11, 0, 0, 0, 0, 0, 0, 0] ++ quote seq
    icmpRecv st (te 3) = .accept 3 [10,9,8,7] false 100 ∧
    genuineIcmp4 cfg st.sent 3 [10,9,8,7] false (te 3) = true ∧
    icmpRecv st (te 259) = .retry := by decide

#print axioms c01_icmp4_sound
#print axioms c01_icmp6_sound
#print axioms c01_udp4_sound
#print axioms c01_udp6_sound
#print axioms c01_udp_inv_reachable
#print axioms c01_tcp_sound
#print axioms c01_sack_sound
#print axioms c01_only_sent_ttls_icmp
#print axioms c01_own_probe_ignored_icmp4
#print axioms c01_own_probe_ignored_udp4
#print axioms c01_own_probe_ignored_tcp
#print axioms c01_run_only_accepted
end TRV.Props.C01
