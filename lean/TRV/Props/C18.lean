import TRV.Proofs.Enrich
/-!
# C18 — Enrichment is per-address correct, failure-tolerant, caches only successes

Property theorems only (helper lemmas are in `TRV.Proofs.Enrich`).  Model: `TRV.Model.Enrich`
(`EnrichWithReverseDns`/`GetReverseDnsForIPs`, `cache.GetWithExpiration` over go-cache,
`GetPublicIP` over `backoff.Retry`).  Spec: `TRV.Spec.Enrich`.
-/
namespace TRV.Props.C18
open TRV TRV.Enrich TRV.Spec.Enr TRV.Proofs.Enr

section RDns
variable {ν β γ δ κ : Type}

/-- **Names are exact.**  With a resolver that answers as a function of the address, whatever the
    document (any mix of addresses, duplicates, unanswered hops with an empty address, failing
    addresses) and in **every** completion order of the concurrent lookups (`order` is any
    permutation of the address occurrences), every destination and hop ends up with exactly what
    the resolver returns for its own address, and with nothing if that lookup fails or the address
    is empty. -/
theorem c18_names_exact (str : Bytes → κ) (resolver : κ → Option ν) (d : Doc ν β γ δ)
    (order : List Bytes) (hp : order.Perm d.ips) :
    NamesExact (want str resolver) (enrichOrder str resolver order d) :=
  names_exact str resolver d order hp

/-- The statement one would like for a resolver that may answer differently *per call*: every
    occurrence (in collection order `cs`) ends up with the result of its **own** lookup, in every
    completion order `σ`.  This is **false** of the code (see `c18_names_exact_full_false`): the
    results are gathered in a map keyed by the raw address, so duplicates share the last write. -/
def c18_names_exact_full : Prop :=
  ∀ (ν β γ δ : Type) (d : Doc ν β γ δ) (cs σ : List (Completion ν)),
    cs.map Prod.fst = d.ips → σ.Perm cs → (enrichWith σ d).namesList = cs.map Prod.snd

/-- The per-occurrence statement holds whenever the lookups of one address all returned the same
    thing (`Consistent`) — in particular for every resolver that is a function of the address, and
    for every run in which the cache or the resolver answers duplicates alike. -/
theorem c18_names_exact_partial (d : Doc ν β γ δ) (cs σ : List (Completion ν))
    (hips : cs.map Prod.fst = d.ips) (hp : σ.Perm cs) (hc : Consistent cs) :
    (enrichWith σ d).namesList = cs.map Prod.snd :=
  names_exact_partial d cs σ hips hp hc

/-- Witness against the unrestricted statement: one run whose destination and only hop have the
    same address; the resolver fails the first lookup and answers the second.  Both fields get the
    answer, although the first occurrence's own lookup failed. -/
theorem c18_names_exact_full_false : ¬ c18_names_exact_full := by
  intro h
  let ip : Bytes := [byte 10, byte 0, byte 0, byte 1]
  let d : Doc Nat Unit Unit Unit :=
    { runs := [{ destIp := ip, destNames := none, hops := [{ ip := ip, names := none, other := () }], other := () }],
      other := () }
  let cs : List (Completion Nat) := [(ip, none), (ip, some 7)]
  have := h Nat Unit Unit Unit d cs cs rfl (List.Perm.refl _)
  revert this
  decide

/-- What does hold for **any** resolver behaviour (per-call answers `cs`, any completion order `σ`):
    the names on a hop are an answer the resolver gave for that same raw address, and they are
    empty exactly when every lookup of that address failed.  Names of one address never reach a hop
    with another address. -/
theorem c18_names_from_same_address (d : Doc ν β γ δ) (cs σ : List (Completion ν)) (hp : σ.Perm cs) :
    HopsSatisfy (FromSameAddress cs) (enrichWith σ d) := by
  apply hopsSatisfy_assign
  intro ip _
  obtain ⟨h1, h2⟩ := buildMap_fromSame σ ip
  exact ⟨fun v hv => hp.mem_iff.mp (h1 v hv),
    ⟨fun hn c hc => h2.mp hn c (hp.mem_iff.mpr hc), fun h => h2.mpr fun c hc => h c (hp.mem_iff.mp hc)⟩⟩

/-- **Failure tolerance.**  Enrichment is a total function of the document (it cannot fail); for any
    lookup results and any completion order everything except the names fields is untouched (runs,
    hop count and order, addresses, all other fields); and with a resolver that is a function of
    the address a hop whose lookup fails (resolver error or empty address) has empty names, while
    every other hop still gets exactly its own answer (`c18_names_exact`). -/
theorem c18_failure_tolerant (str : Bytes → κ) (resolver : κ → Option ν) (d : Doc ν β γ δ)
    (order : List Bytes) (hp : order.Perm d.ips) :
    RestUntouched d (enrichOrder str resolver order d) ∧
    (∀ σ : List (Completion ν), RestUntouched d (enrichWith σ d)) ∧
    HopsSatisfy (fun ip n => (ip = [] ∨ resolver (str ip) = none) → n = none)
      (enrichOrder str resolver order d) := by
  refine ⟨rest_untouched _ d, fun σ => rest_untouched σ d, ?_⟩
  intro r hr
  obtain ⟨h1, h2⟩ := names_exact str resolver d order hp r hr
  refine ⟨fun hf => ?_, fun h hh hf => ?_⟩
  · rw [h1]; unfold want; rcases hf with hf | hf <;> simp [hf]
  · rw [h2 h hh]; unfold want; rcases hf with hf | hf <;> simp [hf]

/-- **Any interleaving, with the cache in the loop.**  `GetReverseDnsForIPs` as goroutines whose
    atomic steps (`cache.Get`; resolver call + `cache.Set` on success; map write under the mutex)
    interleave arbitrarily, with clock steps anywhere, starting from any cache whose entries are
    answers of the resolver (e.g. flushed, or filled by earlier runs): duplicates may each query
    the resolver or be answered by the cache, yet once every goroutine is done the document
    assigned from the map carries exactly the resolver's answer on every hop and destination. -/
theorem c18_fanout_any_interleaving [DecidableEq κ] (str : Bytes → κ) (resolver : κ → Option ν)
    (d : Doc ν β γ δ) (c0 : Store κ ν) (t0 : Nat) (s : FSt κ ν)
    (hc : Coherent c0 resolver) (hr : FReach str resolver d.ips c0 t0 s) (ht : s.terminal d.ips) :
    NamesExact (want str resolver) (assign s.m d) := by
  apply hopsSatisfy_assign
  intro ip hip
  exact fanout_terminal hc hr ht ip hip

end RDns

section Cache
variable {K V : Type} [DecidableEq K]

/-- **A hit does not query.**  Sequentially: if the cache holds an unexpired value for the key, then
    `GetWithExpiration` returns it, the callback is not invoked and the cache is unchanged.
    Under any interleaving: in a state where the key reads as `v`, a `get` by any caller cannot be a
    miss, returns `v`, starts no callback and changes nothing. -/
theorem c18_cache_hit_no_query (s : Store K V) (now : Nat) (k : K) (v : V) (h : s.get now k = some v) :
    (∀ (cb : Option V) (dur : Nat) (ttl : Int),
      (getWithExpiration s now k cb dur ttl).result = some v ∧
      (getWithExpiration s now k cb dur ttl).cbCalls = 0 ∧
      (getWithExpiration s now k cb dur ttl).store = s) ∧
    (∀ (ttl : K → Int) (st st' : CSt K V) (l : CLabel K V), st.store = s → st.now = now →
      CStep ttl st l st' →
      (∀ id t, l ≠ .miss id k t) ∧ (∀ id w t, l = .hit id k w t → w = v ∧ st' = st)) := by
  refine ⟨fun cb dur ttl => by simp [getWithExpiration, h], ?_⟩
  intro ttl st st' l hs hn hstep
  subst hs; subst hn
  cases hstep with
  | tick d => exact ⟨fun _ _ hh => (by cases hh), fun _ _ _ hh => (by cases hh)⟩
  | getHit id k' w hp hg =>
    refine ⟨fun _ _ hh => (by cases hh), fun id2 w2 t2 hh => ?_⟩
    cases hh
    rw [h] at hg
    exact ⟨(Option.some.inj hg).symm, rfl⟩
  | getMiss id k' hp hg =>
    refine ⟨fun id2 t2 hh => ?_, fun _ _ _ hh => (by cases hh)⟩
    cases hh
    rw [h] at hg; cases hg
  | cbOk id k' w hp => exact ⟨fun _ _ hh => (by cases hh), fun _ _ _ hh => (by cases hh)⟩
  | cbFail id k' hp => exact ⟨fun _ _ hh => (by cases hh), fun _ _ _ hh => (by cases hh)⟩

/-- **Failures are never cached.**  Sequentially: a miss whose callback fails returns the failure and
    leaves the cache as it was.  Under any interleaving of any number of callers starting from the
    flushed cache: a failing callback's step does not change the store, and every entry present in
    any reachable state is the value of a *successful* callback for that very key. -/
theorem c18_cache_never_stores_failure :
    (∀ (s : Store K V) (now : Nat) (k : K) (dur : Nat) (ttl : Int), s.get now k = none →
      (getWithExpiration s now k none dur ttl).result = none ∧
      (getWithExpiration s now k none dur ttl).store = s) ∧
    (∀ (ttl : K → Int) (st st' : CSt K V) (id : Nat) (k : K) (t : Nat),
      CStep ttl st (.failed id k t) st' → st'.store = st.store) ∧
    (∀ (ttl : K → Int) (t0 : Nat) (tr : List (CLabel K V)) (st : CSt K V), CReach ttl t0 tr st →
      ∀ k e, st.store k = some e → ∃ id t, CLabel.stored id k e.val t ∈ tr) := by
  refine ⟨fun s now k dur ttl h => by simp [getWithExpiration, h, Store.finish], ?_, ?_⟩
  · intro ttl st st' id k t hs
    cases hs; rfl
  · intro ttl t0 tr st hr k e he
    obtain ⟨id, t, hm, _, _⟩ := cinv_reach hr k e he
    exact ⟨id, t, hm⟩

/-- **Expiry**, over all interleavings (any number of callers, any clock steps), each key being used
    with its expiry `ttl k`:
    (a) every hit returns a value that a successful callback for that key stored at some time `t₀`,
        and the hit happens while that success is still valid (`now ≤ t₀ + ttl`, or no expiry);
    (b) once a key holds an entry, in every later state up to that entry's expiry the key still
        reads as a stored success (so by `c18_cache_hit_no_query` every call in between is a hit
        and nothing is re-queried) — concurrent callers can only replace it by a success that
        lives at least as long;
    (c) an entry whose expiry has passed is not served. -/
theorem c18_cache_expiry (ttl : K → Int) (t0 : Nat) (tr : List (CLabel K V)) (st : CSt K V)
    (hr : CReach ttl t0 tr st) :
    (∀ st' id k v t, CStep ttl st (.hit id k v t) st' →
      ∃ id' ts, CLabel.stored id' k v ts ∈ tr ∧ ts ≤ t ∧ stillValid t ts (ttl k) = true) ∧
    (∀ k e st', st.store k = some e → CSteps ttl st st' → (e.exp = 0 ∨ st'.now ≤ e.exp) →
      ∃ w, st'.store.get st'.now k = some w) ∧
    (∀ k e, st.store k = some e → e.exp ≠ 0 → e.exp < st.now → st.store.get st.now k = none) := by
  refine ⟨?_, ?_, ?_⟩
  · intro st' id k v t hs
    cases hs with
    | getHit _ _ _ hp hg =>
      unfold Store.get at hg
      cases he : st.store k with
      | none => simp [he] at hg
      | some e =>
        simp only [he] at hg
        by_cases hf : e.fresh st.now = true
        · simp only [hf, if_true, Option.some.injEq] at hg
          obtain ⟨id', ts, hm, hx, hts⟩ := cinv_reach hr k e he
          refine ⟨id', ts, by rw [← hg]; exact hm, hts, ?_⟩
          rw [← fresh_iff_stillValid e.val, ← hx]
          exact hf
        · simp [hf] at hg
  · intro k e st' he hs hv
    obtain ⟨e', he', hz, hle⟩ := persist hr he hs
    refine ⟨e'.val, ?_⟩
    have hf : e'.fresh st'.now = true := by
      unfold Entry.fresh
      rcases hv with hv | hv
      · simp [hz.mpr hv]
      · have : st'.now ≤ e'.exp := Nat.le_trans hv hle
        simp [this]
    simp [Store.get, he', hf]
  · intro k e he hne hlt
    have : e.fresh st.now = false := by
      unfold Entry.fresh
      have : ¬ st.now ≤ e.exp := by omega
      simp [hne, this]
    simp [Store.get, he, this]

/-- **The sequential model meets the trace spec.**  Whatever sequence of calls (any keys, callback
    outcomes and durations, expiries including "default" and "never"), sleeps and flushes a single
    client performs from the flushed cache, what it observes satisfies the reference predicate
    `traceOK` — the same predicate the harness evaluates on the real cache's observations. -/
theorem c18_cache_sequential_spec [DecidableEq V] (ops : List (SeqOp K V)) (t0 : Nat) :
    traceOK (observe ops Store.flush t0) = true :=
  observe_traceOK ops Store.flush t0 [] (fun k => by simp [Store.flush, lastSuccess])

end Cache

/-- **Provider order.**  For every list of providers, every per-provider script of attempt outcomes
    (transport error, body read error, any status with any body), every back-off interval sequence
    and every per-provider budget (2 s, or less under a caller deadline):
    the call returns `(i, ip)` iff provider `i` is the first, in list order, that yields a valid
    address within its budget (`FirstValid`), it returns nothing iff no provider does, and the
    executable reference `firstValid` computes the same answer. -/
theorem c18_provider_order (ps : List Provider) (hb : ∀ p ∈ ps, p.budget ≤ maxElapsedTime) :
    (∀ i ip, (Enrich.get ps).result = some (i, ip) ↔ FirstValid ps i ip) ∧
    ((Enrich.get ps).result = none ↔ ∀ p ∈ ps, ¬ Succeeds p) ∧
    (Enrich.get ps).result = firstValid ps := by
  have h1 : ∀ i ip, (Enrich.get ps).result = some (i, ip) ↔ FirstValid ps i ip := by
    intro i ip
    unfold Enrich.get
    rw [getFrom_result ps hb 0 i ip]
    constructor
    · rintro ⟨j, rfl, h⟩; simpa using h
    · intro h; exact ⟨i, by omega, h⟩
  refine ⟨h1, getFrom_none ps hb 0, ?_⟩
  cases hg : (Enrich.get ps).result with
  | some v =>
    obtain ⟨i, ip⟩ := v
    exact ((firstValid_iff ps i ip).mpr ((h1 i ip).mp hg)).symm
  | none =>
    cases hf : firstValid ps with
    | none => rfl
    | some v =>
      obtain ⟨i, ip⟩ := v
      have := (h1 i ip).mpr ((firstValid_iff ps i ip).mp hf)
      rw [hg] at this; cases this

/-- The same without any side condition, for the budgets the code actually uses: 2 s per provider,
    cut short by the caller's deadline `parent` (none = no deadline), providers run one after the
    other. -/
theorem c18_provider_order_ctx (parent : Option Nat) (scripts : List (List Attempt × List Nat)) :
    (Enrich.get (withBudgets parent 0 scripts)).result = firstValid (withBudgets parent 0 scripts) ∧
    ∀ i ip, (Enrich.get (withBudgets parent 0 scripts)).result = some (i, ip) ↔
      FirstValid (withBudgets parent 0 scripts) i ip := by
  have hb : ∀ p ∈ withBudgets parent 0 scripts, p.budget ≤ maxElapsedTime := fun p hp =>
    Nat.le_trans (withBudgets_budget_le parent scripts 0 p hp) callTimeout_le_maxElapsed
  exact ⟨(c18_provider_order _ hb).2.2, (c18_provider_order _ hb).1⟩

/-- **Providers after the winner are never queried**: the contacted providers are exactly the list
    prefix up to and including the winner (everybody if there is no winner), and each contacted
    provider's record is that provider's own retry run. -/
theorem c18_provider_later_never_queried (ps : List Provider) :
    (Enrich.get ps).trace = (ps.take (Enrich.get ps).trace.length).map Provider.run ∧
    (∀ i ip, (Enrich.get ps).result = some (i, ip) → (Enrich.get ps).trace.length = i + 1) ∧
    ((Enrich.get ps).result = none → (Enrich.get ps).trace.length = ps.length) := by
  have := getFrom_trace_length ps 0
  refine ⟨getFrom_trace ps 0, ?_, ?_⟩
  · intro i ip h
    unfold Enrich.get at h ⊢
    rw [h] at this
    simpa using this
  · intro h
    unfold Enrich.get at h ⊢
    rw [h] at this
    simpa using this

/-- **Client errors and invalid bodies are final for that provider**: if the `k`-th attempt is
    reached (all earlier ones retryable, waits within the budget) and meets a 4xx status or a body
    that is not an address, the provider is given up after exactly `k+1` attempts; in particular a
    first response of that kind means exactly one attempt.  Likewise a valid address at attempt `k`
    ends the provider after exactly `k+1` attempts. -/
theorem c18_provider_final_one_attempt (p : Provider) (hb : p.budget ≤ maxElapsedTime) :
    (∀ a rest, p.script = a :: rest → final a = true → p.run.attempts = 1 ∧ p.run.out = .permanent) ∧
    (∀ k a, ReachesFrom 0 p.budget p.script p.ivals k → p.script[k]? = some a → final a = true →
      p.run.attempts = k + 1 ∧ p.run.out = .permanent) ∧
    (∀ k ip, SucceedsAt p k ip → p.run.attempts = k + 1 ∧ p.run.out = .ok ip) := by
  have h2 : ∀ k a, ReachesFrom 0 p.budget p.script p.ivals k → p.script[k]? = some a → final a = true →
      p.run.attempts = k + 1 ∧ p.run.out = .permanent := by
    intro k a hr ha hf
    unfold Provider.run
    rw [retry_final hb hr ha hf]; simp
  refine ⟨?_, h2, ?_⟩
  · intro a rest hs hf
    exact h2 0 a (fun j hj => absurd hj (Nat.not_lt_zero _)) (by simp [hs]) hf
  · intro k ip hs
    exact ⟨run_attempts_of_succeedsAt hb hs, (run_ok_iff hb ip).mpr ⟨k, hs⟩⟩

/-- **Within its budget** (also the public-IP part of C08): if no single attempt lasts longer than
    `op`, a provider's retry loop returns within its budget plus `op`, and the whole discovery
    within `providers · (B + op)` when every budget is at most `B`. -/
theorem c18_provider_within_budget (ps : List Provider) (B op : Nat)
    (h : ∀ p ∈ ps, p.budget ≤ B ∧ ∀ a ∈ p.script, a.dur ≤ op) :
    (∀ p ∈ ps, p.run.elapsed ≤ p.budget + op) ∧ (Enrich.get ps).elapsed ≤ ps.length * (B + op) :=
  ⟨fun p hp => run_elapsed_le p (h p hp).2, getFrom_elapsed_le ps h 0⟩

/-! ## non-vacuity -/

section Examples

private def ipA : Bytes := [byte 10, byte 0, byte 0, byte 1]
private def ipB : Bytes := [byte 192, byte 0, byte 2, byte 7]
private def ipC : Bytes := [byte 172, byte 16, byte 0, byte 9]

/-- a document with a duplicate address, an unanswered hop and a failing address -/
private def exDoc : Doc Nat Nat Nat Nat :=
  { runs := [{ destIp := ipB, destNames := some 99,
               hops := [⟨ipA, none, 1⟩, ⟨[], some 5, 2⟩, ⟨ipC, none, 3⟩, ⟨ipA, none, 4⟩], other := 7 }],
    other := 8 }

private def exResolver (k : Bytes) : Option Nat :=
  if k = ipA then some 11 else if k = ipB then some 22 else none

/-- reversed completion order: same result as the collection order, names per address, the failing
    and the empty address stay empty, the stale names are replaced -/
example : (enrichOrder id exResolver exDoc.ips.reverse exDoc).namesList =
    [some 22, some 11, none, none, some 11] := by decide

example : exDoc.ips.reverse.Perm exDoc.ips := List.reverse_perm _

/-- the fan-out with the cache in the loop: two occurrences of one address; the first misses and
    asks the resolver, the second is answered by the cache (one query only); both write -/
example : ∃ s, FReach id exResolver [ipA, ipA] (Store.flush : Store Bytes Nat) 0 s ∧
    s.terminal [ipA, ipA] ∧ s.queries.length = 1 ∧ s.m ipA = some 11 := by
  refine ⟨_, FReach.step (FReach.step (FReach.step (FReach.step (FReach.step FReach.init
    (FStep.miss _ 0 ipA rfl rfl (by decide) (by decide)))
    (FStep.resolveOk _ 0 ipA 11 rfl rfl (by decide)))
    (FStep.hit _ 1 ipA 11 rfl rfl (by decide) (by decide)))
    (FStep.write _ 0 ipA 11 rfl rfl))
    (FStep.write _ 1 ipA 11 rfl rfl), ?_, rfl, by decide⟩
  intro i hi
  match i, hi with
  | 0, _ => rfl
  | 1, _ => rfl

/-- cache: a miss at 5 whose callback succeeds at 7 (ttl 100) is served at 107 and gone at 108;
    a failing callback leaves nothing -/
private def r1 : GweRes Nat Nat := getWithExpiration Store.flush 5 1 (some 42) 2 100
private def r2 : GweRes Nat Nat := getWithExpiration r1.store 107 1 (some 43) 2 100
private def r3 : GweRes Nat Nat := getWithExpiration r2.store 108 1 none 2 100
private def r4 : GweRes Nat Nat := getWithExpiration r3.store 120 1 (some 44) 0 100
example :
    (r1.result = some 42 ∧ r1.cbCalls = 1) ∧ (r2.result = some 42 ∧ r2.cbCalls = 0) ∧
    (r3.result = none ∧ r3.cbCalls = 1) ∧ (r4.result = some 44 ∧ r4.cbCalls = 1) := by decide

/-- two concurrent callers both miss, both store; the trace is reachable -/
example : ∃ tr st, CReach (fun _ : Nat => (100 : Int)) 0 tr st ∧ st.store.get st.now 1 = some (8 : Nat) :=
  ⟨_, _, CReach.step (CReach.step (CReach.step (CReach.step CReach.init
      (CStep.getMiss _ 0 1 rfl rfl)) (CStep.getMiss _ 1 1 rfl rfl)) (CStep.cbOk _ 0 1 7 rfl))
      (CStep.cbOk _ 1 1 8 rfl), by decide⟩

private def b (l : List Nat) : Bytes := l.map byte
/-- "1.2.3.4\n" -/
private def bodyV4 : Bytes := b [0x31, 0x2e, 0x32, 0x2e, 0x33, 0x2e, 0x34, 0x0a]
/-- "<html>" -/
private def bodyJunk : Bytes := b [0x3c, 0x68, 0x74, 0x6d, 0x6c, 0x3e]

/-- provider 0 answers 404 (one attempt), provider 1 answers garbage (one attempt), provider 2 fails
    twice (503 with garbage is final! so a transport error and a read error are used) then a 500
    carrying an address: success at its third attempt; provider 3 is never contacted -/
private def exProviders : List Provider :=
  [ ⟨[.resp 404 bodyV4 1000, .resp 200 bodyV4 1000], [500, 750], callTimeout⟩,
    ⟨[.resp 200 bodyJunk 1000, .resp 200 bodyV4 1000], [500, 750], callTimeout⟩,
    ⟨[.transport 1000, .bodyErr 200 1000, .resp 500 bodyV4 1000], [500000000, 750000000], callTimeout⟩,
    ⟨[.resp 200 bodyV4 1000], [], callTimeout⟩ ]

example : (Enrich.get exProviders).result = some (2, b [0,0,0,0,0,0,0,0,0,0,255,255,1,2,3,4]) ∧
    (Enrich.get exProviders).trace.map (·.attempts) = [1, 1, 3] ∧
    firstValid exProviders = (Enrich.get exProviders).result := by decide

/-- a provider that only ever fails transiently is abandoned when its 2 s are over -/
example : (Provider.run ⟨[.transport 1000, .transport 1000, .transport 1000, .transport 1000],
    [500000000, 750000000, 1125000000, 1687500000], callTimeout⟩).out = .ctxDone := by decide

end Examples

#print axioms c18_names_exact
#print axioms c18_names_exact_partial
#print axioms c18_names_exact_full_false
#print axioms c18_names_from_same_address
#print axioms c18_failure_tolerant
#print axioms c18_fanout_any_interleaving
#print axioms c18_cache_hit_no_query
#print axioms c18_cache_never_stores_failure
#print axioms c18_cache_expiry
#print axioms c18_cache_sequential_spec
#print axioms c18_provider_order
#print axioms c18_provider_order_ctx
#print axioms c18_provider_later_never_queried
#print axioms c18_provider_final_one_attempt
#print axioms c18_provider_within_budget
end TRV.Props.C18
