import TRV.Generated.Filters
/-!
# Textual pin of the tuple direction at the filter-installation sites

`c12_sites_config` compares the Go SOURCE TEXT of the `FilterConfig` fields at the two sites that
install the tuple filter with the expected text.  It is a pin on the shape of the source, like the
`Tie*` theorems: hoisting `tcpAddr.AddrPort()` into a local changes the text and not the behaviour
(`controls/benign-r-B05-b.diff`).  It therefore lives in a `Tie` module: when it alone breaks, `./check`
escalates the search (the compose and source streams run the REAL installed program against the real
drivers, so a swapped tuple loses every reply) and reports TIE-DRIFT instead of a violation if nothing
differs.
-/
namespace TRV.Props.TieFilterSites
open TRV TRV.Generated.Filters

/-- The direction of the tuple at the sites that install the tuple filter: `Src` is the target
    (address and destination port probed), `Dst` the local address and port — source and destination
    as they appear in a *reply*.  Pinned on the Go source text of the `FilterConfig` fields (a swap
    would make the filter pass the probes and hide the replies). -/
theorem c12_sites_config :
    (filterSites.filter (·.kind == .tcp)).map (fun s => (s.file, s.src, s.dst)) = [
      ("sack/traceroute_sack.go", "p.Target", "tcpAddr.AddrPort()"),
      ("tcp/tcp_traceroute.go", "netip.AddrPortFrom(targetAddr, t.DestPort)", "netip.AddrPortFrom(localAddr, port)")] := by
  decide

#print axioms c12_sites_config

end TRV.Props.TieFilterSites
