import TRV.Proofs.Timed
import TRV.Props.C18
import TRV.Generated.PublicIPFacts
set_option linter.unusedSimpArgs false
set_option linter.unusedVariables false
/-!
# C08 — Bounded termination and prompt cancellation

Property theorems only (helper lemmas are in `TRV.Proofs.Timed`).  Models: `TRV.Timed`
(`serialT`, `parallelT`, `sackT`, `rdnsAll`, `HonoursCtx`) and `TRV.Enrich` (`GetPublicIP`).
All bounds hold for every script of every length, every cancellation instant, every send-duration
function; `DriverOK c σ script sd` = every `ReceiveProbe` call returns within `poll`, every
`SendProbe` within `σ`.  Times are on the model's clock (ns).
-/
namespace TRV.Props.C08
open TRV TRV.Engine TRV.Timed TRV.Spec.Timed TRV.Proofs.Timed

/-- **Serial runs are bounded by the per-TTL sum**: whatever the driver returns and whenever the
    caller cancels, `TracerouteSerial` returns within `count · (max timeout delay + poll + σ)`. -/
theorem c08_serial_bound (c : Cfg) (cancel : Option Nat) (sd : Nat → Nat) (sfail : Nat → Bool)
    (σ start : Nat) (script : List RCall) (hok : DriverOK c σ script sd) :
    (serialT c cancel sd sfail start script).finish ≤ start + serialBound c σ := by
  unfold serialT serialBound
  split
  · simp
  · exact serLoop_finish_le c cancel sd sfail σ hok.2 c.count c.min start script hok.1

/-- **Parallel runs are bounded by timeout + per-probe delays + one poll interval** (+ the time
    spent inside `SendProbe`): whatever the driver returns and whenever the caller cancels,
    `TracerouteParallel` returns within `timeout + count·delay + poll + count·σ`. -/
theorem c08_parallel_bound (c : Cfg) (cancel : Option Nat) (sd : Nat → Nat) (sfail : Nat → Bool)
    (σ start : Nat) (script : List RCall) (hok : DriverOK c σ script sd) :
    (parallelT c cancel sd sfail start script).finish ≤ start + parallelBound c σ := by
  unfold parallelT parallelBound
  split
  · simp
  · rename_i hv0
    have hv : validParams c.min c.max = true := by simpa using hv0
    dsimp only
    have hcnt := count_pos hv
    have hσ1 : σ ≤ c.count * σ := Nat.le_mul_of_pos_left σ hcnt
    have hdist : c.count * (c.delay + σ) = c.count * c.delay + c.count * σ := Nat.mul_add _ _ _
    have hstop := optMin_le_left (start + c.timeout + c.count * c.delay) cancel
    have hsd := hok.2 c.min
    generalize hstop0 : optMin (start + c.timeout + c.count * c.delay) cancel = stop0 at *
    generalize hr0 : (if start ≥ stop0 then start else start + sd c.min) = r0
    have hr0le : r0 ≤ start + σ := by subst hr0; split <;> omega
    have hr1 := recvT_end_le c stop0 script r0 hok.1
    generalize hws : optMin (optMin stop0 (recvT c stop0 r0 script).destAt) (recvT c stop0 r0 script).errAt = wstop
    have hs := sendT_end_le c wstop sd sfail σ hok.2 c.count c.min start
    have hr2 := recvT_end_le c (min stop0 (sendT c wstop sd sfail c.count c.min start).endAt) script r0 hok.1
    split
    · simp only; omega
    · simp only; omega

/-- **Prompt cancellation, serial**: when the caller cancels at `cc` (not before the start),
    `TracerouteSerial` has returned by `cc + poll + delay + σ`; and if the driver does not fail,
    a run still going on at `cc` returns the cancellation error (never a hop list). -/
theorem c08_cancel_serial (c : Cfg) (cc : Nat) (sd : Nat → Nat) (sfail : Nat → Bool)
    (σ start : Nat) (script : List RCall) (hok : DriverOK c σ script sd) (hstart : start ≤ cc) :
    (serialT c (some cc) sd sfail start script).finish ≤ cc + cancelBound c σ ∧
    (NoFail c script sfail → validParams c.min c.max = true →
      cc ≤ (serialT c (some cc) sd sfail start script).finish →
      (serialT c (some cc) sd sfail start script).result = .error .cancelled) := by
  unfold serialT cancelBound
  split
  · rename_i hv
    refine ⟨by simp; omega, ?_⟩
    intro _ hv'; simp [hv'] at hv
  · have := serLoop_cancel_le c cc sd sfail σ hok.2 c.count c.min start script hok.1
    refine ⟨by simp only; omega, ?_⟩
    intro hnf hv hfin
    simp only at hfin ⊢
    obtain ⟨hse, sl', hsl⟩ := serLoop_nofail c (some cc) sd sfail hnf.2 c.count c.min start script emptySlots hnf.1
    simp [serialRun, hv, hsl, hse, isCancelled, hfin]

/-- **Prompt cancellation, parallel**: when the caller cancels at `cc` (not before the start),
    `TracerouteParallel` has returned by `cc + poll + delay + σ`; and if the driver does not fail,
    a run still going on at `cc` returns the cancellation error (never a hop list). -/
theorem c08_cancel_parallel (c : Cfg) (cc : Nat) (sd : Nat → Nat) (sfail : Nat → Bool)
    (σ start : Nat) (script : List RCall) (hok : DriverOK c σ script sd) (hstart : start ≤ cc) :
    (parallelT c (some cc) sd sfail start script).finish ≤ cc + cancelBound c σ ∧
    (NoFail c script sfail → validParams c.min c.max = true →
      cc ≤ (parallelT c (some cc) sd sfail start script).finish →
      (parallelT c (some cc) sd sfail start script).result = .error .cancelled) := by
  unfold parallelT cancelBound
  split
  · rename_i hv
    refine ⟨by simp; omega, ?_⟩
    intro _ hv'; simp [hv'] at hv
  · dsimp only
    have hstop := optMin_le_some (start + c.timeout + c.count * c.delay) cc
    have hsd := hok.2 c.min
    generalize hstop0 : optMin (start + c.timeout + c.count * c.delay) (some cc) = stop0 at *
    generalize hr0 : (if start ≥ stop0 then start else start + sd c.min) = r0
    have hr0le : r0 ≤ start + σ := by subst hr0; split <;> omega
    have hr1 := recvT_end_le c stop0 script r0 hok.1
    have hw1 := optMin_le_left stop0 (recvT c stop0 r0 script).destAt
    have hw2 := optMin_le_left (optMin stop0 (recvT c stop0 r0 script).destAt) (recvT c stop0 r0 script).errAt
    generalize hws : optMin (optMin stop0 (recvT c stop0 r0 script).destAt) (recvT c stop0 r0 script).errAt = wstop at *
    have hs := sendT_end_stop c wstop sd sfail σ hok.2 c.count c.min start
    have hr2 := recvT_end_le c (min stop0 (sendT c wstop sd sfail c.count c.min start).endAt) script r0 hok.1
    refine ⟨by split <;> simp only <;> omega, ?_⟩
    intro hnf hv hfin
    have hsf := sendT_nofail c wstop sd sfail hnf.2 c.count c.min start
    simp only [hsf, Bool.false_and, Bool.false_eq_true, if_false] at hfin ⊢
    obtain ⟨sl', hsl⟩ := recvT_nofail c stop0 script r0 emptySlots hnf.1
    simp [parallelRun, hv, hsl, isCancelled, hfin]

/-- **SACK runs include the handshake budgets**: with the dial bounded by `D`
    (`net.Dialer.Timeout = HandshakeTimeout`) and the handshake read by `H` (its 500 ms read
    deadline plus one read), `runSackTraceroute` returns within `D + H` + the parallel bound,
    whether the dial or the handshake fail or the engine runs. -/
theorem c08_sack_bound (c : Cfg) (outer D H dialDur hsDur : Nat) (dialOK hsOK : Bool)
    (sd : Nat → Nat) (sfail : Nat → Bool) (σ start : Nat) (script : List RCall)
    (hok : DriverOK c σ script sd) (hd : dialDur ≤ D) (hh : hsDur ≤ H) :
    (sackT c outer dialDur dialOK hsDur hsOK sd sfail start script).2 ≤ start + sackBound c σ D H := by
  unfold sackT sackBound
  have := c08_parallel_bound c (some outer) sd sfail σ (start + dialDur + hsDur) script hok
  split
  · simp only; omega
  · split
    · simp only; omega
    · simp only; omega

/-- the regenerated fact: `getPublicIPUsingIPChecker` builds its request with the per-provider
    context (this line stops compiling when the extractor finds otherwise — finding F9) -/
theorem c08_publicip_request_carries_ctx : TRV.Generated.PublicIP.requestCarriesCtx = true := by decide

/-- **Public-IP discovery is bounded by providers × per-provider budget.**  Because the request
    carries the per-provider context (regenerated fact), `OpHonoursCtx` applies: an attempt returns
    at most `eps` after that context is done.  Then every provider's retry loop returns within its
    budget + `eps` and the whole discovery within `providers · (2 s + eps)` — whatever the
    endpoints do (hang before or after the headers, slow body). -/
theorem c08_publicip_bound (ps : List Enrich.Provider) (eps : Nat)
    (hb : ∀ p ∈ ps, p.budget ≤ Enrich.callTimeout)
    (hh : TRV.Generated.PublicIP.requestCarriesCtx = true →
      ∀ p ∈ ps, HonoursCtx p.budget eps p.script p.ivals 0) :
    (Enrich.get ps).elapsed ≤ ps.length * (Enrich.callTimeout + eps) ∧
    Enrich.callTimeout = TRV.Generated.PublicIP.callTimeoutNs := by
  have hfact := hh c08_publicip_request_carries_ctx
  exact ⟨getFrom_honours_le ps (fun p hp => ⟨hb p hp, hfact p hp⟩) 0, by decide⟩

/-- The same through `c18_provider_within_budget` (the coarser form: no single attempt outlives the
    budget by more than `eps`, so `op = 2 s + eps`): `providers · (2 s + (2 s + eps))`. -/
theorem c08_publicip_bound_c18 (ps : List Enrich.Provider) (eps : Nat)
    (hb : ∀ p ∈ ps, p.budget ≤ Enrich.callTimeout)
    (hh : TRV.Generated.PublicIP.requestCarriesCtx = true →
      ∀ p ∈ ps, ∀ a ∈ p.script, a.dur ≤ p.budget + eps) :
    (Enrich.get ps).elapsed ≤ ps.length * (Enrich.callTimeout + (Enrich.callTimeout + eps)) := by
  have hfact := hh c08_publicip_request_carries_ctx
  refine (TRV.Props.C18.c18_provider_within_budget ps Enrich.callTimeout (Enrich.callTimeout + eps) ?_).2
  intro p hp
  refine ⟨hb p hp, ?_⟩
  intro a ha
  have h1 := hfact p hp a ha
  have h2 := hb p hp
  omega

/-- **Reverse DNS is bounded by its 5 s context**: with a resolver that honours its context, the
    concurrent look-ups of `GetReverseDnsForIPs` have all returned after 5 s, however long each
    would take and however many there are. -/
theorem c08_rdns_bound (raws : List Nat) : rdnsAll true raws ≤ rdnsTimeout := by
  unfold rdnsAll
  apply foldl_max_le
  · omega
  · intro x hx
    simp only [List.mem_map] at hx
    obtain ⟨r, _, rfl⟩ := hx
    simp [rdnsLookup]; omega

/-! ## non-vacuity -/

section Examples

private def pA : Probe := { ttl := 1, ip := [10, 0, 0, 1], rtt := 7000000, dest := false }
private def pD : Probe := { ttl := 3, ip := [10, 0, 0, 9], rtt := 21000000, dest := true }
private def cfg : Cfg := { min := 1, max := 4, timeout := 3000000000, delay := 50000000, poll := 100000000 }
private def script : List RCall :=
  [⟨.retry, 100000000⟩, ⟨.accept pA, 30000001⟩, ⟨.retry, 100000000⟩, ⟨.accept pD, 5000000⟩]

/-- parallel: TTLs 1..4 are sent at 0/50/100/150 ms, the destination is seen at 235 ms; the receiver
    listens for the whole budget (3 s + 4·50 ms) and returns at its first poll boundary after it -/
example : (parallelT cfg none (fun _ => 0) (fun _ => false) 0 script).finish = 3235000001 ∧
    (parallelT cfg none (fun _ => 0) (fun _ => false) 0 script).sends =
      [(1, 0), (2, 50000000), (3, 100000000), (4, 150000000)] := by decide

/-- the same run cancelled at 1 s returns at the next poll boundary, well within the bound -/
example : (parallelT cfg (some 1000000500) (fun _ => 0) (fun _ => false) 0 script).finish = 1035000001 := by decide

/-- serial: windows 1 and 2 end early (reply / destination at TTL 3 read in window 2), finish = 235 ms -/
example : (serialT cfg none (fun _ => 0) (fun _ => false) 0 script).finish = 235000001 := by decide

/-- serial on a silent wire: four full windows of 3 s -/
example : (serialT cfg none (fun _ => 0) (fun _ => false) 0 []).finish = 12000000000 := by decide

example : serialBound cfg 0 = 12400000000 ∧ parallelBound cfg 0 = 3300000000 := by decide

end Examples

#print axioms c08_serial_bound
#print axioms c08_parallel_bound
#print axioms c08_cancel_serial
#print axioms c08_cancel_parallel
#print axioms c08_sack_bound
#print axioms c08_publicip_request_carries_ctx
#print axioms c08_publicip_bound
#print axioms c08_publicip_bound_c18
#print axioms c08_rdns_bound
end TRV.Props.C08
