import TRV.Model.Drivers
import TRV.Generated.LogicUdp
import TRV.Generated.LogicCommon
import TRV.Generated.LogicPackets
/-!
# Tie theorems: the UDP matcher model equals the decision tree REGENERATED from `udp/udp_driver.go`

Same method as `TRV/Props/TieIcmp.lean`.  `tie_udp_handle`: for every driver state and every parsed
packet the model's `udpRecv` (after `ReadAndParse`) is the regenerated tree of
`udpDriver.handleProbeLayers`, with the two `FrameParser` predicates it calls
(`IsTTLExceeded`, `IsDestinationUnreachable`) themselves instantiated from their regenerated trees
(`tie_isTTLExceeded`, `tie_isDestUnreachable`).

Reading of two atoms that is an assumption about code outside the tree: a stored `probeData` is never
the zero value (it carries `sendTime = time.Now()`), so `probe == (probeData{})` is "no probe found".
-/
namespace TRV.Props.TieUdp
open TRV TRV.Wire TRV.Drv TRV.Logic TRV.Generated

def kindOf (k : String) : String :=
  match (LogicUdp.sentinels ++ LogicCommon.sentinels.map (fun p => ("common." ++ p.1, "common." ++ p.2))).find? (·.1 = k) with
  | some p => p.2
  | none => k

def retryableKind (k : String) : Bool := k = "common.BadPacketError" || k = "common.ReceiveProbeNoPktError"

/-- what the engines make of the values `handleProbeLayers` returned; `probe` = the record the
    lookup atom stands for -/
def interp (probe : Option Sent) (src : Bytes) (r : R) : Out :=
  match r.get "1" with
  | some V.nil =>
    match r.get "0.TTL", r.get "0.IsDest", r.get "0.IP", probe with
    | some (V.int t), some (V.bool d), some (V.ref ip), some p =>
      if ip = "u.parser.GetIPPair().0.SrcAddr" then .accept t.toNat src d p.time else .fatal
    | _, _, _, _ => .fatal
  | some (V.err k) => if retryableKind (kindOf k) then .retry else .fatal
  | _ => .fatal

/-- the part of `udpRecv` after a successful `ReadAndParse` -/
def handle (s : UdpSt) (l3 : L3) (l4 : L4) : Out :=
  let info? : Option (Option ICMPInfo) := match l4 with
    | .icmp4 i => if (i.type = 11 ∧ i.code = 0) ∨ i.type = 3 then some (icmpInfo4 i) else none
    | .icmp6 i => if (i.type = 3 ∧ i.code = 0) ∨ i.type = 1 then some (icmpInfo6 i) else none
    | .tcp _ => none
  match info? with
  | none => .retry
  | some none => .retry
  | some (some info) =>
    if info.proto ≠ 17 then .retry else
    match quotedPorts info.payload with
    | none => .retry
    | some (sp, dp) =>
      if ¬ (info.qdst = s.cfg.target ∧ dp = s.cfg.tport) then .retry
      else if !s.cfg.loosen ∧ ¬ (info.qsrc = s.cfg.localA ∧ sp = s.cfg.lport) then .retry
      else match s.sent.find? (·.id = info.wrappedId) with
        | none => .retry
        | some p => .accept p.ttl l3.src (l3.src = s.cfg.target) p.time

theorem udpRecv_eq_handle (s : UdpSt) (pkt : Bytes) :
    udpRecv s pkt = if pkt.isEmpty then .fatal else
      match parse (pkt.take bufSize) with
      | none => .retry
      | some (l3, l4) => handle s l3 l4 := by
  unfold udpRecv
  by_cases h : pkt.isEmpty = true
  · simp [h]
  · simp only [h]
    cases parse (pkt.take bufSize) with
    | none => rfl
    | some v =>
      obtain ⟨l3, l4⟩ := v
      rfl

def layerCode : L4 → Int
  | .icmp4 _ => 1
  | .icmp6 _ => 2
  | .tcp _ => 3

/-- the model's reading of `IsTTLExceeded` -/
def isTE : L4 → Bool
  | .icmp4 i => decide (i.type = 11 ∧ i.code = 0)
  | .icmp6 i => decide (i.type = 3 ∧ i.code = 0)
  | .tcp _ => false

/-- the model's reading of `IsDestinationUnreachable` -/
def isDU : L4 → Bool
  | .icmp4 i => decide (i.type = 3)
  | .icmp6 i => decide (i.type = 1)
  | .tcp _ => false

def i4 : L4 → ICMP4
  | .icmp4 i => i
  | _ => ⟨0, 0, 0, 0, []⟩
def i6 : L4 → ICMP6
  | .icmp6 i => i
  | _ => ⟨0, 0, []⟩

/-- `FrameParser.IsTTLExceeded` (regenerated) on the model's view: type/code words `type*256+code`,
    the constants `CreateICMPv4TypeCode(11,0)`, `CreateICMPv6TypeCode(3,0)` -/
theorem tie_isTTLExceeded (l4 : L4) (h4 : (i4 l4).code < 256) (h6 : (i6 l4).code < 256) :
    (LogicPackets.IsTTLExceeded.run
      { «p.GetTransportLayer()» := layerCode l4
        «layers.LayerTypeICMPv4» := 1
        «layers.LayerTypeICMPv6» := 2
        «p.ICMP4.TypeCode» := (i4 l4).type * 256 + (i4 l4).code
        «layers.CreateICMPv4TypeCode(layers.ICMPv4TypeTimeExceeded, layers.ICMPv4CodeTTLExceeded)» := 11 * 256 + 0
        «p.ICMP6.TypeCode» := (i6 l4).type * 256 + (i6 l4).code
        «layers.CreateICMPv6TypeCode(layers.ICMPv6TypeTimeExceeded, layers.ICMPv6CodeHopLimitExceeded)» := 3 * 256 + 0 }).rets
      = [("0", V.bool (isTE l4))] := by
  cases l4 with
  | tcp t => simp [LogicPackets.IsTTLExceeded.run, layerCode, isTE]
  | icmp4 i =>
    simp only [i4] at h4
    simp [LogicPackets.IsTTLExceeded.run, layerCode, isTE, i4]
    by_cases ht : i.type = 11 <;> by_cases hc : i.code = 0 <;> simp [ht, hc] <;> omega
  | icmp6 i =>
    simp only [i6] at h6
    simp [LogicPackets.IsTTLExceeded.run, layerCode, isTE, i6]
    by_cases ht : i.type = 3 <;> by_cases hc : i.code = 0 <;> simp [ht, hc] <;> omega

theorem tie_isDestUnreachable (l4 : L4) :
    (LogicPackets.IsDestinationUnreachable.run
      { «p.GetTransportLayer()» := layerCode l4
        «layers.LayerTypeICMPv4» := 1
        «layers.LayerTypeICMPv6» := 2
        «p.ICMP4.TypeCode.Type()» := (i4 l4).type
        «p.ICMP6.TypeCode.Type()» := (i6 l4).type }).rets
      = [("0", V.bool (isDU l4))] := by
  cases l4 with
  | tcp t => simp [LogicPackets.IsDestinationUnreachable.run, layerCode, isDU]
  | icmp4 i => by_cases h : i.type = 3 <;> simp [LogicPackets.IsDestinationUnreachable.run, layerCode, isDU, i4, h]
  | icmp6 i => by_cases h : i.type = 1 <;> simp [LogicPackets.IsDestinationUnreachable.run, layerCode, isDU, i6, h]

def infoOf : L4 → Option ICMPInfo
  | .icmp4 i => icmpInfo4 i
  | .icmp6 i => icmpInfo6 i
  | .tcp _ => none

def dInfo : ICMPInfo := ⟨0, 0, [], [], []⟩
def dSent : Sent := ⟨0, 0, 0, 0⟩

/-- the record the lookup atoms stand for -/
def foundOf (s : UdpSt) (inf : Option ICMPInfo) : Option Sent := s.sent.find? (·.id = (inf.getD dInfo).wrappedId)

/-- the atoms of `handleProbeLayers` from: the layer code, the two predicates, the quoted information -/
def atomsOf (lc : Int) (te du : Bool) (inf : Option ICMPInfo) (s : UdpSt) (src : Bytes) : LogicUdp.handleProbeLayers.Atoms :=
  let info := inf.getD dInfo
  let ports := (quotedPorts info.payload).getD (0, 0)
  { «u.parser.GetIPPair().1 == nil» := true
    «u.parser.GetTransportLayer()» := lc
    «layers.LayerTypeICMPv4» := 1
    «layers.LayerTypeICMPv6» := 2
    «u.parser.IsTTLExceeded()» := te
    «u.parser.IsDestinationUnreachable()» := du
    «u.parser.GetICMPInfo().1 == nil» := inf.isSome
    «u.parser.GetICMPInfo().0.WrappedProtocol» := info.proto
    «packets.ParseUDPFirstBytes(u.parser.GetICMPInfo().0.Payload).1 == nil» := (quotedPorts info.payload).isSome
    «netip.AddrPortFrom(u.parser.GetICMPInfo().0.ICMPPair.DstAddr, packets.ParseUDPFirstBytes(u.parser.GetICMPInfo().0.Payload).0.DstPort) == u.getTargetAddrPort()» :=
      decide (info.qdst = s.cfg.target ∧ ports.2 = s.cfg.tport)
    «u.config.LoosenICMPSrc» := s.cfg.loosen
    «netip.AddrPortFrom(u.parser.GetICMPInfo().0.ICMPPair.SrcAddr, packets.ParseUDPFirstBytes(u.parser.GetICMPInfo().0.Payload).0.SrcPort) == u.getLocalAddrPort()» :=
      decide (info.qsrc = s.cfg.localA ∧ ports.1 = s.cfg.lport)
    «u.parser.GetICMPInfo().0.WrappedPacketID» := info.wrappedId
    «u.findMatchingProbe(probeID(u.parser.GetICMPInfo().0.WrappedPacketID)).1» := (foundOf s inf).isSome
    «u.findMatchingProbe(probeID(u.parser.GetICMPInfo().0.WrappedPacketID)).0 == probeData{}» := (foundOf s inf).isNone
    «time.Since(u.findMatchingProbe(probeID(u.parser.GetICMPInfo().0.WrappedPacketID)).0.sendTime)» := 0
    «u.findMatchingProbe(probeID(u.parser.GetICMPInfo().0.WrappedPacketID)).0.ttl» := ((foundOf s inf).getD dSent).ttl
    «u.parser.GetIPPair().0.SrcAddr == u.getTargetAddrPort().Addr()» := decide (src = s.cfg.target) }

def found (s : UdpSt) (l4 : L4) : Option Sent := foundOf s (infoOf l4)

/-- the atoms of `handleProbeLayers`, read off the model's view of a parsed packet -/
def atoms (s : UdpSt) (l3 : L3) (l4 : L4) : LogicUdp.handleProbeLayers.Atoms :=
  atomsOf (layerCode l4) (isTE l4) (isDU l4) (infoOf l4) s l3.src

/-- the model's tail once the quoted information is known -/
def rest (s : UdpSt) (src : Bytes) (info : ICMPInfo) : Out :=
  if info.proto ≠ 17 then .retry else
  match quotedPorts info.payload with
  | none => .retry
  | some (sp, dp) =>
    if ¬ (info.qdst = s.cfg.target ∧ dp = s.cfg.tport) then .retry
    else if !s.cfg.loosen ∧ ¬ (info.qsrc = s.cfg.localA ∧ sp = s.cfg.lport) then .retry
    else match s.sent.find? (·.id = info.wrappedId) with
      | none => .retry
      | some p => .accept p.ttl src (src = s.cfg.target) p.time

theorem kind_bad : retryableKind (kindOf "common.BadPacketError") = true := by decide
theorem kind_nomatch : retryableKind (kindOf "common.ErrPacketDidNotMatchTraceroute") = true := by decide

theorem interp_err (probe : Option Sent) (src : Bytes) (e : List String) (k : String) (h : retryableKind (kindOf k) = true) :
    interp probe src ⟨e, [("0", V.nil), ("1", V.err k)]⟩ = .retry := by
  simp [interp, R.get, h]

theorem interp_ok (p : Sent) (src : Bytes) (e : List String) (t rtt : Int) (d : Bool) :
    interp (some p) src ⟨e, [("0", V.ref "new common.ProbeResponse"), ("0.TTL", V.int t), ("0.IP", V.ref "u.parser.GetIPPair().0.SrcAddr"),
      ("0.RTT", V.int rtt), ("0.IsDest", V.bool d), ("1", V.nil)]⟩ = .accept t.toNat src d p.time := by
  simp [interp, R.get]

/-- the regenerated tree on an ICMP layer (either family), as a function of the two predicates and
    the quoted information -/
theorem core (s : UdpSt) (src : Bytes) (lc : Int) (hlc : lc = 1 ∨ lc = 2) (te du : Bool) (inf : Option ICMPInfo) :
    interp (foundOf s inf) src (LogicUdp.handleProbeLayers.run (atomsOf lc te du inf s src))
      = if !te && !du then .retry else
        match inf with
        | none => .retry
        | some info => rest s src info := by
  have hl : (lc == 1 || lc == 2) = true := by rcases hlc with h | h <;> simp [h]
  by_cases hk : (!te && !du) = true
  · simp [LogicUdp.handleProbeLayers.run, atomsOf, hl, hk, interp_err, kind_nomatch]
  · have hk' : (!te && !du) = false := by simpa using hk
    rcases inf with _ | info
    · simp [LogicUdp.handleProbeLayers.run, atomsOf, hl, hk', interp_err, kind_bad]
    · unfold rest
      by_cases hp : info.proto = 17
      · rcases hq : quotedPorts info.payload with _ | ⟨sp, dp⟩
        · simp [LogicUdp.handleProbeLayers.run, atomsOf, hl, hk', hp, hq, interp_err, kind_bad]
        · by_cases hd : info.qdst = s.cfg.target ∧ dp = s.cfg.tport
          · by_cases hs : (!s.cfg.loosen) = true ∧ ¬ (info.qsrc = s.cfg.localA ∧ sp = s.cfg.lport)
            · obtain ⟨hs1, hs2⟩ := hs
              have hl0 : s.cfg.loosen = false := by simpa using hs1
              simp [LogicUdp.handleProbeLayers.run, atomsOf, hl, hk', hp, hq, hd, hl0, hs2, interp_err, kind_nomatch]
            · have hs' : s.cfg.loosen = true ∨ (info.qsrc = s.cfg.localA ∧ sp = s.cfg.lport) := by
                by_cases hl1 : s.cfg.loosen = true
                · exact Or.inl hl1
                · right
                  have : (!s.cfg.loosen) = true := by simpa using hl1
                  exact Classical.byContradiction (fun h => hs ⟨this, h⟩)
              rcases hf : s.sent.find? (·.id = info.wrappedId) with _ | p
              · rcases hs' with h1 | h1 <;>
                  simp [LogicUdp.handleProbeLayers.run, atomsOf, foundOf, dInfo, hl, hk', hp, hq, hd, h1, hf, interp_err, kind_nomatch]
              · rcases hs' with h1 | h1 <;>
                  simp [LogicUdp.handleProbeLayers.run, atomsOf, foundOf, dInfo, hl, hk', hp, hq, hd, h1, hf, interp_ok]
          · simp [LogicUdp.handleProbeLayers.run, atomsOf, hl, hk', hp, hq, hd, interp_err, kind_nomatch]
      · simp [LogicUdp.handleProbeLayers.run, atomsOf, hl, hk', hp, interp_err, kind_nomatch]

/-- for every driver state and every parsed packet, the model's UDP matcher is the decision tree
    regenerated from `udpDriver.handleProbeLayers` -/
theorem tie_udp_handle (s : UdpSt) (l3 : L3) (l4 : L4) :
    interp (found s l4) l3.src (LogicUdp.handleProbeLayers.run (atoms s l3 l4)) = handle s l3 l4 := by
  cases l4 with
  | tcp t => simp [LogicUdp.handleProbeLayers.run, atoms, atomsOf, handle, layerCode, interp_err, kind_nomatch]
  | icmp4 i =>
    unfold atoms found
    simp only [layerCode]
    rw [core s l3.src 1 (Or.inl rfl)]
    by_cases h1 : i.type = 11 ∧ i.code = 0 <;> by_cases h2 : i.type = 3 <;>
      rcases hi : icmpInfo4 i with _ | info <;>
      simp [handle, isTE, isDU, infoOf, rest, h1, h2, hi]
  | icmp6 i =>
    unfold atoms found
    simp only [layerCode]
    rw [core s l3.src 2 (Or.inr rfl)]
    by_cases h1 : i.type = 3 ∧ i.code = 0 <;> by_cases h2 : i.type = 1 <;>
      rcases hi : icmpInfo6 i with _ | info <;>
      simp [handle, isTE, isDU, infoOf, rest, h1, h2, hi]

#print axioms udpRecv_eq_handle
#print axioms tie_isTTLExceeded
#print axioms tie_isDestUnreachable
#print axioms kind_bad
#print axioms kind_nomatch
#print axioms interp_err
#print axioms interp_ok
#print axioms core
#print axioms tie_udp_handle

end TRV.Props.TieUdp
