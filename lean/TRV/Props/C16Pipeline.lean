import TRV.Props.C16
/-!
# C16 over the whole pipeline: the FINISHED document of `RunTraceroute`

`RunTraceroute` (traceroute/traceroute.go) builds the document from what `runTracerouteMulti`
collected — the successful runs in completion order and one sample per end-to-end probe — then calls
`Normalize()` and, when asked, `RemovePrivateHops()`.  `finish` is that composition over the models
of C15 (what is collected), C16 (`normalize`) and C17 (`removePrivate`).  The theorems state the
property for the document the caller receives, for every collection of runs (each with at least one
hop, as C03 guarantees, hops as `ToHops` leaves them) and samples — zero runs (an end-to-end-only
request) and zero samples (a traceroute-only request) included — with and without redaction.
-/
namespace TRV.Props.C16Pipeline
open TRV TRV.Result TRV.ResSpec

/-- what `runTracerouteMulti` hands to `RunTraceroute` -/
def assemble (runs : List Run) (rtts : List Rat) : Doc := { runs := runs, e2e := { rtts := rtts } }

/-- `RunTraceroute` after `runTracerouteMulti` succeeded (reverse DNS aside: it writes no field the
    predicate reads) -/
def finish (draws : List Nat) (skipPrivate : Bool) (runs : List Run) (rtts : List Rat) : Doc :=
  let d := normalize draws (assemble runs rtts)
  if skipPrivate then removePrivate d else d

private theorem assemble_fresh {runs : List Run} {rtts : List Rat}
    (hf : ∀ r ∈ runs, ∀ h ∈ r.hops, h.reachable = false) : Fresh (assemble runs rtts) :=
  ⟨hf, rfl, ⟨rfl, rfl, rfl, rfl, rfl, rfl, rfl⟩⟩

private theorem longestRun_map_hops (f : Hop → Hop) : ∀ (rs : List Run),
    longestRun (rs.map fun r => { r with hops := r.hops.map f }) = longestRun rs
  | [] => rfl
  | r :: rs => by simp [longestRun, longestRun_map_hops f rs]

/-- redaction keeps the document consistent: a redacted entry has neither an address nor the
    reachable flag, run lengths and every statistic are untouched -/
theorem c16_redaction_keeps_consistent {d : Doc} (h : Consistent d) : Consistent (removePrivate d) := by
  obtain ⟨h1, h2, h3, h4, h5, h6, h7⟩ := h
  refine ⟨?_, h2, ?_, h4, h5, h6, h7⟩
  · intro r hr x hx
    simp only [removePrivate, List.mem_map] at hr
    obtain ⟨r0, hr0, rfl⟩ := hr
    simp only [List.mem_map] at hx
    obtain ⟨x0, hx0, rfl⟩ := hx
    unfold redactHop
    split
    · simp [HasAddr]
    · exact h1 r0 hr0 x0 hx0
  · intro hne
    have hne0 : d.runs ≠ [] := by
      intro h0; apply hne; simp [removePrivate, h0]
    obtain ⟨a, b⟩ := h3 hne0
    refine ⟨a, ?_⟩
    simp only [removePrivate]
    rw [longestRun_map_hops]
    exact b

/-- the finished document is self-consistent, whatever was collected -/
theorem c16_pipeline_consistent (draws : List Nat) (skipPrivate : Bool) (runs : List Run) (rtts : List Rat)
    (hne : ∀ r ∈ runs, r.hops ≠ []) (hf : ∀ r ∈ runs, ∀ h ∈ r.hops, h.reachable = false) :
    Consistent (finish draws skipPrivate runs rtts) := by
  have hc := TRV.Props.C16.c16_consistent draws (assemble runs rtts) (assemble_fresh hf) hne
  unfold finish
  cases skipPrivate
  · exact hc
  · exact c16_redaction_keeps_consistent hc



/-- identifiers of the finished document: pairwise distinct whenever the generator's draws are -/
theorem c16_pipeline_ids (draws : List Nat) (skipPrivate : Bool) (runs : List Run) (rtts : List Rat)
    (hnd : draws.Nodup) (hlen : runs.length + 1 ≤ draws.length) :
    IdsDistinct (finish draws skipPrivate runs rtts) := by
  have h := TRV.Props.C16.c16_ids_distinct draws (assemble runs rtts) hnd hlen
  unfold finish
  cases skipPrivate
  · exact h
  · unfold IdsDistinct at *
    simpa [removePrivate, List.map_map, Function.comp_def] using h

/-- an end-to-end-only request (no runs at all): packets sent = the sample count, received = the
    positive samples, loss = 1/3 — evaluated by the kernel on the finished document -/
example :
    let d := finish [7] false [] [(3 : Rat) / 2, 0, (5 : Rat) / 4]
    d.e2e.sent = 3 ∧ d.e2e.received = 2 ∧ d.e2e.loss = (1 : Rat) / 3 ∧ d.testRunId = 7 := by decide +kernel

#print axioms c16_redaction_keeps_consistent
#print axioms c16_pipeline_consistent
#print axioms c16_pipeline_ids
end TRV.Props.C16Pipeline
