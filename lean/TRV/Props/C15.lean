import TRV.Proofs.Multi
/-!
# C15 — Multi-query request is all-or-error with exact counts

Property theorems only.  `outs` lists the outcome of every requested run and e2e probe in request
order; `cs` is the order in which the calls actually completed — ANY permutation of `outs`
(`cs.Perm outs`); `pub` is the outcome of the public-IP goroutine.  All theorems hold for any number
of runs and probes.
-/
namespace TRV.Props.C15
open TRV.Multi TRV.Spec.Multi TRV.Proofs.Multi

/-- The request succeeds exactly when every requested run and every e2e probe succeeded, whatever
    the completion order and whatever the public-IP outcome. -/
theorem c15_success_iff_all_ok {cs outs : List Completion} (hp : cs.Perm outs) (pub : PubIP) :
    (∃ r, aggregate cs pub = .ok r) ↔ allOk outs = true := by
  rw [aggregate_eq, ← allOk_perm hp]
  by_cases h : allOk cs = true <;> simp [h]

/-- On success the result holds exactly the requested number of runs and exactly the requested
    number of RTT samples (a probe that reached nothing is the sample `0`, it is still counted). -/
theorem c15_counts {cs outs : List Completion} (hp : cs.Perm outs) (pub : PubIP) {r : Results}
    (h : aggregate cs pub = .ok r) :
    r.runs.length = nRuns outs ∧ r.rtts.length = nProbes outs := by
  rw [aggregate_eq] at h
  by_cases hk : allOk cs = true
  · simp only [hk, if_true, Res.ok.injEq] at h
    subst h
    refine ⟨?_, ?_⟩
    · simpa [nRuns_perm hp] using okRuns_length_of_allOk cs hk
    · rw [← samples_of_allOk cs hk, samples_length, nProbes_perm hp]
  · simp [hk] at h

/-- Nothing lost, nothing duplicated: on success the runs in the result are, as a multiset, exactly
    the results of the requested runs, and the samples are exactly the probes' samples — for every
    completion order. -/
theorem c15_no_loss_no_dup {cs outs : List Completion} (hp : cs.Perm outs) (pub : PubIP) {r : Results}
    (h : aggregate cs pub = .ok r) :
    r.runs.Perm (okRuns outs) ∧ r.rtts.Perm (okRtts outs) := by
  rw [aggregate_eq] at h
  by_cases hk : allOk cs = true
  · simp only [hk, if_true, Res.ok.injEq] at h
    subst h
    exact ⟨hp.filterMap _, hp.filterMap _⟩
  · simp [hk] at h

/-- If anything failed there is no result, and the joined error consists of every individual failure
    exactly once (as a multiset it IS the list of failures; in particular each failing call's error
    is a member, and its multiplicity equals the number of calls that failed with it). -/
theorem c15_errors_all_exposed {cs outs : List Completion} (hp : cs.Perm outs) (pub : PubIP)
    (hfail : allOk outs = false) :
    ∃ es, aggregate cs pub = .joined es ∧ es.Perm (failures outs) ∧
      (∀ e, es.count e = (failures outs).count e) ∧ (∀ r, aggregate cs pub ≠ .ok r) := by
  have hk : allOk cs = false := by rw [allOk_perm hp]; exact hfail
  have hperm : (failures cs).Perm (failures outs) := hp.filterMap _
  refine ⟨failures cs, ?_, hperm, fun e => hperm.count_eq e, ?_⟩
  · rw [aggregate_eq]; simp [hk]
  · intro r; rw [aggregate_eq]; simp [hk]

/-- The public-IP outcome never decides success or failure, never changes the runs, the samples or
    the joined error; it only fills `Source.PublicIP` when it succeeded. -/
theorem c15_pubip_never_fails (cs : List Completion) (pub : PubIP) :
    aggregate cs pub =
      match aggregate cs .off with
      | .ok r => .ok { r with publicIP := pubOf pub }
      | .joined es => .joined es := by
  rw [aggregate_eq, aggregate_eq]
  by_cases h : allOk cs = true <;> simp [h]

/-- The executable contract used by the harness on the implementation's output holds of the model
    for every completion order (ties the `Spec` predicate to the theorems above). -/
theorem c15_spec_holds {cs outs : List Completion} (hp : cs.Perm outs) (pub : PubIP) :
    allOrError outs (aggregate cs pub) = true := by
  by_cases hk : allOk outs = true
  · obtain ⟨r, hr⟩ := (c15_success_iff_all_ok hp pub).mpr hk
    have hc := c15_counts hp pub hr
    have hn := c15_no_loss_no_dup hp pub hr
    simp [hr, allOrError, hk, hc.1, hc.2, List.isPerm_iff, hn.1, hn.2]
  · have hk' : allOk outs = false := by simpa using hk
    obtain ⟨es, he, hperm, _, _⟩ := c15_errors_all_exposed hp pub hk'
    simp [he, allOrError, hk', List.isPerm_iff, hperm]

/-- non-vacuity: three runs and two probes completing out of order, all succeed -/
example :
    aggregate [.probe 1 (.ok 7), .run 2 (.ok 30), .run 0 (.ok 10), .probe 0 (.ok 0), .run 1 (.ok 20)] (.ok 99)
      = .ok { runs := [30, 10, 20], rtts := [7, 0], publicIP := some 99 } := by decide

/-- non-vacuity: a failing run and a failing probe, public IP fine: no result, both errors, once each -/
example :
    aggregate [.probe 1 (.err 501), .run 2 (.ok 30), .run 0 (.err 500), .probe 0 (.ok 3)] (.ok 99)
      = .joined [501, 500] := by decide

/-- non-vacuity: public-IP failure alone does not fail the request -/
example : aggregate [.run 0 (.ok 10), .probe 0 (.ok 3)] .err
      = .ok { runs := [10], rtts := [3], publicIP := none } := by decide

#print axioms c15_success_iff_all_ok
#print axioms c15_counts
#print axioms c15_no_loss_no_dup
#print axioms c15_errors_all_exposed
#print axioms c15_pubip_never_fails
#print axioms c15_spec_holds
end TRV.Props.C15
