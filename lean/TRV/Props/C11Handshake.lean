import TRV.Proofs.Handshake
/-!
# C11 / C20 — the SACK handshake adopts only its own connection's SYN-ACK

While `ReadHandshake` runs, the capture filter admits every SYN-ACK that reaches the machine — in
particular those of other SACK traceroutes running at the same time, to the same target and port.
Theorems over `TRV.Drv.hsRead` (tied to the real `ReadHandshake` by the `hs` correspondence stream):

* `c11_handshake_adopts_own_connection` — the sequence/acknowledgement base the run adopts was read
  off a SYN-ACK from the target's address and port TO THIS RUN'S OWN local address and port;
* `c11_handshake_foreign_invisible` — any packets that are not that (other connections' SYN-ACKs,
  whichever of the four tuple components differs; non-SYN-ACK segments; anything else) captured
  before it leave the outcome unchanged;
* `c20_handshake_not_supported_only_without_sack_permitted`, `c20_handshake_done_has_sack_permitted`
  — "not supported" is reported exactly for an own SYN-ACK without a SACK-permitted option, and a
  handshake only completes on one that carries it.
-/
namespace TRV.Props.C11Handshake
open TRV TRV.Wire TRV.Drv TRV.Proofs

theorem c11_handshake_adopts_own_connection {localA target : Bytes} {lport tport : Nat} {pkts : List Bytes}
    {isn iack : Nat} {ts : Option (Nat × Nat)}
    (h : hsRead localA target lport tport pkts = .done isn iack ts) :
    ∃ p ∈ pkts, ∃ t, OwnSynAck localA target lport tport p t ∧ isn = t.ack ∧ iack = (t.seq + 1) % 4294967296 := by
  obtain ⟨pre, p, post, he, _, hp, _⟩ := hsRead_inv pkts h (by simp)
  obtain ⟨t, hown, hc⟩ := hsRecv_own hp (by simp) (by simp)
  refine ⟨p, by rw [he]; simp, t, hown, ?_⟩
  rcases hc with ⟨h1, _⟩ | ⟨h1, _⟩ | ⟨ts', h1, _⟩
  · cases h1
  · cases h1
  · injection h1 with a b c; exact ⟨a, b⟩

theorem c11_handshake_foreign_invisible {localA target : Bytes} {lport tport : Nat} (pre post : List Bytes)
    (h : ∀ q ∈ pre, q ≠ [] ∧ ∀ t, ¬ OwnSynAck localA target lport tport q t) :
    hsRead localA target lport tport (pre ++ post) = hsRead localA target lport tport post :=
  hsRead_append_skip pre post (fun q hq => hsRecv_foreign (h q hq).1 (h q hq).2)

/-- a TCP segment whose destination port is not this run's local port (the SYN-ACK of a concurrent
    run to the same target), or whose source port / addresses differ, is not "own" -/
theorem c11_handshake_other_tuple_not_own {localA target : Bytes} {lport tport : Nat} {pkt : Bytes} {l3 : L3} {t : TCP}
    (hp : parse (pkt.take bufSize) = some (l3, .tcp t))
    (hd : t.dport ≠ lport ∨ t.sport ≠ tport ∨ l3.src ≠ target ∨ l3.dst ≠ localA) :
    ∀ t', ¬ OwnSynAck localA target lport tport pkt t' := by
  rintro t' ⟨l3', hp', h1, h2, h3, h4, _, _⟩
  rw [hp] at hp'
  injection hp' with e
  injection e with e1 e2
  injection e2 with e3
  subst e1; subst e3
  rcases hd with h | h | h | h
  · exact h h4
  · exact h h3
  · exact h h1
  · exact h h2

theorem c20_handshake_not_supported_only_without_sack_permitted {localA target : Bytes} {lport tport : Nat} {pkts : List Bytes}
    (h : hsRead localA target lport tport pkts = .notSupported) :
    ∃ p ∈ pkts, ∃ t, OwnSynAck localA target lport tport p t ∧ ∀ d, (4, d) ∉ t.opts := by
  obtain ⟨pre, p, post, he, _, hp, _⟩ := hsRead_inv pkts h (by simp)
  obtain ⟨t, hown, hc⟩ := hsRecv_own hp (by simp) (by simp)
  refine ⟨p, by rw [he]; simp, t, hown, ?_⟩
  rcases hc with ⟨h1, _⟩ | ⟨_, ts, h2⟩ | ⟨ts', h1, _⟩
  · cases h1
  · exact hsOpts_false_no4 _ _ _ h2
  · cases h1

theorem c20_handshake_done_has_sack_permitted {localA target : Bytes} {lport tport : Nat} {pkts : List Bytes}
    {isn iack : Nat} {ts : Option (Nat × Nat)}
    (h : hsRead localA target lport tport pkts = .done isn iack ts) :
    ∃ p ∈ pkts, ∃ t, OwnSynAck localA target lport tport p t ∧ ∃ d, (4, d) ∈ t.opts := by
  obtain ⟨pre, p, post, he, _, hp, _⟩ := hsRead_inv pkts h (by simp)
  obtain ⟨t, hown, hc⟩ := hsRecv_own hp (by simp) (by simp)
  refine ⟨p, by rw [he]; simp, t, hown, ?_⟩
  rcases hc with ⟨h1, _⟩ | ⟨h1, _⟩ | ⟨ts', _, h2⟩
  · cases h1
  · cases h1
  · exact hsOpts_true_has4 _ _ _ h2

/-- non-vacuity (kernel evaluation): the SYN-ACK Linux sends (MSS, SACK-permitted, timestamps, NOP,
    window scale) from 198.51.100.9:443 to 192.0.2.2:50000 completes the handshake of the run that
    owns local port 50000 — also when the SYN-ACK of a concurrent run (local port 50001) to the same
    target and a plain ACK were captured first — and is skipped by the run that owns port 50001 -/
def synack (dport : Nat) (flags : Nat) : Bytes :=
  ([0x45,0,0,0x3c, 0,0,0x40,0, 0x40,6,0,0, 198,51,100,9, 192,0,2,2,
    0x01,0xbb, dport / 256, dport % 256, 1,2,3,4, 0x0a,0x0b,0x0c,0x0d, 0xa0, flags, 0xff,0xff, 0,0, 0,0,
    2,4,5,0xb4, 4,2, 8,10,0,0,0,1,0,0,0,2, 1, 3,3,7] : List Nat).map byte

example :
    hsRead [192,0,2,2] [198,51,100,9] 50000 443 [synack 50001 0x12, synack 50000 0x10, synack 50000 0x12] =
      .done 0x0a0b0c0d 0x01020305 (some (52, 1)) ∧
    hsRead [192,0,2,2] [198,51,100,9] 50001 443 [synack 50000 0x12] = .timeout := by decide +kernel

#print axioms c11_handshake_adopts_own_connection
#print axioms c11_handshake_foreign_invisible
#print axioms c11_handshake_other_tuple_not_own
#print axioms c20_handshake_not_supported_only_without_sack_permitted
#print axioms c20_handshake_done_has_sack_permitted
end TRV.Props.C11Handshake
