import TRV.Model.Drivers
import TRV.Model.Alloc
import TRV.Generated.LogicIcmp
import TRV.Generated.LogicCommon
import TRV.Proofs.BeNat
/-!
# Tie theorems: the ICMP matcher model equals the decision tree REGENERATED from `icmp/icmp_driver.go`

`TRV.Generated.LogicIcmp.handleProbeLayers.run` is the complete decision tree of
`icmpDriver.handleProbeLayers` as the translator reads it off the current source (every `if`, every
`switch` arm, every returned error kind and every field of the returned `ProbeResponse`, with Go's
integer semantics: `uint8(seq)` is `seq % 256`, `uint16(echo.ID)` is `% 65536`).  `atoms` reads the
uninterpreted sub-expressions off the MODEL's view of the packet (`TRV.Wire.parse`, `icmpInfo4/6`,
`parseEcho4`, `extractEcho6`, `icmpLookup`); `interp` maps what the tree returns to the model's
outcome classes (error kinds through the regenerated sentinel tables).  `tie_icmp_handle` proves that,
for every driver state and every parsed packet, the model's matcher IS the regenerated tree.
Together with `icmpRecv_eq_handle` this connects `TRV.Drv.icmpRecv` — the function all C01/C02/C04/C05/C09/C11
theorems about the ICMP variant speak about — to the source text.
-/
namespace TRV.Props.TieIcmp
open TRV TRV.Wire TRV.Drv TRV.Logic TRV.Generated

/-- kind of an error value: sentinels are replaced by the kind of the value they are initialised with
    (tables regenerated from `icmp/` and `common/`) -/
def kindOf (k : String) : String :=
  match (LogicIcmp.sentinels ++ LogicCommon.sentinels.map (fun p => ("common." ++ p.1, "common." ++ p.2))).find? (·.1 = k) with
  | some p => p.2
  | none => k

/-- `CheckProbeRetryable` on a kind: bad-packet and no-packet errors are skipped, anything else is fatal -/
def retryableKind (k : String) : Bool := k = "common.BadPacketError" || k = "common.ReceiveProbeNoPktError"

/-- what the engines make of the values `handleProbeLayers` returned -/
def interp (s : IcmpSt) (src : Bytes) (r : R) : Out :=
  match r.get "1" with
  | some V.nil =>
    match r.get "0.TTL", r.get "0.IsDest", r.get "0.IP" with
    | some (V.int t), some (V.bool d), some (V.ref ip) =>
      if ip = "parser.GetIPPair().0.SrcAddr" then
        match s.find t.toNat with
        | some p => .accept t.toNat src d p.time
        | none => .fatal
      else .fatal
    | _, _, _ => .fatal
  | some (V.err k) => if retryableKind (kindOf k) then .retry else .fatal
  | _ => .fatal

/-- the part of `icmpRecv` after a successful `ReadAndParse` -/
def handle (s : IcmpSt) (l3 : L3) (l4 : L4) : Out :=
  match l4 with
  | .icmp4 i =>
    if i.type = 11 then
      match icmpInfo4 i with
      | none => .retry
      | some info =>
        if info.qdst ≠ s.cfg.target then .retry
        else if info.qsrc ≠ s.cfg.localA then .retry
        else if info.proto ≠ 1 then .retry
        else
          match parseEcho4 info.payload with
          | none => .retry
          | some (id, seq) =>
            if id ≠ s.cfg.echoId then .retry
            else match icmpLookup s seq with
              | none => .retry
              | some p => .accept seq l3.src false p.time
    else if i.type = 0 then
      if i.id ≠ s.cfg.echoId then .retry
      else if l3.src ≠ s.cfg.target then .retry
      else match icmpLookup s i.seq with
        | none => .retry
        | some p => .accept i.seq l3.src true p.time
    else .retry
  | .icmp6 i =>
    if i.type = 3 then
      match icmpInfo6 i with
      | none => .retry
      | some info =>
        if info.qdst ≠ s.cfg.target then .retry
        else if info.qsrc ≠ s.cfg.localA then .retry
        else if info.proto ≠ 58 then .retry
        else
          match extractEcho6 info.payload with
          | none => .retry
          | some (id, seq) =>
            if id ≠ s.cfg.echoId then .retry
            else match icmpLookup s seq with
              | none => .retry
              | some p => .accept seq l3.src false p.time
    else if i.type = 129 then
      match u16 i.payload 0, u16 i.payload 2 with
      | some id, some seq =>
        if id ≠ s.cfg.echoId then .retry
        else if l3.src ≠ s.cfg.target then .retry
        else match icmpLookup s seq with
          | none => .retry
          | some p => .accept seq l3.src true p.time
      | _, _ => .retry
    else .retry
  | .tcp _ => .retry

/-- `icmpRecv` = read check, parse, then `handle` -/
theorem icmpRecv_eq_handle (s : IcmpSt) (pkt : Bytes) :
    icmpRecv s pkt = if pkt.isEmpty then .fatal else
      match parse (pkt.take bufSize) with
      | none => .retry
      | some (l3, l4) => handle s l3 l4 := by
  unfold icmpRecv
  by_cases h : pkt.isEmpty = true
  · simp [h]
  · simp only [h]
    cases parse (pkt.take bufSize) with
    | none => rfl
    | some v =>
      obtain ⟨l3, l4⟩ := v
      cases l4 <;> rfl

/-- `Compare` of two addresses: 0 iff equal (only the zero test is used by the code) -/
def cmp (a b : Bytes) : Int := if a = b then 0 else 1

/-- quoted information of either family -/
def infoOf : L4 → Option ICMPInfo
  | .icmp4 i => icmpInfo4 i
  | .icmp6 i => icmpInfo6 i
  | .tcp _ => none

def dInfo : ICMPInfo := ⟨0, 0, [], [], []⟩

/-- the atoms of `handleProbeLayers`, read off the model's view of a parsed packet -/
def atoms (s : IcmpSt) (l3 : L3) (l4 : L4) : LogicIcmp.handleProbeLayers.Atoms :=
  let info := (infoOf l4).getD dInfo
  let e4 := (parseEcho4 info.payload).getD (0, 0)
  let e6 := (extractEcho6 info.payload).getD (0, 0)
  let i4 : ICMP4 := match l4 with | .icmp4 i => i | _ => ⟨0, 0, 0, 0, []⟩
  let i6 : ICMP6 := match l4 with | .icmp6 i => i | _ => ⟨0, 0, []⟩
  let r2 := (u16 i6.payload 2).getD 0
  { «parser.GetIPPair().1 == nil» := true
    «parser.GetTransportLayer()» := match l4 with | .icmp4 _ => 1 | .icmp6 _ => 2 | .tcp _ => 3
    «layers.LayerTypeICMPv4» := 1
    «layers.LayerTypeICMPv6» := 2
    «parser.ICMP4.TypeCode.Type()» := i4.type
    «parser.GetICMPInfo().1 == nil» := (infoOf l4).isSome
    «parser.GetICMPInfo().0.ICMPPair.DstAddr.Compare(s.params.Target)» := cmp info.qdst s.cfg.target
    «parser.GetICMPInfo().0.ICMPPair.SrcAddr.Compare(s.localAddr)» := cmp info.qsrc s.cfg.localA
    «parser.GetICMPInfo().0.WrappedProtocol» := info.proto
    «icmp.ParseMessage(ipv4.ICMPTypeEcho.Protocol(), parser.GetICMPInfo().0.Payload).1 == nil» := (parseEcho4 info.payload).isSome
    «icmp.ParseMessage(ipv4.ICMPTypeEcho.Protocol(), parser.GetICMPInfo().0.Payload).0.Body.(*icmp.Echo).1» := true
    «icmp.ParseMessage(ipv4.ICMPTypeEcho.Protocol(), parser.GetICMPInfo().0.Payload).0.Body.(*icmp.Echo).0.ID» := (e4.1 : Int)
    «s.echoID» := s.cfg.echoId
    «s.getRTTFromRelSeq(uint16(icmp.ParseMessage(ipv4.ICMPTypeEcho.Protocol(), parser.GetICMPInfo().0.Payload).0.Body.(*icmp.Echo).0.Seq)).0» := 0
    «s.getRTTFromRelSeq(uint16(icmp.ParseMessage(ipv4.ICMPTypeEcho.Protocol(), parser.GetICMPInfo().0.Payload).0.Body.(*icmp.Echo).0.Seq)).1 == nil» := (icmpLookup s e4.2).isSome
    «icmp.ParseMessage(ipv4.ICMPTypeEcho.Protocol(), parser.GetICMPInfo().0.Payload).0.Body.(*icmp.Echo).0.Seq» := (e4.2 : Int)
    «parser.ICMP4.Id» := i4.id
    «parser.GetIPPair().0.SrcAddr.Compare(s.params.Target)» := cmp l3.src s.cfg.target
    «s.getRTTFromRelSeq(parser.ICMP4.Seq).0» := 0
    «s.getRTTFromRelSeq(parser.ICMP4.Seq).1 == nil» := (icmpLookup s i4.seq).isSome
    «parser.ICMP4.Seq» := i4.seq
    «parser.ICMP6.TypeCode.Type()» := i6.type
    «extractEchoRequest(parser.GetICMPInfo().0).1 == nil» := (extractEcho6 info.payload).isSome
    «extractEchoRequest(parser.GetICMPInfo().0).0.Identifier» := e6.1
    «s.getRTTFromRelSeq(extractEchoRequest(parser.GetICMPInfo().0).0.SeqNumber).0» := 0
    «s.getRTTFromRelSeq(extractEchoRequest(parser.GetICMPInfo().0).0.SeqNumber).1 == nil» := (icmpLookup s e6.2).isSome
    «extractEchoRequest(parser.GetICMPInfo().0).0.SeqNumber» := e6.2
    «parser.ICMP6.Payload» := i6.payload
    «s.getRTTFromRelSeq(binary.BigEndian.Uint16(parser.ICMP6.Payload[2:4])).0» := 0
    «s.getRTTFromRelSeq(binary.BigEndian.Uint16(parser.ICMP6.Payload[2:4])).1 == nil» := (icmpLookup s r2).isSome }

theorem lookup_some {s : IcmpSt} {seq : Nat} {p : Sent} (h : icmpLookup s seq = some p) :
    seq ≤ 255 ∧ s.find seq = some p := by
  unfold icmpLookup at h
  split at h
  · cases h
  · split at h
    · cases h
    · exact ⟨by omega, h⟩

theorem kind_bad : retryableKind (kindOf "common.BadPacketError") = true := by decide
theorem kind_nomatch : retryableKind (kindOf "common.ErrPacketDidNotMatchTraceroute") = true := by decide
theorem kind_nomatch_local : retryableKind (kindOf "errPacketDidNotMatchTraceroute") = true := by decide


theorem interp_err (s : IcmpSt) (src : Bytes) (e : List String) (k : String) (h : retryableKind (kindOf k) = true) :
    interp s src ⟨e, [("0", V.nil), ("1", V.err k)]⟩ = .retry := by
  simp [interp, R.get, h]

theorem interp_ok (s : IcmpSt) (src : Bytes) (e : List String) (t rtt : Int) (d : Bool) :
    interp s src ⟨e, [("0", V.ref "new common.ProbeResponse"), ("0.TTL", V.int t), ("0.IP", V.ref "parser.GetIPPair().0.SrcAddr"),
      ("0.RTT", V.int rtt), ("0.IsDest", V.bool d), ("1", V.nil)]⟩
      = match s.find t.toNat with
        | some p => .accept t.toNat src d p.time
        | none => .fatal := by
  simp [interp, R.get]

theorem u8_lt {b : Bytes} {k v : Nat} (h : u8 b k = some v) : v < 256 := by
  unfold u8 at h
  cases hb : b[k]? with
  | none => simp [hb] at h
  | some x => simp [hb] at h; subst h; exact x.isLt

theorem u16_lt {b : Bytes} {k v : Nat} (h : u16 b k = some v) : v < 65536 := by
  unfold u16 at h
  cases h1 : u8 b k with
  | none => simp [h1] at h
  | some hi =>
    cases h2 : u8 b (k+1) with
    | none => simp [h1, h2] at h
    | some lo =>
      simp [h1, h2] at h
      have := u8_lt h1; have := u8_lt h2; omega

theorem parseEcho4_lt {q : Bytes} {id seq : Nat} (h : parseEcho4 q = some (id, seq)) : id < 65536 := by
  unfold parseEcho4 at h
  split at h
  · rename_i ty i sq _ hid _
    split at h
    · cases h; exact u16_lt hid
    · cases h
  · cases h

/-- the tail common to every accepting branch: look the sequence number up, return the record -/
theorem finish (s : IcmpSt) (src : Bytes) (d : Bool) (seq : Nat) (X : Int) (hX : seq ≤ 255 → X = (seq : Int)) :
    interp s src (if icmpLookup s seq = none then ⟨[], [("0", V.nil), ("1", V.err "common.BadPacketError")]⟩
      else ⟨[], [("0", V.ref "new common.ProbeResponse"), ("0.TTL", V.int X), ("0.IP", V.ref "parser.GetIPPair().0.SrcAddr"),
                 ("0.RTT", V.int 0), ("0.IsDest", V.bool d), ("1", V.nil)]⟩)
      = match icmpLookup s seq with
        | none => .retry
        | some p => .accept seq src d p.time := by
  cases h : icmpLookup s seq with
  | none => simp [interp_err, kind_bad]
  | some p =>
    obtain ⟨h255, hf⟩ := lookup_some h
    simp [interp_ok, hX h255, hf]

/-- for every driver state and every parsed packet, the model's ICMP matcher is the decision tree
    regenerated from `icmpDriver.handleProbeLayers` -/
theorem tie_icmp_handle (s : IcmpSt) (l3 : L3) (l4 : L4) :
    interp s l3.src (LogicIcmp.handleProbeLayers.run (atoms s l3 l4)) = handle s l3 l4 := by
  cases l4 with
  | tcp t => simp [LogicIcmp.handleProbeLayers.run, atoms, handle, interp_err, kind_nomatch_local]
  | icmp4 i =>
    by_cases h11 : i.type = 11
    · rcases hi : icmpInfo4 i with _ | info
      · simp [handle, LogicIcmp.handleProbeLayers.run, atoms, infoOf, cmp, h11, hi, interp_err, kind_bad]
      · by_cases hd : info.qdst = s.cfg.target <;> by_cases hs : info.qsrc = s.cfg.localA <;> by_cases hp : info.proto = 1 <;>
          simp [handle, LogicIcmp.handleProbeLayers.run, atoms, infoOf, cmp, h11, hi, hd, hs, hp, interp_err, kind_nomatch]
        rcases he : parseEcho4 info.payload with _ | ⟨id, seq⟩
        · simp [interp_err, kind_bad]
        · have hid := parseEcho4_lt he
          have hid' : ((id : Int) % 65536).toNat = id := by omega
          by_cases hq : id = s.cfg.echoId
          · simp [hq]
            subst hq
            simp [hid']
            refine finish s l3.src false seq _ ?_
            intro h; omega
          · simp [hid', hq, interp_err, kind_bad]
    · by_cases h0 : i.type = 0
      · have h11' : ¬ (0 : Nat) = 11 := by omega
        by_cases hq : i.id = s.cfg.echoId <;> by_cases ht : l3.src = s.cfg.target <;>
          simp [handle, LogicIcmp.handleProbeLayers.run, atoms, infoOf, cmp, h0, hq, ht, interp_err, kind_bad, kind_nomatch]
        refine finish s _ true i.seq _ ?_
        intro h; omega
      · simp [handle, LogicIcmp.handleProbeLayers.run, atoms, infoOf, cmp, h11, h0, interp_err, kind_nomatch_local]
  | icmp6 i =>
    by_cases h3 : i.type = 3
    · rcases hi : icmpInfo6 i with _ | info
      · simp [handle, LogicIcmp.handleProbeLayers.run, atoms, infoOf, cmp, h3, hi, interp_err, kind_bad]
      · by_cases hd : info.qdst = s.cfg.target <;> by_cases hs : info.qsrc = s.cfg.localA <;> by_cases hp : info.proto = 58 <;>
          simp [handle, LogicIcmp.handleProbeLayers.run, atoms, infoOf, cmp, h3, hi, hd, hs, hp, interp_err, kind_nomatch]
        rcases he : extractEcho6 info.payload with _ | ⟨id, seq⟩
        · simp [interp_err, kind_bad]
        · by_cases hq : id = s.cfg.echoId
          · simp [hq]
            refine finish s l3.src false seq _ ?_
            intro h; omega
          · simp [hq, interp_err, kind_bad]
    · by_cases h129 : i.type = 129
      · -- the payload is read at offsets 0 and 2: both reads succeed exactly when 4 octets are present
        by_cases hl : i.payload.length < 4
        · have hnone : u16 i.payload 0 = none ∨ u16 i.payload 2 = none := by
            rcases h2 : u16 i.payload 2 with _ | seq
            · exact Or.inr rfl
            · have := Proofs.BeNat.u16_len h2; omega
          have hlI : ((i.payload.length : Nat) : Int) < 4 := by omega
          rcases hnone with hn | hn
          · simp [handle, LogicIcmp.handleProbeLayers.run, atoms, infoOf, cmp, h129, hn, hlI, interp_err, kind_nomatch_local]
          · rcases h0 : u16 i.payload 0 with _ | id <;>
              simp [handle, LogicIcmp.handleProbeLayers.run, atoms, infoOf, cmp, h129, h0, hn, hlI, interp_err, kind_nomatch_local]
        · obtain ⟨id, h0⟩ := Proofs.BeNat.u16_some_of_len (b := i.payload) (k := 0) (by omega)
          obtain ⟨seq, h2⟩ := Proofs.BeNat.u16_some_of_len (b := i.payload) (k := 2) (by omega)
          have e0 : Logic.be (i.payload.take 2) 2 = id := by simpa using Proofs.BeNat.be16_of_u16 h0
          have e2 : Logic.be ((i.payload.drop 2).take 2) 2 = seq := by simpa using Proofs.BeNat.be16_of_u16 h2
          have hl' : ¬ (((i.payload.length : Nat) : Int) < 4) := by omega
          by_cases hq : id = s.cfg.echoId <;> by_cases ht : l3.src = s.cfg.target <;>
            simp [handle, LogicIcmp.handleProbeLayers.run, atoms, infoOf, cmp, e0, e2, h129, h0, h2, hl', hq, ht, interp_err, kind_bad, kind_nomatch, kind_nomatch_local]
          refine finish s _ true seq _ ?_
          intro h; omega
      · simp [handle, LogicIcmp.handleProbeLayers.run, atoms, infoOf, cmp, h3, h129, interp_err, kind_nomatch_local]


#print axioms lookup_some
#print axioms kind_bad
#print axioms kind_nomatch
#print axioms kind_nomatch_local
#print axioms interp_err
#print axioms interp_ok
#print axioms u8_lt
#print axioms u16_lt
#print axioms parseEcho4_lt
#print axioms finish
#print axioms icmpRecv_eq_handle
#print axioms tie_icmp_handle

end TRV.Props.TieIcmp
