import TRV.Model.Alloc
import TRV.Model.Link
import TRV.Model.Classify
import TRV.Model.Drivers
import TRV.Model.Wire
import TRV.Generated.LogicPackets
import TRV.Generated.LogicIcmp
import TRV.Proofs.BeNat
/-!
# Tie theorems: allocators, link-layer strip, `ReadAndParse`, `getRTTFromRelSeq` — model = regenerated tree

See `TRV/Props/TieEngine.lean` for the method.  Here the integer semantics matter most: the
regenerated `AllocPacketID` subtracts and narrows in `uint32`/`uint16` exactly as the Go types say,
and the theorem equates it with the `BitVec` model of `TRV.Alloc` for every counter value (wrap-around
included).
-/
namespace TRV.Props.TiePackets
open TRV TRV.Logic TRV.Generated

/-- `AllocPacketID` (regenerated, Nat arithmetic with explicit `% 2^32`, `% 2^16`) returns the base the
    `BitVec` model returns, for the counter value `curPacketID.Add` returned -/
theorem tie_allocPacketID (cur : BitVec 32) (maxTTL : BitVec 8) :
    (LogicPackets.AllocPacketID.run
      { «maxTTL» := maxTTL.toNat
        «curPacketID.Add(uint32(maxTTL))» := (Alloc.packetID cur maxTTL).2.toNat }).rets
      = [("0", V.int ((Alloc.packetID cur maxTTL).1.toNat : Int))] := by
  simp only [LogicPackets.AllocPacketID.run, Alloc.packetID]
  have h8 := maxTTL.isLt
  have h32 := cur.isLt
  simp [BitVec.toNat_sub, BitVec.toNat_add, BitVec.toNat_setWidth, BitVec.truncate]
  omega

/-- `nextEchoID` returns the low 16 bits of the incremented counter, as the model says -/
theorem tie_nextEchoID (cur : BitVec 32) :
    (LogicIcmp.nextEchoID.run { «curEchoID.Add(1)» := (Alloc.echoID cur).2.toNat }).rets
      = [("0", V.int ((Alloc.echoID cur).1.toNat : Int))] := by
  simp [LogicIcmp.nextEchoID.run, Alloc.echoID, BitVec.toNat_setWidth, BitVec.truncate]

/-- interpretation of what `stripEthernetHeader` returns -/
def interpStrip (f : Bytes) (r : R) : Link.Strip :=
  match r.get "1", r.get "0" with
  | some (V.err _), _ => .error
  | some V.nil, some V.nil => .skip
  | some V.nil, some (V.ref _) => .packet (f.drop 14)      -- `eth.Payload`: the bytes after the 14-byte header
  | _, _ => .error

/-- `stripEthernetHeader`: decode error below 14 bytes, skip unless the EtherType is IPv4/IPv6,
    else the payload — the model's `Link.strip` -/
theorem tie_stripEthernetHeader (f : Bytes) :
    interpStrip f (LogicPackets.stripEthernetHeader.run
      { «(&zero(github.com/google/gopacket/layers.Ethernet)).DecodeFromBytes(buf, gopacket.NilDecodeFeedback) == nil» := decide (14 ≤ f.length)
        «zero(github.com/google/gopacket/layers.Ethernet).EthernetType» := (u16 f 12).getD 0
        «zero(github.com/google/gopacket/layers.Ethernet).Payload» := f.drop 14 }) = Link.strip f := by
  unfold Link.strip LogicPackets.stripEthernetHeader.run
  by_cases h : f.length < 14
  · have : ¬ 14 ≤ f.length := by omega
    simp [h, this, interpStrip, R.get]
  · have h' : 14 ≤ f.length := by omega
    cases hu : u16 f 12 with
    | none =>
      -- impossible: 14 bytes are present
      exfalso
      unfold u16 u8 at hu
      have h12 : 12 < f.length := by omega
      have h13 : 13 < f.length := by omega
      simp [List.getElem?_eq_getElem h12, List.getElem?_eq_getElem h13] at hu
    | some et =>
      by_cases h4 : et = 2048 <;> by_cases h6 : et = 34525 <;> simp [h, h', h4, h6, interpStrip, R.get]

/-- `ReadAndParse`: the four exits are the model's `Classify.readAndParse` (error chains as lists of
    links: a deadline becomes a no-packet error wrapping the cause, another read error is wrapped,
    zero bytes are a fresh fatal error, a parse error is returned as the parser made it) -/
def interpRead (c : Classify.Chain) (r : R) : Option Classify.Chain :=
  match r.get "0" with
  | some V.nil => none
  | some (V.err k) =>
    if k = "common.ReceiveProbeNoPktError" then some (.noPkt :: c)
    else if k = "fmt.Errorf %w source.Read(buffer).1" then some (.wrap :: c)
    else if k = "fmt.Errorf" then some [.cause false 0]
    else if k = "parser.Parse(buffer[:source.Read(buffer).0])" then some [.badPkt, .cause false 1]
    else some []
  | _ => some []

theorem tie_readAndParse_err (c : Classify.Chain) (n : Int) (pe : Bool) :
    interpRead c (LogicPackets.ReadAndParse.run
      { «source.Read(buffer).0» := n
        «errors.Is(source.Read(buffer).1, os.ErrDeadlineExceeded)» := Classify.isDeadline c
        «source.Read(buffer).1 == nil» := false
        «parser.Parse(buffer[:source.Read(buffer).0]) == nil» := pe }) = Classify.readAndParse (.err c) := by
  unfold LogicPackets.ReadAndParse.run Classify.readAndParse
  cases h : Classify.isDeadline c <;> simp [interpRead, R.get, h]

theorem tie_readAndParse_data (n : Nat) (parseErr : Bool) :
    interpRead [] (LogicPackets.ReadAndParse.run
      { «source.Read(buffer).0» := (n : Int)
        «errors.Is(source.Read(buffer).1, os.ErrDeadlineExceeded)» := false
        «source.Read(buffer).1 == nil» := true
        «parser.Parse(buffer[:source.Read(buffer).0]) == nil» := !parseErr }) = Classify.readAndParse (.data n parseErr) := by
  unfold LogicPackets.ReadAndParse.run Classify.readAndParse
  cases n with
  | zero => simp [interpRead, R.get]
  | succ m =>
    have : ¬ ((m : Int) + 1 = 0) := by omega
    cases parseErr <;> simp [interpRead, R.get, this]

/-- `getRTTFromRelSeq`: an RTT is produced exactly when the model's `icmpLookup` finds the probe —
    sequence number at most 255, inside the probed TTL range, recorded with a non-zero time -/
theorem tie_icmp_getRTT (s : Drv.IcmpSt) (seq : Nat) (rtt : Int) :
    (LogicIcmp.getRTTFromRelSeq.run
      { «seq» := seq
        «s.params.ParallelParams.MinTTL» := s.cfg.min
        «s.params.ParallelParams.MaxTTL» := s.cfg.max
        «s.findMatchingProbe(uint8(seq)).1» := (s.find (seq % 256)).isSome
        «s.findMatchingProbe(uint8(seq)).0.IsZero()» := false
        «time.Since(s.findMatchingProbe(uint8(seq)).0)» := rtt }).okAt "1" = (Drv.icmpLookup s seq).isSome := by
  unfold LogicIcmp.getRTTFromRelSeq.run Drv.icmpLookup
  by_cases h : seq > 255
  · simp [h, R.okAt, R.get]
  · have hm : seq % 256 = seq := by omega
    by_cases h2 : seq < s.cfg.min ∨ seq > s.cfg.max
    · rcases h2 with h2 | h2 <;> simp [h, hm, h2, R.okAt, R.get]
    · have h3 : ¬ seq < s.cfg.min := by omega
      have h4 : ¬ seq > s.cfg.max := by omega
      cases hf : s.find seq <;> simp [h, hm, h3, h4, hf, R.okAt, R.get]

/-- `ParseTCPFirstBytes` reads the ports at octets 0 and 2 and the sequence number at octet 4 of the
    quoted transport header and needs 8 octets: the model's `quotedPorts` / `quotedSeq` -/
theorem tie_parseTCPFirstBytes (p : Bytes) :
    let r := LogicPackets.ParseTCPFirstBytes.run { «buffer» := p }
    (r.okAt "1" = ((Drv.quotedPorts p).isSome && (Drv.quotedSeq p).isSome)) ∧
    (∀ sp dp sq, Drv.quotedPorts p = some (sp, dp) → Drv.quotedSeq p = some sq →
      r.get "0.SrcPort" = some (V.int sp) ∧ r.get "0.DstPort" = some (V.int dp) ∧ r.get "0.Seq" = some (V.int sq)) := by
  by_cases hl : p.length < 8
  · have hlI : ((p.length : Nat) : Int) < 8 := by omega
    simp [LogicPackets.ParseTCPFirstBytes.run, Drv.quotedPorts, Drv.quotedSeq, hl, hlI, R.okAt, R.get]
  · have hlI : ¬ (((p.length : Nat) : Int) < 8) := by omega
    obtain ⟨a, ha⟩ := Proofs.BeNat.u16_some_of_len (b := p) (k := 0) (by omega)
    obtain ⟨b, hb⟩ := Proofs.BeNat.u16_some_of_len (b := p) (k := 2) (by omega)
    obtain ⟨c, hc⟩ := Proofs.BeNat.u16_some_of_len (b := p) (k := 4) (by omega)
    obtain ⟨d, hd⟩ := Proofs.BeNat.u16_some_of_len (b := p) (k := 6) (by omega)
    have h32 : u32 p 4 = some (c * 65536 + d) := by simp [u32, hc, hd]
    have e0 : Logic.be (p.take 2) 2 = a := by simpa using Proofs.BeNat.be16_of_u16 ha
    have e2 : Logic.be ((p.drop 2).take 2) 2 = b := by simpa using Proofs.BeNat.be16_of_u16 hb
    have e4 : Logic.be ((p.drop 4).take 4) 4 = c * 65536 + d := by simpa using Proofs.BeNat.be32_of_u32 h32
    simp [LogicPackets.ParseTCPFirstBytes.run, Drv.quotedPorts, Drv.quotedSeq, hl, hlI, ha, hb, h32, e0, e2, e4, R.okAt, R.get]
    try (intro sp dp sq h1 h2 h3; omega)

/-- `ParseUDPFirstBytes`: ports at octets 0 and 2, 8 octets needed — the model's `quotedPorts` -/
theorem tie_parseUDPFirstBytes (p : Bytes) :
    let r := LogicPackets.ParseUDPFirstBytes.run { «buffer» := p }
    (r.okAt "1" = (Drv.quotedPorts p).isSome) ∧
    (∀ sp dp, Drv.quotedPorts p = some (sp, dp) →
      r.get "0.SrcPort" = some (V.int sp) ∧ r.get "0.DstPort" = some (V.int dp)) := by
  by_cases hl : p.length < 8
  · have hlI : ((p.length : Nat) : Int) < 8 := by omega
    simp [LogicPackets.ParseUDPFirstBytes.run, Drv.quotedPorts, hl, hlI, R.okAt, R.get]
  · have hlI : ¬ (((p.length : Nat) : Int) < 8) := by omega
    obtain ⟨a, ha⟩ := Proofs.BeNat.u16_some_of_len (b := p) (k := 0) (by omega)
    obtain ⟨b, hb⟩ := Proofs.BeNat.u16_some_of_len (b := p) (k := 2) (by omega)
    have e0 : Logic.be (p.take 2) 2 = a := by simpa using Proofs.BeNat.be16_of_u16 ha
    have e2 : Logic.be ((p.drop 2).take 2) 2 = b := by simpa using Proofs.BeNat.be16_of_u16 hb
    simp [LogicPackets.ParseUDPFirstBytes.run, Drv.quotedPorts, hl, hlI, ha, hb, e0, e2, R.okAt, R.get]
    try (intro sp dp h1 h2; omega)

/-- the atoms of `GetICMPInfo` read off the model's decoders of the quoted header -/
def infoAtoms (lc : Int) (q4 : Option Wire.IP4) (emb : Bool) (q6 : Option Wire.IP6) (embBytes : Bytes) :
    LogicPackets.GetICMPInfo.Atoms :=
  { «p.GetIPPair().1 == nil» := true
    «p.GetTransportLayer()» := lc
    «layers.LayerTypeICMPv4» := 1
    «layers.LayerTypeICMPv6» := 2
    «(&zero(github.com/google/gopacket/layers.IPv4)).DecodeFromBytes(p.ICMP4.Payload, gopacket.NilDecodeFeedback) == nil» := q4.isSome
    «zero(github.com/google/gopacket/layers.IPv4).Id» := (q4.map (·.id)).getD 0
    «zero(github.com/google/gopacket/layers.IPv4).Protocol» := (q4.map (·.proto)).getD 0
    «slices.Clone(zero(github.com/google/gopacket/layers.IPv4).Payload)» := (q4.map (·.payload)).getD []
    «extractEmbeddedIPv6(p.ICMP6.Payload).0» := embBytes
    «extractEmbeddedIPv6(p.ICMP6.Payload).1 == nil» := emb
    «(&zero(github.com/google/gopacket/layers.IPv6)).DecodeFromBytes(extractEmbeddedIPv6(p.ICMP6.Payload).0, gopacket.NilDecodeFeedback) == nil» := q6.isSome
    «zero(github.com/google/gopacket/layers.IPv6).NextHeader» := (q6.map (·.nextHeader)).getD 0
    «zero(github.com/google/gopacket/layers.IPv6).Length» := (q6.map (·.len)).getD 0
    «slices.Clone(zero(github.com/google/gopacket/layers.IPv6).Payload)» := (q6.map (·.payload)).getD [] }

/-- `GetICMPInfo`, ICMPv4 arm: it succeeds exactly when the model's `icmpInfo4` does, the wrapped
    identifier is the quoted header's IP id and the wrapped protocol its protocol field -/
theorem tie_getICMPInfo4 (i : Wire.ICMP4) :
    let r := LogicPackets.GetICMPInfo.run (infoAtoms 1 (Wire.ip4 i.payload) false none [])
    r.okAt "1" = (Wire.icmpInfo4 i).isSome ∧
    (∀ info, Wire.icmpInfo4 i = some info →
      r.get "0.WrappedPacketID" = some (V.int info.wrappedId) ∧ r.get "0.WrappedProtocol" = some (V.int info.proto)) := by
  unfold Wire.icmpInfo4
  cases h : Wire.ip4 i.payload <;> simp [LogicPackets.GetICMPInfo.run, infoAtoms, R.okAt, R.get]
  try (intro info hi; subst hi; simp)

/-- `GetICMPInfo`, ICMPv6 arm: embedded-header extraction, then the quoted IPv6 header; the wrapped
    identifier is the quoted header's LENGTH FIELD for a quoted UDP datagram and 0 otherwise (not the
    number of quoted octets actually present), the wrapped protocol its next-header field -/
theorem tie_getICMPInfo6 (i : Wire.ICMP6) :
    let emb := match u8 i.payload 4 with | some b => decide (b / 16 = 6) | none => false
    let r := LogicPackets.GetICMPInfo.run (infoAtoms 2 none emb (if emb then Wire.ip6 (i.payload.drop 4) else none) (i.payload.drop 4))
    r.okAt "1" = (Wire.icmpInfo6 i).isSome ∧
    (∀ info, Wire.icmpInfo6 i = some info →
      r.get "0.WrappedPacketID" = some (V.int info.wrappedId) ∧ r.get "0.WrappedProtocol" = some (V.int info.proto)) := by
  unfold Wire.icmpInfo6
  cases hb : u8 i.payload 4 with
  | none => simp [LogicPackets.GetICMPInfo.run, infoAtoms, R.okAt, R.get]
  | some b =>
    by_cases h6 : b / 16 = 6
    · cases hq : Wire.ip6 (i.payload.drop 4) with
      | none => simp [LogicPackets.GetICMPInfo.run, infoAtoms, R.okAt, R.get, h6]
      | some q =>
        by_cases h17 : q.nextHeader = 17 <;>
          simp [LogicPackets.GetICMPInfo.run, infoAtoms, R.okAt, R.get, h6, h17]
        all_goals try (intro info hi; subst hi; simp [h17])
    · simp [LogicPackets.GetICMPInfo.run, infoAtoms, R.okAt, R.get, h6]

/-- `getParser`: on a non-empty buffer the version nibble selects the IPv4 or the IPv6 parser, any
    other value is a (retryable) bad packet — the dispatch at the top of the model's `Wire.parse` -/
theorem tie_getParser (buf : Bytes) (b0 : Nat) (h : u8 buf 0 = some b0) :
    let r := LogicPackets.getParser.run { «buffer» := buf, «buffer[0] >> 4» := b0 / 16 }
    (r.get "0" = some (V.ref "p.parserv4") ↔ b0 / 16 = 4) ∧
    (r.get "0" = some (V.ref "p.parserv6") ↔ b0 / 16 = 6) ∧
    (r.get "1" = some (V.err "common.BadPacketError") ↔ (b0 / 16 ≠ 4 ∧ b0 / 16 ≠ 6)) := by
  have hl : ¬ (((buf.length : Nat) : Int) < 1) := by
    unfold u8 at h
    rcases Nat.lt_or_ge 0 buf.length with h' | h'
    · omega
    · have : buf.length = 0 := by omega
      simp [List.length_eq_zero_iff.mp this] at h
  by_cases h4 : b0 / 16 = 4 <;> by_cases h6 : b0 / 16 = 6 <;>
    simp [LogicPackets.getParser.run, R.get, hl, h4, h6] <;> omega

/-- every exit of `FrameParser.Parse`: success, the error `getParser` returned (handed on unchanged),
    the ignored-layer sentinel or a `BadPacketError` — never a fresh non-retryable error -/
theorem tie_parse_exits (a : LogicPackets.Parse.Atoms) :
    let r := LogicPackets.Parse.run a
    r.get "0" = some V.nil ∨ r.get "0" = some (V.err "p.getParser(buffer).1") ∨
    r.get "0" = some (V.err "ignoredLayerErr") ∨ r.get "0" = some (V.err "common.BadPacketError") := by
  unfold LogicPackets.Parse.run
  (repeat' split) <;> simp [R.get]

theorem tie_ignoredLayerErr_retryable :
    (LogicPackets.sentinels.find? (·.1 = "ignoredLayerErr")).map (·.2) = some "common.ReceiveProbeNoPktError" := by decide

#print axioms tie_getICMPInfo4
#print axioms tie_getICMPInfo6
#print axioms tie_getParser
#print axioms tie_parse_exits
#print axioms tie_ignoredLayerErr_retryable
#print axioms tie_parseTCPFirstBytes
#print axioms tie_parseUDPFirstBytes
#print axioms tie_allocPacketID
#print axioms tie_nextEchoID
#print axioms tie_stripEthernetHeader
#print axioms tie_readAndParse_err
#print axioms tie_readAndParse_data
#print axioms tie_icmp_getRTT

end TRV.Props.TiePackets
