import TRV.Proofs.Bpf
import TRV.Generated.Filters
/-!
# C12 — Capture filters never hide a matchable reply and are exact on the tuple

Property theorems only (helper lemmas are in `TRV.Proofs.Bpf`).  Every theorem is about the
programs in `TRV.Generated.Filters`, which `harness/extract` re-dumps from the compiled `packets`
package on every check run: a changed opcode, jump offset or constant in `packets/cbpf_filters.go`
or `packets/tcp_filter.go` changes those definitions and the proofs below are re-checked against
them.

Scope of the statements: **every frame of every length** (`Bytes` is an arbitrary list of bytes) and
**every configuration** (`srcAddr dstAddr srcPort dstPort` range over all naturals; a value that
does not fit the field can never match, in the program and in the reference predicate alike).

"Unfragmented" is what tcpdump's code tests and what `TRV.Spec.Filters.fragOffsetZero` says:
fragment offset = 0.  The MF bit is not looked at, so a first fragment (offset 0, MF set) passes
the TCP-tuple and SYN-ACK filters; fragments with offset ≠ 0 never pass as TCP.

Superset direction.  The matcher/driver models are not part of this module, so "every frame the
matcher would turn into a hop or handshake" is stated here through the frame fields such a frame
must have: the `c12_*_covers*` theorems take as hypotheses the field values a matcher checks before
it produces a hop (IPv4 + ICMP; IPv4 + TCP + offset 0 + the configured tuple; SYN and ACK set;
ICMPv6 directly or after a fragment header), on the raw frame and — `…_ip` variants — on the IP
packet behind a 14-byte Ethernet header, which is the shape the matcher models work on.  The
theorem that composes these with the driver models (`recv … ≠ ignore → accepts …`) belongs to the
drivers' module.  `c12_sites_cover` shows that the filter each variant installs (table extracted from the source)
passes what that variant needs; `c12_sites_config` (module `TRV.Props.TieFilterSites`, a textual pin
with TIE-DRIFT semantics) pins the direction of the configured tuple.
-/
namespace TRV.Props.C12
open TRV TRV.Bpf TRV.Spec.Filters TRV.Generated.Filters TRV.Proofs.Bpf

set_option linter.unusedSimpArgs false

/-! ## Exactness: accepts = reference predicate, all frames, all lengths, all configurations -/

/-- The TCP-tuple filter (`FilterTypeTCP`, `GenerateTCP4Filter`) accepts exactly: IPv4 frames whose
    protocol is ICMP, and IPv4 TCP frames at fragment offset 0 whose source address, destination
    address, source port and destination port are the configured ones.  In particular a frame too
    short to contain a field it would have to match is rejected. -/
theorem c12_tcp_exact (srcAddr dstAddr srcPort dstPort : Nat) (f : Bytes) :
    accepts (tcpTuple srcAddr dstAddr srcPort dstPort) f = tupleSpec srcAddr dstAddr srcPort dstPort f := by
  unfold accepts tupleSpec tcpTuple isIPv4 ipProto ipSrc ipDst fragOffsetZero tcpSrcPort tcpDstPort l4Offset
  cases h1 : u16 f 12 <;> cases h2 : u8 f 23 <;> cases h3 : u32 f 26 <;> cases h4 : u32 f 30 <;>
    cases h5 : u16 f 20 <;> cases h6 : u8 f 14 <;>
    simp [exec, h1, h2, h3, h4, h5, h6, and_1fff, off14, off16] <;>
    (repeat' (split <;> simp_all [exec, List.drop, and_1fff, off14, off16]))

/-- The SYN-ACK filter (`FilterTypeSYNACK`) accepts exactly IPv4 TCP frames at fragment offset 0
    whose TCP flag byte (at `14 + 4·IHL + 13`) has both SYN and ACK set (other flags arbitrary). -/
theorem c12_synack_exact (f : Bytes) : accepts synack f = synackSpec f := by
  unfold accepts synackSpec synack isIPv4 ipProto fragOffsetZero tcpFlags l4Offset
  cases h1 : u16 f 12 <;> cases h2 : u8 f 23 <;> cases h3 : u16 f 20 <;> cases h4 : u8 f 14 <;>
    simp [exec, h1, h2, h3, h4, and_1fff, off27] <;>
    (repeat' (split <;> simp_all [exec, List.drop, and_1fff, and_2, and_16, and_2', and_16', off27]))

/-- The ICMP filter (`FilterTypeICMP`) accepts exactly ICMPv4 (IPv4, protocol 1 — fragments included,
    the program does not look at the fragment word) and ICMPv6 (IPv6 with next header 58, or next
    header 44 and the fragment header's next header 58). -/
theorem c12_icmp_exact (f : Bytes) : accepts icmp f = icmpSpec f := by
  unfold accepts icmpSpec isICMPv6 icmp isIPv4 isIPv6 ipProto ip6Next ip6FragNext
  cases h1 : u16 f 12 <;> cases h2 : u8 f 23 <;> cases h3 : u8 f 20 <;> cases h4 : u8 f 54 <;>
    simp [exec, h1, h2, h3, h4] <;>
    (repeat' (split <;> simp_all [exec, List.drop]))

/-- The UDP filter (`FilterTypeUDP`; installed by no variant at present, see `filterSites`) accepts
    exactly what the ICMP filter accepts plus UDP over IPv4 or IPv6 (directly or after a fragment
    header). -/
theorem c12_udp_exact (f : Bytes) : accepts udp f = udpSpec f := by
  unfold accepts udpSpec icmpSpec isUDP isICMPv6 udp isIPv4 isIPv6 ipProto ip6Next ip6FragNext
  cases h1 : u16 f 12 <;> cases h2 : u8 f 23 <;> cases h3 : u8 f 20 <;> cases h4 : u8 f 54 <;>
    simp [exec, h1, h2, h3, h4] <;>
    (repeat' (split <;> simp_all [exec, List.drop]))

/-- The drop-all filter (installed while the socket is drained) accepts nothing. -/
theorem c12_dropall (f : Bytes) : accepts dropAll f = false := by
  simp [accepts, dropAll, exec]

/-! ## Superset direction: frames a matcher can use pass the installed filter -/

/-- TCP-tuple filter, TCP part: an IPv4 TCP frame at fragment offset 0 (MF may be set) whose
    addresses and ports are the configured ones is accepted, whatever its IHL, flags or length
    beyond the ports. -/
theorem c12_tuple_covers (srcAddr dstAddr srcPort dstPort : Nat) (f : Bytes) (b0 fr : Nat)
    (hv4 : u16 f 12 = some 0x0800) (hproto : u8 f 23 = some 6)
    (hfr : u16 f 20 = some fr) (hoff : fr % 8192 = 0)
    (hsrc : u32 f 26 = some srcAddr) (hdst : u32 f 30 = some dstAddr)
    (hb0 : u8 f 14 = some b0)
    (hsp : u16 f (14 + 4 * (b0 % 16)) = some srcPort)
    (hdp : u16 f (14 + 4 * (b0 % 16) + 2) = some dstPort) :
    accepts (tcpTuple srcAddr dstAddr srcPort dstPort) f = true := by
  rw [c12_tcp_exact]
  simp [tupleSpec, isIPv4, ipProto, ipSrc, ipDst, fragOffsetZero, tcpSrcPort, tcpDstPort, l4Offset,
    hv4, hproto, hfr, hoff, hsrc, hdst, hb0, hsp, hdp]

/-- TCP-tuple filter, ICMP part: every IPv4 ICMP frame is accepted (any type, any addresses,
    fragmented or not), for every configuration. -/
theorem c12_tuple_covers_icmp (srcAddr dstAddr srcPort dstPort : Nat) (f : Bytes)
    (hv4 : u16 f 12 = some 0x0800) (hproto : u8 f 23 = some 1) :
    accepts (tcpTuple srcAddr dstAddr srcPort dstPort) f = true := by
  rw [c12_tcp_exact]
  simp [tupleSpec, isIPv4, ipProto, hv4, hproto]

/-- SYN-ACK filter: every IPv4 TCP frame at fragment offset 0 with SYN and ACK set is accepted
    (this is the frame the SACK handshake reader waits for), whatever the addresses and ports. -/
theorem c12_synack_covers_handshake (f : Bytes) (b0 fr fl : Nat)
    (hv4 : u16 f 12 = some 0x0800) (hproto : u8 f 23 = some 6)
    (hfr : u16 f 20 = some fr) (hoff : fr % 8192 = 0)
    (hb0 : u8 f 14 = some b0)
    (hfl : u8 f (14 + 4 * (b0 % 16) + 13) = some fl)
    (hsyn : fl.testBit 1 = true) (hack : fl.testBit 4 = true) :
    accepts synack f = true := by
  rw [c12_synack_exact]
  simp [synackSpec, isIPv4, ipProto, fragOffsetZero, tcpFlags, l4Offset, hv4, hproto, hfr, hoff, hb0, hfl,
    hsyn, hack]

/-- ICMP filter: every ICMPv4 frame and every ICMPv6 frame (next header 58 directly, or behind one
    fragment header) is accepted. -/
theorem c12_icmp_covers (f : Bytes)
    (h : (u16 f 12 = some 0x0800 ∧ u8 f 23 = some 1) ∨
         (u16 f 12 = some 0x86dd ∧ u8 f 20 = some 58) ∨
         (u16 f 12 = some 0x86dd ∧ u8 f 20 = some 44 ∧ u8 f 54 = some 58)) :
    accepts icmp f = true := by
  rw [c12_icmp_exact]
  rcases h with ⟨a, b⟩ | ⟨a, b⟩ | ⟨a, b, c⟩ <;>
    simp [icmpSpec, isICMPv6, isIPv4, isIPv6, ipProto, ip6Next, ip6FragNext, a, b, *]

/-- Every filter a probing phase installs (all kinds but the handshake-only SYN-ACK filter, and also
    the unused UDP filter) passes every IPv4 ICMP frame — the frames TTL-exceeded /
    destination-unreachable hops are made from. -/
theorem c12_probe_filters_pass_icmp4 (k : FilterKind) (hk : k ≠ .synack)
    (srcAddr dstAddr srcPort dstPort : Nat) (p : List Instr)
    (hp : programFor k srcAddr dstAddr srcPort dstPort = some p) (f : Bytes)
    (hv4 : u16 f 12 = some 0x0800) (hproto : u8 f 23 = some 1) : accepts p f = true := by
  cases k <;> simp [programFor] at hp hk <;> subst hp
  · exact c12_icmp_covers f (Or.inl ⟨hv4, hproto⟩)
  · rw [c12_udp_exact]; simp [udpSpec, icmpSpec, isIPv4, ipProto, hv4, hproto]
  · exact c12_tuple_covers_icmp _ _ _ _ f hv4 hproto

/-! ### the same, on the IP packet behind a 14-byte Ethernet header -/

/-- `c12_tuple_covers` for `eth ++ ip`: Ethernet header of 14 bytes with EtherType IPv4, and an IP
    packet whose own fields (RFC 791 offsets: IHL byte 0, fragment word 6, protocol 9, source 12,
    destination 16, TCP ports at `4·IHL` and `4·IHL + 2`) are the configured tuple. -/
theorem c12_tuple_covers_ip (srcAddr dstAddr srcPort dstPort : Nat) (eth ip : Bytes) (b0 fr : Nat)
    (hlen : eth.length = 14) (het : u16 eth 12 = some 0x0800)
    (hb0 : u8 ip 0 = some b0) (hfr : u16 ip 6 = some fr) (hoff : fr % 8192 = 0)
    (hproto : u8 ip 9 = some 6) (hsrc : u32 ip 12 = some srcAddr) (hdst : u32 ip 16 = some dstAddr)
    (hsp : u16 ip (4 * (b0 % 16)) = some srcPort) (hdp : u16 ip (4 * (b0 % 16) + 2) = some dstPort) :
    accepts (tcpTuple srcAddr dstAddr srcPort dstPort) (eth ++ ip) = true := by
  apply c12_tuple_covers srcAddr dstAddr srcPort dstPort (eth ++ ip) b0 fr
  · rw [u16_append_left (by omega)]; exact het
  · rw [show 23 = 14 + 9 from rfl, u8_append_right hlen]; exact hproto
  · rw [show 20 = 14 + 6 from rfl, u16_append_right hlen]; exact hfr
  · exact hoff
  · rw [show 26 = 14 + 12 from rfl, u32_append_right hlen]; exact hsrc
  · rw [show 30 = 14 + 16 from rfl, u32_append_right hlen]; exact hdst
  · rw [show 14 = 14 + 0 from rfl, u8_append_right hlen]; exact hb0
  · rw [u16_append_right hlen]; exact hsp
  · rw [Nat.add_assoc, u16_append_right hlen]; exact hdp

/-- `c12_tuple_covers_icmp` for `eth ++ ip` -/
theorem c12_tuple_covers_icmp_ip (srcAddr dstAddr srcPort dstPort : Nat) (eth ip : Bytes)
    (hlen : eth.length = 14) (het : u16 eth 12 = some 0x0800) (hproto : u8 ip 9 = some 1) :
    accepts (tcpTuple srcAddr dstAddr srcPort dstPort) (eth ++ ip) = true := by
  apply c12_tuple_covers_icmp
  · rw [u16_append_left (by omega)]; exact het
  · rw [show 23 = 14 + 9 from rfl, u8_append_right hlen]; exact hproto

/-- `c12_synack_covers_handshake` for `eth ++ ip` (flag byte at `4·IHL + 13` of the IP packet) -/
theorem c12_synack_covers_handshake_ip (eth ip : Bytes) (b0 fr fl : Nat)
    (hlen : eth.length = 14) (het : u16 eth 12 = some 0x0800)
    (hb0 : u8 ip 0 = some b0) (hfr : u16 ip 6 = some fr) (hoff : fr % 8192 = 0)
    (hproto : u8 ip 9 = some 6)
    (hfl : u8 ip (4 * (b0 % 16) + 13) = some fl)
    (hsyn : fl.testBit 1 = true) (hack : fl.testBit 4 = true) :
    accepts synack (eth ++ ip) = true := by
  apply c12_synack_covers_handshake (eth ++ ip) b0 fr fl
  · rw [u16_append_left (by omega)]; exact het
  · rw [show 23 = 14 + 9 from rfl, u8_append_right hlen]; exact hproto
  · rw [show 20 = 14 + 6 from rfl, u16_append_right hlen]; exact hfr
  · exact hoff
  · rw [show 14 = 14 + 0 from rfl, u8_append_right hlen]; exact hb0
  · rw [Nat.add_assoc, u8_append_right hlen]; exact hfl
  · exact hsyn
  · exact hack

/-- `c12_icmp_covers` for `eth ++ ip`: IPv4 with protocol 1 (byte 9), or IPv6 with next header 58
    (byte 6), or next header 44 and the fragment header's next header (byte 40) 58. -/
theorem c12_icmp_covers_ip (eth ip : Bytes) (hlen : eth.length = 14)
    (h : (u16 eth 12 = some 0x0800 ∧ u8 ip 9 = some 1) ∨
         (u16 eth 12 = some 0x86dd ∧ u8 ip 6 = some 58) ∨
         (u16 eth 12 = some 0x86dd ∧ u8 ip 6 = some 44 ∧ u8 ip 40 = some 58)) :
    accepts icmp (eth ++ ip) = true := by
  apply c12_icmp_covers
  have e12 : u16 (eth ++ ip) 12 = u16 eth 12 := u16_append_left (by omega)
  have e23 : u8 (eth ++ ip) 23 = u8 ip 9 := u8_append_right (off := 9) hlen
  have e20 : u8 (eth ++ ip) 20 = u8 ip 6 := u8_append_right (off := 6) hlen
  have e54 : u8 (eth ++ ip) 54 = u8 ip 40 := u8_append_right (off := 40) hlen
  rw [e12, e23, e20, e54]; exact h

/-! ## Which filter each variant installs -/

/-- Does installing a filter of kind `s.kind` at a site satisfy the need `n`?  `none` = no program is
    attached (every frame passes).  The tuple filter only counts when both ends are configured at the
    site.  Justified by `c12_sites_cover` below, not trusted. -/
def sufficesFor (s : Site) (n : Need) : Bool :=
  match s.kind, n with
  | .none, _ => true
  | .icmp, .icmpAny => true
  | .udp, .icmpAny => true
  | .synack, .synackFromTarget => true
  | .tcp, .synackFromTarget => s.src != "" && s.dst != ""
  | .tcp, .tuple => s.src != "" && s.dst != ""
  | _, _ => false

/-- Every filter installation site of the four variants (extracted from the source into
    `filterSites`) installs a filter that passes every frame that phase of the variant needs
    (`siteNeeds` / `needSpec`: ICMPv4+ICMPv6 for ICMP and UDP traceroute, the handshake SYN-ACK for
    the first SACK phase, IPv4 ICMP + the reply tuple for TCP and the SACK probing phase) — for all
    frames and all configurations.  The list of sites and the list of phases correspond one to one.
    Holds for any sufficient choice of filter (e.g. it would still hold if UDP traceroute installed
    the UDP filter) and fails if a site installs a filter that can hide a needed frame. -/
theorem c12_sites_cover :
    filterSites.map (·.file) = siteNeeds.map (·.1) ∧
    ∀ s n, (s, n) ∈ filterSites.zip (siteNeeds.map (·.2)) →
      ∀ (srcAddr dstAddr srcPort dstPort : Nat) (p : List Instr),
        programFor s.kind srcAddr dstAddr srcPort dstPort = some p →
        ∀ f, needSpec n srcAddr dstAddr srcPort dstPort f = true → accepts p f = true := by
  refine ⟨rfl, ?_⟩
  have hall : (filterSites.zip (siteNeeds.map (·.2))).all (fun sn => sufficesFor sn.1 sn.2) = true := by decide
  intro s n hmem sa da sp dp p hp f hneed
  have hs : sufficesFor s n = true := (List.all_eq_true.mp hall) (s, n) hmem
  unfold sufficesFor at hs
  cases hk : s.kind <;> cases n <;> simp [hk] at hs <;> simp [hk, programFor] at hp <;> subst hp <;>
    simp only [needSpec, Bool.and_eq_true] at hneed
  · rw [c12_icmp_exact]; exact hneed
  · rw [c12_udp_exact]; simp [udpSpec, hneed]
  · rw [c12_tcp_exact]; exact hneed.2
  · rw [c12_tcp_exact]; exact hneed
  · rw [c12_synack_exact]; exact hneed.1

/-! ## Non-vacuity -/

section Examples
/-- Ethernet header with the given EtherType -/
private def eth (et : Nat) : Bytes := (List.replicate 12 (byte 0xaa)) ++ be16 et

/-- IPv4 header with IHL 6 (one option word), given fragment word and protocol,
    203.0.113.9 → 192.0.2.200 -/
private def ip4 (frag proto : Nat) : Bytes :=
  [byte 0x46, byte 0] ++ be16 48 ++ be16 0x1234 ++ be16 frag ++ [byte 57, byte proto] ++ be16 0 ++
    be32 0xcb007109 ++ be32 0xc00002c8 ++ [byte 1, byte 1, byte 1, byte 0]

/-- TCP header 443 → 33434 with the given flag byte -/
private def tcp (flags : Nat) : Bytes :=
  be16 443 ++ be16 33434 ++ be32 7 ++ be32 8 ++ [byte 0x50, byte flags] ++ be16 1024 ++ be16 0 ++ be16 0

/-- a SYN-ACK reply with an IP option, first fragment (MF set): accepted by the tuple filter for its
    tuple and by the SYN-ACK filter -/
example : accepts (tcpTuple 0xcb007109 0xc00002c8 443 33434) (eth 0x0800 ++ ip4 0x2000 6 ++ tcp 0x12) = true := by
  rw [c12_tcp_exact]; decide
example : accepts synack (eth 0x0800 ++ ip4 0x2000 6 ++ tcp 0x12) = true := by
  rw [c12_synack_exact]; decide
/-- … rejected when one port byte differs, when it is a later fragment, when it is cut inside the
    destination port, and (SYN-ACK filter) when ACK is missing -/
example : accepts (tcpTuple 0xcb007109 0xc00002c8 443 33435) (eth 0x0800 ++ ip4 0 6 ++ tcp 0x12) = false := by
  rw [c12_tcp_exact]; decide
example : accepts (tcpTuple 0xcb007109 0xc00002c8 443 33434) (eth 0x0800 ++ ip4 0x0001 6 ++ tcp 0x12) = false := by
  rw [c12_tcp_exact]; decide
example : accepts (tcpTuple 0xcb007109 0xc00002c8 443 33434) ((eth 0x0800 ++ ip4 0 6 ++ tcp 0x12).take 41) = false := by
  rw [c12_tcp_exact]; decide
example : accepts synack (eth 0x0800 ++ ip4 0 6 ++ tcp 0x02) = false := by
  rw [c12_synack_exact]; decide
/-- ICMPv4 passes the tuple filter and the ICMP filter; ICMPv6 behind a fragment header passes the
    ICMP filter; TCP does not pass the ICMP filter -/
example : accepts (tcpTuple 1 2 3 4) (eth 0x0800 ++ ip4 0 1 ++ [byte 11, byte 0]) = true := by
  rw [c12_tcp_exact]; decide
example : accepts icmp (eth 0x0800 ++ ip4 0x2001 1) = true := by
  rw [c12_icmp_exact]; decide
example : accepts icmp (eth 0x86dd ++ [byte 0x60, byte 0, byte 0, byte 0] ++ be16 16 ++ [byte 44, byte 64] ++
    List.replicate 32 (byte 0xfe) ++ [byte 58, byte 0] ++ be16 0 ++ be32 9 ++ [byte 3, byte 0]) = true := by
  rw [c12_icmp_exact]; decide
example : accepts icmp (eth 0x0800 ++ ip4 0 6 ++ tcp 0x12) = false := by
  rw [c12_icmp_exact]; decide
end Examples

#print axioms c12_tcp_exact
#print axioms c12_synack_exact
#print axioms c12_icmp_exact
#print axioms c12_udp_exact
#print axioms c12_dropall
#print axioms c12_tuple_covers
#print axioms c12_tuple_covers_icmp
#print axioms c12_synack_covers_handshake
#print axioms c12_icmp_covers
#print axioms c12_probe_filters_pass_icmp4
#print axioms c12_tuple_covers_ip
#print axioms c12_tuple_covers_icmp_ip
#print axioms c12_synack_covers_handshake_ip
#print axioms c12_icmp_covers_ip
#print axioms c12_sites_cover
end TRV.Props.C12
