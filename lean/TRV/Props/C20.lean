import TRV.Spec.Policy
/-!
# C20 — TCP method policy: SACK never masked, fallback only when unsupported

Property theorems only.  `syn`, `sack`, `sock` are what the three closures of `runTracerouteOnce`
return when invoked (any outcome, any error chain); `Calls` counts invocations.  "SACK failed as
unsupported" = a `NotSupportedError` layer occurs anywhere in the error chain (`errors.As`).
-/
namespace TRV.Props.C20
open TRV.Policy TRV.Spec.Policy

private theorem hasNS_iff (c : Chain) : hasNS c = true ↔ Layer.notSupported ∈ c := by
  simp [hasNS, List.any_eq_true]

/-- Method `sack`: the outcome IS the SACK attempt's outcome (a SACK trace or its error, unchanged);
    the SYN closure is never invoked, so a SACK failure cannot be masked by a SYN trace. -/
theorem c20_sack_never_masked (syn sack sock : Out) :
    fallback .sack syn sack sock = (sack, { sack := 1 }) ∧
    (fallback .sack syn sack sock).2.syn = 0 := by
  simp [fallback]

/-- Method `prefer_sack`: the SYN closure runs exactly when the SACK attempt failed with a
    `NotSupportedError` somewhere in its chain; SACK itself is always attempted exactly once. -/
theorem c20_prefer_iff_unsupported (syn sack sock : Out) :
    ((fallback .preferSack syn sack sock).2.syn = 1 ↔ ∃ c, sack = .err c ∧ Layer.notSupported ∈ c) ∧
    ((fallback .preferSack syn sack sock).2.syn = 0 ∨ (fallback .preferSack syn sack sock).2.syn = 1) ∧
    (fallback .preferSack syn sack sock).2.sack = 1 := by
  cases sack with
  | ok r => simp [fallback]
  | err c =>
    by_cases h : hasNS c = true
    · have := (hasNS_iff c).mp h
      simp [fallback, h, this]
    · have hn : Layer.notSupported ∉ c := fun hm => h ((hasNS_iff c).mpr hm)
      simp [fallback, h, hn]

/-- … for every wrapping depth: however many layers (`pre`) wrap the `NotSupportedError` and whatever
    it wraps in turn (`post`), `prefer_sack` falls back and returns the SYN outcome. -/
theorem c20_prefer_any_depth (syn sock : Out) (pre post : Chain) :
    fallback .preferSack syn (.err (pre ++ Layer.notSupported :: post)) sock
      = (syn, { sack := 1, syn := 1 }) := by
  have : hasNS (pre ++ Layer.notSupported :: post) = true := by simp [hasNS]
  simp [fallback, this]

/-- Method `prefer_sack`, any other SACK failure (no `NotSupportedError` in its chain): the failure is
    returned, wrapped once (so the original chain is intact below the wrapper), SYN is not run, and
    the returned error is still not an "unsupported" error. -/
theorem c20_other_failure_reported (syn sock : Out) (c : Chain) (h : Layer.notSupported ∉ c) :
    fallback .preferSack syn (.err c) sock = (.err (.msg tagFatal :: c), { sack := 1 }) ∧
    (fallback .preferSack syn (.err c) sock).2.syn = 0 ∧
    hasNS (.msg tagFatal :: c) = false := by
  have hn : hasNS c = false := by
    cases hc : hasNS c with
    | false => rfl
    | true => exact absurd ((hasNS_iff c).mp hc) h
  have hn2 : hasNS (.msg tagFatal :: c) = false := by
    simp [hasNS] at hn ⊢; exact hn
  refine ⟨?_, ?_, hn2⟩ <;> simp [fallback, hn]

/-- A successful SACK trace under `prefer_sack` is returned as is, SYN not run. -/
theorem c20_prefer_success (syn sock : Out) (r : Nat) :
    fallback .preferSack syn (.ok r) sock = (.ok r, { sack := 1 }) := by
  simp [fallback]

/-- Method `syn` (and the default, empty method): the SACK closure — the only code that dials the
    target — is never invoked; the outcome is the SYN outcome. -/
theorem c20_syn_never_dials (m : Method) (hm : m = .syn ∨ m = .empty) (syn sack sock : Out) :
    (fallback m syn sack sock).2.sack = 0 ∧ (fallback m syn sack sock).1 = syn := by
  rcases hm with rfl | rfl <;> simp [fallback]

/-- End-to-end probes never use SACK, whatever method was requested: after the override of
    `runE2eProbeOnce` the SACK closure is never invoked, and for every standard method except
    `syn_socket` the probe is exactly the SYN closure's outcome. -/
theorem c20_e2e_forced_syn (m : Method) (syn sack sock : Out) :
    (fallback (e2eMethod true m) syn sack sock).2.sack = 0 ∧
    (m = .empty ∨ m = .syn ∨ m = .sack ∨ m = .preferSack →
      fallback (e2eMethod true m) syn sack sock = (syn, { syn := 1 })) := by
  cases m <;> simp [e2eMethod, fallback]

/-- The override applies to TCP only and leaves every other method string untouched. -/
theorem c20_e2e_override_scope (m : Method) :
    e2eMethod false m = m ∧ (m ≠ .sack → m ≠ .preferSack → e2eMethod true m = m) := by
  cases m <;> simp [e2eMethod]

/-- An unknown method is rejected with an error and nothing is attempted. -/
theorem c20_unknown_method_rejected (syn sack sock : Out) :
    fallback .other syn sack sock = (.err [.msg tagUnexpected], {}) := by
  simp [fallback]

/-- Which real SACK failures count as "unsupported": exactly the capability failures of the
    property (cannot connect, SYN-ACK without SACK-permitted, ACK without SACK blocks, platform
    cannot hold the second socket); handshake timeout, filter/send/read faults, address mismatch
    and every other exit are fatal. -/
theorem c20_sack_classification (f : SackFailure) : sackUnsupported f = isCapability f := by
  cases f <;> rfl

/-- Composition: with the real SACK closure, `prefer_sack` produces a SYN trace exactly when SACK is
    unavailable for the target; every other failure `f` is reported (wrapped), never masked. -/
theorem c20_prefer_capability (syn sock : Out) (r : Nat) (f? : Option SackFailure) :
    ((fallback .preferSack syn (sackOut r f?) sock).2.syn = 1 ↔ ∃ f, f? = some f ∧ isCapability f = true) ∧
    (∀ f, f? = some f → isCapability f = false →
      fallback .preferSack syn (sackOut r f?) sock = (.err (.msg tagFatal :: sackChain f), { sack := 1 })) := by
  cases f? with
  | none => simp [sackOut, fallback]
  | some f =>
    have hc := c20_sack_classification f
    unfold sackUnsupported at hc
    cases hk : isCapability f <;> simp [sackOut, fallback, hc, hk]

/-- The executable policy predicate evaluated by the harness on the implementation's observations
    holds of the model for all methods, outcomes and chains. -/
theorem c20_spec_holds (m : Method) (syn sack sock : Out) :
    policyOK m syn sack sock (fallback m syn sack sock).1 (fallback m syn sack sock).2 = true := by
  cases m with
  | preferSack =>
    cases sack with
    | ok r => simp [policyOK, fallback, once, never, unsupported]
    | err c =>
      by_cases h : hasNS c = true
      · simp [policyOK, fallback, once, never, unsupported, h]
      · have h' : hasNS c = false := by simpa using h
        have hs : c.isSuffixOf (Layer.msg tagFatal :: c) = true :=
          List.isSuffixOf_iff_suffix.mpr (List.suffix_cons _ _)
        have hn : hasNS (Layer.msg tagFatal :: c) = false := by
          simp [hasNS] at h' ⊢; exact h'
        simp [policyOK, fallback, once, never, unsupported, h', hs, hn]
  | _ => simp [policyOK, fallback, once, never]

/-- non-vacuity: NotSupported four layers deep → fallback; a message that merely *mentions* it → fatal -/
example :
    fallback .preferSack (.ok 7) (.err [.msg 10, .msg 21, .msg 25, .notSupported, .msg 27]) (.ok 9)
      = (.ok 7, { sack := 1, syn := 1 }) := by decide
example :
    fallback .preferSack (.ok 7) (.err [.msg 10, .msg 21, .msg 23]) (.ok 9)
      = (.err [.msg 1, .msg 10, .msg 21, .msg 23], { sack := 1 }) := by decide
example : fallback (e2eMethod true .preferSack) (.ok 7) (.ok 8) (.ok 9) = (.ok 7, { syn := 1 }) := by decide
example : sackUnsupported .handshakeTimeout = false ∧ sackUnsupported .dial = true := by decide

#print axioms c20_sack_never_masked
#print axioms c20_prefer_iff_unsupported
#print axioms c20_prefer_any_depth
#print axioms c20_other_failure_reported
#print axioms c20_prefer_success
#print axioms c20_syn_never_dials
#print axioms c20_e2e_forced_syn
#print axioms c20_e2e_override_scope
#print axioms c20_unknown_method_rejected
#print axioms c20_sack_classification
#print axioms c20_prefer_capability
#print axioms c20_spec_holds
end TRV.Props.C20
