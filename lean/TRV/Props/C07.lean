import TRV.Proofs.Engine
import TRV.Proofs.EngineLTS
/-!
# C07 — Parallel merge is schedule-independent: first wins, destination overrides

Property theorems only (helper lemmas are in `TRV.Proofs.*`).
-/
namespace TRV.Props.C07
open TRV.Engine TRV.Spec TRV.LTS TRV.Proofs

/-- The slot array after any sequence of accepted replies is exactly the two-rule spec: the
    earliest accepted reply for a TTL, except that a destination reply replaces a non-destination
    one.  All sequences, all lengths. -/
theorem c07_merge_eq_best (σ : List Probe) (t : Nat) : merge σ t = best σ t :=
  merge_eq_best σ t

/-- The value `TracerouteParallel` returns is a function of the accepted replies only: one slot per
    TTL from the first TTL to the lowest destination TTL (or the last TTL), each holding `best`.
    Retryable outcomes (noise) interleaved anywhere do not matter. -/
theorem c07_parallel_result {min max : Nat} {outs : List ROut} {r : List (Option Probe)}
    (h : parallelRun min max true outs false false = .ok r) :
    r = expected min max (accepted outs) :=
  (parallel_result h).1

/-- Schedule independence at the level of what the receiver consumed: two runs that accepted the
    same replies in the same order return the same hop list, whatever else was received. -/
theorem c07_same_accepted_same_result {min max : Nat} {o₁ o₂ : List ROut} {r₁ r₂ : List (Option Probe)}
    (h₁ : parallelRun min max true o₁ false false = .ok r₁)
    (h₂ : parallelRun min max true o₂ false false = .ok r₂)
    (hσ : accepted o₁ = accepted o₂) : r₁ = r₂ := by
  rw [c07_parallel_result h₁, c07_parallel_result h₂, hσ]

/-- In every reachable state of the interleaving model (any order of sender checks, sends, receiver
    accepts/ignores, deadline), the slot array equals `merge` of the accepted sequence: it does not
    depend on how sending and receiving interleave or on when the writer was cancelled. -/
theorem c07_lts_slots {minT maxT : Nat} {s : St} (h : Reach minT maxT s) (t : Nat) :
    s.slots t = best s.sigma t := by
  rw [slots_eq_merge h]; exact merge_eq_best _ t

/-- Every reply the receiver accepted is reflected: its TTL's slot is filled, with that reply unless
    an earlier reply or a destination reply for the same TTL takes precedence under the two rules. -/
theorem c07_all_reflected (σ : List Probe) (p : Probe) (hp : p ∈ σ) :
    ∃ q, merge σ p.ttl = some q ∧ q ∈ σ ∧ q.ttl = p.ttl ∧ (p.dest = true → q.dest = true) := by
  rw [merge_eq_best]
  unfold best
  cases hfd : firstDest σ p.ttl with
  | some q =>
    have h1 := List.find?_some hfd
    simp only [Bool.and_eq_true, decide_eq_true_eq] at h1
    exact ⟨q, rfl, List.mem_of_find?_eq_some hfd, h1.1, fun _ => h1.2⟩
  | none =>
    have hnone := List.find?_eq_none.mp hfd p hp
    simp only [decide_true, Bool.true_and, Bool.not_eq_true] at hnone
    cases hfa : firstAny σ p.ttl with
    | none =>
      have := List.find?_eq_none.mp hfa p hp
      simp at this
    | some q =>
      have h1 := List.find?_some hfa
      simp only [decide_eq_true_eq] at h1
      exact ⟨q, rfl, List.mem_of_find?_eq_some hfa, h1, fun h => by simp [h] at hnone⟩

/-- non-vacuity: a concrete run with duplicates, a late destination override and noise -/
example :
    let a : Probe := { ttl := 1, ip := [10,0,0,1], rtt := 5, dest := false }
    let b : Probe := { ttl := 2, ip := [10,0,0,2], rtt := 9, dest := false }
    let b' : Probe := { ttl := 2, ip := [10,0,0,9], rtt := 11, dest := true }
    let c : Probe := { ttl := 3, ip := [10,0,0,9], rtt := 12, dest := true }
    parallelRun 1 5 true [.retry, .accept b, .accept a, .retry, .accept c, .accept b', .accept a] false false
      = .ok [some a, some b'] := by rfl

/-- no mixing: a filled slot of the parallel result holds ONE accepted reply in its entirety
    (address, RTT and destination mark together), and that reply is for this TTL -/
theorem c07_slot_is_accepted_reply (σ : List Probe) (t : Nat) (q : Probe) (h : merge σ t = some q) :
    q ∈ σ ∧ q.ttl = t := by
  rw [merge_eq_best] at h
  unfold best at h
  cases hfd : firstDest σ t with
  | some p =>
    rw [hfd] at h
    simp only [Option.some.injEq] at h
    subst h
    have h1 := List.find?_some hfd
    have h2 := List.mem_of_find?_eq_some hfd
    simp at h1
    exact ⟨h2, h1.1⟩
  | none =>
    rw [hfd] at h
    simp only at h
    have h1 := List.find?_some h
    have h2 := List.mem_of_find?_eq_some h
    simp at h1
    exact ⟨h2, h1⟩

/-- destination mark of a slot (C04 at the engine): the slot for TTL `t` carries the destination
    mark exactly when some accepted reply for `t` is a destination reply — and then the slot IS such
    a reply (its address and RTT are the destination reply's, never an earlier router's) -/
theorem c07_slot_dest_iff (σ : List Probe) (t : Nat) (q : Probe) (h : merge σ t = some q) :
    q.dest = true ↔ ∃ p ∈ σ, p.ttl = t ∧ p.dest = true := by
  constructor
  · intro hd
    obtain ⟨hm, ht⟩ := c07_slot_is_accepted_reply σ t q h
    exact ⟨q, hm, ht, hd⟩
  · rintro ⟨p, hp, hpt, hpd⟩
    rw [merge_eq_best] at h
    unfold best at h
    cases hfd : firstDest σ t with
    | some r =>
      rw [hfd] at h
      simp only [Option.some.injEq] at h
      subst h
      have h1 := List.find?_some hfd
      simp at h1
      exact h1.2
    | none =>
      exfalso
      have := List.find?_eq_none.mp hfd p hp
      simp [hpt, hpd] at this

#print axioms c07_merge_eq_best
#print axioms c07_parallel_result
#print axioms c07_same_accepted_same_result
#print axioms c07_lts_slots
#print axioms c07_all_reflected
#print axioms c07_slot_is_accepted_reply
#print axioms c07_slot_dest_iff
end TRV.Props.C07
