-- every property module (one line per property, kept sorted)
import TRV.Props.C03
import TRV.Props.C07
