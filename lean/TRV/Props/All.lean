-- every property module (one line per property, kept sorted)
import TRV.Props.C03
import TRV.Props.C07
import TRV.Props.C12
import TRV.Props.C14
import TRV.Props.C15
import TRV.Props.C16
import TRV.Props.C17
import TRV.Props.C18
import TRV.Props.C19
import TRV.Props.C20
