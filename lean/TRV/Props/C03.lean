import TRV.Proofs.Engine
/-!
# C03 — Path shape: consecutive TTLs, ends at first destination answer
-/
namespace TRV.Props.C03
open TRV.Engine TRV.Spec TRV.Proofs

/-- For every slot array satisfying the engine invariant, `clipResults` does not hit its slice
    bound, `ToHops` does not take its error branch, and the hop list is never empty, has consecutive
    TTLs from the first TTL, ends at the first destination slot (or the last TTL), and only its last
    entry can be the destination.  All `1 ≤ min ≤ max`, all slot contents. -/
theorem c03_clip_shape {min max : Nat} {s : Slots} (hmin : min ≤ max) (hinv : SlotInv min max s) :
    ∃ r hops, clipList min (slotList max s) = some r ∧ toHops min r = some hops ∧
      shapeOK min (slotCut s max) hops = true :=
  let ⟨r, hops, h1, h2, h3, _⟩ := clip_shape hmin hinv
  ⟨r, hops, h1, h2, h3⟩

/-- Parallel engine: every successful run, whatever was received in whatever order, yields a hop
    list of the path shape, cut at the lowest TTL the destination answered. -/
theorem c03_parallel_shape {min max : Nat} {outs : List ROut} {r : List (Option Probe)}
    (h : parallelRun min max true outs false false = .ok r) :
    ∃ hops, toHops min r = some hops ∧ shapeOK min (cutOf (accepted outs) max) hops = true := by
  obtain ⟨hr, hmin, _, hv⟩ := parallel_result h
  subst hr
  refine ⟨_, toHops_map (fun t p hp => best_ttl hp) _ _, ?_⟩
  apply shape_of_cut (cutOf_ge hmin hv)
  intro t ht
  rw [best_isDest]; exact cutOf_first _ _ t ht

/-- Parallel engine: a successful run never panics in `clipResults` (no `.panic` result). -/
theorem c03_parallel_no_panic {min max : Nat} {outs : List ROut} {se ec : Bool} :
    parallelRun min max true outs se ec ≠ .error .panic := by
  unfold parallelRun
  split; · simp
  rename_i hvp
  simp only [Bool.not_true, Bool.false_eq_true, if_false]
  split; · rename_i e he; intro h; simp at h; subst h
           -- recvLoop never returns `.panic`
           have : ∀ (outs : List ROut) (s : Slots), recvLoop min max s outs ≠ .error .panic := by
             intro outs; induction outs with
             | nil => intro s; simp [recvLoop]
             | cons o outs ih => intro s; cases o <;> simp [recvLoop, ih]
                                 split <;> simp [ih]
           exact this _ _ he
  rename_i s hs
  split; · simp
  split; · simp
  have hvp' : min ≤ max := by simp [validParams] at hvp; exact hvp.1
  have hinv := recvLoop_inv _ _ _ (emptySlots_inv min max) hs
  obtain ⟨r, _, h1, _⟩ := clip_shape hvp' hinv
  rw [h1]; simp

/-- Serial engine: every successful run yields a hop list of the path shape, cut at the first
    destination slot. -/
theorem c03_serial_shape {min max : Nat} {ws : List (List ROut)} {r : List (Option Probe)}
    (h : serialRun min max ws false false = .ok r) :
    ∃ s hops, toHops min r = some hops ∧ shapeOK min (slotCut s max) hops = true ∧
      serialLoop min max emptySlots ws = .ok s := by
  unfold serialRun at h
  split at h; · simp at h
  rename_i hvp
  have hvp' : min ≤ max := by simp [validParams] at hvp; exact hvp.1
  split at h; · simp at h
  rename_i s hs
  simp only [Bool.false_eq_true, if_false] at h
  have hinv := serialLoop_inv _ _ _ (emptySlots_inv min max) hs
  obtain ⟨r', hops, h1, h2, h3, _⟩ := clip_shape hvp' hinv
  rw [h1] at h
  simp at h; subst h
  exact ⟨s, hops, h2, h3, hs⟩

/-- non-vacuity: min = 2, a silent TTL, destination at 4, late duplicate for TTL 3 -/
example :
    let b : Probe := { ttl := 3, ip := [10,0,0,2], rtt := 9, dest := false }
    let c : Probe := { ttl := 4, ip := [10,0,0,9], rtt := 12, dest := true }
    (parallelRun 2 30 true [.accept c, .accept b, .accept b] false false = .ok [none, some b, some c]) ∧
    shapeOK 2 4 [{ ttl := 2, ip := [], rtt := 0, dest := false },
                 { ttl := 3, ip := [10,0,0,2], rtt := 9, dest := false },
                 { ttl := 4, ip := [10,0,0,9], rtt := 12, dest := true }] = true := by
  exact ⟨rfl, rfl⟩

#print axioms c03_clip_shape
#print axioms c03_parallel_shape
#print axioms c03_parallel_no_panic
#print axioms c03_serial_shape
end TRV.Props.C03
