import TRV.Proofs.Wrapper
import TRV.Proofs.Classify
/-!
# C10 — Failure atomicity, cause-preserving errors, handles closed exactly once

Property theorems only (helper lemmas are in `TRV.Proofs.Wrapper`). Model: `TRV.Wrapper`
(`icmp`, `udp`, `tcp`, `sack`), reference predicates: `TRV.Spec.Wrapper` (`atomic`, `closeOnce`,
`noUseAfterClose`). All theorems quantify over **every** fault plan (any list of faults, unbounded
call indices), every configuration and every environment (schedule of engine steps / windows /
handshake reads of any length).

Goroutine quiescence is not modelled; it is observed by the harness (`harness/corr/c10_test.go`).
-/
namespace TRV.Props.C10
open TRV.Engine TRV.Wrapper TRV.Spec.Wrapper TRV.Proofs.Wrapper

/-- ICMP (`RunICMPTraceroute`), every fault plan, every schedule: an error result carries the cause of a
    triggered non-benign fault in its chain; a success means no non-benign fault was triggered (no
    partial path returned as a success). Induction over the engine history. -/
theorem c10_icmp_atomic (cfg : Cfg) (plan : FaultPlan) (sched : List Step) :
    atomic (icmp cfg plan sched) = true := by
  unfold icmp
  split; · exact atomic_nohit _ _
  split; · rename_i h; exact atomic_early (by decide) h (by simp)
  split; · rename_i h; exact atomic_early (by decide) h (by simp)
  split; · rename_i h; exact atomic_early (by decide) h (by simp)
  exact atomic_conclude (parWalk_good _ _ _ _ _)
    (fun h => parallelRun_err (parWalk_err _ _ _ _ _ h))

/-- ICMP: on every path every handle is opened at most once and closed exactly as often as opened. -/
theorem c10_icmp_close_once (cfg : Cfg) (plan : FaultPlan) (sched : List Step) :
    closeOnce (icmp cfg plan sched).log = true := by
  have hu := parWalk_uses plan cfg.min cfg.max sched { cnt := {} }
  unfold icmp
  repeat' split
  all_goals simp [closeOnce, allHandles, List.count_append, count_open_uses hu, count_close_uses hu, List.count_cons]

/-- ICMP: no operation on a handle after its `Close`. -/
theorem c10_icmp_no_use_after_close (cfg : Cfg) (plan : FaultPlan) (sched : List Step) :
    noUseAfterClose (icmp cfg plan sched).log = true := by
  have hu := parWalk_uses plan cfg.min cfg.max sched { cnt := {} }
  have hl := uses_ne hu (x := .localConn) (by decide) (by decide)
  unfold icmp
  repeat' split
  all_goals simp [noUseAfterClose, List.all_append, hl, nuac_uses_append hu, uh]

/-- cancellation (ICMP and SACK take the caller's context): when the caller's context is done by the
    time the engine's goroutines have returned, NO path is returned — whatever was received, whatever
    faults were or were not triggered — and the handle discipline theorems above hold unchanged
    (`cfg` is universally quantified there). -/
theorem c10_icmp_cancelled_no_path (cfg : Cfg) (plan : FaultPlan) (sched : List Step) (hc : cfg.cancelled = true) :
    ∃ c, (icmp cfg plan sched).res = .error c := by
  unfold icmp
  split; · exact ⟨_, rfl⟩
  split; · exact ⟨_, rfl⟩
  split; · exact ⟨_, rfl⟩
  split; · exact ⟨_, rfl⟩
  simp only [hc]
  have : ∃ e, parallelRun cfg.min cfg.max true (parWalk plan cfg.min cfg.max { cnt := {} } sched).outs
      (parWalk plan cfg.min cfg.max { cnt := {} } sched).sendErr true = .error e := by
    unfold parallelRun
    split; · exact ⟨_, rfl⟩
    simp only [Bool.not_true, Bool.false_eq_true, if_false]
    split; · exact ⟨_, rfl⟩
    split <;> exact ⟨_, rfl⟩
  obtain ⟨e, he⟩ := this
  rw [he]
  exact ⟨_, rfl⟩

/-- … and with no fault triggered and nothing wrong on the wire the error is the cancellation itself -/
theorem c10_icmp_cancelled_cause (cfg : Cfg) (sched : List Step) (hv : cfg.validTarget = true)
    (hc : cfg.cancelled = true) (hp : validParams cfg.min cfg.max = true)
    {s : Slots} (hr : recvLoop cfg.min cfg.max emptySlots (parWalk [] cfg.min cfg.max { cnt := {} } sched).outs = .ok s)
    (hs : (parWalk [] cfg.min cfg.max { cnt := {} } sched).sendErr = false)
    (hf : (parWalk [] cfg.min cfg.max { cnt := {} } sched).firstErr = none) :
    (icmp cfg [] sched).res = .error [W.outer.l, W.inner.l, .cause (.engine .cancelled)] := by
  unfold icmp
  simp only [hv, Bool.not_true, Bool.false_eq_true, if_false]
  have e1 : ∀ op k, eff [] op k = .pass := by intro op k; rfl
  simp only [e1, ne_eq, not_true_eq_false, if_false]
  simp only [parallelRun, hp, hr, hs, hc, hf, Bool.not_true, Bool.false_eq_true, if_false, if_true, conclude, engChain]
  rfl

/-- SACK: the same — a cancelled caller never gets a path -/
theorem c10_sack_cancelled_no_path (cfg : Cfg) (plan : FaultPlan) (env : SackEnv) (hc : cfg.cancelled = true) :
    ∃ c, (sack cfg plan env).res = .error c := by
  have hpar : ∀ (outs : List ROut) (se : Bool), ∃ e, parallelRun cfg.min cfg.max true outs se true = .error e := by
    intro outs se
    unfold parallelRun
    split; · exact ⟨_, rfl⟩
    simp only [Bool.not_true, Bool.false_eq_true, if_false]
    split; · exact ⟨_, rfl⟩
    split <;> exact ⟨_, rfl⟩
  have htail : ∀ pre hpre nr, ∃ c, (sackTail cfg plan env pre hpre nr).res = .error c := by
    intro pre hpre nr
    unfold sackTail
    split; · exact ⟨_, rfl⟩
    simp only [hc]
    obtain ⟨e, he⟩ := hpar (parWalk plan cfg.min cfg.max { cnt := { nd := 1, nr := nr } } env.sched).outs
      (parWalk plan cfg.min cfg.max { cnt := { nd := 1, nr := nr } } env.sched).sendErr
    rw [he]
    exact ⟨_, rfl⟩
  have hconn : ∀ pre, ∃ c, (sackConn cfg plan env pre).res = .error c := by
    intro pre
    unfold sackConn
    split; · exact ⟨_, rfl⟩
    split; · exact ⟨_, rfl⟩
    dsimp only
    split
    · exact ⟨_, rfl⟩
    · exact htail _ _ _
  unfold sack
  repeat' split
  all_goals first | exact ⟨_, rfl⟩ | exact hconn _

/-- UDP (`UDPv4.Traceroute`): failure atomicity and cause preservation, every plan and schedule, including
    `MustClosePort` configurations. -/
theorem c10_udp_atomic (cfg : Cfg) (plan : FaultPlan) (sched : List Step) :
    atomic (udp cfg plan sched) = true := by
  unfold udp
  split; · exact atomic_nohit _ _
  split; · rename_i h; exact atomic_early (by decide) h (by simp)
  split; · rename_i h; exact atomic_early (by decide) h (by simp)
  split; · rename_i h; exact atomic_early (by decide) h (by simp)
  exact atomic_conclude (parWalk_good _ _ _ _ _)
    (fun h => parallelRun_err (parWalk_err _ _ _ _ _ h))

/-- UDP, Linux configurations (`handle.MustClosePort = false`): exactly-once close of every handle. -/
theorem c10_udp_close_once_partial (cfg : Cfg) (plan : FaultPlan) (sched : List Step)
    (hlinux : cfg.mustClosePort = false) : closeOnce (udp cfg plan sched).log = true := by
  have hu := parWalk_uses plan cfg.min cfg.max sched { cnt := {} }
  unfold udp
  repeat' split
  all_goals simp [hlinux, mcClose, closeOnce, allHandles, List.count_append, count_open_uses hu, count_close_uses hu, List.count_cons]

/-- UDP: no operation on a handle after its `Close` (all configurations). -/
theorem c10_udp_no_use_after_close (cfg : Cfg) (plan : FaultPlan) (sched : List Step) :
    noUseAfterClose (udp cfg plan sched).log = true := by
  have hu := parWalk_uses plan cfg.min cfg.max sched { cnt := {} }
  have hl := uses_ne hu (x := .localConn) (by decide) (by decide)
  unfold udp
  repeat' split
  all_goals cases cfg.mustClosePort <;> simp [mcClose, noUseAfterClose, List.all_append, hl, nuac_uses_append hu, uh]

/-- TCP SYN (`TCPv4.Traceroute`, serial engine): failure atomicity and cause preservation, every plan and
    every list of per-TTL windows. -/
theorem c10_tcp_atomic (cfg : Cfg) (plan : FaultPlan) (ws : List (List ROut)) :
    atomic (tcp cfg plan ws) = true := by
  unfold tcp
  split; · rename_i h; exact atomic_early (by decide) h (by simp)
  split; · rename_i h; exact atomic_early (by decide) h (by simp)
  split; · exact atomic_nohit _ _
  split; · rename_i h; exact atomic_early (by decide) h (by simp)
  split; · rename_i h; exact atomic_early (by decide) h (by simp)
  exact atomic_conclude (serWalk_good _ _ _ _ _ _)
    (fun h => serialRun_err (serWalk_err _ _ _ _ _ _ h))

/-- TCP SYN, Linux configurations (`handle.MustClosePort = false`): exactly-once close of every handle,
    including the reserved-port listener. -/
theorem c10_tcp_close_once_partial (cfg : Cfg) (plan : FaultPlan) (ws : List (List ROut))
    (hlinux : cfg.mustClosePort = false) : closeOnce (tcp cfg plan ws).log = true := by
  have hu := serWalk_uses plan cfg.min cfg.max ws {} 0
  unfold tcp
  repeat' split
  all_goals simp [hlinux, mcClose, closeOnce, allHandles, List.count_append, count_open_uses hu, count_close_uses hu, List.count_cons]

/-- TCP SYN: no operation on a handle after its `Close` (all configurations). -/
theorem c10_tcp_no_use_after_close (cfg : Cfg) (plan : FaultPlan) (ws : List (List ROut)) :
    noUseAfterClose (tcp cfg plan ws).log = true := by
  have hu := serWalk_uses plan cfg.min cfg.max ws {} 0
  have hl := uses_ne hu (x := .localConn) (by decide) (by decide)
  have hl2 := uses_ne hu (x := .listener) (by decide) (by decide)
  unfold tcp
  repeat' split
  all_goals cases cfg.mustClosePort <;> simp [mcClose, noUseAfterClose, List.all_append, hl, hl2, nuac_uses_append hu, uh]

/-- SACK (`RunSackTraceroute`): failure atomicity and cause preservation for faults in either filter
    installation, the handshake deadline / reads, the TCP dial and the engine run. -/
theorem c10_sack_atomic (cfg : Cfg) (plan : FaultPlan) (env : SackEnv) :
    atomic (sack cfg plan env) = true := by
  unfold sack
  split; · exact atomic_nohit _ _
  split; · rename_i h; exact atomic_early (by decide) h (by simp)
  split; · rename_i h; exact atomic_early (by decide) h (by simp)
  split; · rename_i h; exact atomic_early (by decide) h (by simp)
  split; · exact atomic_nohit _ _
  split; · rename_i h; exact atomic_early (by decide) h (by simp)
  split; · exact atomic_nohit _ _
  exact sackConn_atomic _ _ _ _

/-- SACK: exactly-once close of source, sink, the local-address socket and the TCP connection on every
    path (early returns before `defer driver.Close()` close by hand, later ones by the deferred calls). -/
theorem c10_sack_close_once (cfg : Cfg) (plan : FaultPlan) (env : SackEnv) :
    closeOnce (sack cfg plan env).log = true := by
  unfold sack
  repeat' split
  all_goals try rfl
  obtain ⟨mid, hm, hl⟩ := sackConn_shape cfg plan env
    ([.open .localConn, .close .localConn] ++ [.open .source, .open .sink, .filter] ++ [.open .tcpConn])
  rw [hl]
  simp [closeOnce, allHandles, sackClose2, List.count_append, count_open_uses hm, count_close_uses hm, List.count_cons]

/-- SACK: no operation on a handle after its `Close`. -/
theorem c10_sack_no_use_after_close (cfg : Cfg) (plan : FaultPlan) (env : SackEnv) :
    noUseAfterClose (sack cfg plan env).log = true := by
  unfold sack
  repeat' split
  all_goals try rfl
  obtain ⟨mid, hm, hl⟩ := sackConn_shape cfg plan env
    ([.open .localConn, .close .localConn] ++ [.open .source, .open .sink, .filter] ++ [.open .tcpConn])
  rw [hl]
  have hlc := uses_ne hm (x := .localConn) (by decide) (by decide)
  simp [noUseAfterClose, sackClose2, List.all_append, hlc, nuac_uses_append hm, uh]

/-- the full close-exactly-once statements, over every configuration including `MustClosePort` -/
def c10_udp_close_once_full : Prop :=
  ∀ (cfg : Cfg) (plan : FaultPlan) (sched : List Step), closeOnce (udp cfg plan sched).log = true
def c10_tcp_close_once_full : Prop :=
  ∀ (cfg : Cfg) (plan : FaultPlan) (ws : List (List ROut)), closeOnce (tcp cfg plan ws).log = true

/-- the full UDP statement is false: with `MustClosePort` (Windows) the local UDP socket is closed twice
    (`conn.Close()` in the branch and again by `defer conn.Close()`), already on the fault-free path -/
theorem c10_udp_close_once_full_false : ¬ c10_udp_close_once_full := by
  intro h
  have := h { min := 1, max := 1, mustClosePort := true } [] []
  revert this; decide

/-- the full TCP statement is false: with `MustClosePort` the reserved listener is closed twice -/
theorem c10_tcp_close_once_full_false : ¬ c10_tcp_close_once_full := by
  intro h
  have := h { min := 1, max := 1, mustClosePort := true } [] []
  revert this; decide

/-- the whole property for one observation, all four variants on Linux configurations -/
theorem c10_all_linux (cfg : Cfg) (plan : FaultPlan) (sched : List Step) (ws : List (List ROut))
    (env : SackEnv) (hlinux : cfg.mustClosePort = false) :
    Atomic (icmp cfg plan sched) = true ∧ Atomic (udp cfg plan sched) = true ∧
    Atomic (tcp cfg plan ws) = true ∧ Atomic (sack cfg plan env) = true := by
  simp only [Atomic, Bool.and_eq_true]
  exact ⟨⟨⟨c10_icmp_atomic _ _ _, c10_icmp_close_once _ _ _⟩, c10_icmp_no_use_after_close _ _ _⟩,
    ⟨⟨c10_udp_atomic _ _ _, c10_udp_close_once_partial _ _ _ hlinux⟩, c10_udp_no_use_after_close _ _ _⟩,
    ⟨⟨c10_tcp_atomic _ _ _, c10_tcp_close_once_partial _ _ _ hlinux⟩, c10_tcp_no_use_after_close _ _ _⟩,
    ⟨⟨c10_sack_atomic _ _ _, c10_sack_close_once _ _ _⟩, c10_sack_no_use_after_close _ _ _⟩⟩

/-- noted, not part of `atomic` (a deadline-class read fault is an ordinary time-out): when the
    handshake read times out, `ReadHandshake` returns "readHandshake timed out" made without `%w`, so
    the returned chain does not contain `os.ErrDeadlineExceeded` — it ends in the fresh time-out error -/
theorem c10_sack_handshake_timeout_chain :
    (sack { min := 1, max := 3 } [{ op := .read, k := 0, cls := .deadline }] { hs := [.done] }).res =
      .error [.wrap .outer, .wrap .handshake, .cause .handshakeTimeout] := by rfl

/-! ## non-vacuity -/

private def a (t : Nat) (d : Bool) : ROut := .accept { ttl := t, ip := [10, 0, 0, 1], rtt := 0, dest := d }
private def sched3 : List Step :=
  [.send, .rbegin, .rend (a 1 false), .rbegin, .send, .rend (a 2 false), .rbegin, .send,
   .rend (a 3 true), .rbegin, .rend .retry]

/-- a fault-free ICMP run over two routers and the destination returns three hops and the log
    open … filter, (write | deadline read)*, close-source, close-sink -/
example : ((icmp { min := 1, max := 3 } [] sched3).res.toOption.map (·.hops.length)) = some 3 ∧
    (icmp { min := 1, max := 3 } [] sched3).log =
      [.open .localConn, .close .localConn, .open .source, .open .sink, .filter, .write, .deadline, .read,
       .deadline, .read, .write, .deadline, .read, .write, .deadline, .read, .close .source, .close .sink] := by
  constructor <;> rfl

/-- the same run with the second read failing: an error whose chain ends in that injected error, the
    run stops there and both handles are closed once -/
example : (icmp { min := 1, max := 3 } [{ op := .read, k := 1, cls := .fatal }] sched3).res =
      .error [.wrap .outer, .wrap .inner, .wrap .recvProbe, .wrap .connRead, .cause (.injected .read 1)] ∧
    (icmp { min := 1, max := 3 } [{ op := .read, k := 1, cls := .fatal }] sched3).log =
      [.open .localConn, .close .localConn, .open .source, .open .sink, .filter, .write, .deadline, .read,
       .deadline, .read, .close .source, .close .sink] := by
  constructor <;> rfl

/-- a deadline-class read fault is absorbed: still three hops -/
example : ((icmp { min := 1, max := 3 } [{ op := .read, k := 1, cls := .deadline }]
      [.send, .rbegin, .rend (a 1 false), .rbegin, .rbegin, .send, .rend (a 2 false), .rbegin, .send,
       .rend (a 3 true)]).res.toOption.map (·.hops.length)) = some 3 := by rfl

/-- SACK, second filter installation fails: error wrapping it, TCP connection, source and sink closed -/
example : (sack { min := 1, max := 3 } [{ op := .filter, k := 1, cls := .fatal }] { hs := [.ignore, .done], sched := sched3 }).log =
      [.open .localConn, .close .localConn, .open .source, .open .sink, .filter, .open .tcpConn, .deadline,
       .read, .read, .filter, .close .tcpConn, .close .source, .close .sink] := by rfl

/-- the spec predicates are not trivially true: a success after a fatal fault, a double close and a use
    after close are all rejected -/
example : atomic ⟨.ok ⟨[]⟩, [], [{ op := .read, k := 0, cls := .fatal }]⟩ = false ∧
    atomic ⟨.error [.wrap .outer, .cause .natural], [], [{ op := .write, k := 0, cls := .fatal }]⟩ = false ∧
    closeOnce [.open .source, .close .source, .close .source] = false ∧
    closeOnce [.open .source, .open .sink, .close .source] = false ∧
    noUseAfterClose [.open .source, .close .source, .read] = false := by decide

/-! ## Classification of read outcomes (`ReadAndParse`, `CheckProbeRetryable`)

Which read outcomes the engines skip and which end the run with their cause — the decision the
"fatal / deadline / zero-length read" classes of the property rest on.  Model: `TRV.Classify`
(error values as `Unwrap` chains); tie: the `classify` stream of `TestC10` on the real functions. -/

/-- wrapping never changes the classification -/
theorem c10_classification_wrap_invariant (k : Nat) (c : Classify.Chain) :
    Classify.retryable (List.replicate k .wrap ++ c) = Classify.retryable c ∧
    Classify.isDeadline (List.replicate k .wrap ++ c) = Classify.isDeadline c ∧
    Classify.isNotSupported (List.replicate k .wrap ++ c) = Classify.isNotSupported c :=
  Classify.wrap_invariant k c

/-- a failed read is "no packet yet" exactly when the deadline sentinel is in its chain -/
theorem c10_classification_read_error (c : Classify.Chain) (hp : Classify.Plain c) :
    Classify.verdict (.err c) = .skip ↔ Classify.isDeadline c = true :=
  Classify.read_error_skipped_iff_deadline c hp

/-- a time-out-flavoured read FAILURE that is not the sentinel ends the run; the sentinel wrapped the
    way real handles wrap it does not; zero bytes end the run, unparseable bytes are skipped -/
theorem c10_classification_edges (k n : Nat) :
    Classify.verdict (.err (List.replicate k .wrap ++ [.cause true n])) = .abort ∧
    Classify.verdict (.err (List.replicate k .wrap ++ [.deadline])) = .skip ∧
    Classify.verdict (.data 0 false) = .abort ∧ Classify.verdict (.data (n+1) true) = .skip ∧
    Classify.verdict (.data (n+1) false) = .packet :=
  ⟨Classify.timeoutish_read_failure_aborts k n, Classify.wrapped_deadline_skipped k,
   (Classify.data_verdicts n).2.1, (Classify.data_verdicts n).2.2.1, (Classify.data_verdicts n).2.2.2⟩

/-- "not supported" around a plain cause ends the run and stays recognisable; around a bad-packet
    marker it would be skipped -/
theorem c10_classification_not_supported (k n : Nat) (t : Bool) :
    Classify.retryable (.notSupported :: (List.replicate k .wrap ++ [.cause t n])) = false ∧
    Classify.isNotSupported (.notSupported :: (List.replicate k .wrap ++ [.cause t n])) = true ∧
    Classify.retryable (.notSupported :: (List.replicate k .wrap ++ [.badPkt, .cause t n])) = true :=
  Classify.not_supported_is_not_retryable k n t

#print axioms c10_classification_wrap_invariant
#print axioms c10_classification_read_error
#print axioms c10_classification_edges
#print axioms c10_classification_not_supported
#print axioms c10_icmp_cancelled_no_path
#print axioms c10_icmp_cancelled_cause
#print axioms c10_sack_cancelled_no_path
#print axioms c10_icmp_atomic
#print axioms c10_icmp_close_once
#print axioms c10_icmp_no_use_after_close
#print axioms c10_udp_atomic
#print axioms c10_udp_close_once_partial
#print axioms c10_udp_no_use_after_close
#print axioms c10_tcp_atomic
#print axioms c10_tcp_close_once_partial
#print axioms c10_tcp_no_use_after_close
#print axioms c10_sack_atomic
#print axioms c10_sack_close_once
#print axioms c10_sack_no_use_after_close
#print axioms c10_udp_close_once_full_false
#print axioms c10_tcp_close_once_full_false
#print axioms c10_all_linux
#print axioms c10_sack_handshake_timeout_chain
end TRV.Props.C10
