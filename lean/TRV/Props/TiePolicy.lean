import TRV.Model.Policy
import TRV.Model.Params
import TRV.Generated.LogicRunner
/-!
# Tie theorems: the TCP method policy model equals the trees REGENERATED from `traceroute/runner.go`

`tie_fallback`: what `performTCPFallback` returns — which closure's result, or which wrapped error —
is the first component of the model's `Policy.fallback`, for every method string class and every
outcome of the SACK closure (success, failure with / without a `NotSupportedError` anywhere in the
chain).  The invocation COUNTS of the closures (second component of the model) are not visible in the
tree's leaves and stay with the correspondence stream of C20.
`tie_e2e_override`: `runE2eProbeOnce` rewrites the method to SYN exactly when the model's `e2eMethod`
does, and always pins the first TTL to the last.
-/
namespace TRV.Props.TiePolicy
open TRV TRV.Logic TRV.Generated TRV.Policy

def sackIsNS : Policy.Out → Bool
  | .err c => hasNS c
  | .ok _ => false

def sackOk : Policy.Out → Bool
  | .ok _ => true
  | .err _ => false

def atoms (m : Method) (sack : Policy.Out) : LogicRunner.performTCPFallback.Atoms :=
  { «tcpMethod == ""» := decide (m = .empty)
    «errors.As(doSack().1, &zero(*github.com/DataDog/datadog-traceroute/sack.NotSupportedError))» := sackIsNS sack
    «doSack().1 == nil» := sackOk sack
    «tcpMethod == TCPConfigSYN» := decide (m = .syn)
    «tcpMethod == TCPConfigSACK» := decide (m = .sack)
    «tcpMethod == TCPConfigSYNSocket» := decide (m = .synSocket)
    «tcpMethod == TCPConfigPreferSACK» := decide (m = .preferSack) }

/-- the value `performTCPFallback` returns, in the model's terms -/
def interp (syn sack sock : Policy.Out) (r : R) : Policy.Out :=
  match r.get "0", r.get "1" with
  | some (V.ref a), some (V.ref b) =>
    if a = "doSyn().0" ∧ b = "doSyn().1" then syn
    else if a = "doSack().0" ∧ b = "doSack().1" then sack
    else if a = "doSynSocket().0" ∧ b = "doSynSocket().1" then sock
    else .err []
  | some (V.ref a), some V.nil => if a = "doSack().0" then sack else .err []
  | some V.nil, some (V.err k) =>
    if k = "fmt.Errorf %w doSack().1" then
      match sack with
      | .err c => .err (.msg tagFatal :: c)
      | .ok _ => .err []
    else if k = "fmt.Errorf" then .err [.msg tagUnexpected]
    else .err []
  | _, _ => .err []

theorem tie_fallback (m : Method) (syn sack sock : Policy.Out) :
    interp syn sack sock (LogicRunner.performTCPFallback.run (atoms m sack)) = (fallback m syn sack sock).1 := by
  cases m <;> cases sack with
  | ok r => simp [LogicRunner.performTCPFallback.run, atoms, interp, fallback, sackIsNS, sackOk, R.get]
  | err c =>
    cases h : hasNS c <;>
      simp [LogicRunner.performTCPFallback.run, atoms, interp, fallback, sackIsNS, sackOk, R.get, h]

theorem tie_e2e_override (isTcp : Bool) (m : Method) (okRun noDest : Bool) :
    let r := LogicRunner.runE2eProbeOnce.run
      { «params.MaxTTL» := 30
        «params.Protocol == "tcp"» := isTcp
        «params.TCPMethod == TCPConfigSACK» := decide (m = .sack)
        «params.TCPMethod == TCPConfigPreferSACK» := decide (m = .preferSack)
        «runTracerouteOnceFn(ctx, params, destinationPort).1 == nil» := okRun
        «runTracerouteOnceFn(ctx, params, destinationPort).0.GetDestinationHop() == nil» := noDest }
    r.effects.contains "params.MinTTL = params.MaxTTL" = true ∧
    r.effects.contains "params.TCPMethod = TCPConfigSYN" = decide (e2eMethod isTcp m ≠ m) := by
  cases isTcp <;> cases m <;> cases okRun <;> cases noDest <;>
    simp [LogicRunner.runE2eProbeOnce.run, e2eMethod]

/-- the TTL guard at the top of `runTracerouteOnce` rejects exactly the requests the parameter model's
    range check rejects (`Params.ttlInRange` on both bounds, on the un-narrowed `int` values) -/
theorem tie_ttl_guard (min max : Int) :
    (LogicRunner.ttlGuard.run { «params.MinTTL» := min, «params.MaxTTL» := max }).rets.isEmpty
      = (Params.ttlInRange min && Params.ttlInRange max) := by
  unfold LogicRunner.ttlGuard.run Params.ttlInRange
  (repeat' split) <;> simp_all <;> omega

#print axioms tie_ttl_guard
#print axioms tie_fallback
#print axioms tie_e2e_override

end TRV.Props.TiePolicy
