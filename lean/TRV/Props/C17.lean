import TRV.Proofs.Result
/-!
# C17 — Private-hop redaction leaves no private address or derived data

Property theorems only (helper lemmas are in `TRV.Proofs.Result`).  `isPrivate` is the model of
`net.IP.IsPrivate` (with `To4`), `removePrivate` of `Results.RemovePrivateHops`, `pipeline` of the
tail of `RunTraceroute` (enrich → normalize → redact).  `PrivateRange`, `RedactedHop`, `Redacted`
are the reference predicates of `TRV.Spec.Result`.  `hopAt d i j` is the hop at run `i`,
position `j`.

Scope, as the property states it: hop entries.  `TracerouteRun.Destination` (address and names) is
not a hop entry and is left alone by `RemovePrivateHops`.
-/
namespace TRV.Props.C17
open TRV TRV.Result TRV.ResSpec TRV.Proofs.Result

/-- `net.IP.IsPrivate` answers true exactly on the private ranges, for byte strings of every length:
    10/8, 172.16/12, 192.168/16 on the 32-bit value of a 4-byte address or of the 16-byte
    IPv4-mapped form; fc00::/7 on the 128-bit value of any other 16-byte address; false for every
    other length. -/
theorem c17_isPrivate_iff_range (ip : Bytes) : isPrivate ip = true ↔ PrivateRange ip :=
  isPrivate_iff_range ip

/-- Redaction: same number of runs and of hops per run, nothing but hop entries changes
    (`Redacted`), and position by position: the TTL is kept; an entry whose address is private
    becomes exactly the TTL-only placeholder (no address, RTT 0, not reachable, no names, not the
    destination); an entry whose address is not private is unchanged; no output entry carries a
    private address. -/
theorem c17_redact (d : Doc) :
    Redacted d (removePrivate d) ∧
    (removePrivate d).runs.length = d.runs.length ∧
    ∀ i j, (hopAt (removePrivate d) i j = none ↔ hopAt d i j = none) ∧
      ∀ h, hopAt d i j = some h →
        ∃ h', hopAt (removePrivate d) i j = some h' ∧ h'.ttl = h.ttl ∧
          (PrivateRange h.ip → h' = blank h.ttl) ∧ (¬ PrivateRange h.ip → h' = h) ∧
          ¬ PrivateRange h'.ip := by
  refine ⟨redacted d, by simp [removePrivate], fun i j => ?_⟩
  obtain ⟨h1, h2⟩ := hopAt_redact d i j
  refine ⟨h1, fun h hh => ?_⟩
  obtain ⟨h', e, r⟩ := h2 h hh
  exact ⟨h', e, r⟩

/-- The placeholder carries nothing derived from the address. -/
theorem c17_blank_fields (ttl : Int) :
    (blank ttl).ip = [] ∧ (blank ttl).rtt = 0 ∧ (blank ttl).reachable = false ∧
    (blank ttl).names = [] ∧ (blank ttl).isDest = false ∧ (blank ttl).port = 0 ∧
    (blank ttl).icmpType = 0 ∧ (blank ttl).icmpCode = 0 := by
  simp [blank]

/-- Pipeline (`RunTraceroute` with `SkipPrivateHops`): whatever the resolver answered and whether or
    not reverse DNS ran, the output has a hop exactly where the input has one, with the same TTL;
    no output hop carries a private address; a hop whose address is private comes out as the
    TTL-only placeholder — so the names attached by enrichment and the `Reachable` flag set by
    normalisation *before* redaction do not survive; a hop whose address is not private is exactly
    what the pipeline without `SkipPrivateHops` produces. -/
theorem c17_pipeline_no_derived (rdns : Bool) (res : Resolver) (draws : List Nat) (d : Doc) (i j : Nat) :
    let o := pipeline rdns true res draws d
    (hopAt o i j = none ↔ hopAt d i j = none) ∧
    ∀ h, hopAt d i j = some h →
      ∃ h', hopAt o i j = some h' ∧ h'.ttl = h.ttl ∧ ¬ PrivateRange h'.ip ∧
        (PrivateRange h.ip → h' = blank h.ttl) ∧
        (¬ PrivateRange h.ip → hopAt (pipeline rdns false res draws d) i j = some h') :=
  pipeline_no_derived rdns res draws d i j

/-- With `SkipPrivateHops`, the output is the redaction of the output without it. -/
theorem c17_pipeline_redacted (rdns : Bool) (res : Resolver) (draws : List Nat) (d : Doc) :
    Redacted (pipeline rdns false res draws d) (pipeline rdns true res draws d) := by
  rw [pipeline_true]; exact redacted _

/-! non-vacuity: block boundaries, a mapped and a unique-local address, and a run through the
    pipeline in which the resolver names every address -/

example : isPrivate [10, 0, 0, 0] = true ∧ isPrivate [10, 255, 255, 255] = true ∧
    isPrivate [9, 255, 255, 255] = false ∧ isPrivate [11, 0, 0, 0] = false ∧
    isPrivate [172, 15, 255, 255] = false ∧ isPrivate [172, 16, 0, 0] = true ∧
    isPrivate [172, 31, 255, 255] = true ∧ isPrivate [172, 32, 0, 0] = false ∧
    isPrivate [192, 167, 255, 255] = false ∧ isPrivate [192, 168, 0, 0] = true ∧
    isPrivate [192, 168, 255, 255] = true ∧ isPrivate [192, 169, 0, 0] = false ∧
    isPrivate [0, 0, 0, 0, 0, 0, 0, 0, 0, 0, 0xff, 0xff, 192, 168, 1, 1] = true ∧
    isPrivate [0, 0, 0, 0, 0, 0, 0, 0, 0, 0, 0xff, 0xfe, 192, 168, 1, 1] = false ∧
    isPrivate [0xfb, 0xff, 0, 0, 0, 0, 0, 0, 0, 0, 0, 0, 0, 0, 0, 1] = false ∧
    isPrivate [0xfc, 0, 0, 0, 0, 0, 0, 0, 0, 0, 0, 0, 0, 0, 0, 0] = true ∧
    isPrivate [0xfd, 0xff, 0, 0, 0, 0, 0, 0, 0, 0, 0, 0, 0, 0, 0, 1] = true ∧
    isPrivate [0xfe, 0, 0, 0, 0, 0, 0, 0, 0, 0, 0, 0, 0, 0, 0, 1] = false ∧
    isPrivate [10, 0, 0] = false ∧ isPrivate [] = false := by decide

def exDoc : Doc :=
  { runs := [ { hops := [{ ttl := 1, ip := [192, 168, 1, 1], rtt := 3/2 },
                         { ttl := 2, ip := [0, 0, 0, 0, 0, 0, 0, 0, 0, 0, 0xff, 0xff, 10, 0, 0, 1], rtt := 2 },
                         { ttl := 3 },
                         { ttl := 4, ip := [0xfd, 0, 0, 0, 0, 0, 0, 0, 0, 0, 0, 0, 0, 0, 0, 5], rtt := 4 },
                         { ttl := 5, ip := [8, 8, 8, 8], rtt := 7, isDest := true }] } ] }

def exRes : Resolver := fun ip => some ["host-" ++ toHex ip]

example : (pipeline true true exRes [1, 2] exDoc).runs.map (·.hops) =
    [[ { ttl := 1 }, { ttl := 2 }, { ttl := 3 }, { ttl := 4 },
       { ttl := 5, ip := [8, 8, 8, 8], rtt := 7, isDest := true, reachable := true,
         names := ["host-08080808"] } ]] := by decide +kernel
/-- without the flag the names and addresses of the private hops are present -/
example : ((pipeline true false exRes [1, 2] exDoc).runs.map (·.hops.map (·.names))) =
    [[["host-c0a80101"], ["host-00000000000000000000ffff0a000001"], [],
      ["host-fd000000000000000000000000000005"], ["host-08080808"]]] := by decide +kernel

#print axioms c17_isPrivate_iff_range
#print axioms c17_redact
#print axioms c17_blank_fields
#print axioms c17_pipeline_no_derived
#print axioms c17_pipeline_redacted
end TRV.Props.C17
