import TRV.Oracle.Util
/-! Oracle operations: Sync (stub, filled in by the module that owns it). -/
namespace TRV.Oracle.Sync
open TRV.Oracle

def handlers : List (String × Handler) := []

end TRV.Oracle.Sync
