import TRV.Oracle.Util
/-! Oracle operations: Wrapper (stub, filled in by the module that owns it). -/
namespace TRV.Oracle.Wrapper
open TRV.Oracle

def handlers : List (String × Handler) := []

end TRV.Oracle.Wrapper
