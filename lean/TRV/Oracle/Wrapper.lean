import TRV.Oracle.Util
import TRV.Oracle.Engine
import TRV.Spec.Wrapper
/-!
Oracle operations: Wrapper (C10).

    wrap.icmp  min max valid mcp plan steps…
    wrap.udp   min max valid mcp plan steps…
    wrap.tcp   min max valid mcp plan | out… | out… …             (every window preceded by `|`)
    wrap.sack  min max valid mcp plan listening addrOk hs steps…
    wrap.spec  res hit log…                                       (Spec.Atomic on real observations)

* `plan`  = `-` or `op:k:cls,…` with op ∈ dial listen nss filter deadline read write tcpdial and
            cls ∈ fatal deadline zero
* `steps` = `s` (send) | `b` (receiver begins ReceiveProbe) | `e:<out>` (its read returns; `<out>` is an
            engine outcome token `r` `f` `n` `a:ttl:ip:rtt:dest`)
* `hs`    = `-` or a comma-separated list of `i` (ignored) `d` (done) `n` (no SACK-permitted) `f` `t`
* answer  = `<res> wire=<ops> log=<events> hit=<faults> spec=<atomic><closeOnce><noUseAfterClose>`
            with `<res>` = `ok <hops>` or `err inj=<0/1> zero=<0/1> ns=<0/1> cause=<innermost>`
* `wrap.spec`: `res` = `ok` or `err:<inj>:<zero>`; `hit` as `plan`; `log` = wire operation names
            (`open filter deadline read write close-source close-sink`); answer = the three spec bits
-/
namespace TRV.Oracle.Wrapper
open TRV TRV.Oracle TRV.Engine TRV.Wrapper TRV.Spec.Wrapper

def parseFOp (s : String) : Option FOp :=
  if s = "dial" then some .dial else if s = "listen" then some .listen
  else if s = "nss" then some .newSourceSink else if s = "filter" then some .filter
  else if s = "deadline" then some .deadline else if s = "read" then some .read
  else if s = "write" then some .write else if s = "tcpdial" then some .tcpDial else none

def showFOp : FOp → String
  | .dial => "dial" | .listen => "listen" | .newSourceSink => "nss" | .filter => "filter"
  | .deadline => "deadline" | .read => "read" | .write => "write" | .tcpDial => "tcpdial"

def parseClass (s : String) : Option Class :=
  if s = "fatal" then some .fatal else if s = "deadline" then some .deadline
  else if s = "zero" then some .zero else none

def showClass : Class → String
  | .fatal => "fatal" | .deadline => "deadline" | .zero => "zero"

def parseFault (s : String) : Option Fault :=
  match splitOn s ':' with
  | [o, k, c] => do
    let o ← parseFOp o
    let k ← k.toNat?
    let c ← parseClass c
    pure { op := o, k := k, cls := c }
  | _ => none

def parsePlan (s : String) : Option FaultPlan :=
  if s = "-" then some [] else (splitOn s ',').mapM parseFault

def showFaults (fs : List Fault) : String :=
  if fs.isEmpty then "-" else ",".intercalate (fs.map fun f => s!"{showFOp f.op}:{f.k}:{showClass f.cls}")

def parseStep (s : String) : Option Step :=
  if s = "s" then some .send
  else if s = "b" then some .rbegin
  else if s.startsWith "e:" then (TRV.Oracle.Engine.parseOut (s.drop 2).toString).map .rend
  else none

def parseHOut (s : String) : Option HOut :=
  if s = "i" then some .ignore else if s = "d" then some .done else if s = "n" then some .notSupported
  else if s = "f" then some .fail else if s = "t" then some .timeout else none

def parseHs (s : String) : Option (List HOut) :=
  if s = "-" then some [] else (splitOn s ',').mapM parseHOut

def showHandle : Handle → String
  | .source => "source" | .sink => "sink" | .localConn => "localconn" | .listener => "listener"
  | .tcpConn => "tcpconn"

def showEv : Ev → String
  | .open h => "open-" ++ showHandle h
  | .close h => "close-" ++ showHandle h
  | .filter => "filter" | .deadline => "deadline" | .read => "read" | .write => "write"

/-- the part of the log the simulated wire sees, in its operation names -/
def wireOps : CallLog → List String
  | [] => []
  | .open .source :: r => "open" :: wireOps r
  | .close .source :: r => "close-source" :: wireOps r
  | .close .sink :: r => "close-sink" :: wireOps r
  | .filter :: r => "filter" :: wireOps r
  | .deadline :: r => "deadline" :: wireOps r
  | .read :: r => "read" :: wireOps r
  | .write :: r => "write" :: wireOps r
  | _ :: r => wireOps r

def showCause : Cause → String
  | .injected op k => s!"injected-{showFOp op}-{k}"
  | .zeroRead => "zero-read" | .handshakeTimeout => "handshake-timeout" | .platform => "platform"
  | .refused => "refused" | .natural => "natural"
  | .engine e => "engine-" ++ TRV.Oracle.Engine.showErr e
  | .toHops => "tohops" | .badParams => "bad-params"

def isInjected : Link → Bool
  | .cause (.injected _ _) => true
  | _ => false

def showRes : Except ErrChain Run → String
  | .ok r => "ok " ++ (if r.hops.isEmpty then "-" else ",".intercalate (r.hops.map TRV.Oracle.Engine.showHop))
  | .error c =>
    let inner := match c.getLast? with
      | some (.cause x) => showCause x
      | _ => "none"
    s!"err inj={showBool (c.any isInjected)} zero={showBool (c.contains (.cause .zeroRead))} ns={showBool (c.contains .notSupported)} cause={inner}"

def showList (xs : List String) : String := if xs.isEmpty then "-" else ",".intercalate xs

def showObs (o : Obs) : String :=
  s!"{showRes o.res} wire={showList (wireOps o.log)} log={showList (o.log.map showEv)} hit={showFaults o.hit} spec={showBool (atomic o)}{showBool (closeOnce o.log)}{showBool (noUseAfterClose o.log)}"

def parseCfg (mn mx v m : String) : Option Cfg := do
  let mn ← mn.toNat?
  let mx ← mx.toNat?
  -- "c" = a valid target and a caller whose context is done before the engine returns
  let (v, c) ← (if v = "c" then some (true, true) else (parseBool v).map (·, false))
  let m ← parseBool m
  pure { min := mn, max := mx, validTarget := v, mustClosePort := m, cancelled := c }

def par (f : Cfg → FaultPlan → List Step → Obs) : Handler
  | mn :: mx :: v :: m :: plan :: steps => orBad do
    let cfg ← parseCfg mn mx v m
    let plan ← parsePlan plan
    let steps ← steps.mapM parseStep
    pure (showObs (f cfg plan steps))
  | _ => badOp

def tcpH : Handler
  | mn :: mx :: v :: m :: plan :: rest => orBad do
    let cfg ← parseCfg mn mx v m
    let plan ← parsePlan plan
    let ws ← ((TRV.Oracle.Engine.splitWindows rest).drop 1).mapM (fun w => w.mapM TRV.Oracle.Engine.parseOut)
    pure (showObs (tcp cfg plan ws))
  | _ => badOp

def sackH : Handler
  | mn :: mx :: v :: m :: plan :: li :: ad :: hs :: steps => orBad do
    let cfg ← parseCfg mn mx v m
    let plan ← parsePlan plan
    let li ← parseBool li
    let ad ← parseBool ad
    let hs ← parseHs hs
    let steps ← steps.mapM parseStep
    pure (showObs (sack cfg plan { listening := li, localAddrOk := ad, hs := hs, sched := steps }))
  | _ => badOp

def parseWireOp (s : String) : Option (List Ev) :=
  if s = "open" then some [.open .source, .open .sink]
  else if s = "filter" then some [.filter] else if s = "deadline" then some [.deadline]
  else if s = "read" then some [.read] else if s = "write" then some [.write]
  else if s = "close-source" then some [.close .source] else if s = "close-sink" then some [.close .sink]
  else none

/-- the chain a real error stands for, as far as the harness can observe it: `errors.Is(err,
    injected)` and the "returned 0 bytes" class -/
def obsChain (inj zero : Bool) (hit : List Fault) : ErrChain :=
  (if inj then (hit.filter (fun f => !(f.op == .read && f.cls == .zero))).map (fun f => Link.cause (.injected f.op f.k)) else [])
  ++ (if zero then [.cause .zeroRead] else [])

def specH : Handler
  | res :: hit :: log => orBad do
    let hit ← parsePlan hit
    let evs ← log.mapM parseWireOp
    let lg : CallLog := evs.flatten
    let r : Except ErrChain Run ←
      if res = "ok" then some (.ok { hops := [] })
      else match splitOn res ':' with
        | ["err", i, z] => do
          let i ← parseBool i
          let z ← parseBool z
          pure (.error (obsChain i z hit))
        | _ => none
    let o : Obs := { res := r, log := lg, hit := hit }
    pure s!"{showBool (atomic o)}{showBool (closeOnce lg)}{showBool (noUseAfterClose lg)}"
  | _ => badOp

def handlers : List (String × Handler) :=
  [("wrap.icmp", par icmp), ("wrap.udp", par udp), ("wrap.tcp", tcpH), ("wrap.sack", sackH),
   ("wrap.spec", specH)]

end TRV.Oracle.Wrapper
