import TRV.Oracle.Util
import TRV.Spec.Result
/-!
Oracle operations: Result (C16, C17).

Grammar (space separated tokens; rationals are `num/den` or `num`; names are opaque tokens, the Go
side sends them hex-encoded; `-` = empty):

    hop  := ttl:ip:rtt:reach:isdest:names:port:icmptype:icmpcode       names := - | n1,n2,…
    run  := destip destnames nH hop*
    runs := nR run*
    doc  := hcAvg hcMin hcMax  sent recv loss jitter avg min max  nS sample*  runs

* `res.norm doc`             → `hc avg min max e2e sent recv loss jitter avg min max reach r… `
                               (model of `Normalize`; one `r<bits>` token per run)
* `res.spec.consistent doc`  → `ok` or the comma-separated names of the failing `Consistent` clauses
                               (the document is the implementation's own output)
* `res.isprivate ip`         → `<model isPrivate> <spec PrivateRange>`
* `res.redact runs`          → `runs` (model of `RemovePrivateHops`)
* `res.spec.redacted runs ; runs` → `1`/`0` (`RedactedRuns input output`)
* `res.pipeline rdns skip nT (ip names)* doc` → `runs` after enrich → normalize → redact, the
                               resolver given as a table (addresses not in the table fail to resolve)
-/
namespace TRV.Oracle.Result
open TRV TRV.Oracle TRV.Result TRV.ResSpec

abbrev P := StateT (List String) Option

def tok : P String := fun
  | [] => none
  | t :: ts => some (t, ts)

def parseRat (s : String) : Option Rat :=
  match splitOn s '/' with
  | [n] => (parseInt n).map fun (i : Int) => (i : Rat)
  | [n, d] => do
    let n ← parseInt n
    let d ← d.toNat?
    if d = 0 then none else pure (mkRat n d)
  | _ => none

def showRat (q : Rat) : String := s!"{q.num}/{q.den}"

def lift {α} (o : Option α) : P α := fun ts => o.map fun a => (a, ts)

def pNat : P Nat := do let t ← tok; lift t.toNat?
def pRat : P Rat := do let t ← tok; lift (parseRat t)
def pHex : P Bytes := do let t ← tok; lift (parseHex t)

def parseNames (s : String) : Option (List String) :=
  if s = "-" then some [] else
  let parts := splitOn s ','
  if parts.any (· = "") then none else some parts

def showNames (ns : List String) : String := if ns.isEmpty then "-" else ",".intercalate ns

def parseHop (s : String) : Option Hop :=
  match splitOn s ':' with
  | [ttl, ip, rtt, reach, dest, names, port, it, ic] => do
    let ttl ← parseInt ttl
    let ip ← parseHex ip
    let rtt ← parseRat rtt
    let reach ← parseBool reach
    let dest ← parseBool dest
    let names ← parseNames names
    let port ← port.toNat?
    let it ← it.toNat?
    let ic ← ic.toNat?
    pure { ttl := ttl, ip := ip, rtt := rtt, reachable := reach, isDest := dest, names := names,
           port := port, icmpType := it, icmpCode := ic }
  | _ => none

def showHop (h : Hop) : String :=
  s!"{h.ttl}:{toHex h.ip}:{showRat h.rtt}:{showBool h.reachable}:{showBool h.isDest}:{showNames h.names}:{h.port}:{h.icmpType}:{h.icmpCode}"

def pMany {α} (p : P α) : Nat → P (List α)
  | 0 => pure []
  | n + 1 => do let a ← p; let as ← pMany p n; pure (a :: as)

def pRun : P Run := do
  let dip ← pHex
  let dn ← tok
  let dn ← lift (parseNames dn)
  let n ← pNat
  let hops ← pMany (do let t ← tok; lift (parseHop t)) n
  pure { hops := hops, destIp := dip, destNames := dn }

def pRuns : P (List Run) := do let n ← pNat; pMany pRun n

def showRun (r : Run) : String :=
  " ".intercalate ([toHex r.destIp, showNames r.destNames, toString r.hops.length] ++ r.hops.map showHop)

def showRuns (rs : List Run) : String := " ".intercalate (toString rs.length :: rs.map showRun)

def pDoc : P Doc := do
  let hcAvg ← pRat; let hcMin ← pNat; let hcMax ← pNat
  let sent ← pNat; let recv ← pNat; let loss ← pRat; let jit ← pRat
  let avg ← pRat; let mn ← pRat; let mx ← pRat
  let nS ← pNat
  let samples ← pMany pRat nS
  let runs ← pRuns
  pure { runs := runs, hopCount := { avg := hcAvg, min := hcMin, max := hcMax },
         e2e := { rtts := samples, sent := sent, received := recv, loss := loss, jitter := jit,
                  avg := avg, min := mn, max := mx } }

/-- run a parser over the whole token list; trailing tokens are an error -/
def whole {α} (p : P α) (ts : List String) : Option α :=
  match p ts with
  | some (a, []) => some a
  | _ => none

def showStats (d : Doc) : String :=
  let reach := d.runs.map fun r => "r" ++ String.join (r.hops.map fun h => showBool h.reachable)
  " ".intercalate (["hc", showRat d.hopCount.avg, toString d.hopCount.min, toString d.hopCount.max,
    "e2e", toString d.e2e.sent, toString d.e2e.received, showRat d.e2e.loss, showRat d.e2e.jitter,
    showRat d.e2e.avg, showRat d.e2e.min, showRat d.e2e.max, "reach"] ++ reach)

def norm : Handler := fun ts => orBad do
  let d ← whole pDoc ts
  pure (showStats (normalize [] d))

def specConsistent : Handler := fun ts => orBad do
  let d ← whole pDoc ts
  let bad := (consistentClauses d).filter (fun c => !c.2) |>.map (·.1)
  pure (if bad.isEmpty then "ok" else ",".intercalate bad)

def isprivate : Handler
  | [ip] => orBad do
    let ip ← parseHex ip
    pure s!"{showBool (isPrivate ip)} {showBool (decide (PrivateRange ip))}"
  | _ => badOp

def redact : Handler := fun ts => orBad do
  let rs ← whole pRuns ts
  pure (showRuns (removePrivate { runs := rs }).runs)

def specRedacted : Handler := fun ts => orBad do
  let (a, b) := ts.span (· != ";")
  let i ← whole pRuns a
  let o ← whole pRuns (b.drop 1)
  pure (showBool (decide (RedactedRuns i o)))

def pTable : P (List (Bytes × List String)) := do
  let n ← pNat
  pMany (do let ip ← pHex; let ns ← tok; let ns ← lift (parseNames ns); pure (ip, ns)) n

def pipelineOp : Handler
  | rdns :: skip :: rest => orBad do
    let rdns ← parseBool rdns
    let skip ← parseBool skip
    let (tbl, d) ← whole (do let t ← pTable; let d ← pDoc; pure (t, d)) rest
    let res : Resolver := fun ip => tbl.lookup ip
    let o := pipeline rdns skip res [] d
    pure (showRuns o.runs ++ " | " ++ showStats o)
  | _ => badOp

def handlers : List (String × Handler) :=
  [("res.norm", norm), ("res.spec.consistent", specConsistent), ("res.isprivate", isprivate),
   ("res.redact", redact), ("res.spec.redacted", specRedacted), ("res.pipeline", pipelineOp)]

end TRV.Oracle.Result
