import TRV.Oracle.Util
/-! Oracle operations: Result (stub, filled in by the module that owns it). -/
namespace TRV.Oracle.Result
open TRV.Oracle

def handlers : List (String × Handler) := []

end TRV.Oracle.Result
