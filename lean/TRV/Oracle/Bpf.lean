import TRV.Oracle.Util
import TRV.Model.Bpf
import TRV.Spec.Filters
import TRV.Generated.Filters
/-!
Oracle operations for the capture filters (C12).

* `bpf.run  <filter> [cfg…] <framehex>` → `1`/`0`: verdict of the generated program under `Bpf.exec`
* `bpf.spec <filter> [cfg…] <framehex>` → `1`/`0`: reference predicate of `TRV.Spec.Filters`
* `bpf.prog <filter> [cfg…]` → the generated program re-encoded as raw instructions
  `op,jt,jf,k;…` (decimal), to compare with what `packets.VerifClassicBPF` returns

* `bpf.sites` → the extracted installation sites `file|kind|hasSrc|hasDst;…`

`<filter>` is `dropall | icmp | udp | synack` (no cfg) or `tcp <srcAddr> <dstAddr> <srcPort> <dstPort>`
(decimal naturals; addresses as big-endian 32-bit values).
-/
namespace TRV.Oracle.Bpf
open TRV TRV.Oracle TRV.Bpf TRV.Generated.Filters

/-- filter selector: program, reference predicate, remaining tokens -/
def select : List String → Option (List Instr × (Bytes → Bool) × List String)
  | "dropall" :: r => some (dropAll, Spec.Filters.dropAllSpec, r)
  | "icmp" :: r => some (icmp, Spec.Filters.icmpSpec, r)
  | "udp" :: r => some (udp, Spec.Filters.udpSpec, r)
  | "synack" :: r => some (synack, Spec.Filters.synackSpec, r)
  | "tcp" :: sa :: da :: sp :: dp :: r => do
    let sa ← sa.toNat?; let da ← da.toNat?; let sp ← sp.toNat?; let dp ← dp.toNat?
    pure (tcpTuple sa da sp dp, Spec.Filters.tupleSpec sa da sp dp, r)
  | _ => none

def run : Handler := fun args => orBad do
  let (p, _, rest) ← select args
  match rest with
  | [hex] => do let f ← parseHex hex; pure (showBool (accepts p f))
  | _ => none

def spec : Handler := fun args => orBad do
  let (_, sp, rest) ← select args
  match rest with
  | [hex] => do let f ← parseHex hex; pure (showBool (sp f))
  | _ => none

/-- raw encoding of the modelled subset (inverse of the translator's decoding) -/
def rawInstr : Instr → Option String
  | .ldAbs 1 k => some s!"48,0,0,{k}"
  | .ldAbs 2 k => some s!"40,0,0,{k}"
  | .ldAbs 4 k => some s!"32,0,0,{k}"
  | .ldInd 1 k => some s!"80,0,0,{k}"
  | .ldInd 2 k => some s!"72,0,0,{k}"
  | .ldInd 4 k => some s!"64,0,0,{k}"
  | .ldxMsh k => some s!"177,0,0,{k}"
  | .jeq k jt jf => some s!"21,{jt},{jf},{k}"
  | .jset k jt jf => some s!"69,{jt},{jf},{k}"
  | .ret k => some s!"6,0,0,{k}"
  | _ => none

def prog : Handler := fun args => orBad do
  let (p, _, rest) ← select args
  match rest with
  | [] => do let is ← p.mapM rawInstr; pure (";".intercalate is)
  | _ => none

def kindName : FilterKind → String
  | .none => "none" | .icmp => "icmp" | .udp => "udp" | .tcp => "tcp" | .synack => "synack"

def sites : Handler
  | [] => ";".intercalate (filterSites.map fun s =>
      s!"{s.file}|{kindName s.kind}|{showBool (s.src != "")}|{showBool (s.dst != "")}")
  | _ => badOp

def handlers : List (String × Handler) :=
  [("bpf.run", run), ("bpf.spec", spec), ("bpf.prog", prog), ("bpf.sites", sites)]

end TRV.Oracle.Bpf
