import TRV.Oracle.Util
/-! Oracle operations: Bpf (stub, filled in by the module that owns it). -/
namespace TRV.Oracle.Bpf
open TRV.Oracle

def handlers : List (String × Handler) := []

end TRV.Oracle.Bpf
