import TRV.Oracle.Util
import TRV.Spec.Enrich
/-! Oracle operations: Enrich (C18; public-IP timing for C08).

* `enr.run  <runs> R <key=val>… O <ip>…`      model: `enrichOrder norm16 resolver order doc`
* `enr.with <runs> C <ip=val|ip=!>…`          model: `enrichWith completions doc` (per-call answers)
* `enr.spec <runs with ip:names> R <key=val>…` spec: `namesExactB` on an observed document
* `enr.same <runs with ip:names> C <ip=val|ip=!>…` spec: `FromSameAddress` on an observed document
* `cache.seq <t0> <op>…`                       model: sequential `GetWithExpiration` / sleep / flush
* `cache.spec <obs>…`                          spec: `traceOK` on an observed trace
* `pubip.get D=<deadline|-> <provider> | …`    model: `get (withBudgets …)`
* `pubip.spec <provider incl. B:budget> | …`    spec: `firstValid` (budgets as observed)
* `pubip.parse <bodyhex>`                      `parseBody`

`<runs>`: runs separated by `|`, each `destip hopip…` (hex, `-` = empty address).  Names values are
opaque tokens; `_` = nil. -/
namespace TRV.Oracle.Enrich
open TRV TRV.Oracle TRV.Enrich TRV.Spec.Enr

abbrev ODoc := Doc String Unit Unit Unit

def splitBar (toks : List String) : List (List String) :=
  let rec go (cur : List String) (acc : List (List String)) : List String → List (List String)
    | [] => (cur.reverse :: acc).reverse
    | t :: ts => if t = "|" then go [] (cur.reverse :: acc) ts else go (t :: cur) acc ts
  match toks with
  | [] => []
  | _ => go [] [] toks

def parseNames (s : String) : Names String := if s = "_" then none else some s
def showNames : Names String → String
  | none => "_"
  | some v => v

/-- `ip` or `ip:names` -/
def parseHopTok (s : String) : Option (Bytes × Names String) :=
  match splitOn s ':' with
  | [ip] => (parseHex ip).map fun b => (b, none)
  | [ip, n] => (parseHex ip).map fun b => (b, parseNames n)
  | _ => none

def parseRun (toks : List String) : Option (Run String Unit Unit) :=
  match toks with
  | [] => none
  | d :: hs => do
    let (dip, dn) ← parseHopTok d
    let hops ← hs.mapM parseHopTok
    pure { destIp := dip, destNames := dn, hops := hops.map fun (ip, n) => ⟨ip, n, ()⟩, other := () }

def parseDoc (toks : List String) : Option ODoc := do
  let runs ← (splitBar toks).mapM parseRun
  pure { runs := runs, other := () }

def showDoc (d : ODoc) : String :=
  " | ".intercalate (d.runs.map fun r => " ".intercalate (r.namesList.map showNames))

/-- `key=val` -/
def parseKV (s : String) : Option (Bytes × String) :=
  match splitOn s '=' with
  | [k, v] => (parseHex k).map fun b => (b, v)
  | _ => none

def tableResolver (tab : List (Bytes × String)) (k : Bytes) : Option String := tab.lookup k

/-- `ip=val` (success) or `ip=!` (failure) -/
def parseCompletion (s : String) : Option (Completion String) :=
  (parseKV s).map fun (ip, v) => (ip, if v = "!" then none else some v)

def enrRun : Handler := fun toks => orBad do
  let (docT, rest) := toks.span (· != "R")
  let (tabT, ordT) := (rest.drop 1).span (· != "O")
  let d ← parseDoc docT
  let tab ← tabT.mapM parseKV
  let order ← (ordT.drop 1).mapM parseHex
  pure (showDoc (enrichOrder norm16 (tableResolver tab) order d))

def enrWith : Handler := fun toks => orBad do
  let (docT, rest) := toks.span (· != "C")
  let d ← parseDoc docT
  let cs ← (rest.drop 1).mapM parseCompletion
  pure (showDoc (enrichWith cs d))

def enrSpec : Handler := fun toks => orBad do
  let (docT, rest) := toks.span (· != "R")
  let d ← parseDoc docT
  let tab ← (rest.drop 1).mapM parseKV
  pure (showBool (namesExactB (want norm16 (tableResolver tab)) d))

def enrSame : Handler := fun toks => orBad do
  let (docT, rest) := toks.span (· != "C")
  let d ← parseDoc docT
  let cs ← (rest.drop 1).mapM parseCompletion
  pure (showBool (d.runs.all fun r => fromSameB cs r.destIp r.destNames && r.hops.all fun h => fromSameB cs h.ip h.names))

/-! ### cache -/

abbrev COp := SeqOp String String

def parseCOp (s : String) : Option COp :=
  match splitOn s ':' with
  | ["g", k, cb, dur, ttl] => do
    let dur ← dur.toNat?
    let ttl ← parseInt ttl
    pure (.get k (if cb = "!" then none else some cb) dur ttl)
  | ["s", d] => d.toNat?.map .sleep
  | ["f"] => some .flush
  | _ => none

def showOpt : Option String → String
  | none => "!"
  | some v => v

def showObs : Obs String String → Option String
  | .flush => none
  | .call _ _ _ ran _ _ result => some (if ran then s!"m:{showOpt result}:1" else s!"h:{showOpt result}")

def cacheSeq : Handler
  | t0 :: ops => orBad do
    let t0 ← t0.toNat?
    let ops ← ops.mapM parseCOp
    pure (" ".intercalate ((observe ops Store.flush t0).filterMap showObs))
  | _ => badOp

def parseObs (s : String) : Option (Obs String String) :=
  match splitOn s ':' with
  | ["c", at_, k, ttl, ran, cbOut, doneAt, result] => do
    let at_ ← at_.toNat?
    let ttl ← parseInt ttl
    let ran ← parseBool ran
    let doneAt ← doneAt.toNat?
    pure (.call at_ k ttl ran (if cbOut = "!" then none else some cbOut) doneAt
      (if result = "!" then none else some result))
  | ["f"] => some .flush
  | _ => none

def cacheSpec : Handler := fun toks => orBad do
  let obs ← toks.mapM parseObs
  pure (showBool (traceOK obs))

/-! ### public IP -/

def parseAttemptOrIval (s : String) : Option (Sum Attempt Nat) :=
  match splitOn s ':' with
  | ["t", d] => d.toNat?.map fun d => .inl (.transport d)
  | ["b", st, d] => do
    let st ← st.toNat?; let d ← d.toNat?
    pure (.inl (.bodyErr st d))
  | ["r", st, body, d] => do
    let st ← st.toNat?; let body ← parseHex body; let d ← d.toNat?
    pure (.inl (.resp st body d))
  | ["i", n] => n.toNat?.map .inr
  | _ => none

def parseProviderToks (toks : List String) : Option (List Attempt × List Nat) := do
  let xs ← toks.mapM parseAttemptOrIval
  pure (xs.filterMap (fun x => match x with | .inl a => some a | .inr _ => none),
        xs.filterMap (fun x => match x with | .inr n => some n | .inl _ => none))

def parseParent (s : String) : Option (Option Nat) :=
  if s = "D=-" then some none
  else if s.startsWith "D=" then ((s.drop 2).toString.toNat?).map some
  else none

def parseProviders : List String → Option (List Provider)
  | d :: rest => do
    let parent ← parseParent d
    let ps ← (splitBar rest).mapM parseProviderToks
    pure (withBudgets parent 0 ps)
  | [] => none

def showPOut : POut → String
  | .ok ip => s!"ok={toHex ip}"
  | .permanent => "permanent"
  | .ctxDone => "ctx"
  | .maxElapsed => "maxelapsed"
  | .scriptEnd => "script-end"

def showResult : Option (Nat × Bytes) → String
  | none => "none"
  | some (i, ip) => s!"{i}:{toHex ip}"

def pubipGet : Handler := fun toks => orBad do
  let ps ← parseProviders toks
  let g := get ps
  let tr := ",".intercalate (g.trace.map fun r => s!"{showPOut r.out}:{r.attempts}:{r.elapsed}")
  pure s!"res={showResult g.result} trace={tr} elapsed={g.elapsed}"

/-- provider section with an explicit observed budget token `B:<ns>` (default: 2 s) -/
def parseSpecProvider (toks : List String) : Option Provider := do
  let (bs, others) := toks.partition (·.startsWith "B:")
  let (sc, iv) ← parseProviderToks others
  let budget ← match bs with
    | [] => some callTimeout
    | [b] => (b.drop 2).toString.toNat?
    | _ => none
  pure ⟨sc, iv, budget⟩

/-- `pubip.spec <provider with B:budget> | …` : budgets are observations, not model output -/
def pubipSpec : Handler := fun toks => orBad do
  let ps ← (splitBar toks).mapM parseSpecProvider
  pure (showResult (firstValid ps))

def pubipParse : Handler
  | [body] => orBad do
    let b ← parseHex body
    pure (match parseBody b with
      | none => "!"
      | some ip => toHex ip)
  | _ => badOp

def handlers : List (String × Handler) :=
  [("enr.run", enrRun), ("enr.with", enrWith), ("enr.spec", enrSpec), ("enr.same", enrSame),
   ("cache.seq", cacheSeq), ("cache.spec", cacheSpec),
   ("pubip.get", pubipGet), ("pubip.spec", pubipSpec), ("pubip.parse", pubipParse)]

end TRV.Oracle.Enrich
