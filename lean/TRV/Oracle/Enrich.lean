import TRV.Oracle.Util
/-! Oracle operations: Enrich (stub, filled in by the module that owns it). -/
namespace TRV.Oracle.Enrich
open TRV.Oracle

def handlers : List (String × Handler) := []

end TRV.Oracle.Enrich
