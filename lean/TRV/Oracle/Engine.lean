import TRV.Oracle.Util
import TRV.Spec.Engine
/-! Oracle operations for the engine model (C03, C07). -/
namespace TRV.Oracle.Engine
open TRV TRV.Oracle TRV.Engine TRV.Spec

def parseProbe (s : String) : Option Probe :=
  match splitOn s ':' with
  | [t, ip, rtt, d] => do
    let t ← t.toNat?
    let ip ← parseHex ip
    let rtt ← parseInt rtt
    let d ← parseBool d
    pure { ttl := t, ip := ip, rtt := rtt, dest := d }
  | _ => none

def showProbe (p : Probe) : String := s!"{p.ttl}:{toHex p.ip}:{p.rtt}:{showBool p.dest}"

def parseOut (s : String) : Option ROut :=
  if s = "r" then some .retry
  else if s = "f" then some .fatal
  else if s = "n" then some .nilProbe
  else if s.startsWith "a:" then (parseProbe (s.drop 2).toString).map .accept
  else none

def showSlot : Option Probe → String
  | none => "_"
  | some p => showProbe p

def parseSlot (s : String) : Option (Option Probe) :=
  if s = "_" then some none else (parseProbe s).map some

def showErr : RunErr → String
  | .invalidParams => "invalid-params"
  | .notParallel => "not-parallel"
  | .sendFailed => "send-failed"
  | .recvFailed => "recv-failed"
  | .badProbe => "bad-probe"
  | .cancelled => "cancelled"
  | .panic => "panic"

def showHop (h : Hop) : String := s!"{h.ttl}:{toHex h.ip}:{h.rtt}:{showBool h.dest}"

def parseHop (s : String) : Option Hop :=
  (parseProbe s).map fun p => { ttl := p.ttl, ip := p.ip, rtt := p.rtt, dest := p.dest }

def showRes (min : Nat) : RunRes → String
  | .error e => s!"err {showErr e}"
  | .ok r =>
    let hops := match toHops min r with
      | some hs => " ".intercalate (hs.map showHop)
      | none => "tohops-error"
    s!"ok {",".intercalate (r.map showSlot)} hops {hops}"

/-- `eng.par min max supportsParallel sendErr extCancel outs…` -/
def par : Handler
  | mn :: mx :: sp :: se :: ec :: outs => orBad do
    let mn ← mn.toNat?; let mx ← mx.toNat?
    let sp ← parseBool sp; let se ← parseBool se; let ec ← parseBool ec
    let outs ← outs.mapM parseOut
    pure (showRes mn (parallelRun mn mx sp outs se ec))
  | _ => badOp

def splitWindows (toks : List String) : List (List String) :=
  let rec go (cur : List String) (acc : List (List String)) : List String → List (List String)
    | [] => (cur.reverse :: acc).reverse
    | t :: ts => if t = "|" then go [] (cur.reverse :: acc) ts else go (t :: cur) acc ts
  match toks with
  | [] => []
  | _ => go [] [] toks

/-- `eng.ser min max sendErr extCancel w1… | w2… | …` (windows separated by `|`) -/
def ser : Handler
  | mn :: mx :: se :: ec :: rest => orBad do
    let mn ← mn.toNat?; let mx ← mx.toNat?
    let se ← parseBool se; let ec ← parseBool ec
    let ws ← (splitWindows rest).mapM (fun w => w.mapM parseOut)
    pure (showRes mn (serialRun mn mx ws se ec))
  | _ => badOp

/-- `spec.expected min max probes…` : the C07 reference result for an accepted sequence -/
def specExpected : Handler
  | mn :: mx :: ps => orBad do
    let mn ← mn.toNat?; let mx ← mx.toNat?
    let σ ← ps.mapM parseProbe
    pure (",".intercalate ((expected mn mx σ).map showSlot))
  | _ => badOp

/-- `spec.shape min max hops… ; probes…` : C03 shape predicate on a hop list, cut computed from the
    accepted sequence -/
def specShape : Handler
  | mn :: mx :: rest => orBad do
    let mn ← mn.toNat?; let mx ← mx.toNat?
    let (hs, ps) := rest.span (· != ";")
    let hops ← hs.mapM parseHop
    let σ ← (ps.drop 1).mapM parseProbe
    pure (showBool (shapeOK mn (cutOf σ mx) hops))
  | _ => badOp

def handlers : List (String × Handler) :=
  [("eng.par", par), ("eng.ser", ser), ("spec.expected", specExpected), ("spec.shape", specShape)]

end TRV.Oracle.Engine
