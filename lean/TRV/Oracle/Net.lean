import TRV.Oracle.Util
import TRV.Oracle.Policy
import TRV.Spec.Net
/-!
Oracle operations for the abstract network (C13).

Topology tokens: `<destaddr> <open 0/1> <sack 0/1> <N> <router>…` with `<router>` = `<addrhex>:<silent 0/1>`
(exactly `N` of them).  Hops are printed as `<ttl>:<iphex>:<dest 0/1>` (`-` = no address).

* `net.trace <proto> <method> <min> <max> <topology>` — the model of the whole CLI on this network
  (`Net.cli`): `hops …` | `notsupported` | `failed` | `unmodelled`.  `<proto>` = `icmp|udp|tcp`,
  `<method>` = a `pol.*` method name (ignored unless `tcp`).
* `net.spec <min> <max> <topology>` — the reference hop list (`Spec.Net.expectedHops`).
* `net.ok <min> <max> <topology> <hop>…` with `<hop>` = `<ttl>:<iphex>:<dest>:<rtt ns>` — the property
  predicate `Spec.Net.traceOK` on a reported hop list.
-/
namespace TRV.Oracle.Net
open TRV TRV.Oracle TRV.Engine TRV.Net TRV.Spec.Net

def parseRouter (s : String) : Option Router :=
  match splitOn s ':' with
  | [a, sl] => do
    let a ← parseHex a
    let sl ← parseBool sl
    pure { addr := a, silent := sl }
  | _ => none

/-- parses a topology prefix, returns the network and the remaining tokens -/
def parseTopo : List String → Option (Net × List String)
  | d :: o :: s :: k :: rest => do
    let d ← parseHex d
    let o ← parseBool o
    let s ← parseBool s
    let k ← k.toNat?
    if rest.length < k then none else
    let rs ← (rest.take k).mapM parseRouter
    pure ({ routers := rs, dest := { addr := d, port := if o then .opened else .closed, sackEnabled := s } },
          rest.drop k)
  | _ => none

def parseProto (p m : String) : Option Proto :=
  if p = "icmp" then some .icmp
  else if p = "udp" then some .udp
  else if p = "tcp" then (TRV.Oracle.Policy.parseMethod m).map .tcp
  else none

def showPHop (h : PHop) : String := s!"{h.ttl}:{toHex h.ip}:{showBool h.dest}"

def showPHops (hs : List PHop) : String :=
  if hs.isEmpty then "hops" else "hops " ++ " ".intercalate (hs.map showPHop)

def parseHop (s : String) : Option Hop :=
  match splitOn s ':' with
  | [t, ip, d, rtt] => do
    let t ← t.toNat?
    let ip ← parseHex ip
    let d ← parseBool d
    let rtt ← parseInt rtt
    pure { ttl := t, ip := ip, rtt := rtt, dest := d }
  | _ => none

def trace : Handler
  | p :: m :: mn :: mx :: rest => orBad do
    let p ← parseProto p m
    let mn ← mn.toNat?
    let mx ← mx.toNat?
    let (n, extra) ← parseTopo rest
    if !extra.isEmpty then none else
    pure (match cli n p mn mx with
      | .hops hs => showPHops (hs.map erase)
      | .notSupported => "notsupported"
      | .failed => "failed"
      | .unmodelled => "unmodelled")
  | _ => badOp

def spec : Handler
  | mn :: mx :: rest => orBad do
    let mn ← mn.toNat?
    let mx ← mx.toNat?
    let (n, extra) ← parseTopo rest
    if !extra.isEmpty then none else
    pure (showPHops (expectedHops n mn mx))
  | _ => badOp

def ok : Handler
  | mn :: mx :: rest => orBad do
    let mn ← mn.toNat?
    let mx ← mx.toNat?
    let (n, hs) ← parseTopo rest
    let hops ← hs.mapM parseHop
    pure (showBool (traceOK n mn mx hops))
  | _ => badOp

def handlers : List (String × Handler) :=
  [("net.trace", trace), ("net.spec", spec), ("net.ok", ok)]

end TRV.Oracle.Net
