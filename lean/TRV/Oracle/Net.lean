import TRV.Oracle.Util
/-! Oracle operations: Net (stub, filled in by the module that owns it). -/
namespace TRV.Oracle.Net
open TRV.Oracle

def handlers : List (String × Handler) := []

end TRV.Oracle.Net
