import TRV.Oracle.Util
import TRV.Spec.Policy
/-! Oracle operations for the TCP method policy model (C20). -/
namespace TRV.Oracle.Policy
open TRV TRV.Oracle TRV.Policy TRV.Spec.Policy

def parseMethod (s : String) : Option Method :=
  if s = "empty" then some .empty
  else if s = "syn" then some .syn
  else if s = "sack" then some .sack
  else if s = "prefer_sack" then some .preferSack
  else if s = "syn_socket" then some .synSocket
  else if s = "other" then some .other
  else none

def showMethod : Method → String
  | .empty => "empty" | .syn => "syn" | .sack => "sack" | .preferSack => "prefer_sack"
  | .synSocket => "syn_socket" | .other => "other"

def parseLayer (s : String) : Option Layer :=
  if s = "N" then some .notSupported else s.toNat?.map .msg

def showLayer : Layer → String
  | .notSupported => "N"
  | .msg i => toString i

def showChain (c : Chain) : String := if c.isEmpty then "-" else ",".intercalate (c.map showLayer)

/-- `ok:<marker>` | `err:<layer>,<layer>,…` (layer = `N` or a tag number) -/
def parseOut (s : String) : Option Out :=
  match splitOn s ':' with
  | ["ok", r] => r.toNat?.map .ok
  | ["err", c] => if c = "-" then some (.err []) else ((splitOn c ',').mapM parseLayer).map .err
  | _ => none

def showOut : Out → String
  | .ok r => s!"ok:{r}"
  | .err c => s!"err:{showChain c}"

/-- `pol.fallback <method> <syn> <sack> <sock>` → `<result> <nSyn> <nSack> <nSock>` -/
def fallbackH : Handler
  | [m, syn, sack, sock] => orBad do
    let m ← parseMethod m
    let syn ← parseOut syn; let sack ← parseOut sack; let sock ← parseOut sock
    let (res, calls) := fallback m syn sack sock
    pure s!"{showOut res} {calls.syn} {calls.sack} {calls.synSocket}"
  | _ => badOp

/-- `pol.e2e <isTcp> <method>` → the method `runE2eProbeOnce` passes on -/
def e2eH : Handler
  | [t, m] => orBad do
    let t ← parseBool t
    let m ← parseMethod m
    pure (showMethod (e2eMethod t m))
  | _ => badOp

/-- `pol.spec <method> <syn> <sack> <sock> <observed result> <nSyn> <nSack> <nSock>` → policy predicate -/
def specH : Handler
  | [m, syn, sack, sock, res, a, b, c] => orBad do
    let m ← parseMethod m
    let syn ← parseOut syn; let sack ← parseOut sack; let sock ← parseOut sock
    let res ← parseOut res
    let a ← a.toNat?; let b ← b.toNat?; let c ← c.toNat?
    pure (showBool (policyOK m syn sack sock res { syn := a, sack := b, synSocket := c }))
  | _ => badOp

def failures : List (String × SackFailure) :=
  [("invalid-params", .invalidParams), ("local-addr", .localAddr), ("source-sink", .sourceSink),
   ("filter-synack", .filterSynack), ("must-close-port", .mustClosePort), ("driver-init", .driverInit),
   ("dial", .dial), ("local-addr-type", .localAddrType), ("local-addr-mismatch", .localAddrMismatch),
   ("handshake-deadline", .handshakeDeadline), ("handshake-timeout", .handshakeTimeout),
   ("handshake-read", .handshakeRead), ("handshake-trunc-ts", .handshakeTruncTS),
   ("no-sack-permitted", .noSackPermitted), ("filter-tcp", .filterTCP), ("send", .send), ("read", .read),
   ("ack-without-sack", .ackWithoutSack), ("engine-other", .engineOther), ("to-hops", .toHops),
   ("make-params", .makeParams)]

/-- `pol.sack <failure>` → `<unsupported 0/1> <depth of the NotSupported layer or -> <chain length>` -/
def sackH : Handler
  | [f] => orBad do
    let f ← failures.lookup f
    let c := sackChain f
    let depth := match c.findIdx? (· == .notSupported) with
      | some i => toString i
      | none => "-"
    pure s!"{showBool (sackUnsupported f)} {depth} {c.length}"
  | _ => badOp

def handlers : List (String × Handler) :=
  [("pol.fallback", fallbackH), ("pol.e2e", e2eH), ("pol.spec", specH), ("pol.sack", sackH)]

end TRV.Oracle.Policy
