import TRV.Oracle.Util
/-! Oracle operations: Policy (stub, filled in by the module that owns it). -/
namespace TRV.Oracle.Policy
open TRV.Oracle

def handlers : List (String × Handler) := []

end TRV.Oracle.Policy
