import TRV.Oracle.Util
import TRV.Spec.Alloc
/-! Oracle operations for C11: the allocator models, the range specs evaluated on implementation
    output, `FlowsDistinct…` evaluated on pairs of run configurations, the F11 witness.

* `alloc.pid <cur> <n>*`                 → `<base>* c:<counter>`   (sequential `AllocPacketID` calls)
* `alloc.echo <cur> <m>`                 → `<id>* c:<counter>`     (`m` consecutive `nextEchoID` calls)
* `alloc.disjoint <base>:<n> …`          → `1`/`0`  `Spec.pairwiseDisjointB` on returned blocks
* `alloc.distinct <id> …`                → `1`/`0`  `Spec.distinctB`
* `alloc.flows.icmp  eA tA eB tB`
* `alloc.flows.udp   <l lp t tp loosen>×2`
* `alloc.flows.tcp   <l lp t tp loosen base seq min max>×2`   (default mode; all TTLs min..max sent)
* `alloc.flows.sack  <l lp t tp loosen min max isn>×2`
* `alloc.flows.udptcp <l lp t tp loosen min max> <l lp t tp loosen base seq min max>`
* `alloc.f11`                            → the cross-protocol witness of `Props.C11` section 5 -/
namespace TRV.Oracle.Alloc
open TRV TRV.Oracle TRV.Alloc TRV.Drv

def showBlocks (bs : List Block) : List String := bs.map (fun b => toString b.1.toNat)

def pid : Handler
  | cur :: ns => orBad do
    let c ← cur.toNat?
    if c ≥ 4294967296 then none
    let reqs ← ns.mapM (fun s => do
      let n ← s.toNat?
      if n ≥ 256 then none else pure (BitVec.ofNat 8 n))
    -- `Props.C11.c11_oracle_forms`: these are `(allocSeq c reqs).1` and `.2`
    let bs := blocks (BitVec.ofNat 32 c) reqs
    let ctr := reqs.foldl (fun c n => (packetID c n).2) (BitVec.ofNat 32 c)
    pure (" ".intercalate (showBlocks bs ++ [s!"c:{ctr.toNat}"]))
  | _ => badOp

def echo : Handler
  | [cur, m] => orBad do
    let c ← cur.toNat?
    if c ≥ 4294967296 then none
    let m ← m.toNat?
    -- `Props.C11.c11_oracle_forms`: these are `(echoSeq c m).1` and `.2`
    let ids := echoIds (BitVec.ofNat 32 c) m
    let ctr : BitVec 32 := BitVec.ofNat 32 c + BitVec.ofNat 32 m
    pure (" ".intercalate (ids.map (fun x => toString x.toNat) ++ [s!"c:{ctr.toNat}"]))
  | _ => badOp

def parseBlock (s : String) : Option Block :=
  match splitOn s ':' with
  | [b, n] => do
    let b ← b.toNat?
    if b ≥ 65536 then none
    pure (BitVec.ofNat 16 b, ← n.toNat?)
  | _ => none

def disjoint : Handler := fun args => orBad do
  let bs ← args.mapM parseBlock
  pure (showBool (Spec.pairwiseDisjointB bs))

def distinct : Handler := fun args => orBad do
  let ids ← args.mapM (fun s => do
    let v ← s.toNat?
    if v ≥ 65536 then none else pure (BitVec.ofNat 16 v))
  pure (showBool (Spec.distinctB ids))

def flowsIcmp : Handler
  | [eA, tA, eB, tB] => orBad do
    let a : IcmpCfg := { localA := [], target := ← parseHex tA, echoId := ← eA.toNat?, min := 1, max := 1 }
    let b : IcmpCfg := { localA := [], target := ← parseHex tB, echoId := ← eB.toNat?, min := 1, max := 1 }
    pure (showBool (decide (Spec.FlowsDistinctIcmp a b)))
  | _ => badOp

def parseUdp : List String → Option UdpCfg
  | [l, lp, t, tp, lo] => do
    pure { localA := ← parseHex l, lport := ← lp.toNat?, target := ← parseHex t, tport := ← tp.toNat?, loosen := ← parseBool lo }
  | _ => none

def flowsUdp : Handler := fun args => orBad do
  if args.length ≠ 10 then none
  let a ← parseUdp (args.take 5)
  let b ← parseUdp (args.drop 5)
  pure (showBool (decide (Spec.FlowsDistinctUdp a b)))

/-- a default-mode TCP run and the probes it sends for TTLs min..max -/
def parseTcp : List String → Option (TcpCfg × List Sent)
  | [l, lp, t, tp, lo, base, sq, mn, mx] => do
    let cfg : TcpCfg := { localA := ← parseHex l, lport := ← lp.toNat?, target := ← parseHex t, tport := ← tp.toNat?,
                          loosen := ← parseBool lo, paris := false, baseId := ← base.toNat?, seq := ← sq.toNat? }
    let mn ← mn.toNat?
    let mx ← mx.toNat?
    let sent := (List.range' mn (mx + 1 - mn)).map (fun ttl =>
      ({ ttl, id := (tcpIds cfg ttl 0).1, seq := (tcpIds cfg ttl 0).2, time := 0 } : Sent))
    pure (cfg, sent)
  | _ => none

def flowsTcp : Handler := fun args => orBad do
  if args.length ≠ 18 then none
  let a ← parseTcp (args.take 9)
  let b ← parseTcp (args.drop 9)
  pure (showBool (decide (Spec.FlowsDistinctTcp a.1 b.1 a.2 b.2)))

def parseSack : List String → Option SackCfg
  | [l, lp, t, tp, lo, mn, mx, isn] => do
    pure { localA := ← parseHex l, lport := ← lp.toNat?, target := ← parseHex t, tport := ← tp.toNat?,
           loosen := ← parseBool lo, min := ← mn.toNat?, max := ← mx.toNat?, isn := ← isn.toNat?, iack := 0, ts := none }
  | _ => none

def flowsSack : Handler := fun args => orBad do
  if args.length ≠ 16 then none
  let a ← parseSack (args.take 8)
  let b ← parseSack (args.drop 8)
  pure (showBool (Spec.flowsDistinctSackB a b))

def flowsUdpTcp : Handler := fun args => orBad do
  if args.length ≠ 16 then none
  let u ← parseUdp (args.take 5)
  let mn ← (← args[5]?).toNat?
  let mx ← (← args[6]?).toNat?
  let su := (List.range' mn (mx + 1 - mn)).map (fun ttl => ({ ttl, id := udpId u ttl, seq := 0, time := 0 } : Sent))
  let c ← parseTcp (args.drop 7)
  pure (showBool (decide (Spec.FlowsDistinctUdpTcp u c.1 su c.2)))

/-- `pkt reversePkt tcpProbe udpProbe seq'` of the model-level witness -/
def f11 : Handler
  | [] => " ".intercalate [toHex Spec.f11Pkt, toHex (Spec.f11TE Spec.f11Router Spec.f11Local Spec.f11UdpProbe),
                            toHex Spec.f11TcpSt.2, toHex Spec.f11UdpProbe, toString Spec.f11TcpCfg'.seq]
  | _ => badOp

def handlers : List (String × Handler) :=
  [("alloc.pid", pid), ("alloc.echo", echo), ("alloc.disjoint", disjoint), ("alloc.distinct", distinct),
   ("alloc.flows.icmp", flowsIcmp), ("alloc.flows.udp", flowsUdp), ("alloc.flows.tcp", flowsTcp),
   ("alloc.flows.sack", flowsSack), ("alloc.flows.udptcp", flowsUdpTcp), ("alloc.f11", f11)]

end TRV.Oracle.Alloc
