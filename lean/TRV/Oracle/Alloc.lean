import TRV.Oracle.Util
/-! Oracle operations: Alloc (stub, filled in by the module that owns it). -/
namespace TRV.Oracle.Alloc
open TRV.Oracle

def handlers : List (String × Handler) := []

end TRV.Oracle.Alloc
