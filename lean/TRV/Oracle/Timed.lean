import TRV.Oracle.Util
/-! Oracle operations: Timed (stub, filled in by the module that owns it). -/
namespace TRV.Oracle.Timed
open TRV.Oracle

def handlers : List (String × Handler) := []

end TRV.Oracle.Timed
