import TRV.Oracle.Util
import TRV.Oracle.Engine
import TRV.Spec.Timed
/-! Oracle operations: timed engine models and the C05/C08 reference predicates (ops `timed.*`).

* `timed.ser min max timeout delay poll cancel sds failTTL calls…`
* `timed.par min max timeout delay poll cancel sds failTTL calls…`
    `cancel` = instant in ns or `-`; `sds` = comma separated `SendProbe` durations in send order
    (missing = 0) or `-`; `failTTL` = TTL whose `SendProbe` fails or `-`; a call is `<out>@<dur>` with
    `<out>` as for `eng.par`.  The run starts at 0.
    Answer: `<result as eng.*> fin <finish> sends <ttl@t,…|-> acc <ttl@t,…|->`
* `timed.bounds min max timeout delay poll sigma` → `ser <n> par <n> cancel <n>`
* `timed.first min max probes…` → per TTL `min..max` the RTT of the earliest accepted reply or `_`
* `timed.e2e hops…` → `e2eSpec`
-/
namespace TRV.Oracle.Timed
open TRV TRV.Oracle TRV.Engine TRV.Timed TRV.Spec.Timed

def parseOptNat (s : String) : Option (Option Nat) :=
  if s = "-" then some none else s.toNat?.map some

def parseNatList (s : String) : Option (List Nat) :=
  if s = "-" then some [] else (splitOn s ',').mapM (·.toNat?)

def parseCall (s : String) : Option RCall :=
  match splitOn s '@' with
  | [o, d] => do
    let o ← TRV.Oracle.Engine.parseOut o
    let d ← d.toNat?
    pure ⟨o, d⟩
  | _ => none

def showPairs (l : List (Nat × Nat)) : String :=
  if l.isEmpty then "-" else ",".intercalate (l.map fun (a, b) => s!"{a}@{b}")

def showT (min : Nat) (r : TRes) : String :=
  s!"{TRV.Oracle.Engine.showRes min r.result} fin {r.finish} sends {showPairs r.sends} acc {showPairs r.accepts}"

def runOp (par : Bool) : Handler
  | mn :: mx :: to :: dl :: po :: ca :: sds :: ft :: calls => orBad do
    let mn ← mn.toNat?
    let mx ← mx.toNat?
    let to ← to.toNat?
    let dl ← dl.toNat?
    let po ← po.toNat?
    let ca ← parseOptNat ca
    let sds ← parseNatList sds
    let ft ← parseOptNat ft
    let calls ← calls.mapM parseCall
    let c : Cfg := { min := mn, max := mx, timeout := to, delay := dl, poll := po }
    let sd : Nat → Nat := fun i => sds.getD (i - mn) 0
    let sfail : Nat → Bool := fun i => ft == some i
    let r := if par then parallelT c ca sd sfail 0 calls else serialT c ca sd sfail 0 calls
    pure (showT mn r)
  | _ => badOp

def bounds : Handler
  | [mn, mx, to, dl, po, sg] => orBad do
    let mn ← mn.toNat?
    let mx ← mx.toNat?
    let to ← to.toNat?
    let dl ← dl.toNat?
    let po ← po.toNat?
    let sg ← sg.toNat?
    let c : Cfg := { min := mn, max := mx, timeout := to, delay := dl, poll := po }
    pure s!"ser {serialBound c sg} par {parallelBound c sg} cancel {cancelBound c sg}"
  | _ => badOp

def first : Handler
  | mn :: mx :: ps => orBad do
    let mn ← mn.toNat?
    let mx ← mx.toNat?
    let σ ← ps.mapM TRV.Oracle.Engine.parseProbe
    let cells := (List.range' mn (mx + 1 - mn)).map fun t =>
      match firstAccepted σ t with
      | some p => toString p.rtt
      | none => "_"
    pure (",".intercalate cells)
  | _ => badOp

def e2e : Handler
  | hs => orBad do
    let hops ← hs.mapM TRV.Oracle.Engine.parseHop
    pure (toString (e2eSpec hops))

def handlers : List (String × Handler) :=
  [("timed.ser", runOp false), ("timed.par", runOp true), ("timed.bounds", bounds),
   ("timed.first", first), ("timed.e2e", e2e)]

end TRV.Oracle.Timed
