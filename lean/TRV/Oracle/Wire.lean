import TRV.Oracle.Util
import TRV.Model.Link
/-!
Oracle operations for the link-layer glue.

* `link.strip <framehex>` → `error` | `skip` | `pkt <hex>`: `TRV.Link.strip` (`stripEthernetHeader`)
* `link.hand <framehex>` → `none` | `pkt <hex>`: `TRV.Link.handUp` (one frame through `afPacketSource.Read`)
-/
namespace TRV.Oracle.Wire
open TRV TRV.Oracle

def strip : Handler := fun args => orBad do
  match args with
  | [hex] => do
    let f ← parseHex hex
    pure (match Link.strip f with
      | .error => "error"
      | .skip => "skip"
      | .packet p => "pkt " ++ toHex p)
  | _ => none

/-- `link.hand <framehex>` → `none` | `pkt <hex>`: what one frame contributes to a read (`TRV.Link.handUp`) -/
def hand : Handler := fun args => orBad do
  match args with
  | [hex] => do
    let f ← parseHex hex
    pure (match Link.handUp f with
      | none => "none"
      | some p => "pkt " ++ toHex p)
  | _ => none

def handlers : List (String × Handler) := [("link.strip", strip), ("link.hand", hand)]

end TRV.Oracle.Wire
