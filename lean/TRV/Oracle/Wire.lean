import TRV.Oracle.Util
/-! Oracle operations: Wire (stub, filled in by the module that owns it). -/
namespace TRV.Oracle.Wire
open TRV.Oracle

def handlers : List (String × Handler) := []

end TRV.Oracle.Wire
