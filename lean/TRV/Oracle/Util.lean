import TRV.Basic.Bytes
/-! Token helpers for the oracle line protocol (one case per line, space separated tokens). -/
namespace TRV.Oracle

abbrev Handler := List String → String

def splitOn (s : String) (c : Char) : List String := (s.split (· == c)).toList.map (·.toString)

def parseBool (s : String) : Option Bool :=
  if s = "1" then some true else if s = "0" then some false else none

def showBool (b : Bool) : String := if b then "1" else "0"

def parseInt (s : String) : Option Int := s.toInt?

/-- every handler answers `bad-op` on input it cannot parse; never a default value -/
def badOp : String := "bad-op"

def orBad (o : Option String) : String := o.getD badOp

end TRV.Oracle
