import TRV.Oracle.Util
import TRV.Spec.Multi
/-! Oracle operations for the multi-query aggregation model (C15). -/
namespace TRV.Oracle.Multi
open TRV TRV.Oracle TRV.Multi TRV.Spec.Multi

/-- `r:<i>:ok:<marker>` | `r:<i>:err:<e>` | `p:<j>:ok:<rtt>` | `p:<j>:err:<e>` -/
def parseCompletion (s : String) : Option Completion :=
  match splitOn s ':' with
  | [k, i, o, v] => do
    let i ← i.toNat?
    let v ← v.toNat?
    let out : Option (Out Nat) :=
      if o = "ok" then some (.ok v) else if o = "err" then some (.err v) else none
    let out ← out
    if k = "r" then pure (.run i out) else if k = "p" then pure (.probe i out) else none
  | _ => none

/-- `off` | `err` | `ok:<ip marker>` -/
def parsePub (s : String) : Option PubIP :=
  if s = "off" then some .off
  else if s = "err" then some .err
  else match splitOn s ':' with
    | ["ok", v] => v.toNat?.map .ok
    | _ => none

def showNats (l : List Nat) : String :=
  if l.isEmpty then "-" else ",".intercalate (l.map toString)

def parseNats (s : String) : Option (List Nat) :=
  if s = "-" then some [] else (splitOn s ',').mapM (·.toNat?)

def showRes : Res → String
  | .ok r => s!"ok {showNats r.runs} {showNats r.rtts} {match r.publicIP with | some ip => toString ip | none => "-"}"
  | .joined es => s!"joined {showNats es}"

/-- `multi.agg <pub> <completion>…` (completions in completion order) -/
def agg : Handler
  | pub :: cs => orBad do
    let pub ← parsePub pub
    let cs ← cs.mapM parseCompletion
    pure (showRes (aggregate cs pub))
  | _ => badOp

def parseRes : List String → Option Res
  | ["ok", runs, rtts, pub] => do
    let runs ← parseNats runs
    let rtts ← parseNats rtts
    let pub ← if pub = "-" then some none else pub.toNat?.map some
    pure (.ok { runs := runs, rtts := rtts, publicIP := pub })
  | ["joined", es] => (parseNats es).map .joined
  | _ => none

/-- `multi.spec <observed result as printed by showRes> ; <outcome>…` (outcomes in request order):
    the C15 all-or-error predicate evaluated on an observed `(result, error)` -/
def spec : Handler := fun toks =>
  let (res, outs) := toks.span (· != ";")
  orBad do
    let res ← parseRes res
    let outs ← (outs.drop 1).mapM parseCompletion
    pure (showBool (allOrError outs res))

def handlers : List (String × Handler) := [("multi.agg", agg), ("multi.spec", spec)]

end TRV.Oracle.Multi
