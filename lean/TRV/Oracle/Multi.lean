import TRV.Oracle.Util
/-! Oracle operations: Multi (stub, filled in by the module that owns it). -/
namespace TRV.Oracle.Multi
open TRV.Oracle

def handlers : List (String × Handler) := []

end TRV.Oracle.Multi
