import TRV.Oracle.Util
/-! Oracle operations: Params (stub, filled in by the module that owns it). -/
namespace TRV.Oracle.Params
open TRV.Oracle

def handlers : List (String × Handler) := []

end TRV.Oracle.Params
