import TRV.Oracle.Util
import TRV.Oracle.Policy
import TRV.Spec.Params
/-! Oracle operations for the parameter-path model (C19). The two code-description booleans are passed
    in by the harness (it reads them from the regenerated `TRV/Generated/ParamsFacts.lean`), so the
    oracle itself does not depend on generated files. -/
namespace TRV.Oracle.Params
open TRV TRV.Oracle TRV.Params TRV.Spec.Params

def parseProto (s : String) : Option Proto :=
  if s = "udp" then some .udp else if s = "tcp" then some .tcp
  else if s = "icmp" then some .icmp else if s = "other" then some .other else none

def showProto : Proto → String
  | .udp => "udp" | .tcp => "tcp" | .icmp => "icmp" | .other => "other"

def parseKind (s : String) : Option Kind :=
  if s = "none" then some .none else if s = "syn" then some .syn else if s = "sack" then some .sack else none

def showKind : Kind → String
  | .none => "none" | .syn => "syn" | .sack => "sack"

def parseLit (s : String) : Option LitPort :=
  if s = "-" then some .absent else if s = "g" then some .garbage else (parseInt s).map .num

def parseAvail (s : String) : Option Avail :=
  if s = "capable" then some .capable else if s = "unsupported" then some .unsupported
  else if s = "fatal" then some .fatal else none

def showNats (l : List Nat) : String :=
  if l.isEmpty then "-" else ",".intercalate (l.map toString)

def parseNats (s : String) : Option (List Nat) :=
  if s = "-" then some [] else (splitOn s ',').mapM (·.toNat?)

/-- `<proto> <method> <min> <max> <port> <litport> <v6> <avail>` -/
def parseP : List String → Option P
  | [pr, m, mn, mx, port, lit, v6, av] => do
    let pr ← parseProto pr
    let m ← TRV.Oracle.Policy.parseMethod m
    let mn ← parseInt mn; let mx ← parseInt mx; let port ← parseInt port
    let lit ← parseLit lit
    let v6 ← parseBool v6
    let av ← parseAvail av
    pure { proto := pr, method := m, minTTL := mn, maxTTL := mx, port := port, litPort := lit, v6 := v6, avail := av }
  | _ => none

def showOutcome : Outcome → String
  | .reject => "reject"
  | .crash => "crash"
  | .plan pl =>
    let port := match pl.port with | some q => toString q | none => "-"
    s!"plan {showProto pl.proto} {showKind pl.kind} {port} {showBool pl.v6} {showNats pl.ttls}"

def parseOutcome : List String → Option Outcome
  | ["reject"] => some .reject
  | ["crash"] => some .crash
  | ["plan", pr, k, port, v6, ttls] => do
    let pr ← parseProto pr
    let k ← parseKind k
    let port ← if port = "-" then some none else port.toNat?.map some
    let v6 ← parseBool v6
    let ttls ← parseNats ttls
    pure (.plan { proto := pr, kind := k, port := port, v6 := v6, ttls := ttls })
  | _ => none

/-- `par.run <ttlRangeChecked> <sackTableInt> <P…>` -/
def runH : Handler
  | tc :: si :: rest => orBad do
    let tc ← parseBool tc; let si ← parseBool si
    let p ← parseP rest
    pure (showOutcome (run tc si p))
  | _ => badOp

/-- `par.spec <P…> ; <observed outcome>` → is the observation acceptable (rejected, or honoured)? -/
def specH : Handler := fun toks =>
  let (ptoks, rest) := toks.span (· != ";")
  orBad do
    let p ← parseP ptoks
    let o ← parseOutcome (rest.drop 1)
    pure (showBool (acceptable p o))

/-- `par.sacksend <sackTableInt> <min> <max>`: the SACK driver alone, `SendProbe` for every TTL of
    the (narrowed) range → `ok` | `crash` | `reject` (range invalid after narrowing) -/
def sackSendH : Handler
  | [si, mn, mx] => orBad do
    let si ← parseBool si
    let mn ← parseInt mn; let mx ← parseInt mx
    let min8 : Nat := TRV.Params.u8 mn
    let max8 : Nat := TRV.Params.u8 mx
    pure (match sackSend (sackTableLen si max8) (ttlList min8 max8) with
      | some _ => "ok"
      | none => "crash")
  | _ => badOp

def handlers : List (String × Handler) :=
  [("par.run", runH), ("par.spec", specH), ("par.sacksend", sackSendH)]

end TRV.Oracle.Params
