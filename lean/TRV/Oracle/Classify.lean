import TRV.Oracle.Util
import TRV.Model.Classify
/-!
Oracle operations: error classification (C10 / C07 / C09 / C20 glue).

    cls.chain  <link>…                 → "r=<0|1> ns=<0|1> dl=<0|1>"     (CheckProbeRetryable / errors.As NotSupported / errors.Is deadline)
    cls.read   err <link>…             → "<packet|skip|abort> r=… ns=… dl=…" of the error ReadAndParse returns
    cls.read   data <n> <parseErr 0|1> → the same for a read that returned n bytes

links: w (opaque wrapper) · np (no-packet error) · bp (bad-packet error) · ns (not-supported error) ·
       dl (deadline sentinel) · c0:<n> / c1:<n> (innermost cause number n, Timeout() false / true)
-/
namespace TRV.Oracle.Classify
open TRV TRV.Oracle TRV.Classify

def parseLink (s : String) : Option Link :=
  if s = "w" then some .wrap
  else if s = "np" then some .noPkt
  else if s = "bp" then some .badPkt
  else if s = "ns" then some .notSupported
  else if s = "dl" then some .deadline
  else match splitOn s ':' with
    | ["c0", n] => n.toNat?.map (Link.cause false)
    | ["c1", n] => n.toNat?.map (Link.cause true)
    | _ => none

def showFlags (c : Chain) : String :=
  s!"r={showBool (retryable c)} ns={showBool (isNotSupported c)} dl={showBool (isDeadline c)}"

def showVerdict : Verdict → String
  | .packet => "packet" | .skip => "skip" | .abort => "abort"

def chainH : Handler := fun toks => orBad do
  let c ← toks.mapM parseLink
  pure (showFlags c)

def readH : Handler
  | "err" :: links => orBad do
    let c ← links.mapM parseLink
    let r := ReadRes.err c
    pure s!"{showVerdict (verdict r)} {showFlags ((readAndParse r).getD [])}"
  | ["data", n, pe] => orBad do
    let n ← n.toNat?
    let pe ← parseBool pe
    let r := ReadRes.data n pe
    pure s!"{showVerdict (verdict r)} {showFlags ((readAndParse r).getD [])}"
  | _ => badOp

def handlers : List (String × Handler) := [("cls.chain", chainH), ("cls.read", readH)]

end TRV.Oracle.Classify
