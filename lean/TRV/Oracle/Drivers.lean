import TRV.Oracle.Util
import TRV.Model.Drivers
import TRV.Model.Handshake
import TRV.Spec.Genuine
import TRV.Spec.Probe
/-! Oracle operations for the four driver models: one line = configuration + a sequence of
    `s:<ttl>:<now>[:<rnd>]` (SendProbe) and `r:<packet hex>` (ReceiveProbe on that packet) steps;
    the answer has one token per step. -/
namespace TRV.Oracle.Drivers
open TRV TRV.Oracle TRV.Drv

inductive Op where
  | send (ttl now rnd : Nat)
  | recv (pkt : Bytes)
  | judge (pkt : Bytes) (ttl : Nat) (ip : Bytes) (dest : Bool)   -- spec on an implementation outcome
  | wf (pkt : Bytes) (ttl rnd : Nat)                              -- C06 well-formedness of an emitted probe
  | obs (ttl now : Nat) (pkt : Bytes)   -- record a probe the IMPLEMENTATION emitted (identifiers read off its bytes)

def parseOp (s : String) : Option Op :=
  match splitOn s ':' with
  | ["s", t, n] => do pure (.send (← t.toNat?) (← n.toNat?) 0)
  | ["s", t, n, r] => do pure (.send (← t.toNat?) (← n.toNat?) (← r.toNat?))
  | ["r", p] => (parseHex p).map .recv
  | ["S", t, n, p] => do pure (.obs (← t.toNat?) (← n.toNat?) (← parseHex p))
  | ["k", p, t] => do pure (.wf (← parseHex p) (← t.toNat?) 0)
  | ["k", p, t, r] => do pure (.wf (← parseHex p) (← t.toNat?) (← r.toNat?))
  | ["j", p, t, ip, d] => do pure (.judge (← parseHex p) (← t.toNat?) (← parseHex ip) (← parseBool d))
  | _ => none

def showOut : Out → String
  | .accept t ip d tm => s!"acc:{t}:{toHex ip}:{showBool d}:{tm}"
  | .retry => "retry"
  | .notSupported => "nosup"
  | .fatal => "fatal"

/-- generic step loop over a driver state -/
def runOps {σ : Type} (send : σ → Nat → Nat → Nat → SendRes σ) (recv : σ → Bytes → Out)
    (judge : σ → Nat → Bytes → Bool → Bytes → Bool) (wf : σ → Bytes → Nat → Nat → Bool) (addSent : σ → Sent → σ)
    (st : σ) (ops : List Op) : List String :=
  match ops with
  | [] => []
  | .send t n r :: rest =>
    match send st t n r with
    | .ok st' pkt => s!"w:{toHex pkt}" :: runOps send recv judge wf addSent st' rest
    | .err => "serr" :: runOps send recv judge wf addSent st rest
  | .recv p :: rest => showOut (recv st p) :: runOps send recv judge wf addSent st rest
  | .judge p t a d :: rest =>
    s!"g:{showBool (judge st t a d (p.take Wire.bufSize))}" :: runOps send recv judge wf addSent st rest
  | .wf p t r :: rest => s!"q:{showBool (wf st p t r)}" :: runOps send recv judge wf addSent st rest
  | .obs t n p :: rest =>
    -- the per-probe identifiers as they are ON THE WIRE: IP id / IPv6 payload length at offset 4,
    -- TCP sequence number at offset 24
    let sent : Sent := { ttl := t, id := (u16 p 4).getD 0, seq := (u32 p 24).getD 0, time := n }
    "o" :: runOps send recv judge wf addSent (addSent st sent) rest

def icmp : Handler
  | l :: t :: e :: mn :: mx :: ops => orBad do
    let cfg : IcmpCfg := { localA := ← parseHex l, target := ← parseHex t, echoId := ← e.toNat?,
                           min := ← mn.toNat?, max := ← mx.toNat? }
    let ops ← ops.mapM parseOp
    pure (" ".intercalate (runOps (fun s t n _ => icmpSend s t n) icmpRecv
      (fun s t a d p => if cfg.localA.length = 16 then Spec.genuineIcmp6 s.cfg s.sent t a d p else Spec.genuineIcmp4 s.cfg s.sent t a d p)
      (fun s p t _ => if cfg.localA.length = 16 then Spec.wfIcmp6 p s.cfg.localA s.cfg.target s.cfg.echoId t
                      else Spec.wfIcmp4 p s.cfg.localA s.cfg.target s.cfg.echoId t)
      (fun s x => { s with sent := s.sent ++ [x] }) { cfg, sent := [] } ops))
  | _ => badOp

def udp : Handler
  | l :: lp :: t :: tp :: lo :: ops => orBad do
    let cfg : UdpCfg := { localA := ← parseHex l, lport := ← lp.toNat?, target := ← parseHex t,
                          tport := ← tp.toNat?, loosen := ← parseBool lo }
    let ops ← ops.mapM parseOp
    pure (" ".intercalate (runOps (fun s t n _ => udpSend s t n) udpRecv
      (fun s t a d p => if cfg.target.length = 16 then Spec.genuineUdp6 s.cfg s.sent t a d p else Spec.genuineUdp4 s.cfg s.sent t a d p)
      (fun s p t _ => if cfg.target.length = 16 then Spec.wfUdp6 p s.cfg.localA s.cfg.target s.cfg.lport s.cfg.tport t
                      else Spec.wfUdp4 p s.cfg.localA s.cfg.target s.cfg.lport s.cfg.tport t)
      (fun s x => { s with sent := s.sent ++ [x] }) { cfg, sent := [] } ops))
  | _ => badOp

def tcp : Handler
  | l :: lp :: t :: tp :: lo :: pa :: base :: sq :: ops => orBad do
    let cfg : TcpCfg := { localA := ← parseHex l, lport := ← lp.toNat?, target := ← parseHex t,
                          tport := ← tp.toNat?, loosen := ← parseBool lo, paris := ← parseBool pa,
                          baseId := ← base.toNat?, seq := ← sq.toNat? }
    let ops ← ops.mapM parseOp
    pure (" ".intercalate (runOps tcpSend tcpRecv (fun s t a d p => Spec.genuineTcp s.cfg s.sent t a d p)
      (fun s p t r => Spec.wfTcpSyn p s.cfg.localA s.cfg.target s.cfg.lport s.cfg.tport (tcpIds s.cfg t r).1 (tcpIds s.cfg t r).2 t)
      (fun s x => { s with sent := s.sent ++ [x] }) { cfg, sent := [] } ops))
  | _ => badOp

def parseTs (s : String) : Option (Option (Nat × Nat)) :=
  if s = "-" then some none else
  match splitOn s ':' with
  | [a, b] => do pure (some ((← a.toNat?), (← b.toNat?)))
  | _ => none

def sack : Handler
  | l :: lp :: t :: tp :: lo :: mn :: mx :: isn :: iack :: ts :: ops => orBad do
    let cfg : SackCfg := { localA := ← parseHex l, lport := ← lp.toNat?, target := ← parseHex t,
                           tport := ← tp.toNat?, loosen := ← parseBool lo, min := ← mn.toNat?,
                           max := ← mx.toNat?, isn := ← isn.toNat?, iack := ← iack.toNat?, ts := ← parseTs ts }
    let ops ← ops.mapM parseOp
    pure (" ".intercalate (runOps (fun s t n _ => sackSend s t n) sackRecv (fun s t a d p => Spec.genuineSack s.cfg s.sent t a d p)
      (fun s p t _ => Spec.wfSack p s.cfg.localA s.cfg.target s.cfg.lport s.cfg.tport ((s.cfg.isn + t) % 4294967296) s.cfg.iack t)
      (fun s x => { s with sent := s.sent ++ [x] }) { cfg, sent := [] } ops))
  | _ => badOp

def showHs : HsOut → String
  | .skip => "skip"
  | .fatal => "fatal"
  | .truncTS => "truncts"
  | .notSupported => "nosup"
  | .timeout => "timeout"
  | .done isn iack none => s!"done:{isn}:{iack}:-"
  | .done isn iack (some (v, e)) => s!"done:{isn}:{iack}:{v}:{e}"

/-- `drv.hs <local> <lport> <target> <tport> <packet hex>…` : `ReadHandshake` over the packets captured
    before the deadline; the answer is the outcome of the read loop followed by the per-packet verdicts -/
def hs : Handler
  | l :: lp :: t :: tp :: pkts => orBad do
    let localA ← parseHex l
    let target ← parseHex t
    let lport ← lp.toNat?
    let tport ← tp.toNat?
    let pkts ← pkts.mapM parseHex
    pure (" ".intercalate (showHs (hsRead localA target lport tport pkts) :: pkts.map (fun p => showHs (hsRecv localA target lport tport p))))
  | _ => badOp

def handlers : List (String × Handler) :=
  [("drv.icmp", icmp), ("drv.udp", udp), ("drv.tcp", tcp), ("drv.sack", sack), ("drv.hs", hs)]

end TRV.Oracle.Drivers
