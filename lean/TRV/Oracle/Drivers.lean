import TRV.Oracle.Util
/-! Oracle operations: Drivers (stub, filled in by the module that owns it). -/
namespace TRV.Oracle.Drivers
open TRV.Oracle

def handlers : List (String × Handler) := []

end TRV.Oracle.Drivers
