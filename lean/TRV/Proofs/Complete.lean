import TRV.Proofs.Build
import TRV.Proofs.Drivers
import TRV.Model.Drivers
set_option linter.unusedSimpArgs false
set_option linter.unusedVariables false
/-!
# Byte-level completeness (C02): catalogue encodings decode to the view the matchers accept

`rawHdr4` is an IPv4 header without options whose every field — including the checksum — is a
parameter, so the lemmas cover rewritten TTL/TOS/checksum and stale checksums.
-/
namespace TRV.Proofs
open TRV TRV.Wire TRV.Build TRV.Drv

def rawHdr4 (tos len id ff ttl proto ck : Nat) (src dst : Bytes) : Bytes :=
  [byte 0x45, byte tos] ++ be16 len ++ be16 id ++ be16 ff ++ [byte ttl, byte proto] ++ be16 ck ++ src ++ dst

theorem rawHdr4_length (tos len id ff ttl proto ck : Nat) (src dst : Bytes) (hs : src.length = 4) (hd : dst.length = 4) :
    (rawHdr4 tos len id ff ttl proto ck src dst).length = 20 := by
  simp [rawHdr4, be16, hs, hd]

/-- gopacket's IPv4 decoder on an option-less header followed by any bytes -/
theorem ip4_rawHdr4 {tos len id ff ttl proto ck : Nat} {src dst pl : Bytes} (hs : src.length = 4) (hd : dst.length = 4)
    (htos : tos < 256) (hlen : 20 ≤ len) (hl : len < 65536) (hid : id < 65536) (hff : ff < 65536)
    (httl : ttl < 256) (hpr : proto < 256) :
    ip4 (rawHdr4 tos len id ff ttl proto ck src dst ++ pl) =
      some { ihl := 5, tos, len, id, ff, ttl, proto, src, dst, payload := pl.take (len - 20) } := by
  have hL := rawHdr4_length tos len id ff ttl proto ck src dst hs hd
  obtain ⟨a, b, c, d, rfl⟩ := len4 hs
  obtain ⟨e, f, g, h, rfl⟩ := len4 hd
  have hb0 : u8 (rawHdr4 tos len id ff ttl proto ck [a, b, c, d] [e, f, g, h] ++ pl) 0 = some 0x45 := by
    simp [rawHdr4, u8, byte_toNat]
  have hb1 : u8 (rawHdr4 tos len id ff ttl proto ck [a, b, c, d] [e, f, g, h] ++ pl) 1 = some tos := by
    simp [rawHdr4, u8, byte_toNat, htos]
  have hb2 : u16 (rawHdr4 tos len id ff ttl proto ck [a, b, c, d] [e, f, g, h] ++ pl) 2 = some len := by
    simp [rawHdr4, be16, u8, u16]
    rw [byte_toNat (by omega), byte_toNat (by omega)]; omega
  have hb4 : u16 (rawHdr4 tos len id ff ttl proto ck [a, b, c, d] [e, f, g, h] ++ pl) 4 = some id := by
    simp [rawHdr4, be16, u8, u16]
    rw [byte_toNat (by omega), byte_toNat (by omega)]; omega
  have hb6 : u16 (rawHdr4 tos len id ff ttl proto ck [a, b, c, d] [e, f, g, h] ++ pl) 6 = some ff := by
    simp [rawHdr4, be16, u8, u16]
    rw [byte_toNat (by omega), byte_toNat (by omega)]; omega
  have hb8 : u8 (rawHdr4 tos len id ff ttl proto ck [a, b, c, d] [e, f, g, h] ++ pl) 8 = some ttl := by
    simp [rawHdr4, be16, u8, byte_toNat, httl]
  have hb9 : u8 (rawHdr4 tos len id ff ttl proto ck [a, b, c, d] [e, f, g, h] ++ pl) 9 = some proto := by
    simp [rawHdr4, be16, u8, byte_toNat, hpr]
  have hsrc : slice (rawHdr4 tos len id ff ttl proto ck [a, b, c, d] [e, f, g, h] ++ pl) 12 4 = [a, b, c, d] := by
    simp [rawHdr4, be16, slice]
  have hdst : slice (rawHdr4 tos len id ff ttl proto ck [a, b, c, d] [e, f, g, h] ++ pl) 16 4 = [e, f, g, h] := by
    simp [rawHdr4, be16, slice]
  have hlenT : (rawHdr4 tos len id ff ttl proto ck [a, b, c, d] [e, f, g, h] ++ pl).length = 20 + pl.length := by
    simp [hL]
  unfold ip4
  rw [if_neg (by omega), hb0, hb1, hb2, hb4, hb6, hb8, hb9]
  have hlen' : ip4Len len (rawHdr4 tos len id ff ttl proto ck [a, b, c, d] [e, f, g, h] ++ pl).length = len := by
    unfold ip4Len; rw [if_neg (by omega)]
  simp only [hlen', hsrc, hdst]
  have hcutlen : 20 ≤ (ip4Cut (rawHdr4 tos len id ff ttl proto ck [a, b, c, d] [e, f, g, h] ++ pl) len).length := by
    unfold ip4Cut; split
    · rw [List.length_take]; omega
    · omega
  have hdrop : (ip4Cut (rawHdr4 tos len id ff ttl proto ck [a, b, c, d] [e, f, g, h] ++ pl) len).drop 20 = pl.take (len - 20) := by
    unfold ip4Cut; split
    · rename_i hgt
      rw [List.take_append, hL, List.drop_append]
      have : (List.take len (rawHdr4 tos len id ff ttl proto ck [a, b, c, d] [e, f, g, h])).length = 20 := by
        rw [List.length_take]; omega
      rw [List.drop_of_length_le (by omega), this]
      simp
    · rename_i hle
      rw [List.drop_append, hL, List.drop_of_length_le (by omega)]
      simp
      rw [List.take_of_length_le (by omega)]
  have hopts : ip4OptsOK (0x45 % 16 * 4 - 20) (slice (ip4Cut (rawHdr4 tos len id ff ttl proto ck [a, b, c, d] [e, f, g, h] ++ pl) len) 20 (0x45 % 16 * 4 - 20)) = true := by
    simp [ip4OptsOK]
  simp only [hopts, hdrop]
  have e5 : (0x45 : Nat) % 16 = 5 := by decide
  simp only [e5]
  rw [if_neg (by omega), if_neg (by omega), if_neg (by omega), if_neg (by omega)]
  simp

end TRV.Proofs

namespace TRV.Proofs
open TRV TRV.Wire TRV.Build TRV.Drv

/-- an ICMPv4 message (8-byte header: type, code, checksum, 4 further header bytes) around `body`,
    inside an option-less IPv4 packet from `r` to `dst` -/
def icmpMsg4 (otos oid ottl ock : Nat) (r dst : Bytes) (ty code ick : Nat) (rest4 body : Bytes) : Bytes :=
  rawHdr4 otos (28 + body.length) oid 0 ottl 1 ock r dst ++ (([byte ty, byte code] ++ be16 ick ++ rest4) ++ body)

theorem take_of_le {l : Bytes} {n : Nat} (h : l.length ≤ n) : l.take n = l := List.take_of_length_le h

/-- `FrameParser.Parse` on such a packet: IPv4 + ICMPv4 with the given type/code and body -/
theorem parse_icmpMsg4 {otos oid ottl ock ty code ick : Nat} {r dst rest4 body : Bytes}
    (hr : r.length = 4) (hd : dst.length = 4) (hrest : rest4.length = 4)
    (h1 : otos < 256) (h2 : oid < 65536) (h3 : ottl < 256) (hty : ty < 256) (hco : code < 256)
    (hsize : 28 + body.length ≤ 1024) :
    ∃ id seq, parse ((icmpMsg4 otos oid ottl ock r dst ty code ick rest4 body).take bufSize) =
      some (.v4 { ihl := 5, tos := otos, len := 28 + body.length, id := oid, ff := 0, ttl := ottl, proto := 1,
                  src := r, dst := dst, payload := ([byte ty, byte code] ++ be16 ick ++ rest4) ++ body },
            .icmp4 { type := ty, code := code, id := id, seq := seq, payload := body }) := by
  have hlenpl : (([byte ty, byte code] ++ be16 ick ++ rest4) ++ body).length = 8 + body.length := by
    simp [be16, hrest]; omega
  have hL : (icmpMsg4 otos oid ottl ock r dst ty code ick rest4 body).length = 28 + body.length := by
    unfold icmpMsg4
    rw [List.length_append, rawHdr4_length _ _ _ _ _ _ _ _ _ hr hd, hlenpl]; omega
  rw [take_of_le (by rw [hL]; simp [bufSize]; omega)]
  have hip := ip4_rawHdr4 (tos := otos) (len := 28 + body.length) (id := oid) (ff := 0) (ttl := ottl) (proto := 1)
    (ck := ock) (pl := ([byte ty, byte code] ++ be16 ick ++ rest4) ++ body) hr hd h1 (by omega) (by omega) h2 (by omega) h3 (by omega)
  have htk : (([byte ty, byte code] ++ be16 ick ++ rest4) ++ body).take (28 + body.length - 20) =
      ([byte ty, byte code] ++ be16 ick ++ rest4) ++ body := take_of_le (by rw [hlenpl]; omega)
  rw [htk] at hip
  obtain ⟨a, b, c, d, rfl⟩ := len4 hrest
  have hb0 : u8 (icmpMsg4 otos oid ottl ock r dst ty code ick [a, b, c, d] body) 0 = some 0x45 := by
    obtain ⟨r0, r1, r2, r3, rfl⟩ := len4 hr
    simp [icmpMsg4, rawHdr4, u8, byte_toNat]
  unfold parse
  rw [hb0]
  simp only [show (0x45 : Nat) / 16 = 4 by decide, if_true]
  unfold icmpMsg4
  rw [hip]
  simp only [IP4.isFrag]
  have hne : (([byte ty, byte code] ++ be16 ick ++ [a, b, c, d]) ++ body).isEmpty = false := by simp [be16]
  simp only [hne, Bool.false_eq_true, if_false]
  refine ⟨a.toNat * 256 + b.toNat, c.toNat * 256 + d.toNat, ?_⟩
  simp [Wire.icmp4, be16, u8, u16, byte_toNat, hty, hco]

end TRV.Proofs

namespace TRV.Proofs
open TRV TRV.Wire TRV.Build TRV.Drv

/-- `GetICMPInfo` on a quoted option-less IPv4 datagram -/
theorem icmpInfo4_quote {ty code id seq : Nat} {qtos qlen qid qff qttl qproto qck : Nat} {qsrc qdst l4x : Bytes}
    (hs : qsrc.length = 4) (hd : qdst.length = 4) (h1 : qtos < 256) (h2 : 20 ≤ qlen) (h3 : qlen < 65536)
    (h4 : qid < 65536) (h5 : qff < 65536) (h6 : qttl < 256) (h7 : qproto < 256) :
    icmpInfo4 { type := ty, code := code, id := id, seq := seq,
                payload := rawHdr4 qtos qlen qid qff qttl qproto qck qsrc qdst ++ l4x } =
      some { wrappedId := qid, proto := qproto, qsrc := qsrc, qdst := qdst, payload := l4x.take (qlen - 20) } := by
  unfold icmpInfo4
  simp only
  rw [ip4_rawHdr4 hs hd h1 h2 h3 h4 h5 h6 h7]
  rfl

/-- ICMP/IPv4 completeness on bytes: a time-exceeded (any code) from router `r`, with arbitrary outer
    TOS/id/TTL/checksum and arbitrary 4 bytes after the ICMP checksum (unused field / RFC 4884
    length), quoting our echo request with arbitrary quoted TOS/TTL/checksum/flags and quoted total
    length ≥ 28, followed by ANY further bytes (rest of the datagram, padding, extension objects),
    is accepted for TTL `t` with responder `r` and no destination mark -/
theorem icmp4_te_complete {s : IcmpSt} {t : Nat} {p : Sent}
    {otos oid ottl ock code ick qtos qlen qid qff qttl qck ety ecode eck : Nat} {r rest4 extra : Bytes}
    (hl : s.cfg.localA.length = 4) (htg : s.cfg.target.length = 4) (hr : r.length = 4) (hrest : rest4.length = 4)
    (b1 : otos < 256) (b2 : oid < 65536) (b3 : ottl < 256) (b4 : code < 256)
    (b5 : qtos < 256) (b6 : 28 ≤ qlen) (b7 : qlen < 65536) (b8 : qid < 65536) (b9 : qff < 65536) (b10 : qttl < 256)
    (b11 : ety = 8 ∨ ety = 0) (b12 : ecode < 256) (b13 : s.cfg.echoId < 65536) (b14 : t < 65536)
    (hsize : 28 + (28 + extra.length) ≤ 1024) (hlk : icmpLookup s t = some p) :
    icmpRecv s (icmpMsg4 otos oid ottl ock r s.cfg.localA 11 code ick rest4
        (rawHdr4 qtos qlen qid qff qttl 1 qck s.cfg.localA s.cfg.target ++
          (([byte ety, byte ecode] ++ be16 eck ++ be16 s.cfg.echoId ++ be16 t) ++ extra))) =
      .accept t r false p.time := by
  have hbody : (rawHdr4 qtos qlen qid qff qttl 1 qck s.cfg.localA s.cfg.target ++
      (([byte ety, byte ecode] ++ be16 eck ++ be16 s.cfg.echoId ++ be16 t) ++ extra)).length = 28 + extra.length := by
    rw [List.length_append, rawHdr4_length _ _ _ _ _ _ _ _ _ hl htg]; simp [be16]; omega
  obtain ⟨id, seq, hparse⟩ := parse_icmpMsg4 (otos := otos) (oid := oid) (ottl := ottl) (ock := ock) (ty := 11) (code := code)
    (ick := ick) (r := r) (dst := s.cfg.localA) (rest4 := rest4)
    (body := rawHdr4 qtos qlen qid qff qttl 1 qck s.cfg.localA s.cfg.target ++
      (([byte ety, byte ecode] ++ be16 eck ++ be16 s.cfg.echoId ++ be16 t) ++ extra))
    hr hl hrest b1 b2 b3 (by omega) b4 (by rw [hbody]; omega)
  have hinfo := icmpInfo4_quote (ty := 11) (code := code) (id := id) (seq := seq) (qtos := qtos) (qlen := qlen) (qid := qid)
    (qff := qff) (qttl := qttl) (qproto := 1) (qck := qck) (qsrc := s.cfg.localA) (qdst := s.cfg.target)
    (l4x := ([byte ety, byte ecode] ++ be16 eck ++ be16 s.cfg.echoId ++ be16 t) ++ extra)
    hl htg b5 (by omega) b7 b8 b9 b10 (by omega)
  have hecho : parseEcho4 ((([byte ety, byte ecode] ++ be16 eck ++ be16 s.cfg.echoId ++ be16 t) ++ extra).take (qlen - 20)) =
      some (s.cfg.echoId, t) := by
    have hk : 8 ≤ qlen - 20 := by omega
    have h8 : ∀ j, j < 8 → ((([byte ety, byte ecode] ++ be16 eck ++ be16 s.cfg.echoId ++ be16 t) ++ extra).take (qlen - 20))[j]? =
        ([byte ety, byte ecode] ++ be16 eck ++ be16 s.cfg.echoId ++ be16 t)[j]? := by
      intro j hj
      rw [List.getElem?_take]
      have : j < qlen - 20 := by omega
      simp only [this, if_true]
      rw [List.getElem?_append_left (by simp [be16]; omega)]
    have hety : ety < 256 := by rcases b11 with h | h <;> omega
    unfold parseEcho4 u16 u8
    rw [h8 0 (by omega), h8 4 (by omega), h8 5 (by omega), h8 6 (by omega), h8 7 (by omega)]
    simp [be16, byte_toNat, hety]
    refine ⟨?_, ?_, ?_⟩
    · rcases b11 with h | h <;> simp [h]
    · rw [byte_toNat (by omega), byte_toNat (by omega)]; omega
    · rw [byte_toNat (by omega), byte_toNat (by omega)]; omega
  have hne : icmpMsg4 otos oid ottl ock r s.cfg.localA 11 code ick rest4
        (rawHdr4 qtos qlen qid qff qttl 1 qck s.cfg.localA s.cfg.target ++
          (([byte ety, byte ecode] ++ be16 eck ++ be16 s.cfg.echoId ++ be16 t) ++ extra)) ≠ [] := by
    simp [icmpMsg4, rawHdr4]
  unfold icmpRecv
  simp only [isEmpty_false_of_ne hne, hparse, hinfo, hecho, hlk, L3.src, if_true, Bool.false_eq_true, if_false]
  simp

end TRV.Proofs

namespace TRV.Proofs
open TRV TRV.Wire TRV.Build TRV.Drv

/-- first 8 bytes of a quoted transport header survive the cut to the quoted total length -/
theorem quoted8 {a b : Nat} {w : Bytes} {extra : Bytes} {n : Nat} (hn : 8 ≤ n) (hw : w.length = 4)
    (ha : a < 65536) (hb : b < 65536) :
    quotedPorts (((be16 a ++ be16 b ++ w) ++ extra).take n) = some (a, b) ∧
    quotedSeq (((be16 a ++ be16 b ++ w) ++ extra).take n) = some (beNat w) := by
  obtain ⟨w0, w1, w2, w3, rfl⟩ := len4 hw
  have hlen : 8 ≤ (((be16 a ++ be16 b ++ [w0, w1, w2, w3]) ++ extra).take n).length := by
    rw [List.length_take]; simp [be16]; omega
  have h8 : ∀ j, j < 8 → (((be16 a ++ be16 b ++ [w0, w1, w2, w3]) ++ extra).take n)[j]? =
      (be16 a ++ be16 b ++ [w0, w1, w2, w3])[j]? := by
    intro j hj
    rw [List.getElem?_take]
    have : j < n := by omega
    simp only [this, if_true]
    rw [List.getElem?_append_left (by simp [be16]; omega)]
  constructor
  · unfold quotedPorts u16 u8
    rw [if_neg (by omega), h8 0 (by omega), h8 1 (by omega), h8 2 (by omega), h8 3 (by omega)]
    simp [be16]
    constructor
    · rw [byte_toNat (by omega), byte_toNat (by omega)]; omega
    · rw [byte_toNat (by omega), byte_toNat (by omega)]; omega
  · unfold quotedSeq u32 u16 u8
    rw [if_neg (by omega), h8 4 (by omega), h8 5 (by omega), h8 6 (by omega), h8 7 (by omega)]
    simp [be16, beNat]
    omega

/-- UDP/IPv4 completeness on bytes: time-exceeded (code 0) or destination-unreachable (any code)
    from `r` quoting our datagram (quoted source = our address and port, so strict and relaxed mode
    both apply), arbitrary rewritten quoted TTL/TOS/checksum, any trailing bytes -/
theorem udp4_err_complete {s : UdpSt} {p : Sent}
    {otos oid ottl ock ty code ick qtos qlen qff qttl qck : Nat} {r rest4 w extra : Bytes}
    (hl : s.cfg.localA.length = 4) (htg : s.cfg.target.length = 4) (hr : r.length = 4) (hrest : rest4.length = 4)
    (hw : w.length = 4)
    (b1 : otos < 256) (b2 : oid < 65536) (b3 : ottl < 256) (b4 : code < 256) (hty : (ty = 11 ∧ code = 0) ∨ ty = 3)
    (b5 : qtos < 256) (b6 : 28 ≤ qlen) (b7 : qlen < 65536) (b8 : p.id < 65536) (b9 : qff < 65536) (b10 : qttl < 256)
    (b11 : s.cfg.lport < 65536) (b12 : s.cfg.tport < 65536)
    (hsize : 28 + (28 + extra.length) ≤ 1024) (hf : s.sent.find? (·.id = p.id) = some p) :
    udpRecv s (icmpMsg4 otos oid ottl ock r s.cfg.localA ty code ick rest4
        (rawHdr4 qtos qlen p.id qff qttl 17 qck s.cfg.localA s.cfg.target ++
          ((be16 s.cfg.lport ++ be16 s.cfg.tport ++ w) ++ extra))) =
      .accept p.ttl r (decide (r = s.cfg.target)) p.time := by
  have hbody : (rawHdr4 qtos qlen p.id qff qttl 17 qck s.cfg.localA s.cfg.target ++
      ((be16 s.cfg.lport ++ be16 s.cfg.tport ++ w) ++ extra)).length = 28 + extra.length := by
    rw [List.length_append, rawHdr4_length _ _ _ _ _ _ _ _ _ hl htg]; simp [be16, hw]; omega
  have htyl : ty < 256 := by rcases hty with ⟨h, _⟩ | h <;> omega
  obtain ⟨id, seq, hparse⟩ := parse_icmpMsg4 (otos := otos) (oid := oid) (ottl := ottl) (ock := ock) (ty := ty) (code := code)
    (ick := ick) (r := r) (dst := s.cfg.localA) (rest4 := rest4)
    (body := rawHdr4 qtos qlen p.id qff qttl 17 qck s.cfg.localA s.cfg.target ++
      ((be16 s.cfg.lport ++ be16 s.cfg.tport ++ w) ++ extra))
    hr hl hrest b1 b2 b3 htyl b4 (by rw [hbody]; omega)
  have hinfo := icmpInfo4_quote (ty := ty) (code := code) (id := id) (seq := seq) (qtos := qtos) (qlen := qlen) (qid := p.id)
    (qff := qff) (qttl := qttl) (qproto := 17) (qck := qck) (qsrc := s.cfg.localA) (qdst := s.cfg.target)
    (l4x := (be16 s.cfg.lport ++ be16 s.cfg.tport ++ w) ++ extra)
    hl htg b5 (by omega) b7 b8 b9 b10 (by omega)
  obtain ⟨hports, _⟩ := quoted8 (a := s.cfg.lport) (b := s.cfg.tport) (w := w) (extra := extra) (n := qlen - 20) (by omega) hw b11 b12
  have hne : icmpMsg4 otos oid ottl ock r s.cfg.localA ty code ick rest4
        (rawHdr4 qtos qlen p.id qff qttl 17 qck s.cfg.localA s.cfg.target ++
          ((be16 s.cfg.lport ++ be16 s.cfg.tport ++ w) ++ extra)) ≠ [] := by
    simp [icmpMsg4, rawHdr4]
  unfold udpRecv
  simp only [isEmpty_false_of_ne hne, hparse, hty, hinfo, hports, hf, L3.src, if_true, Bool.false_eq_true, if_false]
  simp
  rfl

/-- TCP SYN completeness on bytes: time-exceeded (code 0) quoting the (IP id, sequence number) of a
    sent probe -/
theorem tcp_te_complete {s : TcpSt} {p : Sent}
    {otos oid ottl ock ick qtos qlen qff qttl qck : Nat} {r rest4 extra : Bytes}
    (hl : s.cfg.localA.length = 4) (htg : s.cfg.target.length = 4) (hr : r.length = 4) (hrest : rest4.length = 4)
    (b1 : otos < 256) (b2 : oid < 65536) (b3 : ottl < 256)
    (b5 : qtos < 256) (b6 : 28 ≤ qlen) (b7 : qlen < 65536) (b8 : p.id < 65536) (b9 : qff < 65536) (b10 : qttl < 256)
    (b11 : s.cfg.lport < 65536) (b12 : s.cfg.tport < 65536) (b13 : p.seq < 4294967296)
    (hsize : 28 + (28 + extra.length) ≤ 1024)
    (hf : s.sent.find? (fun x => x.id = p.id ∧ x.seq = p.seq) = some p) :
    tcpRecv s (icmpMsg4 otos oid ottl ock r s.cfg.localA 11 0 ick rest4
        (rawHdr4 qtos qlen p.id qff qttl 6 qck s.cfg.localA s.cfg.target ++
          ((be16 s.cfg.lport ++ be16 s.cfg.tport ++ be32 p.seq) ++ extra))) =
      .accept p.ttl r false p.time := by
  have hbody : (rawHdr4 qtos qlen p.id qff qttl 6 qck s.cfg.localA s.cfg.target ++
      ((be16 s.cfg.lport ++ be16 s.cfg.tport ++ be32 p.seq) ++ extra)).length = 28 + extra.length := by
    rw [List.length_append, rawHdr4_length _ _ _ _ _ _ _ _ _ hl htg]; simp [be16, be32]; omega
  obtain ⟨id, seq, hparse⟩ := parse_icmpMsg4 (otos := otos) (oid := oid) (ottl := ottl) (ock := ock) (ty := 11) (code := 0)
    (ick := ick) (r := r) (dst := s.cfg.localA) (rest4 := rest4)
    (body := rawHdr4 qtos qlen p.id qff qttl 6 qck s.cfg.localA s.cfg.target ++
      ((be16 s.cfg.lport ++ be16 s.cfg.tport ++ be32 p.seq) ++ extra))
    hr hl hrest b1 b2 b3 (by omega) (by omega) (by rw [hbody]; omega)
  have hinfo := icmpInfo4_quote (ty := 11) (code := 0) (id := id) (seq := seq) (qtos := qtos) (qlen := qlen) (qid := p.id)
    (qff := qff) (qttl := qttl) (qproto := 6) (qck := qck) (qsrc := s.cfg.localA) (qdst := s.cfg.target)
    (l4x := (be16 s.cfg.lport ++ be16 s.cfg.tport ++ be32 p.seq) ++ extra)
    hl htg b5 (by omega) b7 b8 b9 b10 (by omega)
  obtain ⟨hports, hseq⟩ := quoted8 (a := s.cfg.lport) (b := s.cfg.tport) (w := be32 p.seq) (extra := extra) (n := qlen - 20)
    (by omega) (be32_length _) b11 b12
  have hbe : beNat (be32 p.seq) = p.seq := by
    simp [beNat, be32, be16]
    repeat rw [byte_toNat (by omega)]
    omega
  rw [hbe] at hseq
  have hne : icmpMsg4 otos oid ottl ock r s.cfg.localA 11 0 ick rest4
        (rawHdr4 qtos qlen p.id qff qttl 6 qck s.cfg.localA s.cfg.target ++
          ((be16 s.cfg.lport ++ be16 s.cfg.tport ++ be32 p.seq) ++ extra)) ≠ [] := by
    simp [icmpMsg4, rawHdr4]
  unfold tcpRecv
  simp only [isEmpty_false_of_ne hne, hparse, hinfo, hports, hseq, hf, L3.src, if_true, Bool.false_eq_true, if_false]
  simp

end TRV.Proofs

namespace TRV.Proofs
open TRV TRV.Wire TRV.Build TRV.Drv

/-- SACK completeness on bytes: time-exceeded (code 0) from `r` quoting the probe segment whose
    sequence number is ISN + t (mod 2^32), for every ISN (wrap-around included) -/
theorem sack_te_complete {s : SackSt} {t : Nat} {p : Sent}
    {otos oid ottl ock ick qtos qlen qid qff qttl qck : Nat} {r rest4 extra : Bytes}
    (hl : s.cfg.localA.length = 4) (htg : s.cfg.target.length = 4) (hr : r.length = 4) (hrest : rest4.length = 4)
    (b1 : otos < 256) (b2 : oid < 65536) (b3 : ottl < 256)
    (b5 : qtos < 256) (b6 : 28 ≤ qlen) (b7 : qlen < 65536) (b8 : qid < 65536) (b9 : qff < 65536) (b10 : qttl < 256)
    (b11 : s.cfg.lport < 65536) (b12 : s.cfg.tport < 65536) (b13 : s.cfg.isn < 4294967296) (b14 : t < 4294967296)
    (hsize : 28 + (28 + extra.length) ≤ 1024) (hlk : sackLookup s t = some p) :
    sackRecv s (icmpMsg4 otos oid ottl ock r s.cfg.localA 11 0 ick rest4
        (rawHdr4 qtos qlen qid qff qttl 6 qck s.cfg.localA s.cfg.target ++
          ((be16 s.cfg.lport ++ be16 s.cfg.tport ++ be32 ((s.cfg.isn + t) % 4294967296)) ++ extra))) =
      .accept t r (decide (r = s.cfg.target)) p.time := by
  have hbody : (rawHdr4 qtos qlen qid qff qttl 6 qck s.cfg.localA s.cfg.target ++
      ((be16 s.cfg.lport ++ be16 s.cfg.tport ++ be32 ((s.cfg.isn + t) % 4294967296)) ++ extra)).length = 28 + extra.length := by
    rw [List.length_append, rawHdr4_length _ _ _ _ _ _ _ _ _ hl htg]; simp [be16, be32]; omega
  obtain ⟨id, seq, hparse⟩ := parse_icmpMsg4 (otos := otos) (oid := oid) (ottl := ottl) (ock := ock) (ty := 11) (code := 0)
    (ick := ick) (r := r) (dst := s.cfg.localA) (rest4 := rest4)
    (body := rawHdr4 qtos qlen qid qff qttl 6 qck s.cfg.localA s.cfg.target ++
      ((be16 s.cfg.lport ++ be16 s.cfg.tport ++ be32 ((s.cfg.isn + t) % 4294967296)) ++ extra))
    hr hl hrest b1 b2 b3 (by omega) (by omega) (by rw [hbody]; omega)
  have hinfo := icmpInfo4_quote (ty := 11) (code := 0) (id := id) (seq := seq) (qtos := qtos) (qlen := qlen) (qid := qid)
    (qff := qff) (qttl := qttl) (qproto := 6) (qck := qck) (qsrc := s.cfg.localA) (qdst := s.cfg.target)
    (l4x := (be16 s.cfg.lport ++ be16 s.cfg.tport ++ be32 ((s.cfg.isn + t) % 4294967296)) ++ extra)
    hl htg b5 (by omega) b7 b8 b9 b10 (by omega)
  obtain ⟨hports, hseq⟩ := quoted8 (a := s.cfg.lport) (b := s.cfg.tport) (w := be32 ((s.cfg.isn + t) % 4294967296)) (extra := extra)
    (n := qlen - 20) (by omega) (be32_length _) b11 b12
  have hlt : (s.cfg.isn + t) % 4294967296 < 4294967296 := Nat.mod_lt _ (by decide)
  have hbe : beNat (be32 ((s.cfg.isn + t) % 4294967296)) = (s.cfg.isn + t) % 4294967296 := by
    simp [beNat, be32, be16]
    repeat rw [byte_toNat (by omega)]
    omega
  rw [hbe] at hseq
  have hrel : ((s.cfg.isn + t) % 4294967296 + 4294967296 - s.cfg.isn % 4294967296) % 4294967296 = t := by omega
  have hne : icmpMsg4 otos oid ottl ock r s.cfg.localA 11 0 ick rest4
        (rawHdr4 qtos qlen qid qff qttl 6 qck s.cfg.localA s.cfg.target ++
          ((be16 s.cfg.lport ++ be16 s.cfg.tport ++ be32 ((s.cfg.isn + t) % 4294967296)) ++ extra)) ≠ [] := by
    simp [icmpMsg4, rawHdr4]
  unfold sackRecv
  simp only [isEmpty_false_of_ne hne, hparse, hinfo, hports, hseq, hrel, hlk, L3.src, if_true, Bool.false_eq_true, if_false]
  simp
  rfl

end TRV.Proofs
