import TRV.Proofs.Complete
import TRV.Proofs.Wire
set_option linter.unusedSimpArgs false
set_option linter.unusedVariables false
/-!
# Byte-level completeness (C02), direct reply forms

`Proofs.Complete` covers the ICMP-error forms.  Here: the ICMP echo reply of the target, and the
direct TCP replies (SYN-ACK / RST / RST-ACK of the TCP-SYN variant, selective ACK of the SACK
variant) with an option-less... — for TCP: ANY well-formed option list of the reply is covered by
`c02_tcp_direct_view`; on bytes we prove the header without options followed by any payload.
-/
namespace TRV.Proofs
open TRV TRV.Wire TRV.Build TRV.Drv

/-- ICMP/IPv4 completeness on bytes, destination form: an echo reply (any code, any checksum, any
    outer TOS / id / TTL / checksum, any payload) from the target carrying the run's identifier and
    sequence number `t` is accepted for TTL `t` with the destination mark -/
theorem icmp4_echo_complete {s : IcmpSt} {t : Nat} {p : Sent}
    {otos oid ottl ock code ick : Nat} {body : Bytes}
    (hl : s.cfg.localA.length = 4) (htg : s.cfg.target.length = 4)
    (b1 : otos < 256) (b2 : oid < 65536) (b3 : ottl < 256) (b4 : code < 256)
    (b13 : s.cfg.echoId < 65536) (b14 : t < 65536)
    (hsize : 28 + body.length ≤ 1024) (hlk : icmpLookup s t = some p) :
    icmpRecv s (icmpMsg4 otos oid ottl ock s.cfg.target s.cfg.localA 0 code ick (be16 s.cfg.echoId ++ be16 t) body) =
      .accept t s.cfg.target true p.time := by
  have hrest : (be16 s.cfg.echoId ++ be16 t).length = 4 := by simp [be16]
  obtain ⟨id, seq, hparse⟩ := parse_icmpMsg4 (otos := otos) (oid := oid) (ottl := ottl) (ock := ock) (ty := 0) (code := code)
    (ick := ick) (r := s.cfg.target) (dst := s.cfg.localA) (rest4 := be16 s.cfg.echoId ++ be16 t) (body := body)
    htg hl hrest b1 b2 b3 (by omega) b4 hsize
  -- the decoder's id/seq are the two 16-bit words after the checksum
  have hic : Wire.icmp4 (([byte 0, byte code] ++ be16 ick ++ (be16 s.cfg.echoId ++ be16 t)) ++ body) =
      some { type := 0, code := code, id := id, seq := seq, payload := body } := by
    obtain ⟨hd, b0, hl3, _, _, hip, _, _, hi⟩ := parse_icmp4 hparse
    cases hl3
    exact hi
  obtain ⟨_, _, hid, hseq, _, _⟩ := icmp4_spec hic
  have e1 : u16 (([byte 0, byte code] ++ be16 ick ++ (be16 s.cfg.echoId ++ be16 t)) ++ body) 4 = some s.cfg.echoId := by
    simp [be16, u16, u8]
    rw [byte_toNat (by omega), byte_toNat (by omega)]; omega
  have e2 : u16 (([byte 0, byte code] ++ be16 ick ++ (be16 s.cfg.echoId ++ be16 t)) ++ body) 6 = some t := by
    simp [be16, u16, u8]
    rw [byte_toNat (by omega), byte_toNat (by omega)]; omega
  rw [e1] at hid; rw [e2] at hseq
  simp only [Option.some.injEq] at hid hseq
  subst hid; subst hseq
  have hne : icmpMsg4 otos oid ottl ock s.cfg.target s.cfg.localA 0 code ick (be16 s.cfg.echoId ++ be16 t) body ≠ [] := by
    simp [icmpMsg4, rawHdr4]
  unfold icmpRecv
  simp only [isEmpty_false_of_ne hne, hparse, hlk, L3.src]
  simp

end TRV.Proofs

namespace TRV.Proofs
open TRV TRV.Wire TRV.Build TRV.Drv

/-- a TCP header without options (data offset 5) whose every field is a parameter -/
def rawTcp (sp dp seq ack fl win ck urg : Nat) : Bytes :=
  be16 sp ++ be16 dp ++ be32 seq ++ be32 ack ++ [byte 0x50, byte fl] ++ be16 win ++ be16 ck ++ be16 urg

theorem rawTcp_length (sp dp seq ack fl win ck urg : Nat) : (rawTcp sp dp seq ack fl win ck urg).length = 20 := by
  simp [rawTcp, be16, be32]

/-- gopacket's TCP decoder on such a header followed by any payload -/
theorem tcp_rawTcp {sp dp seq ack fl win ck urg : Nat} {pl : Bytes}
    (h1 : sp < 65536) (h2 : dp < 65536) (h3 : seq < 4294967296) (h4 : ack < 4294967296) (h5 : fl < 256) :
    tcp (rawTcp sp dp seq ack fl win ck urg ++ pl) =
      some { sport := sp, dport := dp, seq := seq, ack := ack, flags := fl, opts := [], payload := pl } := by
  have hL := rawTcp_length sp dp seq ack fl win ck urg
  have e0 : u16 (rawTcp sp dp seq ack fl win ck urg ++ pl) 0 = some sp := by
    simp [rawTcp, be16, be32, u16, u8]
    rw [byte_toNat (by omega), byte_toNat (by omega)]; omega
  have e2 : u16 (rawTcp sp dp seq ack fl win ck urg ++ pl) 2 = some dp := by
    simp [rawTcp, be16, be32, u16, u8]
    rw [byte_toNat (by omega), byte_toNat (by omega)]; omega
  have e4 : u32 (rawTcp sp dp seq ack fl win ck urg ++ pl) 4 = some seq := by
    simp [rawTcp, be16, be32, u32, u16, u8]
    rw [byte_toNat (by omega), byte_toNat (by omega), byte_toNat (by omega), byte_toNat (by omega)]; omega
  have e8 : u32 (rawTcp sp dp seq ack fl win ck urg ++ pl) 8 = some ack := by
    simp [rawTcp, be16, be32, u32, u16, u8]
    rw [byte_toNat (by omega), byte_toNat (by omega), byte_toNat (by omega), byte_toNat (by omega)]; omega
  have e12 : u8 (rawTcp sp dp seq ack fl win ck urg ++ pl) 12 = some 0x50 := by
    simp [rawTcp, be16, be32, u8, byte_toNat]
  have e13 : u8 (rawTcp sp dp seq ack fl win ck urg ++ pl) 13 = some fl := by
    simp [rawTcp, be16, be32, u8, byte_toNat, h5]
  unfold tcp
  rw [if_neg (by rw [List.length_append, hL]; omega), e0, e2, e4, e8, e12, e13]
  simp only [show (0x50 : Nat) / 16 = 5 by decide]
  rw [if_neg (by omega), if_neg (by rw [List.length_append, hL]; omega)]
  have hd : (rawTcp sp dp seq ack fl win ck urg ++ pl).drop (5 * 4) = pl := by
    rw [show 5 * 4 = (rawTcp sp dp seq ack fl win ck urg).length by rw [hL]]
    simp
  simp [tcpOpts, hd]

/-- a TCP segment without options inside an option-less IPv4 packet from `src` to `dst` (flags/fragment word
    `ff`: DF may be set) -/
def tcpMsg4 (otos oid ff ottl ock : Nat) (src dst : Bytes) (sp dp seq ack fl win ck urg : Nat) (pl : Bytes) : Bytes :=
  rawHdr4 otos (40 + pl.length) oid ff ottl 6 ock src dst ++ (rawTcp sp dp seq ack fl win ck urg ++ pl)

/-- `FrameParser.Parse` on such a packet -/
theorem parse_tcpMsg4 {otos oid ff ottl ock sp dp seq ack fl win ck urg : Nat} {src dst pl : Bytes}
    (hs : src.length = 4) (hd : dst.length = 4)
    (h1 : otos < 256) (h2 : oid < 65536) (h3 : ottl < 256) (hff : ff < 65536) (hfr : ff % 16384 = 0)
    (b1 : sp < 65536) (b2 : dp < 65536) (b3 : seq < 4294967296) (b4 : ack < 4294967296) (b5 : fl < 256)
    (hsize : 40 + pl.length ≤ 1024) :
    parse ((tcpMsg4 otos oid ff ottl ock src dst sp dp seq ack fl win ck urg pl).take bufSize) =
      some (.v4 { ihl := 5, tos := otos, len := 40 + pl.length, id := oid, ff := ff, ttl := ottl, proto := 6,
                  src := src, dst := dst, payload := rawTcp sp dp seq ack fl win ck urg ++ pl },
            .tcp { sport := sp, dport := dp, seq := seq, ack := ack, flags := fl, opts := [], payload := pl }) := by
  have hlenpl : (rawTcp sp dp seq ack fl win ck urg ++ pl).length = 20 + pl.length := by
    rw [List.length_append, rawTcp_length]
  have hL : (tcpMsg4 otos oid ff ottl ock src dst sp dp seq ack fl win ck urg pl).length = 40 + pl.length := by
    unfold tcpMsg4
    rw [List.length_append, rawHdr4_length _ _ _ _ _ _ _ _ _ hs hd, hlenpl]; omega
  rw [take_of_le (by rw [hL]; simp [bufSize]; omega)]
  have hip := ip4_rawHdr4 (tos := otos) (len := 40 + pl.length) (id := oid) (ff := ff) (ttl := ottl) (proto := 6)
    (ck := ock) (pl := rawTcp sp dp seq ack fl win ck urg ++ pl) hs hd h1 (by omega) (by omega) h2 hff h3 (by omega)
  have htk : (rawTcp sp dp seq ack fl win ck urg ++ pl).take (40 + pl.length - 20) = rawTcp sp dp seq ack fl win ck urg ++ pl :=
    take_of_le (by rw [hlenpl]; omega)
  rw [htk] at hip
  have hb0 : u8 (tcpMsg4 otos oid ff ottl ock src dst sp dp seq ack fl win ck urg pl) 0 = some 0x45 := by
    obtain ⟨r0, r1, r2, r3, rfl⟩ := len4 hs
    simp [tcpMsg4, rawHdr4, u8, byte_toNat]
  unfold parse
  rw [hb0]
  simp only [show (0x45 : Nat) / 16 = 4 by decide, if_true]
  unfold tcpMsg4
  rw [hip]
  have hne : (rawTcp sp dp seq ack fl win ck urg ++ pl).isEmpty = false := by simp [rawTcp, be16, be32]
  simp only [hne, IP4.isFrag, hfr, Bool.false_eq_true, if_false, if_true, tcp_rawTcp b1 b2 b3 b4 b5, Option.map_some]
  simp

/-- TCP SYN completeness on bytes, direct forms: a SYN-ACK, RST or RST-ACK (any other flag bits, any
    sequence number, window, checksum, urgent pointer, payload; DF set or not) from the target port to the
    probe's port that — when the ACK flag is set — acknowledges the last probe's sequence number, is
    accepted as the destination's answer to the LAST sent probe -/
theorem tcp_direct_complete {s : TcpSt} {last : Sent}
    {otos oid ff ottl ock seq ack fl win ck urg : Nat} {pl : Bytes}
    (hl : s.cfg.localA.length = 4) (htg : s.cfg.target.length = 4)
    (h1 : otos < 256) (h2 : oid < 65536) (h3 : ottl < 256) (hff : ff < 65536) (hfr : ff % 16384 = 0)
    (b1 : s.cfg.tport < 65536) (b2 : s.cfg.lport < 65536) (b3 : seq < 4294967296) (b4 : ack < 4294967296) (b5 : fl < 256)
    (hfl : ((fl / 2) % 2 = 1 ∧ (fl / 16) % 2 = 1) ∨ (fl / 4) % 2 = 1)
    (hlast : s.sent.getLast? = some last)
    (hack : (fl / 16) % 2 = 1 → last.seq = (ack + 4294967295) % 4294967296)
    (hsize : 40 + pl.length ≤ 1024) :
    tcpRecv s (tcpMsg4 otos oid ff ottl ock s.cfg.target s.cfg.localA s.cfg.tport s.cfg.lport seq ack fl win ck urg pl) =
      .accept last.ttl s.cfg.target true last.time := by
  have hparse := parse_tcpMsg4 (otos := otos) (oid := oid) (ff := ff) (ottl := ottl) (ock := ock)
    (sp := s.cfg.tport) (dp := s.cfg.lport) (seq := seq) (ack := ack) (fl := fl) (win := win) (ck := ck) (urg := urg)
    (src := s.cfg.target) (dst := s.cfg.localA) (pl := pl) htg hl h1 h2 h3 hff hfr b1 b2 b3 b4 b5 hsize
  have hne : tcpMsg4 otos oid ff ottl ock s.cfg.target s.cfg.localA s.cfg.tport s.cfg.lport seq ack fl win ck urg pl ≠ [] := by
    simp [tcpMsg4, rawHdr4]
  unfold tcpRecv
  simp only [isEmpty_false_of_ne hne, hparse, L3.src, L3.dst, hlast, TCP.syn, TCP.ackf, TCP.rst]
  by_cases ha : (fl / 16) % 2 = 1
  · have := hack ha
    rcases hfl with ⟨hs, _⟩ | hr
    · by_cases hr : (fl / 4) % 2 = 1 <;> simp [hs, ha, hr, this]
    · by_cases hs : (fl / 2) % 2 = 1 <;> simp [hs, ha, hr, this]
  · rcases hfl with ⟨_, ha'⟩ | hr
    · exact absurd ha' ha
    · by_cases hs : (fl / 2) % 2 = 1 <;> simp [hs, ha, hr]

end TRV.Proofs

namespace TRV.Proofs
open TRV TRV.Wire TRV.Build TRV.Drv

/-- the option bytes NOP NOP SACK(one block): what Linux answers to one out-of-order segment -/
def sackOpt (left right : Nat) : Bytes := [byte 1, byte 1, byte 5, byte 10] ++ be32 left ++ be32 right

theorem sackOpt_length (left right : Nat) : (sackOpt left right).length = 12 := by simp [sackOpt, be32, be16]

/-- a TCP header with data offset 8 carrying exactly that option -/
def rawTcpSack (sp dp seq ack fl win ck urg left right : Nat) : Bytes :=
  be16 sp ++ be16 dp ++ be32 seq ++ be32 ack ++ [byte 0x80, byte fl] ++ be16 win ++ be16 ck ++ be16 urg ++ sackOpt left right

theorem rawTcpSack_length (sp dp seq ack fl win ck urg left right : Nat) :
    (rawTcpSack sp dp seq ack fl win ck urg left right).length = 32 := by
  simp [rawTcpSack, sackOpt, be16, be32]

theorem tcpOpts_sackOpt (left right : Nat) :
    tcpOpts 12 (sackOpt left right) = some [(1, []), (1, []), (5, be32 left ++ be32 right)] := by
  simp [sackOpt, tcpOpts, be32, be16, byte_toNat, slice]

theorem tcp_rawTcpSack {sp dp seq ack fl win ck urg left right : Nat} {pl : Bytes}
    (h1 : sp < 65536) (h2 : dp < 65536) (h3 : seq < 4294967296) (h4 : ack < 4294967296) (h5 : fl < 256) :
    tcp (rawTcpSack sp dp seq ack fl win ck urg left right ++ pl) =
      some { sport := sp, dport := dp, seq := seq, ack := ack, flags := fl,
             opts := [(1, []), (1, []), (5, be32 left ++ be32 right)], payload := pl } := by
  have hL := rawTcpSack_length sp dp seq ack fl win ck urg left right
  have e0 : u16 (rawTcpSack sp dp seq ack fl win ck urg left right ++ pl) 0 = some sp := by
    simp [rawTcpSack, be16, be32, u16, u8]
    rw [byte_toNat (by omega), byte_toNat (by omega)]; omega
  have e2 : u16 (rawTcpSack sp dp seq ack fl win ck urg left right ++ pl) 2 = some dp := by
    simp [rawTcpSack, be16, be32, u16, u8]
    rw [byte_toNat (by omega), byte_toNat (by omega)]; omega
  have e4 : u32 (rawTcpSack sp dp seq ack fl win ck urg left right ++ pl) 4 = some seq := by
    simp [rawTcpSack, be16, be32, u32, u16, u8]
    rw [byte_toNat (by omega), byte_toNat (by omega), byte_toNat (by omega), byte_toNat (by omega)]; omega
  have e8 : u32 (rawTcpSack sp dp seq ack fl win ck urg left right ++ pl) 8 = some ack := by
    simp [rawTcpSack, be16, be32, u32, u16, u8]
    rw [byte_toNat (by omega), byte_toNat (by omega), byte_toNat (by omega), byte_toNat (by omega)]; omega
  have e12 : u8 (rawTcpSack sp dp seq ack fl win ck urg left right ++ pl) 12 = some 0x80 := by
    simp [rawTcpSack, be16, be32, u8, byte_toNat]
  have e13 : u8 (rawTcpSack sp dp seq ack fl win ck urg left right ++ pl) 13 = some fl := by
    simp [rawTcpSack, be16, be32, u8, byte_toNat, h5]
  have hsl : slice (rawTcpSack sp dp seq ack fl win ck urg left right ++ pl) 20 (8 * 4 - 20) = sackOpt left right := by
    simp [rawTcpSack, slice, be16, be32, sackOpt]
  have hd : (rawTcpSack sp dp seq ack fl win ck urg left right ++ pl).drop (8 * 4) = pl := by
    rw [show 8 * 4 = (rawTcpSack sp dp seq ack fl win ck urg left right).length by rw [hL]]
    simp
  unfold tcp
  rw [if_neg (by rw [List.length_append, hL]; omega), e0, e2, e4, e8, e12, e13]
  simp only [show (0x80 : Nat) / 16 = 8 by decide]
  rw [if_neg (by omega), if_neg (by rw [List.length_append, hL]; omega), hsl,
    show 8 * 4 - 20 = 12 by decide, tcpOpts_sackOpt, hd]

theorem minSack_nn5 (isn : Nat) (d : Bytes) :
    minSack isn [(1, []), (1, []), (5, d)] =
      match sackEdges isn d.length d with
      | [] => none
      | e :: es => some (es.foldl Nat.min e) := by
  simp [minSack, List.filter, List.flatMap]
  rfl

theorem minSack_of_edges {isn x : Nat} {d : Bytes} (h : sackEdges isn d.length d = [x]) :
    minSack isn [(1, []), (1, []), (5, d)] = some x := by
  rw [minSack_nn5, h]
  simp only [List.foldl_nil]

theorem sackEdges_one {isn l n : Nat} {d : Bytes} (hlen : d.length = 8) (e : u32 d 0 = some l) :
    sackEdges isn (n + 2) d = [(l + 4294967296 - isn % 4294967296) % 4294967296] := by
  have hdrop : (d.drop 8).length = 0 := by simp [hlen]
  rw [sackEdges, if_neg (by omega), e]
  simp only
  rw [sackEdges, if_pos (by omega)]

theorem be32x2_length (a b : Nat) : (be32 a ++ be32 b).length = 8 := by simp [be32, be16]

theorem be32x2_u32 {a b : Nat} (ha : a < 4294967296) : u32 (be32 a ++ be32 b) 0 = some a := by
  simp [be16, be32, u32, u16, u8]
  rw [byte_toNat (by omega), byte_toNat (by omega), byte_toNat (by omega), byte_toNat (by omega)]; omega

/-- the smallest relative left edge of that option list (kept in small generic steps: the kernel
    must never be asked to normalise a term containing the literal 2^32 next to a variable) -/
theorem minSack_sackOpt {isn left right : Nat} (hl : left < 4294967296) (hr : right < 4294967296) :
    minSack isn [(1, []), (1, []), (5, be32 left ++ be32 right)] =
      some ((left + 4294967296 - isn % 4294967296) % 4294967296) :=
  minSack_of_edges (by rw [be32x2_length]; exact sackEdges_one (n := 6) (be32x2_length left right) (be32x2_u32 hl))

/-- SACK completeness on bytes, direct form: an ACK (no SYN/FIN/RST; any other flag bits, sequence and
    acknowledgement numbers, window, checksum, urgent pointer, payload; DF or not) from the target port
    to the probe's port whose one SACK block starts at ISN + t (mod 2^32, every ISN) is accepted as the
    destination's answer to the probe for TTL `t` -/
theorem sack_direct_complete {s : SackSt} {t : Nat} {p : Sent}
    {otos oid ff ottl ock seq ack fl win ck urg right : Nat} {pl : Bytes}
    (hl : s.cfg.localA.length = 4) (htg : s.cfg.target.length = 4)
    (h1 : otos < 256) (h2 : oid < 65536) (h3 : ottl < 256) (hff : ff < 65536) (hfr : ff % 16384 = 0)
    (b1 : s.cfg.tport < 65536) (b2 : s.cfg.lport < 65536) (b3 : seq < 4294967296) (b4 : ack < 4294967296) (b5 : fl < 256)
    (hfl : fl % 2 = 0 ∧ (fl / 2) % 2 = 0 ∧ (fl / 4) % 2 = 0)
    (b6 : s.cfg.isn < 4294967296) (b7 : t < 4294967296) (b8 : right < 4294967296)
    (hsize : 52 + pl.length ≤ 1024) (hlk : sackLookup s t = some p) :
    sackRecv s (rawHdr4 otos (52 + pl.length) oid ff ottl 6 ock s.cfg.target s.cfg.localA ++
        (rawTcpSack s.cfg.tport s.cfg.lport seq ack fl win ck urg ((s.cfg.isn + t) % 4294967296) right ++ pl)) =
      .accept t s.cfg.target true p.time := by
  have hlenpl : (rawTcpSack s.cfg.tport s.cfg.lport seq ack fl win ck urg ((s.cfg.isn + t) % 4294967296) right ++ pl).length = 32 + pl.length := by
    rw [List.length_append, rawTcpSack_length]
  have hL : (rawHdr4 otos (52 + pl.length) oid ff ottl 6 ock s.cfg.target s.cfg.localA ++
        (rawTcpSack s.cfg.tport s.cfg.lport seq ack fl win ck urg ((s.cfg.isn + t) % 4294967296) right ++ pl)).length = 52 + pl.length := by
    rw [List.length_append, rawHdr4_length _ _ _ _ _ _ _ _ _ htg hl, hlenpl]; omega
  have hip := ip4_rawHdr4 (tos := otos) (len := 52 + pl.length) (id := oid) (ff := ff) (ttl := ottl) (proto := 6)
    (ck := ock) (pl := rawTcpSack s.cfg.tport s.cfg.lport seq ack fl win ck urg ((s.cfg.isn + t) % 4294967296) right ++ pl)
    htg hl h1 (by omega) (by omega) h2 hff h3 (by omega)
  have htk : (rawTcpSack s.cfg.tport s.cfg.lport seq ack fl win ck urg ((s.cfg.isn + t) % 4294967296) right ++ pl).take (52 + pl.length - 20) =
      rawTcpSack s.cfg.tport s.cfg.lport seq ack fl win ck urg ((s.cfg.isn + t) % 4294967296) right ++ pl :=
    take_of_le (by rw [hlenpl]; omega)
  rw [htk] at hip
  have hb0 : u8 (rawHdr4 otos (52 + pl.length) oid ff ottl 6 ock s.cfg.target s.cfg.localA ++
        (rawTcpSack s.cfg.tport s.cfg.lport seq ack fl win ck urg ((s.cfg.isn + t) % 4294967296) right ++ pl)) 0 = some 0x45 := by
    obtain ⟨r0, r1, r2, r3, hr⟩ := len4 htg
    simp [rawHdr4, u8, byte_toNat]
  have hne : (rawHdr4 otos (52 + pl.length) oid ff ottl 6 ock s.cfg.target s.cfg.localA ++
        (rawTcpSack s.cfg.tport s.cfg.lport seq ack fl win ck urg ((s.cfg.isn + t) % 4294967296) right ++ pl)) ≠ [] := by
    simp [rawHdr4]
  have hne2 : (rawTcpSack s.cfg.tport s.cfg.lport seq ack fl win ck urg ((s.cfg.isn + t) % 4294967296) right ++ pl).isEmpty = false := by
    simp [rawTcpSack, be16, be32]
  have hrel : ((s.cfg.isn + t) % 4294967296 + 4294967296 - s.cfg.isn % 4294967296) % 4294967296 = t := by omega
  unfold sackRecv
  rw [if_neg (by simpa using isEmpty_false_of_ne hne), take_of_le (by rw [hL]; simp [bufSize]; omega)]
  unfold parse
  rw [hb0]
  simp only [show (0x45 : Nat) / 16 = 4 by decide, if_true, hip, hne2, IP4.isFrag, hfr,
    Bool.false_eq_true, if_false, tcp_rawTcpSack b1 b2 b3 b4 b5, Option.map_some]
  have hms := minSack_sackOpt (isn := s.cfg.isn) (left := (s.cfg.isn + t) % 4294967296) (right := right)
    (Nat.mod_lt _ (by decide)) b8
  rw [hrel] at hms
  simp only [L3.src, L3.dst, TCP.syn, TCP.fin, TCP.rst]
  simp [hfl.1, hfl.2.1, hfl.2.2, hms, hlk]

end TRV.Proofs
