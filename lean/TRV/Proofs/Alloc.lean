import TRV.Spec.Alloc
/-! Helper lemmas for C11, part 1: the identifier allocators (16/32-bit wrap-around arithmetic via
    `toNat` + `omega`), sequences by induction, concurrent schedules by an invariant. -/
namespace TRV.Proofs
open TRV TRV.Alloc TRV.Spec

/-! ## One call -/

theorem packetID_base (c : BitVec 32) (n : BitVec 8) : (packetID c n).1 = c.truncate 16 := by
  simp only [packetID]
  congr 1
  bv_omega

theorem packetID_ctr (c : BitVec 32) (n : BitVec 8) : (packetID c n).2 = c + n.zeroExtend 32 := rfl

theorem packetID_ctr_toNat (c : BitVec 32) (n : BitVec 8) :
    (packetID c n).2.toNat = (c.toNat + n.toNat) % 4294967296 := by
  have h := n.isLt
  simp [packetID, BitVec.toNat_add]

theorem packetID_base_toNat (c : BitVec 32) (n : BitVec 8) : (packetID c n).1.toNat = c.toNat % 65536 := by
  rw [packetID_base]; simp

theorem idOf_toNat (b : BitVec 16) (t : Nat) : (idOf b t).toNat = (b.toNat + t % 65536) % 65536 := by
  simp [idOf, BitVec.toNat_add]

theorem mem_used {b : BitVec 16} {n : Nat} {x : BitVec 16} :
    x ∈ used b n ↔ ∃ t, 1 ≤ t ∧ t ≤ n ∧ x = idOf b t := by
  simp only [used, List.mem_map, List.mem_range'_1]
  constructor
  · rintro ⟨t, ⟨h1, h2⟩, rfl⟩; exact ⟨t, h1, by omega, rfl⟩
  · rintro ⟨t, h1, h2, rfl⟩; exact ⟨t, ⟨h1, by omega⟩, rfl⟩

/-- two ids at offsets a ≠ b (both ≤ 65536, both ≥ 1 … or any two offsets less than 65536 apart)
    from the same counter value differ -/
theorem ids_differ (c a b : Nat) (ha : a < b) (hb : b < a + 65536) : (c + a) % 65536 ≠ (c + b) % 65536 := by
  omega

/-! ## Sequences -/

theorem allocSeq_fold (reqs : List (BitVec 8)) : ∀ (acc : List Block) (c : BitVec 32),
    (reqs.foldl allocStep (acc, c)).1 = acc ++ blocks c reqs := by
  induction reqs with
  | nil => intro acc c; simp [blocks]
  | cons n rest ih =>
    intro acc c
    simp only [List.foldl_cons, allocStep, blocks]
    rw [ih]; simp

/-- the fold and the structural recursion list the same blocks -/
theorem allocSeq_blocks (c : BitVec 32) (reqs : List (BitVec 8)) : (allocSeq c reqs).1 = blocks c reqs := by
  simp [allocSeq, allocSeq_fold]

theorem total_cons (n : BitVec 8) (rest : List (BitVec 8)) : total (n :: rest) = n.toNat + total rest := by
  simp [total]

/-- every block of a sequence starts `S` identifiers after the start counter, where `S` is the
    number of identifiers handed out before it -/
theorem mem_blocks : ∀ (reqs : List (BitVec 8)) (c : BitVec 32) (blk : Block), blk ∈ blocks c reqs →
    ∃ S, blk.1.toNat = (c.toNat + S) % 65536 ∧ S + blk.2 ≤ total reqs := by
  intro reqs
  induction reqs with
  | nil => intro c blk h; simp [blocks] at h
  | cons n rest ih =>
    intro c blk h
    simp only [blocks, List.mem_cons] at h
    rcases h with rfl | h
    · exact ⟨0, by simp [packetID_base_toNat], by simp [total_cons]⟩
    · obtain ⟨S, h1, h2⟩ := ih _ _ h
      refine ⟨n.toNat + S, ?_, by rw [total_cons]; omega⟩
      rw [h1, packetID_ctr_toNat]; omega

theorem blocks_pairwise : ∀ (reqs : List (BitVec 8)) (c : BitVec 32), total reqs ≤ 65536 →
    (blocks c reqs).Pairwise Disjoint := by
  intro reqs
  induction reqs with
  | nil => intro c _; simp [blocks]
  | cons n rest ih =>
    intro c htot
    rw [total_cons] at htot
    simp only [blocks, List.pairwise_cons]
    refine ⟨?_, ih _ (by omega)⟩
    intro blk hblk x hx hx'
    obtain ⟨S, h1, h2⟩ := mem_blocks _ _ _ hblk
    simp only [Block.ids] at hx hx'
    obtain ⟨t, ht1, ht2, rfl⟩ := mem_used.mp hx
    obtain ⟨t', ht1', ht2', he⟩ := mem_used.mp hx'
    have := congrArg BitVec.toNat he
    rw [idOf_toNat, idOf_toNat, h1, packetID_base_toNat, packetID_ctr_toNat] at this
    omega

/-! ## Echo identifiers -/

theorem echoSeq_fold (m : Nat) : ∀ (acc : List (BitVec 16)) (c : BitVec 32),
    ((List.replicate m ()).foldl echoStep (acc, c)).1 = acc ++ echoIds c m := by
  induction m with
  | zero => intro acc c; simp [echoIds]
  | succ m ih =>
    intro acc c
    simp only [List.replicate_succ, List.foldl_cons, echoStep, echoIds]
    rw [ih]; simp

theorem echoSeq_ids (c : BitVec 32) (m : Nat) : (echoSeq c m).1 = echoIds c m := by
  simp [echoSeq, echoSeq_fold]

theorem echoID_toNat (c : BitVec 32) : (echoID c).1.toNat = (c.toNat + 1) % 4294967296 % 65536 := by
  simp [echoID, BitVec.toNat_add]

theorem echoID_ctr_toNat (c : BitVec 32) : (echoID c).2.toNat = (c.toNat + 1) % 4294967296 := by
  simp [echoID, BitVec.toNat_add]

theorem mem_echoIds : ∀ (m : Nat) (c : BitVec 32) (x : BitVec 16), x ∈ echoIds c m →
    ∃ k, 1 ≤ k ∧ k ≤ m ∧ x.toNat = (c.toNat + k) % 65536 := by
  intro m
  induction m with
  | zero => intro c x h; simp [echoIds] at h
  | succ m ih =>
    intro c x h
    simp only [echoIds, List.mem_cons] at h
    rcases h with rfl | h
    · exact ⟨1, by omega, by omega, by rw [echoID_toNat]; omega⟩
    · obtain ⟨k, h1, h2, h3⟩ := ih _ _ h
      refine ⟨k + 1, by omega, by omega, ?_⟩
      rw [h3, echoID_ctr_toNat]; omega

theorem echoIds_pairwise : ∀ (m : Nat) (c : BitVec 32), m ≤ 65536 → (echoIds c m).Pairwise (· ≠ ·) := by
  intro m
  induction m with
  | zero => intro c _; simp [echoIds]
  | succ m ih =>
    intro c hm
    simp only [echoIds, List.pairwise_cons]
    refine ⟨?_, ih _ (by omega)⟩
    intro y hy heq
    obtain ⟨k, h1, h2, h3⟩ := mem_echoIds _ _ _ hy
    have := congrArg BitVec.toNat heq
    rw [h3, echoID_toNat, echoID_ctr_toNat] at this
    omega

/-! ## Concurrent callers: the invariant of `concRun` -/

theorem seqRun_snoc (req : Nat → BitVec 8) (c : BitVec 32) (order : List Nat) (t : Nat) :
    seqRun req c (order ++ [t]) = seqStep req (seqRun req c order) t := by
  simp [seqRun, List.foldl_append]

theorem addOrder_snoc_add (s : List Step) (t : Nat) : addOrder (s ++ [.add t]) = addOrder s ++ [t] := by
  induction s with
  | nil => rfl
  | cons e rest ih => cases e <;> simp [addOrder, ih]

theorem addOrder_snoc_ret (s : List Step) (t : Nat) : addOrder (s ++ [.ret t]) = addOrder s := by
  induction s with
  | nil => rfl
  | cons e rest ih => cases e <;> simp [addOrder, ih]

/-- what a goroutine returns after `Add` handed it the new counter value is the block the
    sequential allocator hands out from the old counter value -/
theorem retOf_add (req : Nat → BitVec 8) (c : BitVec 32) (t : Nat) :
    retOf req (t, c + (req t).zeroExtend 32) = (t, ((packetID c (req t)).1, (req t).toNat)) := by
  simp [retOf, packetID]

/-- invariant: counter = sequential counter after the `Add`s so far (in their order); returned +
    pending results = the sequential results, as multisets -/
def ConcInv (req : Nat → BitVec 8) (c : BitVec 32) (sched : List Step) (s : ConcSt) : Prop :=
  s.ctr = (seqRun req c (addOrder sched)).2 ∧
  (s.done ++ s.pend.map (retOf req)).Perm (seqRun req c (addOrder sched)).1

theorem concRun_snoc (req : Nat → BitVec 8) (c : BitVec 32) (sched : List Step) (e : Step) :
    concRun req c (sched ++ [e]) = concStep req (concRun req c sched) e := by
  simp [concRun, List.foldl_append]

theorem concInv_step {req : Nat → BitVec 8} {c : BitVec 32} {sched : List Step} {s : ConcSt}
    (h : ConcInv req c sched s) (e : Step) : ConcInv req c (sched ++ [e]) (concStep req s e) := by
  obtain ⟨hc, hp⟩ := h
  cases e with
  | add t =>
    simp only [ConcInv, concStep, addOrder_snoc_add, seqRun_snoc, seqStep, List.map_cons]
    refine ⟨by rw [← hc]; rfl, ?_⟩
    rw [← hc, retOf_add]
    -- done ++ (new :: pend') ~ seq ++ [new]
    refine (List.perm_middle).trans ?_
    refine List.Perm.trans (List.Perm.cons _ hp) ?_
    exact (List.perm_append_singleton _ _).symm
  | ret t =>
    simp only [ConcInv, concStep, addOrder_snoc_ret]
    cases hf : s.pend.find? (fun e => decide (e.1 = t)) with
    | none => exact ⟨hc, hp⟩
    | some e =>
      simp only
      refine ⟨hc, List.Perm.trans ?_ hp⟩
      have hmem : e ∈ s.pend := List.mem_of_find?_eq_some hf
      have h1 : (s.pend.map (retOf req)).Perm (retOf req e :: (s.pend.erase e).map (retOf req)) :=
        (List.perm_cons_erase hmem).map (retOf req)
      -- (done ++ [r]) ++ rest ~ done ++ (r :: rest) ~ done ++ pend.map
      rw [List.append_assoc]
      exact List.Perm.append_left _ h1.symm

theorem concInv_fold {req : Nat → BitVec 8} {c : BitVec 32} (rest : List Step) :
    ∀ (pre : List Step) (s : ConcSt), ConcInv req c pre s →
      ConcInv req c (pre ++ rest) (rest.foldl (concStep req) s) := by
  induction rest with
  | nil => intro pre s h; simpa using h
  | cons e rest ih =>
    intro pre s h
    have := ih (pre ++ [e]) _ (concInv_step h e)
    simpa using this

theorem concInv_run (req : Nat → BitVec 8) (c : BitVec 32) (sched : List Step) :
    ConcInv req c sched (concRun req c sched) := by
  have := concInv_fold (req := req) (c := c) sched [] { ctr := c, pend := [], done := [] }
    (by simp [ConcInv, addOrder, seqRun])
  simpa [concRun] using this

/-- the sequential results are the blocks of `allocSeq` for the requests in that order -/
theorem seqRun_fold (req : Nat → BitVec 8) (order : List Nat) : ∀ (acc : List (Nat × Block)) (c : BitVec 32),
    ((order.foldl (seqStep req) (acc, c)).1).map (·.2) = acc.map (·.2) ++ blocks c (order.map req) := by
  induction order with
  | nil => intro acc c; simp [blocks]
  | cons t rest ih =>
    intro acc c
    simp only [List.foldl_cons, seqStep, List.map_cons, blocks]
    rw [ih]; simp

theorem seqRun_blocks (req : Nat → BitVec 8) (c : BitVec 32) (order : List Nat) :
    (seqRun req c order).1.map (·.2) = blocks c (order.map req) := by
  simp [seqRun, seqRun_fold]

theorem disjoint_symm {a b : Block} (h : Disjoint a b) : Disjoint b a :=
  fun x hx hx' => h x hx' hx

end TRV.Proofs
