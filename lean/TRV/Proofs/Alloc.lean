import TRV.Spec.Alloc
import TRV.Spec.Genuine
import TRV.Proofs.Sound
import TRV.Proofs.Drivers
import TRV.Proofs.Engine
/-! Helper lemmas for C11, part 1: the identifier allocators (16/32-bit wrap-around arithmetic via
    `toNat` + `omega`), sequences by induction, concurrent schedules by an invariant. -/
namespace TRV.Proofs
open TRV TRV.Alloc TRV.Spec TRV.Drv

/-! ## One call -/

theorem packetID_base (c : BitVec 32) (n : BitVec 8) : (packetID c n).1 = c.truncate 16 := by
  simp only [packetID]
  congr 1
  bv_omega

theorem packetID_ctr (c : BitVec 32) (n : BitVec 8) : (packetID c n).2 = c + n.zeroExtend 32 := rfl

theorem packetID_ctr_toNat (c : BitVec 32) (n : BitVec 8) :
    (packetID c n).2.toNat = (c.toNat + n.toNat) % 4294967296 := by
  have h := n.isLt
  simp [packetID, BitVec.toNat_add]

theorem packetID_base_toNat (c : BitVec 32) (n : BitVec 8) : (packetID c n).1.toNat = c.toNat % 65536 := by
  rw [packetID_base]; simp

theorem idOf_toNat (b : BitVec 16) (t : Nat) : (idOf b t).toNat = (b.toNat + t % 65536) % 65536 := by
  simp [idOf, BitVec.toNat_add]

theorem mem_used {b : BitVec 16} {n : Nat} {x : BitVec 16} :
    x ∈ used b n ↔ ∃ t, 1 ≤ t ∧ t ≤ n ∧ x = idOf b t := by
  simp only [used, List.mem_map, List.mem_range'_1]
  constructor
  · rintro ⟨t, ⟨h1, h2⟩, rfl⟩; exact ⟨t, h1, by omega, rfl⟩
  · rintro ⟨t, h1, h2, rfl⟩; exact ⟨t, ⟨h1, by omega⟩, rfl⟩

/-- two ids at offsets a ≠ b (both ≤ 65536, both ≥ 1 … or any two offsets less than 65536 apart)
    from the same counter value differ -/
theorem ids_differ (c a b : Nat) (ha : a < b) (hb : b < a + 65536) : (c + a) % 65536 ≠ (c + b) % 65536 := by
  omega

/-! ## Sequences -/

theorem allocSeq_fold (reqs : List (BitVec 8)) : ∀ (acc : List Block) (c : BitVec 32),
    (reqs.foldl allocStep (acc, c)).1 = acc ++ blocks c reqs := by
  induction reqs with
  | nil => intro acc c; simp [blocks]
  | cons n rest ih =>
    intro acc c
    simp only [List.foldl_cons, allocStep, blocks]
    rw [ih]; simp

/-- the fold and the structural recursion list the same blocks -/
theorem allocSeq_blocks (c : BitVec 32) (reqs : List (BitVec 8)) : (allocSeq c reqs).1 = blocks c reqs := by
  simp [allocSeq, allocSeq_fold]

theorem allocSeq_ctr_fold (reqs : List (BitVec 8)) : ∀ (acc : List Block) (c : BitVec 32),
    (reqs.foldl allocStep (acc, c)).2 = reqs.foldl (fun c n => (packetID c n).2) c := by
  induction reqs with
  | nil => intro acc c; rfl
  | cons n rest ih => intro acc c; simp only [List.foldl_cons, allocStep]; rw [ih]

/-- the counter after a sequence, without the list of blocks -/
theorem allocSeq_ctr (c : BitVec 32) (reqs : List (BitVec 8)) :
    (allocSeq c reqs).2 = reqs.foldl (fun c n => (packetID c n).2) c := by
  simp [allocSeq, allocSeq_ctr_fold]

theorem total_cons (n : BitVec 8) (rest : List (BitVec 8)) : total (n :: rest) = n.toNat + total rest := by
  simp [total]

/-- every block of a sequence starts `S` identifiers after the start counter, where `S` is the
    number of identifiers handed out before it -/
theorem mem_blocks : ∀ (reqs : List (BitVec 8)) (c : BitVec 32) (blk : Block), blk ∈ blocks c reqs →
    ∃ S, blk.1.toNat = (c.toNat + S) % 65536 ∧ S + blk.2 ≤ total reqs := by
  intro reqs
  induction reqs with
  | nil => intro c blk h; simp [blocks] at h
  | cons n rest ih =>
    intro c blk h
    simp only [blocks, List.mem_cons] at h
    rcases h with rfl | h
    · exact ⟨0, by simp [packetID_base_toNat], by simp [total_cons]⟩
    · obtain ⟨S, h1, h2⟩ := ih _ _ h
      refine ⟨n.toNat + S, ?_, by rw [total_cons]; omega⟩
      rw [h1, packetID_ctr_toNat]; omega

theorem blocks_pairwise : ∀ (reqs : List (BitVec 8)) (c : BitVec 32), total reqs ≤ 65536 →
    (blocks c reqs).Pairwise Disjoint := by
  intro reqs
  induction reqs with
  | nil => intro c _; simp [blocks]
  | cons n rest ih =>
    intro c htot
    rw [total_cons] at htot
    simp only [blocks, List.pairwise_cons]
    refine ⟨?_, ih _ (by omega)⟩
    intro blk hblk x hx hx'
    obtain ⟨S, h1, h2⟩ := mem_blocks _ _ _ hblk
    simp only [Block.ids] at hx hx'
    obtain ⟨t, ht1, ht2, rfl⟩ := mem_used.mp hx
    obtain ⟨t', ht1', ht2', he⟩ := mem_used.mp hx'
    have := congrArg BitVec.toNat he
    rw [idOf_toNat, idOf_toNat, h1, packetID_base_toNat, packetID_ctr_toNat] at this
    omega

/-! ## Echo identifiers -/

theorem echoSeq_fold (m : Nat) : ∀ (acc : List (BitVec 16)) (c : BitVec 32),
    ((List.replicate m ()).foldl echoStep (acc, c)).1 = acc ++ echoIds c m := by
  induction m with
  | zero => intro acc c; simp [echoIds]
  | succ m ih =>
    intro acc c
    simp only [List.replicate_succ, List.foldl_cons, echoStep, echoIds]
    rw [ih]; simp

theorem echoSeq_ids (c : BitVec 32) (m : Nat) : (echoSeq c m).1 = echoIds c m := by
  simp [echoSeq, echoSeq_fold]

theorem echoSeq_ctr_fold (m : Nat) : ∀ (acc : List (BitVec 16)) (c : BitVec 32),
    ((List.replicate m ()).foldl echoStep (acc, c)).2 = c + BitVec.ofNat 32 m := by
  induction m with
  | zero => intro acc c; simp
  | succ m ih =>
    intro acc c
    simp only [List.replicate_succ, List.foldl_cons, echoStep]
    rw [ih]; simp only [echoID]; bv_omega

theorem echoSeq_ctr (c : BitVec 32) (m : Nat) : (echoSeq c m).2 = c + BitVec.ofNat 32 m := by
  simp [echoSeq, echoSeq_ctr_fold]

theorem echoID_toNat (c : BitVec 32) : (echoID c).1.toNat = (c.toNat + 1) % 4294967296 % 65536 := by
  simp [echoID, BitVec.toNat_add]

theorem echoID_ctr_toNat (c : BitVec 32) : (echoID c).2.toNat = (c.toNat + 1) % 4294967296 := by
  simp [echoID, BitVec.toNat_add]

theorem mem_echoIds : ∀ (m : Nat) (c : BitVec 32) (x : BitVec 16), x ∈ echoIds c m →
    ∃ k, 1 ≤ k ∧ k ≤ m ∧ x.toNat = (c.toNat + k) % 65536 := by
  intro m
  induction m with
  | zero => intro c x h; simp [echoIds] at h
  | succ m ih =>
    intro c x h
    simp only [echoIds, List.mem_cons] at h
    rcases h with rfl | h
    · exact ⟨1, by omega, by omega, by rw [echoID_toNat]; omega⟩
    · obtain ⟨k, h1, h2, h3⟩ := ih _ _ h
      refine ⟨k + 1, by omega, by omega, ?_⟩
      rw [h3, echoID_ctr_toNat]; omega

theorem echoIds_pairwise : ∀ (m : Nat) (c : BitVec 32), m ≤ 65536 → (echoIds c m).Pairwise (· ≠ ·) := by
  intro m
  induction m with
  | zero => intro c _; simp [echoIds]
  | succ m ih =>
    intro c hm
    simp only [echoIds, List.pairwise_cons]
    refine ⟨?_, ih _ (by omega)⟩
    intro y hy heq
    obtain ⟨k, h1, h2, h3⟩ := mem_echoIds _ _ _ hy
    have := congrArg BitVec.toNat heq
    rw [h3, echoID_toNat, echoID_ctr_toNat] at this
    omega

/-! ## Concurrent callers: the invariant of `concRun` -/

theorem seqRun_snoc (req : Nat → BitVec 8) (c : BitVec 32) (order : List Nat) (t : Nat) :
    seqRun req c (order ++ [t]) = seqStep req (seqRun req c order) t := by
  simp [seqRun, List.foldl_append]

theorem addOrder_snoc_add (s : List Step) (t : Nat) : addOrder (s ++ [.add t]) = addOrder s ++ [t] := by
  induction s with
  | nil => rfl
  | cons e rest ih => cases e <;> simp [addOrder, ih]

theorem addOrder_snoc_ret (s : List Step) (t : Nat) : addOrder (s ++ [.ret t]) = addOrder s := by
  induction s with
  | nil => rfl
  | cons e rest ih => cases e <;> simp [addOrder, ih]

/-- what a goroutine returns after `Add` handed it the new counter value is the block the
    sequential allocator hands out from the old counter value -/
theorem retOf_add (req : Nat → BitVec 8) (c : BitVec 32) (t : Nat) :
    retOf req (t, c + (req t).zeroExtend 32) = (t, ((packetID c (req t)).1, (req t).toNat)) := by
  simp [retOf, packetID]

/-- invariant: counter = sequential counter after the `Add`s so far (in their order); returned +
    pending results = the sequential results, as multisets -/
def ConcInv (req : Nat → BitVec 8) (c : BitVec 32) (sched : List Step) (s : ConcSt) : Prop :=
  s.ctr = (seqRun req c (addOrder sched)).2 ∧
  (s.done ++ s.pend.map (retOf req)).Perm (seqRun req c (addOrder sched)).1

theorem concRun_snoc (req : Nat → BitVec 8) (c : BitVec 32) (sched : List Step) (e : Step) :
    concRun req c (sched ++ [e]) = concStep req (concRun req c sched) e := by
  simp [concRun, List.foldl_append]

theorem concInv_step {req : Nat → BitVec 8} {c : BitVec 32} {sched : List Step} {s : ConcSt}
    (h : ConcInv req c sched s) (e : Step) : ConcInv req c (sched ++ [e]) (concStep req s e) := by
  obtain ⟨hc, hp⟩ := h
  cases e with
  | add t =>
    simp only [ConcInv, concStep, addOrder_snoc_add, seqRun_snoc, seqStep, List.map_cons]
    refine ⟨by rw [← hc]; rfl, ?_⟩
    rw [← hc, retOf_add]
    -- done ++ (new :: pend') ~ seq ++ [new]
    refine (List.perm_middle).trans ?_
    refine List.Perm.trans (List.Perm.cons _ hp) ?_
    exact (List.perm_append_singleton _ _).symm
  | ret t =>
    simp only [ConcInv, concStep, addOrder_snoc_ret]
    cases hf : s.pend.find? (fun e => decide (e.1 = t)) with
    | none => exact ⟨hc, hp⟩
    | some e =>
      simp only
      refine ⟨hc, List.Perm.trans ?_ hp⟩
      have hmem : e ∈ s.pend := List.mem_of_find?_eq_some hf
      have h1 : (s.pend.map (retOf req)).Perm (retOf req e :: (s.pend.erase e).map (retOf req)) :=
        (List.perm_cons_erase hmem).map (retOf req)
      -- (done ++ [r]) ++ rest ~ done ++ (r :: rest) ~ done ++ pend.map
      rw [List.append_assoc]
      exact List.Perm.append_left _ h1.symm

theorem concInv_fold {req : Nat → BitVec 8} {c : BitVec 32} (rest : List Step) :
    ∀ (pre : List Step) (s : ConcSt), ConcInv req c pre s →
      ConcInv req c (pre ++ rest) (rest.foldl (concStep req) s) := by
  induction rest with
  | nil => intro pre s h; simpa using h
  | cons e rest ih =>
    intro pre s h
    have := ih (pre ++ [e]) _ (concInv_step h e)
    simpa using this

theorem concInv_run (req : Nat → BitVec 8) (c : BitVec 32) (sched : List Step) :
    ConcInv req c sched (concRun req c sched) := by
  have := concInv_fold (req := req) (c := c) sched [] { ctr := c, pend := [], done := [] }
    (by simp [ConcInv, addOrder, seqRun])
  simpa [concRun] using this

/-- the sequential results are the blocks of `allocSeq` for the requests in that order -/
theorem seqRun_fold (req : Nat → BitVec 8) (order : List Nat) : ∀ (acc : List (Nat × Block)) (c : BitVec 32),
    ((order.foldl (seqStep req) (acc, c)).1).map (·.2) = acc.map (·.2) ++ blocks c (order.map req) := by
  induction order with
  | nil => intro acc c; simp [blocks]
  | cons t rest ih =>
    intro acc c
    simp only [List.foldl_cons, seqStep, List.map_cons, blocks]
    rw [ih]; simp

theorem seqRun_blocks (req : Nat → BitVec 8) (c : BitVec 32) (order : List Nat) :
    (seqRun req c order).1.map (·.2) = blocks c (order.map req) := by
  simp [seqRun, seqRun_fold]

theorem disjoint_symm {a b : Block} (h : Disjoint a b) : Disjoint b a :=
  fun x hx hx' => h x hx' hx


/-! # Part 2: isolation on the raw-offset genuineness predicates

Inversion lemmas (`*_inv`) extract from `genuineX … = true` the raw reads and the identifying
equalities; two runs reading the same bytes then agree on every identifying field, which contradicts
`FlowsDistinct…`. -/

theorem quote4_type {p : Bytes} {l4 : Nat} {q : Quote4} (h : quote4 p l4 = some q) :
    u8 p l4 = some q.icmpType := by
  unfold quote4 at h
  split at h
  · rename_i ty co c0 id pr s d h1 _ _ _ _ _ _
    simp only [Option.some.injEq] at h
    subst h; exact h1
  · simp at h

theorem icmp4TE_inv {c : IcmpCfg} {s : List Sent} {t : Nat} {a p : Bytes}
    (h : genuineIcmp4TE c s t a p = true) :
    ∃ v q, view4 p = some v ∧ quote4 p v.l4 = some q ∧ q.icmpType = 11 ∧ q.qDst = c.target ∧
      u16 p (q.qL4 + 4) = some c.echoId := by
  unfold genuineIcmp4TE at h
  split at h; · simp at h
  rename_i v hv
  split at h; · simp at h
  rename_i q hq
  split at h
  · rename_i ety eid eseq h1 h2 h3
    simp only [Bool.and_eq_true, decide_eq_true_eq, Bool.or_eq_true] at h
    obtain ⟨⟨⟨⟨⟨⟨⟨⟨⟨⟨⟨⟨_, _⟩, _⟩, h11⟩, _⟩, hqd⟩, _⟩, _⟩, hid⟩, _⟩, _⟩, _⟩, _⟩ := h
    exact ⟨v, q, hv, hq, h11, hqd, by rw [h2, hid]⟩
  · simp at h

theorem icmp4Echo_inv {c : IcmpCfg} {s : List Sent} {t : Nat} {a p : Bytes}
    (h : genuineIcmp4Echo c s t a p = true) :
    ∃ v, view4 p = some v ∧ u8 p v.l4 = some 0 ∧ u16 p (v.l4 + 4) = some c.echoId ∧ v.outerSrc = c.target := by
  unfold genuineIcmp4Echo at h
  split at h; · simp at h
  rename_i v hv
  split at h
  · rename_i ty id seq h1 h2 h3
    simp only [Bool.and_eq_true, decide_eq_true_eq] at h
    obtain ⟨⟨⟨⟨⟨⟨⟨⟨⟨hs, ha⟩, _⟩, _⟩, hty⟩, hid⟩, _⟩, _⟩, _⟩, _⟩ := h
    exact ⟨v, hv, by rw [h1, hty], by rw [h2, hid], by rw [hs, ha]⟩
  · simp at h

theorem isolation_icmp4 {A B : IcmpCfg} {sA sB : List Sent} {t t' : Nat} {a a' : Bytes} {d d' : Bool} {p : Bytes}
    (hd : FlowsDistinctIcmp A B) (hA : genuineIcmp4 A sA t a d p = true) :
    genuineIcmp4 B sB t' a' d' p = false := by
  cases hB : genuineIcmp4 B sB t' a' d' p with
  | false => rfl
  | true =>
    exfalso
    unfold genuineIcmp4 at hA hB
    cases d <;> cases d' <;> simp only [Bool.false_eq_true, if_false, if_true] at hA hB
    · obtain ⟨v, q, hv, hq, _, hqd, hid⟩ := icmp4TE_inv hA
      obtain ⟨v', q', hv', hq', _, hqd', hid'⟩ := icmp4TE_inv hB
      rw [hv] at hv'; cases hv'
      rw [hq] at hq'; cases hq'
      rw [hid] at hid'
      rcases hd with hd | hd
      · exact hd (by simpa using hid')
      · exact hd (hqd.symm.trans hqd')
    · obtain ⟨v, q, hv, hq, h11, _, _⟩ := icmp4TE_inv hA
      obtain ⟨v', hv', h0, _, _⟩ := icmp4Echo_inv hB
      rw [hv] at hv'; cases hv'
      rw [quote4_type hq, h11] at h0; simp at h0
    · obtain ⟨v, q, hv, hq, h11, _, _⟩ := icmp4TE_inv hB
      obtain ⟨v', hv', h0, _, _⟩ := icmp4Echo_inv hA
      rw [hv] at hv'; cases hv'
      rw [quote4_type hq, h11] at h0; simp at h0
    · obtain ⟨v, hv, _, hid, hs⟩ := icmp4Echo_inv hA
      obtain ⟨v', hv', _, hid', hs'⟩ := icmp4Echo_inv hB
      rw [hv] at hv'; cases hv'
      rw [hid] at hid'
      rcases hd with hd | hd
      · exact hd (by simpa using hid')
      · exact hd (hs.symm.trans hs')

theorem udp4_inv {c : UdpCfg} {s : List Sent} {t : Nat} {a : Bytes} {d : Bool} {p : Bytes}
    (h : genuineUdp4 c s t a d p = true) :
    ∃ v q sp dp, view4 p = some v ∧ quote4 p v.l4 = some q ∧ portsAt p q.qL4 = some (sp, dp) ∧
      q.qDst = c.target ∧ dp = c.tport ∧ (c.loosen = true ∨ (q.qSrc = c.localA ∧ sp = c.lport)) ∧
      (∃ x ∈ s, x.ttl = t ∧ x.id = q.qId) ∧ q.qProto = 17 := by
  unfold genuineUdp4 at h
  split at h; · simp at h
  rename_i v hv
  split at h; · simp at h
  rename_i q hq
  split at h; · simp at h
  rename_i sp dp hp
  simp only [Bool.and_eq_true, decide_eq_true_eq, Bool.or_eq_true, List.any_eq_true, and_assoc] at h
  obtain ⟨_, _, _, _, hqp, hqd, hdp, hl, hx, _⟩ := h
  exact ⟨v, q, sp, dp, hv, hq, hp, hqd, hdp, hl, hx, hqp⟩

theorem tcpQuoted_inv {c : TcpCfg} {s : List Sent} {t : Nat} {a p : Bytes}
    (h : genuineTcpQuoted c s t a p = true) :
    ∃ v q sp dp sq, view4 p = some v ∧ quote4 p v.l4 = some q ∧ portsAt p q.qL4 = some (sp, dp) ∧
      u32 p (q.qL4 + 4) = some sq ∧ v.outerProto = 1 ∧
      q.qDst = c.target ∧ dp = c.tport ∧ (c.loosen = true ∨ (q.qSrc = c.localA ∧ sp = c.lport)) ∧
      (∃ x ∈ s, x.ttl = t ∧ x.id = q.qId ∧ x.seq = sq) ∧ q.qProto = 6 := by
  unfold genuineTcpQuoted at h
  split at h; · simp at h
  rename_i v hv
  split at h; · simp at h
  rename_i q hq
  split at h
  · rename_i sp dp sq hp hs
    simp only [Bool.and_eq_true, decide_eq_true_eq, Bool.or_eq_true, List.any_eq_true, and_assoc] at h
    obtain ⟨_, hpr, _, _, _, hqp, hqd, hdp, hl, hx⟩ := h
    exact ⟨v, q, sp, dp, sq, hv, hq, hp, hs, hpr, hqd, hdp, hl, hx, hqp⟩
  · simp at h

theorem tcpDirect_inv {c : TcpCfg} {s : List Sent} {t : Nat} {a p : Bytes}
    (h : genuineTcpDirect c s t a p = true) :
    ∃ v sp dp, view4 p = some v ∧ portsAt p v.l4 = some (sp, dp) ∧ v.outerProto = 6 ∧
      v.outerSrc = c.target ∧ v.outerDst = c.localA ∧ sp = c.tport ∧ dp = c.lport := by
  unfold genuineTcpDirect at h
  split at h; · simp at h
  rename_i v hv
  split at h
  · rename_i sp dp ack fl last hp _ _ _
    simp only [Bool.and_eq_true, decide_eq_true_eq, Bool.or_eq_true, and_assoc] at h
    obtain ⟨hs, ha, hdst, hpr, _, hsp, hdp, _⟩ := h
    exact ⟨v, sp, dp, hv, hp, hpr, by rw [hs, ha], hdst, hsp, hdp⟩
  · simp at h

theorem sackQuoted_inv {c : SackCfg} {s : List Sent} {t : Nat} {a : Bytes} {d : Bool} {p : Bytes}
    (h : genuineSackQuoted c s t a d p = true) :
    ∃ v q sp dp sq, view4 p = some v ∧ quote4 p v.l4 = some q ∧ portsAt p q.qL4 = some (sp, dp) ∧
      u32 p (q.qL4 + 4) = some sq ∧ v.outerProto = 1 ∧
      q.qDst = c.target ∧ dp = c.tport ∧ (c.loosen = true ∨ (q.qSrc = c.localA ∧ sp = c.lport)) ∧
      (sq + 4294967296 - c.isn % 4294967296) % 4294967296 = t ∧ c.min ≤ t ∧ t ≤ c.max ∧ q.qProto = 6 := by
  unfold genuineSackQuoted at h
  split at h; · simp at h
  rename_i v hv
  split at h; · simp at h
  rename_i q hq
  split at h
  · rename_i sp dp sq hp hs
    simp only [Bool.and_eq_true, decide_eq_true_eq, Bool.or_eq_true, and_assoc] at h
    obtain ⟨_, hpr, _, _, _, hqp, hqd, hdp, hl, hrel, _, hmin, hmax, _⟩ := h
    exact ⟨v, q, sp, dp, sq, hv, hq, hp, hs, hpr, hqd, hdp, hl, hrel, hmin, hmax, hqp⟩
  · simp at h

theorem sackDirect_inv {c : SackCfg} {s : List Sent} {t : Nat} {a p : Bytes}
    (h : genuineSackDirect c s t a p = true) :
    ∃ v sp dp, view4 p = some v ∧ portsAt p v.l4 = some (sp, dp) ∧ v.outerProto = 6 ∧
      v.outerSrc = c.target ∧ v.outerDst = c.localA ∧ sp = c.tport ∧ dp = c.lport := by
  unfold genuineSackDirect at h
  split at h; · simp at h
  rename_i v hv
  split at h
  · rename_i sp dp b12 fl hp _ _
    simp only at h
    split at h; · simp at h
    split at h; · simp at h
    simp only [Bool.and_eq_true, decide_eq_true_eq, and_assoc] at h
    obtain ⟨hs, ha, hdst, hpr, _, hsp, hdp, _⟩ := h
    exact ⟨v, sp, dp, hv, hp, hpr, by rw [hs, ha], hdst, hsp, hdp⟩
  · simp at h


theorem seqWindowsDisjointB_iff (a b : SackCfg) : seqWindowsDisjointB a b = true ↔ SeqWindowsDisjoint a b := by
  simp only [seqWindowsDisjointB, SeqWindowsDisjoint, List.all_eq_true, List.mem_range'_1, decide_eq_true_eq]
  constructor
  · intro h t t' h1 h2 h3 h4
    exact h t ⟨h1, by omega⟩ t' ⟨h3, by omega⟩
  · intro h t ht t' ht'
    exact h t t' ht.1 (by omega) ht'.1 (by omega)

theorem flowsDistinctSackB_iff (a b : SackCfg) : flowsDistinctSackB a b = true ↔ FlowsDistinctSack a b := by
  simp only [flowsDistinctSackB, FlowsDistinctSack, Bool.or_eq_true, Bool.and_eq_true, decide_eq_true_eq,
    beq_iff_eq, seqWindowsDisjointB_iff]

theorem some_pair_inj {α β : Type} {a a' : α} {b b' : β} (h : some (a, b) = some (a', b')) : a = a' ∧ b = b' := by
  cases h; exact ⟨rfl, rfl⟩

theorem strict_of_not_loosen {l : Bool} {P : Prop} (hl : l = false) (h : l = true ∨ P) : P := by
  rcases h with h | h
  · rw [hl] at h; cases h
  · exact h

theorem isolation_udp4 {A B : UdpCfg} {sA sB : List Sent} {t t' : Nat} {a a' : Bytes} {d d' : Bool} {p : Bytes}
    (hd : FlowsDistinctUdp A B) (hA : genuineUdp4 A sA t a d p = true) :
    genuineUdp4 B sB t' a' d' p = false := by
  cases hB : genuineUdp4 B sB t' a' d' p with
  | false => rfl
  | true =>
    exfalso
    obtain ⟨v, q, sp, dp, hv, hq, hp, hqd, hdp, hl, _⟩ := udp4_inv hA
    obtain ⟨v', q', sp', dp', hv', hq', hp', hqd', hdp', hl', _⟩ := udp4_inv hB
    rw [hv] at hv'; cases hv'
    rw [hq] at hq'; cases hq'
    rw [hp] at hp'
    obtain ⟨rfl, rfl⟩ := some_pair_inj hp'
    rcases hd with (hd | hd) | ⟨la, lb, hd | hd⟩
    · exact hd (hqd.symm.trans hqd')
    · exact hd (hdp.symm.trans hdp')
    · exact hd ((strict_of_not_loosen la hl).1.symm.trans (strict_of_not_loosen lb hl').1)
    · exact hd ((strict_of_not_loosen la hl).2.symm.trans (strict_of_not_loosen lb hl').2)

theorem isolation_tcp {A B : TcpCfg} {sA sB : List Sent} {t t' : Nat} {a a' : Bytes} {d d' : Bool} {p : Bytes}
    (hd : FlowsDistinctTcp A B sA sB) (hA : genuineTcp A sA t a d p = true) :
    genuineTcp B sB t' a' d' p = false := by
  cases hB : genuineTcp B sB t' a' d' p with
  | false => rfl
  | true =>
    exfalso
    unfold genuineTcp at hA hB
    cases d <;> cases d' <;> simp only [Bool.false_eq_true, if_false, if_true] at hA hB
    · -- both quoted
      obtain ⟨v, q, sp, dp, sq, hv, hq, hp, hs, _, hqd, hdp, hl, ⟨x, hx, _, hxi, hxs⟩, _⟩ := tcpQuoted_inv hA
      obtain ⟨v', q', sp', dp', sq', hv', hq', hp', hs', _, hqd', hdp', hl', ⟨y, hy, _, hyi, hys⟩, _⟩ := tcpQuoted_inv hB
      rw [hv] at hv'; cases hv'
      rw [hq] at hq'; cases hq'
      rw [hp] at hp'
      obtain ⟨rfl, rfl⟩ := some_pair_inj hp'
      rw [hs] at hs'; cases hs'
      rcases hd with (hd | hd) | ⟨hld, ⟨la, lb⟩ | hids⟩
      · exact hd (hqd.symm.trans hqd')
      · exact hd (hdp.symm.trans hdp')
      · rcases hld with hd | hd
        · exact hd ((strict_of_not_loosen la hl).1.symm.trans (strict_of_not_loosen lb hl').1)
        · exact hd ((strict_of_not_loosen la hl).2.symm.trans (strict_of_not_loosen lb hl').2)
      · exact hids x hx y hy ⟨hxi.trans hyi.symm, hxs.trans hys.symm⟩
    · -- quoted (ICMP, protocol 1) vs direct (TCP, protocol 6)
      obtain ⟨v, q, sp, dp, sq, hv, _, _, _, h1, _⟩ := tcpQuoted_inv hA
      obtain ⟨v', sp', dp', hv', _, h6, _⟩ := tcpDirect_inv hB
      rw [hv] at hv'; cases hv'
      rw [h1] at h6; cases h6
    · obtain ⟨v, q, sp, dp, sq, hv, _, _, _, h1, _⟩ := tcpQuoted_inv hB
      obtain ⟨v', sp', dp', hv', _, h6, _⟩ := tcpDirect_inv hA
      rw [hv] at hv'; cases hv'
      rw [h1] at h6; cases h6
    · -- both direct
      obtain ⟨v, sp, dp, hv, hp, _, hsrc, hdst, hsp, hdp⟩ := tcpDirect_inv hA
      obtain ⟨v', sp', dp', hv', hp', _, hsrc', hdst', hsp', hdp'⟩ := tcpDirect_inv hB
      rw [hv] at hv'; cases hv'
      rw [hp] at hp'
      obtain ⟨rfl, rfl⟩ := some_pair_inj hp'
      rcases hd with (hd | hd) | ⟨hd | hd, _⟩
      · exact hd (hsrc.symm.trans hsrc')
      · exact hd (hsp.symm.trans hsp')
      · exact hd (hdst.symm.trans hdst')
      · exact hd (hdp.symm.trans hdp')

theorem isolation_sack {A B : SackCfg} {sA sB : List Sent} {t t' : Nat} {a a' : Bytes} {d d' : Bool} {p : Bytes}
    (hd : FlowsDistinctSack A B) (hA : genuineSack A sA t a d p = true) :
    genuineSack B sB t' a' d' p = false := by
  cases hB : genuineSack B sB t' a' d' p with
  | false => rfl
  | true =>
    exfalso
    unfold genuineSack at hA hB
    simp only [Bool.or_eq_true, Bool.and_eq_true] at hA hB
    rcases hA with hA | ⟨_, hA⟩ <;> rcases hB with hB | ⟨_, hB⟩
    · obtain ⟨v, q, sp, dp, sq, hv, hq, hp, hs, _, hqd, hdp, hl, hrel, hmin, hmax, _⟩ := sackQuoted_inv hA
      obtain ⟨v', q', sp', dp', sq', hv', hq', hp', hs', _, hqd', hdp', hl', hrel', hmin', hmax', _⟩ := sackQuoted_inv hB
      rw [hv] at hv'; cases hv'
      rw [hq] at hq'; cases hq'
      rw [hp] at hp'
      obtain ⟨rfl, rfl⟩ := some_pair_inj hp'
      rw [hs] at hs'; cases hs'
      rcases hd with (hd | hd) | ⟨hld, ⟨la, lb⟩ | hw⟩
      · exact hd (hqd.symm.trans hqd')
      · exact hd (hdp.symm.trans hdp')
      · rcases hld with hd | hd
        · exact hd ((strict_of_not_loosen la hl).1.symm.trans (strict_of_not_loosen lb hl').1)
        · exact hd ((strict_of_not_loosen la hl).2.symm.trans (strict_of_not_loosen lb hl').2)
      · have hlt := u32_lt hs
        refine hw t t' hmin hmax hmin' hmax' ?_
        omega
    · obtain ⟨v, q, sp, dp, sq, hv, _, _, _, h1, _⟩ := sackQuoted_inv hA
      obtain ⟨v', sp', dp', hv', _, h6, _⟩ := sackDirect_inv hB
      rw [hv] at hv'; cases hv'
      rw [h1] at h6; cases h6
    · obtain ⟨v, q, sp, dp, sq, hv, _, _, _, h1, _⟩ := sackQuoted_inv hB
      obtain ⟨v', sp', dp', hv', _, h6, _⟩ := sackDirect_inv hA
      rw [hv] at hv'; cases hv'
      rw [h1] at h6; cases h6
    · obtain ⟨v, sp, dp, hv, hp, _, hsrc, hdst, hsp, hdp⟩ := sackDirect_inv hA
      obtain ⟨v', sp', dp', hv', hp', _, hsrc', hdst', hsp', hdp'⟩ := sackDirect_inv hB
      rw [hv] at hv'; cases hv'
      rw [hp] at hp'
      obtain ⟨rfl, rfl⟩ := some_pair_inj hp'
      rcases hd with (hd | hd) | ⟨hd | hd, _⟩
      · exact hd (hsrc.symm.trans hsrc')
      · exact hd (hsp.symm.trans hsp')
      · exact hd (hdst.symm.trans hdst')
      · exact hd (hdp.symm.trans hdp')

/-- cross-protocol: a packet genuine for a TCP-SYN run is not genuine for a UDP run — whatever the
    addresses, ports and identifiers of the two runs are: the quoted protocol field is part of the
    flow (6 for the one, 17 for the other).  Before the fix for F11 this needed the hypothesis
    `FlowsDistinctUdpTcp` (no numerically equal flow with aligned IP ids). -/
theorem isolation_udp4_tcp {U : UdpCfg} {C : TcpCfg} {sU sC : List Sent} {t t' : Nat} {a a' : Bytes} {d d' : Bool} {p : Bytes}
    (hC : genuineTcp C sC t a d p = true) :
    genuineUdp4 U sU t' a' d' p = false := by
  cases hU : genuineUdp4 U sU t' a' d' p with
  | false => rfl
  | true =>
    exfalso
    obtain ⟨v', q', sp', dp', hv', hq', hp', _, _, _, _, h17⟩ := udp4_inv hU
    unfold genuineTcp at hC
    cases d <;> simp only [Bool.false_eq_true, if_false, if_true] at hC
    · obtain ⟨v, q, sp, dp, sq, hv, hq, _, _, _, _, _, _, _, h6⟩ := tcpQuoted_inv hC
      rw [hv] at hv'; cases hv'
      rw [hq] at hq'; cases hq'
      omega
    · -- a direct TCP reply has outer protocol 6, a UDP-genuine packet is ICMP
      obtain ⟨v, sp, dp, hv, _, h6, _⟩ := tcpDirect_inv hC
      rw [hv] at hv'; cases hv'
      unfold genuineUdp4 at hU
      simp only [hv, hq', hp'] at hU
      simp only [Bool.and_eq_true, decide_eq_true_eq, and_assoc] at hU
      rw [h6] at hU
      exact absurd hU.2.1 (by decide)

/-- cross-protocol: a packet genuine for a SACK run is not genuine for a UDP run -/
theorem isolation_udp4_sack {U : UdpCfg} {C : SackCfg} {sU sC : List Sent} {t t' : Nat} {a a' : Bytes} {d d' : Bool} {p : Bytes}
    (hC : genuineSack C sC t a d p = true) :
    genuineUdp4 U sU t' a' d' p = false := by
  cases hU : genuineUdp4 U sU t' a' d' p with
  | false => rfl
  | true =>
    exfalso
    obtain ⟨v', q', sp', dp', hv', hq', hp', _, _, _, _, h17⟩ := udp4_inv hU
    unfold genuineSack at hC
    simp only [Bool.or_eq_true, Bool.and_eq_true] at hC
    rcases hC with hC | ⟨_, hC⟩
    · obtain ⟨v, q, sp, dp, sq, hv, hq, _, _, _, _, _, _, _, _, _, h6⟩ := sackQuoted_inv hC
      rw [hv] at hv'; cases hv'
      rw [hq] at hq'; cases hq'
      omega
    · obtain ⟨v, sp, dp, hv, _, h6, _⟩ := sackDirect_inv hC
      rw [hv] at hv'; cases hv'
      unfold genuineUdp4 at hU
      simp only [hv, hq', hp'] at hU
      simp only [Bool.and_eq_true, decide_eq_true_eq, and_assoc] at hU
      rw [h6] at hU
      exact absurd hU.2.1 (by decide)


/-! # Part 3: from genuineness to the matchers (via `*_sound`) and to the engines -/
section Part3
open TRV.Wire TRV.Engine

theorem ne_nil_of_u8 {b : Bytes} {v : Nat} (h : u8 b 0 = some v) : b ≠ [] := by
  intro hb; subst hb; simp [u8] at h

theorem ne_nil_of_take {b : Bytes} {n : Nat} (h : b.take n ≠ []) : b ≠ [] := by
  intro hb; subst hb; simp at h

/-! ### a packet accepted by one run is not accepted by a concurrent run -/

theorem not_both_icmp4 {sA sB : IcmpSt} {pkt : Bytes} {t : Nat} {a : Bytes} {d : Bool} {tm : Nat}
    (hd : FlowsDistinctIcmp sA.cfg sB.cfg) (hv4 : ∃ b0, u8 pkt 0 = some b0 ∧ b0 / 16 = 4)
    (hA : icmpRecv sA pkt = .accept t a d tm) (t' : Nat) (a' : Bytes) (d' : Bool) (tm' : Nat) :
    icmpRecv sB pkt ≠ .accept t' a' d' tm' := by
  intro hB
  have gA := (icmp4_sound hA hv4).1
  have gB := (icmp4_sound hB hv4).1
  rw [isolation_icmp4 hd gA] at gB; cases gB

theorem not_both_udp4 {sA sB : UdpSt} {pkt : Bytes} {t : Nat} {a : Bytes} {d : Bool} {tm : Nat}
    (hd : FlowsDistinctUdp sA.cfg sB.cfg) (hiA : UdpInv sA) (hiB : UdpInv sB)
    (h4A : sA.cfg.target.length = 4) (h4B : sB.cfg.target.length = 4)
    (hv4 : ∃ b0, u8 (pkt.take bufSize) 0 = some b0 ∧ b0 / 16 = 4)
    (hA : udpRecv sA pkt = .accept t a d tm) (t' : Nat) (a' : Bytes) (d' : Bool) (tm' : Nat) :
    udpRecv sB pkt ≠ .accept t' a' d' tm' := by
  intro hB
  have gA := (udp4_sound hiA h4A hA hv4).1
  have gB := (udp4_sound hiB h4B hB hv4).1
  rw [isolation_udp4 hd gA] at gB; cases gB

theorem not_both_tcp {sA sB : TcpSt} {pkt : Bytes} {t : Nat} {a : Bytes} {d : Bool} {tm : Nat}
    (hd : FlowsDistinctTcp sA.cfg sB.cfg sA.sent sB.sent)
    (hv4 : ∃ b0, u8 (pkt.take bufSize) 0 = some b0 ∧ b0 / 16 = 4)
    (hA : tcpRecv sA pkt = .accept t a d tm) (t' : Nat) (a' : Bytes) (d' : Bool) (tm' : Nat) :
    tcpRecv sB pkt ≠ .accept t' a' d' tm' := by
  intro hB
  have gA := (tcp_sound hA hv4).1
  have gB := (tcp_sound hB hv4).1
  rw [isolation_tcp hd gA] at gB; cases gB

theorem not_both_sack {sA sB : SackSt} {pkt : Bytes} {t : Nat} {a : Bytes} {d : Bool} {tm : Nat}
    (hd : FlowsDistinctSack sA.cfg sB.cfg)
    (hv4 : ∃ b0, u8 (pkt.take bufSize) 0 = some b0 ∧ b0 / 16 = 4)
    (hA : sackRecv sA pkt = .accept t a d tm) (t' : Nat) (a' : Bytes) (d' : Bool) (tm' : Nat) :
    sackRecv sB pkt ≠ .accept t' a' d' tm' := by
  intro hB
  have gA := (sack_sound hA hv4).1
  have gB := (sack_sound hB hv4).1
  rw [isolation_sack hd gA] at gB; cases gB

theorem not_both_udp4_tcp {sU : UdpSt} {sC : TcpSt} {pkt : Bytes} {t : Nat} {a : Bytes} {d : Bool} {tm : Nat}
    (hiU : UdpInv sU) (h4U : sU.cfg.target.length = 4)
    (hv4 : ∃ b0, u8 (pkt.take bufSize) 0 = some b0 ∧ b0 / 16 = 4)
    (hC : tcpRecv sC pkt = .accept t a d tm) (t' : Nat) (a' : Bytes) (d' : Bool) (tm' : Nat) :
    udpRecv sU pkt ≠ .accept t' a' d' tm' := by
  intro hU
  have gC := (tcp_sound hC hv4).1
  have gU := (udp4_sound hiU h4U hU hv4).1
  rw [isolation_udp4_tcp gC] at gU; cases gU

/-! ### … it is classified `retry` there (not fatal, not NotSupported) -/

theorem foreign_retry_icmp4 {sA sB : IcmpSt} {pkt : Bytes} {t : Nat} {a : Bytes} {d : Bool} {tm : Nat}
    (hd : FlowsDistinctIcmp sA.cfg sB.cfg) (hv4 : ∃ b0, u8 pkt 0 = some b0 ∧ b0 / 16 = 4)
    (hB : icmpRecv sB pkt = .accept t a d tm) : icmpRecv sA pkt = .retry := by
  obtain ⟨b0, hb0, _⟩ := hv4
  have hne := ne_nil_of_u8 hb0
  have hc := icmpRecv_class sA pkt hne
  cases hA : icmpRecv sA pkt with
  | retry => rfl
  | fatal => exact absurd hA hc.1
  | notSupported => exact absurd hA hc.2
  | accept t' a' d' tm' => exact absurd hB (not_both_icmp4 hd ⟨b0, hb0, ‹_›⟩ hA t a d tm)


theorem foreign_retry_udp4 {sA sB : UdpSt} {pkt : Bytes} {t : Nat} {a : Bytes} {d : Bool} {tm : Nat}
    (hd : FlowsDistinctUdp sA.cfg sB.cfg) (hiA : UdpInv sA) (hiB : UdpInv sB)
    (h4A : sA.cfg.target.length = 4) (h4B : sB.cfg.target.length = 4)
    (hv4 : ∃ b0, u8 (pkt.take bufSize) 0 = some b0 ∧ b0 / 16 = 4)
    (hB : udpRecv sB pkt = .accept t a d tm) : udpRecv sA pkt = .retry := by
  have hne : pkt ≠ [] := by
    obtain ⟨b0, hb0, _⟩ := hv4
    exact ne_nil_of_take (ne_nil_of_u8 hb0)
  have hc := udpRecv_class sA pkt hne
  cases hA : udpRecv sA pkt with
  | retry => rfl
  | fatal => exact absurd hA hc.1
  | notSupported => exact absurd hA hc.2
  | accept t' a' d' tm' => exact absurd hB (not_both_udp4 hd hiA hiB h4A h4B hv4 hA t a d tm)

/-- TCP SYN: once run A has sent a probe (the serial engine always sends before it receives) -/
theorem foreign_retry_tcp {sA sB : TcpSt} {pkt : Bytes} {t : Nat} {a : Bytes} {d : Bool} {tm : Nat}
    (hd : FlowsDistinctTcp sA.cfg sB.cfg sA.sent sB.sent) (hsent : sA.sent ≠ [])
    (hv4 : ∃ b0, u8 (pkt.take bufSize) 0 = some b0 ∧ b0 / 16 = 4)
    (hB : tcpRecv sB pkt = .accept t a d tm) : tcpRecv sA pkt = .retry := by
  have hne : pkt ≠ [] := by
    obtain ⟨b0, hb0, _⟩ := hv4
    exact ne_nil_of_take (ne_nil_of_u8 hb0)
  have hc := tcpRecv_class sA pkt hne
  cases hA : tcpRecv sA pkt with
  | retry => rfl
  | fatal => exact absurd hA (hc.2 hsent)
  | notSupported => exact absurd hA hc.1
  | accept t' a' d' tm' => exact absurd hB (not_both_tcp hd hv4 hA t a d tm)

/-- a SACK run that accepts a TCP segment has matched the segment's addresses and ports -/
theorem sack_accept_tuple {s : SackSt} {pkt : Bytes} {l3 : L3} {tt : TCP} {t : Nat} {a : Bytes} {d : Bool} {tm : Nat}
    (hp : parse (pkt.take bufSize) = some (l3, .tcp tt)) (h : sackRecv s pkt = .accept t a d tm) :
    l3.src = s.cfg.target ∧ l3.dst = s.cfg.localA ∧ s.cfg.tport = tt.sport ∧ s.cfg.lport = tt.dport := by
  unfold sackRecv at h
  split at h; · simp at h
  simp only [hp] at h
  split at h; · simp at h
  rename_i h1
  split at h; · simp at h
  rename_i h2
  simp only [not_or, Classical.not_not] at h1 h2
  exact ⟨h1.1, h1.2, h2.1, h2.2⟩

theorem foreign_retry_sack {sA sB : SackSt} {pkt : Bytes} {t : Nat} {a : Bytes} {d : Bool} {tm : Nat}
    (hd : FlowsDistinctSack sA.cfg sB.cfg)
    (hv4 : ∃ b0, u8 (pkt.take bufSize) 0 = some b0 ∧ b0 / 16 = 4)
    (hB : sackRecv sB pkt = .accept t a d tm) : sackRecv sA pkt = .retry := by
  have hne : pkt ≠ [] := by
    obtain ⟨b0, hb0, _⟩ := hv4
    exact ne_nil_of_take (ne_nil_of_u8 hb0)
  cases hA : sackRecv sA pkt with
  | retry => rfl
  | fatal => exact absurd hA (sackRecv_class sA pkt hne)
  | notSupported =>
    exfalso
    obtain ⟨l3, tt, hp, h1, h2, h3, h4, _⟩ := (sackRecv_notSupported_iff sA pkt hne).mp hA
    obtain ⟨g1, g2, g3, g4⟩ := sack_accept_tuple hp hB
    rcases hd with (hd | hd) | ⟨hd | hd, _⟩
    · exact hd (h1.symm.trans g1)
    · exact hd (h3.symm.trans g3.symm)
    · exact hd (h2.symm.trans g2)
    · exact hd (h4.symm.trans g4.symm)
  | accept t' a' d' tm' => exact absurd hB (not_both_sack hd hv4 hA t a d tm)

/-! ### engine: `retry` entries do not influence the result -/

theorem recvLoop_dropRetry (min max : Nat) : ∀ (outs : List ROut) (s : Slots),
    recvLoop min max s (dropRetry outs) = recvLoop min max s outs := by
  intro outs
  induction outs with
  | nil => intro s; rfl
  | cons o rest ih =>
    intro s
    cases o with
    | retry => simp only [dropRetry, recvLoop]; exact ih s
    | fatal => simp [dropRetry, recvLoop]
    | nilProbe => simp [dropRetry, recvLoop]
    | accept p =>
      simp only [dropRetry, recvLoop]
      split
      · exact ih _
      · rfl

theorem parallelRun_dropRetry (min max : Nat) (sp : Bool) (outs : List ROut) (se ec : Bool) :
    parallelRun min max sp (dropRetry outs) se ec = parallelRun min max sp outs se ec := by
  unfold parallelRun
  rw [recvLoop_dropRetry]

theorem serialWindow_dropRetry (min max : Nat) : ∀ (w : List ROut),
    serialWindow min max (dropRetry w) = serialWindow min max w := by
  intro w
  induction w with
  | nil => rfl
  | cons o rest ih =>
    cases o with
    | retry => simp only [dropRetry, serialWindow]; exact ih
    | fatal => simp [dropRetry, serialWindow]
    | nilProbe => simp [dropRetry, serialWindow]
    | accept p => simp [dropRetry, serialWindow]

theorem serialLoop_dropRetry (min max : Nat) : ∀ (ws : List (List ROut)) (s : Slots),
    serialLoop min max s (ws.map dropRetry) = serialLoop min max s ws := by
  intro ws
  induction ws with
  | nil => intro s; rfl
  | cons w rest ih =>
    intro s
    simp only [List.map_cons, serialLoop, serialWindow_dropRetry]
    split
    · rfl
    · exact ih s
    · split
      · rfl
      · exact ih _

theorem accepted_dropRetry : ∀ (outs : List ROut), accepted (dropRetry outs) = accepted outs := by
  intro outs
  induction outs with
  | nil => rfl
  | cons o rest ih => cases o <;> simp [dropRetry, accepted, ih]


end Part3

end TRV.Proofs
