import TRV.Proofs.CompleteDirect
set_option linter.unusedSimpArgs false
set_option linter.unusedVariables false
/-!
# Byte-level completeness (C02) for IPv4 headers WITH OPTIONS

`Proofs.Complete` / `Proofs.CompleteDirect` prove the byte-level completeness theorems for option-less
IPv4 headers.  The property names "outer IP options" among the wire forms of real devices, and
routers also quote probe headers that carry options.  Here every one of those theorems is proved
again for an outer header of `oihl` words with option bytes `oopts` and (for the ICMP-error forms) a
quoted header of `qihl` words with option bytes `qopts`: ANY header length 5..15 and ANY option bytes
that gopacket's option loop (`ip4OptsOK`, the model of `IPv4.DecodeFromBytes`' loop) does not reject.
`ip4OptsOK_nops` / `ip4OptsOK_eol` show the hypothesis is satisfiable for every length.
-/
namespace TRV.Proofs
open TRV TRV.Wire TRV.Build TRV.Drv

/-- an IPv4 header of `ihl` 32-bit words: the 20 fixed bytes followed by `opts` -/
def rawHdr4o (ihl tos len id ff ttl proto ck : Nat) (src dst opts : Bytes) : Bytes :=
  [byte (0x40 + ihl), byte tos] ++ be16 len ++ be16 id ++ be16 ff ++ [byte ttl, byte proto] ++ be16 ck ++ src ++ dst ++ opts

theorem rawHdr4o_length (ihl tos len id ff ttl proto ck : Nat) (src dst opts : Bytes) (hs : src.length = 4) (hd : dst.length = 4) :
    (rawHdr4o ihl tos len id ff ttl proto ck src dst opts).length = 20 + opts.length := by
  simp [rawHdr4o, be16, hs, hd]; omega

theorem ip4_rawHdr4o {ihl tos len id ff ttl proto ck : Nat} {src dst opts pl : Bytes} (hs : src.length = 4) (hd : dst.length = 4)
    (hi5 : 5 ≤ ihl) (hi15 : ihl ≤ 15) (hol : opts.length = ihl * 4 - 20) (hok : ip4OptsOK (ihl * 4 - 20) opts = true)
    (htos : tos < 256) (hlen : ihl * 4 ≤ len) (hl : len < 65536) (hid : id < 65536) (hff : ff < 65536)
    (httl : ttl < 256) (hpr : proto < 256) :
    ip4 (rawHdr4o ihl tos len id ff ttl proto ck src dst opts ++ pl) =
      some { ihl, tos, len, id, ff, ttl, proto, src, dst, payload := pl.take (len - ihl * 4) } := by
  have hL := rawHdr4o_length ihl tos len id ff ttl proto ck src dst opts hs hd
  obtain ⟨a, b, c, d, rfl⟩ := len4 hs
  obtain ⟨e, f, g, h, rfl⟩ := len4 hd
  generalize hH : rawHdr4o ihl tos len id ff ttl proto ck [a, b, c, d] [e, f, g, h] opts = H at hL
  have hb0 : u8 (H ++ pl) 0 = some (0x40 + ihl) := by
    subst hH; simp [rawHdr4o, u8]; rw [byte_toNat (by omega)]
  have hb1 : u8 (H ++ pl) 1 = some tos := by
    subst hH; simp [rawHdr4o, u8, byte_toNat, htos]
  have hb2 : u16 (H ++ pl) 2 = some len := by
    subst hH; simp [rawHdr4o, be16, u8, u16]
    rw [byte_toNat (by omega), byte_toNat (by omega)]; omega
  have hb4 : u16 (H ++ pl) 4 = some id := by
    subst hH; simp [rawHdr4o, be16, u8, u16]
    rw [byte_toNat (by omega), byte_toNat (by omega)]; omega
  have hb6 : u16 (H ++ pl) 6 = some ff := by
    subst hH; simp [rawHdr4o, be16, u8, u16]
    rw [byte_toNat (by omega), byte_toNat (by omega)]; omega
  have hb8 : u8 (H ++ pl) 8 = some ttl := by
    subst hH; simp [rawHdr4o, be16, u8, byte_toNat, httl]
  have hb9 : u8 (H ++ pl) 9 = some proto := by
    subst hH; simp [rawHdr4o, be16, u8, byte_toNat, hpr]
  have hsrc : slice (H ++ pl) 12 4 = [a, b, c, d] := by
    subst hH; simp [rawHdr4o, be16, slice]
  have hdst : slice (H ++ pl) 16 4 = [e, f, g, h] := by
    subst hH; simp [rawHdr4o, be16, slice]
  have hopt : H.drop 20 = opts := by
    subst hH; simp [rawHdr4o, be16]
  have hHl : H.length = ihl * 4 := by omega
  have hlenT : (H ++ pl).length = ihl * 4 + pl.length := by simp [hHl]
  have e5 : (0x40 + ihl) % 16 = ihl := by omega
  unfold ip4
  rw [if_neg (by omega), hb0, hb1, hb2, hb4, hb6, hb8, hb9]
  have hlen' : ip4Len len (H ++ pl).length = len := by
    unfold ip4Len; rw [if_neg (by omega)]
  simp only [hlen', hsrc, hdst, e5]
  have hcutlen : ihl * 4 ≤ (ip4Cut (H ++ pl) len).length := by
    unfold ip4Cut; split
    · rw [List.length_take]; omega
    · omega
  have hdrop : (ip4Cut (H ++ pl) len).drop (ihl * 4) = pl.take (len - ihl * 4) := by
    unfold ip4Cut; split
    · rename_i hgt
      rw [List.take_append, hHl, List.drop_append]
      have : (List.take len H).length = ihl * 4 := by
        rw [List.length_take]; omega
      rw [List.drop_of_length_le (by omega), this]
      simp
    · rename_i hle
      rw [List.drop_append, hHl, List.drop_of_length_le (by omega)]
      simp
      rw [List.take_of_length_le (by omega)]
  have hsl : slice (ip4Cut (H ++ pl) len) 20 (ihl * 4 - 20) = opts := by
    unfold ip4Cut; split
    · unfold slice
      rw [List.take_append, hHl, List.take_of_length_le (l := H) (by omega), List.drop_append]
      rw [hopt]
      have : 20 - H.length = 0 := by omega
      rw [this, List.drop_zero, List.take_append, hol]
      simp
      exact List.take_of_length_le (by omega)
    · unfold slice
      rw [List.drop_append, hopt]
      have : 20 - H.length = 0 := by omega
      rw [this, List.drop_zero, List.take_append, hol]
      simp
      exact List.take_of_length_le (by omega)
  simp only [hsl, hok, hdrop]
  rw [if_neg (by omega), if_neg (by omega), if_neg (by omega), if_neg (by omega)]
  simp


/-- an ICMPv4 message inside an IPv4 packet from `r` to `dst` whose header carries `oopts` -/
def icmpMsg4o (oihl otos oid ottl ock : Nat) (r dst oopts : Bytes) (ty code ick : Nat) (rest4 body : Bytes) : Bytes :=
  rawHdr4o oihl otos (oihl * 4 + 8 + body.length) oid 0 ottl 1 ock r dst oopts ++ (([byte ty, byte code] ++ be16 ick ++ rest4) ++ body)

theorem parse_icmpMsg4o {oihl otos oid ottl ock ty code ick : Nat} {r dst oopts rest4 body : Bytes}
    (hr : r.length = 4) (hd : dst.length = 4) (hrest : rest4.length = 4)
    (hi5 : 5 ≤ oihl) (hi15 : oihl ≤ 15) (hol : oopts.length = oihl * 4 - 20) (hok : ip4OptsOK (oihl * 4 - 20) oopts = true)
    (h1 : otos < 256) (h2 : oid < 65536) (h3 : ottl < 256) (hty : ty < 256) (hco : code < 256)
    (hsize : oihl * 4 + 8 + body.length ≤ 1024) :
    ∃ id seq, parse ((icmpMsg4o oihl otos oid ottl ock r dst oopts ty code ick rest4 body).take bufSize) =
      some (.v4 { ihl := oihl, tos := otos, len := oihl * 4 + 8 + body.length, id := oid, ff := 0, ttl := ottl, proto := 1,
                  src := r, dst := dst, payload := ([byte ty, byte code] ++ be16 ick ++ rest4) ++ body },
            .icmp4 { type := ty, code := code, id := id, seq := seq, payload := body }) := by
  have hlenpl : (([byte ty, byte code] ++ be16 ick ++ rest4) ++ body).length = 8 + body.length := by
    simp [be16, hrest]; omega
  have hL : (icmpMsg4o oihl otos oid ottl ock r dst oopts ty code ick rest4 body).length = oihl * 4 + 8 + body.length := by
    unfold icmpMsg4o
    rw [List.length_append, rawHdr4o_length _ _ _ _ _ _ _ _ _ _ _ hr hd, hlenpl]; omega
  rw [take_of_le (by rw [hL]; simp [bufSize]; omega)]
  have hip := ip4_rawHdr4o (ihl := oihl) (tos := otos) (len := oihl * 4 + 8 + body.length) (id := oid) (ff := 0) (ttl := ottl) (proto := 1)
    (ck := ock) (opts := oopts) (pl := ([byte ty, byte code] ++ be16 ick ++ rest4) ++ body) hr hd hi5 hi15 hol hok h1 (by omega) (by omega) h2 (by omega) h3 (by omega)
  have htk : (([byte ty, byte code] ++ be16 ick ++ rest4) ++ body).take (oihl * 4 + 8 + body.length - oihl * 4) =
      ([byte ty, byte code] ++ be16 ick ++ rest4) ++ body := take_of_le (by rw [hlenpl]; omega)
  rw [htk] at hip
  obtain ⟨a, b, c, d, rfl⟩ := len4 hrest
  have hb0 : u8 (icmpMsg4o oihl otos oid ottl ock r dst oopts ty code ick [a, b, c, d] body) 0 = some (0x40 + oihl) := by
    obtain ⟨r0, r1, r2, r3, rfl⟩ := len4 hr
    simp [icmpMsg4o, rawHdr4o, u8]; rw [byte_toNat (by omega)]
  unfold parse
  rw [hb0]
  simp only [show (0x40 + oihl) / 16 = 4 by omega, if_true]
  unfold icmpMsg4o
  rw [hip]
  simp only [IP4.isFrag]
  have hne : (([byte ty, byte code] ++ be16 ick ++ [a, b, c, d]) ++ body).isEmpty = false := by simp [be16]
  simp only [hne, Bool.false_eq_true, if_false]
  refine ⟨a.toNat * 256 + b.toNat, c.toNat * 256 + d.toNat, ?_⟩
  simp [Wire.icmp4, be16, u8, u16, byte_toNat, hty, hco]

/-- `GetICMPInfo` on a quoted IPv4 datagram whose header carries `qopts` -/
theorem icmpInfo4_quote_o {ty code id seq : Nat} {qihl qtos qlen qid qff qttl qproto qck : Nat} {qsrc qdst qopts l4x : Bytes}
    (hs : qsrc.length = 4) (hd : qdst.length = 4)
    (hi5 : 5 ≤ qihl) (hi15 : qihl ≤ 15) (hol : qopts.length = qihl * 4 - 20) (hok : ip4OptsOK (qihl * 4 - 20) qopts = true)
    (h1 : qtos < 256) (h2 : qihl * 4 ≤ qlen) (h3 : qlen < 65536)
    (h4 : qid < 65536) (h5 : qff < 65536) (h6 : qttl < 256) (h7 : qproto < 256) :
    icmpInfo4 { type := ty, code := code, id := id, seq := seq,
                payload := rawHdr4o qihl qtos qlen qid qff qttl qproto qck qsrc qdst qopts ++ l4x } =
      some { wrappedId := qid, proto := qproto, qsrc := qsrc, qdst := qdst, payload := l4x.take (qlen - qihl * 4) } := by
  unfold icmpInfo4
  simp only
  rw [ip4_rawHdr4o hs hd hi5 hi15 hol hok h1 h2 h3 h4 h5 h6 h7]
  rfl

end TRV.Proofs

namespace TRV.Proofs
open TRV TRV.Wire TRV.Build TRV.Drv

/-- ICMP/IPv4 completeness on bytes WITH IP OPTIONS: as `icmp4_te_complete`, but the outer header has
    `oihl` words with options `oopts` and the quoted header `qihl` words with options `qopts`
    (any option bytes gopacket's option loop accepts: record route, timestamp, router alert, padding …) -/
theorem icmp4_te_complete_opts {s : IcmpSt} {t : Nat} {p : Sent}
    {oihl qihl otos oid ottl ock code ick qtos qlen qid qff qttl qck ety ecode eck : Nat} {r rest4 oopts qopts extra : Bytes}
    (hl : s.cfg.localA.length = 4) (htg : s.cfg.target.length = 4) (hr : r.length = 4) (hrest : rest4.length = 4)
    (o1 : 5 ≤ oihl) (o2 : oihl ≤ 15) (o3 : oopts.length = oihl * 4 - 20) (o4 : ip4OptsOK (oihl * 4 - 20) oopts = true)
    (q1 : 5 ≤ qihl) (q2 : qihl ≤ 15) (q3 : qopts.length = qihl * 4 - 20) (q4 : ip4OptsOK (qihl * 4 - 20) qopts = true)
    (b1 : otos < 256) (b2 : oid < 65536) (b3 : ottl < 256) (b4 : code < 256)
    (b5 : qtos < 256) (b6 : qihl * 4 + 8 ≤ qlen) (b7 : qlen < 65536) (b8 : qid < 65536) (b9 : qff < 65536) (b10 : qttl < 256)
    (b11 : ety = 8 ∨ ety = 0) (b12 : ecode < 256) (b13 : s.cfg.echoId < 65536) (b14 : t < 65536)
    (hsize : oihl * 4 + 8 + (qihl * 4 + 8 + extra.length) ≤ 1024) (hlk : icmpLookup s t = some p) :
    icmpRecv s (icmpMsg4o oihl otos oid ottl ock r s.cfg.localA oopts 11 code ick rest4
        (rawHdr4o qihl qtos qlen qid qff qttl 1 qck s.cfg.localA s.cfg.target qopts ++
          (([byte ety, byte ecode] ++ be16 eck ++ be16 s.cfg.echoId ++ be16 t) ++ extra))) =
      .accept t r false p.time := by
  have hbody : (rawHdr4o qihl qtos qlen qid qff qttl 1 qck s.cfg.localA s.cfg.target qopts ++
      (([byte ety, byte ecode] ++ be16 eck ++ be16 s.cfg.echoId ++ be16 t) ++ extra)).length = qihl * 4 + 8 + extra.length := by
    rw [List.length_append, rawHdr4o_length _ _ _ _ _ _ _ _ _ _ _ hl htg]; simp [be16]; omega
  obtain ⟨id, seq, hparse⟩ := parse_icmpMsg4o (oihl := oihl) (otos := otos) (oid := oid) (ottl := ottl) (ock := ock) (ty := 11) (code := code)
    (ick := ick) (r := r) (dst := s.cfg.localA) (oopts := oopts) (rest4 := rest4)
    (body := rawHdr4o qihl qtos qlen qid qff qttl 1 qck s.cfg.localA s.cfg.target qopts ++
      (([byte ety, byte ecode] ++ be16 eck ++ be16 s.cfg.echoId ++ be16 t) ++ extra))
    hr hl hrest o1 o2 o3 o4 b1 b2 b3 (by omega) b4 (by rw [hbody]; omega)
  have hinfo := icmpInfo4_quote_o (ty := 11) (code := code) (id := id) (seq := seq) (qihl := qihl) (qtos := qtos) (qlen := qlen) (qid := qid)
    (qff := qff) (qttl := qttl) (qproto := 1) (qck := qck) (qsrc := s.cfg.localA) (qdst := s.cfg.target) (qopts := qopts)
    (l4x := ([byte ety, byte ecode] ++ be16 eck ++ be16 s.cfg.echoId ++ be16 t) ++ extra)
    hl htg q1 q2 q3 q4 b5 (by omega) b7 b8 b9 b10 (by omega)
  have hecho : parseEcho4 ((([byte ety, byte ecode] ++ be16 eck ++ be16 s.cfg.echoId ++ be16 t) ++ extra).take (qlen - qihl * 4)) =
      some (s.cfg.echoId, t) := by
    have hk : 8 ≤ qlen - qihl * 4 := by omega
    have h8 : ∀ j, j < 8 → ((([byte ety, byte ecode] ++ be16 eck ++ be16 s.cfg.echoId ++ be16 t) ++ extra).take (qlen - qihl * 4))[j]? =
        ([byte ety, byte ecode] ++ be16 eck ++ be16 s.cfg.echoId ++ be16 t)[j]? := by
      intro j hj
      rw [List.getElem?_take]
      have : j < qlen - qihl * 4 := by omega
      simp only [this, if_true]
      rw [List.getElem?_append_left (by simp [be16]; omega)]
    have hety : ety < 256 := by rcases b11 with h | h <;> omega
    unfold parseEcho4 u16 u8
    rw [h8 0 (by omega), h8 4 (by omega), h8 5 (by omega), h8 6 (by omega), h8 7 (by omega)]
    simp [be16, byte_toNat, hety]
    refine ⟨?_, ?_, ?_⟩
    · rcases b11 with h | h <;> simp [h]
    · rw [byte_toNat (by omega), byte_toNat (by omega)]; omega
    · rw [byte_toNat (by omega), byte_toNat (by omega)]; omega
  have hne : icmpMsg4o oihl otos oid ottl ock r s.cfg.localA oopts 11 code ick rest4
        (rawHdr4o qihl qtos qlen qid qff qttl 1 qck s.cfg.localA s.cfg.target qopts ++
          (([byte ety, byte ecode] ++ be16 eck ++ be16 s.cfg.echoId ++ be16 t) ++ extra)) ≠ [] := by
    simp [icmpMsg4o, rawHdr4o]
  unfold icmpRecv
  simp only [isEmpty_false_of_ne hne, hparse, hinfo, hecho, hlk, L3.src, if_true, Bool.false_eq_true, if_false]
  simp

/-- UDP/IPv4 completeness on bytes with IP options in the outer and the quoted header -/
theorem udp4_err_complete_opts {s : UdpSt} {p : Sent}
    {oihl qihl otos oid ottl ock ty code ick qtos qlen qff qttl qck : Nat} {r rest4 w oopts qopts extra : Bytes}
    (hl : s.cfg.localA.length = 4) (htg : s.cfg.target.length = 4) (hr : r.length = 4) (hrest : rest4.length = 4)
    (hw : w.length = 4)
    (o1 : 5 ≤ oihl) (o2 : oihl ≤ 15) (o3 : oopts.length = oihl * 4 - 20) (o4 : ip4OptsOK (oihl * 4 - 20) oopts = true)
    (q1 : 5 ≤ qihl) (q2 : qihl ≤ 15) (q3 : qopts.length = qihl * 4 - 20) (q4 : ip4OptsOK (qihl * 4 - 20) qopts = true)
    (b1 : otos < 256) (b2 : oid < 65536) (b3 : ottl < 256) (b4 : code < 256) (hty : (ty = 11 ∧ code = 0) ∨ ty = 3)
    (b5 : qtos < 256) (b6 : qihl * 4 + 8 ≤ qlen) (b7 : qlen < 65536) (b8 : p.id < 65536) (b9 : qff < 65536) (b10 : qttl < 256)
    (b11 : s.cfg.lport < 65536) (b12 : s.cfg.tport < 65536)
    (hsize : oihl * 4 + 8 + (qihl * 4 + 8 + extra.length) ≤ 1024) (hf : s.sent.find? (·.id = p.id) = some p) :
    udpRecv s (icmpMsg4o oihl otos oid ottl ock r s.cfg.localA oopts ty code ick rest4
        (rawHdr4o qihl qtos qlen p.id qff qttl 17 qck s.cfg.localA s.cfg.target qopts ++
          ((be16 s.cfg.lport ++ be16 s.cfg.tport ++ w) ++ extra))) =
      .accept p.ttl r (decide (r = s.cfg.target)) p.time := by
  have hbody : (rawHdr4o qihl qtos qlen p.id qff qttl 17 qck s.cfg.localA s.cfg.target qopts ++
      ((be16 s.cfg.lport ++ be16 s.cfg.tport ++ w) ++ extra)).length = qihl * 4 + 8 + extra.length := by
    rw [List.length_append, rawHdr4o_length _ _ _ _ _ _ _ _ _ _ _ hl htg]; simp [be16, hw]; omega
  have htyl : ty < 256 := by rcases hty with ⟨h, _⟩ | h <;> omega
  obtain ⟨id, seq, hparse⟩ := parse_icmpMsg4o (oihl := oihl) (otos := otos) (oid := oid) (ottl := ottl) (ock := ock) (ty := ty) (code := code)
    (ick := ick) (r := r) (dst := s.cfg.localA) (oopts := oopts) (rest4 := rest4)
    (body := rawHdr4o qihl qtos qlen p.id qff qttl 17 qck s.cfg.localA s.cfg.target qopts ++
      ((be16 s.cfg.lport ++ be16 s.cfg.tport ++ w) ++ extra))
    hr hl hrest o1 o2 o3 o4 b1 b2 b3 htyl b4 (by rw [hbody]; omega)
  have hinfo := icmpInfo4_quote_o (ty := ty) (code := code) (id := id) (seq := seq) (qihl := qihl) (qtos := qtos) (qlen := qlen) (qid := p.id)
    (qff := qff) (qttl := qttl) (qproto := 17) (qck := qck) (qsrc := s.cfg.localA) (qdst := s.cfg.target) (qopts := qopts)
    (l4x := (be16 s.cfg.lport ++ be16 s.cfg.tport ++ w) ++ extra)
    hl htg q1 q2 q3 q4 b5 (by omega) b7 b8 b9 b10 (by omega)
  obtain ⟨hports, _⟩ := quoted8 (a := s.cfg.lport) (b := s.cfg.tport) (w := w) (extra := extra) (n := qlen - qihl * 4) (by omega) hw b11 b12
  have hne : icmpMsg4o oihl otos oid ottl ock r s.cfg.localA oopts ty code ick rest4
        (rawHdr4o qihl qtos qlen p.id qff qttl 17 qck s.cfg.localA s.cfg.target qopts ++
          ((be16 s.cfg.lport ++ be16 s.cfg.tport ++ w) ++ extra)) ≠ [] := by
    simp [icmpMsg4o, rawHdr4o]
  unfold udpRecv
  simp only [isEmpty_false_of_ne hne, hparse, hty, hinfo, hports, hf, L3.src, if_true, Bool.false_eq_true, if_false]
  simp
  rfl

/-- TCP SYN completeness on bytes with IP options in the outer and the quoted header -/
theorem tcp_te_complete_opts {s : TcpSt} {p : Sent}
    {oihl qihl otos oid ottl ock ick qtos qlen qff qttl qck : Nat} {r rest4 oopts qopts extra : Bytes}
    (hl : s.cfg.localA.length = 4) (htg : s.cfg.target.length = 4) (hr : r.length = 4) (hrest : rest4.length = 4)
    (o1 : 5 ≤ oihl) (o2 : oihl ≤ 15) (o3 : oopts.length = oihl * 4 - 20) (o4 : ip4OptsOK (oihl * 4 - 20) oopts = true)
    (q1 : 5 ≤ qihl) (q2 : qihl ≤ 15) (q3 : qopts.length = qihl * 4 - 20) (q4 : ip4OptsOK (qihl * 4 - 20) qopts = true)
    (b1 : otos < 256) (b2 : oid < 65536) (b3 : ottl < 256)
    (b5 : qtos < 256) (b6 : qihl * 4 + 8 ≤ qlen) (b7 : qlen < 65536) (b8 : p.id < 65536) (b9 : qff < 65536) (b10 : qttl < 256)
    (b11 : s.cfg.lport < 65536) (b12 : s.cfg.tport < 65536) (b13 : p.seq < 4294967296)
    (hsize : oihl * 4 + 8 + (qihl * 4 + 8 + extra.length) ≤ 1024)
    (hf : s.sent.find? (fun x => x.id = p.id ∧ x.seq = p.seq) = some p) :
    tcpRecv s (icmpMsg4o oihl otos oid ottl ock r s.cfg.localA oopts 11 0 ick rest4
        (rawHdr4o qihl qtos qlen p.id qff qttl 6 qck s.cfg.localA s.cfg.target qopts ++
          ((be16 s.cfg.lport ++ be16 s.cfg.tport ++ be32 p.seq) ++ extra))) =
      .accept p.ttl r false p.time := by
  have hbody : (rawHdr4o qihl qtos qlen p.id qff qttl 6 qck s.cfg.localA s.cfg.target qopts ++
      ((be16 s.cfg.lport ++ be16 s.cfg.tport ++ be32 p.seq) ++ extra)).length = qihl * 4 + 8 + extra.length := by
    rw [List.length_append, rawHdr4o_length _ _ _ _ _ _ _ _ _ _ _ hl htg]; simp [be16, be32]; omega
  obtain ⟨id, seq, hparse⟩ := parse_icmpMsg4o (oihl := oihl) (otos := otos) (oid := oid) (ottl := ottl) (ock := ock) (ty := 11) (code := 0)
    (ick := ick) (r := r) (dst := s.cfg.localA) (oopts := oopts) (rest4 := rest4)
    (body := rawHdr4o qihl qtos qlen p.id qff qttl 6 qck s.cfg.localA s.cfg.target qopts ++
      ((be16 s.cfg.lport ++ be16 s.cfg.tport ++ be32 p.seq) ++ extra))
    hr hl hrest o1 o2 o3 o4 b1 b2 b3 (by omega) (by omega) (by rw [hbody]; omega)
  have hinfo := icmpInfo4_quote_o (ty := 11) (code := 0) (id := id) (seq := seq) (qihl := qihl) (qtos := qtos) (qlen := qlen) (qid := p.id)
    (qff := qff) (qttl := qttl) (qproto := 6) (qck := qck) (qsrc := s.cfg.localA) (qdst := s.cfg.target) (qopts := qopts)
    (l4x := (be16 s.cfg.lport ++ be16 s.cfg.tport ++ be32 p.seq) ++ extra)
    hl htg q1 q2 q3 q4 b5 (by omega) b7 b8 b9 b10 (by omega)
  obtain ⟨hports, hseq⟩ := quoted8 (a := s.cfg.lport) (b := s.cfg.tport) (w := be32 p.seq) (extra := extra) (n := qlen - qihl * 4)
    (by omega) (be32_length _) b11 b12
  have hbe : beNat (be32 p.seq) = p.seq := by
    simp [beNat, be32, be16]
    repeat rw [byte_toNat (by omega)]
    omega
  rw [hbe] at hseq
  have hne : icmpMsg4o oihl otos oid ottl ock r s.cfg.localA oopts 11 0 ick rest4
        (rawHdr4o qihl qtos qlen p.id qff qttl 6 qck s.cfg.localA s.cfg.target qopts ++
          ((be16 s.cfg.lport ++ be16 s.cfg.tport ++ be32 p.seq) ++ extra)) ≠ [] := by
    simp [icmpMsg4o, rawHdr4o]
  unfold tcpRecv
  simp only [isEmpty_false_of_ne hne, hparse, hinfo, hports, hseq, hf, L3.src, if_true, Bool.false_eq_true, if_false]
  simp

/-- SACK completeness on bytes with IP options in the outer and the quoted header, every ISN -/
theorem sack_te_complete_opts {s : SackSt} {t : Nat} {p : Sent}
    {oihl qihl otos oid ottl ock ick qtos qlen qid qff qttl qck : Nat} {r rest4 oopts qopts extra : Bytes}
    (hl : s.cfg.localA.length = 4) (htg : s.cfg.target.length = 4) (hr : r.length = 4) (hrest : rest4.length = 4)
    (o1 : 5 ≤ oihl) (o2 : oihl ≤ 15) (o3 : oopts.length = oihl * 4 - 20) (o4 : ip4OptsOK (oihl * 4 - 20) oopts = true)
    (q1 : 5 ≤ qihl) (q2 : qihl ≤ 15) (q3 : qopts.length = qihl * 4 - 20) (q4 : ip4OptsOK (qihl * 4 - 20) qopts = true)
    (b1 : otos < 256) (b2 : oid < 65536) (b3 : ottl < 256)
    (b5 : qtos < 256) (b6 : qihl * 4 + 8 ≤ qlen) (b7 : qlen < 65536) (b8 : qid < 65536) (b9 : qff < 65536) (b10 : qttl < 256)
    (b11 : s.cfg.lport < 65536) (b12 : s.cfg.tport < 65536) (b13 : s.cfg.isn < 4294967296) (b14 : t < 4294967296)
    (hsize : oihl * 4 + 8 + (qihl * 4 + 8 + extra.length) ≤ 1024) (hlk : sackLookup s t = some p) :
    sackRecv s (icmpMsg4o oihl otos oid ottl ock r s.cfg.localA oopts 11 0 ick rest4
        (rawHdr4o qihl qtos qlen qid qff qttl 6 qck s.cfg.localA s.cfg.target qopts ++
          ((be16 s.cfg.lport ++ be16 s.cfg.tport ++ be32 ((s.cfg.isn + t) % 4294967296)) ++ extra))) =
      .accept t r (decide (r = s.cfg.target)) p.time := by
  have hbody : (rawHdr4o qihl qtos qlen qid qff qttl 6 qck s.cfg.localA s.cfg.target qopts ++
      ((be16 s.cfg.lport ++ be16 s.cfg.tport ++ be32 ((s.cfg.isn + t) % 4294967296)) ++ extra)).length = qihl * 4 + 8 + extra.length := by
    rw [List.length_append, rawHdr4o_length _ _ _ _ _ _ _ _ _ _ _ hl htg]; simp [be16, be32]; omega
  obtain ⟨id, seq, hparse⟩ := parse_icmpMsg4o (oihl := oihl) (otos := otos) (oid := oid) (ottl := ottl) (ock := ock) (ty := 11) (code := 0)
    (ick := ick) (r := r) (dst := s.cfg.localA) (oopts := oopts) (rest4 := rest4)
    (body := rawHdr4o qihl qtos qlen qid qff qttl 6 qck s.cfg.localA s.cfg.target qopts ++
      ((be16 s.cfg.lport ++ be16 s.cfg.tport ++ be32 ((s.cfg.isn + t) % 4294967296)) ++ extra))
    hr hl hrest o1 o2 o3 o4 b1 b2 b3 (by omega) (by omega) (by rw [hbody]; omega)
  have hinfo := icmpInfo4_quote_o (ty := 11) (code := 0) (id := id) (seq := seq) (qihl := qihl) (qtos := qtos) (qlen := qlen) (qid := qid)
    (qff := qff) (qttl := qttl) (qproto := 6) (qck := qck) (qsrc := s.cfg.localA) (qdst := s.cfg.target) (qopts := qopts)
    (l4x := (be16 s.cfg.lport ++ be16 s.cfg.tport ++ be32 ((s.cfg.isn + t) % 4294967296)) ++ extra)
    hl htg q1 q2 q3 q4 b5 (by omega) b7 b8 b9 b10 (by omega)
  obtain ⟨hports, hseq⟩ := quoted8 (a := s.cfg.lport) (b := s.cfg.tport) (w := be32 ((s.cfg.isn + t) % 4294967296)) (extra := extra)
    (n := qlen - qihl * 4) (by omega) (be32_length _) b11 b12
  have hlt : (s.cfg.isn + t) % 4294967296 < 4294967296 := Nat.mod_lt _ (by decide)
  have hbe : beNat (be32 ((s.cfg.isn + t) % 4294967296)) = (s.cfg.isn + t) % 4294967296 := by
    simp [beNat, be32, be16]
    repeat rw [byte_toNat (by omega)]
    omega
  rw [hbe] at hseq
  have hrel : ((s.cfg.isn + t) % 4294967296 + 4294967296 - s.cfg.isn % 4294967296) % 4294967296 = t := by omega
  have hne : icmpMsg4o oihl otos oid ottl ock r s.cfg.localA oopts 11 0 ick rest4
        (rawHdr4o qihl qtos qlen qid qff qttl 6 qck s.cfg.localA s.cfg.target qopts ++
          ((be16 s.cfg.lport ++ be16 s.cfg.tport ++ be32 ((s.cfg.isn + t) % 4294967296)) ++ extra)) ≠ [] := by
    simp [icmpMsg4o, rawHdr4o]
  unfold sackRecv
  simp only [isEmpty_false_of_ne hne, hparse, hinfo, hports, hseq, hrel, hlk, L3.src, if_true, Bool.false_eq_true, if_false]
  simp
  rfl

end TRV.Proofs

namespace TRV.Proofs
open TRV TRV.Wire TRV.Build TRV.Drv

/-- ICMP echo reply from the target whose IP header carries options -/
theorem icmp4_echo_complete_opts {s : IcmpSt} {t : Nat} {p : Sent}
    {oihl otos oid ottl ock code ick : Nat} {oopts body : Bytes}
    (hl : s.cfg.localA.length = 4) (htg : s.cfg.target.length = 4)
    (o1 : 5 ≤ oihl) (o2 : oihl ≤ 15) (o3 : oopts.length = oihl * 4 - 20) (o4 : ip4OptsOK (oihl * 4 - 20) oopts = true)
    (b1 : otos < 256) (b2 : oid < 65536) (b3 : ottl < 256) (b4 : code < 256)
    (b13 : s.cfg.echoId < 65536) (b14 : t < 65536)
    (hsize : oihl * 4 + 8 + body.length ≤ 1024) (hlk : icmpLookup s t = some p) :
    icmpRecv s (icmpMsg4o oihl otos oid ottl ock s.cfg.target s.cfg.localA oopts 0 code ick (be16 s.cfg.echoId ++ be16 t) body) =
      .accept t s.cfg.target true p.time := by
  have hrest : (be16 s.cfg.echoId ++ be16 t).length = 4 := by simp [be16]
  obtain ⟨id, seq, hparse⟩ := parse_icmpMsg4o (oihl := oihl) (otos := otos) (oid := oid) (ottl := ottl) (ock := ock) (ty := 0) (code := code)
    (ick := ick) (r := s.cfg.target) (dst := s.cfg.localA) (oopts := oopts) (rest4 := be16 s.cfg.echoId ++ be16 t) (body := body)
    htg hl hrest o1 o2 o3 o4 b1 b2 b3 (by omega) b4 hsize
  have hic : Wire.icmp4 (([byte 0, byte code] ++ be16 ick ++ (be16 s.cfg.echoId ++ be16 t)) ++ body) =
      some { type := 0, code := code, id := id, seq := seq, payload := body } := by
    obtain ⟨hd, b0, hl3, _, _, hip, _, _, hi⟩ := parse_icmp4 hparse
    cases hl3
    exact hi
  obtain ⟨_, _, hid, hseq, _, _⟩ := icmp4_spec hic
  have e1 : u16 (([byte 0, byte code] ++ be16 ick ++ (be16 s.cfg.echoId ++ be16 t)) ++ body) 4 = some s.cfg.echoId := by
    simp [be16, u16, u8]
    rw [byte_toNat (by omega), byte_toNat (by omega)]; omega
  have e2 : u16 (([byte 0, byte code] ++ be16 ick ++ (be16 s.cfg.echoId ++ be16 t)) ++ body) 6 = some t := by
    simp [be16, u16, u8]
    rw [byte_toNat (by omega), byte_toNat (by omega)]; omega
  rw [e1] at hid; rw [e2] at hseq
  simp only [Option.some.injEq] at hid hseq
  subst hid; subst hseq
  have hne : icmpMsg4o oihl otos oid ottl ock s.cfg.target s.cfg.localA oopts 0 code ick (be16 s.cfg.echoId ++ be16 t) body ≠ [] := by
    simp [icmpMsg4o, rawHdr4o]
  unfold icmpRecv
  simp only [isEmpty_false_of_ne hne, hparse, hlk, L3.src]
  simp

/-- a TCP segment without TCP options inside an IPv4 packet whose header carries `oopts` -/
def tcpMsg4o (oihl otos oid ff ottl ock : Nat) (src dst oopts : Bytes) (sp dp seq ack fl win ck urg : Nat) (pl : Bytes) : Bytes :=
  rawHdr4o oihl otos (oihl * 4 + 20 + pl.length) oid ff ottl 6 ock src dst oopts ++ (rawTcp sp dp seq ack fl win ck urg ++ pl)

theorem parse_tcpMsg4o {oihl otos oid ff ottl ock sp dp seq ack fl win ck urg : Nat} {src dst oopts pl : Bytes}
    (hs : src.length = 4) (hd : dst.length = 4)
    (o1 : 5 ≤ oihl) (o2 : oihl ≤ 15) (o3 : oopts.length = oihl * 4 - 20) (o4 : ip4OptsOK (oihl * 4 - 20) oopts = true)
    (h1 : otos < 256) (h2 : oid < 65536) (h3 : ottl < 256) (hff : ff < 65536) (hfr : ff % 16384 = 0)
    (b1 : sp < 65536) (b2 : dp < 65536) (b3 : seq < 4294967296) (b4 : ack < 4294967296) (b5 : fl < 256)
    (hsize : oihl * 4 + 20 + pl.length ≤ 1024) :
    parse ((tcpMsg4o oihl otos oid ff ottl ock src dst oopts sp dp seq ack fl win ck urg pl).take bufSize) =
      some (.v4 { ihl := oihl, tos := otos, len := oihl * 4 + 20 + pl.length, id := oid, ff := ff, ttl := ottl, proto := 6,
                  src := src, dst := dst, payload := rawTcp sp dp seq ack fl win ck urg ++ pl },
            .tcp { sport := sp, dport := dp, seq := seq, ack := ack, flags := fl, opts := [], payload := pl }) := by
  have hlenpl : (rawTcp sp dp seq ack fl win ck urg ++ pl).length = 20 + pl.length := by
    rw [List.length_append, rawTcp_length]
  have hL : (tcpMsg4o oihl otos oid ff ottl ock src dst oopts sp dp seq ack fl win ck urg pl).length = oihl * 4 + 20 + pl.length := by
    unfold tcpMsg4o
    rw [List.length_append, rawHdr4o_length _ _ _ _ _ _ _ _ _ _ _ hs hd, hlenpl]; omega
  rw [take_of_le (by rw [hL]; simp [bufSize]; omega)]
  have hip := ip4_rawHdr4o (ihl := oihl) (tos := otos) (len := oihl * 4 + 20 + pl.length) (id := oid) (ff := ff) (ttl := ottl) (proto := 6)
    (ck := ock) (opts := oopts) (pl := rawTcp sp dp seq ack fl win ck urg ++ pl) hs hd o1 o2 o3 o4 h1 (by omega) (by omega) h2 hff h3 (by omega)
  have htk : (rawTcp sp dp seq ack fl win ck urg ++ pl).take (oihl * 4 + 20 + pl.length - oihl * 4) = rawTcp sp dp seq ack fl win ck urg ++ pl :=
    take_of_le (by rw [hlenpl]; omega)
  rw [htk] at hip
  have hb0 : u8 (tcpMsg4o oihl otos oid ff ottl ock src dst oopts sp dp seq ack fl win ck urg pl) 0 = some (0x40 + oihl) := by
    obtain ⟨r0, r1, r2, r3, rfl⟩ := len4 hs
    simp [tcpMsg4o, rawHdr4o, u8]; rw [byte_toNat (by omega)]
  unfold parse
  rw [hb0]
  simp only [show (0x40 + oihl) / 16 = 4 by omega, if_true]
  unfold tcpMsg4o
  rw [hip]
  have hne : (rawTcp sp dp seq ack fl win ck urg ++ pl).isEmpty = false := by simp [rawTcp, be16, be32]
  simp only [hne, IP4.isFrag, hfr, Bool.false_eq_true, if_false, if_true, tcp_rawTcp b1 b2 b3 b4 b5, Option.map_some]
  simp

/-- TCP SYN direct forms (SYN-ACK / RST / RST-ACK) inside an IP header with options -/
theorem tcp_direct_complete_opts {s : TcpSt} {last : Sent}
    {oihl otos oid ff ottl ock seq ack fl win ck urg : Nat} {oopts pl : Bytes}
    (hl : s.cfg.localA.length = 4) (htg : s.cfg.target.length = 4)
    (o1 : 5 ≤ oihl) (o2 : oihl ≤ 15) (o3 : oopts.length = oihl * 4 - 20) (o4 : ip4OptsOK (oihl * 4 - 20) oopts = true)
    (h1 : otos < 256) (h2 : oid < 65536) (h3 : ottl < 256) (hff : ff < 65536) (hfr : ff % 16384 = 0)
    (b1 : s.cfg.tport < 65536) (b2 : s.cfg.lport < 65536) (b3 : seq < 4294967296) (b4 : ack < 4294967296) (b5 : fl < 256)
    (hfl : ((fl / 2) % 2 = 1 ∧ (fl / 16) % 2 = 1) ∨ (fl / 4) % 2 = 1)
    (hlast : s.sent.getLast? = some last)
    (hack : (fl / 16) % 2 = 1 → last.seq = (ack + 4294967295) % 4294967296)
    (hsize : oihl * 4 + 20 + pl.length ≤ 1024) :
    tcpRecv s (tcpMsg4o oihl otos oid ff ottl ock s.cfg.target s.cfg.localA oopts s.cfg.tport s.cfg.lport seq ack fl win ck urg pl) =
      .accept last.ttl s.cfg.target true last.time := by
  have hparse := parse_tcpMsg4o (oihl := oihl) (otos := otos) (oid := oid) (ff := ff) (ottl := ottl) (ock := ock)
    (sp := s.cfg.tport) (dp := s.cfg.lport) (seq := seq) (ack := ack) (fl := fl) (win := win) (ck := ck) (urg := urg)
    (src := s.cfg.target) (dst := s.cfg.localA) (oopts := oopts) (pl := pl) htg hl o1 o2 o3 o4 h1 h2 h3 hff hfr b1 b2 b3 b4 b5 hsize
  have hne : tcpMsg4o oihl otos oid ff ottl ock s.cfg.target s.cfg.localA oopts s.cfg.tport s.cfg.lport seq ack fl win ck urg pl ≠ [] := by
    simp [tcpMsg4o, rawHdr4o]
  unfold tcpRecv
  simp only [isEmpty_false_of_ne hne, hparse, L3.src, L3.dst, hlast, TCP.syn, TCP.ackf, TCP.rst]
  by_cases ha : (fl / 16) % 2 = 1
  · have := hack ha
    rcases hfl with ⟨hs, _⟩ | hr
    · by_cases hr : (fl / 4) % 2 = 1 <;> simp [hs, ha, hr, this]
    · by_cases hs : (fl / 2) % 2 = 1 <;> simp [hs, ha, hr, this]
  · rcases hfl with ⟨_, ha'⟩ | hr
    · exact absurd ha' ha
    · by_cases hs : (fl / 2) % 2 = 1 <;> simp [hs, ha, hr]

/-- SACK direct form inside an IP header with options -/
theorem sack_direct_complete_opts {s : SackSt} {t : Nat} {p : Sent}
    {oihl otos oid ff ottl ock seq ack fl win ck urg right : Nat} {oopts pl : Bytes}
    (hl : s.cfg.localA.length = 4) (htg : s.cfg.target.length = 4)
    (o1 : 5 ≤ oihl) (o2 : oihl ≤ 15) (o3 : oopts.length = oihl * 4 - 20) (o4 : ip4OptsOK (oihl * 4 - 20) oopts = true)
    (h1 : otos < 256) (h2 : oid < 65536) (h3 : ottl < 256) (hff : ff < 65536) (hfr : ff % 16384 = 0)
    (b1 : s.cfg.tport < 65536) (b2 : s.cfg.lport < 65536) (b3 : seq < 4294967296) (b4 : ack < 4294967296) (b5 : fl < 256)
    (hfl : fl % 2 = 0 ∧ (fl / 2) % 2 = 0 ∧ (fl / 4) % 2 = 0)
    (b6 : s.cfg.isn < 4294967296) (b7 : t < 4294967296) (b8 : right < 4294967296)
    (hsize : oihl * 4 + 32 + pl.length ≤ 1024) (hlk : sackLookup s t = some p) :
    sackRecv s (rawHdr4o oihl otos (oihl * 4 + 32 + pl.length) oid ff ottl 6 ock s.cfg.target s.cfg.localA oopts ++
        (rawTcpSack s.cfg.tport s.cfg.lport seq ack fl win ck urg ((s.cfg.isn + t) % 4294967296) right ++ pl)) =
      .accept t s.cfg.target true p.time := by
  have hlenpl : (rawTcpSack s.cfg.tport s.cfg.lport seq ack fl win ck urg ((s.cfg.isn + t) % 4294967296) right ++ pl).length = 32 + pl.length := by
    rw [List.length_append, rawTcpSack_length]
  have hL : (rawHdr4o oihl otos (oihl * 4 + 32 + pl.length) oid ff ottl 6 ock s.cfg.target s.cfg.localA oopts ++
        (rawTcpSack s.cfg.tport s.cfg.lport seq ack fl win ck urg ((s.cfg.isn + t) % 4294967296) right ++ pl)).length = oihl * 4 + 32 + pl.length := by
    rw [List.length_append, rawHdr4o_length _ _ _ _ _ _ _ _ _ _ _ htg hl, hlenpl]; omega
  have hip := ip4_rawHdr4o (ihl := oihl) (tos := otos) (len := oihl * 4 + 32 + pl.length) (id := oid) (ff := ff) (ttl := ottl) (proto := 6)
    (ck := ock) (opts := oopts) (pl := rawTcpSack s.cfg.tport s.cfg.lport seq ack fl win ck urg ((s.cfg.isn + t) % 4294967296) right ++ pl)
    htg hl o1 o2 o3 o4 h1 (by omega) (by omega) h2 hff h3 (by omega)
  have htk : (rawTcpSack s.cfg.tport s.cfg.lport seq ack fl win ck urg ((s.cfg.isn + t) % 4294967296) right ++ pl).take (oihl * 4 + 32 + pl.length - oihl * 4) =
      rawTcpSack s.cfg.tport s.cfg.lport seq ack fl win ck urg ((s.cfg.isn + t) % 4294967296) right ++ pl :=
    take_of_le (by rw [hlenpl]; omega)
  rw [htk] at hip
  have hb0 : u8 (rawHdr4o oihl otos (oihl * 4 + 32 + pl.length) oid ff ottl 6 ock s.cfg.target s.cfg.localA oopts ++
        (rawTcpSack s.cfg.tport s.cfg.lport seq ack fl win ck urg ((s.cfg.isn + t) % 4294967296) right ++ pl)) 0 = some (0x40 + oihl) := by
    obtain ⟨r0, r1, r2, r3, hr⟩ := len4 htg
    simp [rawHdr4o, u8]; rw [byte_toNat (by omega)]
  have hne : (rawHdr4o oihl otos (oihl * 4 + 32 + pl.length) oid ff ottl 6 ock s.cfg.target s.cfg.localA oopts ++
        (rawTcpSack s.cfg.tport s.cfg.lport seq ack fl win ck urg ((s.cfg.isn + t) % 4294967296) right ++ pl)) ≠ [] := by
    simp [rawHdr4o]
  have hne2 : (rawTcpSack s.cfg.tport s.cfg.lport seq ack fl win ck urg ((s.cfg.isn + t) % 4294967296) right ++ pl).isEmpty = false := by
    simp [rawTcpSack, be16, be32]
  have hrel : ((s.cfg.isn + t) % 4294967296 + 4294967296 - s.cfg.isn % 4294967296) % 4294967296 = t := by omega
  unfold sackRecv
  rw [if_neg (by simpa using isEmpty_false_of_ne hne), take_of_le (by rw [hL]; simp [bufSize]; omega)]
  unfold parse
  rw [hb0]
  simp only [show (0x40 + oihl) / 16 = 4 by omega, if_true, hip, hne2, IP4.isFrag, hfr,
    Bool.false_eq_true, if_false, tcp_rawTcpSack b1 b2 b3 b4 b5, Option.map_some]
  have hms := minSack_sackOpt (isn := s.cfg.isn) (left := (s.cfg.isn + t) % 4294967296) (right := right)
    (Nat.mod_lt _ (by decide)) b8
  rw [hrel] at hms
  simp only [L3.src, L3.dst, TCP.syn, TCP.fin, TCP.rst]
  simp [hfl.1, hfl.2.1, hfl.2.2, hms, hlk]

/-- the option hypothesis is satisfiable for every header length: NOP padding … -/
theorem ip4OptsOK_nops (n m : Nat) : ip4OptsOK m (List.replicate n (byte 1)) = true := by
  induction m generalizing n with
  | zero => rfl
  | succ m ih =>
    cases n with
    | zero => rfl
    | succ n =>
      simp only [List.replicate_succ, ip4OptsOK]
      rw [if_neg (by simp [byte_toNat]), if_pos (by simp [byte_toNat])]
      exact ih n

/-- … and an end-of-options byte followed by ANY bytes (what routers leave behind a shortened option list) -/
theorem ip4OptsOK_eol (m : Nat) (rest : Bytes) : ip4OptsOK m (byte 0 :: rest) = true := by
  cases m with
  | zero => rfl
  | succ m => simp [ip4OptsOK, byte_toNat]

end TRV.Proofs

/-! ## TCP options: direct replies with any option bytes the TCP decoder accepts -/

namespace TRV.Proofs
open TRV TRV.Wire TRV.Build TRV.Drv

/-- a TCP header of `doff` 32-bit words: the 20 fixed bytes followed by the option bytes `topts` -/
def rawTcpO (doff sp dp seq ack fl win ck urg : Nat) (topts : Bytes) : Bytes :=
  be16 sp ++ be16 dp ++ be32 seq ++ be32 ack ++ [byte (doff * 16), byte fl] ++ be16 win ++ be16 ck ++ be16 urg ++ topts

theorem rawTcpO_length (doff sp dp seq ack fl win ck urg : Nat) (topts : Bytes) :
    (rawTcpO doff sp dp seq ack fl win ck urg topts).length = 20 + topts.length := by
  simp [rawTcpO, be16, be32]; omega

/-- gopacket's TCP decoder on such a header (any option bytes its option loop accepts) followed by any payload -/
theorem tcp_rawTcpO {doff sp dp seq ack fl win ck urg : Nat} {topts pl : Bytes} {parsed : List (Nat × Bytes)}
    (d5 : 5 ≤ doff) (d15 : doff ≤ 15) (hol : topts.length = doff * 4 - 20)
    (hok : tcpOpts (doff * 4 - 20) topts = some parsed)
    (h1 : sp < 65536) (h2 : dp < 65536) (h3 : seq < 4294967296) (h4 : ack < 4294967296) (h5 : fl < 256) :
    tcp (rawTcpO doff sp dp seq ack fl win ck urg topts ++ pl) =
      some { sport := sp, dport := dp, seq := seq, ack := ack, flags := fl, opts := parsed, payload := pl } := by
  have hL := rawTcpO_length doff sp dp seq ack fl win ck urg topts
  generalize hH : rawTcpO doff sp dp seq ack fl win ck urg topts = H at hL
  have e0 : u16 (H ++ pl) 0 = some sp := by
    subst hH; simp [rawTcpO, be16, be32, u16, u8]
    rw [byte_toNat (by omega), byte_toNat (by omega)]; omega
  have e2 : u16 (H ++ pl) 2 = some dp := by
    subst hH; simp [rawTcpO, be16, be32, u16, u8]
    rw [byte_toNat (by omega), byte_toNat (by omega)]; omega
  have e4 : u32 (H ++ pl) 4 = some seq := by
    subst hH; simp [rawTcpO, be16, be32, u32, u16, u8]
    rw [byte_toNat (by omega), byte_toNat (by omega), byte_toNat (by omega), byte_toNat (by omega)]; omega
  have e8 : u32 (H ++ pl) 8 = some ack := by
    subst hH; simp [rawTcpO, be16, be32, u32, u16, u8]
    rw [byte_toNat (by omega), byte_toNat (by omega), byte_toNat (by omega), byte_toNat (by omega)]; omega
  have e12 : u8 (H ++ pl) 12 = some (doff * 16) := by
    subst hH; simp [rawTcpO, be16, be32, u8]; rw [byte_toNat (by omega)]
  have e13 : u8 (H ++ pl) 13 = some fl := by
    subst hH; simp [rawTcpO, be16, be32, u8, byte_toNat, h5]
  have hopt : H.drop 20 = topts := by
    subst hH; simp [rawTcpO, be16, be32]
  have hHl : H.length = doff * 4 := by omega
  have hsl : slice (H ++ pl) 20 (doff * 4 - 20) = topts := by
    unfold slice
    rw [List.drop_append, hopt]
    have : 20 - H.length = 0 := by omega
    rw [this, List.drop_zero, List.take_append, hol]
    simp
    exact List.take_of_length_le (by omega)
  have hd : (H ++ pl).drop (doff * 4) = pl := by
    rw [← hHl]; simp
  unfold tcp
  rw [if_neg (by rw [List.length_append, hL]; omega), e0, e2, e4, e8, e12, e13]
  simp only [show doff * 16 / 16 = doff by omega]
  rw [if_neg (by omega), if_neg (by rw [List.length_append, hHl]; omega), hsl, hok, hd]

/-- a TCP segment with TCP options inside an IPv4 packet whose header carries options -/
def tcpMsg4oo (oihl otos oid ff ottl ock : Nat) (src dst oopts : Bytes) (doff sp dp seq ack fl win ck urg : Nat) (topts pl : Bytes) : Bytes :=
  rawHdr4o oihl otos (oihl * 4 + (doff * 4 + pl.length)) oid ff ottl 6 ock src dst oopts ++ (rawTcpO doff sp dp seq ack fl win ck urg topts ++ pl)

theorem parse_tcpMsg4oo {oihl otos oid ff ottl ock doff sp dp seq ack fl win ck urg : Nat} {src dst oopts topts pl : Bytes}
    {parsed : List (Nat × Bytes)}
    (hs : src.length = 4) (hd : dst.length = 4)
    (o1 : 5 ≤ oihl) (o2 : oihl ≤ 15) (o3 : oopts.length = oihl * 4 - 20) (o4 : ip4OptsOK (oihl * 4 - 20) oopts = true)
    (d5 : 5 ≤ doff) (d15 : doff ≤ 15) (hol : topts.length = doff * 4 - 20) (hok : tcpOpts (doff * 4 - 20) topts = some parsed)
    (h1 : otos < 256) (h2 : oid < 65536) (h3 : ottl < 256) (hff : ff < 65536) (hfr : ff % 16384 = 0)
    (b1 : sp < 65536) (b2 : dp < 65536) (b3 : seq < 4294967296) (b4 : ack < 4294967296) (b5 : fl < 256)
    (hsize : oihl * 4 + (doff * 4 + pl.length) ≤ 1024) :
    parse ((tcpMsg4oo oihl otos oid ff ottl ock src dst oopts doff sp dp seq ack fl win ck urg topts pl).take bufSize) =
      some (.v4 { ihl := oihl, tos := otos, len := oihl * 4 + (doff * 4 + pl.length), id := oid, ff := ff, ttl := ottl, proto := 6,
                  src := src, dst := dst, payload := rawTcpO doff sp dp seq ack fl win ck urg topts ++ pl },
            .tcp { sport := sp, dport := dp, seq := seq, ack := ack, flags := fl, opts := parsed, payload := pl }) := by
  have hlenpl : (rawTcpO doff sp dp seq ack fl win ck urg topts ++ pl).length = doff * 4 + pl.length := by
    rw [List.length_append, rawTcpO_length]; omega
  have hL : (tcpMsg4oo oihl otos oid ff ottl ock src dst oopts doff sp dp seq ack fl win ck urg topts pl).length = oihl * 4 + (doff * 4 + pl.length) := by
    unfold tcpMsg4oo
    rw [List.length_append, rawHdr4o_length _ _ _ _ _ _ _ _ _ _ _ hs hd, hlenpl]; omega
  rw [take_of_le (by rw [hL]; simp [bufSize]; omega)]
  have hip := ip4_rawHdr4o (ihl := oihl) (tos := otos) (len := oihl * 4 + (doff * 4 + pl.length)) (id := oid) (ff := ff) (ttl := ottl) (proto := 6)
    (ck := ock) (opts := oopts) (pl := rawTcpO doff sp dp seq ack fl win ck urg topts ++ pl) hs hd o1 o2 o3 o4 h1 (by omega) (by omega) h2 hff h3 (by omega)
  have htk : (rawTcpO doff sp dp seq ack fl win ck urg topts ++ pl).take (oihl * 4 + (doff * 4 + pl.length) - oihl * 4) = rawTcpO doff sp dp seq ack fl win ck urg topts ++ pl :=
    take_of_le (by rw [hlenpl]; omega)
  rw [htk] at hip
  have hb0 : u8 (tcpMsg4oo oihl otos oid ff ottl ock src dst oopts doff sp dp seq ack fl win ck urg topts pl) 0 = some (0x40 + oihl) := by
    obtain ⟨r0, r1, r2, r3, rfl⟩ := len4 hs
    simp [tcpMsg4oo, rawHdr4o, u8]; rw [byte_toNat (by omega)]
  unfold parse
  rw [hb0]
  simp only [show (0x40 + oihl) / 16 = 4 by omega, if_true]
  unfold tcpMsg4oo
  rw [hip]
  have hne : (rawTcpO doff sp dp seq ack fl win ck urg topts ++ pl).isEmpty = false := by simp [rawTcpO, be16, be32]
  simp only [hne, IP4.isFrag, hfr, Bool.false_eq_true, if_false, if_true, tcp_rawTcpO d5 d15 hol hok b1 b2 b3 b4 b5, Option.map_some]
  simp

/-- TCP SYN direct forms with ANY accepted TCP options (MSS, SACK-permitted, timestamps, window scale …)
    and any accepted IP options -/
theorem tcp_direct_complete_allopts {s : TcpSt} {last : Sent}
    {oihl otos oid ff ottl ock doff seq ack fl win ck urg : Nat} {oopts topts pl : Bytes} {parsed : List (Nat × Bytes)}
    (hl : s.cfg.localA.length = 4) (htg : s.cfg.target.length = 4)
    (o1 : 5 ≤ oihl) (o2 : oihl ≤ 15) (o3 : oopts.length = oihl * 4 - 20) (o4 : ip4OptsOK (oihl * 4 - 20) oopts = true)
    (d5 : 5 ≤ doff) (d15 : doff ≤ 15) (hol : topts.length = doff * 4 - 20) (hok : tcpOpts (doff * 4 - 20) topts = some parsed)
    (h1 : otos < 256) (h2 : oid < 65536) (h3 : ottl < 256) (hff : ff < 65536) (hfr : ff % 16384 = 0)
    (b1 : s.cfg.tport < 65536) (b2 : s.cfg.lport < 65536) (b3 : seq < 4294967296) (b4 : ack < 4294967296) (b5 : fl < 256)
    (hfl : ((fl / 2) % 2 = 1 ∧ (fl / 16) % 2 = 1) ∨ (fl / 4) % 2 = 1)
    (hlast : s.sent.getLast? = some last)
    (hack : (fl / 16) % 2 = 1 → last.seq = (ack + 4294967295) % 4294967296)
    (hsize : oihl * 4 + (doff * 4 + pl.length) ≤ 1024) :
    tcpRecv s (tcpMsg4oo oihl otos oid ff ottl ock s.cfg.target s.cfg.localA oopts doff s.cfg.tport s.cfg.lport seq ack fl win ck urg topts pl) =
      .accept last.ttl s.cfg.target true last.time := by
  have hparse := parse_tcpMsg4oo (oihl := oihl) (otos := otos) (oid := oid) (ff := ff) (ottl := ottl) (ock := ock) (doff := doff)
    (sp := s.cfg.tport) (dp := s.cfg.lport) (seq := seq) (ack := ack) (fl := fl) (win := win) (ck := ck) (urg := urg)
    (src := s.cfg.target) (dst := s.cfg.localA) (oopts := oopts) (topts := topts) (pl := pl) htg hl o1 o2 o3 o4 d5 d15 hol hok h1 h2 h3 hff hfr b1 b2 b3 b4 b5 hsize
  have hne : tcpMsg4oo oihl otos oid ff ottl ock s.cfg.target s.cfg.localA oopts doff s.cfg.tport s.cfg.lport seq ack fl win ck urg topts pl ≠ [] := by
    simp [tcpMsg4oo, rawHdr4o]
  unfold tcpRecv
  simp only [isEmpty_false_of_ne hne, hparse, L3.src, L3.dst, hlast, TCP.syn, TCP.ackf, TCP.rst]
  by_cases ha : (fl / 16) % 2 = 1
  · have := hack ha
    rcases hfl with ⟨hs, _⟩ | hr
    · by_cases hr : (fl / 4) % 2 = 1 <;> simp [hs, ha, hr, this]
    · by_cases hs : (fl / 2) % 2 = 1 <;> simp [hs, ha, hr, this]
  · rcases hfl with ⟨_, ha'⟩ | hr
    · exact absurd ha' ha
    · by_cases hs : (fl / 2) % 2 = 1 <;> simp [hs, ha, hr]

end TRV.Proofs

namespace TRV.Proofs
open TRV TRV.Wire TRV.Build TRV.Drv

/-- SACK direct form with ANY accepted TCP option bytes (several SACK blocks in any order, timestamps,
    padding …) whose smallest relative left edge is `t`, inside an IP header with any accepted options -/
theorem sack_direct_complete_allopts {s : SackSt} {t : Nat} {p : Sent}
    {oihl otos oid ff ottl ock doff seq ack fl win ck urg : Nat} {oopts topts pl : Bytes} {parsed : List (Nat × Bytes)}
    (hl : s.cfg.localA.length = 4) (htg : s.cfg.target.length = 4)
    (o1 : 5 ≤ oihl) (o2 : oihl ≤ 15) (o3 : oopts.length = oihl * 4 - 20) (o4 : ip4OptsOK (oihl * 4 - 20) oopts = true)
    (d5 : 5 ≤ doff) (d15 : doff ≤ 15) (hol : topts.length = doff * 4 - 20) (hok : tcpOpts (doff * 4 - 20) topts = some parsed)
    (hms : minSack s.cfg.isn parsed = some t)
    (h1 : otos < 256) (h2 : oid < 65536) (h3 : ottl < 256) (hff : ff < 65536) (hfr : ff % 16384 = 0)
    (b1 : s.cfg.tport < 65536) (b2 : s.cfg.lport < 65536) (b3 : seq < 4294967296) (b4 : ack < 4294967296) (b5 : fl < 256)
    (hfl : fl % 2 = 0 ∧ (fl / 2) % 2 = 0 ∧ (fl / 4) % 2 = 0)
    (hsize : oihl * 4 + (doff * 4 + pl.length) ≤ 1024) (hlk : sackLookup s t = some p) :
    sackRecv s (tcpMsg4oo oihl otos oid ff ottl ock s.cfg.target s.cfg.localA oopts doff s.cfg.tport s.cfg.lport seq ack fl win ck urg topts pl) =
      .accept t s.cfg.target true p.time := by
  have hparse := parse_tcpMsg4oo (oihl := oihl) (otos := otos) (oid := oid) (ff := ff) (ottl := ottl) (ock := ock) (doff := doff)
    (sp := s.cfg.tport) (dp := s.cfg.lport) (seq := seq) (ack := ack) (fl := fl) (win := win) (ck := ck) (urg := urg)
    (src := s.cfg.target) (dst := s.cfg.localA) (oopts := oopts) (topts := topts) (pl := pl) htg hl o1 o2 o3 o4 d5 d15 hol hok h1 h2 h3 hff hfr b1 b2 b3 b4 b5 hsize
  have hne : tcpMsg4oo oihl otos oid ff ottl ock s.cfg.target s.cfg.localA oopts doff s.cfg.tport s.cfg.lport seq ack fl win ck urg topts pl ≠ [] := by
    simp [tcpMsg4oo, rawHdr4o]
  unfold sackRecv
  rw [if_neg (by simpa using isEmpty_false_of_ne hne), hparse]
  simp only [L3.src, L3.dst, TCP.syn, TCP.fin, TCP.rst]
  simp [hfl.1, hfl.2.1, hfl.2.2, hms, hlk]

end TRV.Proofs
