import TRV.Model.Drivers
import TRV.Model.Engine
set_option linter.unusedSimpArgs false
/-! Helper lemmas about the driver models (outcome classification). -/
namespace TRV.Proofs
open TRV TRV.Wire TRV.Drv

theorem isEmpty_false_of_ne {pkt : Bytes} (h : pkt ≠ []) : pkt.isEmpty = false := by
  cases pkt <;> simp_all

theorem icmpRecv_class (s : IcmpSt) (pkt : Bytes) (h : pkt ≠ []) :
    icmpRecv s pkt ≠ .fatal ∧ icmpRecv s pkt ≠ .notSupported := by
  unfold icmpRecv
  simp only [isEmpty_false_of_ne h]
  repeat' split
  all_goals simp_all

theorem udpRecv_class (s : UdpSt) (pkt : Bytes) (h : pkt ≠ []) :
    udpRecv s pkt ≠ .fatal ∧ udpRecv s pkt ≠ .notSupported := by
  unfold udpRecv
  simp only [isEmpty_false_of_ne h]
  repeat' split
  all_goals simp_all

theorem tcpRecv_class (s : TcpSt) (pkt : Bytes) (h : pkt ≠ []) :
    tcpRecv s pkt ≠ .notSupported ∧ (s.sent ≠ [] → tcpRecv s pkt ≠ .fatal) := by
  unfold tcpRecv
  simp only [isEmpty_false_of_ne h]
  repeat' split
  all_goals simp_all

theorem sackRecv_class (s : SackSt) (pkt : Bytes) (h : pkt ≠ []) : sackRecv s pkt ≠ .fatal := by
  unfold sackRecv
  simp only [isEmpty_false_of_ne h]
  repeat' split
  all_goals simp_all

/-- the SACK-specific early end: NotSupported is returned exactly for a TCP segment on the probed
    connection (addresses and ports of the reversed tuple) that is not SYN/FIN/RST and carries no
    SACK block -/
theorem sackRecv_notSupported_iff (s : SackSt) (pkt : Bytes) (h : pkt ≠ []) :
    sackRecv s pkt = .notSupported ↔
      ∃ l3 t, parse (pkt.take bufSize) = some (l3, .tcp t) ∧ l3.src = s.cfg.target ∧ l3.dst = s.cfg.localA ∧
        t.sport = s.cfg.tport ∧ t.dport = s.cfg.lport ∧ t.syn = false ∧ t.fin = false ∧ t.rst = false ∧
        minSack s.cfg.isn t.opts = none := by
  unfold sackRecv
  simp only [isEmpty_false_of_ne h]
  constructor
  · intro hh
    repeat' split at hh
    all_goals first | (simp at hh; done) | skip
    all_goals simp_all
    all_goals (refine ⟨_, _, ⟨rfl, rfl⟩, ?_⟩; simp_all)
  · rintro ⟨l3, t, hp, h1, h2, h3, h4, h5, h6, h7, h8⟩
    simp [hp, h1, h2, h3, h4, h5, h6, h7, h8]

end TRV.Proofs
