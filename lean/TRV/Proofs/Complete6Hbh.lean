import TRV.Proofs.Complete6
set_option linter.unusedSimpArgs false
set_option linter.unusedVariables false
/-!
# Byte-level completeness (C02), IPv6 replies behind a hop-by-hop extension header

`Proofs.Complete6` covers an ICMPv6 message directly behind the IPv6 header.  Routers and hosts may
put a hop-by-hop options header in front (router alert, padding): gopacket decodes it in place and
the matchers see the ICMPv6 layer behind it.  Here: ANY hop-by-hop header (any length, any option
bytes the TLV loop accepts, no jumbo option) in front of the three reply families.
The three `*_of_parse` lemmas state the matcher part once: whatever the outer encapsulation, if
`FrameParser.Parse` yields an ICMPv6 layer with this type/code/payload from `r`, the hop is reported.
-/
namespace TRV.Proofs
open TRV TRV.Wire TRV.Build TRV.Drv

/-- echo reply, given the parse -/
theorem icmp6_echo_of_parse {s : IcmpSt} {t code : Nat} {p : Sent} {pkt body : Bytes} {l3 : L3}
    (hne : pkt ≠ []) (b13 : s.cfg.echoId < 65536) (b14 : t < 65536)
    (hparse : parse (pkt.take bufSize) = some (l3, .icmp6 { type := 129, code := code, payload := (be16 s.cfg.echoId ++ be16 t) ++ body }))
    (hsrc : l3.src = s.cfg.target) (hlk : icmpLookup s t = some p) :
    icmpRecv s pkt = .accept t s.cfg.target true p.time := by
  have e1 : u16 ((be16 s.cfg.echoId ++ be16 t) ++ body) 0 = some s.cfg.echoId := by
    simp [be16, u16, u8]
    rw [byte_toNat (by omega), byte_toNat (by omega)]; omega
  have e2 : u16 ((be16 s.cfg.echoId ++ be16 t) ++ body) 2 = some t := by
    simp [be16, u16, u8]
    rw [byte_toNat (by omega), byte_toNat (by omega)]; omega
  unfold icmpRecv
  simp only [isEmpty_false_of_ne hne, hparse, e1, e2, hlk, hsrc]
  simp


/-- time-exceeded quoting our echo request, given the parse -/
theorem icmp6_te_of_parse {s : IcmpSt} {t : Nat} {p : Sent}
    {code qb1 qb2 qb3 qplen qhop ety ecode eck : Nat} {r rest4 extra pkt : Bytes} {l3 : L3}
    (hl : s.cfg.localA.length = 16) (htg : s.cfg.target.length = 16) (hrest : rest4.length = 4)
    (b6 : 8 ≤ qplen) (b7 : qplen < 65536) (b10 : qhop < 256)
    (b11 : ety = 128 ∨ ety = 129) (b12 : ecode < 256) (b13 : s.cfg.echoId < 65536) (b14 : t < 65536)
    (hne : pkt ≠ [])
    (hparse : parse (pkt.take bufSize) = some (l3, .icmp6 { type := 3, code := code, payload := rest4 ++
        (rawHdr6 qb1 qb2 qb3 qplen 58 qhop s.cfg.localA s.cfg.target ++
          (([byte ety, byte ecode] ++ be16 eck ++ be16 s.cfg.echoId ++ be16 t) ++ extra)) }))
    (hsrc : l3.src = r) (hlk : icmpLookup s t = some p) :
    icmpRecv s pkt = .accept t r false p.time := by
  have hinfo := icmpInfo6_quote (ty := 3) (code := code) (qb1 := qb1) (qb2 := qb2) (qb3 := qb3) (qplen := qplen) (qnh := 58)
    (qhop := qhop) (qsrc := s.cfg.localA) (qdst := s.cfg.target) (rest4 := rest4)
    (l4x := ([byte ety, byte ecode] ++ be16 eck ++ be16 s.cfg.echoId ++ be16 t) ++ extra)
    hl htg hrest (by omega) b7 (by omega) (by omega) b10
  have hety : ety < 256 := by rcases b11 with h | h <;> omega
  have hecho : extractEcho6 ((([byte ety, byte ecode] ++ be16 eck ++ be16 s.cfg.echoId ++ be16 t) ++ extra).take qplen) =
      some (s.cfg.echoId, t) := by
    have hw : ([byte ety, byte ecode] ++ be16 eck ++ be16 s.cfg.echoId ++ be16 t).length = 8 := by simp [be16]
    rw [List.take_append, hw, List.take_of_length_le (by rw [hw]; omega)]
    have hid : (byte (s.cfg.echoId / 256)).toNat * 256 + (byte (s.cfg.echoId % 256)).toNat = s.cfg.echoId := by
      rw [byte_toNat (by omega), byte_toNat (by omega)]; omega
    have hsq : (byte (t / 256)).toNat * 256 + (byte (t % 256)).toNat = t := by
      clear hid
      rw [byte_toNat (by omega), byte_toNat (by omega)]; omega
    generalize List.take (qplen - 8) extra = x
    have hic : Wire.icmp6 (([byte ety, byte ecode] ++ be16 eck ++ be16 s.cfg.echoId ++ be16 t) ++ x) =
        some { type := ety, code := ecode, payload := be16 s.cfg.echoId ++ be16 t ++ x } := by
      simp [Wire.icmp6, be16, u8, byte_toNat hety, byte_toNat b12]
    have e1 : u16 (be16 s.cfg.echoId ++ be16 t ++ x) 0 = some s.cfg.echoId := by
      simp [be16, u16, u8, hid]
    have e2 : u16 (be16 s.cfg.echoId ++ be16 t ++ x) 2 = some t := by
      simp [be16, u16, u8, hsq]
    have hne : (be16 s.cfg.echoId ++ be16 t ++ x).isEmpty = false := by simp [be16]
    unfold extractEcho6
    rw [hic]
    simp only [hne, Bool.false_eq_true, if_false, b11, if_true, e1, e2]
  unfold icmpRecv
  simp only [isEmpty_false_of_ne hne, hparse, hinfo, hecho, hlk, hsrc, if_true, Bool.false_eq_true, if_false]
  simp

/-- ICMPv6 error quoting our UDP datagram, given the parse -/
theorem udp6_err_of_parse {s : UdpSt} {p : Sent}
    {ty code qb1 qb2 qb3 qhop : Nat} {r rest4 w extra pkt : Bytes} {l3 : L3}
    (hl : s.cfg.localA.length = 16) (htg : s.cfg.target.length = 16) (hrest : rest4.length = 4)
    (hw : w.length = 4) (hty : (ty = 3 ∧ code = 0) ∨ ty = 1)
    (b6 : 8 ≤ p.id) (b7 : p.id < 65536) (b10 : qhop < 256)
    (b11 : s.cfg.lport < 65536) (b12 : s.cfg.tport < 65536)
    (hne : pkt ≠ [])
    (hparse : parse (pkt.take bufSize) = some (l3, .icmp6 { type := ty, code := code, payload := rest4 ++
        (rawHdr6 qb1 qb2 qb3 p.id 17 qhop s.cfg.localA s.cfg.target ++
          ((be16 s.cfg.lport ++ be16 s.cfg.tport ++ w) ++ extra)) }))
    (hsrc : l3.src = r) (hf : s.sent.find? (·.id = p.id) = some p) :
    udpRecv s pkt = .accept p.ttl r (decide (r = s.cfg.target)) p.time := by
  have hinfo := icmpInfo6_quote (ty := ty) (code := code) (qb1 := qb1) (qb2 := qb2) (qb3 := qb3) (qplen := p.id) (qnh := 17)
    (qhop := qhop) (qsrc := s.cfg.localA) (qdst := s.cfg.target) (rest4 := rest4)
    (l4x := (be16 s.cfg.lport ++ be16 s.cfg.tport ++ w) ++ extra)
    hl htg hrest (by omega) b7 (by omega) (by omega) b10
  obtain ⟨hports, _⟩ := quoted8 (a := s.cfg.lport) (b := s.cfg.tport) (w := w) (extra := extra) (n := p.id) b6 hw b11 b12
  unfold udpRecv
  simp only [isEmpty_false_of_ne hne, hparse, hty, hinfo, hports, hf, hsrc, if_true, Bool.false_eq_true, if_false]
  simp

end TRV.Proofs

namespace TRV.Proofs
open TRV TRV.Wire TRV.Build TRV.Drv

/-- gopacket's IPv6 decoder on a header whose next header is 0 (hop-by-hop), followed by a hop-by-hop
    header `[next, hlen] ++ tlvs` of `hlen*8 + 8` bytes and any bytes `l4`: the hop-by-hop header is
    decoded in place, `upper` is its next-header field, the payload is what follows it -/
theorem ip6_rawHdr6_hbh {b1 b2 b3 plen hop hnext hlen : Nat} {src dst tlvs l4 : Bytes} {opts : List (Nat × Bytes)}
    (hs : src.length = 16) (hd : dst.length = 16)
    (hplen : 0 < plen) (hpl : plen < 65536) (hhop : hop < 256) (hn : hnext < 256) (hh : hlen < 256)
    (htl : tlvs.length = hlen * 8 + 6)
    (htlv : hbhTLVs (hlen * 8 + 8) ([byte hnext, byte hlen] ++ tlvs ++ l4) 2 (hlen * 8 + 8) = some opts)
    (hj : hbhJumbo opts = some none) :
    ip6 (rawHdr6 b1 b2 b3 plen 0 hop src dst ++ ([byte hnext, byte hlen] ++ tlvs ++ l4)) =
      some { len := plen, nextHeader := 0, hop := hop, src := src, dst := dst, upper := hnext, payload := l4.take plen } := by
  have hL := rawHdr6_length b1 b2 b3 plen 0 hop src dst hs hd
  obtain ⟨s0, s1, s2, s3, s4, s5, s6, s7, s8, s9, s10, s11, s12, s13, s14, s15, rfl⟩ := len16' hs
  obtain ⟨d0, d1, d2, d3, d4, d5, d6, d7, d8, d9, d10, d11, d12, d13, d14, d15, rfl⟩ := len16' hd
  generalize hPL : [byte hnext, byte hlen] ++ tlvs ++ l4 = PL at htlv
  have hPLlen : PL.length = 2 + tlvs.length + l4.length := by subst hPL; simp; omega
  have e4 : u16 (rawHdr6 b1 b2 b3 plen 0 hop [s0, s1, s2, s3, s4, s5, s6, s7, s8, s9, s10, s11, s12, s13, s14, s15]
      [d0, d1, d2, d3, d4, d5, d6, d7, d8, d9, d10, d11, d12, d13, d14, d15] ++ PL) 4 = some plen := by
    simp [rawHdr6, be16, u16, u8]
    rw [byte_toNat (by omega), byte_toNat (by omega)]; omega
  have e6 : u8 (rawHdr6 b1 b2 b3 plen 0 hop [s0, s1, s2, s3, s4, s5, s6, s7, s8, s9, s10, s11, s12, s13, s14, s15]
      [d0, d1, d2, d3, d4, d5, d6, d7, d8, d9, d10, d11, d12, d13, d14, d15] ++ PL) 6 = some 0 := by
    simp [rawHdr6, be16, u8, byte_toNat]
  have e7 : u8 (rawHdr6 b1 b2 b3 plen 0 hop [s0, s1, s2, s3, s4, s5, s6, s7, s8, s9, s10, s11, s12, s13, s14, s15]
      [d0, d1, d2, d3, d4, d5, d6, d7, d8, d9, d10, d11, d12, d13, d14, d15] ++ PL) 7 = some hop := by
    simp [rawHdr6, be16, u8, byte_toNat, hhop]
  have hsrc : slice (rawHdr6 b1 b2 b3 plen 0 hop [s0, s1, s2, s3, s4, s5, s6, s7, s8, s9, s10, s11, s12, s13, s14, s15]
      [d0, d1, d2, d3, d4, d5, d6, d7, d8, d9, d10, d11, d12, d13, d14, d15] ++ PL) 8 16 =
      [s0, s1, s2, s3, s4, s5, s6, s7, s8, s9, s10, s11, s12, s13, s14, s15] := by
    simp [rawHdr6, be16, slice]
  have hdst : slice (rawHdr6 b1 b2 b3 plen 0 hop [s0, s1, s2, s3, s4, s5, s6, s7, s8, s9, s10, s11, s12, s13, s14, s15]
      [d0, d1, d2, d3, d4, d5, d6, d7, d8, d9, d10, d11, d12, d13, d14, d15] ++ PL) 24 16 =
      [d0, d1, d2, d3, d4, d5, d6, d7, d8, d9, d10, d11, d12, d13, d14, d15] := by
    simp [rawHdr6, be16, slice]
  have hdrop : (rawHdr6 b1 b2 b3 plen 0 hop [s0, s1, s2, s3, s4, s5, s6, s7, s8, s9, s10, s11, s12, s13, s14, s15]
      [d0, d1, d2, d3, d4, d5, d6, d7, d8, d9, d10, d11, d12, d13, d14, d15] ++ PL).drop 40 = PL := by
    simp [rawHdr6, be16]
  have p0 : u8 PL 0 = some hnext := by subst hPL; simp [u8, byte_toNat, hn]
  have p1 : u8 PL 1 = some hlen := by subst hPL; simp [u8, byte_toNat, hh]
  have pdrop : PL.drop (hlen * 8 + 8) = l4 := by
    subst hPL
    have : ([byte hnext, byte hlen] ++ tlvs).length = hlen * 8 + 8 := by simp; omega
    rw [← this]; simp
  unfold ip6
  rw [if_neg (by rw [List.length_append, hL]; omega), e4, e6, e7]
  simp only [hsrc, hdst, hdrop, if_true]
  rw [if_neg (by omega), p0, p1]
  simp only
  rw [if_neg (by omega), htlv]
  simp only [hj, pdrop]
  rw [if_neg (by omega)]

end TRV.Proofs

namespace TRV.Proofs
open TRV TRV.Wire TRV.Build TRV.Drv

/-- an ICMPv6 message behind a hop-by-hop header `[58, hlen] ++ tlvs` -/
def icmpMsg6h (ob1 ob2 ob3 ohop : Nat) (r dst : Bytes) (hlen : Nat) (tlvs : Bytes) (ty code ick : Nat) (rest4 body : Bytes) : Bytes :=
  rawHdr6 ob1 ob2 ob3 (hlen * 8 + 8 + (8 + body.length)) 0 ohop r dst ++
    ([byte 58, byte hlen] ++ tlvs ++ (([byte ty, byte code] ++ be16 ick ++ rest4) ++ body))

theorem parse_icmpMsg6h {ob1 ob2 ob3 ohop hlen ty code ick : Nat} {r dst tlvs rest4 body : Bytes} {opts : List (Nat × Bytes)}
    (hr : r.length = 16) (hd : dst.length = 16) (hrest : rest4.length = 4)
    (hhop : ohop < 256) (hty : ty < 256) (hco : code < 256) (hh : hlen < 256) (htl : tlvs.length = hlen * 8 + 6)
    (htlv : hbhTLVs (hlen * 8 + 8) ([byte 58, byte hlen] ++ tlvs ++ (([byte ty, byte code] ++ be16 ick ++ rest4) ++ body)) 2 (hlen * 8 + 8) = some opts)
    (hj : hbhJumbo opts = some none)
    (hsize : 40 + (hlen * 8 + 8 + (8 + body.length)) ≤ 1024) :
    ∃ l3, parse ((icmpMsg6h ob1 ob2 ob3 ohop r dst hlen tlvs ty code ick rest4 body).take bufSize) =
      some (l3, .icmp6 { type := ty, code := code, payload := rest4 ++ body }) ∧ l3.src = r := by
  have hlenpl : (([byte ty, byte code] ++ be16 ick ++ rest4) ++ body).length = 8 + body.length := by
    simp [be16, hrest]; omega
  have hL : (icmpMsg6h ob1 ob2 ob3 ohop r dst hlen tlvs ty code ick rest4 body).length = 40 + (hlen * 8 + 8 + (8 + body.length)) := by
    unfold icmpMsg6h
    rw [List.length_append, rawHdr6_length _ _ _ _ _ _ _ _ hr hd, List.length_append, hlenpl]; simp; omega
  rw [take_of_le (by rw [hL]; simp [bufSize]; omega)]
  have hip := ip6_rawHdr6_hbh (b1 := ob1) (b2 := ob2) (b3 := ob3) (plen := hlen * 8 + 8 + (8 + body.length)) (hop := ohop)
    (hnext := 58) (hlen := hlen) (src := r) (dst := dst) (tlvs := tlvs)
    (l4 := ([byte ty, byte code] ++ be16 ick ++ rest4) ++ body) hr hd (by omega) (by omega) hhop (by omega) hh htl htlv hj
  rw [take_of_le (by rw [hlenpl]; omega)] at hip
  obtain ⟨a, b, c, d, rfl⟩ := len4 hrest
  have hb0 : u8 (icmpMsg6h ob1 ob2 ob3 ohop r dst hlen tlvs ty code ick [a, b, c, d] body) 0 = some (0x60 + (ob1 / 256) % 16) := by
    simp [icmpMsg6h, rawHdr6, u8]; rw [byte_toNat (by omega)]
  refine ⟨.v6 { len := hlen * 8 + 8 + (8 + body.length), nextHeader := 0, hop := ohop, src := r, dst := dst, upper := 58,
                payload := [byte ty, byte code] ++ be16 ick ++ [a, b, c, d] ++ body }, ?_, rfl⟩
  unfold parse
  rw [hb0]
  have hv : (0x60 + (ob1 / 256) % 16) / 16 = 6 := by omega
  simp only [hv, show ((6 : Nat) = 4) = False by decide, if_false, if_true]
  unfold icmpMsg6h
  rw [hip]
  have hne : (([byte ty, byte code] ++ be16 ick ++ [a, b, c, d]) ++ body).isEmpty = false := by simp [be16]
  simp only [hne, Bool.false_eq_true, if_false]
  simp [Wire.icmp6, be16, u8, byte_toNat, hty, hco]

end TRV.Proofs

namespace TRV.Proofs
open TRV TRV.Wire TRV.Build TRV.Drv

theorem icmpMsg6h_ne {ob1 ob2 ob3 ohop hlen ty code ick : Nat} {r dst tlvs rest4 body : Bytes} :
    icmpMsg6h ob1 ob2 ob3 ohop r dst hlen tlvs ty code ick rest4 body ≠ [] := by
  simp [icmpMsg6h, rawHdr6]

/-- echo reply of the target behind a hop-by-hop header -/
theorem icmp6_echo_complete_hbh {s : IcmpSt} {t : Nat} {p : Sent}
    {ob1 ob2 ob3 ohop hlen code ick : Nat} {tlvs body : Bytes} {opts : List (Nat × Bytes)}
    (hl : s.cfg.localA.length = 16) (htg : s.cfg.target.length = 16)
    (b3 : ohop < 256) (b4 : code < 256) (hh : hlen < 256) (htl : tlvs.length = hlen * 8 + 6)
    (htlv : hbhTLVs (hlen * 8 + 8) ([byte 58, byte hlen] ++ tlvs ++
      (([byte 129, byte code] ++ be16 ick ++ (be16 s.cfg.echoId ++ be16 t)) ++ body)) 2 (hlen * 8 + 8) = some opts)
    (hj : hbhJumbo opts = some none)
    (b13 : s.cfg.echoId < 65536) (b14 : t < 65536)
    (hsize : 40 + (hlen * 8 + 8 + (8 + body.length)) ≤ 1024) (hlk : icmpLookup s t = some p) :
    icmpRecv s (icmpMsg6h ob1 ob2 ob3 ohop s.cfg.target s.cfg.localA hlen tlvs 129 code ick (be16 s.cfg.echoId ++ be16 t) body) =
      .accept t s.cfg.target true p.time := by
  obtain ⟨l3, hparse, hsrc⟩ := parse_icmpMsg6h (ob1 := ob1) (ob2 := ob2) (ob3 := ob3) (ohop := ohop) (hlen := hlen) (ty := 129) (code := code)
    (ick := ick) (r := s.cfg.target) (dst := s.cfg.localA) (tlvs := tlvs) (rest4 := be16 s.cfg.echoId ++ be16 t) (body := body)
    htg hl (by simp [be16]) b3 (by omega) b4 hh htl htlv hj hsize
  exact icmp6_echo_of_parse icmpMsg6h_ne b13 b14 hparse hsrc hlk

/-- time-exceeded quoting our echo request, behind a hop-by-hop header -/
theorem icmp6_te_complete_hbh {s : IcmpSt} {t : Nat} {p : Sent}
    {ob1 ob2 ob3 ohop hlen code ick qb1 qb2 qb3 qplen qhop ety ecode eck : Nat} {r rest4 tlvs extra : Bytes} {opts : List (Nat × Bytes)}
    (hl : s.cfg.localA.length = 16) (htg : s.cfg.target.length = 16) (hr : r.length = 16) (hrest : rest4.length = 4)
    (b3 : ohop < 256) (b4 : code < 256) (hh : hlen < 256) (htl : tlvs.length = hlen * 8 + 6)
    (b6 : 8 ≤ qplen) (b7 : qplen < 65536) (b10 : qhop < 256)
    (b11 : ety = 128 ∨ ety = 129) (b12 : ecode < 256) (b13 : s.cfg.echoId < 65536) (b14 : t < 65536)
    (htlv : hbhTLVs (hlen * 8 + 8) ([byte 58, byte hlen] ++ tlvs ++
      (([byte 3, byte code] ++ be16 ick ++ rest4) ++ (rawHdr6 qb1 qb2 qb3 qplen 58 qhop s.cfg.localA s.cfg.target ++
          (([byte ety, byte ecode] ++ be16 eck ++ be16 s.cfg.echoId ++ be16 t) ++ extra)))) 2 (hlen * 8 + 8) = some opts)
    (hj : hbhJumbo opts = some none)
    (hsize : 40 + (hlen * 8 + 8 + (8 + (48 + extra.length))) ≤ 1024) (hlk : icmpLookup s t = some p) :
    icmpRecv s (icmpMsg6h ob1 ob2 ob3 ohop r s.cfg.localA hlen tlvs 3 code ick rest4
        (rawHdr6 qb1 qb2 qb3 qplen 58 qhop s.cfg.localA s.cfg.target ++
          (([byte ety, byte ecode] ++ be16 eck ++ be16 s.cfg.echoId ++ be16 t) ++ extra))) =
      .accept t r false p.time := by
  have hbody : (rawHdr6 qb1 qb2 qb3 qplen 58 qhop s.cfg.localA s.cfg.target ++
      (([byte ety, byte ecode] ++ be16 eck ++ be16 s.cfg.echoId ++ be16 t) ++ extra)).length = 48 + extra.length := by
    rw [List.length_append, rawHdr6_length _ _ _ _ _ _ _ _ hl htg]; simp [be16]; omega
  obtain ⟨l3, hparse, hsrc⟩ := parse_icmpMsg6h (ob1 := ob1) (ob2 := ob2) (ob3 := ob3) (ohop := ohop) (hlen := hlen) (ty := 3) (code := code)
    (ick := ick) (r := r) (dst := s.cfg.localA) (tlvs := tlvs) (rest4 := rest4)
    (body := rawHdr6 qb1 qb2 qb3 qplen 58 qhop s.cfg.localA s.cfg.target ++
      (([byte ety, byte ecode] ++ be16 eck ++ be16 s.cfg.echoId ++ be16 t) ++ extra))
    hr hl hrest b3 (by omega) b4 hh htl htlv hj (by rw [hbody]; omega)
  exact icmp6_te_of_parse hl htg hrest b6 b7 b10 b11 b12 b13 b14 icmpMsg6h_ne hparse hsrc hlk

/-- ICMPv6 error quoting our UDP datagram, behind a hop-by-hop header -/
theorem udp6_err_complete_hbh {s : UdpSt} {p : Sent}
    {ob1 ob2 ob3 ohop hlen ty code ick qb1 qb2 qb3 qhop : Nat} {r rest4 w tlvs extra : Bytes} {opts : List (Nat × Bytes)}
    (hl : s.cfg.localA.length = 16) (htg : s.cfg.target.length = 16) (hr : r.length = 16) (hrest : rest4.length = 4)
    (hw : w.length = 4)
    (b3 : ohop < 256) (b4 : code < 256) (hty : (ty = 3 ∧ code = 0) ∨ ty = 1) (hh : hlen < 256) (htl : tlvs.length = hlen * 8 + 6)
    (b6 : 8 ≤ p.id) (b7 : p.id < 65536) (b10 : qhop < 256)
    (b11 : s.cfg.lport < 65536) (b12 : s.cfg.tport < 65536)
    (htlv : hbhTLVs (hlen * 8 + 8) ([byte 58, byte hlen] ++ tlvs ++
      (([byte ty, byte code] ++ be16 ick ++ rest4) ++ (rawHdr6 qb1 qb2 qb3 p.id 17 qhop s.cfg.localA s.cfg.target ++
          ((be16 s.cfg.lport ++ be16 s.cfg.tport ++ w) ++ extra)))) 2 (hlen * 8 + 8) = some opts)
    (hj : hbhJumbo opts = some none)
    (hsize : 40 + (hlen * 8 + 8 + (8 + (48 + extra.length))) ≤ 1024) (hf : s.sent.find? (·.id = p.id) = some p) :
    udpRecv s (icmpMsg6h ob1 ob2 ob3 ohop r s.cfg.localA hlen tlvs ty code ick rest4
        (rawHdr6 qb1 qb2 qb3 p.id 17 qhop s.cfg.localA s.cfg.target ++
          ((be16 s.cfg.lport ++ be16 s.cfg.tport ++ w) ++ extra))) =
      .accept p.ttl r (decide (r = s.cfg.target)) p.time := by
  have hbody : (rawHdr6 qb1 qb2 qb3 p.id 17 qhop s.cfg.localA s.cfg.target ++
      ((be16 s.cfg.lport ++ be16 s.cfg.tport ++ w) ++ extra)).length = 48 + extra.length := by
    rw [List.length_append, rawHdr6_length _ _ _ _ _ _ _ _ hl htg]; simp [be16, hw]; omega
  have htyl : ty < 256 := by rcases hty with ⟨h, _⟩ | h <;> omega
  obtain ⟨l3, hparse, hsrc⟩ := parse_icmpMsg6h (ob1 := ob1) (ob2 := ob2) (ob3 := ob3) (ohop := ohop) (hlen := hlen) (ty := ty) (code := code)
    (ick := ick) (r := r) (dst := s.cfg.localA) (tlvs := tlvs) (rest4 := rest4)
    (body := rawHdr6 qb1 qb2 qb3 p.id 17 qhop s.cfg.localA s.cfg.target ++
      ((be16 s.cfg.lport ++ be16 s.cfg.tport ++ w) ++ extra))
    hr hl hrest b3 htyl b4 hh htl htlv hj (by rw [hbody]; omega)
  exact udp6_err_of_parse hl htg hrest hw hty b6 b7 b10 b11 b12 icmpMsg6h_ne hparse hsrc hf

/-- the TLV hypothesis is satisfiable whatever follows: a PadN option filling the 8-byte header
    (`[58, 0, 1, 4, 0, 0, 0, 0]`, what the catalogue's `outer-hbh` form carries) -/
theorem hbh_padn_ok (l4 : Bytes) :
    hbhTLVs 8 ([byte 58, byte 0] ++ [1, 4, 0, 0, 0, 0] ++ l4) 2 8 = some [(1, [0, 0, 0, 0])] ∧
    hbhJumbo [(1, [0, 0, 0, 0])] = some none := by
  constructor
  · simp [hbhTLVs, slice, byte_toNat]
  · rfl

end TRV.Proofs
