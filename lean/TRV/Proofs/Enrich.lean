import TRV.Spec.Enrich
/-!
# Helper lemmas for C18 (and the public-IP part of C08)

(a) the reverse-DNS map is determined by the successful completions; (b) the cache invariant
"every entry was stored by a successful callback for that key, with that key's expiry" over the
interleaving semantics; (c) `backoff.Retry` fast-forward over a retryable prefix, `GetPublicIP`
against the declarative spec, elapsed-time bounds, and the agreement of the executable spec forms
with the declarative ones.
-/
namespace TRV.Proofs.Enr
open TRV TRV.Enrich TRV.Spec.Enr

section RDns
variable {ν β γ δ κ : Type}

theorem complete_apply (m : DnsMap ν) (c : Completion ν) (k : Bytes) :
    complete m c k = match c.2 with
      | some v => if k = c.1 then some v else m k
      | none => m k := by
  unfold complete DnsMap.write
  cases c.2 <;> rfl

theorem foldl_complete_none (σ : List (Completion ν)) (m : DnsMap ν) (k : Bytes)
    (h : ∀ c ∈ σ, c.1 = k → c.2 = none) : σ.foldl complete m k = m k := by
  induction σ generalizing m with
  | nil => rfl
  | cons c σ ih =>
    simp only [List.foldl_cons]
    rw [ih _ (fun c' hc' => h c' (List.mem_cons_of_mem _ hc'))]
    rw [complete_apply]
    cases hc : c.2 with
    | none => rfl
    | some v =>
      have : c.1 ≠ k := fun e => by have := h c (List.mem_cons_self) e; simp [hc] at this
      simp [Ne.symm this]

theorem foldl_complete_some (σ : List (Completion ν)) (m : DnsMap ν) (k : Bytes) (v : ν)
    (h : ∀ c ∈ σ, c.1 = k → c.2 = some v) (h2 : m k = some v ∨ ∃ c ∈ σ, c.1 = k) :
    σ.foldl complete m k = some v := by
  induction σ generalizing m with
  | nil => simpa using h2
  | cons c σ ih =>
    simp only [List.foldl_cons]
    apply ih _ (fun c' hc' => h c' (List.mem_cons_of_mem _ hc'))
    rw [complete_apply]
    by_cases e : c.1 = k
    · left
      have := h c List.mem_cons_self e
      simp [this, e]
    · rcases h2 with h2 | ⟨c', hc', e'⟩
      · left
        cases hc : c.2 with
        | none => simpa using h2
        | some w => simp [Ne.symm e, h2]
      · rcases List.mem_cons.mp hc' with rfl | hc'
        · exact absurd e' e
        · right; exact ⟨c', hc', e'⟩

theorem foldl_complete_mem (σ : List (Completion ν)) (m : DnsMap ν) (k : Bytes) (v : ν)
    (h : σ.foldl complete m k = some v) : m k = some v ∨ (k, some v) ∈ σ := by
  induction σ generalizing m with
  | nil => left; simpa using h
  | cons c σ ih =>
    simp only [List.foldl_cons] at h
    rcases ih _ h with h1 | h1
    · rw [complete_apply] at h1
      cases hc : c.2 with
      | none => left; simpa [hc] using h1
      | some w =>
        simp only [hc] at h1
        by_cases e : k = c.1
        · right
          simp only [e, if_true] at h1
          have : c = (k, some v) := by
            cases c; simp_all
          simp [this]
        · left; simpa [e] using h1
    · right; exact List.mem_cons_of_mem _ h1

theorem foldl_complete_isSome (σ : List (Completion ν)) (m : DnsMap ν) (k : Bytes)
    (h : (m k).isSome ∨ ∃ v, (k, some v) ∈ σ) : (σ.foldl complete m k).isSome := by
  induction σ generalizing m with
  | nil => simpa using h
  | cons c σ ih =>
    simp only [List.foldl_cons]
    apply ih
    rcases h with h | ⟨v, hv⟩
    · left
      rw [complete_apply]
      cases hc : c.2 with
      | none => simpa using h
      | some w => by_cases e : k = c.1 <;> simp [e, h]
    · rcases List.mem_cons.mp hv with rfl | hv
      · left; rw [complete_apply]; simp
      · right; exact ⟨v, hv⟩

/-! ### document-level lemmas -/

theorem assignRun_ips (m : DnsMap ν) (r : Run ν β γ) : (assignRun m r).ips = r.ips := by
  simp [assignRun, Run.ips, assignHop, List.map_map, Function.comp_def]

theorem assign_ips (m : DnsMap ν) (d : Doc ν β γ δ) : (assign m d).ips = d.ips := by
  simp only [assign, Doc.ips, List.flatMap_map]
  congr 1; funext r; exact assignRun_ips m r

theorem assignRun_namesList (m : DnsMap ν) (r : Run ν β γ) : (assignRun m r).namesList = r.ips.map m := by
  simp [assignRun, Run.namesList, Run.ips, assignHop, List.map_map, Function.comp_def]

theorem assign_namesList (m : DnsMap ν) (d : Doc ν β γ δ) : (assign m d).namesList = d.ips.map m := by
  simp only [assign, Doc.namesList, Doc.ips, List.flatMap_map, List.map_flatMap]
  congr 1; funext r; exact assignRun_namesList m r

theorem eraseNames_assign (m : DnsMap ν) (d : Doc ν β γ δ) : eraseNames (assign m d) = eraseNames d := by
  simp [eraseNames, assign, assignRun, assignHop, List.map_map, Function.comp_def]

theorem destIp_mem_ips {d : Doc ν β γ δ} {r : Run ν β γ} (hr : r ∈ d.runs) : r.destIp ∈ d.ips := by
  simp only [Doc.ips, List.mem_flatMap]
  exact ⟨r, hr, by simp [Run.ips]⟩

theorem hopIp_mem_ips {d : Doc ν β γ δ} {r : Run ν β γ} {h : Hop ν β} (hr : r ∈ d.runs) (hh : h ∈ r.hops) :
    h.ip ∈ d.ips := by
  simp only [Doc.ips, List.mem_flatMap]
  exact ⟨r, hr, by simp only [Run.ips, List.mem_cons, List.mem_map]; exact Or.inr ⟨h, hh, rfl⟩⟩

theorem hopsSatisfy_assign (P : Bytes → Names ν → Prop) (m : DnsMap ν) (d : Doc ν β γ δ)
    (h : ∀ ip ∈ d.ips, P ip (m ip)) : HopsSatisfy P (assign m d) := by
  intro r hr
  simp only [assign, List.mem_map] at hr
  obtain ⟨r0, hr0, rfl⟩ := hr
  refine ⟨?_, ?_⟩
  · show P r0.destIp (m r0.destIp)
    exact h _ (destIp_mem_ips hr0)
  intro hp hhp
  simp only [assignRun, List.mem_map] at hhp
  obtain ⟨h0, hh0, rfl⟩ := hhp
  show P h0.ip (m h0.ip)
  exact h _ (hopIp_mem_ips hr0 hh0)

/-! ### the map after the fan-out -/

theorem lookupIP_eq_want (str : Bytes → κ) (resolver : κ → Option ν) (ip : Bytes) :
    lookupIP str resolver ip = want str resolver ip := by
  unfold lookupIP want
  cases ip <;> simp

theorem buildMap_fromSame (σ : List (Completion ν)) (ip : Bytes) : FromSameAddress σ ip (buildMap σ ip) := by
  refine ⟨fun v hv => ?_, ⟨fun hn c hc e => ?_, fun h => ?_⟩⟩
  · rcases foldl_complete_mem σ DnsMap.empty ip v hv with h | h
    · simp [DnsMap.empty] at h
    · exact h
  · cases hc2 : c.2 with
    | none => rfl
    | some v =>
      have : (buildMap σ ip).isSome := foldl_complete_isSome σ _ ip
        (Or.inr ⟨v, by cases c; simp_all⟩)
      simp [hn] at this
  · have := foldl_complete_none σ DnsMap.empty ip h
    simpa [DnsMap.empty, buildMap] using this

theorem buildMap_consistent {σ : List (Completion ν)} (hc : Consistent σ) {c : Completion ν} (hm : c ∈ σ) :
    buildMap σ c.1 = c.2 := by
  cases h2 : c.2 with
  | none =>
    have := foldl_complete_none σ DnsMap.empty c.1 (fun c' hc' e => by rw [hc c' hc' c hm e, h2])
    simpa [DnsMap.empty, buildMap] using this
  | some v =>
    exact foldl_complete_some σ DnsMap.empty c.1 v (fun c' hc' e => by rw [hc c' hc' c hm e, h2])
      (Or.inr ⟨c, hm, rfl⟩)

theorem consistent_perm {cs σ : List (Completion ν)} (hp : σ.Perm cs) (hc : Consistent cs) : Consistent σ :=
  fun c h c' h' e => hc c (hp.mem_iff.mp h) c' (hp.mem_iff.mp h') e

theorem names_exact_partial (d : Doc ν β γ δ) (cs σ : List (Completion ν))
    (hips : cs.map Prod.fst = d.ips) (hp : σ.Perm cs) (hc : Consistent cs) :
    (enrichWith σ d).namesList = cs.map Prod.snd := by
  unfold enrichWith
  rw [assign_namesList, ← hips, List.map_map]
  apply List.map_congr_left
  intro c hcm
  exact buildMap_consistent (consistent_perm hp hc) (hp.mem_iff.mpr hcm)

theorem consistent_of_fun (f : Bytes → Option ν) (order : List Bytes) :
    Consistent (order.map fun ip => (ip, f ip)) := by
  intro c hc c' hc' e
  simp only [List.mem_map] at hc hc'
  obtain ⟨a, _, rfl⟩ := hc
  obtain ⟨b, _, rfl⟩ := hc'
  simp only at e
  simp [e]

theorem names_exact (str : Bytes → κ) (resolver : κ → Option ν) (d : Doc ν β γ δ) (order : List Bytes)
    (hp : order.Perm d.ips) :
    NamesExact (want str resolver) (enrichOrder str resolver order d) := by
  unfold NamesExact enrichOrder enrichWith
  apply hopsSatisfy_assign
  intro ip hip
  have hmem : ip ∈ order := hp.mem_iff.mpr hip
  have hc := consistent_of_fun (lookupIP str resolver) order
  have := buildMap_consistent hc (c := (ip, lookupIP str resolver ip))
    (List.mem_map.mpr ⟨ip, hmem, rfl⟩)
  simp only at this
  rw [this, lookupIP_eq_want]

theorem rest_untouched (σ : List (Completion ν)) (d : Doc ν β γ δ) : RestUntouched d (enrichWith σ d) :=
  eraseNames_assign _ d

end RDns

section CacheLemmas
variable {K V : Type} [DecidableEq K]

/-! ### cache -/

theorem expOf_zero_iff (t0 t1 : Nat) (d : Int) : expOf t0 d = 0 ↔ expOf t1 d = 0 := by
  unfold expOf
  by_cases h0 : d = 0
  · simp [h0, defaultExpire]
  · simp only [h0, if_false]
    by_cases h : d > 0
    · simp only [h, if_true]; omega
    · simp [h]

theorem expOf_mono {t0 t1 : Nat} (h : t0 ≤ t1) (d : Int) : expOf t0 d ≤ expOf t1 d := by
  unfold expOf
  by_cases h0 : d = 0
  · simp [h0, defaultExpire]; omega
  · simp only [h0, if_false]
    by_cases h' : d > 0
    · simp only [h', if_true]; omega
    · simp [h']

/-- the model's freshness test is the spec's "still within its expiry" -/
theorem fresh_iff_stillValid (v : V) (t now : Nat) (d : Int) :
    (Entry.mk v (expOf t d)).fresh now = stillValid now t d := by
  unfold Entry.fresh stillValid expOf
  by_cases h0 : d = 0
  · simp [h0, defaultExpire]
  · simp only [h0, if_false]
    by_cases h' : d > 0
    · have : ¬ d ≤ 0 := by omega
      have h1 : t + d.toNat ≠ 0 := by omega
      simp [h', this]
    · have : d ≤ 0 := by omega
      simp [h', this]

/-- every entry was put there by a successful callback for that key -/
def CInv (ttl : K → Int) (tr : List (CLabel K V)) (s : CSt K V) : Prop :=
  ∀ k e, s.store k = some e →
    ∃ id t, CLabel.stored id k e.val t ∈ tr ∧ e.exp = expOf t (ttl k) ∧ t ≤ s.now

theorem cinv_step {ttl : K → Int} {tr : List (CLabel K V)} {s s' : CSt K V} {l : CLabel K V}
    (hi : CInv ttl tr s) (hs : CStep ttl s l s') : CInv ttl (l :: tr) s' := by
  cases hs with
  | tick d =>
    intro k e he
    obtain ⟨id, t, hm, hx, ht⟩ := hi k e he
    exact ⟨id, t, List.mem_cons_of_mem _ hm, hx, by simp only; omega⟩
  | getHit id k v hp hg =>
    intro k' e he
    obtain ⟨id', t, hm, hx, ht⟩ := hi k' e he
    exact ⟨id', t, List.mem_cons_of_mem _ hm, hx, ht⟩
  | getMiss id k hp hg =>
    intro k' e he
    obtain ⟨id', t, hm, hx, ht⟩ := hi k' e he
    exact ⟨id', t, List.mem_cons_of_mem _ hm, hx, ht⟩
  | cbOk id k v hp =>
    intro k' e he
    simp only [Store.set] at he
    by_cases hk : k' = k
    · subst hk
      simp only [if_true, Option.some.injEq] at he
      subst he
      exact ⟨id, s.now, List.mem_cons_self, rfl, Nat.le_refl _⟩
    · simp only [hk, if_false] at he
      obtain ⟨id', t, hm, hx, ht⟩ := hi k' e he
      exact ⟨id', t, List.mem_cons_of_mem _ hm, hx, ht⟩
  | cbFail id k hp =>
    intro k' e he
    obtain ⟨id', t, hm, hx, ht⟩ := hi k' e he
    exact ⟨id', t, List.mem_cons_of_mem _ hm, hx, ht⟩

theorem cinv_reach {ttl : K → Int} {t0 : Nat} {tr : List (CLabel K V)} {s : CSt K V}
    (h : CReach ttl t0 tr s) : CInv ttl tr s := by
  induction h with
  | init => intro k e he; simp [CSt.init, Store.flush] at he
  | step _ hs ih => exact cinv_step ih hs

theorem step_now_le {ttl : K → Int} {s s' : CSt K V} {l : CLabel K V} (hs : CStep ttl s l s') :
    s.now ≤ s'.now := by
  cases hs <;> simp

theorem steps_now_le {ttl : K → Int} {s s' : CSt K V} (hs : CSteps ttl s s') : s.now ≤ s'.now := by
  induction hs with
  | refl => exact Nat.le_refl _
  | step _ h ih => exact Nat.le_trans ih (step_now_le h)

theorem reach_steps {ttl : K → Int} {t0 : Nat} {tr : List (CLabel K V)} {s s' : CSt K V}
    (h : CReach ttl t0 tr s) (hs : CSteps ttl s s') : ∃ tr', CReach ttl t0 tr' s' := by
  induction hs with
  | refl => exact ⟨tr, h⟩
  | step _ h1 ih => obtain ⟨tr', h'⟩ := ih; exact ⟨_, CReach.step h' h1⟩

/-- an entry present in a reachable state is only ever replaced by one that lives at least as long -/
theorem persist {ttl : K → Int} {t0 : Nat} {tr : List (CLabel K V)} {s s' : CSt K V} {k : K} {e : Entry V}
    (h : CReach ttl t0 tr s) (he : s.store k = some e) (hs : CSteps ttl s s') :
    ∃ e', s'.store k = some e' ∧ (e'.exp = 0 ↔ e.exp = 0) ∧ e.exp ≤ e'.exp := by
  obtain ⟨_, ts, _, hexp, hts⟩ := cinv_reach h k e he
  induction hs with
  | refl => exact ⟨e, he, Iff.rfl, Nat.le_refl _⟩
  | step hs1 h1 ih =>
    obtain ⟨e', he', hz, hle⟩ := ih
    have hnow := steps_now_le hs1
    cases h1 with
    | tick d => exact ⟨e', he', hz, hle⟩
    | getHit id k2 v hp hg => exact ⟨e', he', hz, hle⟩
    | getMiss id k2 hp hg => exact ⟨e', he', hz, hle⟩
    | cbFail id k2 hp => exact ⟨e', he', hz, hle⟩
    | cbOk id k2 v hp =>
      by_cases hk : k = k2
      · subst hk
        refine ⟨⟨v, _⟩, by simp only [Store.set, if_true]; rfl, ?_, ?_⟩
        · simp only; rw [hexp]; exact expOf_zero_iff _ _ _
        · simp only; rw [hexp]; exact expOf_mono (by omega) _
      · exact ⟨e', by simp [Store.set, hk, he'], hz, hle⟩

end CacheLemmas

/-! ### public IP -/

theorem classify_ok_iff (a : Attempt) (ip : Bytes) : classify a = .ok ip ↔ valid a = some ip := by
  cases a with
  | transport d => simp [classify, valid]
  | bodyErr st d => simp [classify, valid]
  | resp st body d =>
    simp only [classify, valid]
    by_cases h : 400 ≤ st ∧ st < 500
    · simp [h]
    · simp only [h, if_false]
      cases parseBody body <;> simp

theorem classify_permanent_iff (a : Attempt) : classify a = .permanent ↔ final a = true := by
  cases a with
  | transport d => simp [classify, final]
  | bodyErr st d => simp [classify, final]
  | resp st body d =>
    simp only [classify, final]
    by_cases h : 400 ≤ st ∧ st < 500
    · simp [h]
    · simp only [h, if_false]
      have : (decide (400 ≤ st) && decide (st < 500)) = false := by
        simpa [Bool.and_eq_false_iff, Nat.not_le, Nat.not_lt] using h
      cases hp : parseBody body <;> simp [this]

theorem classify_transient_iff (a : Attempt) : classify a = .transient ↔ retryable a = true := by
  cases a with
  | transport d => simp [classify, retryable, final, valid]
  | bodyErr st d => simp [classify, retryable, final, valid]
  | resp st body d =>
    simp only [classify, retryable, final, valid]
    by_cases h : 400 ≤ st ∧ st < 500
    · simp [h]
    · simp only [h, if_false]
      have : (decide (400 ≤ st) && decide (st < 500)) = false := by
        simpa [Bool.and_eq_false_iff, Nat.not_le, Nat.not_lt] using h
      cases hp : parseBody body <;> simp [this]

/-- time consumed by the first `k` (attempt, wait) pairs -/
def waitSum (script : List Attempt) (ivals : List Nat) (k : Nat) : Nat :=
  (((script.zip ivals).take k).map fun ab => ab.1.dur + ab.2).sum

theorem endOfWait_eq (p : Provider) (j : Nat) : endOfWait p j = waitSum p.script p.ivals (j + 1) := rfl

theorem waitSum_cons (a : Attempt) (rest : List Attempt) (b : Nat) (bs : List Nat) (k : Nat) :
    waitSum (a :: rest) (b :: bs) (k + 1) = a.dur + b + waitSum rest bs k := by
  simp [waitSum]

theorem waitSum_zero (script : List Attempt) (ivals : List Nat) : waitSum script ivals 0 = 0 := by
  simp [waitSum]

/-- attempts `0..k-1` were retryable and each following wait ended before the deadline -/
def ReachesFrom (el B : Nat) (script : List Attempt) (ivals : List Nat) (k : Nat) : Prop :=
  ∀ j, j < k → (∃ a b, script[j]? = some a ∧ retryable a = true ∧ ivals[j]? = some b) ∧
    el + waitSum script ivals (j + 1) < B

theorem reachesFrom_succ {el B : Nat} {script : List Attempt} {ivals : List Nat} {k : Nat}
    (h : ReachesFrom el B script ivals (k + 1)) :
    ∃ a rest b bs, script = a :: rest ∧ ivals = b :: bs ∧ retryable a = true ∧ el + a.dur + b < B ∧
      ReachesFrom (el + a.dur + b) B rest bs k := by
  obtain ⟨⟨a, b, ha, hr, hb⟩, hlt⟩ := h 0 (Nat.succ_pos _)
  cases script with
  | nil => simp at ha
  | cons a' rest =>
    cases ivals with
    | nil => simp at hb
    | cons b' bs =>
      simp only [List.getElem?_cons_zero, Option.some.injEq] at ha hb
      subst ha; subst hb
      refine ⟨a', rest, b', bs, rfl, rfl, hr, ?_, ?_⟩
      · rw [waitSum_cons, waitSum_zero] at hlt; omega
      · intro j hj
        obtain ⟨⟨a2, b2, ha2, hr2, hb2⟩, hlt2⟩ := h (j + 1) (by omega)
        refine ⟨⟨a2, b2, by simpa using ha2, hr2, by simpa using hb2⟩, ?_⟩
        rw [waitSum_cons] at hlt2; omega

theorem reachesFrom_cons {el B : Nat} {a : Attempt} {rest : List Attempt} {b : Nat} {bs : List Nat} {k : Nat}
    (hr : retryable a = true) (hlt : el + a.dur + b < B) (h : ReachesFrom (el + a.dur + b) B rest bs k) :
    ReachesFrom el B (a :: rest) (b :: bs) (k + 1) := by
  intro j hj
  cases j with
  | zero =>
    refine ⟨⟨a, b, rfl, hr, rfl⟩, ?_⟩
    rw [waitSum_cons, waitSum_zero]; omega
  | succ j =>
    obtain ⟨⟨a2, b2, ha2, hr2, hb2⟩, hlt2⟩ := h j (by omega)
    refine ⟨⟨a2, b2, by simpa using ha2, hr2, by simpa using hb2⟩, ?_⟩
    rw [waitSum_cons]; omega

theorem retry_step_transient {B el n : Nat} {a : Attempt} {rest : List Attempt} {b : Nat} {bs : List Nat}
    (hB : B ≤ maxElapsedTime) (hr : retryable a = true) (hlt : el + a.dur + b < B) :
    retry B (a :: rest) (b :: bs) el n = retry B rest bs (el + a.dur + b) (n + 1) := by
  have hc := (classify_transient_iff a).mpr hr
  have h1 : ¬ B ≤ el + a.dur := by omega
  have h2 : ¬ el + a.dur + b > maxElapsedTime := by omega
  have h3 : ¬ B ≤ el + a.dur + b := by omega
  rw [retry]
  simp only [hc, h1, h2, h3, if_false]

/-- fast-forward over the retryable prefix -/
theorem retry_ff {B : Nat} (hB : B ≤ maxElapsedTime) (k : Nat) :
    ∀ (script : List Attempt) (ivals : List Nat) (el n : Nat), ReachesFrom el B script ivals k →
      retry B script ivals el n =
        retry B (script.drop k) (ivals.drop k) (el + waitSum script ivals k) (n + k) := by
  induction k with
  | zero => intro script ivals el n _; simp [waitSum_zero]
  | succ k ih =>
    intro script ivals el n h
    obtain ⟨a, rest, b, bs, rfl, rfl, hr, hlt, h'⟩ := reachesFrom_succ h
    rw [retry_step_transient hB hr hlt, ih rest bs _ _ h', waitSum_cons]
    simp only [List.drop_succ_cons]
    congr 1 <;> omega

theorem retry_head_ok {B el n : Nat} {a : Attempt} {rest : List Attempt} {ivals : List Nat} {ip : Bytes}
    (hv : valid a = some ip) : retry B (a :: rest) ivals el n = ⟨.ok ip, n + 1, el + a.dur⟩ := by
  have hc := (classify_ok_iff a ip).mpr hv
  cases ivals <;> (rw [retry]; simp only [hc])

theorem retry_head_final {B el n : Nat} {a : Attempt} {rest : List Attempt} {ivals : List Nat}
    (hf : final a = true) : retry B (a :: rest) ivals el n = ⟨.permanent, n + 1, el + a.dur⟩ := by
  have hc := (classify_permanent_iff a).mpr hf
  cases ivals <;> (rw [retry]; simp only [hc])

theorem drop_of_getElem? {α : Type} {l : List α} {k : Nat} {a : α} (h : l[k]? = some a) :
    ∃ rest, l.drop k = a :: rest := by
  have hk : k < l.length := (List.getElem?_eq_some_iff.mp h).1
  have := List.drop_eq_getElem_cons hk
  rw [this]
  have : l[k] = a := (List.getElem?_eq_some_iff.mp h).2
  exact ⟨_, by rw [this]⟩

/-- reaching attempt `k` and meeting a valid address there ⇒ success after exactly `k+1` attempts -/
theorem retry_succeeds {B : Nat} (hB : B ≤ maxElapsedTime) {script : List Attempt} {ivals : List Nat}
    {el n k : Nat} {a : Attempt} {ip : Bytes}
    (hr : ReachesFrom el B script ivals k) (ha : script[k]? = some a) (hv : valid a = some ip) :
    retry B script ivals el n = ⟨.ok ip, n + k + 1, el + waitSum script ivals k + a.dur⟩ := by
  obtain ⟨rest, hd⟩ := drop_of_getElem? ha
  rw [retry_ff hB k _ _ _ _ hr, hd, retry_head_ok hv]

/-- reaching attempt `k` and meeting a client error / invalid body there ⇒ stop after `k+1` attempts -/
theorem retry_final {B : Nat} (hB : B ≤ maxElapsedTime) {script : List Attempt} {ivals : List Nat}
    {el n k : Nat} {a : Attempt}
    (hr : ReachesFrom el B script ivals k) (ha : script[k]? = some a) (hf : final a = true) :
    retry B script ivals el n = ⟨.permanent, n + k + 1, el + waitSum script ivals k + a.dur⟩ := by
  obtain ⟨rest, hd⟩ := drop_of_getElem? ha
  rw [retry_ff hB k _ _ _ _ hr, hd, retry_head_final hf]

/-- converse: a success was reached through a retryable prefix within the budget -/
theorem retry_ok_reaches {B : Nat} (script : List Attempt) :
    ∀ (ivals : List Nat) (el n : Nat) (ip : Bytes), (retry B script ivals el n).out = .ok ip →
      ∃ k a, ReachesFrom el B script ivals k ∧ script[k]? = some a ∧ valid a = some ip := by
  induction script with
  | nil => intro ivals el n ip h; simp [retry] at h
  | cons a rest ih =>
    intro ivals el n ip h
    have hret : ∀ iv, retry B (a :: rest) iv el n = (match classify a with
      | .ok ip => ⟨.ok ip, n + 1, el + a.dur⟩
      | .permanent => ⟨.permanent, n + 1, el + a.dur⟩
      | .transient =>
        if B ≤ el + a.dur then ⟨.ctxDone, n + 1, el + a.dur⟩
        else match iv with
          | [] => ⟨.scriptEnd, n + 1, el + a.dur⟩
          | b :: bs =>
            if el + a.dur + b > maxElapsedTime then ⟨.maxElapsed, n + 1, el + a.dur⟩
            else if B ≤ el + a.dur + b then ⟨.ctxDone, n + 1, B⟩
            else retry B rest bs (el + a.dur + b) (n + 1)) := by
      intro iv; cases iv <;> (rw [retry]) <;> rfl
    rw [hret] at h
    cases hc : classify a with
    | ok ip' =>
      simp only [hc] at h
      have : ip' = ip := by simpa using h
      subst this
      exact ⟨0, a, fun j hj => absurd hj (Nat.not_lt_zero _), rfl, (classify_ok_iff a _).mp hc⟩
    | permanent => simp [hc] at h
    | transient =>
      simp only [hc] at h
      by_cases h1 : B ≤ el + a.dur
      · simp [h1] at h
      · simp only [h1, if_false] at h
        cases ivals with
        | nil => simp at h
        | cons b bs =>
          simp only at h
          by_cases h2 : el + a.dur + b > maxElapsedTime
          · simp [h2] at h
          · simp only [h2, if_false] at h
            by_cases h3 : B ≤ el + a.dur + b
            · simp [h3] at h
            · simp only [h3, if_false] at h
              obtain ⟨k, a', hr, ha', hv⟩ := ih bs _ _ ip h
              exact ⟨k + 1, a', reachesFrom_cons ((classify_transient_iff a).mp hc) (by omega) hr,
                by simpa using ha', hv⟩

theorem reachesFrom_zero_iff (p : Provider) (k : Nat) :
    ReachesFrom 0 p.budget p.script p.ivals k ↔
      ∀ j, j < k → (∃ a b, p.script[j]? = some a ∧ retryable a = true ∧ p.ivals[j]? = some b) ∧
        endOfWait p j < p.budget := by
  simp [ReachesFrom, endOfWait_eq]

theorem succeedsAt_iff (p : Provider) (k : Nat) (ip : Bytes) :
    SucceedsAt p k ip ↔ (∃ a, p.script[k]? = some a ∧ valid a = some ip) ∧
      ReachesFrom 0 p.budget p.script p.ivals k := by
  rw [reachesFrom_zero_iff]; rfl

/-- a provider's run returns `ip` iff the spec says it yields `ip` within its budget -/
theorem run_ok_iff {p : Provider} (hB : p.budget ≤ maxElapsedTime) (ip : Bytes) :
    p.run.out = .ok ip ↔ ∃ k, SucceedsAt p k ip := by
  constructor
  · intro h
    obtain ⟨k, a, hr, ha, hv⟩ := retry_ok_reaches p.script p.ivals 0 0 ip h
    exact ⟨k, (succeedsAt_iff p k ip).mpr ⟨⟨a, ha, hv⟩, hr⟩⟩
  · rintro ⟨k, hs⟩
    obtain ⟨⟨a, ha, hv⟩, hr⟩ := (succeedsAt_iff p k ip).mp hs
    unfold Provider.run
    rw [retry_succeeds hB hr ha hv]

theorem run_attempts_of_succeedsAt {p : Provider} (hB : p.budget ≤ maxElapsedTime) {k : Nat} {ip : Bytes}
    (hs : SucceedsAt p k ip) : p.run.attempts = k + 1 := by
  obtain ⟨⟨a, ha, hv⟩, hr⟩ := (succeedsAt_iff p k ip).mp hs
  unfold Provider.run
  rw [retry_succeeds hB hr ha hv]; simp

theorem not_ok_iff {p : Provider} (hB : p.budget ≤ maxElapsedTime) :
    (∀ ip, p.run.out ≠ .ok ip) ↔ ¬ Succeeds p := by
  unfold Succeeds
  constructor
  · rintro h ⟨k, ip, hs⟩
    exact h ip ((run_ok_iff hB ip).mpr ⟨k, hs⟩)
  · intro h ip ho
    obtain ⟨k, hs⟩ := (run_ok_iff hB ip).mp ho
    exact h ⟨k, ip, hs⟩


/-! ### `GetPublicIP` -/

theorem getFrom_cons_ok {i : Nat} {p : Provider} {ps : List Provider} {ip : Bytes}
    (h : p.run.out = .ok ip) : getFrom i (p :: ps) = ⟨some (i, ip), [p.run]⟩ := by
  simp [getFrom, h]

theorem getFrom_cons_fail {i : Nat} {p : Provider} {ps : List Provider}
    (h : ∀ ip, p.run.out ≠ .ok ip) :
    getFrom i (p :: ps) = ⟨(getFrom (i + 1) ps).result, p.run :: (getFrom (i + 1) ps).trace⟩ := by
  cases ho : p.run.out with
  | ok ip => exact absurd ho (h ip)
  | permanent => simp [getFrom, ho]
  | ctxDone => simp [getFrom, ho]
  | maxElapsed => simp [getFrom, ho]
  | scriptEnd => simp [getFrom, ho]

theorem run_ok_or_fail (p : Provider) : (∃ ip, p.run.out = .ok ip) ∨ ∀ ip, p.run.out ≠ .ok ip := by
  cases h : p.run.out with
  | ok ip => exact Or.inl ⟨ip, rfl⟩
  | _ => right; intro ip hh; cases hh

theorem firstValid_cons_fail {p : Provider} {ps : List Provider} (hn : ¬ Succeeds p) (j : Nat) (ip : Bytes) :
    FirstValid (p :: ps) (j + 1) ip ↔ FirstValid ps j ip := by
  unfold FirstValid
  constructor
  · rintro ⟨⟨q, hq, hk⟩, hbefore⟩
    refine ⟨⟨q, by simpa using hq, hk⟩, ?_⟩
    intro j' hj' q' hq'
    exact hbefore (j' + 1) (by omega) q' (by simpa using hq')
  · rintro ⟨⟨q, hq, hk⟩, hbefore⟩
    refine ⟨⟨q, by simpa using hq, hk⟩, ?_⟩
    intro j' hj' q' hq'
    cases j' with
    | zero => simp at hq'; subst hq'; exact hn
    | succ j' => exact hbefore j' (by omega) q' (by simpa using hq')

theorem getFrom_result (ps : List Provider) (hb : ∀ p ∈ ps, p.budget ≤ maxElapsedTime) :
    ∀ (i0 i : Nat) (ip : Bytes),
      (getFrom i0 ps).result = some (i, ip) ↔ ∃ j, i = i0 + j ∧ FirstValid ps j ip := by
  induction ps with
  | nil =>
    intro i0 i ip
    simp [getFrom, FirstValid]
  | cons p ps ih =>
    intro i0 i ip
    have hp : p.budget ≤ maxElapsedTime := hb p List.mem_cons_self
    have hps : ∀ q ∈ ps, q.budget ≤ maxElapsedTime := fun q hq => hb q (List.mem_cons_of_mem _ hq)
    rcases run_ok_or_fail p with ⟨ip', hok⟩ | hfail
    · rw [getFrom_cons_ok hok]
      have hsucc : ∃ k, SucceedsAt p k ip' := (run_ok_iff hp ip').mp hok
      constructor
      · intro h
        simp only [Option.some.injEq, Prod.mk.injEq] at h
        obtain ⟨rfl, rfl⟩ := h
        refine ⟨0, rfl, ⟨p, rfl, hsucc⟩, fun j hj => absurd hj (Nat.not_lt_zero _)⟩
      · rintro ⟨j, rfl, ⟨q, hq, k, hk⟩, hbefore⟩
        cases j with
        | zero =>
          simp only [List.getElem?_cons_zero, Option.some.injEq] at hq
          subst hq
          have : p.run.out = .ok ip := (run_ok_iff hp ip).mpr ⟨k, hk⟩
          rw [hok] at this
          have : ip' = ip := by simpa using this
          simp [this]
        | succ j =>
          obtain ⟨k', hk'⟩ := hsucc
          exact absurd ⟨k', ip', hk'⟩ (hbefore 0 (Nat.succ_pos _) p rfl)
    · rw [getFrom_cons_fail hfail]
      have hn : ¬ Succeeds p := (not_ok_iff hp).mp hfail
      simp only
      rw [ih hps (i0 + 1) i ip]
      constructor
      · rintro ⟨j, rfl, hfv⟩
        exact ⟨j + 1, by omega, (firstValid_cons_fail hn j ip).mpr hfv⟩
      · rintro ⟨j, rfl, hfv⟩
        cases j with
        | zero =>
          obtain ⟨⟨q, hq, k, hk⟩, _⟩ := hfv
          simp only [List.getElem?_cons_zero, Option.some.injEq] at hq
          subst hq
          exact absurd ⟨k, ip, hk⟩ hn
        | succ j => exact ⟨j, by omega, (firstValid_cons_fail hn j ip).mp hfv⟩

theorem getFrom_none (ps : List Provider) (hb : ∀ p ∈ ps, p.budget ≤ maxElapsedTime) :
    ∀ i0, (getFrom i0 ps).result = none ↔ ∀ p ∈ ps, ¬ Succeeds p := by
  induction ps with
  | nil => intro i0; simp [getFrom]
  | cons p ps ih =>
    intro i0
    have hp : p.budget ≤ maxElapsedTime := hb p List.mem_cons_self
    have hps : ∀ q ∈ ps, q.budget ≤ maxElapsedTime := fun q hq => hb q (List.mem_cons_of_mem _ hq)
    rcases run_ok_or_fail p with ⟨ip', hok⟩ | hfail
    · rw [getFrom_cons_ok hok]
      simp only [reduceCtorEq, false_iff]
      intro h
      obtain ⟨k, hk⟩ := (run_ok_iff hp ip').mp hok
      exact h p List.mem_cons_self ⟨k, ip', hk⟩
    · rw [getFrom_cons_fail hfail]
      simp only
      rw [ih hps (i0 + 1)]
      have hn : ¬ Succeeds p := (not_ok_iff hp).mp hfail
      simp [hn]

/-- the trace is the providers' own runs, for a prefix of the list -/
theorem getFrom_trace (ps : List Provider) :
    ∀ i0, (getFrom i0 ps).trace = (ps.take (getFrom i0 ps).trace.length).map Provider.run := by
  induction ps with
  | nil => intro i0; simp [getFrom]
  | cons p ps ih =>
    intro i0
    rcases run_ok_or_fail p with ⟨ip', hok⟩ | hfail
    · rw [getFrom_cons_ok hok]; simp
    · rw [getFrom_cons_fail hfail]
      simp only [List.length_cons, List.take_succ_cons, List.map_cons, List.cons.injEq, true_and]
      exact ih (i0 + 1)

/-- nobody after the winner is contacted; without a winner everybody is -/
theorem getFrom_trace_length (ps : List Provider) :
    ∀ i0, (getFrom i0 ps).trace.length =
      match (getFrom i0 ps).result with
      | some (i, _) => i - i0 + 1
      | none => ps.length := by
  induction ps with
  | nil => intro i0; simp [getFrom]
  | cons p ps ih =>
    intro i0
    rcases run_ok_or_fail p with ⟨ip', hok⟩ | hfail
    · rw [getFrom_cons_ok hok]; simp
    · rw [getFrom_cons_fail hfail]
      simp only [List.length_cons]
      rw [ih (i0 + 1)]
      have hge : ∀ i ip, (getFrom (i0 + 1) ps).result = some (i, ip) → i0 + 1 ≤ i := by
        intro i ip h
        clear ih
        induction ps generalizing i0 with
        | nil => simp [getFrom] at h
        | cons q qs ihq =>
          rcases run_ok_or_fail q with ⟨ip2, hok2⟩ | hfail2
          · rw [getFrom_cons_ok hok2] at h; simp at h; omega
          · rw [getFrom_cons_fail hfail2] at h
            have := ihq (i0 + 1) h
            omega
      cases hr : (getFrom (i0 + 1) ps).result with
      | none => simp
      | some v =>
        obtain ⟨i, ip⟩ := v
        have := hge i ip hr
        simp only
        omega

/-! ### time bounds (the public-IP part of C08) -/

/-- whatever the endpoint does, `backoff.Retry` under the per-provider context returns within the
    budget plus the duration of one attempt -/
theorem retry_elapsed_le {B op : Nat} (script : List Attempt) :
    ∀ (ivals : List Nat) (el n : Nat), (∀ a ∈ script, a.dur ≤ op) → el ≤ B →
      (retry B script ivals el n).elapsed ≤ B + op := by
  induction script with
  | nil => intro ivals el n _ hel; simp [retry]; omega
  | cons a rest ih =>
    intro ivals el n hop hel
    have ha : a.dur ≤ op := hop a List.mem_cons_self
    have hrest : ∀ a' ∈ rest, a'.dur ≤ op := fun a' h => hop a' (List.mem_cons_of_mem _ h)
    cases ivals with
    | nil =>
      rw [retry]
      cases classify a <;> simp only <;> try omega
      split <;> simp only <;> omega
    | cons b bs =>
      rw [retry]
      cases classify a <;> simp only <;> try omega
      split
      · simp only; omega
      · split
        · simp only; omega
        · split
          · simp only; omega
          · exact ih bs _ _ hrest (by omega)

theorem run_elapsed_le {op : Nat} (p : Provider) (hop : ∀ a ∈ p.script, a.dur ≤ op) :
    p.run.elapsed ≤ p.budget + op :=
  retry_elapsed_le p.script p.ivals 0 0 hop (Nat.zero_le _)

theorem getFrom_elapsed_le {B op : Nat} (ps : List Provider)
    (h : ∀ p ∈ ps, p.budget ≤ B ∧ ∀ a ∈ p.script, a.dur ≤ op) :
    ∀ i0, (getFrom i0 ps).elapsed ≤ ps.length * (B + op) := by
  induction ps with
  | nil => intro i0; simp [getFrom, GRes.elapsed]
  | cons p ps ih =>
    intro i0
    have hp := h p List.mem_cons_self
    have hps : ∀ q ∈ ps, q.budget ≤ B ∧ ∀ a ∈ q.script, a.dur ≤ op := fun q hq => h q (List.mem_cons_of_mem _ hq)
    have h1 := run_elapsed_le p hp.2
    have hmul : (ps.length + 1) * (B + op) = ps.length * (B + op) + (B + op) := Nat.succ_mul _ _
    rcases run_ok_or_fail p with ⟨ip', hok⟩ | hfail
    · rw [getFrom_cons_ok hok]
      simp only [GRes.elapsed, List.map_cons, List.map_nil, List.sum_cons, List.sum_nil, List.length_cons]
      have := hp.1
      omega
    · rw [getFrom_cons_fail hfail]
      have := ih hps (i0 + 1)
      simp only [GRes.elapsed, List.map_cons, List.sum_cons, List.length_cons] at this ⊢
      have := hp.1
      omega


/-! ### the executable spec forms agree with the declarative ones -/

theorem waitSum_mono (script : List Attempt) (ivals : List Nat) {j k : Nat} (h : j ≤ k) :
    waitSum script ivals j ≤ waitSum script ivals k := by
  obtain ⟨d, rfl⟩ := Nat.exists_eq_add_of_le h
  simp only [waitSum, List.take_add, List.map_append, List.sum_append]
  omega

theorem valid_not_retryable {a : Attempt} {ip : Bytes} (h : valid a = some ip) : retryable a = false := by
  simp [retryable, h]

theorem providerYield_iff (p : Provider) (ip : Bytes) :
    providerYield p = some ip ↔ ∃ k, SucceedsAt p k ip := by
  constructor
  · intro h
    unfold providerYield at h
    simp only at h
    generalize hk : (p.script.findIdx fun a => !retryable a) = k at h
    cases ha : p.script[k]? with
    | none => simp [ha] at h
    | some a =>
      simp only [ha] at h
      cases hv : valid a with
      | none => simp [hv] at h
      | some ip' =>
        simp only [hv] at h
        have hklt : k < p.script.length := (List.getElem?_eq_some_iff.mp ha).1
        have hpre : ∀ j, j < k → ∃ a', p.script[j]? = some a' ∧ retryable a' = true := by
          intro j hj
          have hjl : j < p.script.length := by omega
          have := List.not_of_lt_findIdx (p := fun a => !retryable a) (xs := p.script) (i := j) (by omega)
          refine ⟨p.script[j], by simp [hjl], ?_⟩
          simpa using this
        by_cases hk0 : k = 0
        · simp only [hk0, if_true, Option.some.injEq] at h
          subst h
          refine ⟨k, ⟨a, ha, hv⟩, ?_⟩
          intro j hj; omega
        · simp only [hk0, if_false] at h
          by_cases hc : k ≤ p.ivals.length ∧ endOfWait p (k - 1) < p.budget
          · simp only [hc, and_self, if_true, Option.some.injEq] at h
            subst h
            refine ⟨k, ⟨a, ha, hv⟩, ?_⟩
            intro j hj
            obtain ⟨a', ha', hr'⟩ := hpre j hj
            have hjl : j < p.ivals.length := by omega
            refine ⟨⟨a', p.ivals[j], ha', hr', by simp [hjl]⟩, ?_⟩
            have := waitSum_mono p.script p.ivals (j := j + 1) (k := k - 1 + 1) (by omega)
            rw [endOfWait_eq] at hc ⊢
            omega
          · simp [hc] at h
  · rintro ⟨k, ⟨a, ha, hv⟩, hpre⟩
    have hklt : k < p.script.length := (List.getElem?_eq_some_iff.mp ha).1
    have hak : p.script[k] = a := (List.getElem?_eq_some_iff.mp ha).2
    have hfi : (p.script.findIdx fun a => !retryable a) = k := by
      rw [List.findIdx_eq hklt]
      refine ⟨by simp [hak, valid_not_retryable hv], ?_⟩
      intro j hj
      obtain ⟨⟨a', b, ha', hr', _⟩, _⟩ := hpre j hj
      have : p.script[j] = a' := (List.getElem?_eq_some_iff.mp ha').2
      simp [this, hr']
    unfold providerYield
    simp only [hfi, ha, hv]
    by_cases hk0 : k = 0
    · simp [hk0]
    · simp only [hk0, if_false]
      obtain ⟨⟨_, b, _, _, hb⟩, hlt⟩ := hpre (k - 1) (by omega)
      have : k - 1 < p.ivals.length := (List.getElem?_eq_some_iff.mp hb).1
      have hc : k ≤ p.ivals.length ∧ endOfWait p (k - 1) < p.budget := ⟨by omega, hlt⟩
      simp [hc]

theorem providerYield_isSome_iff (p : Provider) : (providerYield p).isSome = true ↔ Succeeds p := by
  unfold Succeeds
  constructor
  · intro h
    obtain ⟨ip, hip⟩ := Option.isSome_iff_exists.mp h
    obtain ⟨k, hk⟩ := (providerYield_iff p ip).mp hip
    exact ⟨k, ip, hk⟩
  · rintro ⟨k, ip, hk⟩
    rw [(providerYield_iff p ip).mpr ⟨k, hk⟩]; rfl

theorem firstValid_iff (ps : List Provider) (i : Nat) (ip : Bytes) :
    firstValid ps = some (i, ip) ↔ FirstValid ps i ip := by
  constructor
  · intro h
    unfold firstValid at h
    simp only at h
    generalize hk : (ps.findIdx fun p => (providerYield p).isSome) = k at h
    cases hp : ps[k]? with
    | none => simp [hp] at h
    | some p =>
      simp only [hp] at h
      cases hy : providerYield p with
      | none => simp [hy] at h
      | some ip' =>
        simp only [hy, Option.map_some, Option.some.injEq, Prod.mk.injEq] at h
        obtain ⟨rfl, rfl⟩ := h
        refine ⟨⟨p, hp, (providerYield_iff p ip').mp hy⟩, ?_⟩
        intro j hj q hq
        have hjl : j < ps.length := (List.getElem?_eq_some_iff.mp hq).1
        have hqj : ps[j] = q := (List.getElem?_eq_some_iff.mp hq).2
        have := List.not_of_lt_findIdx (p := fun p => (providerYield p).isSome) (xs := ps) (i := j) (by omega)
        rw [hqj] at this
        intro hs
        have := (providerYield_isSome_iff q).mpr hs
        simp_all
  · rintro ⟨⟨p, hp, k, hk⟩, hbefore⟩
    have hil : i < ps.length := (List.getElem?_eq_some_iff.mp hp).1
    have hpi : ps[i] = p := (List.getElem?_eq_some_iff.mp hp).2
    have hy : providerYield p = some ip := (providerYield_iff p ip).mpr ⟨k, hk⟩
    have hfi : (ps.findIdx fun p => (providerYield p).isSome) = i := by
      rw [List.findIdx_eq hil]
      refine ⟨by simp [hpi, hy], ?_⟩
      intro j hj
      have hjl : j < ps.length := by omega
      have hn := hbefore j hj ps[j] (by simp [hjl])
      cases hyj : (providerYield ps[j]).isSome with
      | false => rfl
      | true => exact absurd ((providerYield_isSome_iff _).mp hyj) hn
    unfold firstValid
    simp [hfi, hp, hy]

/-! ### sequential cache runs against the trace spec; executable spec forms; the fan-out with the cache -/

section SeqCache
variable {K V : Type} [DecidableEq K] [DecidableEq V]

/-- the store is exactly "latest success per key since the last flush" -/
def StoreMatches (s : Store K V) (hist : List (Obs K V)) : Prop :=
  ∀ k, s k = (lastSuccess k hist).map fun x => ⟨x.1, expOf x.2.1 x.2.2⟩

omit [DecidableEq V] in
theorem storeMatches_flush (hist : List (Obs K V)) : StoreMatches (Store.flush : Store K V) (.flush :: hist) := by
  intro k; simp [Store.flush, lastSuccess]

omit [DecidableEq V] in
theorem get_of_matches {s : Store K V} {hist : List (Obs K V)} (h : StoreMatches s hist) (now : Nat) (k : K) :
    s.get now k = match lastSuccess k hist with
      | some (v, t, ttl) => if stillValid now t ttl then some v else none
      | none => none := by
  unfold Store.get
  rw [h k]
  cases lastSuccess k hist with
  | none => rfl
  | some x =>
    obtain ⟨v, t, ttl⟩ := x
    simp only [Option.map_some]
    rw [fresh_iff_stillValid]

/-- the sequential model's observations satisfy the trace spec -/
theorem observe_traceOK (ops : List (SeqOp K V)) :
    ∀ (s : Store K V) (now : Nat) (hist : List (Obs K V)), StoreMatches s hist →
      traceOKFrom hist (observe ops s now) = true := by
  induction ops with
  | nil => intro s now hist _; simp [observe, traceOKFrom]
  | cons op rest ih =>
    intro s now hist hm
    cases op with
    | sleep d => simp only [observe]; exact ih s (now + d) hist hm
    | flush =>
      simp only [observe, traceOKFrom, callOK, Bool.true_and]
      exact ih _ now _ (storeMatches_flush hist)
    | get k cb dur ttl =>
      simp only [observe, traceOKFrom, Bool.and_eq_true]
      have hget := get_of_matches hm now k
      cases hg : s.get now k with
      | some v =>
        -- hit
        have hr : getWithExpiration s now k cb dur ttl = { result := some v, store := s, cbCalls := 0, now := now } := by
          simp [getWithExpiration, hg]
        rw [hr]
        refine ⟨?_, ?_⟩
        · simp only [callOK]
          rw [hg] at hget
          cases hl : lastSuccess k hist with
          | none => simp [hl] at hget
          | some x =>
            obtain ⟨v', t, ttl'⟩ := x
            simp only [hl] at hget
            by_cases hv : stillValid now t ttl' = true
            · simp only [hv, if_true, Option.some.injEq] at hget
              simp [hv, hget]
            · simp [hv] at hget
        · apply ih
          intro k'
          simp only [lastSuccess]
          simpa using hm k'
      | none =>
        have hr : getWithExpiration s now k cb dur ttl =
            { result := cb, store := s.finish (now + dur) k cb ttl, cbCalls := 1, now := now + dur } := by
          simp [getWithExpiration, hg]
        rw [hr]
        refine ⟨?_, ?_⟩
        · simp only [callOK]
          rw [hg] at hget
          cases hl : lastSuccess k hist with
          | none => simp
          | some x =>
            obtain ⟨v', t, ttl'⟩ := x
            simp only [hl] at hget
            by_cases hv : stillValid now t ttl' = true
            · simp [hv] at hget
            · simp [hv]
        · apply ih
          intro k'
          simp only [lastSuccess]
          by_cases hk : k = k'
          · subst hk
            cases cb with
            | none => simpa [Store.finish] using hm k
            | some v => simp [Store.finish, Store.set]
          · have hk' : ¬ k' = k := fun e => hk e.symm
            cases cb with
            | none => simpa [Store.finish, hk] using hm k'
            | some v => simpa [Store.finish, Store.set, hk, hk'] using hm k'

end SeqCache

section ExecSpecs
variable {ν β γ δ : Type} [DecidableEq ν]

theorem namesExactB_iff (w : Bytes → Option ν) (out : Doc ν β γ δ) :
    namesExactB w out = true ↔ NamesExact w out := by
  simp [namesExactB, NamesExact, HopsSatisfy, List.all_eq_true]

theorem fromSameB_iff (cs : List (Completion ν)) (ip : Bytes) (n : Names ν) :
    fromSameB cs ip n = true ↔ FromSameAddress cs ip n := by
  unfold fromSameB FromSameAddress
  cases n with
  | none =>
    simp only [List.all_eq_true, Bool.or_eq_true, Bool.not_eq_true', decide_eq_false_iff_not,
      Option.isNone_iff_eq_none, reduceCtorEq, false_implies, implies_true, true_and, true_iff]
    constructor
    · intro h c hc e; rcases h c hc with h | h
      · exact absurd e h
      · exact h
    · intro h c hc
      by_cases e : c.1 = ip
      · right; exact h c hc e
      · left; exact e
  | some v =>
    simp only [List.contains_iff_mem, Option.some.injEq, reduceCtorEq, false_iff]
    constructor
    · intro h
      refine ⟨fun v' hv => by rw [← hv]; exact h, ?_⟩
      intro hall
      have := hall _ h rfl
      simp at this
    · intro h; exact h.1 v rfl

end ExecSpecs

section Fanout
variable {κ ν : Type} [DecidableEq κ]

/-- every cached entry is an answer of the resolver for that key -/
def Coherent (c : Store κ ν) (resolver : κ → Option ν) : Prop :=
  ∀ k e, c k = some e → resolver k = some e.val

structure FInv (str : Bytes → κ) (resolver : κ → Option ν) (ips : List Bytes) (s : FSt κ ν) : Prop where
  coh : Coherent s.cache resolver
  missed_ : ∀ i ip, ips[i]? = some ip → s.pc i = .missed → ip ≠ []
  have_ : ∀ i v, s.pc i = .have v → ∃ ip, ips[i]? = some ip ∧ ip ≠ [] ∧ resolver (str ip) = some v
  map : ∀ k v, s.m k = some v → k ≠ [] ∧ resolver (str k) = some v
  done : ∀ i ip, ips[i]? = some ip → s.pc i = .done →
    ip = [] ∨ resolver (str ip) = none ∨ s.m ip = resolver (str ip)

omit [DecidableEq κ] in
theorem get_coherent {c : Store κ ν} {resolver : κ → Option ν} (hc : Coherent c resolver) {now : Nat} {k : κ} {v : ν}
    (h : c.get now k = some v) : resolver k = some v := by
  unfold Store.get at h
  cases he : c k with
  | none => simp [he] at h
  | some e =>
    simp only [he] at h
    by_cases hf : e.fresh now = true
    · simp only [hf, if_true, Option.some.injEq] at h
      rw [← h]; exact hc k e he
    · simp [hf] at h

omit [DecidableEq κ] in
/-- a step that only moves goroutine `i` to phase `q`, leaving the map alone -/
theorem finv_pc_only {str : Bytes → κ} {resolver : κ → Option ν} {ips : List Bytes} {s : FSt κ ν}
    (hi : FInv str resolver ips s) (i : Nat) (q : GPc ν) (c' : Store κ ν) (hc' : Coherent c' resolver)
    (now' : Nat) (qs : List κ)
    (hm : ∀ ip, ips[i]? = some ip → q = .missed → ip ≠ [])
    (hh : ∀ v, q = .have v → ∃ ip, ips[i]? = some ip ∧ ip ≠ [] ∧ resolver (str ip) = some v)
    (hd : ∀ ip, ips[i]? = some ip → q = .done → ip = [] ∨ resolver (str ip) = none ∨ s.m ip = resolver (str ip)) :
    FInv str resolver ips { cache := c', now := now', m := s.m, pc := setPc s.pc i q, queries := qs } := by
  refine ⟨hc', ?_, ?_, hi.map, ?_⟩
  · intro j ip hip hj
    by_cases e : j = i
    · subst e; simp only [setPc, if_true] at hj; exact hm ip hip hj
    · simp only [setPc, e, if_false] at hj; exact hi.missed_ j ip hip hj
  · intro j v hj
    by_cases e : j = i
    · subst e; simp only [setPc, if_true] at hj; exact hh v hj
    · simp only [setPc, e, if_false] at hj; exact hi.have_ j v hj
  · intro j ip hip hj
    by_cases e : j = i
    · subst e; simp only [setPc, if_true] at hj; exact hd ip hip hj
    · simp only [setPc, e, if_false] at hj; exact hi.done j ip hip hj

theorem finv_step {str : Bytes → κ} {resolver : κ → Option ν} {ips : List Bytes} {s s' : FSt κ ν}
    (hi : FInv str resolver ips s) (hs : FStep str resolver ips s s') : FInv str resolver ips s' := by
  cases hs with
  | tick d => exact ⟨hi.coh, hi.missed_, hi.have_, hi.map, hi.done⟩
  | emptyAddr i ip hip hpc hlen =>
    apply finv_pc_only hi i .done s.cache hi.coh
    · intro _ _ h; cases h
    · intro v h; cases h
    · intro ip' hip' _
      rw [hip] at hip'; cases hip'
      left; exact List.eq_nil_of_length_eq_zero hlen
  | hit i ip v hip hpc hlen hget =>
    apply finv_pc_only hi i (.have v) s.cache hi.coh
    · intro _ _ h; cases h
    · intro w h; cases h
      exact ⟨ip, hip, fun h => by simp [h] at hlen, get_coherent hi.coh hget⟩
    · intro _ _ h; cases h
  | miss i ip hip hpc hlen hget =>
    apply finv_pc_only hi i .missed s.cache hi.coh
    · intro ip' hip' _
      rw [hip] at hip'; cases hip'
      intro h; simp [h] at hlen
    · intro v h; cases h
    · intro _ _ h; cases h
  | resolveOk i ip v hip hpc hres =>
    apply finv_pc_only hi i (.have v)
    · intro k e he
      simp only [Store.set] at he
      by_cases hk : k = str ip
      · subst hk
        simp only [if_true, Option.some.injEq] at he
        subst he; exact hres
      · simp only [hk, if_false] at he; exact hi.coh k e he
    · intro _ _ h; cases h
    · intro w h; cases h
      exact ⟨ip, hip, hi.missed_ i ip hip hpc, hres⟩
    · intro _ _ h; cases h
  | resolveErr i ip hip hpc hres =>
    apply finv_pc_only hi i .done s.cache hi.coh
    · intro _ _ h; cases h
    · intro v h; cases h
    · intro ip' hip' _
      rw [hip] at hip'; cases hip'
      right; left; exact hres
  | write i ip v hip hpc =>
    obtain ⟨ip0, hip0, hne, hres⟩ := hi.have_ i v hpc
    rw [hip] at hip0; cases hip0
    refine ⟨hi.coh, ?_, ?_, ?_, ?_⟩
    · intro j ip' hip' hj
      by_cases e : j = i
      · subst e; simp [setPc] at hj
      · simp only [setPc, e, if_false] at hj; exact hi.missed_ j ip' hip' hj
    · intro j w hj
      by_cases e : j = i
      · subst e; simp [setPc] at hj
      · simp only [setPc, e, if_false] at hj; exact hi.have_ j w hj
    · intro k w hk
      simp only [DnsMap.write] at hk
      by_cases e : k = ip
      · subst e
        simp only [if_true, Option.some.injEq] at hk
        subst hk; exact ⟨hne, hres⟩
      · simp only [e, if_false] at hk; exact hi.map k w hk
    · intro j ip' hip' hj
      by_cases e : j = i
      · subst e
        rw [hip] at hip'; cases hip'
        right; right
        simp [DnsMap.write, hres]
      · simp only [setPc, e, if_false] at hj
        rcases hi.done j ip' hip' hj with h | h | h
        · exact Or.inl h
        · exact Or.inr (Or.inl h)
        · right; right
          simp only [DnsMap.write]
          by_cases e2 : ip' = ip
          · subst e2; simp [hres]
          · simp [e2, h]

theorem finv_reach {str : Bytes → κ} {resolver : κ → Option ν} {ips : List Bytes} {c0 : Store κ ν} {t0 : Nat}
    {s : FSt κ ν} (hc : Coherent c0 resolver) (h : FReach str resolver ips c0 t0 s) : FInv str resolver ips s := by
  induction h with
  | init =>
    refine ⟨hc, ?_, ?_, ?_, ?_⟩
    · intro i ip _ h; simp [FSt.init] at h
    · intro i v h; simp [FSt.init] at h
    · intro k v h; simp [FSt.init, DnsMap.empty] at h
    · intro i ip _ h; simp [FSt.init] at h
  | step _ hs ih => exact finv_step ih hs

/-- when every goroutine is done, the map holds exactly the resolver's answer for every collected
    address — whatever the interleaving and whatever the cache answered -/
theorem fanout_terminal {str : Bytes → κ} {resolver : κ → Option ν} {ips : List Bytes} {c0 : Store κ ν} {t0 : Nat}
    {s : FSt κ ν} (hc : Coherent c0 resolver) (h : FReach str resolver ips c0 t0 s) (ht : s.terminal ips) :
    ∀ ip ∈ ips, s.m ip = want str resolver ip := by
  have hi := finv_reach hc h
  intro ip hip
  obtain ⟨i, hlt, hget⟩ := List.getElem_of_mem hip
  have hip' : ips[i]? = some ip := by simp [hlt, hget]
  unfold want
  by_cases hnil : ip = []
  · simp only [hnil, if_true]
    cases hm : s.m [] with
    | none => rfl
    | some v => exact absurd rfl (hi.map [] v hm).1
  · simp only [hnil, if_false]
    rcases hi.done i ip hip' (ht i hlt) with h1 | h1 | h1
    · exact absurd h1 hnil
    · rw [h1]
      cases hm : s.m ip with
      | none => rfl
      | some v => have := (hi.map ip v hm).2; rw [h1] at this; cases this
    · exact h1

end Fanout

/-- budgets derived from the caller's context never exceed the 2 s per-provider timeout -/
theorem withBudgets_budget_le (parent : Option Nat) (scripts : List (List Attempt × List Nat)) :
    ∀ start, ∀ p ∈ withBudgets parent start scripts, p.budget ≤ callTimeout := by
  induction scripts with
  | nil => intro start p hp; simp [withBudgets] at hp
  | cons x rest ih =>
    intro start p hp
    obtain ⟨sc, iv⟩ := x
    simp only [withBudgets, List.mem_cons] at hp
    rcases hp with rfl | hp
    · cases parent with
      | none => exact Nat.le_refl _
      | some D => exact Nat.min_le_left _ _
    · exact ih _ p hp

theorem callTimeout_le_maxElapsed : callTimeout ≤ maxElapsedTime := by decide

end TRV.Proofs.Enr
