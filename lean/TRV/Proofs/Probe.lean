import TRV.Proofs.Build
import TRV.Spec.Probe
set_option linter.unusedSimpArgs false
set_option linter.unusedVariables false
/-! Well-formedness of every probe builder (C06). -/
namespace TRV.Proofs
open TRV TRV.Build TRV.Spec

theorem wfIp4_build {tos len id ff ttl proto : Nat} {src dst seg : Bytes} (hs : src.length = 4) (hd : dst.length = 4)
    (hlen : len = 20 + seg.length) (hl : len < 65536) (httl : ttl < 256) (hpr : proto < 256) :
    wfIp4 (ip4Header tos len id ff ttl proto src dst ++ seg) src dst ttl proto = true := by
  have hv := ip4Header_verifies tos len id ff ttl proto src dst
  have hlen20 := ip4Header_length tos len id ff ttl proto src dst hs hd
  obtain ⟨a, b, c, d, rfl⟩ := len4 hs
  obtain ⟨e, f, g, h, rfl⟩ := len4 hd
  unfold wfIp4
  have htake : (ip4Header tos len id ff ttl proto [a, b, c, d] [e, f, g, h] ++ seg).take 20 =
      ip4Header tos len id ff ttl proto [a, b, c, d] [e, f, g, h] := by
    rw [List.take_append_of_le_length (by omega), List.take_of_length_le (by omega)]
  rw [htake, hv]
  simp [ip4Header, be16, u8, u16, raw, byte_toNat, httl, hpr, hlen]
  subst hlen
  rw [byte_toNat (by omega), byte_toNat (by omega)]; omega

theorem drop20_build (tos len id ff ttl proto : Nat) (src dst seg : Bytes) (hs : src.length = 4) (hd : dst.length = 4) :
    (ip4Header tos len id ff ttl proto src dst ++ seg).drop 20 = seg := by
  have := ip4Header_length tos len id ff ttl proto src dst hs hd
  rw [List.drop_append_of_le_length (by omega), List.drop_of_length_le (by omega)]
  simp

theorem length_build (tos len id ff ttl proto : Nat) (src dst seg : Bytes) (hs : src.length = 4) (hd : dst.length = 4) :
    (ip4Header tos len id ff ttl proto src dst ++ seg).length = 20 + seg.length := by
  simp [ip4Header_length tos len id ff ttl proto src dst hs hd]

/-- ICMPv4 echo request probe -/
theorem icmp4_wf {src dst : Bytes} {echoId ttl : Nat} (hs : src.length = 4) (hd : dst.length = 4)
    (hid : echoId < 65536) (httl : ttl < 256) :
    wfIcmp4 (Build.icmp4 src dst echoId ttl) src dst echoId ttl = true := by
  have hck : verifies 0 ([byte 8, byte 0] ++ be16 (cksum (0 + sum16 ([byte 8, byte 0] ++ be16 0 ++ (be16 echoId ++ be16 ttl ++ [byte ttl])))) ++
      (be16 echoId ++ be16 ttl ++ [byte ttl])) = true :=
    verifies_insert 0 [byte 8, byte 0] (be16 echoId ++ be16 ttl ++ [byte ttl]) (by simp)
  unfold wfIcmp4 Build.icmp4
  simp only [Bool.and_eq_true]
  refine ⟨⟨⟨⟨⟨⟨?_, ?_⟩, ?_⟩, ?_⟩, ?_⟩, ?_⟩, ?_⟩
  · exact wfIp4_build hs hd (by simp [be16]) (by omega) httl (by omega)
  · unfold icmp4ck
    rw [drop20_build _ _ _ _ _ _ _ _ _ hs hd]
    simpa [List.append_assoc] using hck
  all_goals
    obtain ⟨a, b, c, d, rfl⟩ := len4 hs
    obtain ⟨e, f, g, h, rfl⟩ := len4 hd
    simp [ip4Header, be16, u8, u16, byte_toNat, hid, httl]
  all_goals (rw [byte_toNat (by omega), byte_toNat (by omega)]; omega)

end TRV.Proofs

namespace TRV.Proofs
open TRV TRV.Build TRV.Spec

/-- UDP over IPv4 probe -/
theorem udp4_wf {src dst : Bytes} {sport dport ttl : Nat} (hs : src.length = 4) (hd : dst.length = 4)
    (hsp : sport < 65536) (hdp : dport < 65536) (httl : ttl < 256) :
    wfUdp4 (Build.udp4 src dst sport dport ttl) src dst sport dport ttl = true := by
  have hck := verifies_insert (pseudo src dst 17 16) (be16 sport ++ be16 dport ++ be16 16)
    (magic ++ [byte 0] ++ be16 (udp4Id ttl)) (by simp [be16])
  unfold wfUdp4 Build.udp4
  simp only [Bool.and_eq_true]
  refine ⟨⟨⟨⟨?_, ?_⟩, ?_⟩, ?_⟩, ?_⟩
  · exact wfIp4_build hs hd (by simp [be16, magic]) (by omega) httl (by omega)
  · unfold l4ck4
    rw [drop20_build _ _ _ _ _ _ _ _ _ hs hd, length_build _ _ _ _ _ _ _ _ _ hs hd]
    have : 20 + (be16 sport ++ be16 dport ++ be16 16 ++ be16 (cksum (pseudo src dst 17 16 + sum16 (be16 sport ++ be16 dport ++ be16 16 ++ be16 0 ++ (magic ++ [byte 0] ++ be16 (udp4Id ttl))))) ++ (magic ++ [byte 0] ++ be16 (udp4Id ttl))).length - 20 = 16 := by
      simp [be16, magic]
    rw [this]
    simpa [List.append_assoc] using hck
  all_goals
    obtain ⟨a, b, c, d, rfl⟩ := len4 hs
    obtain ⟨e, f, g, h, rfl⟩ := len4 hd
    simp [ip4Header, be16, u8, u16, byte_toNat, udp4Id, magic, hsp, hdp, httl]
  all_goals (rw [byte_toNat (by omega), byte_toNat (by omega)]; omega)

/-- TCP SYN probe -/
theorem tcpSyn_wf {src dst : Bytes} {sport dport id seq ttl : Nat} (hs : src.length = 4) (hd : dst.length = 4)
    (hsp : sport < 65536) (hdp : dport < 65536) (hid : id < 65536) (hseq : seq < 4294967296) (httl : ttl < 256) :
    wfTcpSyn (Build.tcpSyn src dst sport dport id seq ttl) src dst sport dport id seq ttl = true := by
  have hck := verifies_insert (pseudo src dst 6 20)
    (be16 sport ++ be16 dport ++ be32 seq ++ be32 0 ++ [byte (5 * 16), byte 0x02] ++ be16 1024)
    (be16 0 ++ [] ++ []) (by simp [be16, be32])
  unfold wfTcpSyn Build.tcpSyn tcpSeg
  simp only [Bool.and_eq_true]
  refine ⟨⟨⟨⟨⟨⟨⟨⟨?_, ?_⟩, ?_⟩, ?_⟩, ?_⟩, ?_⟩, ?_⟩, ?_⟩, ?_⟩
  · exact wfIp4_build hs hd (by simp [be16, be32]) (by omega) httl (by omega)
  · unfold l4ck4
    rw [drop20_build _ _ _ _ _ _ _ _ _ hs hd, length_build _ _ _ _ _ _ _ _ _ hs hd]
    simp only [List.length_nil, Nat.add_zero, List.append_nil]
    have hl : ∀ ck, 20 + (be16 sport ++ be16 dport ++ be32 seq ++ be32 0 ++ [byte (5 * 16), byte 0x02] ++ be16 1024 ++ be16 ck ++ be16 0).length - 20 = 20 := by
      intro ck; simp [be16, be32]
    rw [hl]
    simpa [List.append_assoc] using hck
  all_goals
    obtain ⟨a, b, c, d, rfl⟩ := len4 hs
    obtain ⟨e, f, g, h, rfl⟩ := len4 hd
    simp [ip4Header, be16, be32, u8, u16, u32, byte_toNat, hsp, hdp, hid, httl]
  all_goals (try (repeat rw [byte_toNat (by omega)]); omega)

end TRV.Proofs

namespace TRV.Proofs
open TRV TRV.Build TRV.Spec

/-- SACK probe (ACK|PSH, one payload byte), without and with the timestamp option -/
theorem sack_wf {src dst : Bytes} {sport dport isn ack ttl : Nat} {ts : Option (Nat × Nat)}
    (hs : src.length = 4) (hd : dst.length = 4) (hsp : sport < 65536) (hdp : dport < 65536)
    (hack : ack < 4294967296) (httl : ttl < 256) (hts : ∀ v e, ts = some (v, e) → e < 4294967296) :
    wfSack (Build.sack src dst sport dport isn ack ttl ts) src dst sport dport ((isn + ttl) % 4294967296) ack ttl = true := by
  cases ts with
  | none =>
    have hck := verifies_insert (pseudo src dst 6 21)
      (be16 sport ++ be16 dport ++ be32 ((isn + ttl) % 4294967296) ++ be32 ack ++ [byte (5 * 16), byte 0x18] ++ be16 1024)
      (be16 0 ++ [] ++ [byte ttl]) (by simp [be16, be32])
    unfold wfSack Build.sack tcpSeg
    simp only [Bool.and_eq_true, List.length_nil, Nat.add_zero, Nat.zero_div]
    refine ⟨⟨⟨⟨⟨⟨⟨?_, ?_⟩, ?_⟩, ?_⟩, ?_⟩, ?_⟩, ?_⟩, ?_⟩
    · exact wfIp4_build hs hd (by simp [be16, be32]) (by omega) httl (by omega)
    · unfold l4ck4
      rw [drop20_build _ _ _ _ _ _ _ _ _ hs hd, length_build _ _ _ _ _ _ _ _ _ hs hd]
      simp only [List.length_nil, Nat.add_zero, List.append_nil, List.length_cons]
      have hl : ∀ ck, 20 + (be16 sport ++ be16 dport ++ be32 ((isn + ttl) % 4294967296) ++ be32 ack ++ [byte (5 * 16), byte 0x18] ++ be16 1024 ++ be16 ck ++ be16 0 ++ [byte ttl]).length - 20 = 21 := by
        intro ck; simp [be16, be32]
      rw [hl]
      simpa [List.append_assoc] using hck
    all_goals
      obtain ⟨a, b, c, d, rfl⟩ := len4 hs
      obtain ⟨e, f, g, h, rfl⟩ := len4 hd
      have hsq : (isn + ttl) % 4294967296 < 4294967296 := Nat.mod_lt _ (by decide)
      simp [ip4Header, be16, be32, u8, u16, u32, byte_toNat, hsp, hdp, httl]
    all_goals (try (repeat rw [byte_toNat (by omega)]); omega)
  | some p =>
    obtain ⟨tsval, tsecr⟩ := p
    have hecr := hts tsval tsecr rfl
    have hck := verifies_insert (pseudo src dst 6 33)
      (be16 sport ++ be16 dport ++ be32 ((isn + ttl) % 4294967296) ++ be32 ack ++ [byte (8 * 16), byte 0x18] ++ be16 1024)
      (be16 0 ++ ([byte 8, byte 10] ++ be32 ((tsval + ttl) % 4294967296) ++ be32 tsecr ++ [byte 1, byte 1]) ++ [byte ttl])
      (by simp [be16, be32])
    unfold wfSack Build.sack tcpSeg
    simp only [Bool.and_eq_true]
    have hol : ([byte 8, byte 10] ++ be32 ((tsval + ttl) % 4294967296) ++ be32 tsecr ++ [byte 1, byte 1]).length = 12 := by
      simp [be32, be16]
    simp only [hol]
    refine ⟨⟨⟨⟨⟨⟨⟨?_, ?_⟩, ?_⟩, ?_⟩, ?_⟩, ?_⟩, ?_⟩, ?_⟩
    · exact wfIp4_build hs hd (by simp [be16, be32]) (by omega) httl (by omega)
    · unfold l4ck4
      rw [drop20_build _ _ _ _ _ _ _ _ _ hs hd, length_build _ _ _ _ _ _ _ _ _ hs hd]
      have hl : ∀ ck, 20 + (be16 sport ++ be16 dport ++ be32 ((isn + ttl) % 4294967296) ++ be32 ack ++ [byte ((5 + 12 / 4) * 16), byte 0x18] ++ be16 1024 ++ be16 ck ++ be16 0 ++ ([byte 8, byte 10] ++ be32 ((tsval + ttl) % 4294967296) ++ be32 tsecr ++ [byte 1, byte 1]) ++ [byte ttl]).length - 20 = 33 := by
        intro ck; simp [be16, be32]
      rw [hl]
      simpa [List.append_assoc] using hck
    all_goals
      obtain ⟨a, b, c, d, rfl⟩ := len4 hs
      obtain ⟨e, f, g, h, rfl⟩ := len4 hd
      have hsq : (isn + ttl) % 4294967296 < 4294967296 := Nat.mod_lt _ (by decide)
      simp [ip4Header, be16, be32, u8, u16, u32, byte_toNat, hsp, hdp, httl]
    all_goals (try (repeat rw [byte_toNat (by omega)]); omega)

end TRV.Proofs

namespace TRV.Proofs
open TRV TRV.Build TRV.Spec

theorem wfIp6_build {plen nh hop : Nat} {src dst seg : Bytes} (hs : src.length = 16) (hd : dst.length = 16)
    (hlen : plen = seg.length) (hl : plen < 65536) (hhop : hop < 256) (hnh : nh < 256) :
    wfIp6 (ip6Header plen nh hop src dst ++ seg) src dst hop nh = true := by
  obtain ⟨a0, a1, a2, a3, a4, a5, a6, a7, a8, a9, a10, a11, a12, a13, a14, a15, rfl⟩ := len16 hs
  obtain ⟨b0, b1, b2, b3, b4, b5, b6, b7, b8, b9, b10, b11, b12, b13, b14, b15, rfl⟩ := len16 hd
  unfold wfIp6
  simp [ip6Header, be16, u8, u16, raw, byte_toNat, hhop, hnh, hlen]
  subst hlen
  rw [byte_toNat (by omega), byte_toNat (by omega)]; omega

theorem drop40_build (plen nh hop : Nat) (src dst seg : Bytes) (hs : src.length = 16) (hd : dst.length = 16) :
    (ip6Header plen nh hop src dst ++ seg).drop 40 = seg := by
  have := ip6Header_length plen nh hop src dst hs hd
  rw [List.drop_append_of_le_length (by omega), List.drop_of_length_le (by omega)]
  simp

theorem length_build6 (plen nh hop : Nat) (src dst seg : Bytes) (hs : src.length = 16) (hd : dst.length = 16) :
    (ip6Header plen nh hop src dst ++ seg).length = 40 + seg.length := by
  simp [ip6Header_length plen nh hop src dst hs hd]

/-- ICMPv6 echo request probe -/
theorem icmp6_wf {src dst : Bytes} {echoId ttl : Nat} (hs : src.length = 16) (hd : dst.length = 16)
    (hid : echoId < 65536) (httl : ttl < 256) :
    wfIcmp6 (Build.icmp6 src dst echoId ttl) src dst echoId ttl = true := by
  have hck := verifies_insert (pseudo src dst 58 9) [byte 128, byte 0] (be16 echoId ++ be16 ttl ++ [byte ttl]) (by simp)
  unfold wfIcmp6 Build.icmp6
  simp only [Bool.and_eq_true]
  refine ⟨⟨⟨⟨⟨?_, ?_⟩, ?_⟩, ?_⟩, ?_⟩, ?_⟩
  · exact wfIp6_build hs hd (by simp [be16]) (by omega) httl (by omega)
  · unfold l4ck6
    rw [drop40_build _ _ _ _ _ _ hs hd, length_build6 _ _ _ _ _ _ hs hd]
    have hl : ∀ ck, 40 + ([byte 128, byte 0] ++ be16 ck ++ be16 echoId ++ be16 ttl ++ [byte ttl]).length - 40 = 9 := by
      intro ck; simp [be16]
    rw [hl]
    simpa [List.append_assoc] using hck
  all_goals
    obtain ⟨a0, a1, a2, a3, a4, a5, a6, a7, a8, a9, a10, a11, a12, a13, a14, a15, rfl⟩ := len16 hs
    obtain ⟨b0, b1, b2, b3, b4, b5, b6, b7, b8, b9, b10, b11, b12, b13, b14, b15, rfl⟩ := len16 hd
    simp [ip6Header, be16, u8, u16, byte_toNat, hid, httl]
  all_goals (try (repeat rw [byte_toNat (by omega)]); omega)

/-- UDP over IPv6 probe (payload length 5 + ttl, identifier = UDP length = 13 + ttl) -/
theorem udp6_wf {src dst : Bytes} {sport dport ttl : Nat} (hs : src.length = 16) (hd : dst.length = 16)
    (hsp : sport < 65536) (hdp : dport < 65536) (httl : ttl < 256) :
    wfUdp6 (Build.udp6 src dst sport dport ttl) src dst sport dport ttl = true := by
  have hck := verifies_insert (pseudo src dst 17 (udp6Id ttl)) (be16 sport ++ be16 dport ++ be16 (udp6Id ttl))
    (repeatMagic (5 + ttl)) (by simp [be16])
  have hseg : ∀ ck, (be16 sport ++ be16 dport ++ be16 (udp6Id ttl) ++ be16 ck ++ repeatMagic (5 + ttl)).length = 13 + ttl := by
    intro ck; simp [be16, repeatMagic_length]; omega
  unfold wfUdp6 Build.udp6
  simp only [Bool.and_eq_true]
  refine ⟨⟨⟨⟨?_, ?_⟩, ?_⟩, ?_⟩, ?_⟩
  · exact wfIp6_build hs hd (by rw [hseg]; rfl) (by unfold udp6Id; omega) httl (by omega)
  · unfold l4ck6
    rw [drop40_build _ _ _ _ _ _ hs hd, length_build6 _ _ _ _ _ _ hs hd, hseg]
    have : 40 + (13 + ttl) - 40 = udp6Id ttl := by unfold udp6Id; omega
    rw [this]
    simpa [List.append_assoc] using hck
  · obtain ⟨a0, a1, a2, a3, a4, a5, a6, a7, a8, a9, a10, a11, a12, a13, a14, a15, rfl⟩ := len16 hs
    obtain ⟨b0, b1, b2, b3, b4, b5, b6, b7, b8, b9, b10, b11, b12, b13, b14, b15, rfl⟩ := len16 hd
    simp [ip6Header, be16, u8, u16, byte_toNat]
    rw [byte_toNat (by omega), byte_toNat (by omega)]; omega
  · obtain ⟨a0, a1, a2, a3, a4, a5, a6, a7, a8, a9, a10, a11, a12, a13, a14, a15, rfl⟩ := len16 hs
    obtain ⟨b0, b1, b2, b3, b4, b5, b6, b7, b8, b9, b10, b11, b12, b13, b14, b15, rfl⟩ := len16 hd
    simp [ip6Header, be16, u8, u16, byte_toNat]
    rw [byte_toNat (by omega), byte_toNat (by omega)]; omega
  · rw [length_build6 _ _ _ _ _ _ hs hd, hseg]
    obtain ⟨a0, a1, a2, a3, a4, a5, a6, a7, a8, a9, a10, a11, a12, a13, a14, a15, rfl⟩ := len16 hs
    obtain ⟨b0, b1, b2, b3, b4, b5, b6, b7, b8, b9, b10, b11, b12, b13, b14, b15, rfl⟩ := len16 hd
    simp [ip6Header, be16, u8, u16, byte_toNat, udp6Id]
    rw [byte_toNat (by omega), byte_toNat (by omega)]; omega

end TRV.Proofs
