import TRV.Proofs.CrossProto
/-!
# Helper lemmas for the composition of the capture filters with the matchers (`Props.C12Compose`)

From the cut read buffer to the packet, raw reads as numbers, and what the raw-offset genuineness
predicates say about the bytes the filters inspect.
-/
namespace TRV.Proofs
open TRV TRV.Spec TRV.Drv TRV.Wire

/-! ## helpers: from the cut buffer to the packet, raw reads as numbers -/

theorem take_u8 {p : Bytes} {n k v : Nat} (h : u8 (p.take n) k = some v) : u8 p k = some v := by
  simpa using (Window.take p n).u8 h

theorem take_u16 {p : Bytes} {n k v : Nat} (h : u16 (p.take n) k = some v) : u16 p k = some v := by
  simpa using (Window.take p n).u16 h

theorem take_u32 {p : Bytes} {n k v : Nat} (h : u32 (p.take n) k = some v) : u32 p k = some v := by
  simpa using (Window.take p n).u32 h

/-- four raw bytes read as a big-endian number -/
theorem u32_of_raw {p : Bytes} {off : Nat} {x : Bytes} (h : raw p off 4 = some x) :
    u32 p off = some (beNat x) := by
  unfold raw at h
  split at h
  · rename_i hl
    simp only [Option.some.injEq] at h
    subst h
    have e : p.drop off = p[off] :: p[off + 1] :: p[off + 2] :: p[off + 3] :: p.drop (off + 4) := by
      rw [List.drop_eq_getElem_cons (by omega), List.drop_eq_getElem_cons (by omega),
        List.drop_eq_getElem_cons (by omega), List.drop_eq_getElem_cons (by omega)]
    have g0 : p[off]? = some p[off] := List.getElem?_eq_getElem (by omega)
    have g1 : p[off + 1]? = some p[off + 1] := List.getElem?_eq_getElem (by omega)
    have g2 : p[off + 2]? = some p[off + 2] := List.getElem?_eq_getElem (by omega)
    have g3 : p[off + 2 + 1]? = some p[off + 3] := List.getElem?_eq_getElem (by omega)
    simp only [e, u32, u16, u8, g0, g1, g2, g3, Option.map_some, List.take_succ_cons, List.take_zero, beNat,
      List.foldl_cons, List.foldl_nil, Option.some.injEq]
    omega
  · simp at h

/-- what `view4` read, as raw facts about the packet -/
theorem view4_reads {p : Bytes} {v : View4} (h : view4 p = some v) :
    ∃ b0 ff, u8 p 0 = some b0 ∧ b0 / 16 = 4 ∧ u16 p 6 = some ff ∧ v.outerFrag = ff % 16384 ∧
      u8 p 9 = some v.outerProto ∧ raw p 12 4 = some v.outerSrc ∧ raw p 16 4 = some v.outerDst ∧
      v.l4 = (b0 % 16) * 4 := by
  unfold view4 at h
  split at h
  · rename_i b0 ff pr s d h0 h1 h2 h3 h4
    split at h
    · rename_i hv
      simp only [Option.some.injEq] at h
      subst h
      exact ⟨b0, ff, h0, hv, h1, rfl, h2, h3, h4, rfl⟩
    · simp at h
  · simp at h

/-- a packet with an ICMP-error signature is an IPv4 packet with protocol 1 -/
theorem sigQuoted_proto {p : Bytes} {k : Nat} (h : SigQuoted p k) : u8 p 9 = some 1 := by
  obtain ⟨v, q, hv, _, h1, _, _⟩ := h
  obtain ⟨_, _, _, _, _, _, hp, _⟩ := view4_reads hv
  rw [hp, h1]

theorem sigEcho_proto {p : Bytes} (h : SigEcho p) : u8 p 9 = some 1 := by
  obtain ⟨v, hv, h1, _⟩ := h
  obtain ⟨_, _, _, _, _, _, hp, _⟩ := view4_reads hv
  rw [hp, h1]

/-- raw facts of a direct TCP reply on the configured tuple -/
theorem tcpDirect_reads {c : TcpCfg} {sent : List Sent} {t : Nat} {a p : Bytes}
    (h : genuineTcpDirect c sent t a p = true) :
    ∃ b0 ff, u8 p 0 = some b0 ∧ u16 p 6 = some ff ∧ ff % 16384 = 0 ∧ u8 p 9 = some 6 ∧
      raw p 12 4 = some c.target ∧ raw p 16 4 = some c.localA ∧
      u16 p ((b0 % 16) * 4) = some c.tport ∧ u16 p ((b0 % 16) * 4 + 2) = some c.lport := by
  unfold genuineTcpDirect at h
  split at h; · simp at h
  rename_i v hv
  obtain ⟨b0, ff, h0, _, hff, hfr, hpr, hs, hd, hl4⟩ := view4_reads hv
  split at h
  · rename_i sp dp ack fl last hp _ _ _
    simp only [Bool.and_eq_true, decide_eq_true_eq, Bool.or_eq_true, and_assoc] at h
    obtain ⟨hsa, hat, hdst, hp6, hf0, hsp, hdp, _⟩ := h
    unfold portsAt at hp
    split at hp
    · rename_i x y hx hy
      simp only [Option.some.injEq, Prod.mk.injEq] at hp
      obtain ⟨rfl, rfl⟩ := hp
      refine ⟨b0, ff, h0, hff, by omega, by rw [hpr, hp6], by rw [hs, hsa, hat], by rw [hd, hdst], ?_, ?_⟩
      · rw [← hl4, hx, hsp]
      · rw [← hl4, hy, hdp]
    · simp at hp
  · simp at h

theorem sackDirect_reads {c : SackCfg} {sent : List Sent} {t : Nat} {a p : Bytes}
    (h : genuineSackDirect c sent t a p = true) :
    ∃ b0 ff, u8 p 0 = some b0 ∧ u16 p 6 = some ff ∧ ff % 16384 = 0 ∧ u8 p 9 = some 6 ∧
      raw p 12 4 = some c.target ∧ raw p 16 4 = some c.localA ∧
      u16 p ((b0 % 16) * 4) = some c.tport ∧ u16 p ((b0 % 16) * 4 + 2) = some c.lport := by
  unfold genuineSackDirect at h
  split at h; · simp at h
  rename_i v hv
  obtain ⟨b0, ff, h0, _, hff, hfr, hpr, hs, hd, hl4⟩ := view4_reads hv
  split at h
  · rename_i sp dp b12 fl hp _ _
    simp only at h
    split at h; · simp at h
    split at h; · simp at h
    simp only [Bool.and_eq_true, decide_eq_true_eq, and_assoc] at h
    obtain ⟨hsa, hat, hdst, hp6, hf0, hsp, hdp, _⟩ := h
    unfold portsAt at hp
    split at hp
    · rename_i x y hx hy
      simp only [Option.some.injEq, Prod.mk.injEq] at hp
      obtain ⟨rfl, rfl⟩ := hp
      refine ⟨b0, ff, h0, hff, by omega, by rw [hpr, hp6], by rw [hs, hsa, hat], by rw [hd, hdst], ?_, ?_⟩
      · rw [← hl4, hx, hsp]
      · rw [← hl4, hy, hdp]
    · simp at hp
  · simp at h

/-- what `view6` read when the fixed header's next-header field is not hop-by-hop -/
theorem view6_direct {p : Bytes} {v : View6} (h : view6 p = some v) (hnz : u8 p 6 ≠ some 0) :
    u8 p 6 = some v.upper := by
  unfold view6 at h
  split at h
  · rename_i b0 nh s d h0 h1 h2 h3
    split at h; · simp at h
    split at h
    · rename_i hz; subst hz; exact absurd h1 hnz
    · simp only [Option.some.injEq] at h; subst h; exact h1
  · simp at h

end TRV.Proofs
