import TRV.Model.Link
import TRV.Proofs.Bpf
/-!
# Link-layer glue: lemmas
-/
namespace TRV.Proofs.Link
open TRV TRV.Link

/-- `strip` hands up a packet exactly for frames that are a 14-byte header with an IP EtherType in
    front of that packet -/
theorem strip_packet_iff {f p : Bytes} :
    strip f = .packet p ↔ ∃ eth, eth.length = 14 ∧ (u16 eth 12 = some 0x0800 ∨ u16 eth 12 = some 0x86dd) ∧ f = eth ++ p := by
  constructor
  · intro h
    unfold strip at h
    split at h; · simp at h
    rename_i hlen
    split at h
    · rename_i et het
      split at h
      · rename_i hor
        simp only [Strip.packet.injEq] at h
        subst h
        refine ⟨f.take 14, by rw [List.length_take]; omega, ?_, (List.take_append_drop 14 f).symm⟩
        have : u16 (f.take 14) 12 = some et := by
          have hw := TRV.Window.take f 14
          unfold u16 u8 at het ⊢
          rw [List.getElem?_take, List.getElem?_take]
          simpa using het
        rcases hor with h1 | h1 <;> simp [this, h1]
      · simp at h
    · simp at h
  · rintro ⟨eth, hl, het, rfl⟩
    unfold strip
    rw [if_neg (by rw [List.length_append]; omega)]
    have e : u16 (eth ++ p) 12 = u16 eth 12 := TRV.Proofs.Bpf.u16_append_left (by omega)
    have hd : (eth ++ p).drop 14 = p := by rw [← hl]; simp
    rcases het with h1 | h1 <;> simp [e, h1, hd]

/-- after any sequence of `SetPacketFilter` calls and arriving frames, what is attached is the
    program of the last call (nothing, if that was `FilterTypeNone` or there was no call) -/
theorem attached_is_last {Prog : Type} (accepts : Prog → Bytes → Bool) :
    ∀ (evs : List (Ev Prog)) (s : Source Prog),
      (evs.foldl (Source.step accepts) s).attached = lastSet s.attached evs := by
  intro evs
  induction evs with
  | nil => intro s; rfl
  | cons e rest ih =>
    intro s
    simp only [List.foldl_cons, lastSet]
    rw [ih, lastSet]
    cases e with
    | set p => cases p <;> simp [Source.step, Source.setFilter]
    | frame f => simp [Source.step, Source.arrive]

/-- the queue only ever holds frames that the CURRENTLY attached program accepts: attaching drains
    what was queued under the previous program, and a frame is queued only if the attached program
    lets it through -/
theorem queue_accepted {Prog : Type} (accepts : Prog → Bytes → Bool) :
    ∀ (evs : List (Ev Prog)) (s : Source Prog),
      (∀ q, s.attached = some q → ∀ f ∈ s.queue, accepts q f = true) →
      ∀ q, (evs.foldl (Source.step accepts) s).attached = some q →
        ∀ f ∈ (evs.foldl (Source.step accepts) s).queue, accepts q f = true := by
  intro evs
  induction evs with
  | nil => intro s h; simpa using h
  | cons e rest ih =>
    intro s h
    simp only [List.foldl_cons]
    apply ih
    cases e with
    | set p =>
      cases p with
      | none => intro q hq; simp [Source.step, Source.setFilter] at hq
      | some p => intro q hq f hf; simp [Source.step, Source.setFilter] at hf
    | frame g =>
      intro q hq f hf
      simp only [Source.step, Source.arrive] at hq hf
      by_cases hp : s.passes accepts g = true
      · simp only [hp, if_true, List.mem_append, List.mem_singleton] at hf
        rcases hf with hf | rfl
        · exact h q hq f hf
        · simpa [Source.passes, hq] using hp
      · simp only [hp] at hf
        exact h q hq f hf

/-- a read never returns zero bytes: the "Read() returned 0 bytes" failure of `ReadAndParse` cannot be
    provoked by any sequence of frames -/
theorem readNext_nonempty : ∀ (q : List Bytes) (p : Bytes) (rest : List Bytes),
    readNext q = some (p, rest) → p ≠ [] := by
  intro q
  induction q with
  | nil => intro p rest h; simp [readNext] at h
  | cons f q ih =>
    intro p rest h
    simp only [readNext] at h
    split at h
    · rename_i p' hp
      simp only [Option.some.injEq, Prod.mk.injEq] at h
      obtain ⟨rfl, _⟩ := h
      unfold handUp at hp
      split at hp
      · split at hp
        · simp at hp
        · rename_i hne
          simp only [Option.some.injEq] at hp
          subst hp
          intro h0
          exact hne (by simp [h0])
      · simp at hp
    · exact ih p rest h

/-- what a read returns is the packet behind the Ethernet header of one of the queued IP frames -/
theorem readNext_from_queue : ∀ (q : List Bytes) (p : Bytes) (rest : List Bytes),
    readNext q = some (p, rest) → ∃ f ∈ q, strip f = .packet p := by
  intro q
  induction q with
  | nil => intro p rest h; simp [readNext] at h
  | cons f q ih =>
    intro p rest h
    simp only [readNext] at h
    split at h
    · rename_i p' hp
      simp only [Option.some.injEq, Prod.mk.injEq] at h
      obtain ⟨rfl, _⟩ := h
      refine ⟨f, List.mem_cons_self, ?_⟩
      unfold handUp at hp
      split at hp
      · rename_i pp hs
        split at hp
        · simp at hp
        · simp only [Option.some.injEq] at hp; subst hp; exact hs
      · simp at hp
    · obtain ⟨g, hg, hs⟩ := ih p rest h
      exact ⟨g, List.mem_cons_of_mem _ hg, hs⟩

end TRV.Proofs.Link
