import TRV.Spec.Wrapper
set_option linter.unusedSimpArgs false
set_option linter.unusedVariables false
/-! Helper lemmas for C10 (wrapper atomicity and handle discipline). -/
namespace TRV.Proofs.Wrapper
open TRV.Engine TRV.Wrapper TRV.Spec.Wrapper

/-! ### faults -/

theorem hitOf_pass {plan : FaultPlan} {op : FOp} {k : Nat} (h : eff plan op k = .pass) :
    hitOf plan op k = [] := by
  unfold eff at h
  unfold hitOf
  cases hl : lookup plan op k with
  | none => rfl
  | some c => simp [hl] at h ⊢; exact h

/-- a call that did not pass recorded exactly one fault, of that operation and index -/
theorem hitOf_nopass {plan : FaultPlan} {op : FOp} {k : Nat} (h : eff plan op k ≠ .pass) :
    ∃ c, hitOf plan op k = [{ op := op, k := k, cls := c }] ∧ effect op (some c) = eff plan op k := by
  unfold eff at h ⊢
  unfold hitOf
  cases hl : lookup plan op k with
  | none => simp [hl, effect] at h
  | some c => refine ⟨c, ?_, rfl⟩; simp [hl] at h ⊢; exact h

/-- the recorded fault of a failing non-read call is non-benign and its cause is the injected error -/
theorem hit_fail_notread {plan : FaultPlan} {op : FOp} {k : Nat} (hop : op ≠ .read)
    (h : eff plan op k ≠ .pass) :
    ∃ f, hitOf plan op k = [f] ∧ nonBenign f = true ∧ causeOf f = .injected op k := by
  obtain ⟨c, hc, _⟩ := hitOf_nopass h
  refine ⟨_, hc, ?_, ?_⟩ <;> cases op <;> simp_all [nonBenign, causeOf]

theorem hit_read_fail {plan : FaultPlan} {k : Nat} (h : eff plan .read k = .fail) :
    ∃ f, hitOf plan .read k = [f] ∧ nonBenign f = true ∧ causeOf f = .injected .read k := by
  obtain ⟨c, hc, he⟩ := hitOf_nopass (by rw [h]; decide)
  rw [h] at he
  cases c <;> simp [effect] at he
  exact ⟨_, hc, by simp [nonBenign], by simp [causeOf]⟩

theorem hit_read_zero {plan : FaultPlan} {k : Nat} (h : eff plan .read k = .zero) :
    ∃ f, hitOf plan .read k = [f] ∧ nonBenign f = true ∧ causeOf f = .zeroRead := by
  obtain ⟨c, hc, he⟩ := hitOf_nopass (by rw [h]; decide)
  rw [h] at he
  cases c <;> simp [effect] at he
  exact ⟨_, hc, by simp [nonBenign], by simp [causeOf]⟩

theorem hit_read_timeout {plan : FaultPlan} {k : Nat} (h : eff plan .read k = .timeout) :
    (hitOf plan .read k).filter nonBenign = [] := by
  obtain ⟨c, hc, he⟩ := hitOf_nopass (by rw [h]; decide)
  rw [h] at he
  cases c <;> simp [effect] at he
  simp [hc, nonBenign]

/-! ### call logs -/

def isUse : Ev → Bool
  | .filter | .deadline | .read | .write => true
  | _ => false

theorem count_open_uses {l : CallLog} (h : l.all isUse = true) (x : Handle) : l.count (.open x) = 0 := by
  rw [List.count_eq_zero]
  intro hm
  have := List.all_eq_true.mp h _ hm
  simp [isUse] at this

theorem count_close_uses {l : CallLog} (h : l.all isUse = true) (x : Handle) : l.count (.close x) = 0 := by
  rw [List.count_eq_zero]
  intro hm
  have := List.all_eq_true.mp h _ hm
  simp [isUse] at this

theorem nuac_uses_append {l : CallLog} (h : l.all isUse = true) (r : CallLog) :
    noUseAfterClose (l ++ r) = noUseAfterClose r := by
  induction l with
  | nil => rfl
  | cons e l ih =>
    simp only [List.all_cons, Bool.and_eq_true] at h
    obtain ⟨h1, h2⟩ := h
    cases e <;> simp [isUse] at h1 <;> simp [noUseAfterClose, ih h2]

/-- operations only use the source and the sink -/
theorem uses_ne {l : CallLog} (h : l.all isUse = true) {x : Handle} (hs : x ≠ .source) (hk : x ≠ .sink) :
    l.all (fun e => usesHandle e != some x) = true := by
  rw [List.all_eq_true] at h ⊢
  intro e he
  have := h e he
  cases e <;> simp [isUse] at this <;> simp [usesHandle] <;> intro hh <;> simp_all

/-! ### parallel engine walk -/

theorem parWalk_uses (plan : FaultPlan) (min max : Nat) (s : List Step) : ∀ (st : PSt),
    (parWalk plan min max st s).log.all isUse = true := by
  induction s with
  | nil => intro st; simp [parWalk]
  | cons x rest ih =>
    intro st
    cases x <;> simp only [parWalk] <;> repeat' split
    all_goals simp [ETr.cons, isUse, ih, PSt.recvFailed]

def recvBad (min max : Nat) (outs : List ROut) : Bool := outs.any (outErr min max)

theorem recvLoop_bad {min max : Nat} : ∀ (outs : List ROut) (s : Slots),
    recvBad min max outs = true → ∃ e, recvLoop min max s outs = .error e := by
  intro outs
  induction outs with
  | nil => intro s h; simp [recvBad] at h
  | cons o outs ih =>
    intro s h
    simp only [recvBad, List.any_cons, Bool.or_eq_true] at h
    cases o with
    | retry =>
      simp only [recvLoop]
      exact ih s (by simpa [recvBad, outErr] using h)
    | fatal => exact ⟨_, rfl⟩
    | nilProbe => exact ⟨_, rfl⟩
    | accept p =>
      simp only [recvLoop]
      split
      · rename_i hv
        exact ih _ (by simpa [recvBad, outErr, hv] using h)
      · exact ⟨_, rfl⟩

theorem parWalk_err (plan : FaultPlan) (min max : Nat) (s : List Step) : ∀ (st : PSt),
    (parWalk plan min max st s).firstErr.isSome = true →
      (parWalk plan min max st s).sendErr = true ∨ recvBad min max (parWalk plan min max st s).outs = true := by
  induction s with
  | nil => intro st; simp [parWalk]
  | cons x rest ih =>
    intro st
    cases x <;> simp only [parWalk] <;> repeat' split
    all_goals first
      | exact ih _
      | (intro h; simp_all [ETr.cons, recvBad, outErr]; try exact ih _ h)

theorem parWalk_done_hit (plan : FaultPlan) (min max : Nat) (s : List Step) : ∀ (st : PSt),
    st.sDone = true → st.rDone = true → (parWalk plan min max st s).hit = [] := by
  induction s with
  | nil => intro st _ _; simp [parWalk]
  | cons x rest ih =>
    intro st hs hr
    cases x with
    | send => simp only [parWalk, hs, Bool.true_or, if_true]; exact ih st hs hr
    | rbegin => simp only [parWalk, hr, Bool.true_or, if_true]; exact ih st hs hr
    | rend o =>
      simp only [parWalk]
      split
      · exact ih st hs hr
      · split
        · exact ih _ (by simp [PSt.recvFailed]) (by simp [PSt.recvFailed])
        · exact ih _ (by simp [hs]) (by simp [hr])

/-- the engine-level half of atomicity -/
def Good (t : ETr) : Prop :=
  t.hit.filter nonBenign ≠ [] →
    ∃ c, t.firstErr = some c ∧ ∃ f ∈ t.hit.filter nonBenign, Link.cause (causeOf f) ∈ c

theorem good_of_fail {t : ETr} {hs : List Fault} {c : ErrChain} {f : Fault} {e : List Ev} {o : List ROut} {se : Bool}
    (hh : hs = [f]) (hn : nonBenign f = true) (hc : Link.cause (causeOf f) ∈ c) :
    Good { log := e, hit := hs ++ t.hit, outs := o, sendErr := se, firstErr := some c } := by
  intro _
  refine ⟨c, rfl, f, ?_, hc⟩
  simp [hh, List.filter_cons, hn]

theorem parWalk_good (plan : FaultPlan) (min max : Nat) (s : List Step) : ∀ (st : PSt),
    Good (parWalk plan min max st s) := by
  induction s with
  | nil => intro st; simp [parWalk, Good]
  | cons x rest ih =>
    intro st
    cases x with
    | send =>
      simp only [parWalk]
      split
      · exact ih st
      · split
        · have := ih { st with cnt := { st.cnt with nw := st.cnt.nw + 1 }, sent := st.sent + 1 }
          simpa [Good, ETr.cons] using this
        · rename_i hne
          obtain ⟨f, hf, hn, hc⟩ := hit_fail_notread (op := .write) (by decide) (by simpa using hne)
          exact good_of_fail hf hn (by simp [hc, sendChain])
    | rbegin =>
      simp only [parWalk]
      split
      · exact ih st
      · split
        · rename_i he
          obtain ⟨f, hf, hn, hc⟩ := hit_fail_notread (op := .deadline) (plan := plan) (k := st.cnt.nd) (by decide) (by rw [he]; decide)
          exact good_of_fail hf hn (by simp [hc, deadlineChain])
        · split
          · have := ih { st with cnt := { st.cnt with nd := st.cnt.nd + 1, nr := st.cnt.nr + 1 }, pend := true }
            simpa [Good, ETr.cons] using this
          · rename_i he
            have := ih { st with cnt := { st.cnt with nd := st.cnt.nd + 1, nr := st.cnt.nr + 1 } }
            have hb := hit_read_timeout he
            simpa [Good, ETr.cons, List.filter_append, hb] using this
          · rename_i he
            obtain ⟨f, hf, hn, hc⟩ := hit_read_fail he
            exact good_of_fail hf hn (by simp [hc, readInjChain])
          · rename_i he
            obtain ⟨f, hf, hn, hc⟩ := hit_read_zero he
            exact good_of_fail hf hn (by simp [hc, readZeroChain])
    | rend o =>
      simp only [parWalk]
      split
      · exact ih st
      · split
        · intro hne
          have := parWalk_done_hit plan min max rest st.recvFailed (by simp [PSt.recvFailed]) (by simp [PSt.recvFailed])
          simp [this] at hne
        · have := ih { st with pend := false, sDone := st.sDone || outDest o }
          simpa [Good] using this

/-! ### serial engine walk, conclusion -/

def GoodP (hit : List Fault) (fe : Option ErrChain) : Prop :=
  hit.filter nonBenign ≠ [] →
    ∃ c, fe = some c ∧ ∃ f ∈ hit.filter nonBenign, Link.cause (causeOf f) ∈ c

theorem goodP_of_fail {hs rest : List Fault} {c : ErrChain} {f : Fault}
    (hh : hs = [f]) (hn : nonBenign f = true) (hc : Link.cause (causeOf f) ∈ c) :
    GoodP (hs ++ rest) (some c) := by
  intro _
  refine ⟨c, rfl, f, ?_, hc⟩
  simp [hh, hn]

theorem goodP_nil (fe : Option ErrChain) : GoodP [] fe := by intro h; simp at h

theorem winWalk_uses (plan : FaultPlan) (min max : Nat) (w : List ROut) : ∀ (c : Cnt),
    (winWalk plan min max c w).log.all isUse = true := by
  induction w with
  | nil => intro c; simp [winWalk]
  | cons o rest ih =>
    intro c
    simp only [winWalk]
    repeat' split
    all_goals simp [isUse, ih]

theorem winWalk_good (plan : FaultPlan) (min max : Nat) (w : List ROut) : ∀ (c : Cnt),
    GoodP (winWalk plan min max c w).hit (winWalk plan min max c w).err := by
  induction w with
  | nil => intro c; simp [winWalk]; exact goodP_nil _
  | cons o rest ih =>
    intro c
    simp only [winWalk]
    split
    · rename_i he
      obtain ⟨f, hf, hn, hc⟩ := hit_fail_notread (op := .deadline) (plan := plan) (k := c.nd) (by decide) (by rw [he]; decide)
      have := goodP_of_fail (rest := []) hf hn (c := deadlineChain c.nd) (by simp [hc, deadlineChain])
      simpa using this
    · split
      · rename_i he
        obtain ⟨f, hf, hn, hc⟩ := hit_read_fail he
        have := goodP_of_fail (rest := []) hf hn (c := readInjChain c.nr) (by simp [hc, readInjChain])
        simpa using this
      · rename_i he
        obtain ⟨f, hf, hn, hc⟩ := hit_read_zero he
        have := goodP_of_fail (rest := []) hf hn (c := readZeroChain) (by simp [hc, readZeroChain])
        simpa using this
      · rename_i he
        have hb := hit_read_timeout he
        have := ih { c with nd := c.nd + 1, nr := c.nr + 1 }
        simpa [GoodP, List.filter_append, hb] using this
      · rename_i he
        have hp := hitOf_pass he
        split
        · simp [hp]; exact goodP_nil _
        · split
          · simp [hp]; exact goodP_nil _
          · have := ih { c with nd := c.nd + 1, nr := c.nr + 1 }
            simpa [GoodP, hp] using this

theorem winWalk_err (plan : FaultPlan) (min max : Nat) (w : List ROut) : ∀ (c : Cnt),
    (winWalk plan min max c w).err.isSome = true →
      ∃ e, serialWindow min max (winWalk plan min max c w).outs = .error e := by
  induction w with
  | nil => intro c; simp [winWalk]
  | cons o rest ih =>
    intro c
    simp only [winWalk]
    split
    · intro _; exact ⟨_, rfl⟩
    · split
      · intro _; exact ⟨_, rfl⟩
      · intro _; exact ⟨_, rfl⟩
      · intro h; simp only [serialWindow]; exact ih _ h
      · split
        · rename_i hb
          intro _
          cases o <;> simp [outErr] at hb <;> simp [serialWindow, hb]
        · split
          · simp
          · rename_i hb _ hna
            intro h
            cases o with
            | retry => simp only [serialWindow]; exact ih _ h
            | accept p => exact absurd rfl (hna p)
            | fatal => simp [outErr] at hb
            | nilProbe => simp [outErr] at hb

theorem winWalk_cont (plan : FaultPlan) (min max : Nat) (w : List ROut) : ∀ (c : Cnt),
    (winWalk plan min max c w).err = none → (winWalk plan min max c w).stop = false →
      serialWindow min max (winWalk plan min max c w).outs = .ok none ∨
      ∃ p, serialWindow min max (winWalk plan min max c w).outs = .ok (some p) ∧ p.dest = false := by
  induction w with
  | nil => intro c; simp [winWalk, serialWindow]
  | cons o rest ih =>
    intro c
    simp only [winWalk]
    split
    · simp
    · split
      · simp
      · simp
      · intro h1 h2; simp only [serialWindow]; exact ih _ h1 h2
      · split
        · simp
        · rename_i hb
          split
          · rename_i q
            intro _ hs
            right
            simp [outErr] at hb
            exact ⟨q, by simp [serialWindow, hb], by simpa using hs⟩
          · rename_i hna
            intro h1 h2
            cases o with
            | retry => simp only [serialWindow]; exact ih _ h1 h2
            | accept p => exact absurd rfl (hna p)
            | fatal => simp [outErr] at hb
            | nilProbe => simp [outErr] at hb

theorem serWalk_uses (plan : FaultPlan) (min max : Nat) (ws : List (List ROut)) : ∀ (c : Cnt) (sent : Nat),
    (serWalk plan min max c sent ws).log.all isUse = true := by
  induction ws with
  | nil => intro c sent; simp [serWalk]
  | cons w rest ih =>
    intro c sent
    simp only [serWalk]
    repeat' split
    all_goals simp [isUse, ih, winWalk_uses]

theorem serWalk_good (plan : FaultPlan) (min max : Nat) (ws : List (List ROut)) : ∀ (c : Cnt) (sent : Nat),
    GoodP (serWalk plan min max c sent ws).hit (serWalk plan min max c sent ws).firstErr := by
  induction ws with
  | nil => intro c sent; simp [serWalk]; exact goodP_nil _
  | cons w rest ih =>
    intro c sent
    simp only [serWalk]
    split
    · exact goodP_nil _
    · split
      · have hw := winWalk_good plan min max w { c with nw := c.nw + 1 }
        split
        · rename_i e he
          simpa [he] using hw
        · rename_i he
          split
          · simpa [he] using hw
          · have hr := ih (winWalk plan min max { c with nw := c.nw + 1 } w).cnt (sent + 1)
            intro hne
            simp only [List.filter_append] at hne
            by_cases hwe : (winWalk plan min max { c with nw := c.nw + 1 } w).hit.filter nonBenign = []
            · simp only [hwe, List.nil_append] at hne
              obtain ⟨cc, h1, f, hf, hc⟩ := hr hne
              exact ⟨cc, h1, f, by simp [List.filter_append, hf], hc⟩
            · obtain ⟨cc, h1, _⟩ := hw hwe
              simp [he] at h1
      · rename_i hne
        obtain ⟨f, hf, hn, hc⟩ := hit_fail_notread (op := .write) (plan := plan) (k := c.nw) (by decide) (by simpa using hne)
        have := goodP_of_fail (rest := []) hf hn (c := sendChain c.nw) (by simp [hc, sendChain])
        simpa using this

theorem serWalk_err (plan : FaultPlan) (min max : Nat) (ws : List (List ROut)) : ∀ (c : Cnt) (sent : Nat),
    (serWalk plan min max c sent ws).firstErr.isSome = true →
      (serWalk plan min max c sent ws).sendErr = true ∨
      ∀ s, ∃ e, serialLoop min max s (serWalk plan min max c sent ws).windows = .error e := by
  induction ws with
  | nil => intro c sent; simp [serWalk]
  | cons w rest ih =>
    intro c sent
    simp only [serWalk]
    split
    · simp
    · split
      · split
        · rename_i e he
          intro _
          right
          intro s
          obtain ⟨e', he'⟩ := winWalk_err plan min max w { c with nw := c.nw + 1 } (by simp [he])
          exact ⟨e', by simp [serialLoop, he']⟩
        · rename_i he
          split
          · simp
          · rename_i hst
            intro h
            rcases ih _ _ h with h1 | h2
            · left; exact h1
            · right
              intro s
              rcases winWalk_cont plan min max w { c with nw := c.nw + 1 } he (by simpa using hst) with hw | ⟨p, hw, hp⟩
              · simp only [serialLoop, hw]; exact h2 s
              · simp only [serialLoop, hw, hp]; exact h2 _
      · simp

theorem parallelRun_err {min max : Nat} {outs : List ROut} {se ec : Bool}
    (h : se = true ∨ recvBad min max outs = true) : ∃ e, parallelRun min max true outs se ec = .error e := by
  unfold parallelRun
  split; · exact ⟨_, rfl⟩
  simp only [Bool.not_true, Bool.false_eq_true, if_false]
  split; · exact ⟨_, rfl⟩
  rename_i s hs
  rcases h with h | h
  · simp [h]
  · obtain ⟨e, he⟩ := recvLoop_bad outs emptySlots h
    rw [he] at hs; cases hs

theorem serialRun_err {min max : Nat} {ws : List (List ROut)} {se : Bool}
    (h : se = true ∨ ∀ s, ∃ e, serialLoop min max s ws = .error e) : ∃ e, serialRun min max ws se false = .error e := by
  unfold serialRun
  split; · exact ⟨_, rfl⟩
  split; · exact ⟨_, rfl⟩
  rename_i s hs
  rcases h with h | h
  · simp [h]
  · obtain ⟨e, he⟩ := h emptySlots
    rw [he] at hs; cases hs

/-- atomicity of "engine result → conclude" -/
theorem atomic_conclude {min : Nat} {ew hw : ErrChain} {r : RunRes} {fe : Option ErrChain}
    {hit : List Fault} {log : CallLog} (hg : GoodP hit fe) (hr : fe.isSome = true → ∃ e, r = .error e) :
    atomic ⟨conclude min ew hw r fe, log, hit⟩ = true := by
  by_cases hne : hit.filter nonBenign = []
  · unfold atomic fatalHits
    simp only [hne]
    split <;> simp
  · obtain ⟨c, hc, f, hf, hm⟩ := hg hne
    obtain ⟨e, he⟩ := hr (by simp [hc])
    subst he
    simp only [atomic, fatalHits, conclude, engChain, hc, Bool.or_eq_true, List.any_eq_true]
    right
    exact ⟨f, hf, by simp [hm]⟩

/-! ### SACK handshake, early exits, staged SACK wrapper -/

theorem hsLoop_uses (plan : FaultPlan) (hs : List HOut) : ∀ (nr : Nat),
    (hsLoop plan nr hs).log.all isUse = true := by
  induction hs with
  | nil => intro nr; simp [hsLoop]
  | cons h rest ih =>
    intro nr
    simp only [hsLoop]
    repeat' split
    all_goals simp [isUse, ih]

theorem hsLoop_good (plan : FaultPlan) (hs : List HOut) : ∀ (nr : Nat),
    GoodP (hsLoop plan nr hs).hit (hsLoop plan nr hs).err := by
  induction hs with
  | nil => intro nr; simp [hsLoop]; exact goodP_nil _
  | cons h rest ih =>
    intro nr
    simp only [hsLoop]
    split
    · rename_i he
      obtain ⟨f, hf, hn, hc⟩ := hit_read_fail he
      have := goodP_of_fail (rest := []) hf hn (c := [W.handshake.l, W.hsRead.l, W.connRead.l, .cause (.injected .read nr)]) (by simp [hc])
      simpa using this
    · rename_i he
      obtain ⟨f, hf, hn, hc⟩ := hit_read_zero he
      have := goodP_of_fail (rest := []) hf hn (c := [W.handshake.l, W.hsRead.l, .cause .zeroRead]) (by simp [hc])
      simpa using this
    · rename_i he
      intro hne
      simp [hit_read_timeout he] at hne
    · rename_i he
      have hp := hitOf_pass he
      split
      · have := ih (nr + 1)
        simpa [hp] using this
      all_goals (simp [hp]; exact goodP_nil _)

theorem hsLoop_ok_hit (plan : FaultPlan) (hs : List HOut) : ∀ (nr : Nat),
    (hsLoop plan nr hs).err = none → (hsLoop plan nr hs).hit = [] := by
  induction hs with
  | nil => intro nr; simp [hsLoop]
  | cons h rest ih =>
    intro nr
    simp only [hsLoop]
    split
    · simp
    · simp
    · simp
    · rename_i he
      have hp := hitOf_pass he
      split
      · intro h; simpa [hp] using ih (nr + 1) h
      all_goals simp [hp]

/-- atomicity of an early error exit caused by the failing call itself -/
theorem atomic_early {plan : FaultPlan} {op : FOp} {k : Nat} {c : ErrChain} {log : CallLog}
    (hop : op ≠ .read) (h : eff plan op k ≠ .pass) (hc : Link.cause (.injected op k) ∈ c) :
    atomic ⟨.error c, log, hitOf plan op k⟩ = true := by
  obtain ⟨f, hf, hn, hcz⟩ := hit_fail_notread hop h
  simp [atomic, fatalHits, hf, hn, hcz, hc]

theorem atomic_nohit (r : Except ErrChain Run) (log : CallLog) : atomic ⟨r, log, []⟩ = true := by
  unfold atomic fatalHits; split <;> simp

theorem uh : (usesHandle .filter = some .source) ∧ (usesHandle .deadline = some .source) ∧
    (usesHandle .read = some .source) ∧ (usesHandle .write = some .sink) ∧
    (∀ h, usesHandle (.open h) = none) ∧ (∀ h, usesHandle (.close h) = none) :=
  ⟨rfl, rfl, rfl, rfl, fun _ => rfl, fun _ => rfl⟩

theorem atomic_err_nofatal {c : ErrChain} {log : CallLog} {hit : List Fault}
    (h : hit.filter nonBenign = []) : atomic ⟨.error c, log, hit⟩ = true := by
  unfold atomic fatalHits; simp only [h]; simp

theorem sackTail_atomic (cfg : Cfg) (plan : FaultPlan) (env : SackEnv) (pre : CallLog) (nr : Nat) :
    atomic (sackTail cfg plan env pre [] nr) = true := by
  unfold sackTail
  split
  · rename_i h; simp only [List.nil_append]; exact atomic_early (by decide) h (by simp)
  · simp only [List.nil_append]
    exact atomic_conclude (parWalk_good _ _ _ _ _)
      (fun h => parallelRun_err (parWalk_err _ _ _ _ _ h))

theorem sackConn_atomic (cfg : Cfg) (plan : FaultPlan) (env : SackEnv) (pre : CallLog) :
    atomic (sackConn cfg plan env pre) = true := by
  unfold sackConn
  split; · exact atomic_nohit _ _
  split; · rename_i h; exact atomic_early (by decide) h (by simp)
  have hg := hsLoop_good plan env.hs 0
  have hk := hsLoop_ok_hit plan env.hs 0
  dsimp only
  split
  · rename_i e he
    by_cases hne : (hsLoop plan 0 env.hs).hit.filter nonBenign = []
    · exact atomic_err_nofatal hne
    · obtain ⟨c, hc, f, hf, hm⟩ := hg hne
      rw [he] at hc; cases hc
      simp only [atomic, fatalHits, Bool.or_eq_true, List.any_eq_true]
      right
      exact ⟨f, hf, by simp [hm]⟩
  · rename_i he
    rw [hk he]
    exact sackTail_atomic _ _ _ _ _

/-- shape of the log once the TCP connection is open: the prefix, then operations only, then the
    three deferred closes -/
theorem sackTail_shape (cfg : Cfg) (plan : FaultPlan) (env : SackEnv) (pre : CallLog) (hpre : List Fault) (nr : Nat) :
    ∃ mid, mid.all isUse = true ∧ (sackTail cfg plan env pre hpre nr).log = pre ++ mid ++ sackClose2 := by
  unfold sackTail
  split
  · exact ⟨[.filter], by simp [isUse], rfl⟩
  · refine ⟨[.filter] ++ (parWalk plan cfg.min cfg.max { cnt := { nd := 1, nr := nr } } env.sched).log, ?_, ?_⟩
    · simp [isUse, parWalk_uses]
    · simp [List.append_assoc]

theorem sackConn_shape (cfg : Cfg) (plan : FaultPlan) (env : SackEnv) (pre : CallLog) :
    ∃ mid, mid.all isUse = true ∧ (sackConn cfg plan env pre).log = pre ++ mid ++ sackClose2 := by
  unfold sackConn
  split; · exact ⟨[], rfl, by simp⟩
  split; · exact ⟨[.deadline], by simp [isUse], rfl⟩
  dsimp only
  split
  · exact ⟨[.deadline] ++ (hsLoop plan 0 env.hs).log, by simp [isUse, hsLoop_uses], rfl⟩
  · obtain ⟨mid, hm, hl⟩ := sackTail_shape cfg plan env (pre ++ ([.deadline] ++ (hsLoop plan 0 env.hs).log))
      (hsLoop plan 0 env.hs).hit (hsLoop plan 0 env.hs).nr
    refine ⟨[.deadline] ++ (hsLoop plan 0 env.hs).log ++ mid, ?_, ?_⟩
    · simp [isUse, hsLoop_uses, hm]
    · rw [hl]; simp [List.append_assoc]


end TRV.Proofs.Wrapper
