import TRV.Model.Drivers
import TRV.Spec.Genuine
set_option linter.unusedSimpArgs false
/-!
# Parser model ⇒ raw-offset view ("Parse_agrees_Fields")

Whenever the layered decoders of `TRV.Wire` succeed, the fields they return are the bytes at the
RFC offsets that `TRV.Spec` reads directly from the packet.
-/
namespace TRV.Proofs
open TRV TRV.Wire TRV.Drv TRV.Spec

theorem _root_.TRV.Window.lt {w d : Bytes} {k j : Nat} (hw : Window w d k) (hj : j < w.length) : k + j < d.length := by
  have := hw j w[j] (by simp [hj])
  exact (List.getElem?_eq_some_iff.mp this).1

theorem _root_.TRV.Window.le {w d : Bytes} {k n : Nat} (hw : Window w d k) (hn : n ≤ w.length) : n = 0 ∨ k + n ≤ d.length := by
  rcases Nat.eq_zero_or_pos n with h | h
  · exact Or.inl h
  · right
    have := hw.lt (j := n - 1) (by omega)
    omega

theorem ip4Cut_window (d : Bytes) (len : Nat) : Window (ip4Cut d len) d 0 := by
  unfold ip4Cut; split
  · exact Window.take d len
  · exact Window.refl d

theorem _root_.TRV.Window.raw' {w d : Bytes} {k off n : Nat} (hw : Window w d k) (hn : off + n ≤ w.length)
    (hpos : 0 < off + n) : Spec.raw d (k + off) n = some (slice w off n) := by
  have hd : k + off + n ≤ d.length := by
    have := hw.lt (j := off + n - 1) (by omega)
    omega
  unfold Spec.raw slice
  rw [if_pos hd, hw.slice off n hn]

theorem _root_.TRV.Window.raw {w d : Bytes} {k off n : Nat} (hw : Window w d k) (hn : off + n ≤ w.length) (hpos : 0 < n) :
    Spec.raw d (k + off) n = some (slice w off n) := hw.raw' hn (by omega)

theorem raw_self {d : Bytes} {off n : Nat} (h : off + n ≤ d.length) : Spec.raw d off n = some (slice d off n) := by
  unfold Spec.raw slice; rw [if_pos h]

/-- what a successful IPv4 decode says about the raw bytes -/
theorem ip4_spec {d : Bytes} {r : IP4} (h : ip4 d = some r) :
    ∃ b0, u8 d 0 = some b0 ∧ r.ihl = b0 % 16 ∧ 5 ≤ r.ihl ∧ r.ihl < 16 ∧ u16 d 4 = some r.id ∧ u16 d 6 = some r.ff ∧
      u8 d 9 = some r.proto ∧ r.src = slice d 12 4 ∧ r.dst = slice d 16 4 ∧ 20 ≤ d.length ∧
      Window r.payload d (r.ihl * 4) := by
  unfold ip4 at h
  split at h; · simp at h
  rename_i hlen
  split at h
  · rename_i b0 tos l id ff ttl pr hb0 htos hl hid hff httl hpr
    split at h; · simp at h
    split at h; · simp at h
    split at h; · simp at h
    split at h; · simp at h
    split at h; · simp at h
    simp only [Option.some.injEq] at h
    subst h
    refine ⟨b0, hb0, rfl, by simp only; omega, by simp only; omega, hid, hff, hpr, rfl, rfl, by omega, ?_⟩
    have := (Window.drop (ip4Cut d (ip4Len l d.length)) (b0 % 16 * 4)).trans (ip4Cut_window d _)
    simpa using this
  · simp at h

theorem icmp4_spec {d : Bytes} {i : ICMP4} (h : icmp4 d = some i) :
    u8 d 0 = some i.type ∧ u8 d 1 = some i.code ∧ u16 d 4 = some i.id ∧ u16 d 6 = some i.seq ∧
      i.payload = d.drop 8 ∧ 8 ≤ d.length := by
  unfold icmp4 at h
  split at h; · simp at h
  split at h
  · simp only [Option.some.injEq] at h; subst h
    rename_i h1 h2 h3 h4
    exact ⟨h1, h2, h3, h4, rfl, by omega⟩
  · simp at h

/-- the outer IPv4 header as seen by `Spec.view4` -/
theorem view4_of_ip4 {d : Bytes} {r : IP4} (h : ip4 d = some r) (hv : ∃ b0, u8 d 0 = some b0 ∧ b0 / 16 = 4) :
    view4 d = some { outerSrc := r.src, outerDst := r.dst, outerProto := r.proto,
                     outerFrag := r.ff % 16384, l4 := r.ihl * 4 } := by
  obtain ⟨b0, hb0, hihl, _, _, _, hff, hpr, hs, hd, hlen, _⟩ := ip4_spec h
  obtain ⟨b0', hb0', hver⟩ := hv
  rw [hb0] at hb0'; cases hb0'
  unfold view4
  rw [hb0, hff, hpr, raw_self (by omega), raw_self (by omega)]
  simp [hver, hs, hd, hihl]

/-- an ICMPv4 error in the outer payload: what `Spec.quote4` reads at the raw offsets -/
theorem quote4_of_parse {buf hp : Bytes} {k : Nat} {i : ICMP4} {q : IP4}
    (hw : Window hp buf k) (hi : icmp4 hp = some i) (hq : ip4 i.payload = some q) :
    quote4 buf k = some { icmpType := i.type, icmpCode := i.code, qSrc := q.src, qDst := q.dst,
                          qId := q.id, qProto := q.proto, qL4 := k + 8 + q.ihl * 4 } ∧
      Window q.payload buf (k + 8 + q.ihl * 4) := by
  obtain ⟨h1, h2, _, _, hpl, hlen⟩ := icmp4_spec hi
  obtain ⟨c0, hc0, hihl, _, _, hid, _, hpr, hs, hd, hqlen, hwq⟩ := ip4_spec hq
  have hwi : Window i.payload buf (k + 8) := by
    rw [hpl]; exact (Window.drop hp 8).trans hw
  have e1 := hw.u8 h1
  have e2 := hw.u8 h2
  have e3 := hwi.u8 hc0
  have e4 := hwi.u16 hid
  have e5 := hwi.raw (off := 12) (n := 4) (by omega) (by omega)
  have e6 := hwi.raw (off := 16) (n := 4) (by omega) (by omega)
  have e7 := hwi.u8 hpr
  simp only [Nat.add_zero] at e1 e3
  constructor
  · unfold quote4
    rw [e1, e2, e3, e4, e5, e6, e7]
    simp [hs, hd, hihl]
  · have := hwq.trans hwi
    simpa [Nat.add_assoc] using this

end TRV.Proofs

namespace TRV.Proofs
open TRV TRV.Wire TRV.Drv TRV.Spec

/-- inversion of `parse` for an ICMPv4 second layer -/
theorem parse_icmp4 {buf : Bytes} {l3 : L3} {i : ICMP4} (h : parse buf = some (l3, .icmp4 i)) :
    ∃ hd b0, l3 = .v4 hd ∧ u8 buf 0 = some b0 ∧ b0 / 16 = 4 ∧ ip4 buf = some hd ∧ hd.isFrag = false ∧
      hd.proto = 1 ∧ icmp4 hd.payload = some i := by
  unfold parse at h
  split at h; · simp at h
  rename_i b0 hb0
  split at h
  · rename_i hv
    split at h; · simp at h
    rename_i hd hip
    split at h; · simp at h
    split at h; · simp at h
    rename_i hfr
    split at h
    · cases ht : tcp hd.payload <;> simp [ht] at h
    · split at h
      · rename_i hp1
        cases hi : icmp4 hd.payload with
        | none => simp [hi] at h
        | some i' =>
          simp [hi] at h
          obtain ⟨rfl, rfl⟩ := h
          exact ⟨hd, b0, rfl, hb0, hv, hip, by simpa using hfr, hp1, hi⟩
      · simp at h
  · split at h
    · split at h; · simp at h
      split at h; · simp at h
      split at h
      · rename_i hh _ _ _
        cases ht : tcp hh.payload <;> simp [ht] at h
      · split at h
        · rename_i hh _ _ _ _
          cases hi : icmp6 hh.payload <;> simp [hi] at h
        · simp at h
    · simp at h

/-- inversion of `parse` for a TCP second layer over IPv4 -/
theorem parse_tcp4 {buf : Bytes} {hd : IP4} {t : TCP} (h : parse buf = some (.v4 hd, .tcp t)) :
    ∃ b0, u8 buf 0 = some b0 ∧ b0 / 16 = 4 ∧ ip4 buf = some hd ∧ hd.isFrag = false ∧
      hd.proto = 6 ∧ tcp hd.payload = some t := by
  unfold parse at h
  split at h; · simp at h
  rename_i b0 hb0
  split at h
  · rename_i hv
    split at h; · simp at h
    rename_i hd' hip
    split at h; · simp at h
    split at h; · simp at h
    rename_i hfr
    split at h
    · rename_i hp6
      cases ht : tcp hd'.payload with
      | none => simp [ht] at h
      | some t' =>
        simp [ht] at h
        obtain ⟨rfl, rfl⟩ := h
        exact ⟨b0, hb0, hv, hip, by simpa using hfr, hp6, ht⟩
    · split at h
      · rename_i hh
        cases hi : icmp4 hd'.payload <;> simp [hi] at h
      · simp at h
  · split at h
    · split at h; · simp at h
      split at h; · simp at h
      split at h
      · rename_i hh _ _ _
        cases ht : tcp hh.payload <;> simp [ht] at h
      · split at h
        · rename_i hh _ _ _ _
          cases hi : icmp6 hh.payload <;> simp [hi] at h
        · simp at h
    · simp at h

/-- inversion of `parse` for an ICMPv6 second layer -/
theorem parse_icmp6 {buf : Bytes} {l3 : L3} {i : ICMP6} (h : parse buf = some (l3, .icmp6 i)) :
    ∃ hd b0, l3 = .v6 hd ∧ u8 buf 0 = some b0 ∧ b0 / 16 = 6 ∧ ip6 buf = some hd ∧ hd.upper = 58 ∧
      icmp6 hd.payload = some i := by
  unfold parse at h
  split at h; · simp at h
  rename_i b0 hb0
  split at h
  · split at h; · simp at h
    rename_i hd' hip
    split at h; · simp at h
    split at h; · simp at h
    split at h
    · cases ht : tcp hd'.payload <;> simp [ht] at h
    · split at h
      · cases hi : icmp4 hd'.payload <;> simp [hi] at h
      · simp at h
  · split at h
    · rename_i hv6
      split at h; · simp at h
      rename_i hd' hip
      split at h; · simp at h
      split at h
      · cases ht : tcp hd'.payload <;> simp [ht] at h
      · split at h
        · rename_i hu
          cases hi : icmp6 hd'.payload with
          | none => simp [hi] at h
          | some i' =>
            simp [hi] at h
            obtain ⟨rfl, rfl⟩ := h
            exact ⟨hd', b0, rfl, hb0, hv6, hip, hu, hi⟩
        · simp at h
    · simp at h

/-- a version-6 first layer needs a version-6 first nibble -/
theorem parse_v6_nibble {buf : Bytes} {h6 : IP6} {l4 : L4} (h : parse buf = some (.v6 h6, l4)) :
    ∃ b0, u8 buf 0 = some b0 ∧ b0 / 16 = 6 := by
  unfold parse at h
  split at h; · simp at h
  rename_i b0 hb0
  split at h
  · split at h; · simp at h
    rename_i hd' hip
    split at h; · simp at h
    split at h; · simp at h
    split at h
    · cases ht : tcp hd'.payload <;> simp [ht] at h
    · split at h
      · cases hi : icmp4 hd'.payload <;> simp [hi] at h
      · simp at h
  · split at h
    · rename_i hv6; exact ⟨b0, hb0, hv6⟩
    · simp at h

theorem find_ttl {sent : List Sent} {t : Nat} {p : Sent} (h : sent.find? (·.ttl = t) = some p) :
    p ∈ sent ∧ p.ttl = t := by
  refine ⟨List.mem_of_find?_eq_some h, ?_⟩
  have := List.find?_some h
  simpa using this

theorem sentTTL_of_find {sent : List Sent} {t : Nat} {p : Sent} (h : sent.find? (·.ttl = t) = some p) :
    sentTTL sent t = true := by
  obtain ⟨hm, ht⟩ := find_ttl h
  unfold sentTTL
  rw [List.any_eq_true]
  exact ⟨p, hm, by simp [ht]⟩

end TRV.Proofs

namespace TRV.Proofs
open TRV TRV.Wire TRV.Drv TRV.Spec

theorem tcp_spec {d : Bytes} {t : TCP} (h : tcp d = some t) :
    u16 d 0 = some t.sport ∧ u16 d 2 = some t.dport ∧ u32 d 4 = some t.seq ∧ u32 d 8 = some t.ack ∧
      u8 d 13 = some t.flags ∧ 20 ≤ d.length ∧
      ∃ b12, u8 d 12 = some b12 ∧ 5 ≤ b12 / 16 ∧ b12 / 16 * 4 ≤ d.length ∧
        tcpOpts (b12 / 16 * 4 - 20) (slice d 20 (b12 / 16 * 4 - 20)) = some t.opts := by
  unfold tcp at h
  split at h; · simp at h
  split at h
  · rename_i sp dp seq ack b12 fl h1 h2 h3 h4 h5 h6
    simp only at h
    split at h; · simp at h
    split at h; · simp at h
    split at h; · simp at h
    rename_i opts hopts
    simp only [Option.some.injEq] at h
    subst h
    exact ⟨h1, h2, h3, h4, h6, by omega, b12, h5, by omega, by omega, hopts⟩
  · simp at h

theorem getLast_mem {l : List Sent} {x : Sent} (h : l.getLast? = some x) : x ∈ l :=
  List.mem_of_getLast? h

end TRV.Proofs

namespace TRV.Proofs
open TRV TRV.Wire TRV.Drv TRV.Spec

theorem icmp6_spec {d : Bytes} {i : ICMP6} (h : icmp6 d = some i) :
    u8 d 0 = some i.type ∧ u8 d 1 = some i.code ∧ i.payload = d.drop 4 ∧ 4 ≤ d.length := by
  unfold icmp6 at h
  split at h; · simp at h
  split at h
  · simp only [Option.some.injEq] at h; subst h
    rename_i h1 h2
    exact ⟨h1, h2, rfl, by omega⟩
  · simp at h

/-- what a successful IPv6 decode says about the raw bytes. `k` is where the payload starts; with a
    jumbo hop-by-hop option gopacket leaves the hop-by-hop header inside the payload, so the payload
    starts at 40 and its first byte is the hop-by-hop header's next-header field (= `upper`). -/
theorem ip6_spec {d : Bytes} {r : IP6} (h : ip6 d = some r) :
    u16 d 4 = some r.len ∧ u8 d 6 = some r.nextHeader ∧ r.src = slice d 8 16 ∧ r.dst = slice d 24 16 ∧
      40 ≤ d.length ∧
      ((r.nextHeader ≠ 0 ∧ r.upper = r.nextHeader ∧ Window r.payload d 40) ∨
       (r.nextHeader = 0 ∧ ∃ hl, u8 d 40 = some r.upper ∧ u8 d 41 = some hl ∧
          (Window r.payload d (40 + hl * 8 + 8) ∨
           (Window r.payload d 40 ∧ (r.payload = [] ∨ u8 r.payload 0 = some r.upper))))) := by
  unfold ip6 at h
  split at h; · simp at h
  rename_i hlen
  split at h
  · rename_i len nh hop h1 h2 h3
    simp only at h
    split at h
    · -- hop-by-hop
      rename_i hnh
      split at h; · simp at h
      split at h
      · rename_i hnext hlenb hh1 hh2
        split at h; · simp at h
        rename_i halen
        split at h; · simp at h
        rename_i opts hopts
        have hw40 : Window (d.drop 40) d 40 := Window.drop d 40
        have e1 := hw40.u8 hh1
        have e2 := hw40.u8 hh2
        simp only [Nat.add_zero] at e1
        split at h
        · simp at h
        · -- jumbo
          rename_i j hj
          split at h
          · simp only [Option.some.injEq] at h; subst h
            refine ⟨h1, h2, rfl, rfl, by omega, Or.inr ⟨hnh, hlenb, e1, e2, Or.inr ⟨?_, ?_⟩⟩⟩
            · have := (Window.take (d.drop 40) j).trans hw40
              simpa using this
            · simp only
              by_cases hj0 : j = 0
              · left; simp [hj0]
              · right
                have hk : (List.take j (d.drop 40))[0]? = (d.drop 40)[0]? := by
                  rw [List.getElem?_take]; simp [Nat.pos_of_ne_zero hj0]
                unfold u8 at hh1 ⊢
                rw [hk]; exact hh1
          · simp at h
        · split at h; · simp at h
          simp only [Option.some.injEq] at h; subst h
          refine ⟨h1, h2, rfl, rfl, by omega, Or.inr ⟨hnh, hlenb, e1, e2, Or.inl ?_⟩⟩
          have := ((Window.take ((d.drop 40).drop (hlenb * 8 + 8)) len).trans
            (Window.drop (d.drop 40) (hlenb * 8 + 8))).trans hw40
          simpa [Nat.add_assoc] using this
      · simp at h
    · rename_i hnh
      split at h; · simp at h
      simp only [Option.some.injEq] at h; subst h
      refine ⟨h1, h2, rfl, rfl, by omega, Or.inl ⟨hnh, rfl, ?_⟩⟩
      have := (Window.take (d.drop 40) len).trans (Window.drop d 40)
      simpa using this
  · simp at h

end TRV.Proofs

namespace TRV.Proofs
open TRV TRV.Wire TRV.Drv TRV.Spec

/-- the outer IPv6 header as seen by `Spec.view6`, for a packet whose upper layer decoded as ICMPv6
    with a type other than 58 (which rules out gopacket's jumbo quirk, where the "ICMPv6 header" is
    really the hop-by-hop header and its first byte is 58) -/
theorem view6_of_ip6 {d : Bytes} {r : IP6} {i : ICMP6} (h : ip6 d = some r)
    (hv : ∃ b0, u8 d 0 = some b0 ∧ b0 / 16 = 6) (hu : r.upper = 58) (hi : icmp6 r.payload = some i)
    (hty : i.type ≠ 58) :
    ∃ k, view6 d = some { outerSrc := r.src, outerDst := r.dst, upper := 58, l4 := k } ∧
      Window r.payload d k := by
  obtain ⟨hlen, hnh, hs, hd, hl40, hcase⟩ := ip6_spec h
  obtain ⟨b0, hb0, hver⟩ := hv
  obtain ⟨ht, _, _, hl4⟩ := icmp6_spec hi
  rcases hcase with ⟨hnz, hup, hw⟩ | ⟨hz, hl, e40, e41, hw | ⟨hw, hj⟩⟩
  · refine ⟨40, ?_, hw⟩
    unfold view6
    rw [hb0, hnh, raw_self (by omega), raw_self (by omega)]
    simp [hver, hnz, hs, hd, ← hup, hu]
  · refine ⟨40 + hl * 8 + 8, ?_, hw⟩
    unfold view6
    rw [hb0, hnh, raw_self (by omega), raw_self (by omega)]
    simp [hver, hz, e40, e41, hs, hd, hu]
  · exfalso
    rcases hj with hj | hj
    · rw [hj] at hl4; simp at hl4
    · rw [ht] at hj; simp at hj; omega

end TRV.Proofs

namespace TRV.Proofs
open TRV TRV.Wire TRV.Drv TRV.Spec

/-- an ICMPv6 error in the outer payload whose quoted IPv6 header has no hop-by-hop header (its
    next-header field, `WrappedProtocol`, is not 0): what `Spec.quote6` reads at the raw offsets -/
theorem quote6_of_parse {buf pl : Bytes} {k : Nat} {i : ICMP6} {nfo : ICMPInfo}
    (hw : Window pl buf k) (hi : icmp6 pl = some i) (hinfo : icmpInfo6 i = some nfo)
    (hnz : nfo.proto ≠ 0) :
    ∃ qnh qplen,
      quote6 buf k = some { icmpType := i.type, icmpCode := i.code, qSrc := nfo.qsrc,
                            qDst := nfo.qdst, qNh := qnh, qPlen := qplen, qL4 := k + 8 + 40 } ∧
      Window nfo.payload buf (k + 8 + 40) ∧ nfo.wrappedId = (if qnh = 17 then qplen else 0) ∧
      qnh = nfo.proto := by
  obtain ⟨h1, h2, hpl, hlen⟩ := icmp6_spec hi
  unfold icmpInfo6 at hinfo
  split at hinfo; · simp at hinfo
  rename_i b hb
  split at hinfo; · simp at hinfo
  rename_i hb6
  cases hq : ip6 (i.payload.drop 4) with
  | none => simp [hq] at hinfo
  | some q =>
    simp [hq] at hinfo
    subst hinfo
    have hwq0 : Window (i.payload.drop 4) buf (k + 8) := by
      rw [hpl]
      have := ((Window.drop (pl.drop 4) 4).trans (Window.drop pl 4)).trans hw
      simpa [Nat.add_assoc] using this
    obtain ⟨hlenq, hnh, hs, hd, hl40, hcase⟩ := ip6_spec hq
    have e1 := hw.u8 h1
    have e2 := hw.u8 h2
    have hb' : u8 (i.payload.drop 4) 0 = some b := by
      unfold u8 at hb ⊢
      rw [List.getElem?_drop]; simpa using hb
    have e3 := hwq0.u8 hb'
    have e4 := hwq0.u16 hlenq
    have e5 := hwq0.u8 hnh
    have e6 := hwq0.raw (off := 8) (n := 16) (by omega) (by omega)
    have e7 := hwq0.raw (off := 24) (n := 16) (by omega) (by omega)
    simp only [Nat.add_zero] at e1 e3
    have hqnz : q.nextHeader ≠ 0 := by simpa using hnz
    rcases hcase with ⟨_, _, hwp⟩ | ⟨hz, _⟩
    · refine ⟨q.nextHeader, q.len, ?_, ?_, rfl, rfl⟩
      · unfold quote6
        rw [e1, e2, e3, e4, e5, e6, e7]
        simp [hb6, hqnz, hs, hd]
      · have := hwp.trans hwq0
        simpa [Nat.add_assoc] using this
    · exact absurd hz hqnz

end TRV.Proofs
