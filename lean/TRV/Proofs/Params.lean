import TRV.Spec.Params
/-! Helper lemmas for C19: narrowing is the identity inside the checked range; the SACK table sized
    in `int` covers every TTL that is sent; `parseTarget` returns the requested port. -/
set_option linter.unusedSimpArgs false
namespace TRV.Proofs.Params
open TRV.Params TRV.Spec.Params
open TRV.Policy (Method)

theorem u8_of_inRange {x : Int} (h1 : 1 ≤ x) (h2 : x ≤ 255) : u8 x = x.toNat := by
  unfold u8; omega

theorem ttlInRange_iff (x : Int) : ttlInRange x = true ↔ 1 ≤ x ∧ x ≤ 255 := by
  simp [ttlInRange]

theorem engineValid_iff (a b : Nat) : engineValid a b = true ↔ a ≤ b ∧ 1 ≤ a := by
  simp [engineValid]

/-- the engine's TTL list is the requested range when the bounds were not changed by narrowing -/
theorem ttlList_requested {a b : Int} (h1 : 1 ≤ a) (h2 : a ≤ b) :
    ttlList a.toNat b.toNat = List.range' a.toNat (b - a + 1).toNat := by
  unfold ttlList
  congr 1
  omega

theorem mem_ttlList {a b t : Nat} (h : t ∈ ttlList a b) : a ≤ t ∧ t ≤ b := by
  unfold ttlList at h
  rw [List.mem_range'_1] at h
  omega

theorem sackSend_all {len : Nat} : ∀ {l : List Nat}, (∀ t ∈ l, t < len) → sackSend len l = some l
  | [], _ => rfl
  | t :: ts, h => by
    have ht : t < len := h t (List.mem_cons_self ..)
    have hts : ∀ u ∈ ts, u < len := fun u hu => h u (List.mem_cons_of_mem _ hu)
    simp [sackSend, ht, sackSend_all hts]

/-- with the table sized in `int`, every TTL of the range has a slot -/
theorem sackSend_int (a b : Nat) : sackSend (sackTableLen true b) (ttlList a b) = some (ttlList a b) := by
  apply sackSend_all
  intro t ht
  have := mem_ttlList ht
  simp [sackTableLen]; omega

theorem parseTarget_some {lit : LitPort} {d : Int} {q : Nat} (h : parseTarget lit d = some q) :
    ∃ n : Int, (lit = .absent ∧ n = d ∨ lit = .num n) ∧ 1 ≤ n ∧ n ≤ 65535 ∧ (q : Int) = n := by
  cases lit with
  | garbage => simp [parseTarget] at h
  | absent =>
    simp only [parseTarget] at h
    split at h
    · simp at h
    · simp only [Option.some.injEq] at h
      refine ⟨d, Or.inl ⟨rfl, rfl⟩, by omega, by omega, ?_⟩
      subst h; unfold u16; omega
  | num n =>
    simp only [parseTarget] at h
    split at h
    · simp at h
    · simp only [Option.some.injEq] at h
      refine ⟨n, Or.inr rfl, by omega, by omega, ?_⟩
      subst h; unfold u16; omega

/-- UDP/TCP: the port `parseTarget` returns is the requested one -/
theorem portHonoured_of_parse {p : P} {pl : Plan} {q : Nat} (hproto : p.proto ≠ .icmp)
    (h : parseTarget p.litPort (destPort p.port) = some q) (hpl : pl.port = some q) :
    portHonoured p pl = true := by
  obtain ⟨n, hn, h1, h2, hq⟩ := parseTarget_some h
  unfold portHonoured requestedPort
  rw [hpl]
  rcases hn with ⟨hl, hd⟩ | hl
  · cases hp : p.proto <;> simp_all [destPort, defaultPort]
  · cases hp : p.proto <;> simp_all

theorem ttlsHonoured_of {p : P} {pl : Plan} (h1 : 1 ≤ p.minTTL) (h2 : p.maxTTL ≤ 255)
    (hv : engineValid p.minTTL.toNat p.maxTTL.toNat = true)
    (hpl : pl.ttls = ttlList p.minTTL.toNat p.maxTTL.toNat) : ttlsHonoured p pl = true := by
  have hle : p.minTTL ≤ p.maxTTL := by
    have := (engineValid_iff _ _).mp hv
    omega
  unfold ttlsHonoured
  rw [hpl, ttlList_requested h1 hle]
  simp [h1, h2, hle]

end TRV.Proofs.Params
