import TRV.Basic.Logic
/-! # Big-endian reads of the regenerated trees (`Logic.be` on constant sub-slices) = `u16` / `u32` -/
namespace TRV.Proofs.BeNat
open TRV TRV.Logic

theorem drop_of_get {b : Bytes} {k : Nat} {x : BitVec 8} (h : b[k]? = some x) : b.drop k = x :: b.drop (k+1) := by
  have hk : k < b.length := by
    rcases Nat.lt_or_ge k b.length with h' | h'
    · exact h'
    · simp [List.getElem?_eq_none h'] at h
  rw [List.getElem?_eq_getElem hk] at h
  cases h
  exact List.drop_eq_getElem_cons hk

theorem u16_bytes {b : Bytes} {k v : Nat} (h : u16 b k = some v) :
    ∃ x y, b[k]? = some x ∧ b[k+1]? = some y ∧ v = x.toNat * 256 + y.toNat := by
  unfold u16 u8 at h
  cases h1 : b[k]? with
  | none => simp [h1] at h
  | some x =>
    cases h2 : b[k+1]? with
    | none => simp [h1, h2] at h
    | some y =>
      simp [h1, h2] at h
      exact ⟨x, y, rfl, rfl, h.symm⟩

theorem be16_of_u16 {b : Bytes} {k v : Nat} (h : u16 b k = some v) : be ((b.drop k).take (k + 2 - k)) 2 = v := by
  obtain ⟨x, y, h1, h2, hv⟩ := u16_bytes h
  have d1 := drop_of_get h1
  have d2 := drop_of_get h2
  have : k + 2 - k = 2 := by omega
  rw [this, d1, d2]
  simp [be, beNat]
  omega

theorem be32_of_u32 {b : Bytes} {k v : Nat} (h : u32 b k = some v) : be ((b.drop k).take (k + 4 - k)) 4 = v := by
  unfold u32 at h
  cases h1 : u16 b k with
  | none => simp [h1] at h
  | some hi =>
    cases h2 : u16 b (k+2) with
    | none => simp [h1, h2] at h
    | some lo =>
      simp [h1, h2] at h
      obtain ⟨x0, x1, a0, a1, e1⟩ := u16_bytes h1
      obtain ⟨x2, x3, a2, a3, e2⟩ := u16_bytes h2
      have d0 := drop_of_get a0
      have d1 := drop_of_get a1
      have d2 := drop_of_get a2
      have d3 := drop_of_get a3
      have e : b.drop k = x0 :: x1 :: x2 :: x3 :: b.drop (k+2+1+1) := by
        rw [d0, d1]
        show x0 :: x1 :: b.drop (k+2) = _
        rw [d2, d3]
      have : k + 4 - k = 4 := by omega
      rw [this, e]
      subst e1 e2
      subst h
      simp only [be, List.take, beNat, List.foldl]
      omega

theorem u16_some_of_len {b : Bytes} {k : Nat} (h : k + 2 ≤ b.length) : ∃ v, u16 b k = some v := by
  unfold u16 u8
  have h0 : k < b.length := by omega
  have h1 : k + 1 < b.length := by omega
  simp [List.getElem?_eq_getElem h0, List.getElem?_eq_getElem h1]

theorem u16_len {b : Bytes} {k v : Nat} (h : u16 b k = some v) : k + 2 ≤ b.length := by
  unfold u16 u8 at h
  rcases Nat.lt_or_ge (k+1) b.length with h' | h'
  · omega
  · simp [List.getElem?_eq_none h'] at h

end TRV.Proofs.BeNat
