import TRV.Proofs.Alloc
/-!
# Cross-protocol isolation on IPv4 (C11, after the fix for F11)

A packet that is genuine for a run of one protocol carries that protocol's *signature*: either an
ICMP error quoting a datagram whose protocol field is the run's protocol, or a direct reply whose
outer protocol is TCP, or an echo reply.  The signatures of different protocols exclude each other,
so no packet is genuine for an ICMP run and a UDP run, a UDP run and a TCP-SYN/SACK run, or an ICMP
run and a TCP-SYN/SACK run — with NO hypothesis on addresses, ports or identifiers.
-/
namespace TRV.Proofs
open TRV TRV.Spec TRV.Drv

/-- ICMP error (outer protocol 1, type 11 or 3) quoting a datagram with protocol `k` -/
def SigQuoted (p : Bytes) (k : Nat) : Prop :=
  ∃ v q, view4 p = some v ∧ quote4 p v.l4 = some q ∧ v.outerProto = 1 ∧
    (q.icmpType = 11 ∨ q.icmpType = 3) ∧ q.qProto = k

/-- direct TCP segment -/
def SigTcp (p : Bytes) : Prop := ∃ v, view4 p = some v ∧ v.outerProto = 6

/-- ICMP echo reply -/
def SigEcho (p : Bytes) : Prop := ∃ v, view4 p = some v ∧ v.outerProto = 1 ∧ u8 p v.l4 = some 0

theorem sigQuoted_unique {p : Bytes} {k k' : Nat} (h : SigQuoted p k) (h' : SigQuoted p k') : k = k' := by
  obtain ⟨v, q, hv, hq, _, _, hk⟩ := h
  obtain ⟨v', q', hv', hq', _, _, hk'⟩ := h'
  rw [hv] at hv'; cases hv'
  rw [hq] at hq'; cases hq'
  omega

theorem sigQuoted_not_tcp {p : Bytes} {k : Nat} (h : SigQuoted p k) (h' : SigTcp p) : False := by
  obtain ⟨v, q, hv, _, h1, _, _⟩ := h
  obtain ⟨v', hv', h6⟩ := h'
  rw [hv] at hv'; cases hv'
  omega

theorem sigQuoted_not_echo {p : Bytes} {k : Nat} (h : SigQuoted p k) (h' : SigEcho p) : False := by
  obtain ⟨v, q, hv, hq, _, hty, _⟩ := h
  obtain ⟨v', hv', _, h0⟩ := h'
  rw [hv] at hv'; cases hv'
  rw [quote4_type hq] at h0
  simp only [Option.some.injEq] at h0
  omega

theorem sigEcho_not_tcp {p : Bytes} (h : SigEcho p) (h' : SigTcp p) : False := by
  obtain ⟨v, hv, h1, _⟩ := h
  obtain ⟨v', hv', h6⟩ := h'
  rw [hv] at hv'; cases hv'
  omega

theorem sig_icmp4 {c : IcmpCfg} {s : List Sent} {t : Nat} {a : Bytes} {d : Bool} {p : Bytes}
    (h : genuineIcmp4 c s t a d p = true) : SigQuoted p 1 ∨ SigEcho p := by
  unfold genuineIcmp4 at h
  cases d <;> simp only [Bool.false_eq_true, if_false, if_true] at h
  · left
    unfold genuineIcmp4TE at h
    split at h; · simp at h
    rename_i v hv
    split at h; · simp at h
    rename_i q hq
    split at h
    · simp only [Bool.and_eq_true, decide_eq_true_eq, Bool.or_eq_true, and_assoc] at h
      obtain ⟨_, h1, _, h11, _, _, hp, _⟩ := h
      exact ⟨v, q, hv, hq, h1, Or.inl h11, hp⟩
    · simp at h
  · right
    unfold genuineIcmp4Echo at h
    split at h; · simp at h
    rename_i v hv
    split at h
    · rename_i ty id seq h1 _ _
      simp only [Bool.and_eq_true, decide_eq_true_eq, and_assoc] at h
      obtain ⟨_, _, hpr, _, hty, _⟩ := h
      exact ⟨v, hv, hpr, by rw [h1, hty]⟩
    · simp at h

theorem sig_udp4 {c : UdpCfg} {s : List Sent} {t : Nat} {a : Bytes} {d : Bool} {p : Bytes}
    (h : genuineUdp4 c s t a d p = true) : SigQuoted p 17 := by
  unfold genuineUdp4 at h
  split at h; · simp at h
  rename_i v hv
  split at h; · simp at h
  rename_i q hq
  split at h; · simp at h
  simp only [Bool.and_eq_true, decide_eq_true_eq, Bool.or_eq_true, and_assoc] at h
  obtain ⟨_, h1, _, hty, hp, _⟩ := h
  refine ⟨v, q, hv, hq, h1, ?_, hp⟩
  rcases hty with ⟨h11, _⟩ | h3
  · exact Or.inl h11
  · exact Or.inr h3

theorem sig_tcp {c : TcpCfg} {s : List Sent} {t : Nat} {a : Bytes} {d : Bool} {p : Bytes}
    (h : genuineTcp c s t a d p = true) : SigQuoted p 6 ∨ SigTcp p := by
  unfold genuineTcp at h
  cases d <;> simp only [Bool.false_eq_true, if_false, if_true] at h
  · left
    unfold genuineTcpQuoted at h
    split at h; · simp at h
    rename_i v hv
    split at h; · simp at h
    rename_i q hq
    split at h
    · simp only [Bool.and_eq_true, decide_eq_true_eq, Bool.or_eq_true, and_assoc] at h
      obtain ⟨_, h1, _, h11, _, hp, _⟩ := h
      exact ⟨v, q, hv, hq, h1, Or.inl h11, hp⟩
    · simp at h
  · right
    obtain ⟨v, sp, dp, hv, _, h6, _⟩ := tcpDirect_inv h
    exact ⟨v, hv, h6⟩

theorem sig_sack {c : SackCfg} {s : List Sent} {t : Nat} {a : Bytes} {d : Bool} {p : Bytes}
    (h : genuineSack c s t a d p = true) : SigQuoted p 6 ∨ SigTcp p := by
  unfold genuineSack at h
  simp only [Bool.or_eq_true, Bool.and_eq_true] at h
  rcases h with h | ⟨_, h⟩
  · left
    unfold genuineSackQuoted at h
    split at h; · simp at h
    rename_i v hv
    split at h; · simp at h
    rename_i q hq
    split at h
    · simp only [Bool.and_eq_true, decide_eq_true_eq, Bool.or_eq_true, and_assoc] at h
      obtain ⟨_, h1, _, h11, _, hp, _⟩ := h
      exact ⟨v, q, hv, hq, h1, Or.inl h11, hp⟩
    · simp at h
  · right
    obtain ⟨v, sp, dp, hv, _, h6, _⟩ := sackDirect_inv h
    exact ⟨v, hv, h6⟩

/-- signatures of an ICMP run and of a UDP run exclude each other -/
theorem icmp_udp_excl {p : Bytes} (hi : SigQuoted p 1 ∨ SigEcho p) (hu : SigQuoted p 17) : False := by
  rcases hi with hi | hi
  · have := sigQuoted_unique hi hu; omega
  · exact sigQuoted_not_echo hu hi

/-- signatures of an ICMP run and of a TCP-SYN / SACK run exclude each other -/
theorem icmp_tcp_excl {p : Bytes} (hi : SigQuoted p 1 ∨ SigEcho p) (ht : SigQuoted p 6 ∨ SigTcp p) : False := by
  rcases hi with hi | hi <;> rcases ht with ht | ht
  · have := sigQuoted_unique hi ht; omega
  · exact sigQuoted_not_tcp hi ht
  · exact sigQuoted_not_echo ht hi
  · exact sigEcho_not_tcp hi ht

/-- signatures of a UDP run and of a TCP-SYN / SACK run exclude each other -/
theorem udp_tcp_excl {p : Bytes} (hu : SigQuoted p 17) (ht : SigQuoted p 6 ∨ SigTcp p) : False := by
  rcases ht with ht | ht
  · have := sigQuoted_unique hu ht; omega
  · exact sigQuoted_not_tcp hu ht

end TRV.Proofs
