import TRV.Proofs.CompleteDirect
set_option linter.unusedSimpArgs false
set_option linter.unusedVariables false
/-!
# Byte-level completeness (C02), IPv6: ICMPv6 echo reply, ICMPv6 time-exceeded quoting our echo
request, and ICMPv6 errors quoting our UDP datagram

`rawHdr6` is an IPv6 header whose every field is a parameter (traffic class / flow label bytes,
payload length, next header ≠ 0, hop limit).
-/
namespace TRV.Proofs
open TRV TRV.Wire TRV.Build TRV.Drv

theorem len16' {l : Bytes} (h : l.length = 16) : ∃ a0 a1 a2 a3 a4 a5 a6 a7 a8 a9 a10 a11 a12 a13 a14 a15,
    l = [a0, a1, a2, a3, a4, a5, a6, a7, a8, a9, a10, a11, a12, a13, a14, a15] := by
  match l, h with
  | [a0, a1, a2, a3, a4, a5, a6, a7, a8, a9, a10, a11, a12, a13, a14, a15], _ =>
    exact ⟨a0, a1, a2, a3, a4, a5, a6, a7, a8, a9, a10, a11, a12, a13, a14, a15, rfl⟩

/-- IPv6 header: version 6 and EVERY value of the 28 traffic-class / flow-label bits, payload length,
    next header, hop limit, addresses.  The traffic class straddles bytes 0 and 1: `b1` carries its
    upper nibble in bits 8..11 (byte 0 is `0x60 + (b1 / 256) % 16`) and byte 1 in its low 8 bits, so
    quantifying over all `b1 b2 b3` covers every header a DSCP-rewriting router can produce. -/
def rawHdr6 (b1 b2 b3 plen nh hop : Nat) (src dst : Bytes) : Bytes :=
  [byte (0x60 + (b1 / 256) % 16), byte b1, byte b2, byte b3] ++ be16 plen ++ [byte nh, byte hop] ++ src ++ dst

theorem rawHdr6_length (b1 b2 b3 plen nh hop : Nat) (src dst : Bytes) (hs : src.length = 16) (hd : dst.length = 16) :
    (rawHdr6 b1 b2 b3 plen nh hop src dst).length = 40 := by
  simp [rawHdr6, be16, hs, hd]

/-- gopacket's IPv6 decoder on a header without extension headers followed by any bytes -/
theorem ip6_rawHdr6 {b1 b2 b3 plen nh hop : Nat} {src dst pl : Bytes} (hs : src.length = 16) (hd : dst.length = 16)
    (hplen : 0 < plen) (hpl : plen < 65536) (hnh : nh ≠ 0) (hnh2 : nh < 256) (hhop : hop < 256) :
    ip6 (rawHdr6 b1 b2 b3 plen nh hop src dst ++ pl) =
      some { len := plen, nextHeader := nh, hop := hop, src := src, dst := dst, upper := nh, payload := pl.take plen } := by
  have hL := rawHdr6_length b1 b2 b3 plen nh hop src dst hs hd
  obtain ⟨s0, s1, s2, s3, s4, s5, s6, s7, s8, s9, s10, s11, s12, s13, s14, s15, rfl⟩ := len16' hs
  obtain ⟨d0, d1, d2, d3, d4, d5, d6, d7, d8, d9, d10, d11, d12, d13, d14, d15, rfl⟩ := len16' hd
  have e4 : u16 (rawHdr6 b1 b2 b3 plen nh hop [s0, s1, s2, s3, s4, s5, s6, s7, s8, s9, s10, s11, s12, s13, s14, s15]
      [d0, d1, d2, d3, d4, d5, d6, d7, d8, d9, d10, d11, d12, d13, d14, d15] ++ pl) 4 = some plen := by
    simp [rawHdr6, be16, u16, u8]
    rw [byte_toNat (by omega), byte_toNat (by omega)]; omega
  have e6 : u8 (rawHdr6 b1 b2 b3 plen nh hop [s0, s1, s2, s3, s4, s5, s6, s7, s8, s9, s10, s11, s12, s13, s14, s15]
      [d0, d1, d2, d3, d4, d5, d6, d7, d8, d9, d10, d11, d12, d13, d14, d15] ++ pl) 6 = some nh := by
    simp [rawHdr6, be16, u8, byte_toNat, hnh2]
  have e7 : u8 (rawHdr6 b1 b2 b3 plen nh hop [s0, s1, s2, s3, s4, s5, s6, s7, s8, s9, s10, s11, s12, s13, s14, s15]
      [d0, d1, d2, d3, d4, d5, d6, d7, d8, d9, d10, d11, d12, d13, d14, d15] ++ pl) 7 = some hop := by
    simp [rawHdr6, be16, u8, byte_toNat, hhop]
  have hsrc : slice (rawHdr6 b1 b2 b3 plen nh hop [s0, s1, s2, s3, s4, s5, s6, s7, s8, s9, s10, s11, s12, s13, s14, s15]
      [d0, d1, d2, d3, d4, d5, d6, d7, d8, d9, d10, d11, d12, d13, d14, d15] ++ pl) 8 16 =
      [s0, s1, s2, s3, s4, s5, s6, s7, s8, s9, s10, s11, s12, s13, s14, s15] := by
    simp [rawHdr6, be16, slice]
  have hdst : slice (rawHdr6 b1 b2 b3 plen nh hop [s0, s1, s2, s3, s4, s5, s6, s7, s8, s9, s10, s11, s12, s13, s14, s15]
      [d0, d1, d2, d3, d4, d5, d6, d7, d8, d9, d10, d11, d12, d13, d14, d15] ++ pl) 24 16 =
      [d0, d1, d2, d3, d4, d5, d6, d7, d8, d9, d10, d11, d12, d13, d14, d15] := by
    simp [rawHdr6, be16, slice]
  have hdrop : (rawHdr6 b1 b2 b3 plen nh hop [s0, s1, s2, s3, s4, s5, s6, s7, s8, s9, s10, s11, s12, s13, s14, s15]
      [d0, d1, d2, d3, d4, d5, d6, d7, d8, d9, d10, d11, d12, d13, d14, d15] ++ pl).drop 40 = pl := by
    simp [rawHdr6, be16]
  unfold ip6
  rw [if_neg (by rw [List.length_append, hL]; omega), e4, e6, e7]
  simp only [hsrc, hdst, hdrop, hnh, if_false]
  rw [if_neg (by omega)]

end TRV.Proofs

namespace TRV.Proofs
open TRV TRV.Wire TRV.Build TRV.Drv

/-- an ICMPv6 message (type, code, checksum, 4 further header bytes) around `body`, directly behind
    an IPv6 header from `r` to `dst` -/
def icmpMsg6 (ob1 ob2 ob3 ohop : Nat) (r dst : Bytes) (ty code ick : Nat) (rest4 body : Bytes) : Bytes :=
  rawHdr6 ob1 ob2 ob3 (8 + body.length) 58 ohop r dst ++ (([byte ty, byte code] ++ be16 ick ++ rest4) ++ body)

/-- `FrameParser.Parse` on such a packet -/
theorem parse_icmpMsg6 {ob1 ob2 ob3 ohop ty code ick : Nat} {r dst rest4 body : Bytes}
    (hr : r.length = 16) (hd : dst.length = 16) (hrest : rest4.length = 4)
    (hhop : ohop < 256) (hty : ty < 256) (hco : code < 256) (hsize : 48 + body.length ≤ 1024) :
    parse ((icmpMsg6 ob1 ob2 ob3 ohop r dst ty code ick rest4 body).take bufSize) =
      some (.v6 { len := 8 + body.length, nextHeader := 58, hop := ohop, src := r, dst := dst, upper := 58,
                  payload := ([byte ty, byte code] ++ be16 ick ++ rest4) ++ body },
            .icmp6 { type := ty, code := code, payload := rest4 ++ body }) := by
  have hlenpl : (([byte ty, byte code] ++ be16 ick ++ rest4) ++ body).length = 8 + body.length := by
    simp [be16, hrest]; omega
  have hL : (icmpMsg6 ob1 ob2 ob3 ohop r dst ty code ick rest4 body).length = 48 + body.length := by
    unfold icmpMsg6
    rw [List.length_append, rawHdr6_length _ _ _ _ _ _ _ _ hr hd, hlenpl]; omega
  rw [take_of_le (by rw [hL]; simp [bufSize]; omega)]
  have hip := ip6_rawHdr6 (b1 := ob1) (b2 := ob2) (b3 := ob3) (plen := 8 + body.length) (nh := 58) (hop := ohop)
    (pl := ([byte ty, byte code] ++ be16 ick ++ rest4) ++ body) hr hd (by omega) (by omega) (by omega) (by omega) hhop
  rw [take_of_le (by rw [hlenpl]; omega)] at hip
  obtain ⟨a, b, c, d, rfl⟩ := len4 hrest
  have hb0 : u8 (icmpMsg6 ob1 ob2 ob3 ohop r dst ty code ick [a, b, c, d] body) 0 = some (0x60 + (ob1 / 256) % 16) := by
    simp [icmpMsg6, rawHdr6, u8]; rw [byte_toNat (by omega)]
  unfold parse
  rw [hb0]
  have hv : (0x60 + (ob1 / 256) % 16) / 16 = 6 := by omega
  simp only [hv, show ((6 : Nat) = 4) = False by decide, if_false, if_true]
  unfold icmpMsg6
  rw [hip]
  have hne : (([byte ty, byte code] ++ be16 ick ++ [a, b, c, d]) ++ body).isEmpty = false := by simp [be16]
  simp only [hne, Bool.false_eq_true, if_false]
  simp [Wire.icmp6, be16, u8, byte_toNat, hty, hco]

/-- ICMP/IPv6 completeness on bytes, destination form: an echo reply (any code, checksum, traffic class /
    flow label, hop limit, payload) from the target carrying the run's identifier and sequence number `t` -/
theorem icmp6_echo_complete {s : IcmpSt} {t : Nat} {p : Sent}
    {ob1 ob2 ob3 ohop code ick : Nat} {body : Bytes}
    (hl : s.cfg.localA.length = 16) (htg : s.cfg.target.length = 16)
    (b3 : ohop < 256) (b4 : code < 256) (b13 : s.cfg.echoId < 65536) (b14 : t < 65536)
    (hsize : 48 + body.length ≤ 1024) (hlk : icmpLookup s t = some p) :
    icmpRecv s (icmpMsg6 ob1 ob2 ob3 ohop s.cfg.target s.cfg.localA 129 code ick (be16 s.cfg.echoId ++ be16 t) body) =
      .accept t s.cfg.target true p.time := by
  have hrest : (be16 s.cfg.echoId ++ be16 t).length = 4 := by simp [be16]
  have hparse := parse_icmpMsg6 (ob1 := ob1) (ob2 := ob2) (ob3 := ob3) (ohop := ohop) (ty := 129) (code := code) (ick := ick)
    (r := s.cfg.target) (dst := s.cfg.localA) (rest4 := be16 s.cfg.echoId ++ be16 t) (body := body) htg hl hrest b3 (by omega) b4 hsize
  have e1 : u16 ((be16 s.cfg.echoId ++ be16 t) ++ body) 0 = some s.cfg.echoId := by
    simp [be16, u16, u8]
    rw [byte_toNat (by omega), byte_toNat (by omega)]; omega
  have e2 : u16 ((be16 s.cfg.echoId ++ be16 t) ++ body) 2 = some t := by
    simp [be16, u16, u8]
    rw [byte_toNat (by omega), byte_toNat (by omega)]; omega
  have hne : icmpMsg6 ob1 ob2 ob3 ohop s.cfg.target s.cfg.localA 129 code ick (be16 s.cfg.echoId ++ be16 t) body ≠ [] := by
    simp [icmpMsg6, rawHdr6]
  unfold icmpRecv
  simp only [isEmpty_false_of_ne hne, hparse, e1, e2, hlk, L3.src]
  simp

end TRV.Proofs

namespace TRV.Proofs
open TRV TRV.Wire TRV.Build TRV.Drv

/-- `GetICMPInfo` on an ICMPv6 error body: 4 bytes, then the quoted IPv6 header and what follows -/
theorem icmpInfo6_quote {ty code : Nat} {qb1 qb2 qb3 qplen qnh qhop : Nat} {qsrc qdst rest4 l4x : Bytes}
    (hs : qsrc.length = 16) (hd : qdst.length = 16) (hrest : rest4.length = 4)
    (h1 : 0 < qplen) (h2 : qplen < 65536) (h3 : qnh ≠ 0) (h4 : qnh < 256) (h5 : qhop < 256) :
    icmpInfo6 { type := ty, code := code, payload := rest4 ++ (rawHdr6 qb1 qb2 qb3 qplen qnh qhop qsrc qdst ++ l4x) } =
      some { wrappedId := if qnh = 17 then qplen else 0, proto := qnh, qsrc := qsrc, qdst := qdst,
             payload := l4x.take qplen } := by
  obtain ⟨a, b, c, d, rfl⟩ := len4 hrest
  have h4b : u8 ([a, b, c, d] ++ (rawHdr6 qb1 qb2 qb3 qplen qnh qhop qsrc qdst ++ l4x)) 4 = some (0x60 + (qb1 / 256) % 16) := by
    simp [rawHdr6, u8]; rw [byte_toNat (by omega)]
  have hdrop : ([a, b, c, d] ++ (rawHdr6 qb1 qb2 qb3 qplen qnh qhop qsrc qdst ++ l4x)).drop 4 =
      rawHdr6 qb1 qb2 qb3 qplen qnh qhop qsrc qdst ++ l4x := by simp
  unfold icmpInfo6
  have hv : (0x60 + (qb1 / 256) % 16) / 16 = 6 := by omega
  simp only [h4b, hdrop, hv, ne_eq, not_true_eq_false, if_false,
    ip6_rawHdr6 hs hd h1 h2 h3 h4 h5, Option.map_some]

/-- ICMP/IPv6 completeness on bytes: a time-exceeded (any code) from router `r`, any traffic class /
    flow label / hop limit, any 4 bytes after the checksum, quoting our echo request with any quoted
    traffic class / hop limit and quoted payload length ≥ 8, followed by ANY further bytes -/
theorem icmp6_te_complete {s : IcmpSt} {t : Nat} {p : Sent}
    {ob1 ob2 ob3 ohop code ick qb1 qb2 qb3 qplen qhop ety ecode eck : Nat} {r rest4 extra : Bytes}
    (hl : s.cfg.localA.length = 16) (htg : s.cfg.target.length = 16) (hr : r.length = 16) (hrest : rest4.length = 4)
    (b3 : ohop < 256) (b4 : code < 256) (b6 : 8 ≤ qplen) (b7 : qplen < 65536) (b10 : qhop < 256)
    (b11 : ety = 128 ∨ ety = 129) (b12 : ecode < 256) (b13 : s.cfg.echoId < 65536) (b14 : t < 65536)
    (hsize : 48 + (48 + extra.length) ≤ 1024) (hlk : icmpLookup s t = some p) :
    icmpRecv s (icmpMsg6 ob1 ob2 ob3 ohop r s.cfg.localA 3 code ick rest4
        (rawHdr6 qb1 qb2 qb3 qplen 58 qhop s.cfg.localA s.cfg.target ++
          (([byte ety, byte ecode] ++ be16 eck ++ be16 s.cfg.echoId ++ be16 t) ++ extra))) =
      .accept t r false p.time := by
  have hbody : (rawHdr6 qb1 qb2 qb3 qplen 58 qhop s.cfg.localA s.cfg.target ++
      (([byte ety, byte ecode] ++ be16 eck ++ be16 s.cfg.echoId ++ be16 t) ++ extra)).length = 48 + extra.length := by
    rw [List.length_append, rawHdr6_length _ _ _ _ _ _ _ _ hl htg]; simp [be16]; omega
  have hparse := parse_icmpMsg6 (ob1 := ob1) (ob2 := ob2) (ob3 := ob3) (ohop := ohop) (ty := 3) (code := code) (ick := ick)
    (r := r) (dst := s.cfg.localA) (rest4 := rest4)
    (body := rawHdr6 qb1 qb2 qb3 qplen 58 qhop s.cfg.localA s.cfg.target ++
      (([byte ety, byte ecode] ++ be16 eck ++ be16 s.cfg.echoId ++ be16 t) ++ extra))
    hr hl hrest b3 (by omega) b4 (by rw [hbody]; omega)
  have hinfo := icmpInfo6_quote (ty := 3) (code := code) (qb1 := qb1) (qb2 := qb2) (qb3 := qb3) (qplen := qplen) (qnh := 58)
    (qhop := qhop) (qsrc := s.cfg.localA) (qdst := s.cfg.target) (rest4 := rest4)
    (l4x := ([byte ety, byte ecode] ++ be16 eck ++ be16 s.cfg.echoId ++ be16 t) ++ extra)
    hl htg hrest (by omega) b7 (by omega) (by omega) b10
  have hety : ety < 256 := by rcases b11 with h | h <;> omega
  have hecho : extractEcho6 ((([byte ety, byte ecode] ++ be16 eck ++ be16 s.cfg.echoId ++ be16 t) ++ extra).take qplen) =
      some (s.cfg.echoId, t) := by
    have hw : ([byte ety, byte ecode] ++ be16 eck ++ be16 s.cfg.echoId ++ be16 t).length = 8 := by simp [be16]
    rw [List.take_append, hw, List.take_of_length_le (by rw [hw]; omega)]
    have hid : (byte (s.cfg.echoId / 256)).toNat * 256 + (byte (s.cfg.echoId % 256)).toNat = s.cfg.echoId := by
      rw [byte_toNat (by omega), byte_toNat (by omega)]; omega
    have hsq : (byte (t / 256)).toNat * 256 + (byte (t % 256)).toNat = t := by
      clear hid
      rw [byte_toNat (by omega), byte_toNat (by omega)]; omega
    generalize List.take (qplen - 8) extra = x
    have hic : Wire.icmp6 (([byte ety, byte ecode] ++ be16 eck ++ be16 s.cfg.echoId ++ be16 t) ++ x) =
        some { type := ety, code := ecode, payload := be16 s.cfg.echoId ++ be16 t ++ x } := by
      simp [Wire.icmp6, be16, u8, byte_toNat hety, byte_toNat b12]
    have e1 : u16 (be16 s.cfg.echoId ++ be16 t ++ x) 0 = some s.cfg.echoId := by
      simp [be16, u16, u8, hid]
    have e2 : u16 (be16 s.cfg.echoId ++ be16 t ++ x) 2 = some t := by
      simp [be16, u16, u8, hsq]
    have hne : (be16 s.cfg.echoId ++ be16 t ++ x).isEmpty = false := by simp [be16]
    unfold extractEcho6
    rw [hic]
    simp only [hne, Bool.false_eq_true, if_false, b11, if_true, e1, e2]
  have hne : icmpMsg6 ob1 ob2 ob3 ohop r s.cfg.localA 3 code ick rest4
        (rawHdr6 qb1 qb2 qb3 qplen 58 qhop s.cfg.localA s.cfg.target ++
          (([byte ety, byte ecode] ++ be16 eck ++ be16 s.cfg.echoId ++ be16 t) ++ extra)) ≠ [] := by
    simp [icmpMsg6, rawHdr6]
  unfold icmpRecv
  simp only [isEmpty_false_of_ne hne, hparse, hinfo, hecho, hlk, L3.src, if_true, Bool.false_eq_true, if_false]
  simp

end TRV.Proofs

namespace TRV.Proofs
open TRV TRV.Wire TRV.Build TRV.Drv

/-- UDP/IPv6 completeness on bytes: a time-exceeded (code 0) or destination-unreachable (any code) from
    `r` quoting our datagram — quoted payload length = the probe's identifier — with any quoted traffic
    class / hop limit, followed by ANY further bytes -/
theorem udp6_err_complete {s : UdpSt} {p : Sent}
    {ob1 ob2 ob3 ohop ty code ick qb1 qb2 qb3 qhop : Nat} {r rest4 w extra : Bytes}
    (hl : s.cfg.localA.length = 16) (htg : s.cfg.target.length = 16) (hr : r.length = 16) (hrest : rest4.length = 4)
    (hw : w.length = 4)
    (b3 : ohop < 256) (b4 : code < 256) (hty : (ty = 3 ∧ code = 0) ∨ ty = 1)
    (b6 : 8 ≤ p.id) (b7 : p.id < 65536) (b10 : qhop < 256)
    (b11 : s.cfg.lport < 65536) (b12 : s.cfg.tport < 65536)
    (hsize : 48 + (48 + extra.length) ≤ 1024) (hf : s.sent.find? (·.id = p.id) = some p) :
    udpRecv s (icmpMsg6 ob1 ob2 ob3 ohop r s.cfg.localA ty code ick rest4
        (rawHdr6 qb1 qb2 qb3 p.id 17 qhop s.cfg.localA s.cfg.target ++
          ((be16 s.cfg.lport ++ be16 s.cfg.tport ++ w) ++ extra))) =
      .accept p.ttl r (decide (r = s.cfg.target)) p.time := by
  have hbody : (rawHdr6 qb1 qb2 qb3 p.id 17 qhop s.cfg.localA s.cfg.target ++
      ((be16 s.cfg.lport ++ be16 s.cfg.tport ++ w) ++ extra)).length = 48 + extra.length := by
    rw [List.length_append, rawHdr6_length _ _ _ _ _ _ _ _ hl htg]; simp [be16, hw]; omega
  have htyl : ty < 256 := by rcases hty with ⟨h, _⟩ | h <;> omega
  have hparse := parse_icmpMsg6 (ob1 := ob1) (ob2 := ob2) (ob3 := ob3) (ohop := ohop) (ty := ty) (code := code) (ick := ick)
    (r := r) (dst := s.cfg.localA) (rest4 := rest4)
    (body := rawHdr6 qb1 qb2 qb3 p.id 17 qhop s.cfg.localA s.cfg.target ++
      ((be16 s.cfg.lport ++ be16 s.cfg.tport ++ w) ++ extra))
    hr hl hrest b3 htyl b4 (by rw [hbody]; omega)
  have hinfo := icmpInfo6_quote (ty := ty) (code := code) (qb1 := qb1) (qb2 := qb2) (qb3 := qb3) (qplen := p.id) (qnh := 17)
    (qhop := qhop) (qsrc := s.cfg.localA) (qdst := s.cfg.target) (rest4 := rest4)
    (l4x := (be16 s.cfg.lport ++ be16 s.cfg.tport ++ w) ++ extra)
    hl htg hrest (by omega) b7 (by omega) (by omega) b10
  obtain ⟨hports, _⟩ := quoted8 (a := s.cfg.lport) (b := s.cfg.tport) (w := w) (extra := extra) (n := p.id) b6 hw b11 b12
  have hne : icmpMsg6 ob1 ob2 ob3 ohop r s.cfg.localA ty code ick rest4
        (rawHdr6 qb1 qb2 qb3 p.id 17 qhop s.cfg.localA s.cfg.target ++
          ((be16 s.cfg.lport ++ be16 s.cfg.tport ++ w) ++ extra)) ≠ [] := by
    simp [icmpMsg6, rawHdr6]
  unfold udpRecv
  simp only [isEmpty_false_of_ne hne, hparse, hty, hinfo, hports, hf, L3.src, if_true, Bool.false_eq_true, if_false]
  simp
  rfl

end TRV.Proofs
