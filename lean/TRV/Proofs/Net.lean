import TRV.Spec.Net
import TRV.Proofs.Engine
set_option linter.unusedSimpArgs false
set_option linter.unusedVariables false
/-! Helper lemmas for C13 (abstract network composed with the engine models). -/
namespace TRV.Proofs.Net
open TRV TRV.Engine TRV.Spec TRV.Proofs TRV.Net TRV.Spec.Net

/-! ## The network -/

/-- a router's own answer to a probe that expires there -/
def routerReply (r : Router) : Option Reply :=
  if r.silent then none else some (.timeExceeded r.addr)

theorem forward_router (D : Reply) : ∀ (rs : List Router) (t : Nat), 1 ≤ t → t ≤ rs.length →
    ∃ r, rs[t - 1]? = some r ∧ forward D rs t = routerReply r := by
  intro rs
  induction rs with
  | nil => intro t h1 h2; simp at h2; omega
  | cons r rs ih =>
    intro t h1 h2
    by_cases ht : t = 1
    · subst ht; exact ⟨r, by simp, by simp [forward, routerReply]⟩
    · have h0 : t ≠ 0 := by omega
      obtain ⟨r', hr', hf⟩ := ih (t - 1) (by omega) (by simp at h2; omega)
      refine ⟨r', ?_, ?_⟩
      · have : t - 1 = (t - 1 - 1) + 1 := by omega
        rw [this, List.getElem?_cons_succ]; exact hr'
      · simp [forward, h0, ht, hf]

theorem forward_dest (D : Reply) : ∀ (rs : List Router) (t : Nat), rs.length + 1 ≤ t →
    forward D rs t = some D := by
  intro rs
  induction rs with
  | nil => intro t h; have : t ≠ 0 := by simp at h; omega
           simp [forward, this]
  | cons r rs ih =>
    intro t h
    simp at h
    have h0 : t ≠ 0 := by omega
    have h1 : t ≠ 1 := by omega
    simp [forward, h0, h1, ih (t - 1) (by omega)]

/-- no router shares the destination's address -/
def WF (n : Net) : Prop := ∀ r ∈ n.routers, r.addr ≠ n.dest.addr

/-- the TTL a destination answer is attributed to -/
def ttlOf (v : Variant) (low : Nat → Nat) (t : Nat) : Nat := if v = .sack then low t else t

theorem probeAt_router {n : Net} {v : Variant} {low : Nat → Nat} {tm : Timing} {t : Nat} {r : Router}
    (hwf : WF n) (h1 : 1 ≤ t) (h2 : t ≤ n.routers.length) (hr : n.routers[t - 1]? = some r) :
    probeAt n v low tm t =
      if r.silent then none else some { ttl := t, ip := r.addr, rtt := rttOf tm t t, dest := false } := by
  obtain ⟨r', hr', hf⟩ := forward_router (destReply n.dest v) n.routers t h1 h2
  rw [hr] at hr'; cases hr'
  have hne : r.addr ≠ n.dest.addr := hwf r (List.mem_of_getElem? hr)
  unfold probeAt seenAt respond
  rw [hf]
  unfold routerReply
  by_cases hs : r.silent = true
  · simp [hs]
  · cases v <;> simp [hs, seen, hne]

theorem probeAt_dest {n : Net} {v : Variant} {low : Nat → Nat} {tm : Timing} {t : Nat}
    (hv : v = .sack → n.dest.sackEnabled = true) (ht : n.routers.length + 1 ≤ t) :
    probeAt n v low tm t =
      some { ttl := ttlOf v low t, ip := n.dest.addr, rtt := rttOf tm t (ttlOf v low t), dest := true } := by
  unfold probeAt seenAt respond
  rw [forward_dest _ _ _ ht]
  cases v with
  | icmp => simp [destReply, seen, ttlOf]
  | udp => simp [destReply, seen, ttlOf]
  | tcpSyn => cases hp : n.dest.port <;> simp [destReply, seen, ttlOf, hp]
  | sack => simp [destReply, seen, ttlOf, hv rfl]


/-! ## From a slot array that follows the path to the reported hop list -/

/-- the slot array holds, for every probed TTL below the first one that reaches the destination,
    that router's reply (nothing where silent), and the destination's reply at that TTL -/
structure PathSlots (n : Net) (min max : Nat) (s : Slots) : Prop where
  low : ∀ t, t < min → s t = none
  ttl : ∀ t p, s t = some p → p.ttl = t
  router : ∀ t, min ≤ t → t ≤ max → t < destTTL n min → erase (hopOf t (s t)) = routerHop n t
  dest : destTTL n min ≤ max → ∃ p, s (destTTL n min) = some p ∧ p.ip = n.dest.addr ∧ p.dest = true
  rtt : ∀ t p, s t = some p → 0 ≤ p.rtt

theorem routerHop_dest (n : Net) (t : Nat) : (routerHop n t).dest = false := by
  unfold routerHop; split <;> rfl

theorem erase_dest (h : Hop) : (erase h).dest = h.dest := rfl

theorem destTTL_ge_min (n : Net) (min : Nat) : min ≤ destTTL n min := Nat.le_max_left _ _
theorem destTTL_gt_len (n : Net) (min : Nat) : n.routers.length + 1 ≤ destTTL n min := Nat.le_max_right _ _
theorem destTTL_cases (n : Net) (min : Nat) :
    destTTL n min = min ∨ destTTL n min = n.routers.length + 1 := by
  unfold destTTL; rcases Nat.le_total min (n.routers.length + 1) with h | h
  · right; exact Nat.max_eq_right h
  · left; exact Nat.max_eq_left h

theorem pathSlots_noDest {n : Net} {min max : Nat} {s : Slots} (h : PathSlots n min max s)
    (t : Nat) (ht : t ≤ max) (htd : t < destTTL n min) : isDestSlot (s t) = false := by
  rcases Nat.lt_or_ge t min with hlt | hge
  · rw [h.low t hlt]; rfl
  · have := congrArg PHop.dest (h.router t hge ht htd)
    rw [erase_dest, hopOf_dest, routerHop_dest] at this
    exact this

/-- the cut TTL -/
theorem pathSlots_cut {n : Net} {min max : Nat} {s : Slots} (h : PathSlots n min max s) :
    ((List.range (max+1)).find? (fun t => isDestSlot (s t))).getD max = Nat.min (destTTL n min) max := by
  rcases Nat.lt_or_ge max (destTTL n min) with hgt | hle
  · have : (List.range (max+1)).find? (fun t => isDestSlot (s t)) = none := by
      rw [List.find?_range_eq_none]
      intro j hj
      simp [pathSlots_noDest h j (by omega) (by omega)]
    have e : Nat.min (destTTL n min) max = max := Nat.min_eq_right (Nat.le_of_lt hgt)
    rw [this, e]; rfl
  · obtain ⟨p, hp, _, hpd⟩ := h.dest hle
    have : (List.range (max+1)).find? (fun t => isDestSlot (s t)) = some (destTTL n min) := by
      rw [List.find?_range_eq_some]
      refine ⟨by simp [hp, isDestSlot, hpd], by simp; omega, ?_⟩
      intro j hj
      simp [pathSlots_noDest h j (by omega) hj]
    have e : Nat.min (destTTL n min) max = destTTL n min := Nat.min_eq_left hle
    rw [this, e]; rfl

theorem hopOf_rtt_nonneg {s : Slots} (hr : ∀ t p, s t = some p → 0 ≤ p.rtt) (t : Nat) :
    0 ≤ (hopOf t (s t)).rtt := by
  cases hs : s t with
  | none => simp [hopOf]
  | some p => simpa [hopOf] using hr t p hs

/-- the final stage common to both engines: clip, convert, compare with the reference list -/
theorem pathSlots_result {n : Net} {min max : Nat} {s : Slots} (hmm : min ≤ max)
    (h : PathSlots n min max s) :
    ∃ r hops, clipList min (slotList max s) = some r ∧ toHops min r = some hops ∧
      hops.map erase = expectedHops n min max ∧ ∀ h ∈ hops, 0 ≤ h.rtt := by
  have hclip := clip_slotList (s := s) (max := max) hmm h.low
  rw [pathSlots_cut h] at hclip
  refine ⟨_, _, hclip, toHops_map h.ttl _ _, ?_, ?_⟩
  · -- the erased list is the reference list
    unfold expectedHops
    simp only [List.map_map]
    rcases Nat.lt_or_ge max (destTTL n min) with hgt | hle
    · have e1 : Nat.min (destTTL n min) max = max := Nat.min_eq_right (by omega)
      have e2 : Nat.min (destTTL n min) (max + 1) = max + 1 := Nat.min_eq_right (by omega)
      have e3 : ¬ destTTL n min ≤ max := by omega
      rw [e1, e2, if_neg e3, List.append_nil]
      apply List.map_congr_left
      intro t ht
      simp only [List.mem_range', Nat.mul_one] at ht
      obtain ⟨i, hi, rfl⟩ := ht
      exact h.router _ (by omega) (by omega) (by omega)
    · have e1 : Nat.min (destTTL n min) max = destTTL n min := Nat.min_eq_left hle
      have e2 : Nat.min (destTTL n min) (max + 1) = destTTL n min := Nat.min_eq_left (by omega)
      have hge := destTTL_ge_min n min
      rw [e1, e2, if_pos hle]
      have hsplit : List.range' min (destTTL n min + 1 - min) =
          List.range' min (destTTL n min - min) ++ [destTTL n min] := by
        have : destTTL n min + 1 - min = (destTTL n min - min) + 1 := by omega
        rw [this, List.range'_concat]; simp; omega
      rw [hsplit, List.map_append]
      congr 1
      · apply List.map_congr_left
        intro t ht
        simp only [List.mem_range', Nat.mul_one] at ht
        obtain ⟨i, hi, rfl⟩ := ht
        exact h.router _ (by omega) (by omega) (by omega)
      · obtain ⟨p, hp, hip, hpd⟩ := h.dest hle
        simp [hp, hopOf, erase, destHop, hip, hpd]
  · intro x hx
    simp only [List.mem_map] at hx
    obtain ⟨t, _, rfl⟩ := hx
    exact hopOf_rtt_nonneg h.rtt t


/-! ## Parallel engine -/

/-- only acceptances and retryable outcomes (no fault, no nil probe) -/
def Clean (outs : List ROut) : Prop := ∀ o ∈ outs, o = .retry ∨ ∃ p, o = .accept p

theorem recvLoop_clean {min max : Nat} : ∀ (outs : List ROut) (s : Slots), Clean outs →
    (∀ p ∈ accepted outs, validProbe min max p = true) →
    recvLoop min max s outs = .ok ((accepted outs).foldl writeProbe s) := by
  intro outs
  induction outs with
  | nil => intro s _ _; simp [recvLoop, accepted]
  | cons o outs ih =>
    intro s hc hv
    have hc' : Clean outs := fun x hx => hc x (List.mem_cons_of_mem _ hx)
    rcases hc o (List.mem_cons_self ..) with rfl | ⟨p, rfl⟩
    · simpa [recvLoop, accepted] using ih s hc' (by simpa [accepted] using hv)
    · have hvp : validProbe min max p = true := hv p (by simp [accepted])
      simp only [recvLoop, hvp, if_true, accepted, List.foldl_cons]
      exact ih _ hc' (fun q hq => hv q (by simp [accepted, hq]))

theorem parallelRun_clean {min max : Nat} {outs : List ROut} (h1 : 1 ≤ min) (hmm : min ≤ max)
    (hc : Clean outs) (hv : ∀ p ∈ accepted outs, validProbe min max p = true) :
    parallelRun min max true outs false false =
      match clipList min (slotList max (best (accepted outs))) with
      | some r => .ok r
      | none => .error .panic := by
  have hs : merge (accepted outs) = best (accepted outs) := by
    funext t; exact merge_eq_best _ t
  unfold parallelRun
  have hvp : validParams min max = true := by simp [validParams, h1, hmm]
  simp only [hvp, Bool.not_true, Bool.false_eq_true, if_false, recvLoop_clean outs _ hc hv]
  rw [← hs]; rfl

theorem best_some_of_mem {σ : List Probe} {t : Nat} {p : Probe} (hp : p ∈ σ) (ht : p.ttl = t) :
    ∃ q, best σ t = some q := by
  unfold best
  cases hfd : firstDest σ t with
  | some q => exact ⟨q, rfl⟩
  | none =>
    cases hfa : firstAny σ t with
    | some q => exact ⟨q, rfl⟩
    | none =>
      have := List.find?_eq_none.mp hfa p hp
      simp [ht] at this

/-- where an accepted reply of the run comes from -/
theorem mem_replies {n : Net} {v : Variant} {low : Nat → Nat} {tm : Timing} {min last : Nat} {p : Probe} :
    p ∈ replies n v low tm min last ↔ ∃ u, min ≤ u ∧ u ≤ last ∧ probeAt n v low tm u = some p := by
  unfold replies ttls
  simp only [List.mem_filterMap, List.mem_range', Nat.mul_one]
  constructor
  · rintro ⟨u, ⟨i, hi, hu⟩, hp⟩; exact ⟨u, by omega, by omega, hp⟩
  · rintro ⟨u, h1, h2, hp⟩; exact ⟨u, ⟨u - min, by omega, by omega⟩, hp⟩

/-- everything the parallel theorems assume about one run -/
structure ParRun (n : Net) (v : Variant) (low : Nat → Nat) (tm : Timing) (min max last : Nat) : Prop where
  wf : WF n
  sackOn : v = .sack → n.dest.sackEnabled = true
  lowOK : v = .sack → LowOK n min low
  timing : tm.OK
  min1 : 1 ≤ min
  minLast : min ≤ last
  lastMax : last ≤ max
  sentAll : last = max ∨ destTTL n min ≤ last

/-- classification of the reply for a sent TTL -/
theorem probeAt_cases {n : Net} {v : Variant} {low : Nat → Nat} {tm : Timing} {min max last : Nat}
    (R : ParRun n v low tm min max last) {u : Nat} {p : Probe} (h1 : min ≤ u)
    (hp : probeAt n v low tm u = some p) :
    (u ≤ n.routers.length ∧ p.ttl = u ∧ p.dest = false ∧ 0 ≤ p.rtt ∧
       ∃ r, n.routers[u - 1]? = some r ∧ r.silent = false ∧ p.ip = r.addr) ∨
    (n.routers.length + 1 ≤ u ∧ destTTL n min ≤ p.ttl ∧ p.ttl ≤ u ∧ p.dest = true ∧
       p.ip = n.dest.addr ∧ 0 ≤ p.rtt ∧ (u = destTTL n min → p.ttl = destTTL n min)) := by
  have hmin1 := R.min1
  obtain ⟨hmono, hsr⟩ := R.timing
  rcases Nat.lt_or_ge n.routers.length u with hgt | hle
  · right
    rw [probeAt_dest R.sackOn hgt] at hp
    cases hp
    have hdu : destTTL n min ≤ u := Nat.max_le.mpr ⟨h1, hgt⟩
    by_cases hv : v = .sack
    · obtain ⟨hl1, hl2⟩ := R.lowOK hv
      have := hl1 u hdu
      have hto : ttlOf v low u = low u := by simp [ttlOf, hv]
      rw [hto]
      refine ⟨hgt, this.1, this.2, rfl, rfl, ?_, fun e => by rw [e]; exact hl2⟩
      have a := hmono _ _ this.2
      have b := hsr u
      simp only [rttOf]; omega
    · have hto : ttlOf v low u = u := by simp [ttlOf, hv]
      rw [hto]
      refine ⟨hgt, hdu, Nat.le_refl _, rfl, rfl, ?_, fun e => e⟩
      have b := hsr u
      simp only [rttOf]; omega
  · left
    obtain ⟨r, hr, _⟩ := forward_router (destReply n.dest v) n.routers u (by omega) hle
    rw [probeAt_router R.wf (by omega) hle hr] at hp
    by_cases hs : r.silent = true
    · simp [hs] at hp
    · have hs' : r.silent = false := by simpa using hs
      simp only [hs', Bool.false_eq_true, if_false, Option.some.injEq] at hp
      subst hp
      have b := hsr u
      refine ⟨hle, rfl, rfl, ?_, r, hr, by simpa using hs, rfl⟩
      simp only [rttOf]; omega

/-- the slot array of the parallel engine follows the path, whatever the arrival order and however
    often a reply was delivered -/
theorem parallel_pathSlots {n : Net} {v : Variant} {low : Nat → Nat} {tm : Timing} {min max last : Nat}
    (R : ParRun n v low tm min max last) {σ : List Probe}
    (hmem : ∀ p, p ∈ σ ↔ p ∈ replies n v low tm min last) :
    (∀ p ∈ σ, validProbe min max p = true) ∧ PathSlots n min max (best σ) := by
  have hsrc : ∀ p ∈ σ, ∃ u, min ≤ u ∧ u ≤ last ∧ probeAt n v low tm u = some p :=
    fun p hp => mem_replies.mp ((hmem p).mp hp)
  have hdge := destTTL_ge_min n min
  have hdlen := destTTL_gt_len n min
  have hvalid : ∀ p ∈ σ, validProbe min max p = true := by
    intro p hp
    obtain ⟨u, h1, h2, hu⟩ := hsrc p hp
    have hl := R.lastMax
    rcases probeAt_cases R h1 hu with ⟨_, ht, _⟩ | ⟨_, ht1, ht2, _⟩
    · simp [validProbe]; omega
    · simp [validProbe]; omega
  refine ⟨hvalid, ?_⟩
  constructor
  · intro t ht; exact best_none_of_lt hvalid (Or.inl ht)
  · intro t p hp; exact best_ttl hp
  · -- router TTLs
    intro t h1 h2 h3
    have htN : t ≤ n.routers.length := by
      rcases destTTL_cases n min with e | e <;> omega
    have htl : t ≤ last := by
      rcases R.sentAll with e | e <;> omega
    obtain ⟨r, hr, _⟩ := forward_router (destReply n.dest v) n.routers t (by have := R.min1; omega) htN
    have hpa := probeAt_router (v := v) (low := low) (tm := tm) R.wf (by have := R.min1; omega) htN hr
    have hrh : routerHop n t = { ttl := t, ip := if r.silent then [] else r.addr, dest := false } := by
      simp [routerHop, hr]
    rw [hrh]
    -- every accepted reply attributed to `t` is router `t`'s
    have huniq : ∀ q ∈ σ, q.ttl = t → probeAt n v low tm t = some q := by
      intro q hq hqt
      obtain ⟨u, hu1, hu2, hu⟩ := hsrc q hq
      rcases probeAt_cases R hu1 hu with ⟨_, ht, _⟩ | ⟨_, ht1, _⟩
      · rw [ht] at hqt; subst hqt; exact hu
      · omega
    cases hb : best σ t with
    | none =>
      by_cases hs : r.silent = true
      · simp [hopOf, erase, hs]
      · have hs' : r.silent = false := by simpa using hs
        simp only [hs', Bool.false_eq_true, if_false] at hpa
        have hin : _ ∈ σ := (hmem _).mpr (mem_replies.mpr ⟨t, h1, htl, hpa⟩)
        obtain ⟨q, hq⟩ := best_some_of_mem hin rfl
        rw [hb] at hq; cases hq
    | some q =>
      have := huniq q (best_mem hb) (best_ttl hb)
      rw [hpa] at this
      by_cases hs : r.silent = true
      · simp [hs] at this
      · have hs' : r.silent = false := by simpa using hs
        simp only [hs', Bool.false_eq_true, if_false, Option.some.injEq] at this
        subst this
        simp [hopOf, erase, hs']
  · -- the destination
    intro hdm
    have hdl : destTTL n min ≤ last := by
      rcases R.sentAll with e | e <;> omega
    have hpd := probeAt_dest (n := n) (v := v) (low := low) (tm := tm) (t := destTTL n min) R.sackOn hdlen
    have hin : _ ∈ σ := (hmem _).mpr (mem_replies.mpr ⟨_, hdge, hdl, hpd⟩)
    have hpt : ttlOf v low (destTTL n min) = destTTL n min := by
      rcases probeAt_cases R hdge hpd with ⟨h, _⟩ | ⟨_, _, _, _, _, _, h⟩
      · omega
      · exact h rfl
    obtain ⟨q, hq⟩ := best_some_of_mem hin hpt
    refine ⟨q, hq, ?_⟩
    obtain ⟨u, hu1, hu2, hu⟩ := hsrc q (best_mem hq)
    have hqt := best_ttl hq
    rcases probeAt_cases R hu1 hu with ⟨h, ht, _⟩ | ⟨_, _, _, hd, hip, _⟩
    · omega
    · exact ⟨hip, hd⟩
  · intro t p hp
    obtain ⟨u, hu1, hu2, hu⟩ := hsrc p (best_mem hp)
    rcases probeAt_cases R hu1 hu with ⟨_, _, _, h, _⟩ | ⟨_, _, _, _, _, h, _⟩ <;> exact h

/-- parallel engine, end to end -/
theorem parallel_trace {n : Net} {v : Variant} {low : Nat → Nat} {tm : Timing} {min max last : Nat}
    (R : ParRun n v low tm min max last) {outs : List ROut} (hc : Clean outs)
    (hmem : ∀ p, p ∈ accepted outs ↔ p ∈ replies n v low tm min last) :
    ∃ r hops, parallelRun min max true outs false false = .ok r ∧ toHops min r = some hops ∧
      hops.map erase = expectedHops n min max ∧ ∀ h ∈ hops, 0 ≤ h.rtt := by
  obtain ⟨hv, hps⟩ := parallel_pathSlots R hmem
  have hmm : min ≤ max := Nat.le_trans R.minLast R.lastMax
  obtain ⟨r, hops, h1, h2, h3, h4⟩ := pathSlots_result hmm hps
  refine ⟨r, hops, ?_, h2, h3, h4⟩
  rw [parallelRun_clean R.min1 hmm hc hv, h1]


/-! ## Serial engine (TCP SYN) -/

theorem outAt_router {n : Net} {v : Variant} {low : Nat → Nat} {tm : Timing} {t : Nat} {r : Router}
    (hwf : WF n) (h1 : 1 ≤ t) (h2 : t ≤ n.routers.length) (hr : n.routers[t - 1]? = some r) :
    outAt n v low tm t =
      if r.silent then [] else [.accept { ttl := t, ip := r.addr, rtt := rttOf tm t t, dest := false }] := by
  obtain ⟨r', hr', hf⟩ := forward_router (destReply n.dest v) n.routers t h1 h2
  rw [hr] at hr'; cases hr'
  have hne : r.addr ≠ n.dest.addr := hwf r (List.mem_of_getElem? hr)
  unfold outAt seenAt respond
  rw [hf]
  unfold routerReply
  by_cases hs : r.silent = true
  · simp [hs]
  · cases v <;> simp [hs, seen, hne]

theorem outAt_dest_syn {n : Net} {low : Nat → Nat} {tm : Timing} {t : Nat}
    (ht : n.routers.length + 1 ≤ t) :
    outAt n .tcpSyn low tm t =
      [.accept { ttl := t, ip := n.dest.addr, rtt := rttOf tm t t, dest := true }] := by
  unfold outAt seenAt respond
  rw [forward_dest _ _ _ ht]
  cases hp : n.dest.port <;> simp [destReply, seen, hp]

theorem serialWindow_noise {min max : Nat} (w : List ROut) : ∀ k : Nat,
    serialWindow min max (List.replicate k .retry ++ w) = serialWindow min max w := by
  intro k
  induction k with
  | zero => simp
  | succ k ih => simpa [List.replicate_succ, serialWindow] using ih

/-- the slots filled by the windows of TTLs `lo .. t-1` -/
def upTo (n : Net) (tm : Timing) (lo t : Nat) : Slots := fun u =>
  if lo ≤ u ∧ u < t then probeAt n .tcpSyn id tm u else none

theorem upTo_step_none {n : Net} {tm : Timing} {lo t : Nat}
    (h : probeAt n .tcpSyn id tm t = none) : upTo n tm lo (t + 1) = upTo n tm lo t := by
  funext u
  unfold upTo
  by_cases hu : u = t
  · subst hu; simp [h]
  · have : (u < t + 1) = (u < t) := by apply propext; omega
    simp [this]

theorem upTo_step_some {n : Net} {tm : Timing} {lo t : Nat} {p : Probe} (hlo : lo ≤ t)
    (h : probeAt n .tcpSyn id tm t = some p) (hp : p.ttl = t) :
    serialWrite (upTo n tm lo t) p = upTo n tm lo (t + 1) := by
  rw [serialWrite_empty (by simp [upTo, hp])]
  funext u
  unfold upTo
  by_cases hu : u = t
  · subst hu; simp [hp, h, hlo]
  · have : (u < t + 1) = (u < t) := by apply propext; omega
    simp [hp, hu, this]

/-- the windows of TTLs that expire at routers are consumed one by one -/
theorem serialLoop_routers {n : Net} {tm : Timing} {noise : Nat → Nat} {min max lo : Nat} (hwf : WF n)
    (rest : List (List ROut)) : ∀ (k t : Nat), lo ≤ t →
    (∀ u, t ≤ u → u < t + k → 1 ≤ u ∧ u ≤ n.routers.length ∧ min ≤ u ∧ u ≤ max) →
    serialLoop min max (upTo n tm lo t) ((List.range' t k).map (synWindow n tm noise) ++ rest) =
      serialLoop min max (upTo n tm lo (t + k)) rest := by
  intro k
  induction k with
  | zero => intro t _ _; simp
  | succ k ih =>
    intro t hlo hr
    obtain ⟨h1, h2, h3, h4⟩ := hr t (Nat.le_refl _) (by omega)
    obtain ⟨r, hrr, _⟩ := forward_router (destReply n.dest .tcpSyn) n.routers t h1 h2
    have hout := outAt_router (v := .tcpSyn) (low := id) (tm := tm) hwf h1 h2 hrr
    have hpa := probeAt_router (v := .tcpSyn) (low := id) (tm := tm) hwf h1 h2 hrr
    have hnext := ih (t + 1) (by omega) (fun u hu1 hu2 => hr u (by omega) (by omega))
    have hk : t + (k + 1) = t + 1 + k := by omega
    simp only [List.range'_succ, List.map_cons, List.cons_append, serialLoop, synWindow,
      serialWindow_noise, hout]
    by_cases hs : r.silent = true
    · simp only [hs, if_true, serialWindow] at hpa ⊢
      rw [hk, ← hnext, upTo_step_none hpa]
    · have hs' : r.silent = false := by simpa using hs
      simp only [hs', Bool.false_eq_true, if_false] at hpa ⊢
      have hvp : validProbe min max { ttl := t, ip := r.addr, rtt := rttOf tm t t, dest := false } = true := by
        simp [validProbe, h3, h4]
      simp only [serialWindow, hvp, if_true, Bool.false_eq_true, if_false]
      rw [upTo_step_some hlo hpa rfl, hk, ← hnext]

/-- the final slot array of the serial engine follows the path -/
theorem upTo_pathSlots {n : Net} {tm : Timing} {min max : Nat} (hwf : WF n) (htm : tm.OK)
    (h1 : 1 ≤ min) (hmm : min ≤ max) :
    PathSlots n min max (upTo n tm min (Nat.min (destTTL n min) max + 1)) := by
  have hdge := destTTL_ge_min n min
  have hdlen := destTTL_gt_len n min
  have hcutle : Nat.min (destTTL n min) max ≤ destTTL n min := Nat.min_le_left _ _
  have hcutmax : Nat.min (destTTL n min) max ≤ max := Nat.min_le_right _ _
  have hcutmin : min ≤ Nat.min (destTTL n min) max := Nat.le_min.mpr ⟨hdge, hmm⟩
  have R : ParRun n .tcpSyn id tm min max (Nat.min (destTTL n min) max) :=
    { wf := hwf, sackOn := (fun h => by cases h), lowOK := (fun h => by cases h), timing := htm,
      min1 := h1, minLast := hcutmin, lastMax := hcutmax,
      sentAll := by
        rcases Nat.lt_or_ge max (destTTL n min) with hgt | hle
        · left; exact Nat.min_eq_right (Nat.le_of_lt hgt)
        · right; exact Nat.le_of_eq (Nat.min_eq_left hle).symm }
  have hfrom : ∀ t p, upTo n tm min (Nat.min (destTTL n min) max + 1) t = some p →
      min ≤ t ∧ t ≤ Nat.min (destTTL n min) max ∧ probeAt n .tcpSyn id tm t = some p := by
    intro t p hp
    unfold upTo at hp
    split at hp
    · rename_i hc; exact ⟨hc.1, by omega, hp⟩
    · cases hp
  constructor
  · intro t ht; simp [upTo]; omega
  · intro t p hp
    obtain ⟨ht1, ht2, hpa⟩ := hfrom t p hp
    rcases probeAt_cases R ht1 hpa with ⟨_, h, _⟩ | ⟨hN, hl, hu, _, _, _, _⟩
    · exact h
    · omega
  · intro t ht1 ht2 ht3
    have htN : t ≤ n.routers.length := by
      rcases destTTL_cases n min with e | e <;> omega
    have htc : t < Nat.min (destTTL n min) max + 1 :=
      Nat.lt_succ_of_le (Nat.le_min.mpr ⟨Nat.le_of_lt ht3, ht2⟩)
    obtain ⟨r, hr, _⟩ := forward_router (destReply n.dest .tcpSyn) n.routers t (by omega) htN
    have hpa := probeAt_router (v := .tcpSyn) (low := id) (tm := tm) hwf (by omega) htN hr
    have hs : upTo n tm min (Nat.min (destTTL n min) max + 1) t = probeAt n .tcpSyn id tm t := by
      simp [upTo, ht1, htc]
    rw [hs, hpa]
    cases hsil : r.silent <;> simp [routerHop, hr, hopOf, erase, hsil]
  · intro hdm
    have e : Nat.min (destTTL n min) max = destTTL n min := Nat.min_eq_left hdm
    have hpd := probeAt_dest (n := n) (v := .tcpSyn) (low := id) (tm := tm) (t := destTTL n min)
      (fun h => by cases h) hdlen
    refine ⟨⟨ttlOf .tcpSyn id (destTTL n min), n.dest.addr,
      rttOf tm (destTTL n min) (ttlOf .tcpSyn id (destTTL n min)), true⟩, ?_, rfl, rfl⟩
    rw [← hpd]
    simp [upTo, e, hdge]
  · intro t p hp
    obtain ⟨ht1, _, hpa⟩ := hfrom t p hp
    rcases probeAt_cases R ht1 hpa with ⟨_, _, _, h, _⟩ | ⟨_, _, _, _, _, h, _⟩ <;> exact h

/-- the slot array after all windows of a serial run -/
theorem serialLoop_syn {n : Net} {tm : Timing} {noise : Nat → Nat} {min max : Nat} (hwf : WF n)
    (h1 : 1 ≤ min) (hmm : min ≤ max) (extra : List (List ROut))
    (hextra : max < destTTL n min → extra = []) :
    serialLoop min max emptySlots (synWindows n tm noise min max ++ extra) =
      .ok (upTo n tm min (Nat.min (destTTL n min) max + 1)) := by
  have hdge := destTTL_ge_min n min
  have hdlen := destTTL_gt_len n min
  have hempty : emptySlots = upTo n tm min min := by
    funext u; simp [emptySlots, upTo]; omega
  unfold synWindows ttls
  rcases Nat.lt_or_ge max (destTTL n min) with hgt | hle
  · have e : Nat.min (destTTL n min) max = max := Nat.min_eq_right (Nat.le_of_lt hgt)
    rw [e, hextra hgt, hempty]
    have := serialLoop_routers (n := n) (tm := tm) (noise := noise) (min := min) (max := max) (lo := min)
      hwf [] (max + 1 - min) min (Nat.le_refl _) (by
        intro u hu1 hu2
        rcases destTTL_cases n min with e' | e' <;> omega)
    rw [this]
    have hk : min + (max + 1 - min) = max + 1 := by omega
    simp [serialLoop, hk]
  · have e : Nat.min (destTTL n min) max = destTTL n min := Nat.min_eq_left hle
    have hsplit : List.range' min (destTTL n min + 1 - min) =
        List.range' min (destTTL n min - min) ++ [destTTL n min] := by
      have : destTTL n min + 1 - min = (destTTL n min - min) + 1 := by omega
      rw [this, List.range'_concat]; simp; omega
    rw [e, hsplit, List.map_append, List.append_assoc, hempty]
    have := serialLoop_routers (n := n) (tm := tm) (noise := noise) (min := min) (max := max) (lo := min)
      hwf ([destTTL n min].map (synWindow n tm noise) ++ extra) (destTTL n min - min) min (Nat.le_refl _) (by
        intro u hu1 hu2
        rcases destTTL_cases n min with e' | e' <;> omega)
    rw [this]
    have hk : min + (destTTL n min - min) = destTTL n min := by omega
    have hpd := probeAt_dest (n := n) (v := .tcpSyn) (low := id) (tm := tm) (t := destTTL n min)
      (fun h => by cases h) hdlen
    have htt : ttlOf .tcpSyn id (destTTL n min) = destTTL n min := by simp [ttlOf]
    rw [htt] at hpd
    have hvp : validProbe min max (⟨destTTL n min, n.dest.addr,
        rttOf tm (destTTL n min) (destTTL n min), true⟩ : Probe) = true := by
      simp [validProbe, hdge, hle]
    simp only [hk, List.map_cons, List.map_nil, List.cons_append, List.nil_append, serialLoop,
      synWindow, serialWindow_noise, outAt_dest_syn hdlen, serialWindow, hvp, if_true]
    rw [upTo_step_some hdge hpd rfl]

/-- serial engine, end to end -/
theorem serial_trace {n : Net} {tm : Timing} {noise : Nat → Nat} {min max : Nat} (hwf : WF n)
    (htm : tm.OK) (h1 : 1 ≤ min) (hmm : min ≤ max) (extra : List (List ROut))
    (hextra : max < destTTL n min → extra = []) :
    ∃ r hops, serialRun min max (synWindows n tm noise min max ++ extra) false false = .ok r ∧
      toHops min r = some hops ∧ hops.map erase = expectedHops n min max ∧ ∀ h ∈ hops, 0 ≤ h.rtt := by
  obtain ⟨r, hops, h2, h3, h4, h5⟩ := pathSlots_result hmm (upTo_pathSlots (tm := tm) hwf htm h1 hmm)
  refine ⟨r, hops, ?_, h3, h4, h5⟩
  unfold serialRun
  have hvp : validParams min max = true := by simp [validParams, h1, hmm]
  simp only [hvp, Bool.not_true, Bool.false_eq_true, if_false,
    serialLoop_syn (tm := tm) (noise := noise) hwf h1 hmm extra hextra, h2]


/-! ## A SACK engine run against a destination that answers without SACK blocks -/

theorem recvLoop_fatal {min max : Nat} : ∀ (pre : List ROut) (post : List ROut) (s : Slots), Clean pre →
    (∀ p ∈ accepted pre, validProbe min max p = true) →
    recvLoop min max s (pre ++ .fatal :: post) = .error .recvFailed := by
  intro pre
  induction pre with
  | nil => intro post s _ _; simp [recvLoop]
  | cons o pre ih =>
    intro post s hc hv
    have hc' : Clean pre := fun x hx => hc x (List.mem_cons_of_mem _ hx)
    rcases hc o (List.mem_cons_self ..) with rfl | ⟨p, rfl⟩
    · simpa [recvLoop] using ih post s hc' (by simpa [accepted] using hv)
    · have hvp : validProbe min max p = true := hv p (by simp [accepted])
      simp only [List.cons_append, recvLoop, hvp, if_true]
      exact ih post _ hc' (fun q hq => hv q (by simp [accepted, hq]))

theorem seenAt_plainAck {n : Net} {low : Nat → Nat} {tm : Timing} {t : Nat}
    (hs : n.dest.sackEnabled = false) (ht : n.routers.length + 1 ≤ t) :
    seenAt n .sack low tm t = some .notSupported ∧ outAt n .sack low tm t = [.fatal] := by
  unfold outAt seenAt respond
  rw [forward_dest _ _ _ ht]
  simp [destReply, seen, hs]

/-! ## The canonical run used by the oracle -/

theorem outAt_dest {n : Net} {v : Variant} {low : Nat → Nat} {tm : Timing} {t : Nat}
    (hv : v = .sack → n.dest.sackEnabled = true) (ht : n.routers.length + 1 ≤ t) :
    outAt n v low tm t =
      [.accept { ttl := ttlOf v low t, ip := n.dest.addr, rtt := rttOf tm t (ttlOf v low t), dest := true }] := by
  unfold outAt seenAt respond
  rw [forward_dest _ _ _ ht]
  cases v with
  | icmp => simp [destReply, seen, ttlOf]
  | udp => simp [destReply, seen, ttlOf]
  | tcpSyn => cases hp : n.dest.port <;> simp [destReply, seen, ttlOf, hp]
  | sack => simp [destReply, seen, ttlOf, hv rfl]

/-- per TTL: the outcome list is clean and its acceptances are exactly `probeAt` -/
theorem outAt_probeAt {n : Net} {v : Variant} {low : Nat → Nat} {tm : Timing} {t : Nat} (hwf : WF n)
    (hv : v = .sack → n.dest.sackEnabled = true) (h1 : 1 ≤ t) :
    Clean (outAt n v low tm t) ∧ accepted (outAt n v low tm t) = (probeAt n v low tm t).toList := by
  rcases Nat.lt_or_ge n.routers.length t with hgt | hle
  · rw [outAt_dest hv hgt, probeAt_dest hv hgt]
    exact ⟨fun o ho => by simp at ho; exact Or.inr ⟨_, ho⟩, by simp [accepted]⟩
  · obtain ⟨r, hr, _⟩ := forward_router (destReply n.dest v) n.routers t h1 hle
    rw [outAt_router hwf h1 hle hr, probeAt_router hwf h1 hle hr]
    cases hs : r.silent
    · exact ⟨fun o ho => by simp at ho; exact Or.inr ⟨_, ho⟩, by simp [accepted]⟩
    · exact ⟨fun o ho => by simp at ho, by simp [accepted]⟩

theorem accepted_append (a b : List ROut) : accepted (a ++ b) = accepted a ++ accepted b := by
  induction a with
  | nil => rfl
  | cons o a ih => cases o <;> simp [accepted, ih]

theorem parallelOuts_spec {n : Net} {v : Variant} {low : Nat → Nat} {tm : Timing} {min last : Nat}
    (hwf : WF n) (hv : v = .sack → n.dest.sackEnabled = true) (h1 : 1 ≤ min) :
    Clean (parallelOuts n v low tm min last) ∧
      accepted (parallelOuts n v low tm min last) = replies n v low tm min last := by
  unfold parallelOuts replies ttls
  generalize last + 1 - min = k
  induction k generalizing min with
  | zero => exact ⟨fun o ho => by simp at ho, by simp [accepted]⟩
  | succ k ih =>
    obtain ⟨c1, a1⟩ := outAt_probeAt (n := n) (v := v) (low := low) (tm := tm) (t := min) hwf hv h1
    obtain ⟨c2, a2⟩ := ih (min := min + 1) (by omega)
    simp only [List.range'_succ, List.flatMap_cons, List.filterMap_cons]
    refine ⟨?_, ?_⟩
    · intro o ho
      rcases List.mem_append.mp ho with h | h
      · exact c1 o h
      · exact c2 o h
    · rw [accepted_append, a1, a2]
      cases probeAt n v low tm min <;> simp

theorem oracleTiming_ok : oracleTiming.OK := by
  refine ⟨?_, ?_⟩
  · intro a b h; simp only [oracleTiming]; exact Nat.mul_le_mul_right _ h
  · intro t; simp only [oracleTiming]; omega

theorem lowInOrder_ok (n : Net) (min : Nat) : LowOK n min (lowInOrder n min) :=
  ⟨fun t ht => ⟨Nat.le_refl _, ht⟩, rfl⟩

/-- the engine model of every variant, run in the canonical order, yields the reference list -/
theorem runEngine_spec {n : Net} {v : Variant} {min max : Nat} (hwf : WF n)
    (hv : v = .sack → n.dest.sackEnabled = true) (h1 : 1 ≤ min) (hmm : min ≤ max) :
    ∃ hops, runEngine n v oracleTiming min max = some hops ∧
      hops.map erase = expectedHops n min max ∧ ∀ h ∈ hops, 0 ≤ h.rtt := by
  by_cases hs : v = .tcpSyn
  · subst hs
    obtain ⟨r, hops, h2, h3, h4, h5⟩ := serial_trace (n := n) (tm := oracleTiming) (noise := fun _ => 0)
      hwf oracleTiming_ok h1 hmm [] (fun _ => rfl)
    refine ⟨hops, ?_, h4, h5⟩
    simp only [List.append_nil] at h2
    simp [runEngine, h2, h3]
  · have R : ParRun n v (lowInOrder n min) oracleTiming min max max :=
      { wf := hwf, sackOn := hv, lowOK := (fun _ => lowInOrder_ok n min), timing := oracleTiming_ok,
        min1 := h1, minLast := hmm, lastMax := Nat.le_refl _, sentAll := Or.inl rfl }
    obtain ⟨hc, ha⟩ := parallelOuts_spec (n := n) (v := v) (low := lowInOrder n min)
      (tm := oracleTiming) (min := min) (last := max) hwf hv h1
    obtain ⟨r, hops, h2, h3, h4, h5⟩ := parallel_trace R hc (fun p => by rw [ha])
    refine ⟨hops, ?_, h4, h5⟩
    cases v <;> first | (exact absurd rfl hs) | simp [runEngine, h2, h3]

end TRV.Proofs.Net
