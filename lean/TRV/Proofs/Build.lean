import TRV.Model.Build
import TRV.Model.Wire
set_option linter.unusedSimpArgs false
/-! Lemmas about the probe builders: Internet checksum, header read-back. -/
namespace TRV.Proofs
open TRV TRV.Build

theorem fold16_le (x : Nat) : fold16 x ≤ 0xffff := by
  induction x using Nat.strongRecOn with
  | _ x ih =>
    unfold fold16
    split
    · apply ih
      have : x / 65536 ≥ 1 := Nat.div_pos (by omega) (by decide)
      omega
    · omega

theorem fold16_mod (x : Nat) : fold16 x % 65535 = x % 65535 := by
  induction x using Nat.strongRecOn with
  | _ x ih =>
    unfold fold16
    split
    · have hlt : x / 65536 + x % 65536 < x := by
        have : x / 65536 ≥ 1 := Nat.div_pos (by omega) (by decide)
        omega
      rw [ih _ hlt]
      omega
    · rfl

theorem fold16_pos (x : Nat) (h : 0 < x) : 0 < fold16 x := by
  induction x using Nat.strongRecOn with
  | _ x ih =>
    unfold fold16
    split
    · apply ih
      · have : x / 65536 ≥ 1 := Nat.div_pos (by omega) (by decide)
        omega
      · have : x / 65536 ≥ 1 := Nat.div_pos (by omega) (by decide)
        omega
    · exact h

/-- the Internet checksum verifies: adding the complemented folded sum gives 0xffff -/
theorem cksum_verifies (sum0 : Nat) : fold16 (sum0 + cksum sum0) = 0xffff := by
  have hle := fold16_le sum0
  have hm := fold16_mod (sum0 + cksum sum0)
  have hle' := fold16_le (sum0 + cksum sum0)
  unfold cksum at *
  have hpos : 0 < fold16 (sum0 + (0xffff - fold16 sum0)) := by
    apply fold16_pos
    by_cases h0 : sum0 = 0
    · subst h0; simp [fold16]
    · omega
  have hm0 := fold16_mod sum0
  omega

theorem cksum_lt (s : Nat) : cksum s < 65536 := by unfold cksum; omega

/-- `sum16` of a concatenation when the first part has even length -/
theorem sum16_append_even : ∀ (a b : Bytes), a.length % 2 = 0 → sum16 (a ++ b) = sum16 a + sum16 b
  | [], b, _ => by simp [sum16]
  | [x], b, h => by simp at h
  | x :: y :: rest, b, h => by
    have hr : rest.length % 2 = 0 := by simp at h; omega
    simp only [List.cons_append, sum16, sum16_append_even rest b hr]
    omega

theorem sum16_be16 {n : Nat} (h : n < 65536) : sum16 (be16 n) = n := by
  simp only [be16, sum16]
  rw [byte_toNat (by omega), byte_toNat (by omega)]
  omega

theorem be16_length (n : Nat) : (be16 n).length = 2 := rfl
theorem be32_length (n : Nat) : (be32 n).length = 4 := rfl

/-- writing the checksum into a zeroed 16-bit field at an even offset makes the buffer verify -/
theorem verifies_insert (init : Nat) (pre post : Bytes) (hpre : pre.length % 2 = 0) :
    verifies init (pre ++ be16 (cksum (init + sum16 (pre ++ be16 0 ++ post))) ++ post) = true := by
  unfold verifies
  have h0 : sum16 (pre ++ be16 0 ++ post) = sum16 pre + sum16 post := by
    rw [List.append_assoc, sum16_append_even pre _ hpre, sum16_append_even (be16 0) post (by simp [be16_length]),
      sum16_be16 (by omega)]
    omega
  have h1 : ∀ ck, ck < 65536 → sum16 (pre ++ be16 ck ++ post) = sum16 pre + ck + sum16 post := by
    intro ck hck
    rw [List.append_assoc, sum16_append_even pre _ hpre, sum16_append_even (be16 ck) post (by simp [be16_length]),
      sum16_be16 hck]
    omega
  rw [h1 _ (cksum_lt _), h0]
  have := cksum_verifies (init + (sum16 pre + sum16 post))
  simp only [decide_eq_true_eq]
  have e : init + (sum16 pre + cksum (init + (sum16 pre + sum16 post)) + sum16 post) =
      init + (sum16 pre + sum16 post) + cksum (init + (sum16 pre + sum16 post)) := by omega
  rw [e]; exact this

end TRV.Proofs

namespace TRV.Proofs
open TRV TRV.Build

theorem len4 {l : Bytes} (h : l.length = 4) : ∃ a b c d, l = [a, b, c, d] := by
  match l, h with
  | [a, b, c, d], _ => exact ⟨a, b, c, d, rfl⟩

theorem len16 {l : Bytes} (h : l.length = 16) :
    ∃ a0 a1 a2 a3 a4 a5 a6 a7 a8 a9 a10 a11 a12 a13 a14 a15,
      l = [a0, a1, a2, a3, a4, a5, a6, a7, a8, a9, a10, a11, a12, a13, a14, a15] := by
  match l, h with
  | [a0, a1, a2, a3, a4, a5, a6, a7, a8, a9, a10, a11, a12, a13, a14, a15], _ =>
    exact ⟨a0, a1, a2, a3, a4, a5, a6, a7, a8, a9, a10, a11, a12, a13, a14, a15, rfl⟩

theorem ip4Header_length (tos len id ff ttl proto : Nat) (src dst : Bytes) (hs : src.length = 4) (hd : dst.length = 4) :
    (ip4Header tos len id ff ttl proto src dst).length = 20 := by
  simp [ip4Header, be16, hs, hd]

theorem ip4Header_verifies (tos len id ff ttl proto : Nat) (src dst : Bytes) :
    verifies 0 (ip4Header tos len id ff ttl proto src dst) = true := by
  unfold ip4Header
  have := verifies_insert 0 ([byte 0x45, byte tos] ++ be16 len ++ be16 id ++ be16 ff ++ [byte ttl, byte proto]) (src ++ dst)
    (by simp [be16])
  simpa [List.append_assoc] using this

theorem ip6Header_length (plen nh hop : Nat) (src dst : Bytes) (hs : src.length = 16) (hd : dst.length = 16) :
    (ip6Header plen nh hop src dst).length = 40 := by
  simp [ip6Header, be16, hs, hd]

theorem repeatMagic_length (n : Nat) : (repeatMagic n).length = n := by
  unfold repeatMagic
  rw [List.length_take]
  have : (List.replicate (n / 5 + 1) magic).flatten.length = 5 * (n / 5 + 1) := by
    simp [List.length_flatten, magic]
    omega
  rw [this]
  omega

end TRV.Proofs
