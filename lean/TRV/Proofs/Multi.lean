import TRV.Spec.Multi
/-! Helper lemmas for C15: the accumulators as `filterMap`s of the completion order. -/
set_option linter.unusedSimpArgs false
namespace TRV.Proofs.Multi
open TRV.Multi TRV.Spec.Multi

/-- what a finished probe contributes to `E2eProbe.RTTs` (a failed probe contributes `0`) -/
def sample? : Completion → Option Rtt
  | .probe _ (.ok t) => some t
  | .probe _ (.err _) => some 0
  | _ => none

def samples (cs : List Completion) : List Rtt := cs.filterMap sample?

theorem foldl_step (cs : List Completion) (a : Acc) :
    cs.foldl step a =
      { runs := a.runs ++ okRuns cs, rtts := a.rtts ++ samples cs, errs := a.errs ++ failures cs } := by
  induction cs generalizing a with
  | nil => simp [okRuns, samples, failures]
  | cons c cs ih =>
    rw [List.foldl_cons, ih]
    cases c with
    | run i o => cases o <;> simp [step, okRuns, samples, failures, sample?, List.filterMap_cons]
    | probe j o => cases o <;> simp [step, okRuns, samples, failures, sample?, List.filterMap_cons]

theorem accumulate_eq (cs : List Completion) :
    accumulate cs = { runs := okRuns cs, rtts := samples cs, errs := failures cs } := by
  simp [accumulate, foldl_step]

theorem failures_nil_iff (cs : List Completion) : failures cs = [] ↔ allOk cs = true := by
  induction cs with
  | nil => simp [failures, allOk]
  | cons c cs ih =>
    simp only [failures, allOk, List.all_cons, Bool.and_eq_true] at ih ⊢
    cases c with
    | run i o => cases o <;> simp [List.filterMap_cons, isOk, ih]
    | probe j o => cases o <;> simp [List.filterMap_cons, isOk, ih]

theorem samples_of_allOk (cs : List Completion) (h : allOk cs = true) : samples cs = okRtts cs := by
  induction cs with
  | nil => rfl
  | cons c cs ih =>
    simp only [allOk, List.all_cons, Bool.and_eq_true] at h ih
    cases c with
    | run i o => cases o <;> simp_all [samples, okRtts, sample?, List.filterMap_cons, isOk]
    | probe j o => cases o <;> simp_all [samples, okRtts, sample?, List.filterMap_cons, isOk]

theorem samples_length (cs : List Completion) : (samples cs).length = nProbes cs := by
  induction cs with
  | nil => rfl
  | cons c cs ih =>
    cases c with
    | run i o => simpa [samples, nProbes, sample?, List.filterMap_cons, isRun, List.filter_cons] using ih
    | probe j o =>
      cases o <;> simpa [samples, nProbes, sample?, List.filterMap_cons, isRun, List.filter_cons] using ih

theorem okRuns_length_of_allOk (cs : List Completion) (h : allOk cs = true) :
    (okRuns cs).length = nRuns cs := by
  induction cs with
  | nil => rfl
  | cons c cs ih =>
    simp only [allOk, List.all_cons, Bool.and_eq_true] at h ih
    cases c with
    | run i o => cases o <;> simp_all [okRuns, nRuns, List.filterMap_cons, isRun, List.filter_cons, isOk]
    | probe j o => cases o <;> simp_all [okRuns, nRuns, List.filterMap_cons, isRun, List.filter_cons, isOk]

theorem allOk_perm {cs outs : List Completion} (h : cs.Perm outs) : allOk cs = allOk outs := by
  simp only [allOk]
  rw [Bool.eq_iff_iff, List.all_eq_true, List.all_eq_true]
  exact ⟨fun H c hc => H c (h.mem_iff.mpr hc), fun H c hc => H c (h.mem_iff.mp hc)⟩

theorem nRuns_perm {cs outs : List Completion} (h : cs.Perm outs) : nRuns cs = nRuns outs :=
  (h.filter _).length_eq

theorem nProbes_perm {cs outs : List Completion} (h : cs.Perm outs) : nProbes cs = nProbes outs :=
  (h.filter _).length_eq

/-- the aggregate in closed form -/
theorem aggregate_eq (cs : List Completion) (pub : PubIP) :
    aggregate cs pub =
      if allOk cs = true then .ok { runs := okRuns cs, rtts := okRtts cs, publicIP := pubOf pub }
      else .joined (failures cs) := by
  unfold aggregate
  simp only [accumulate_eq]
  by_cases h : allOk cs = true
  · have hf := (failures_nil_iff cs).mpr h
    simp [h, hf, samples_of_allOk cs h]
  · have hf : failures cs ≠ [] := fun hf => h ((failures_nil_iff cs).mp hf)
    have : (failures cs).length > 0 := List.length_pos_iff.mpr hf
    simp [h, this]

end TRV.Proofs.Multi
