import TRV.Spec.Timed
import TRV.Proofs.Engine
import TRV.Proofs.Enrich
set_option linter.unusedSimpArgs false
set_option linter.unusedVariables false
/-! Helper lemmas for C05 / C08 (timed engine models). -/
namespace TRV.Proofs.Timed
open TRV TRV.Engine TRV.Timed TRV.Spec TRV.Spec.Timed

/-! ## clock lemmas -/

theorem count_pos {c : Cfg} (h : validParams c.min c.max = true) : 1 ≤ c.count := by
  simp [validParams] at h
  unfold Cfg.count
  rw [if_pos h.1]; omega

theorem foldl_max_le (B : Nat) : ∀ (l : List Nat) (acc : Nat), acc ≤ B → (∀ x ∈ l, x ≤ B) →
    l.foldl max acc ≤ B := by
  intro l
  induction l with
  | nil => intro acc h _; simpa using h
  | cons x l ih =>
    intro acc h hl
    simp only [List.foldl_cons]
    apply ih
    · have := hl x List.mem_cons_self; omega
    · exact fun y hy => hl y (List.mem_cons_of_mem _ hy)


theorem idleEnd_le (poll stop now : Nat) : idleEnd poll stop now ≤ max now (stop + poll) := by
  unfold idleEnd
  split
  · omega
  · rename_i h
    have := Nat.div_mul_le_self (stop - now + poll - 1) poll
    rcases Nat.eq_zero_or_pos poll with hp | hp
    · subst hp; simp; omega
    · omega

theorem idleEnd_ge (poll stop now : Nat) : now ≤ idleEnd poll stop now := by
  unfold idleEnd; split <;> omega

theorem optMin_le_left (a : Nat) (o : Option Nat) : optMin a o ≤ a := by
  cases o <;> simp [optMin] <;> omega

theorem optMin_le_some (a b : Nat) : optMin a (some b) ≤ b := by
  simp [optMin]; omega

/-! ## serial window -/

theorem serWindow_now_le (c : Cfg) (dl : Nat) : ∀ (s : List RCall) (now : Nat),
    (∀ e ∈ s, e.dur ≤ c.poll) → (serWindow c dl now s).now ≤ max now (dl + c.poll) := by
  intro s
  induction s with
  | nil => intro now _; simp only [serWindow]; exact idleEnd_le _ _ _
  | cons e rest ih =>
    intro now h
    have he : e.dur ≤ c.poll := h e List.mem_cons_self
    have hr : ∀ e' ∈ rest, e'.dur ≤ c.poll := fun e' h' => h e' (List.mem_cons_of_mem _ h')
    simp only [serWindow]
    split
    · simp only; omega
    · rename_i hlt
      have := ih (now + e.dur) hr
      split <;> (try split) <;> simp only <;> omega

theorem serWindow_now_ge (c : Cfg) (dl : Nat) : ∀ (s : List RCall) (now : Nat),
    now ≤ (serWindow c dl now s).now := by
  intro s
  induction s with
  | nil => intro now; simp only [serWindow]; exact idleEnd_ge _ _ _
  | cons e rest ih =>
    intro now
    simp only [serWindow]
    split
    · simp only; omega
    · have := ih (now + e.dur)
      split <;> (try split) <;> simp only <;> omega

theorem serWindow_rest_mem (c : Cfg) (dl : Nat) : ∀ (s : List RCall) (now : Nat),
    ∀ e ∈ (serWindow c dl now s).rest, e ∈ s := by
  intro s
  induction s with
  | nil => intro now e he; simp [serWindow] at he
  | cons a rest ih =>
    intro now e he
    simp only [serWindow] at he
    split at he
    · exact he
    · split at he
      · exact List.mem_cons_of_mem _ (ih _ e he)
      · exact List.mem_cons_of_mem _ he
      · exact List.mem_cons_of_mem _ he
      · split at he <;> exact List.mem_cons_of_mem _ he

/-- the timed window agrees with the untimed window on the outcomes it consumed -/
theorem serWindow_used (c : Cfg) (dl : Nat) : ∀ (s : List RCall) (now : Nat),
    serialWindow c.min c.max (serWindow c dl now s).used =
      match (serWindow c dl now s).res with
      | .none => .ok none
      | .got p => .ok (some p)
      | .err e => .error e := by
  intro s
  induction s with
  | nil => intro now; simp [serWindow, serialWindow]
  | cons a rest ih =>
    intro now
    simp only [serWindow]
    split
    · simp [serialWindow]
    · split
      · simp only [serialWindow]; exact ih _
      · simp [serialWindow]
      · simp [serialWindow]
      · split
        · rename_i hv; simp [serialWindow, hv]
        · rename_i hv; simp [serialWindow, hv]

/-- under `NoFail` a window never ends in an error -/
theorem serWindow_noerr (c : Cfg) (dl : Nat) : ∀ (s : List RCall) (now : Nat),
    (∀ e ∈ s, e.out = .retry ∨ ∃ p, e.out = .accept p ∧ validProbe c.min c.max p = true) →
    ∀ e, (serWindow c dl now s).res ≠ .err e := by
  intro s
  induction s with
  | nil => intro now _ e; simp [serWindow]
  | cons a rest ih =>
    intro now h e
    have ha := h a List.mem_cons_self
    have hr : ∀ e' ∈ rest, e'.out = .retry ∨ ∃ p, e'.out = .accept p ∧ validProbe c.min c.max p = true :=
      fun e' h' => h e' (List.mem_cons_of_mem _ h')
    simp only [serWindow]
    split
    · simp
    · split
      · exact ih _ hr e
      · rename_i hf; rcases ha with h1 | ⟨p, h1, _⟩ <;> simp [hf] at h1
      · rename_i hf; rcases ha with h1 | ⟨p, h1, _⟩ <;> simp [hf] at h1
      · rename_i p hf
        rcases ha with h1 | ⟨q, h1, hv⟩
        · simp [hf] at h1
        · rw [hf] at h1; cases h1; simp [hv]

/-! ## serial loop -/

/-- C08 serial invariant: with `n` iterations left at time `now`, the loop is over by
    `now + n · (max timeout delay + poll + σ)` -/
theorem serLoop_finish_le (c : Cfg) (cancel : Option Nat) (sd : Nat → Nat) (sfail : Nat → Bool)
    (σ : Nat) (hsd : ∀ i, sd i ≤ σ) : ∀ (n i now : Nat) (s : List RCall),
    (∀ e ∈ s, e.dur ≤ c.poll) →
    (serLoop c cancel sd sfail n i now s).finish ≤ now + n * (max c.timeout c.delay + c.poll + σ) := by
  intro n
  induction n with
  | zero => intro i now s _; simp [serLoop]
  | succ n ih =>
    intro i now s hs
    have hmul : (n + 1) * (max c.timeout c.delay + c.poll + σ) =
        n * (max c.timeout c.delay + c.poll + σ) + (max c.timeout c.delay + c.poll + σ) := Nat.succ_mul _ _
    have hσ := hsd i
    have hdl := optMin_le_left (now + c.timeout) cancel
    have hw := serWindow_now_le c (optMin (now + c.timeout) cancel) s (now + sd i) hs
    have hrest : ∀ e ∈ (serWindow c (optMin (now + c.timeout) cancel) (now + sd i) s).rest, e.dur ≤ c.poll :=
      fun e he => hs e (serWindow_rest_mem _ _ _ _ e he)
    have hrec := ih (i + 1)
      (max (serWindow c (optMin (now + c.timeout) cancel) (now + sd i) s).now (now + c.delay)) _ hrest
    simp only [serLoop]
    split
    · simp only; omega
    · split
      · simp only; omega
      · split
        · simp only; omega
        · split
          · simp only; omega
          · simp only; omega
        · simp only; omega

/-- C08 serial cancellation invariant: once the caller has cancelled at `cc`, the loop is over by
    `cc + poll + delay + σ` (or at once if it is already later than that) -/
theorem serLoop_cancel_le (c : Cfg) (cc : Nat) (sd : Nat → Nat) (sfail : Nat → Bool)
    (σ : Nat) (hsd : ∀ i, sd i ≤ σ) : ∀ (n i now : Nat) (s : List RCall),
    (∀ e ∈ s, e.dur ≤ c.poll) →
    (serLoop c (some cc) sd sfail n i now s).finish ≤ max now (cc + c.poll + c.delay + σ) := by
  intro n
  induction n with
  | zero => intro i now s _; simp [serLoop]; omega
  | succ n ih =>
    intro i now s hs
    have hσ := hsd i
    have hdl := optMin_le_some (now + c.timeout) cc
    have hw := serWindow_now_le c (optMin (now + c.timeout) (some cc)) s (now + sd i) hs
    have hrest : ∀ e ∈ (serWindow c (optMin (now + c.timeout) (some cc)) (now + sd i) s).rest, e.dur ≤ c.poll :=
      fun e he => hs e (serWindow_rest_mem _ _ _ _ e he)
    have hrec := ih (i + 1)
      (max (serWindow c (optMin (now + c.timeout) (some cc)) (now + sd i) s).now (now + c.delay)) _ hrest
    simp only [serLoop]
    split
    · simp only; omega
    · rename_i hnc
      have hlt : now < cc := by
        simp only [isCancelled, decide_eq_true_eq] at hnc; omega
      split
      · simp only; omega
      · split
        · simp only; omega
        · split
          · simp only; omega
          · simp only; omega
        · simp only; omega

theorem serLoop_finish_ge (c : Cfg) (cancel : Option Nat) (sd : Nat → Nat) (sfail : Nat → Bool) :
    ∀ (n i now : Nat) (s : List RCall), now ≤ (serLoop c cancel sd sfail n i now s).finish := by
  intro n
  induction n with
  | zero => intro i now s; simp [serLoop]
  | succ n ih =>
    intro i now s
    have hw := serWindow_now_ge c (optMin (now + c.timeout) cancel) s (now + sd i)
    have hrec := ih (i + 1)
      (max (serWindow c (optMin (now + c.timeout) cancel) (now + sd i) s).now (now + c.delay))
      (serWindow c (optMin (now + c.timeout) cancel) (now + sd i) s).rest
    simp only [serLoop]
    split
    · simp only; omega
    · split
      · simp only; omega
      · split
        · simp only; omega
        · split
          · simp only; omega
          · simp only; omega
        · simp only; omega

/-- under `NoFail` the windows of a timed serial run make the untimed loop succeed, and no
    `SendProbe` failed -/
theorem serLoop_nofail (c : Cfg) (cancel : Option Nat) (sd : Nat → Nat) (sfail : Nat → Bool)
    (hsf : ∀ i, sfail i = false) : ∀ (n i now : Nat) (s : List RCall) (sl : Slots),
    (∀ e ∈ s, e.out = .retry ∨ ∃ p, e.out = .accept p ∧ validProbe c.min c.max p = true) →
    (serLoop c cancel sd sfail n i now s).sendErr = false ∧
    ∃ sl', serialLoop c.min c.max sl (serLoop c cancel sd sfail n i now s).windows = .ok sl' := by
  intro n
  induction n with
  | zero => intro i now s sl _; simp [serLoop, serialLoop]
  | succ n ih =>
    intro i now s sl hs
    have hrest : ∀ e ∈ (serWindow c (optMin (now + c.timeout) cancel) (now + sd i) s).rest,
        e.out = .retry ∨ ∃ p, e.out = .accept p ∧ validProbe c.min c.max p = true :=
      fun e he => hs e (serWindow_rest_mem _ _ _ _ e he)
    have hused := serWindow_used c (optMin (now + c.timeout) cancel) s (now + sd i)
    have hnoerr := serWindow_noerr c (optMin (now + c.timeout) cancel) s (now + sd i) hs
    simp only [serLoop]
    split
    · simp [serialLoop]
    · rw [if_neg (by simp [hsf i])]
      split
      · rename_i e he; exact absurd he (hnoerr e)
      · rename_i p hp
        rw [hp] at hused
        split
        · rename_i hd
          refine ⟨rfl, ?_⟩
          simp only [serialLoop, hused, hd, if_true]
          exact ⟨_, rfl⟩
        · rename_i hd
          obtain ⟨h1, sl', h2⟩ := ih (i + 1)
            (max (serWindow c (optMin (now + c.timeout) cancel) (now + sd i) s).now (now + c.delay)) _
            (serialWrite sl p) hrest
          refine ⟨h1, sl', ?_⟩
          simp only [serialLoop, hused, hd]
          simpa using h2
      · rename_i hp
        rw [hp] at hused
        obtain ⟨h1, sl', h2⟩ := ih (i + 1)
          (max (serWindow c (optMin (now + c.timeout) cancel) (now + sd i) s).now (now + c.delay)) _
          sl hrest
        refine ⟨h1, sl', ?_⟩
        simp only [serialLoop, hused]
        exact h2

/-! ## parallel engine: receiver and sender -/

/-- a receiver that starts at `now` has returned by `stop + poll` (or at once if `now ≥ stop`) -/
theorem recvT_end_le (c : Cfg) (stop : Nat) : ∀ (s : List RCall) (now : Nat),
    (∀ e ∈ s, e.dur ≤ c.poll) → (recvT c stop now s).endAt ≤ max now (stop + c.poll) := by
  intro s
  induction s with
  | nil => intro now _; simp only [recvT]; exact idleEnd_le _ _ _
  | cons e rest ih =>
    intro now h
    have he : e.dur ≤ c.poll := h e List.mem_cons_self
    have hr : ∀ e' ∈ rest, e'.dur ≤ c.poll := fun e' h' => h e' (List.mem_cons_of_mem _ h')
    simp only [recvT]
    split
    · simp only; omega
    · have := ih (now + e.dur) hr
      split <;> (try split) <;> simp only <;> omega

theorem recvT_end_ge (c : Cfg) (stop : Nat) : ∀ (s : List RCall) (now : Nat),
    now ≤ (recvT c stop now s).endAt := by
  intro s
  induction s with
  | nil => intro now; simp only [recvT]; exact idleEnd_ge _ _ _
  | cons e rest ih =>
    intro now
    simp only [recvT]
    split
    · simp only; omega
    · have := ih (now + e.dur)
      split <;> (try split) <;> simp only <;> omega

/-- the sender has returned after at most `n` rounds of `delay + σ` -/
theorem sendT_end_le (c : Cfg) (wstop : Nat) (sd : Nat → Nat) (sfail : Nat → Bool) (σ : Nat)
    (hsd : ∀ i, sd i ≤ σ) : ∀ (n i now : Nat),
    (sendT c wstop sd sfail n i now).endAt ≤ now + n * (c.delay + σ) := by
  intro n
  induction n with
  | zero => intro i now; simp [sendT]
  | succ n ih =>
    intro i now
    have hmul : (n + 1) * (c.delay + σ) = n * (c.delay + σ) + (c.delay + σ) := Nat.succ_mul _ _
    have hσ := hsd i
    have hrec := ih (i + 1) (now + sd i + c.delay)
    simp only [sendT]
    split
    · simp only; omega
    · split
      · simp only; omega
      · simp only; omega

/-- a sender whose context is done at `wstop` has returned by `wstop + σ + delay` -/
theorem sendT_end_stop (c : Cfg) (wstop : Nat) (sd : Nat → Nat) (sfail : Nat → Bool) (σ : Nat)
    (hsd : ∀ i, sd i ≤ σ) : ∀ (n i now : Nat),
    (sendT c wstop sd sfail n i now).endAt ≤ max now (wstop + σ + c.delay) := by
  intro n
  induction n with
  | zero => intro i now; simp [sendT]; omega
  | succ n ih =>
    intro i now
    have hσ := hsd i
    have hrec := ih (i + 1) (now + sd i + c.delay)
    simp only [sendT]
    split
    · simp only; omega
    · split
      · simp only; omega
      · simp only; omega

theorem sendT_end_ge (c : Cfg) (wstop : Nat) (sd : Nat → Nat) (sfail : Nat → Bool) :
    ∀ (n i now : Nat), now ≤ (sendT c wstop sd sfail n i now).endAt := by
  intro n
  induction n with
  | zero => intro i now; simp [sendT]
  | succ n ih =>
    intro i now
    have hrec := ih (i + 1) (now + sd i + c.delay)
    simp only [sendT]
    split
    · simp only; omega
    · split
      · simp only; omega
      · simp only; omega

theorem sendT_nofail (c : Cfg) (wstop : Nat) (sd : Nat → Nat) (sfail : Nat → Bool)
    (hsf : ∀ i, sfail i = false) : ∀ (n i now : Nat), (sendT c wstop sd sfail n i now).failed = false := by
  intro n
  induction n with
  | zero => intro i now; simp [sendT]
  | succ n ih =>
    intro i now
    simp only [sendT]
    split
    · rfl
    · rw [if_neg (by simp [hsf i])]; exact ih _ _

/-- under `NoFail` the receiver's consumed outcomes make the untimed receive loop succeed -/
theorem recvT_nofail (c : Cfg) (stop : Nat) : ∀ (s : List RCall) (now : Nat) (sl : Slots),
    (∀ e ∈ s, e.out = .retry ∨ ∃ p, e.out = .accept p ∧ validProbe c.min c.max p = true) →
    ∃ sl', recvLoop c.min c.max sl (recvT c stop now s).used = .ok sl' := by
  intro s
  induction s with
  | nil => intro now sl _; exact ⟨sl, by simp [recvT, recvLoop]⟩
  | cons a rest ih =>
    intro now sl h
    have ha := h a List.mem_cons_self
    have hr : ∀ e' ∈ rest, e'.out = .retry ∨ ∃ p, e'.out = .accept p ∧ validProbe c.min c.max p = true :=
      fun e' h' => h e' (List.mem_cons_of_mem _ h')
    simp only [recvT]
    split
    · exact ⟨sl, by simp [recvLoop]⟩
    · split
      · obtain ⟨sl', h'⟩ := ih (now + a.dur) sl hr
        exact ⟨sl', by simpa [recvLoop] using h'⟩
      · rename_i hf; rcases ha with h1 | ⟨p, h1, _⟩ <;> simp [hf] at h1
      · rename_i hf; rcases ha with h1 | ⟨p, h1, _⟩ <;> simp [hf] at h1
      · rename_i p hf
        rcases ha with h1 | ⟨q, h1, hv⟩
        · simp [hf] at h1
        · rw [hf] at h1; cases h1
          rw [if_pos hv]
          obtain ⟨sl', h'⟩ := ih (now + a.dur) (writeProbe sl p) hr
          exact ⟨sl', by simpa [recvLoop, hv] using h'⟩

/-! ## public IP: attempts that end when the per-provider context is done -/

open TRV.Enrich in
theorem retry_honours_le {budget eps : Nat} (script : List Attempt) :
    ∀ (ivals : List Nat) (el n : Nat), HonoursCtx budget eps script ivals el → el ≤ budget + eps →
      (retry budget script ivals el n).elapsed ≤ budget + eps := by
  induction script with
  | nil => intro ivals el n _ hel; simpa [retry] using hel
  | cons a rest ih =>
    intro ivals el n hh hel
    cases ivals with
    | nil =>
      have ha : el + a.dur ≤ budget + eps := hh.1
      rw [retry]
      cases classify a <;> simp only <;> try omega
      split <;> simp only <;> omega
    | cons b bs =>
      have ha : el + a.dur ≤ budget + eps := hh.1
      have hrest : HonoursCtx budget eps rest bs (el + a.dur + b) := hh.2
      rw [retry]
      cases classify a <;> simp only <;> try omega
      split
      · simp only; omega
      · split
        · simp only; omega
        · split
          · simp only; omega
          · exact ih bs _ _ hrest (by omega)

open TRV.Enrich in
theorem getFrom_honours_le {B eps : Nat} (ps : List Provider)
    (h : ∀ p ∈ ps, p.budget ≤ B ∧ HonoursCtx p.budget eps p.script p.ivals 0) :
    ∀ i0, (getFrom i0 ps).elapsed ≤ ps.length * (B + eps) := by
  induction ps with
  | nil => intro i0; simp [getFrom, GRes.elapsed]
  | cons p ps ih =>
    intro i0
    have hp := h p List.mem_cons_self
    have hps : ∀ q ∈ ps, q.budget ≤ B ∧ HonoursCtx q.budget eps q.script q.ivals 0 :=
      fun q hq => h q (List.mem_cons_of_mem _ hq)
    have h1 : p.run.elapsed ≤ p.budget + eps := retry_honours_le p.script p.ivals 0 0 hp.2 (Nat.zero_le _)
    have hmul : (ps.length + 1) * (B + eps) = ps.length * (B + eps) + (B + eps) := Nat.succ_mul _ _
    rcases TRV.Proofs.Enr.run_ok_or_fail p with ⟨ip', hok⟩ | hfail
    · rw [TRV.Proofs.Enr.getFrom_cons_ok hok]
      simp only [GRes.elapsed, List.map_cons, List.map_nil, List.sum_cons, List.sum_nil, List.length_cons]
      have := hp.1
      omega
    · rw [TRV.Proofs.Enr.getFrom_cons_fail hfail]
      have := ih hps (i0 + 1)
      simp only [GRes.elapsed, List.map_cons, List.sum_cons, List.length_cons] at this ⊢
      have := hp.1
      omega

/-! ## C05: the serial engine under "no reply after its own window" -/

theorem aligned_ge {min max : Nat} : ∀ (ws : List (List ROut)) (k : Nat), Aligned min max k ws →
    ∀ q ∈ serialAccepted min max ws, k ≤ q.ttl := by
  intro ws
  induction ws with
  | nil => intro k _ q hq; simp [serialAccepted] at hq
  | cons w ws ih =>
    intro k ha q hq
    obtain ⟨h1, h2⟩ := ha
    simp only [serialAccepted] at hq
    split at hq
    · rename_i p hp
      have hk := h1 p hp
      split at hq
      · simp at hq; subst hq; omega
      · simp only [List.mem_cons] at hq
        rcases hq with rfl | hq
        · omega
        · have := ih (k + 1) h2 q hq; omega
    · have := ih (k + 1) h2 q hq; omega
    · simp at hq

theorem firstAccepted_none_of_ge {σ : List Probe} {k t : Nat} (h : ∀ q ∈ σ, k ≤ q.ttl) (ht : t < k) :
    firstAccepted σ t = none := by
  unfold firstAccepted
  rw [List.find?_eq_none]
  intro q hq
  have := h q hq
  simp; omega

/-- the serial engine's slots are the fold of `writeProbe` over the replies it accepted (after the
    `fix:` for F10 the serial engine uses the parallel engine's slot rule) -/
theorem serialLoop_foldl {min max : Nat} : ∀ (ws : List (List ROut)) (s s' : Slots),
    serialLoop min max s ws = .ok s' → s' = (serialAccepted min max ws).foldl writeProbe s := by
  intro ws
  induction ws with
  | nil => intro s s' h; simp [serialLoop] at h; subst h; simp [serialAccepted]
  | cons w ws ih =>
    intro s s' h
    simp only [serialLoop] at h
    split at h
    · simp at h
    · rename_i hw
      simp only [serialAccepted, hw]
      exact ih s s' h
    · rename_i p hw
      simp only [serialAccepted, hw]
      split at h
      · rename_i hd
        simp only [Except.ok.injEq] at h; subst h
        simp [hd, serialWrite]
      · rename_i hd
        have := ih (serialWrite s p) s' h
        simp only [hd, Bool.false_eq_true, if_false, List.foldl_cons]
        exact this

/-- from empty slots: the serial result is `merge` of the accepted replies -/
theorem serialLoop_merge {min max : Nat} {ws : List (List ROut)} {s : Slots}
    (h : serialLoop min max emptySlots ws = .ok s) : s = merge (serialAccepted min max ws) :=
  serialLoop_foldl ws emptySlots s h

/-- with aligned windows every slot holds the earliest (indeed the only) reply accepted for its
    TTL; slots without a reply keep their previous content (the slots of the windows still to come
    are empty) -/
theorem serialLoop_aligned {min max : Nat} : ∀ (ws : List (List ROut)) (k : Nat) (s s' : Slots),
    Aligned min max k ws → (∀ u, k ≤ u → s u = none) → serialLoop min max s ws = .ok s' →
    ∀ t, s' t = match firstAccepted (serialAccepted min max ws) t with
                | some p => some p
                | none => s t := by
  intro ws
  induction ws with
  | nil => intro k s s' _ _ h t; simp [serialLoop] at h; subst h; simp [serialAccepted, firstAccepted]
  | cons w ws ih =>
    intro k s s' ha hs h t
    obtain ⟨h1, h2⟩ := ha
    simp only [serialLoop] at h
    split at h
    · simp at h
    · rename_i hw
      simp only [serialAccepted, hw]
      exact ih (k + 1) s s' h2 (fun u hu => hs u (by omega)) h t
    · rename_i p hw
      have hk := h1 p hw
      have hwr : serialWrite s p = fun t => if t = p.ttl then some p else s t :=
        serialWrite_empty (by rw [hk]; exact hs k (Nat.le_refl k))
      simp only [serialAccepted, hw]
      split at h
      · rename_i hd
        simp only [Except.ok.injEq] at h; subst h
        simp only [hd, if_true, firstAccepted, List.find?, hwr]
        by_cases htt : t = p.ttl
        · subst htt; simp
        · have : (p.ttl = t) = False := by simp; exact fun e => htt e.symm
          simp [htt, this]
      · rename_i hd
        have hrec := ih (k + 1) (serialWrite s p) s' h2
          (fun u hu => by rw [hwr]; simp only; rw [if_neg (by omega)]; exact hs u (by omega)) h t
        rw [hrec]
        simp only [hd, Bool.false_eq_true, if_false, firstAccepted, List.find?]
        by_cases htt : t = p.ttl
        · subst htt
          have hnone := firstAccepted_none_of_ge (aligned_ge ws (k + 1) h2) (by omega : p.ttl < k + 1)
          unfold firstAccepted at hnone
          simp [hnone, hwr]
        · have : (p.ttl = t) = False := by simp; exact fun e => htt e.symm
          simp only [this, decide_false, hwr, htt, if_false]

end TRV.Proofs.Timed
