import TRV.Spec.Engine
set_option linter.unusedSimpArgs false
/-! Helper lemmas for C03 / C07 (engine result theorems). -/
namespace TRV.Proofs
open TRV.Engine TRV.Spec

/-- what a slot already holding `a` becomes after the sequence σ -/
def after (a : Option Probe) (σ : List Probe) (t : Nat) : Option Probe :=
  match a with
  | none => best σ t
  | some prev => if prev.dest then some prev else
      match firstDest σ t with
      | some p => some p
      | none => some prev

theorem foldl_after (σ : List Probe) : ∀ (acc : Slots) (t : Nat),
    (σ.foldl writeProbe acc) t = after (acc t) σ t := by
  induction σ with
  | nil => intro acc t; cases h : acc t <;> simp [after, best, firstDest, firstAny, h]
  | cons p σ ih =>
    intro acc t
    simp only [List.foldl_cons]
    rw [ih]
    unfold writeProbe
    by_cases ht : t = p.ttl
    · subst ht
      cases hacc : acc p.ttl with
      | none =>
        cases hd : p.dest <;> simp [after, best, firstDest, firstAny, List.find?, hd] <;>
          (cases List.find? (fun p_1 => decide (p_1.ttl = p.ttl) && p_1.dest) σ <;> rfl)
      | some prev =>
        cases hpd : prev.dest <;> cases hd : p.dest <;>
          simp [after, firstDest, List.find?, hpd, hd]
    · have : (p.ttl = t) = False := by simp; exact fun h => ht h.symm
      cases hacc : acc t <;> simp [after, best, firstDest, firstAny, List.find?, ht, this]

theorem merge_eq_best (σ : List Probe) (t : Nat) : merge σ t = best σ t := by
  simp [merge, foldl_after, after, emptySlots]

theorem merge_snoc (σ : List Probe) (p : Probe) : merge (σ ++ [p]) = writeProbe (merge σ) p := by
  simp [merge, List.foldl_append]

/-- the receiver loop is `foldl writeProbe` over the accepted probes, and succeeds only if all of
    them pass `validateProbe` -/
theorem recvLoop_ok {min max : Nat} : ∀ (outs : List ROut) (s s' : Slots),
    recvLoop min max s outs = .ok s' →
      s' = (accepted outs).foldl writeProbe s ∧ ∀ p ∈ accepted outs, validProbe min max p = true := by
  intro outs
  induction outs with
  | nil => intro s s' h; simp [recvLoop] at h; simp [accepted, h]
  | cons o outs ih =>
    intro s s' h
    cases o with
    | retry => simpa [recvLoop, accepted] using ih s s' (by simpa [recvLoop] using h)
    | fatal => simp [recvLoop] at h
    | nilProbe => simp [recvLoop] at h
    | accept p =>
      simp only [recvLoop] at h
      split at h
      · rename_i hv
        obtain ⟨h1, h2⟩ := ih _ _ h
        refine ⟨by simpa [accepted] using h1, ?_⟩
        intro q hq
        simp only [accepted, List.mem_cons] at hq
        rcases hq with rfl | hq
        · exact hv
        · exact h2 q hq
      · simp at h

theorem best_ttl {σ : List Probe} {t : Nat} {p : Probe} (h : best σ t = some p) : p.ttl = t := by
  unfold best at h
  split at h
  · rename_i q hq
    simp only [Option.some.injEq] at h; subst h
    have := List.find?_some hq
    simp at this; exact this.1
  · have := List.find?_some h
    simpa [firstAny] using this

theorem best_mem {σ : List Probe} {t : Nat} {p : Probe} (h : best σ t = some p) : p ∈ σ := by
  unfold best at h
  split at h
  · rename_i q hq
    simp only [Option.some.injEq] at h; subst h
    exact List.mem_of_find?_eq_some hq
  · exact List.mem_of_find?_eq_some h

theorem best_isDest (σ : List Probe) (t : Nat) : isDestSlot (best σ t) = destAnswered σ t := by
  unfold best destAnswered
  cases hfd : firstDest σ t with
  | some p =>
    have := List.find?_some hfd
    simp only [Bool.and_eq_true, decide_eq_true_eq] at this
    have hm := List.mem_of_find?_eq_some hfd
    simp only [isDestSlot, this.2]
    symm; rw [List.any_eq_true]
    exact ⟨p, hm, by simp [this.1, this.2]⟩
  | none =>
    simp only
    have hnone : ∀ x ∈ σ, (decide (x.ttl = t) && x.dest) = false := by
      have := List.find?_eq_none.mp hfd
      intro x hx; simpa using this x hx
    have hany : σ.any (fun p => decide (p.ttl = t) && p.dest) = false := by
      rw [List.any_eq_false]; intro x hx; simp [hnone x hx]
    rw [hany]
    cases hfa : firstAny σ t with
    | none => rfl
    | some q =>
      have hq := List.find?_some hfa
      have hm := List.mem_of_find?_eq_some hfa
      have := hnone q hm
      simp only [decide_eq_true_eq] at hq
      simp [hq] at this
      simp [isDestSlot, this]

theorem best_none_of_lt {σ : List Probe} {min max t : Nat}
    (hv : ∀ p ∈ σ, validProbe min max p = true) (ht : t < min ∨ max < t) : best σ t = none := by
  cases h : best σ t with
  | none => rfl
  | some p =>
    have h1 := best_ttl h
    have h2 := hv p (best_mem h)
    simp [validProbe] at h2
    omega

end TRV.Proofs

namespace TRV.Proofs
open TRV.Engine TRV.Spec

theorem findIdx?_range (q : Nat → Bool) (n : Nat) :
    (List.range n).findIdx? q = (List.range n).find? q := by
  cases h : (List.range n).find? q with
  | none =>
    rw [List.findIdx?_eq_none_iff]
    intro x hx
    have := (List.find?_range_eq_none.mp h) x (by simpa using hx)
    simpa using this
  | some i =>
    rw [List.find?_range_eq_some] at h
    obtain ⟨h1, h2, h3⟩ := h
    rw [List.findIdx?_eq_some_iff_getElem]
    have hi : i < n := by simpa using h2
    refine ⟨by simpa using hi, by simpa using h1, ?_⟩
    intro j hj
    have := h3 j hj
    simpa using this

theorem clip_slotList {min max : Nat} {s : Slots} (hmin : min ≤ max)
    (hlow : ∀ t, t < min → s t = none) :
    clipList min (slotList max s) =
      some ((List.range' min (((List.range (max+1)).find? (fun t => isDestSlot (s t))).getD max + 1 - min)).map s) := by
  unfold clipList slotList
  rw [List.findIdx?_map, findIdx?_range]
  have hcomp : (isDestSlot ∘ s) = fun t => isDestSlot (s t) := rfl
  rw [hcomp]
  cases h : (List.range (max+1)).find? (fun t => isDestSlot (s t)) with
  | none =>
    simp only [Option.getD_none, List.length_map, List.length_range]
    rw [if_pos (by omega), ← List.map_drop, List.range_eq_range', List.drop_range']
    simp
  | some d =>
    rw [List.find?_range_eq_some] at h
    obtain ⟨h1, h2, _⟩ := h
    have hd : d < max + 1 := by simpa using h2
    have hmd : min ≤ d := by
      rcases Nat.lt_or_ge d min with hlt | hge
      · have := hlow d hlt; simp [this, isDestSlot] at h1
      · exact hge
    simp only [Option.getD_some, ← List.map_take, List.take_range, List.length_map,
      List.length_range]
    have hmn : Nat.min (d + 1) (max + 1) = d + 1 := Nat.min_eq_left (by omega)
    simp only [Nat.min_def] at hmn ⊢
    rw [if_pos (by omega : d + 1 ≤ max + 1)]
    rw [if_pos (by omega), ← List.map_drop, List.range_eq_range', List.drop_range']
    simp

end TRV.Proofs

namespace TRV.Proofs
open TRV.Engine TRV.Spec

/-- the hop `ToHops` makes out of slot `t` -/
def hopOf (t : Nat) : Option Probe → Hop
  | none => { ttl := t, ip := [], rtt := 0, dest := false }
  | some p => { ttl := t, ip := p.ip, rtt := p.rtt, dest := p.dest }

theorem toHops_map {f : Nat → Option Probe} (hf : ∀ t p, f t = some p → p.ttl = t) :
    ∀ (n min : Nat), toHops min ((List.range' min n).map f) =
      some ((List.range' min n).map (fun t => hopOf t (f t))) := by
  intro n
  induction n with
  | zero => intro min; simp [toHops]
  | succ n ih =>
    intro min
    simp only [List.range'_succ, List.map_cons]
    cases h : f min with
    | none => simp [toHops, ih (min+1), hopOf, h]
    | some p =>
      have := hf _ _ h
      simp [toHops, ih (min+1), hopOf, h, this]

theorem hopOf_dest (t : Nat) (o : Option Probe) : (hopOf t o).dest = isDestSlot o := by
  cases o <;> rfl

theorem hopOf_ttl (t : Nat) (o : Option Probe) : (hopOf t o).ttl = t := by
  cases o <;> rfl

/-- shape of `range' min (cut+1-min)` mapped through slots whose first destination slot is `cut` -/
theorem shape_of_cut {f : Nat → Option Probe} {min cut : Nat} (hmc : min ≤ cut)
    (hfirst : ∀ t, t < cut → isDestSlot (f t) = false) :
    shapeOK min cut ((List.range' min (cut + 1 - min)).map (fun t => hopOf t (f t))) = true := by
  unfold shapeOK
  simp only [List.length_map, List.length_range', Bool.and_eq_true, beq_iff_eq,
    List.all_eq_true, List.mem_range, Bool.not_eq_true', List.isEmpty_eq_false_iff]
  refine ⟨⟨?_, trivial⟩, ?_⟩
  · intro h
    have := congrArg List.length h
    simp at this; omega
  · intro i hi
    have : ((List.range' min (cut + 1 - min)).map (fun t => hopOf t (f t)))[i]? =
        some (hopOf (min + i) (f (min + i))) := by
      simp [List.getElem?_map, List.getElem?_range', hi]
    rw [this]
    simp only [hopOf_ttl, beq_self_eq_true, Bool.true_and, hopOf_dest, Bool.or_eq_true,
      Bool.not_eq_true', beq_iff_eq]
    by_cases hlast : i + 1 = cut + 1 - min
    · right; exact hlast
    · left; exact hfirst _ (by omega)

end TRV.Proofs

namespace TRV.Proofs
open TRV.Engine TRV.Spec

theorem cutOf_le (σ : List Probe) (max : Nat) : cutOf σ max ≤ max := by
  unfold cutOf lowestDest
  cases h : (List.range (max+1)).find? (destAnswered σ) with
  | none => simp
  | some d =>
    rw [List.find?_range_eq_some] at h
    have : d < max + 1 := by simpa using h.2.1
    simp; omega

theorem cutOf_first (σ : List Probe) (max : Nat) :
    ∀ t, t < cutOf σ max → destAnswered σ t = false := by
  unfold cutOf lowestDest
  cases h : (List.range (max+1)).find? (destAnswered σ) with
  | none =>
    intro t ht
    have := (List.find?_range_eq_none.mp h) t (by simp at ht; omega)
    simpa using this
  | some d =>
    rw [List.find?_range_eq_some] at h
    intro t ht
    have := h.2.2 t (by simpa using ht)
    simpa using this

theorem cutOf_ge {σ : List Probe} {min max : Nat} (hmin : min ≤ max)
    (hv : ∀ p ∈ σ, validProbe min max p = true) : min ≤ cutOf σ max := by
  unfold cutOf lowestDest
  cases h : (List.range (max+1)).find? (destAnswered σ) with
  | none => simpa using hmin
  | some d =>
    rw [List.find?_range_eq_some] at h
    simp only [Option.getD_some]
    rcases Nat.lt_or_ge d min with hlt | hge
    · have h1 := h.1
      rw [← best_isDest, best_none_of_lt hv (Or.inl hlt)] at h1
      simp [isDestSlot] at h1
    · exact hge

/-- the whole parallel result, as a function of the accepted sequence only -/
theorem parallel_result {min max : Nat} {outs : List ROut} {sendErr extCancel : Bool}
    {r : List (Option Probe)}
    (h : parallelRun min max true outs sendErr extCancel = .ok r) :
    r = expected min max (accepted outs) ∧ min ≤ max ∧ 1 ≤ min ∧
      (∀ p ∈ accepted outs, validProbe min max p = true) := by
  unfold parallelRun at h
  split at h; · simp at h
  rename_i hvp
  simp only [validParams, Bool.not_eq_true, Bool.and_eq_false_iff, decide_eq_false_iff_not,
    not_or, Nat.not_lt, Classical.not_not] at hvp
  have hvp' : min ≤ max ∧ 1 ≤ min := by
    simp [validParams] at hvp; exact hvp
  simp only [Bool.not_true, Bool.false_eq_true, if_false] at h
  split at h; · simp at h
  rename_i s hs
  obtain ⟨hs1, hs2⟩ := recvLoop_ok _ _ _ hs
  split at h; · simp at h
  split at h; · simp at h
  have hs' : s = best (accepted outs) := by
    funext t; rw [hs1]; exact merge_eq_best _ t
  have hclip := clip_slotList (s := s) (max := max) hvp'.1
    (by intro t ht; rw [hs']; exact best_none_of_lt hs2 (Or.inl ht))
  rw [hclip] at h
  simp only [Except.ok.injEq] at h
  refine ⟨?_, hvp'.1, hvp'.2, hs2⟩
  rw [← h, hs']
  unfold expected cutOf lowestDest
  have : (fun t => isDestSlot (best (accepted outs) t)) = destAnswered (accepted outs) := by
    funext t; exact best_isDest _ t
  rw [this]

end TRV.Proofs

namespace TRV.Proofs
open TRV.Engine TRV.Spec

/-- engine invariant on the slot array: a filled slot `t` holds a probe whose TTL is `t`, within
    `[min, max]` -/
def SlotInv (min max : Nat) (s : Slots) : Prop :=
  ∀ t p, s t = some p → p.ttl = t ∧ min ≤ t ∧ t ≤ max

/-- first destination slot, or `max` -/
def slotCut (s : Slots) (max : Nat) : Nat :=
  ((List.range (max+1)).find? (fun t => isDestSlot (s t))).getD max

theorem slotCut_le (s : Slots) (max : Nat) : slotCut s max ≤ max := by
  unfold slotCut
  cases h : (List.range (max+1)).find? (fun t => isDestSlot (s t)) with
  | none => simp
  | some d =>
    rw [List.find?_range_eq_some] at h
    have : d < max + 1 := by simpa using h.2.1
    simp; omega

theorem slotCut_first (s : Slots) (max : Nat) : ∀ t, t < slotCut s max → isDestSlot (s t) = false := by
  unfold slotCut
  cases h : (List.range (max+1)).find? (fun t => isDestSlot (s t)) with
  | none =>
    intro t ht
    have := (List.find?_range_eq_none.mp h) t (by simp at ht; omega)
    simpa using this
  | some d =>
    rw [List.find?_range_eq_some] at h
    intro t ht
    have := h.2.2 t (by simpa using ht)
    simpa using this

theorem slotCut_ge {s : Slots} {min max : Nat} (hmin : min ≤ max) (hinv : SlotInv min max s) :
    min ≤ slotCut s max := by
  unfold slotCut
  cases h : (List.range (max+1)).find? (fun t => isDestSlot (s t)) with
  | none => simpa using hmin
  | some d =>
    rw [List.find?_range_eq_some] at h
    simp only [Option.getD_some]
    have h1 := h.1
    cases hs : s d with
    | none => simp [hs, isDestSlot] at h1
    | some p => exact (hinv d p hs).2.1

/-- C03 core: for every slot array satisfying the engine invariant, `clipResults` does not panic,
    `ToHops` does not take its error branch, and the hop list has the path shape -/
theorem clip_shape {min max : Nat} {s : Slots} (hmin : min ≤ max) (hinv : SlotInv min max s) :
    ∃ r hops, clipList min (slotList max s) = some r ∧ toHops min r = some hops ∧
      shapeOK min (slotCut s max) hops = true ∧
      r = (List.range' min (slotCut s max + 1 - min)).map s := by
  have hlow : ∀ t, t < min → s t = none := by
    intro t ht
    cases h : s t with
    | none => rfl
    | some p => have := (hinv t p h).2.1; omega
  refine ⟨(List.range' min (slotCut s max + 1 - min)).map s,
    (List.range' min (slotCut s max + 1 - min)).map (fun t => hopOf t (s t)),
    clip_slotList hmin hlow, ?_, ?_, rfl⟩
  · exact toHops_map (fun t p h => (hinv t p h).1) _ _
  · exact shape_of_cut (slotCut_ge hmin hinv) (slotCut_first s max)

theorem writeProbe_inv {min max : Nat} {s : Slots} {p : Probe} (hinv : SlotInv min max s)
    (hv : validProbe min max p = true) : SlotInv min max (writeProbe s p) := by
  intro t q hq
  unfold writeProbe at hq
  simp [validProbe] at hv
  split at hq
  · rename_i ht
    split at hq
    · simp at hq; subst hq; subst ht; exact ⟨rfl, hv.1, hv.2⟩
    · rename_i prev hprev
      split at hq
      · simp at hq; subst hq; subst ht; exact ⟨rfl, hv.1, hv.2⟩
      · simp at hq; subst hq; exact hinv t _ hprev
  · exact hinv t q hq

theorem serialWrite_inv {min max : Nat} {s : Slots} {p : Probe} (hinv : SlotInv min max s)
    (hv : validProbe min max p = true) : SlotInv min max (serialWrite s p) :=
  writeProbe_inv hinv hv

/-- writing into an empty slot: the two engines' rules coincide with a plain store -/
theorem serialWrite_empty {s : Slots} {p : Probe} (h : s p.ttl = none) :
    serialWrite s p = fun t => if t = p.ttl then some p else s t := by
  funext t
  unfold serialWrite writeProbe
  by_cases ht : t = p.ttl
  · subst ht; simp [h]
  · simp [ht]

theorem emptySlots_inv (min max : Nat) : SlotInv min max emptySlots := by
  intro t p h; simp [emptySlots] at h

theorem recvLoop_inv {min max : Nat} : ∀ (outs : List ROut) (s s' : Slots),
    SlotInv min max s → recvLoop min max s outs = .ok s' → SlotInv min max s' := by
  intro outs
  induction outs with
  | nil => intro s s' hi h; simp [recvLoop] at h; subst h; exact hi
  | cons o outs ih =>
    intro s s' hi h
    cases o with
    | retry => exact ih s s' hi (by simpa [recvLoop] using h)
    | fatal => simp [recvLoop] at h
    | nilProbe => simp [recvLoop] at h
    | accept p =>
      simp only [recvLoop] at h
      split at h
      · rename_i hv; exact ih _ _ (writeProbe_inv hi hv) h
      · simp at h

theorem serialWindow_valid {min max : Nat} : ∀ (w : List ROut) (p : Probe),
    serialWindow min max w = .ok (some p) → validProbe min max p = true := by
  intro w
  induction w with
  | nil => intro p h; simp [serialWindow] at h
  | cons o w ih =>
    intro p h
    cases o with
    | retry => exact ih p (by simpa [serialWindow] using h)
    | fatal => simp [serialWindow] at h
    | nilProbe => simp [serialWindow] at h
    | accept q =>
      simp only [serialWindow] at h
      split at h
      · rename_i hv; simp at h; subst h; exact hv
      · simp at h

theorem serialLoop_inv {min max : Nat} : ∀ (ws : List (List ROut)) (s s' : Slots),
    SlotInv min max s → serialLoop min max s ws = .ok s' → SlotInv min max s' := by
  intro ws
  induction ws with
  | nil => intro s s' hi h; simp [serialLoop] at h; subst h; exact hi
  | cons w ws ih =>
    intro s s' hi h
    simp only [serialLoop] at h
    split at h
    · simp at h
    · exact ih _ _ hi h
    · rename_i p hp
      have hv := serialWindow_valid _ _ hp
      split at h
      · simp at h; subst h; exact serialWrite_inv hi hv
      · exact ih _ _ (serialWrite_inv hi hv) h

end TRV.Proofs

namespace TRV.Proofs
open TRV.Engine TRV.Spec

/-- every accepted reply is reflected in the merge: its TTL's slot is filled by an accepted reply
    for that TTL (the earliest, or a destination reply) -/
theorem all_reflected (σ : List Probe) (p : Probe) (hp : p ∈ σ) :
    ∃ q, merge σ p.ttl = some q ∧ q ∈ σ ∧ q.ttl = p.ttl ∧ (p.dest = true → q.dest = true) := by
  rw [merge_eq_best]
  unfold best
  cases hfd : firstDest σ p.ttl with
  | some q =>
    have h1 := List.find?_some hfd
    simp only [Bool.and_eq_true, decide_eq_true_eq] at h1
    exact ⟨q, rfl, List.mem_of_find?_eq_some hfd, h1.1, fun _ => h1.2⟩
  | none =>
    have hnone := List.find?_eq_none.mp hfd p hp
    simp only [decide_true, Bool.true_and, Bool.not_eq_true] at hnone
    cases hfa : firstAny σ p.ttl with
    | none =>
      have := List.find?_eq_none.mp hfa p hp
      simp at this
    | some q =>
      have h1 := List.find?_some hfa
      simp only [decide_eq_true_eq] at h1
      exact ⟨q, rfl, List.mem_of_find?_eq_some hfa, h1, fun h => by simp [h] at hnone⟩

end TRV.Proofs
