import TRV.Model.EngineLTS
import TRV.Proofs.Engine
set_option linter.unusedSimpArgs false
namespace TRV.Proofs
open TRV.Engine TRV.LTS

theorem lts_params {minT maxT s} (h : Reach minT maxT s) : s.minT = minT ∧ s.maxT = maxT := by
  induction h with
  | init => simp [init]
  | step _ st ih => cases st <;> simp_all

theorem slots_eq_merge {minT maxT s} (h : Reach minT maxT s) : s.slots = merge s.sigma := by
  induction h with
  | init => rfl
  | step _ st ih => cases st <;> simp_all [merge_snoc]

theorem sigma_valid {minT maxT s} (h : Reach minT maxT s) :
    ∀ p ∈ s.sigma, validProbe minT maxT p = true := by
  induction h with
  | init => simp [init]
  | step hr st ih =>
    have hp := lts_params hr
    cases st <;> simp_all
    rename_i p _ _ hv
    intro q hq
    rcases hq with hq | hq
    · exact ih q hq
    · subst hq; exact hv

theorem sends_after_cancel {minT maxT s} (h : Reach minT maxT s) :
    s.sendsAfterCancel ≤ 1 ∧ (s.sendsAfterCancel = 1 → s.spc ≠ .sending) ∧
    (s.cancelled = false → s.sendsAfterCancel = 0) ∧
    (s.cancelled = true → s.spc = .sending → s.sendsAfterCancel = 0) := by
  induction h with
  | init => simp [init]
  | step _ st ih =>
    obtain ⟨h1, h2, h3, h4⟩ := ih
    cases st <;> simp_all <;> (try omega) <;> (try (split <;> simp_all <;> omega))
    · intro hc hs
      cases hcan : (‹St›).cancelled <;> simp_all

/-- probes are emitted in increasing TTL order from the first TTL, each TTL at most once -/
theorem sends_in_order {minT maxT s} (hv : minT ≤ maxT) (h : Reach minT maxT s) :
    s.sends = (List.range' minT (s.next - minT)).reverse ∧ minT ≤ s.next ∧
      (s.spc = .sending → s.next ≤ maxT) ∧ s.next ≤ maxT + 1 := by
  induction h with
  | init => simp [init]; omega
  | @step s0 s1 hr st ih =>
    have hp := lts_params hr
    obtain ⟨h1, h2, h3, h4⟩ := ih
    cases st with
    | senderCheckGo a b c d => simp_all
    | senderCheckStop a b => simp_all
    | senderSend a =>
      have hn := h3 a
      have : s0.next + 1 - minT = (s0.next - minT) + 1 := by omega
      simp only [this, List.range'_concat, List.reverse_append, h1]
      refine ⟨?_, by omega, by simp, by omega⟩
      simp
      omega
    | recvAccept p a b c => simp_all
    | recvIgnore a b => simp_all
    | deadline => simp_all
    | recvExit a => simp_all

end TRV.Proofs
