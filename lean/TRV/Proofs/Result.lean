import TRV.Spec.Result
/-!
# Helper lemmas for C16 / C17 (`TRV.Model.Result` against `TRV.Spec.Result`)

Sections: `IP.Equal(net.IP{})`; hop-count scan and the `hopsMin == 0` fold; sums, means and
min/max folds over core `Rat` (no Mathlib: `grind` does the ordered-field steps); jitter;
`normalizeE2eProbe` field by field; permutation invariance; the document passes; `IsPrivate` against
the numeric ranges (all byte strings, by length); identifiers; redaction and the pipeline.
-/
namespace TRV.Proofs.Result
open TRV TRV.Result TRV.ResSpec

/-! ## `IP.Equal(net.IP{})` -/

theorem ipEqual_nil (ip : Bytes) : ipEqual ip [] = ip.isEmpty := by
  unfold ipEqual
  cases ip with
  | nil => simp
  | cons a t => simp

theorem hasAddrGo_iff (ip : Bytes) : hasAddrGo ip = true ↔ ip ≠ [] := by
  unfold hasAddrGo; rw [ipEqual_nil]; cases ip <;> simp

/-! ## hop counts -/

theorem scanBack_bounds (l : List Hop) (n : Nat) (h : scanBack l = some n) : 1 ≤ n ∧ n ≤ l.length := by
  induction l with
  | nil => simp [scanBack] at h
  | cons a t ih =>
    unfold scanBack at h
    split at h
    · simp at h; subst h; simp
    · have := ih h; simp; omega

theorem hopCountOf_le (hops : List Hop) : hopCountOf hops ≤ hops.length := by
  unfold hopCountOf
  cases h : scanBack hops.reverse with
  | none => simp
  | some n => have := scanBack_bounds _ _ h; simp at this ⊢; omega

theorem hopCountOf_pos (hops : List Hop) (hne : hops ≠ []) : 1 ≤ hopCountOf hops := by
  unfold hopCountOf
  cases h : scanBack hops.reverse with
  | none => simp; exact List.length_pos_iff.mpr hne
  | some n => have := scanBack_bounds _ _ h; simp; omega

theorem foldl_stepMin (cs : List Nat) (acc : Nat) (hpos : ∀ c ∈ cs, 1 ≤ c) :
    let r := cs.foldl stepMin acc
    (∀ c ∈ cs, r ≤ c) ∧ (acc ≠ 0 → r ≤ acc ∧ 1 ≤ r) ∧ (r = acc ∨ r ∈ cs) := by
  induction cs generalizing acc with
  | nil => simp; omega
  | cons c t ih =>
    have hc : 1 ≤ c := hpos c (by simp)
    have ih' := ih (stepMin acc c) (fun x hx => hpos x (by simp [hx]))
    simp only [List.foldl_cons, List.mem_cons, forall_eq_or_imp]
    simp only at ih'
    obtain ⟨h1, h2, h3⟩ := ih'
    have hs : stepMin acc c ≠ 0 := by unfold stepMin; split <;> omega
    have hs2 : stepMin acc c ≤ c := by unfold stepMin; split <;> omega
    have hs3 : acc ≠ 0 → stepMin acc c ≤ acc := by unfold stepMin; split <;> omega
    have hs4 : stepMin acc c = acc ∨ stepMin acc c = c := by unfold stepMin; split <;> simp
    have := h2 hs
    refine ⟨⟨by omega, h1⟩, fun ha => ⟨by have := hs3 ha; omega, this.2⟩, ?_⟩
    rcases h3 with h3 | h3
    · rcases hs4 with h4 | h4
      · left; omega
      · right; left; omega
    · right; right; exact h3

theorem foldl_stepMax (cs : List Nat) (acc : Nat) :
    let r := cs.foldl stepMax acc
    (∀ c ∈ cs, c ≤ r) ∧ acc ≤ r ∧ (r = acc ∨ r ∈ cs) := by
  induction cs generalizing acc with
  | nil => simp
  | cons c t ih =>
    have ih' := ih (stepMax acc c)
    simp only [List.foldl_cons, List.mem_cons, forall_eq_or_imp]
    simp only at ih'
    obtain ⟨h1, h2, h3⟩ := ih'
    have hs2 : c ≤ stepMax acc c := by unfold stepMax; split <;> omega
    have hs3 : acc ≤ stepMax acc c := by unfold stepMax; split <;> omega
    have hs4 : stepMax acc c = acc ∨ stepMax acc c = c := by unfold stepMax; split <;> simp
    refine ⟨⟨by omega, h1⟩, by omega, ?_⟩
    rcases h3 with h3 | h3
    · rcases hs4 with h4 | h4
      · left; omega
      · right; left; omega
    · right; right; exact h3

/-! ## sums over core `Rat` -/

theorem foldl_add_rat (l : List Rat) (a : Rat) : l.foldl (· + ·) a = a + l.sum := by
  induction l generalizing a with
  | nil => simp only [List.foldl_nil, List.sum_nil]; grind
  | cons x t ih => simp only [List.foldl_cons, List.sum_cons, ih]; grind

theorem foldl_add_rat0 (l : List Rat) : l.foldl (· + ·) 0 = l.sum := by
  rw [foldl_add_rat]; grind

theorem foldl_add_nat (l : List Nat) (a : Nat) : l.foldl (· + ·) a = a + l.sum := by
  induction l generalizing a with
  | nil => simp
  | cons x t ih => simp only [List.foldl_cons, List.sum_cons, ih]; omega

theorem natCast_succ (n : Nat) : ((n + 1 : Nat) : Rat) = (n : Rat) + 1 := by
  simp [Rat.natCast_add]

theorem sum_ge (xs : List Rat) (m : Rat) (h : ∀ x ∈ xs, m ≤ x) : (xs.length : Rat) * m ≤ xs.sum := by
  induction xs with
  | nil => simp
  | cons x xs ih =>
    have h1 : m ≤ x := h x (by simp)
    have h2 := ih (fun y hy => h y (by simp [hy]))
    simp only [List.length_cons, List.sum_cons]
    rw [natCast_succ]
    grind

theorem sum_le (xs : List Rat) (M : Rat) (h : ∀ x ∈ xs, x ≤ M) : xs.sum ≤ (xs.length : Rat) * M := by
  induction xs with
  | nil => simp
  | cons x xs ih =>
    have h1 : x ≤ M := h x (by simp)
    have h2 := ih (fun y hy => h y (by simp [hy]))
    simp only [List.length_cons, List.sum_cons]
    rw [natCast_succ]
    grind

theorem mul_div_cancel (s n : Rat) (hn : 0 < n) : n * (s / n) = s := by
  rw [Rat.div_def]; grind

/-- the mean of a non-empty list lies between any lower and any upper bound of its elements -/
theorem avg_bounds (xs : List Rat) (m M : Rat) (hne : xs ≠ [])
    (hm : ∀ x ∈ xs, m ≤ x) (hM : ∀ x ∈ xs, x ≤ M) :
    m ≤ xs.sum / xs.length ∧ xs.sum / xs.length ≤ M := by
  have hpos : (0 : Rat) < xs.length := Rat.natCast_pos.mpr (List.length_pos_iff.mpr hne)
  have h1 := sum_ge xs m hm
  have h2 := sum_le xs M hM
  have key := mul_div_cancel xs.sum xs.length hpos
  constructor
  · apply Rat.le_of_mul_le_mul_left (c := (xs.length : Rat)) _ hpos
    rw [key]; exact h1
  · apply Rat.le_of_mul_le_mul_left (c := (xs.length : Rat)) _ hpos
    rw [key]; exact h2

theorem natCast_sum (cs : List Nat) : ((cs.sum : Nat) : Rat) = (cs.map (fun (c : Nat) => (c : Rat))).sum := by
  induction cs with
  | nil => simp
  | cons c t ih => simp [Rat.natCast_add, ih]

/-! ## min / max folds -/

theorem foldl_stepMinR (l : List Rat) (acc : Rat) :
    let r := l.foldl stepMinR acc
    r ≤ acc ∧ (∀ x ∈ l, r ≤ x) ∧ (r = acc ∨ r ∈ l) := by
  induction l generalizing acc with
  | nil => simp
  | cons c t ih =>
    obtain ⟨h1, h2, h3⟩ := ih (stepMinR acc c)
    simp only [List.foldl_cons, List.mem_cons, forall_eq_or_imp]
    have hs1 : stepMinR acc c ≤ acc := by unfold stepMinR; split <;> grind
    have hs2 : stepMinR acc c ≤ c := by unfold stepMinR; split <;> grind
    have hs4 : stepMinR acc c = acc ∨ stepMinR acc c = c := by unfold stepMinR; split <;> simp
    refine ⟨Rat.le_trans h1 hs1, ⟨Rat.le_trans h1 hs2, h2⟩, ?_⟩
    rcases h3 with h3 | h3
    · rcases hs4 with h4 | h4
      · left; rw [h3, h4]
      · right; left; rw [h3, h4]
    · right; right; exact h3

theorem foldl_stepMaxR (l : List Rat) (acc : Rat) :
    let r := l.foldl stepMaxR acc
    acc ≤ r ∧ (∀ x ∈ l, x ≤ r) ∧ (r = acc ∨ r ∈ l) := by
  induction l generalizing acc with
  | nil => simp
  | cons c t ih =>
    obtain ⟨h1, h2, h3⟩ := ih (stepMaxR acc c)
    simp only [List.foldl_cons, List.mem_cons, forall_eq_or_imp]
    have hs1 : acc ≤ stepMaxR acc c := by unfold stepMaxR; split <;> grind
    have hs2 : c ≤ stepMaxR acc c := by unfold stepMaxR; split <;> grind
    have hs4 : stepMaxR acc c = acc ∨ stepMaxR acc c = c := by unfold stepMaxR; split <;> simp
    refine ⟨Rat.le_trans hs1 h1, ⟨Rat.le_trans hs2 h1, h2⟩, ?_⟩
    rcases h3 with h3 | h3
    · rcases hs4 with h4 | h4
      · left; rw [h3, h4]
      · right; left; rw [h3, h4]
    · right; right; exact h3

/-- the running minimum of a non-empty list started at its head is its least element -/
theorem min_fold_spec (v0 : Rat) (t : List Rat) :
    (v0 :: t).foldl stepMinR v0 ∈ v0 :: t ∧ ∀ x ∈ v0 :: t, (v0 :: t).foldl stepMinR v0 ≤ x := by
  obtain ⟨h1, h2, h3⟩ := foldl_stepMinR (v0 :: t) v0
  refine ⟨?_, h2⟩
  rcases h3 with h3 | h3
  · rw [h3]; simp
  · exact h3

theorem max_fold_spec (v0 : Rat) (t : List Rat) :
    (v0 :: t).foldl stepMaxR v0 ∈ v0 :: t ∧ ∀ x ∈ v0 :: t, x ≤ (v0 :: t).foldl stepMaxR v0 := by
  obtain ⟨h1, h2, h3⟩ := foldl_stepMaxR (v0 :: t) v0
  refine ⟨?_, h2⟩
  rcases h3 with h3 | h3
  · rw [h3]; simp
  · exact h3

/-! ## jitter -/

theorem absR_nonneg (x : Rat) : 0 ≤ absR x := by unfold absR; split <;> grind

theorem absR_sub_le (a b m M : Rat) (ha : m ≤ a ∧ a ≤ M) (hb : m ≤ b ∧ b ≤ M) : absR (b - a) ≤ M - m := by
  unfold absR; split <;> grind

theorem absDiffs_length (l : List Rat) : (absDiffs l).length = l.length - 1 := by
  induction l with
  | nil => simp [absDiffs]
  | cons a t ih =>
    cases t with
    | nil => simp [absDiffs]
    | cons b t' => simp [absDiffs] at ih ⊢; omega

theorem absDiffs_bounds (l : List Rat) (m M : Rat) (h : ∀ x ∈ l, m ≤ x ∧ x ≤ M) :
    ∀ d ∈ absDiffs l, 0 ≤ d ∧ d ≤ M - m := by
  induction l with
  | nil => simp [absDiffs]
  | cons a t ih =>
    cases t with
    | nil => simp [absDiffs]
    | cons b t' =>
      intro d hd
      simp only [absDiffs, List.mem_cons] at hd
      rcases hd with hd | hd
      · subst hd
        exact ⟨absR_nonneg _, absR_sub_le _ _ _ _ (h a (by simp)) (h b (by simp))⟩
      · exact ih (fun x hx => h x (by simp [hx])) d hd

theorem jitter_bounds (l : List Rat) (m M : Rat) (h : ∀ x ∈ l, m ≤ x ∧ x ≤ M) (hmM : m ≤ M) :
    0 ≤ calculateJitter l ∧ calculateJitter l ≤ M - m := by
  unfold calculateJitter
  split
  · constructor <;> grind
  · rename_i h2
    have hne : absDiffs l ≠ [] := by
      intro h0
      have := absDiffs_length l
      rw [h0] at this; simp at this; omega
    have hb := absDiffs_bounds l m M h
    have := avg_bounds (absDiffs l) 0 (M - m) hne (fun d hd => (hb d hd).1) (fun d hd => (hb d hd).2)
    rw [absDiffs_length] at this
    rw [foldl_add_rat0]
    exact this


/-! ## `normalizeE2eProbe` field by field -/

theorem validRTTs_eq (l : List Rat) : validRTTs l = positives l := rfl

theorem nE_empty (e : E2e) (h : e.rtts = []) : normalizeE2eProbe e = e := by
  unfold normalizeE2eProbe; simp [h]

theorem nE_rtts (e : E2e) : (normalizeE2eProbe e).rtts = e.rtts := by
  unfold normalizeE2eProbe
  split
  · rfl
  · simp only []
    split <;> rfl

theorem nE_sent (e : E2e) (h : e.rtts ≠ []) : (normalizeE2eProbe e).sent = e.rtts.length := by
  unfold normalizeE2eProbe
  split
  · rename_i h0; exact absurd (List.length_eq_zero_iff.mp h0) h
  · simp only []
    split <;> rfl

theorem nE_received (e : E2e) (h : e.rtts ≠ []) :
    (normalizeE2eProbe e).received = (validRTTs e.rtts).length := by
  unfold normalizeE2eProbe
  split
  · rename_i h0; exact absurd (List.length_eq_zero_iff.mp h0) h
  · simp only []
    split <;> rfl

theorem nE_loss (e : E2e) (h : e.rtts ≠ []) :
    (normalizeE2eProbe e).loss =
      ((e.rtts.length - (validRTTs e.rtts).length : Nat) : Rat) / (e.rtts.length : Rat) := by
  have hpos : e.rtts.length > 0 := List.length_pos_iff.mpr h
  unfold normalizeE2eProbe
  split
  · omega
  · simp only [hpos, if_true]
    split <;> rfl

theorem nE_jitter (e : E2e) (h : e.rtts ≠ []) :
    (normalizeE2eProbe e).jitter = calculateJitter (validRTTs e.rtts) := by
  unfold normalizeE2eProbe
  split
  · rename_i h0; exact absurd (List.length_eq_zero_iff.mp h0) h
  · rfl

theorem nE_stats_none (e : E2e) (h : e.rtts ≠ []) (hv : validRTTs e.rtts = []) :
    (normalizeE2eProbe e).avg = e.avg ∧ (normalizeE2eProbe e).min = e.min ∧
    (normalizeE2eProbe e).max = e.max := by
  unfold normalizeE2eProbe
  split
  · rename_i h0; exact absurd (List.length_eq_zero_iff.mp h0) h
  · simp [hv]

theorem nE_stats_some (e : E2e) (h : e.rtts ≠ []) (v0 : Rat) (t : List Rat)
    (hv : validRTTs e.rtts = v0 :: t) :
    (normalizeE2eProbe e).avg = (v0 :: t).foldl (· + ·) 0 / ((v0 :: t).length : Rat) ∧
    (normalizeE2eProbe e).min = (v0 :: t).foldl stepMinR v0 ∧
    (normalizeE2eProbe e).max = (v0 :: t).foldl stepMaxR v0 := by
  unfold normalizeE2eProbe
  split
  · rename_i h0; exact absurd (List.length_eq_zero_iff.mp h0) h
  · simp [hv]


/-! ## `normalizeE2eProbe`: packets, order, jitter -/

theorem natCast_sub_le (a b : Nat) (h : b ≤ a) : ((a - b : Nat) : Rat) = (a : Rat) - (b : Rat) := by
  have : a = (a - b) + b := by omega
  have h2 : (a : Rat) = ((a - b : Nat) : Rat) + (b : Rat) := by
    rw [← Rat.natCast_add, ← this]
  rw [h2]; grind

theorem packets_nonempty (e : E2e) (h : e.rtts ≠ []) : PacketsOK (normalizeE2eProbe e) := by
  have hpos : 0 < e.rtts.length := List.length_pos_iff.mpr h
  have hle : (validRTTs e.rtts).length ≤ e.rtts.length := List.length_filter_le _ _
  refine ⟨?_, ?_, ?_, ?_⟩
  · unfold SentOK; rw [nE_sent e h, nE_rtts]
  · unfold ReceivedOK; rw [nE_received e h, nE_rtts]; rfl
  · rw [nE_sent e h]; omega
  · intro _
    rw [nE_loss e h, nE_sent e h, nE_received e h, natCast_sub_le _ _ hle]

theorem packets_fresh (e : E2e) (hf : FreshE2e e) : PacketsOK (normalizeE2eProbe e) := by
  by_cases h : e.rtts = []
  · rw [nE_empty e h]
    obtain ⟨h1, h2, h3, _⟩ := hf
    refine ⟨?_, ?_, ?_, ?_⟩
    · unfold SentOK; rw [h1, h]; rfl
    · unfold ReceivedOK; rw [h2, h]; rfl
    · intro _; exact h3
    · intro hs; exact absurd h1 hs
  · exact packets_nonempty e h

theorem rtt_some (e : E2e) (h : positives e.rtts ≠ []) :
    RttOrder (normalizeE2eProbe e) ∧ RttExtremes (normalizeE2eProbe e) ∧ RttMean (normalizeE2eProbe e) := by
  have hne : e.rtts ≠ [] := by intro h0; apply h; simp [h0, positives]
  cases hv : validRTTs e.rtts with
  | nil => rw [validRTTs_eq] at hv; exact absurd hv h
  | cons v0 t =>
    obtain ⟨ha, hmn, hmx⟩ := nE_stats_some e hne v0 t hv
    have hmin := min_fold_spec v0 t
    have hmax := max_fold_spec v0 t
    have hp : positives e.rtts = v0 :: t := by rw [← validRTTs_eq]; exact hv
    have hab := avg_bounds (v0 :: t) _ _ (by simp) hmin.2 hmax.2
    rw [foldl_add_rat0] at ha
    refine ⟨⟨?_, ?_⟩, ?_, ?_⟩
    · rw [hmn, ha]; exact hab.1
    · rw [hmx, ha]; exact hab.2
    · intro _
      rw [nE_rtts, hp, hmn, hmx]
      exact ⟨hmin.1, hmin.2, hmax.1, hmax.2⟩
    · intro _
      rw [nE_rtts, hp, ha]
      have hpos : (0 : Rat) < ((v0 :: t).length : Rat) := Rat.natCast_pos.mpr (by simp)
      have := mul_div_cancel (v0 :: t).sum ((v0 :: t).length : Rat) hpos
      grind

theorem jitter_some (e : E2e) (h : positives e.rtts ≠ []) : JitterBounds (normalizeE2eProbe e) := by
  have hne : e.rtts ≠ [] := by intro h0; apply h; simp [h0, positives]
  obtain ⟨_, hext, _⟩ := rtt_some e h
  have hx := hext (by rw [nE_rtts]; exact h)
  rw [nE_rtts] at hx
  obtain ⟨h1, h2, h3, h4⟩ := hx
  unfold JitterBounds
  rw [nE_jitter e hne, validRTTs_eq]
  exact jitter_bounds _ _ _ (fun x hx => ⟨h2 x hx, h4 x hx⟩) (h2 _ h3)

theorem calculateJitter_nil : calculateJitter [] = 0 := by simp [calculateJitter]

theorem rtt_jitter_fresh (e : E2e) (hf : FreshE2e e) :
    RttOrder (normalizeE2eProbe e) ∧ JitterBounds (normalizeE2eProbe e) := by
  by_cases hp : positives e.rtts = []
  · obtain ⟨_, _, _, h4, h5, h6, h7⟩ := hf
    by_cases h : e.rtts = []
    · rw [nE_empty e h]
      unfold RttOrder JitterBounds
      rw [h4, h5, h6, h7]; grind
    · obtain ⟨ha, hmn, hmx⟩ := nE_stats_none e h (by rw [validRTTs_eq]; exact hp)
      unfold RttOrder JitterBounds
      rw [nE_jitter e h, validRTTs_eq, hp, calculateJitter_nil, ha, hmn, hmx, h5, h6, h7]; grind
  · exact ⟨(rtt_some e hp).1, jitter_some e hp⟩

/-! ## permutations of the samples -/

theorem perm_sum {l₁ l₂ : List Rat} (p : l₁.Perm l₂) : l₁.sum = l₂.sum := by
  induction p with
  | nil => rfl
  | cons x _ ih => simp [ih]
  | swap x y l => simp only [List.sum_cons]; grind
  | trans _ _ ih1 ih2 => rw [ih1, ih2]

/-- least element is unique -/
theorem least_unique (l₁ l₂ : List Rat) (hmem : ∀ x, x ∈ l₁ ↔ x ∈ l₂) (a b : Rat)
    (ha : a ∈ l₁ ∧ ∀ x ∈ l₁, a ≤ x) (hb : b ∈ l₂ ∧ ∀ x ∈ l₂, b ≤ x) : a = b :=
  Rat.le_antisymm (ha.2 b ((hmem b).mpr hb.1)) (hb.2 a ((hmem a).mp ha.1))

theorem greatest_unique (l₁ l₂ : List Rat) (hmem : ∀ x, x ∈ l₁ ↔ x ∈ l₂) (a b : Rat)
    (ha : a ∈ l₁ ∧ ∀ x ∈ l₁, x ≤ a) (hb : b ∈ l₂ ∧ ∀ x ∈ l₂, x ≤ b) : a = b :=
  Rat.le_antisymm (hb.2 a ((hmem a).mp ha.1)) (ha.2 b ((hmem b).mpr hb.1))

theorem perm_invariant (e₁ e₂ : E2e) (p : e₁.rtts.Perm e₂.rtts)
    (hprior : e₁.sent = e₂.sent ∧ e₁.received = e₂.received ∧ e₁.loss = e₂.loss ∧
      e₁.avg = e₂.avg ∧ e₁.min = e₂.min ∧ e₁.max = e₂.max) :
    let n₁ := normalizeE2eProbe e₁
    let n₂ := normalizeE2eProbe e₂
    n₁.sent = n₂.sent ∧ n₁.received = n₂.received ∧ n₁.loss = n₂.loss ∧
    n₁.min = n₂.min ∧ n₁.avg = n₂.avg ∧ n₁.max = n₂.max := by
  intro n₁ n₂
  obtain ⟨q1, q2, q3, q4, q5, q6⟩ := hprior
  by_cases h1 : e₁.rtts = []
  · have h2 : e₂.rtts = [] := by rw [h1] at p; exact List.nil_perm.mp p |>.symm ▸ rfl
    simp only [n₁, n₂, nE_empty e₁ h1, nE_empty e₂ h2]
    exact ⟨q1, q2, q3, q5, q4, q6⟩
  · have h2 : e₂.rtts ≠ [] := by
      intro h0; rw [h0] at p; exact h1 (List.perm_nil.mp p)
    have plen := p.length_eq
    have pv : (validRTTs e₁.rtts).Perm (validRTTs e₂.rtts) := p.filter _
    have pvlen := pv.length_eq
    refine ⟨?_, ?_, ?_, ?_⟩
    · simp only [n₁, n₂]; rw [nE_sent e₁ h1, nE_sent e₂ h2, plen]
    · simp only [n₁, n₂]; rw [nE_received e₁ h1, nE_received e₂ h2, pvlen]
    · simp only [n₁, n₂]; rw [nE_loss e₁ h1, nE_loss e₂ h2, plen, pvlen]
    · cases hv1 : validRTTs e₁.rtts with
      | nil =>
        have hv2 : validRTTs e₂.rtts = [] := by rw [hv1] at pv; exact List.nil_perm.mp pv
        obtain ⟨a1, b1, c1⟩ := nE_stats_none e₁ h1 hv1
        obtain ⟨a2, b2, c2⟩ := nE_stats_none e₂ h2 hv2
        simp only [n₁, n₂]
        rw [a1, b1, c1, a2, b2, c2]; exact ⟨q5, q4, q6⟩
      | cons v0 t =>
        cases hv2 : validRTTs e₂.rtts with
        | nil => rw [hv1, hv2] at pv; exact absurd (List.perm_nil.mp pv) (by simp)
        | cons w0 u =>
          obtain ⟨a1, b1, c1⟩ := nE_stats_some e₁ h1 v0 t hv1
          obtain ⟨a2, b2, c2⟩ := nE_stats_some e₂ h2 w0 u hv2
          rw [hv1, hv2] at pv
          have hmem : ∀ x, x ∈ v0 :: t ↔ x ∈ w0 :: u := fun x => pv.mem_iff
          simp only [n₁, n₂]
          refine ⟨?_, ?_, ?_⟩
          · rw [b1, b2]
            exact least_unique _ _ hmem _ _ (min_fold_spec v0 t) (min_fold_spec w0 u)
          · rw [a1, a2, foldl_add_rat0, foldl_add_rat0, perm_sum pv, pv.length_eq]
          · rw [c1, c2]
            exact greatest_unique _ _ hmem _ _ (max_fold_spec v0 t) (max_fold_spec w0 u)


/-! ## the document passes -/

theorem assignRunIds_length (rs : List Run) (ds : List Nat) : (assignRunIds rs ds).length = rs.length := by
  induction rs generalizing ds with
  | nil => simp [assignRunIds]
  | cons r t ih => cases ds <;> simp [assignRunIds, ih]

theorem assignRunIds_hops (rs : List Run) (ds : List Nat) :
    (assignRunIds rs ds).map (·.hops) = rs.map (·.hops) := by
  induction rs generalizing ds with
  | nil => simp [assignRunIds]
  | cons r t ih => cases ds <;> simp [assignRunIds, ih]

theorem normalizeHopsCount_runs (d : Doc) : (normalizeHopsCount d).runs = d.runs := by
  unfold normalizeHopsCount; split <;> rfl

theorem normalizeHopsCount_e2e (d : Doc) : (normalizeHopsCount d).e2e = d.e2e := by
  unfold normalizeHopsCount; split <;> rfl

theorem normalize_runs (draws : List Nat) (d : Doc) :
    (normalize draws d).runs =
      (assignRunIds d.runs draws.tail).map fun r => { r with hops := r.hops.map normalizeHop } := by
  simp [normalize, normalizeE2e, normalizeHopsCount_runs, normalizeHops, assignIds]

theorem normalize_e2e (draws : List Nat) (d : Doc) :
    (normalize draws d).e2e = normalizeE2eProbe d.e2e := by
  simp [normalize, normalizeE2e, normalizeHopsCount_e2e, normalizeHops, assignIds]

/-- the hop lists of the runs, in order -/
def runsHops (rs : List Run) : List (List Hop) := rs.map (·.hops)

theorem normalize_runsHops (draws : List Nat) (d : Doc) :
    runsHops (normalize draws d).runs = (runsHops d.runs).map (·.map normalizeHop) := by
  rw [normalize_runs]
  unfold runsHops
  rw [← assignRunIds_hops d.runs draws.tail]
  simp [List.map_map, Function.comp_def]

theorem normalize_runs_length (draws : List Nat) (d : Doc) :
    (normalize draws d).runs.length = d.runs.length := by
  rw [normalize_runs]; simp [assignRunIds_length]

theorem normalize_hopCount_empty (draws : List Nat) (d : Doc) (h : d.runs = []) :
    (normalize draws d).hopCount = d.hopCount := by
  simp [normalize, normalizeE2e, normalizeHopsCount, normalizeHops, assignIds, h, assignRunIds]

theorem normalize_hopCount (draws : List Nat) (d : Doc) (h : d.runs ≠ []) :
    (normalize draws d).hopCount =
      let cs := hopCounts (normalize draws d).runs
      { avg := (hopsTotal cs : Rat) / (cs.length : Rat), min := hopsMin cs, max := hopsMax cs } := by
  have hl : (normalizeHops (assignIds draws d)).runs.length ≠ 0 := by
    simp [normalizeHops, assignIds, assignRunIds_length]; exact h
  have hr : (normalize draws d).runs = (normalizeHops (assignIds draws d)).runs := by
    simp [normalize, normalizeE2e, normalizeHopsCount_runs]
  rw [hr]
  simp only [normalize, normalizeE2e, normalizeHopsCount, hl, if_false]

/-! ## reachable ⇔ address -/

theorem normalizeHop_ip (h : Hop) : (normalizeHop h).ip = h.ip := by
  unfold normalizeHop; split <;> rfl

theorem normalizeHop_ttl (h : Hop) : (normalizeHop h).ttl = h.ttl := by
  unfold normalizeHop; split <;> rfl

theorem normalizeHop_reachable (h : Hop) :
    (normalizeHop h).reachable = (h.reachable || hasAddrGo h.ip) := by
  unfold normalizeHop; split <;> simp_all

theorem mem_runsHops {rs : List Run} {r : Run} (h : r ∈ rs) : r.hops ∈ runsHops rs :=
  List.mem_map_of_mem h

theorem reachable_iff_addr (draws : List Nat) (d : Doc)
    (hfresh : FreshHops d) :
    ReachableIffAddr (normalize draws d) := by
  intro r hr h hh
  have hm := mem_runsHops hr
  rw [normalize_runsHops] at hm
  simp only [runsHops, List.mem_map] at hm
  obtain ⟨hs, ⟨r0, hr0, rfl⟩, hs2⟩ := hm
  rw [← hs2] at hh
  obtain ⟨h0, hh0, rfl⟩ := List.mem_map.mp hh
  have hf := hfresh r0 hr0 h0 hh0
  unfold HasAddr
  rw [normalizeHop_reachable, normalizeHop_ip, hf, Bool.false_or]
  exact hasAddrGo_iff _

/-! ## hop-count statistics -/

theorem hopsMin_spec (cs : List Nat) (hne : cs ≠ []) (hpos : ∀ c ∈ cs, 1 ≤ c) :
    hopsMin cs ∈ cs ∧ ∀ c ∈ cs, hopsMin cs ≤ c := by
  cases cs with
  | nil => exact absurd rfl hne
  | cons c t =>
    have hc : 1 ≤ c := hpos c (by simp)
    have hs : stepMin 0 c = c := by unfold stepMin; simp
    obtain ⟨h1, h2, h3⟩ := foldl_stepMin t c (fun x hx => hpos x (by simp [hx]))
    have h2' := h2 (by omega)
    unfold hopsMin
    simp only [List.foldl_cons, hs, List.mem_cons, forall_eq_or_imp]
    refine ⟨?_, h2'.1, h1⟩
    rcases h3 with h3 | h3
    · left; exact h3
    · right; exact h3

theorem hopsMax_spec (cs : List Nat) (hne : cs ≠ []) :
    hopsMax cs ∈ cs ∧ ∀ c ∈ cs, c ≤ hopsMax cs := by
  cases cs with
  | nil => exact absurd rfl hne
  | cons c t =>
    have hs : stepMax 0 c = c := by unfold stepMax; split <;> omega
    obtain ⟨h1, h2, h3⟩ := foldl_stepMax t c
    unfold hopsMax
    simp only [List.foldl_cons, hs, List.mem_cons, forall_eq_or_imp]
    refine ⟨?_, h2, h1⟩
    rcases h3 with h3 | h3
    · left; exact h3
    · right; exact h3

theorem longestRun_ge {rs : List Run} {r : Run} (h : r ∈ rs) : r.hops.length ≤ longestRun rs := by
  induction rs with
  | nil => simp at h
  | cons a t ih =>
    simp only [List.mem_cons] at h
    unfold longestRun
    rcases h with h | h
    · subst h; omega
    · have := ih h; omega

theorem longestRun_congr (rs rs' : List Run)
    (h : (runsHops rs).map List.length = (runsHops rs').map List.length) :
    longestRun rs = longestRun rs' := by
  induction rs generalizing rs' with
  | nil => cases rs' <;> simp_all [runsHops, longestRun]
  | cons a t ih =>
    cases rs' with
    | nil => simp [runsHops] at h
    | cons b u =>
      simp only [runsHops, List.map_cons, List.cons.injEq] at h
      unfold longestRun
      rw [ih u (by simpa [runsHops] using h.2), h.1]

theorem normalize_longestRun (draws : List Nat) (d : Doc) :
    longestRun (normalize draws d).runs = longestRun d.runs := by
  apply longestRun_congr
  rw [normalize_runsHops]
  simp [List.map_map, Function.comp_def]

theorem hopCounts_bounds (rs : List Run) (h1 : ∀ r ∈ rs, r.hops ≠ []) :
    ∀ c ∈ hopCounts rs, 1 ≤ c ∧ c ≤ longestRun rs := by
  intro c hc
  obtain ⟨r, hr, rfl⟩ := List.mem_map.mp hc
  exact ⟨hopCountOf_pos _ (h1 r hr), Nat.le_trans (hopCountOf_le _) (longestRun_ge hr)⟩

/-- the statistics computed by the `hopsMin == 0` loop, for counts that are all ≥ 1 -/
theorem hop_stats (cs : List Nat) (hne : cs ≠ []) (hpos : ∀ c ∈ cs, 1 ≤ c) :
    1 ≤ hopsMin cs ∧ (hopsMin cs : Rat) ≤ (hopsTotal cs : Rat) / (cs.length : Rat) ∧
    (hopsTotal cs : Rat) / (cs.length : Rat) ≤ (hopsMax cs : Rat) ∧ hopsMax cs ∈ cs := by
  obtain ⟨m1, m2⟩ := hopsMin_spec cs hne hpos
  obtain ⟨x1, x2⟩ := hopsMax_spec cs hne
  have ht : hopsTotal cs = cs.sum := by unfold hopsTotal; rw [foldl_add_nat]; omega
  have hab := avg_bounds (cs.map (fun (c : Nat) => (c : Rat))) (hopsMin cs : Rat) (hopsMax cs : Rat)
    (by simpa using hne)
    (by intro x hx; obtain ⟨c, hc, rfl⟩ := List.mem_map.mp hx; exact Rat.natCast_le_natCast.mpr (m2 c hc))
    (by intro x hx; obtain ⟨c, hc, rfl⟩ := List.mem_map.mp hx; exact Rat.natCast_le_natCast.mpr (x2 c hc))
  rw [← natCast_sum, List.length_map] at hab
  rw [ht]
  exact ⟨hpos _ m1, hab.1, hab.2, x1⟩

theorem hopcount_bounds (draws : List Nat) (d : Doc) (hne : d.runs ≠ [])
    (h1 : ∀ r ∈ d.runs, r.hops ≠ []) :
    let o := normalize draws d
    1 ≤ o.hopCount.min ∧ (o.hopCount.min : Rat) ≤ o.hopCount.avg ∧
    o.hopCount.avg ≤ (o.hopCount.max : Rat) ∧ o.hopCount.max ≤ longestRun o.runs := by
  intro o
  have hone : ∀ r ∈ o.runs, r.hops ≠ [] := by
    intro r hr
    have hm := mem_runsHops hr
    simp only [o] at hm
    rw [normalize_runsHops] at hm
    simp only [runsHops, List.mem_map] at hm
    obtain ⟨hs, ⟨r0, hr0, rfl⟩, hs2⟩ := hm
    have := h1 r0 hr0
    rw [← hs2]; simpa using this
  have hb := hopCounts_bounds o.runs hone
  have hcne : hopCounts o.runs ≠ [] := by
    have : o.runs ≠ [] := by
      intro h0
      have := normalize_runs_length draws d
      simp only [o] at h0
      rw [h0] at this
      exact hne (List.length_eq_zero_iff.mp this.symm)
    simpa [hopCounts] using this
  obtain ⟨s1, s2, s3, s4⟩ := hop_stats (hopCounts o.runs) hcne (fun c hc => (hb c hc).1)
  have hc := normalize_hopCount draws d hne
  simp only [o]
  rw [hc]
  exact ⟨s1, s2, s3, (hb _ s4).2⟩


/-! ## `IsPrivate` = the numeric ranges -/

theorem len4 {α} {l : List α} (h : l.length = 4) : ∃ a b c d, l = [a, b, c, d] := by
  match l, h with
  | [a, b, c, d], _ => exact ⟨a, b, c, d, rfl⟩

theorem len16 {α} {l : List α} (h : l.length = 16) :
    ∃ a0 a1 a2 a3 a4 a5 a6 a7 a8 a9 a10 a11 a12 a13 a14 a15,
      l = [a0, a1, a2, a3, a4, a5, a6, a7, a8, a9, a10, a11, a12, a13, a14, a15] := by
  match l, h with
  | [a0, a1, a2, a3, a4, a5, a6, a7, a8, a9, a10, a11, a12, a13, a14, a15], _ =>
    exact ⟨a0, a1, a2, a3, a4, a5, a6, a7, a8, a9, a10, a11, a12, a13, a14, a15, rfl⟩

set_option maxRecDepth 8192 in
/-- `b & 0xf0 == 16` is `16 ≤ b ≤ 31`; `b & 0xfe == 0xfc` is `252 ≤ b ≤ 253` -/
theorem mask_nat : ∀ n, n < 256 →
    ((n &&& 240 = 16) ↔ (16 ≤ n ∧ n ≤ 31)) ∧ ((n &&& 254 = 252) ↔ (252 ≤ n ∧ n ≤ 253)) := by
  decide

theorem mask_f0 (b : Byte) : (b &&& 0xf0 == 16) = decide (16 ≤ b.toNat ∧ b.toNat ≤ 31) := by
  have h := (mask_nat b.toNat b.isLt).1
  have e : (b &&& 0xf0 == (16 : Byte)) = decide (b.toNat &&& 240 = 16) := by
    rw [show (b &&& 0xf0 == (16 : Byte)) = decide (b &&& 0xf0 = (16 : Byte)) from rfl]
    congr 1
    rw [← BitVec.toNat_inj, BitVec.toNat_and]; rfl
  rw [e]; exact decide_eq_decide.mpr h

theorem mask_fe (b : Byte) : (b &&& 0xfe == 0xfc) = decide (252 ≤ b.toNat ∧ b.toNat ≤ 253) := by
  have h := (mask_nat b.toNat b.isLt).2
  have e : (b &&& 0xfe == (0xfc : Byte)) = decide (b.toNat &&& 254 = 252) := by
    rw [show (b &&& 0xfe == (0xfc : Byte)) = decide (b &&& 0xfe = (0xfc : Byte)) from rfl]
    congr 1
    rw [← BitVec.toNat_inj, BitVec.toNat_and]; rfl
  rw [e]; exact decide_eq_decide.mpr h

theorem byte_eq (b : Byte) (n : Nat) (hn : n < 256) : (b == BitVec.ofNat 8 n) = decide (b.toNat = n) := by
  rw [show (b == BitVec.ofNat 8 n) = decide (b = BitVec.ofNat 8 n) from rfl]
  congr 1
  rw [← BitVec.toNat_inj, BitVec.toNat_ofNat, Nat.mod_eq_of_lt hn]


theorem beq10 (b : Byte) : (b == 10) = decide (b.toNat = 10) := byte_eq b 10 (by omega)
theorem beq172 (b : Byte) : (b == 172) = decide (b.toNat = 172) := byte_eq b 172 (by omega)
theorem beq192 (b : Byte) : (b == 192) = decide (b.toNat = 192) := byte_eq b 192 (by omega)
theorem beq168 (b : Byte) : (b == 168) = decide (b.toNat = 168) := byte_eq b 168 (by omega)
theorem beq0 (b : Byte) : (b == 0) = decide (b.toNat = 0) := byte_eq b 0 (by omega)
theorem eq255 (b : Byte) : (b = 0xff) ↔ b.toNat = 255 := by
  rw [← BitVec.toNat_inj]; rfl

/-- the private test on the four bytes of an IPv4 address, numerically -/
theorem v4_core (a b c d : Byte) :
    ((a == 10 || (a == 172 && b &&& 0xf0 == 16) || (a == 192 && b == 168)) = true) ↔
    (let v := (((0 * 256 + a.toNat) * 256 + b.toNat) * 256 + c.toNat) * 256 + d.toNat
     (0x0A000000 ≤ v ∧ v ≤ 0x0AFFFFFF) ∨ (0xAC100000 ≤ v ∧ v ≤ 0xAC1FFFFF) ∨
     (0xC0A80000 ≤ v ∧ v ≤ 0xC0A8FFFF)) := by
  have ha := a.isLt; have hb := b.isLt; have hc := c.isLt; have hd := d.isLt
  simp only [Bool.or_eq_true, Bool.and_eq_true, mask_f0, beq10, beq172, beq192, beq168, decide_eq_true_eq]
  omega

theorem isPrivate_v4 (a b c d : Byte) :
    isPrivate [a, b, c, d] = true ↔ PrivateRange [a, b, c, d] := by
  have h := v4_core a b c d
  simp only [isPrivate, to4, at', PrivateRange, v4Value, beNat, List.length_cons, List.length_nil,
    List.foldl_cons, List.foldl_nil, if_true, List.getElem?_cons_zero, List.getElem?_cons_succ,
    Option.getD_some]
  exact h

/-- `To4`'s test for the IPv4-mapped form is "the top 96 bits are 0x0000…ffff" -/
theorem mapped_iff (a0 a1 a2 a3 a4 a5 a6 a7 a8 a9 a10 a11 : Byte) :
    (isZeros [a0, a1, a2, a3, a4, a5, a6, a7, a8, a9] = true ∧ a10 = 0xff ∧ a11 = 0xff) ↔
    beNat [a0, a1, a2, a3, a4, a5, a6, a7, a8, a9, a10, a11] = 0xffff := by
  have := a0.isLt; have := a1.isLt; have := a2.isLt; have := a3.isLt; have := a4.isLt
  have := a5.isLt; have := a6.isLt; have := a7.isLt; have := a8.isLt; have := a9.isLt
  have := a10.isLt; have := a11.isLt
  simp only [isZeros, List.all_cons, List.all_nil, Bool.and_true, Bool.and_eq_true, beq0,
    decide_eq_true_eq, eq255, beNat, List.foldl_cons, List.foldl_nil]
  omega

theorem isPrivate_v16 (a0 a1 a2 a3 a4 a5 a6 a7 a8 a9 a10 a11 a12 a13 a14 a15 : Byte) :
    isPrivate [a0, a1, a2, a3, a4, a5, a6, a7, a8, a9, a10, a11, a12, a13, a14, a15] = true ↔
    PrivateRange [a0, a1, a2, a3, a4, a5, a6, a7, a8, a9, a10, a11, a12, a13, a14, a15] := by
  have hm := mapped_iff a0 a1 a2 a3 a4 a5 a6 a7 a8 a9 a10 a11
  by_cases hmap : beNat [a0, a1, a2, a3, a4, a5, a6, a7, a8, a9, a10, a11] = 0xffff
  · have hz := hm.mpr hmap
    have h := v4_core a12 a13 a14 a15
    have hto4 : to4 [a0, a1, a2, a3, a4, a5, a6, a7, a8, a9, a10, a11, a12, a13, a14, a15] =
        some [a12, a13, a14, a15] := by
      simp only [to4, List.length_cons, List.length_nil, List.take, List.drop, List.getElem?_cons_zero,
        List.getElem?_cons_succ, Option.some.injEq]
      simp [hz]
    have hv : v4Value [a0, a1, a2, a3, a4, a5, a6, a7, a8, a9, a10, a11, a12, a13, a14, a15] =
        some (beNat [a12, a13, a14, a15]) := by
      simp only [v4Value, List.length_cons, List.length_nil, List.take, List.drop]
      simp [hmap]
    simp only [isPrivate, hto4, PrivateRange, hv, at', List.getElem?_cons_zero, List.getElem?_cons_succ,
      Option.getD_some, beNat, List.foldl_cons, List.foldl_nil]
    exact h
  · have hz : ¬ (isZeros [a0, a1, a2, a3, a4, a5, a6, a7, a8, a9] = true ∧ a10 = 0xff ∧ a11 = 0xff) :=
      fun h => hmap (hm.mp h)
    have := a0.isLt; have := a1.isLt; have := a2.isLt; have := a3.isLt; have := a4.isLt
    have := a5.isLt; have := a6.isLt; have := a7.isLt; have := a8.isLt; have := a9.isLt
    have := a10.isLt; have := a11.isLt; have := a12.isLt; have := a13.isLt; have := a14.isLt
    have := a15.isLt
    have hto4 : to4 [a0, a1, a2, a3, a4, a5, a6, a7, a8, a9, a10, a11, a12, a13, a14, a15] = none := by
      simp only [to4, List.length_cons, List.length_nil, List.take, List.getElem?_cons_zero,
        List.getElem?_cons_succ, Option.some.injEq]
      rw [if_neg (by omega), if_neg (by simpa using hz)]
    have hv : v4Value [a0, a1, a2, a3, a4, a5, a6, a7, a8, a9, a10, a11, a12, a13, a14, a15] = none := by
      simp only [v4Value, List.length_cons, List.length_nil, List.take]
      simp [hmap]
    simp only [isPrivate, hto4, PrivateRange, hv, at', List.length_cons, List.length_nil,
      List.getElem?_cons_zero, Option.getD_some, mask_fe, Bool.and_eq_true, decide_eq_true_eq,
      beNat, List.foldl_cons, List.foldl_nil]
    simp only [beq_self_eq_true, true_and]
    omega

theorem isPrivate_iff_range (ip : Bytes) : isPrivate ip = true ↔ PrivateRange ip := by
  by_cases h4 : ip.length = 4
  · obtain ⟨a, b, c, d, rfl⟩ := len4 h4
    exact isPrivate_v4 a b c d
  · by_cases h16 : ip.length = 16
    · obtain ⟨a0, a1, a2, a3, a4, a5, a6, a7, a8, a9, a10, a11, a12, a13, a14, a15, rfl⟩ := len16 h16
      exact isPrivate_v16 ..
    · simp [isPrivate, to4, PrivateRange, v4Value, h4, h16]

/-! ## identifiers -/

theorem assignRunIds_ids (rs : List Run) (ds : List Nat) (h : rs.length ≤ ds.length) :
    (assignRunIds rs ds).map (·.runId) = ds.take rs.length := by
  induction rs generalizing ds with
  | nil => simp [assignRunIds]
  | cons r t ih =>
    cases ds with
    | nil => simp at h
    | cons x xs =>
      simp only [List.length_cons, Nat.add_le_add_iff_right] at h
      simp [assignRunIds, ih xs h]

theorem ids_distinct (draws : List Nat) (d : Doc) (hnd : draws.Nodup)
    (hlen : d.runs.length + 1 ≤ draws.length) : IdsDistinct (normalize draws d) := by
  unfold IdsDistinct
  cases draws with
  | nil => simp at hlen
  | cons a tl =>
    simp only [List.length_cons, Nat.add_le_add_iff_right] at hlen
    have h1 : (normalize (a :: tl) d).testRunId = a := by
      simp [normalize, normalizeE2e, normalizeHopsCount, normalizeHops, assignIds]
      split <;> rfl
    have h2 : (normalize (a :: tl) d).runs.map (·.runId) = tl.take d.runs.length := by
      rw [normalize_runs]
      simp only [List.tail_cons, List.map_map, Function.comp_def]
      exact assignRunIds_ids d.runs tl hlen
    rw [h1, h2]
    exact List.Nodup.sublist (List.Sublist.cons_cons a (List.take_sublist _ _)) hnd

/-! ## redaction -/

theorem not_private_nil : ¬ PrivateRange [] := by
  rw [← isPrivate_iff_range]; decide

theorem redactHop_spec (h : Hop) : RedactedHop h (redactHop h) := by
  unfold RedactedHop redactHop
  by_cases hp : isPrivate h.ip = true
  · have hr := (isPrivate_iff_range h.ip).mp hp
    rw [if_pos hp]
    exact ⟨rfl, fun _ => rfl, fun hn => absurd hr hn, not_private_nil⟩
  · have hr : ¬ PrivateRange h.ip := fun x => hp ((isPrivate_iff_range h.ip).mpr x)
    rw [if_neg hp]
    exact ⟨rfl, fun x => absurd x hr, fun _ => rfl, hr⟩

theorem redactedHops_map (hs : List Hop) : RedactedHops hs (hs.map redactHop) := by
  induction hs with
  | nil => trivial
  | cons h t ih => exact ⟨redactHop_spec h, ih⟩

theorem redactedRuns_map (rs : List Run) :
    RedactedRuns rs (rs.map fun r => { r with hops := r.hops.map redactHop }) := by
  induction rs with
  | nil => trivial
  | cons r t ih => exact ⟨redactedHops_map r.hops, rfl, ih⟩

theorem redacted (d : Doc) : Redacted d (removePrivate d) :=
  ⟨redactedRuns_map d.runs, rfl⟩

/-! ## positions -/

/-- the hop at run `i`, position `j` -/
def hopAtL (L : List (List Hop)) (i j : Nat) : Option Hop := (L[i]?).bind (·[j]?)
def hopAt (d : Doc) (i j : Nat) : Option Hop := hopAtL (runsHops d.runs) i j

theorem hopAtL_map (L : List (List Hop)) (f : Hop → Hop) (i j : Nat) :
    hopAtL (L.map (·.map f)) i j = (hopAtL L i j).map f := by
  unfold hopAtL
  cases h : L[i]? with
  | none => simp [h]
  | some hs => simp [h]

theorem runsHops_removePrivate (d : Doc) :
    runsHops (removePrivate d).runs = (runsHops d.runs).map (·.map redactHop) := by
  simp [runsHops, removePrivate, List.map_map, Function.comp_def]

/-- what `EnrichWithReverseDns` does to one hop -/
def enrichHop (res : Resolver) (h : Hop) : Hop := { h with names := lookupNames res h.ip }

theorem runsHops_enrich (res : Resolver) (d : Doc) :
    runsHops (enrich res d).runs = (runsHops d.runs).map (·.map (enrichHop res)) := by
  simp [runsHops, enrich, List.map_map, Function.comp_def, enrichHop]

theorem hopAt_removePrivate (d : Doc) (i j : Nat) :
    hopAt (removePrivate d) i j = (hopAt d i j).map redactHop := by
  unfold hopAt; rw [runsHops_removePrivate, hopAtL_map]

theorem hopAt_normalize (draws : List Nat) (d : Doc) (i j : Nat) :
    hopAt (normalize draws d) i j = (hopAt d i j).map normalizeHop := by
  unfold hopAt; rw [normalize_runsHops, hopAtL_map]

theorem hopAt_enrich (res : Resolver) (d : Doc) (i j : Nat) :
    hopAt (enrich res d) i j = (hopAt d i j).map (enrichHop res) := by
  unfold hopAt; rw [runsHops_enrich, hopAtL_map]

/-- redaction, position by position -/
theorem hopAt_redact (d : Doc) (i j : Nat) :
    (hopAt (removePrivate d) i j = none ↔ hopAt d i j = none) ∧
    ∀ h, hopAt d i j = some h → ∃ h', hopAt (removePrivate d) i j = some h' ∧ RedactedHop h h' := by
  rw [hopAt_removePrivate]
  constructor
  · simp
  · intro h hh; exact ⟨redactHop h, by simp [hh], redactHop_spec h⟩

/-- the hop the pipeline produces at a position before redaction -/
def preHop (rdns : Bool) (res : Resolver) (h : Hop) : Hop :=
  normalizeHop (if rdns then enrichHop res h else h)

theorem preHop_ip (rdns : Bool) (res : Resolver) (h : Hop) : (preHop rdns res h).ip = h.ip := by
  unfold preHop; rw [normalizeHop_ip]; cases rdns <;> simp [enrichHop]

theorem preHop_ttl (rdns : Bool) (res : Resolver) (h : Hop) : (preHop rdns res h).ttl = h.ttl := by
  unfold preHop; rw [normalizeHop_ttl]; cases rdns <;> simp [enrichHop]

theorem hopAt_pipeline_false (rdns : Bool) (res : Resolver) (draws : List Nat) (d : Doc) (i j : Nat) :
    hopAt (pipeline rdns false res draws d) i j = (hopAt d i j).map (preHop rdns res) := by
  cases rdns
  · have e : pipeline false false res draws d = normalize draws d := by simp [pipeline]
    rw [e, hopAt_normalize]; rfl
  · have e : pipeline true false res draws d = normalize draws (enrich res d) := by simp [pipeline]
    rw [e, hopAt_normalize, hopAt_enrich, Option.map_map]; rfl

theorem pipeline_true (rdns : Bool) (res : Resolver) (draws : List Nat) (d : Doc) :
    pipeline rdns true res draws d = removePrivate (pipeline rdns false res draws d) := by
  simp [pipeline]

theorem pipeline_no_derived (rdns : Bool) (res : Resolver) (draws : List Nat) (d : Doc) (i j : Nat) :
    let o := pipeline rdns true res draws d
    (hopAt o i j = none ↔ hopAt d i j = none) ∧
    ∀ h, hopAt d i j = some h →
      ∃ h', hopAt o i j = some h' ∧ h'.ttl = h.ttl ∧ ¬ PrivateRange h'.ip ∧
        (PrivateRange h.ip → h' = blank h.ttl) ∧
        (¬ PrivateRange h.ip → hopAt (pipeline rdns false res draws d) i j = some h') := by
  intro o
  simp only [o]
  rw [pipeline_true, hopAt_removePrivate, hopAt_pipeline_false]
  constructor
  · simp
  · intro h hh
    have hs := redactHop_spec (preHop rdns res h)
    unfold RedactedHop at hs
    rw [preHop_ip, preHop_ttl] at hs
    obtain ⟨s1, s2, s3, s4⟩ := hs
    refine ⟨redactHop (preHop rdns res h), by simp [hh], s1, s4, s2, ?_⟩
    intro hn
    rw [s3 hn]; simp [hh]


end TRV.Proofs.Result
