import TRV.Model.Drivers
namespace TRV.Proofs
open TRV TRV.Wire TRV.Drv

/-- all relative left edges `getMinSack` looks at -/
def allEdges (isn : Nat) (opts : List (Nat × Bytes)) : List Nat :=
  (opts.filter (·.1 = 5)).flatMap (fun o => sackEdges isn o.2.length o.2)

theorem foldl_min_le_init (es : List Nat) (e : Nat) : es.foldl Nat.min e ≤ e := by
  induction es generalizing e with
  | nil => exact Nat.le_refl _
  | cons x xs ih => exact Nat.le_trans (ih _) (Nat.min_le_left _ _)

theorem foldl_min_le_mem (es : List Nat) (e x : Nat) (hx : x ∈ es) : es.foldl Nat.min e ≤ x := by
  induction es generalizing e with
  | nil => cases hx
  | cons y ys ih =>
    rcases List.mem_cons.mp hx with h | h
    · subst h; exact Nat.le_trans (foldl_min_le_init ys _) (Nat.min_le_right _ _)
    · exact ih _ h

theorem foldl_min_mem (es : List Nat) (e : Nat) : es.foldl Nat.min e = e ∨ es.foldl Nat.min e ∈ es := by
  induction es generalizing e with
  | nil => exact Or.inl rfl
  | cons y ys ih =>
    rcases ih (Nat.min e y) with h | h
    · rcases Nat.le_total e y with hle | hle
      · left; simp only [List.foldl_cons]; rw [h]; exact Nat.min_eq_left hle
      · right; simp only [List.foldl_cons]; rw [h]
        have : e.min y = y := Nat.min_eq_right hle
        rw [this]; exact List.mem_cons_self
    · right; exact List.mem_cons_of_mem _ h

theorem minSack_least {isn : Nat} {opts : List (Nat × Bytes)} {m : Nat} (h : minSack isn opts = some m) :
    m ∈ allEdges isn opts ∧ ∀ e ∈ allEdges isn opts, m ≤ e := by
  unfold minSack at h
  simp only at h
  unfold allEdges
  generalize (opts.filter (·.1 = 5)).flatMap (fun o => sackEdges isn o.2.length o.2) = E at h ⊢
  cases E with
  | nil => simp at h
  | cons e es =>
    simp only [Option.some.injEq] at h
    subst h
    refine ⟨?_, ?_⟩
    · rcases foldl_min_mem es e with h | h
      · rw [h]; exact List.mem_cons_self
      · exact List.mem_cons_of_mem _ h
    · intro x hx
      rcases List.mem_cons.mp hx with h | h
      · subst h; exact foldl_min_le_init es _
      · exact foldl_min_le_mem es e x h

theorem minSack_none_iff {isn : Nat} {opts : List (Nat × Bytes)} :
    minSack isn opts = none ↔ allEdges isn opts = [] := by
  unfold minSack allEdges
  simp only
  generalize (opts.filter (·.1 = 5)).flatMap (fun o => sackEdges isn o.2.length o.2) = E
  cases E <;> simp
end TRV.Proofs

namespace TRV.Proofs
open TRV TRV.Wire TRV.Drv

theorem u32_drop (d : Bytes) (n off : Nat) : u32 (d.drop n) off = u32 d (n + off) := by
  simp only [u32, u16, u8, List.getElem?_drop, Nat.add_assoc]

def relEdge (isn l : Nat) : Nat := (l + 4294967296 - isn % 4294967296) % 4294967296

/-- the edges `sackEdges` yields are exactly the left edges of the complete 8-byte blocks -/
theorem sackEdges_mem (isn : Nat) (n : Nat) (d : Bytes) (e : Nat) :
    e ∈ sackEdges isn n d ↔ ∃ k l, k < n ∧ 8 * k + 8 ≤ d.length ∧ u32 d (8 * k) = some l ∧ e = relEdge isn l := by
  induction n generalizing d with
  | zero => simp [sackEdges]
  | succ n ih =>
    unfold sackEdges
    by_cases hlen : d.length < 8
    · simp only [hlen, if_true, List.not_mem_nil, false_iff]
      rintro ⟨k, l, _, hk, _⟩; omega
    · simp only [hlen, if_false]
      cases h0 : u32 d 0 with
      | none =>
        exfalso
        have : ∀ i, i < 8 → (d[i]?).isSome := fun i hi => by simp [List.getElem?_eq_getElem (show i < d.length by omega)]
        simp only [u32, u16, u8] at h0
        have a0 := this 0 (by omega); have a1 := this 1 (by omega); have a2 := this 2 (by omega); have a3 := this 3 (by omega)
        revert h0 a0 a1 a2 a3
        cases d[0]? <;> cases d[0+1]? <;> cases d[0+2]? <;> cases d[0+2+1]? <;> simp
      | some l0 =>
        simp only [List.mem_cons, ih (d.drop 8), List.length_drop, u32_drop]
        constructor
        · rintro (h | ⟨k, l, hk, hle, hu, he⟩)
          · exact ⟨0, l0, by omega, by omega, by simpa using h0, by simpa [relEdge] using h⟩
          · exact ⟨k+1, l, by omega, by omega, by rw [show 8 * (k+1) = 8 + 8 * k by omega]; exact hu, he⟩
        · rintro ⟨k, l, hk, hle, hu, he⟩
          cases k with
          | zero =>
            left
            have : l = l0 := by simpa [h0] using hu.symm
            subst this; simpa [relEdge] using he
          | succ k =>
            right
            exact ⟨k, l, by omega, by omega, by rw [show 8 + 8 * k = 8 * (k+1) by omega]; exact hu, he⟩
end TRV.Proofs

namespace TRV.Proofs
open TRV TRV.Wire TRV.Drv

theorem allEdges_mem (isn : Nat) (opts : List (Nat × Bytes)) (e : Nat) :
    e ∈ allEdges isn opts ↔ ∃ d k l, (5, d) ∈ opts ∧ 8 * k + 8 ≤ d.length ∧ u32 d (8 * k) = some l ∧ e = relEdge isn l := by
  unfold allEdges
  simp only [List.mem_flatMap, List.mem_filter, decide_eq_true_eq, sackEdges_mem]
  constructor
  · rintro ⟨⟨ty, d⟩, ⟨hm, hty⟩, k, l, _, hle, hu, he⟩
    simp only at hty; subst hty
    exact ⟨d, k, l, hm, hle, hu, he⟩
  · rintro ⟨d, k, l, hm, hle, hu, he⟩
    exact ⟨(5, d), ⟨hm, rfl⟩, k, l, by show k < d.length; omega, hle, hu, he⟩

/-- `getMinSack` returns the LEAST relative left edge over every complete block of every SACK option
    of the segment — any number of options and blocks, in any order, on either side of the 2^32 wrap -/
theorem minSack_is_least_block {isn : Nat} {opts : List (Nat × Bytes)} {m : Nat} (h : minSack isn opts = some m) :
    (∃ d k l, (5, d) ∈ opts ∧ 8 * k + 8 ≤ d.length ∧ u32 d (8 * k) = some l ∧ m = relEdge isn l) ∧
    (∀ d k l, (5, d) ∈ opts → 8 * k + 8 ≤ d.length → u32 d (8 * k) = some l → m ≤ relEdge isn l) := by
  obtain ⟨hm, hle⟩ := minSack_least h
  refine ⟨(allEdges_mem isn opts m).mp hm, ?_⟩
  intro d k l h1 h2 h3
  exact hle _ ((allEdges_mem isn opts _).mpr ⟨d, k, l, h1, h2, h3, rfl⟩)

/-- and it reports "no SACK" exactly when no SACK option carries a complete block -/
theorem minSack_none_iff_no_block {isn : Nat} {opts : List (Nat × Bytes)} :
    minSack isn opts = none ↔ ∀ d, (5, d) ∈ opts → d.length < 8 := by
  rw [minSack_none_iff]
  constructor
  · intro h d hd
    by_cases hl : d.length < 8
    · exact hl
    · exfalso
      have : (d[0]?).isSome ∧ (d[1]?).isSome ∧ (d[2]?).isSome ∧ (d[3]?).isSome := by
        refine ⟨?_, ?_, ?_, ?_⟩ <;> simp <;> omega
      obtain ⟨a0, a1, a2, a3⟩ := this
      have : ∃ l, u32 d (8 * 0) = some l := by
        simp only [u32, u16, u8]
        revert a0 a1 a2 a3
        cases d[0]? <;> cases d[1]? <;> cases d[2]? <;> cases d[3]? <;> simp
      obtain ⟨l, hu⟩ := this
      have hmem := (allEdges_mem isn opts (relEdge isn l)).mpr ⟨d, 0, l, hd, by omega, hu, rfl⟩
      rw [h] at hmem; cases hmem
  · intro h
    apply List.eq_nil_iff_forall_not_mem.mpr
    intro e he
    obtain ⟨d, k, l, hd, hle, _, _⟩ := (allEdges_mem isn opts e).mp he
    have := h d hd; omega
end TRV.Proofs
