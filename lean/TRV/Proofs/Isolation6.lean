import TRV.Proofs.CrossProto
/-!
# Isolation of concurrent runs over IPv6 (C11): ICMPv6, UDPv6 and the pair ICMPv6 / UDPv6

Same argument as for IPv4 (`Proofs.Alloc` part 2, `Proofs.CrossProto`), on `view6` / `quote6`.
-/
namespace TRV.Proofs
open TRV TRV.Spec TRV.Drv TRV.Alloc

theorem quote6_type {p : Bytes} {o : Nat} {q : Quote6} (h : quote6 p o = some q) :
    u8 p o = some q.icmpType := by
  unfold quote6 at h
  split at h
  · rename_i ty co b0 plen nh s d h1 _ _ _ _ _ _
    split at h; · simp at h
    split at h
    · split at h
      · simp only [Option.some.injEq] at h; subst h; exact h1
      · simp at h
    · simp only [Option.some.injEq] at h; subst h; exact h1
  · simp at h

/-- an ICMPv6 error (outer upper protocol 58, type 3 or 1) quoting a packet with next header `k` -/
def SigQuoted6 (p : Bytes) (k : Nat) : Prop :=
  ∃ v q, view6 p = some v ∧ quote6 p v.l4 = some q ∧ (q.icmpType = 3 ∨ q.icmpType = 1) ∧ q.qNh = k

/-- ICMPv6 echo reply -/
def SigEcho6 (p : Bytes) : Prop := ∃ v, view6 p = some v ∧ u8 p v.l4 = some 129

theorem sigQuoted6_unique {p : Bytes} {k k' : Nat} (h : SigQuoted6 p k) (h' : SigQuoted6 p k') : k = k' := by
  obtain ⟨v, q, hv, hq, _, hk⟩ := h
  obtain ⟨v', q', hv', hq', _, hk'⟩ := h'
  rw [hv] at hv'; cases hv'
  rw [hq] at hq'; cases hq'
  omega

theorem sigQuoted6_not_echo {p : Bytes} {k : Nat} (h : SigQuoted6 p k) (h' : SigEcho6 p) : False := by
  obtain ⟨v, q, hv, hq, hty, _⟩ := h
  obtain ⟨v', hv', h129⟩ := h'
  rw [hv] at hv'; cases hv'
  rw [quote6_type hq] at h129
  simp only [Option.some.injEq] at h129
  omega

/-- what a genuine ICMPv6 time-exceeded says -/
theorem icmp6TE_inv {c : IcmpCfg} {s : List Sent} {t : Nat} {a p : Bytes}
    (h : genuineIcmp6 c s t a false p = true) :
    ∃ v q, view6 p = some v ∧ quote6 p v.l4 = some q ∧ q.icmpType = 3 ∧ q.qDst = c.target ∧ q.qNh = 58 ∧
      u16 p (q.qL4 + 4) = some c.echoId := by
  unfold genuineIcmp6 at h
  split at h; · simp at h
  rename_i v hv
  simp only [Bool.false_eq_true, if_false] at h
  split at h; · simp at h
  rename_i q hq
  split at h
  · rename_i ety eid eseq h1 h2 h3
    simp only [Bool.and_eq_true, decide_eq_true_eq, Bool.or_eq_true, and_assoc] at h
    obtain ⟨_, _, h3', _, hqd, hnh, _, hid, _⟩ := h
    exact ⟨v, q, hv, hq, h3', hqd, hnh, by rw [h2, hid]⟩
  · simp at h

/-- what a genuine ICMPv6 echo reply says -/
theorem icmp6Echo_inv {c : IcmpCfg} {s : List Sent} {t : Nat} {a p : Bytes}
    (h : genuineIcmp6 c s t a true p = true) :
    ∃ v, view6 p = some v ∧ u8 p v.l4 = some 129 ∧ u16 p (v.l4 + 4) = some c.echoId ∧ v.outerSrc = c.target := by
  unfold genuineIcmp6 at h
  split at h; · simp at h
  rename_i v hv
  simp only [if_true] at h
  split at h
  · rename_i ty id seq h1 h2 h3
    simp only [Bool.and_eq_true, decide_eq_true_eq, and_assoc] at h
    obtain ⟨hs, ha, _, hty, hid, _⟩ := h
    exact ⟨v, hv, by rw [h1, hty], by rw [h2, hid], by rw [hs, ha]⟩
  · simp at h

theorem sig_icmp6 {c : IcmpCfg} {s : List Sent} {t : Nat} {a : Bytes} {d : Bool} {p : Bytes}
    (h : genuineIcmp6 c s t a d p = true) : SigQuoted6 p 58 ∨ SigEcho6 p := by
  cases d
  · obtain ⟨v, q, hv, hq, h3, _, hnh, _⟩ := icmp6TE_inv h
    exact Or.inl ⟨v, q, hv, hq, Or.inl h3, hnh⟩
  · obtain ⟨v, hv, h129, _⟩ := icmp6Echo_inv h
    exact Or.inr ⟨v, hv, h129⟩

/-- ICMPv6: two runs whose echo identifiers or targets differ never both own a packet -/
theorem isolation_icmp6 {A B : IcmpCfg} {sA sB : List Sent} {t t' : Nat} {a a' : Bytes} {d d' : Bool} {p : Bytes}
    (hd : FlowsDistinctIcmp A B) (hA : genuineIcmp6 A sA t a d p = true) :
    genuineIcmp6 B sB t' a' d' p = false := by
  cases hB : genuineIcmp6 B sB t' a' d' p with
  | false => rfl
  | true =>
    exfalso
    cases d <;> cases d'
    · obtain ⟨v, q, hv, hq, _, hqd, _, hid⟩ := icmp6TE_inv hA
      obtain ⟨v', q', hv', hq', _, hqd', _, hid'⟩ := icmp6TE_inv hB
      rw [hv] at hv'; cases hv'
      rw [hq] at hq'; cases hq'
      rw [hid] at hid'
      rcases hd with hd | hd
      · exact hd (by simpa using hid')
      · exact hd (hqd.symm.trans hqd')
    · exact sigQuoted6_not_echo (by
        obtain ⟨v, q, hv, hq, h3, _, hnh, _⟩ := icmp6TE_inv hA
        exact ⟨v, q, hv, hq, Or.inl h3, hnh⟩) (by
        obtain ⟨v, hv, h129, _⟩ := icmp6Echo_inv hB
        exact ⟨v, hv, h129⟩)
    · exact sigQuoted6_not_echo (by
        obtain ⟨v, q, hv, hq, h3, _, hnh, _⟩ := icmp6TE_inv hB
        exact ⟨v, q, hv, hq, Or.inl h3, hnh⟩) (by
        obtain ⟨v, hv, h129, _⟩ := icmp6Echo_inv hA
        exact ⟨v, hv, h129⟩)
    · obtain ⟨v, hv, _, hid, hs⟩ := icmp6Echo_inv hA
      obtain ⟨v', hv', _, hid', hs'⟩ := icmp6Echo_inv hB
      rw [hv] at hv'; cases hv'
      rw [hid] at hid'
      rcases hd with hd | hd
      · exact hd (by simpa using hid')
      · exact hd (hs.symm.trans hs')

/-- what a genuine UDPv6 reply says -/
theorem udp6_inv {c : UdpCfg} {s : List Sent} {t : Nat} {a : Bytes} {d : Bool} {p : Bytes}
    (h : genuineUdp6 c s t a d p = true) :
    ∃ v q sp dp, view6 p = some v ∧ quote6 p v.l4 = some q ∧ portsAt p q.qL4 = some (sp, dp) ∧
      q.qDst = c.target ∧ dp = c.tport ∧ (c.loosen = true ∨ (q.qSrc = c.localA ∧ sp = c.lport)) ∧
      q.qNh = 17 ∧ (q.icmpType = 3 ∨ q.icmpType = 1) := by
  unfold genuineUdp6 at h
  split at h; · simp at h
  rename_i v hv
  split at h; · simp at h
  rename_i q hq
  split at h; · simp at h
  rename_i sp dp hp
  simp only [Bool.and_eq_true, decide_eq_true_eq, Bool.or_eq_true, and_assoc] at h
  obtain ⟨_, _, hty, hqd, hdp, hl, hnh, _⟩ := h
  refine ⟨v, q, sp, dp, hv, hq, hp, hqd, hdp, hl, hnh, ?_⟩
  rcases hty with ⟨h3, _⟩ | h1
  · exact Or.inl h3
  · exact Or.inr h1

theorem sig_udp6 {c : UdpCfg} {s : List Sent} {t : Nat} {a : Bytes} {d : Bool} {p : Bytes}
    (h : genuineUdp6 c s t a d p = true) : SigQuoted6 p 17 := by
  obtain ⟨v, q, _, _, hv, hq, _, _, _, _, hnh, hty⟩ := udp6_inv h
  exact ⟨v, q, hv, hq, hty, hnh⟩

/-- UDPv6: two runs with distinct flows never both own a packet -/
theorem isolation_udp6 {A B : UdpCfg} {sA sB : List Sent} {t t' : Nat} {a a' : Bytes} {d d' : Bool} {p : Bytes}
    (hd : FlowsDistinctUdp A B) (hA : genuineUdp6 A sA t a d p = true) :
    genuineUdp6 B sB t' a' d' p = false := by
  cases hB : genuineUdp6 B sB t' a' d' p with
  | false => rfl
  | true =>
    exfalso
    obtain ⟨v, q, sp, dp, hv, hq, hp, hqd, hdp, hl, _⟩ := udp6_inv hA
    obtain ⟨v', q', sp', dp', hv', hq', hp', hqd', hdp', hl', _⟩ := udp6_inv hB
    rw [hv] at hv'; cases hv'
    rw [hq] at hq'; cases hq'
    rw [hp] at hp'
    obtain ⟨rfl, rfl⟩ := some_pair_inj hp'
    rcases hd with (hd | hd) | ⟨la, lb, hd | hd⟩
    · exact hd (hqd.symm.trans hqd')
    · exact hd (hdp.symm.trans hdp')
    · exact hd ((strict_of_not_loosen la hl).1.symm.trans (strict_of_not_loosen lb hl').1)
    · exact hd ((strict_of_not_loosen la hl).2.symm.trans (strict_of_not_loosen lb hl').2)

/-- ICMPv6 vs UDPv6: unconditional -/
theorem icmp6_udp6_excl {p : Bytes} (hi : SigQuoted6 p 58 ∨ SigEcho6 p) (hu : SigQuoted6 p 17) : False := by
  rcases hi with hi | hi
  · have := sigQuoted6_unique hi hu; omega
  · exact sigQuoted6_not_echo hu hi

end TRV.Proofs

/-! # TCP SYN next to SACK (both protocol 6, IPv4) -/
namespace TRV.Proofs
open TRV TRV.Spec TRV.Drv TRV.Alloc

/-- no probe of the TCP-SYN run carries a sequence number inside the SACK run's window `ISN + [min, max]` -/
def SeqsOutsideWindow (sc : List Sent) (s : SackCfg) : Prop :=
  ∀ x ∈ sc, ∀ t, s.min ≤ t → t ≤ s.max → x.seq ≠ (s.isn + t) % 4294967296

/-- TCP SYN run `c` next to SACK run `s`: the target addr:port differs; or the local addr:port differs
    (what the OS gives two TCP sockets) and (both strict, or the SYN run's sequence numbers lie outside
    the SACK run's window) -/
def FlowsDistinctTcpSack (c : TcpCfg) (s : SackCfg) (sc : List Sent) : Prop :=
  TargetDiff c.target c.tport s.target s.tport ∨
  (LocalDiff c.localA c.lport s.localA s.lport ∧ ((c.loosen = false ∧ s.loosen = false) ∨ SeqsOutsideWindow sc s))

theorem isolation_tcp_sack {C : TcpCfg} {S : SackCfg} {sC sS : List Sent} {t t' : Nat} {a a' : Bytes} {d d' : Bool} {p : Bytes}
    (hd : FlowsDistinctTcpSack C S sC) (hC : genuineTcp C sC t a d p = true) :
    genuineSack S sS t' a' d' p = false := by
  cases hS : genuineSack S sS t' a' d' p with
  | false => rfl
  | true =>
    exfalso
    unfold genuineTcp at hC
    unfold genuineSack at hS
    simp only [Bool.or_eq_true, Bool.and_eq_true] at hS
    cases d <;> simp only [Bool.false_eq_true, if_false, if_true] at hC
    · rcases hS with hS | ⟨_, hS⟩
      · -- both quoted
        obtain ⟨v, q, sp, dp, sq, hv, hq, hp, hs, _, hqd, hdp, hl, ⟨x, hx, _, _, hxs⟩, _⟩ := tcpQuoted_inv hC
        obtain ⟨v', q', sp', dp', sq', hv', hq', hp', hs', _, hqd', hdp', hl', hrel, hmin, hmax, _⟩ := sackQuoted_inv hS
        rw [hv] at hv'; cases hv'
        rw [hq] at hq'; cases hq'
        rw [hp] at hp'
        obtain ⟨rfl, rfl⟩ := some_pair_inj hp'
        rw [hs] at hs'; cases hs'
        rcases hd with (hd | hd) | ⟨hld, ⟨la, lb⟩ | hw⟩
        · exact hd (hqd.symm.trans hqd')
        · exact hd (hdp.symm.trans hdp')
        · rcases hld with hd | hd
          · exact hd ((strict_of_not_loosen la hl).1.symm.trans (strict_of_not_loosen lb hl').1)
          · exact hd ((strict_of_not_loosen la hl).2.symm.trans (strict_of_not_loosen lb hl').2)
        · have hlt := u32_lt hs
          refine hw x hx t' hmin hmax ?_
          rw [hxs]; omega
      · obtain ⟨v, q, sp, dp, sq, hv, _, _, _, h1, _⟩ := tcpQuoted_inv hC
        obtain ⟨v', sp', dp', hv', _, h6, _⟩ := sackDirect_inv hS
        rw [hv] at hv'; cases hv'
        rw [h1] at h6; cases h6
    · rcases hS with hS | ⟨_, hS⟩
      · obtain ⟨v, q, sp, dp, sq, hv, _, _, _, h1, _⟩ := sackQuoted_inv hS
        obtain ⟨v', sp', dp', hv', _, h6, _⟩ := tcpDirect_inv hC
        rw [hv] at hv'; cases hv'
        rw [h1] at h6; cases h6
      · obtain ⟨v, sp, dp, hv, hp, _, hsrc, hdst, hsp, hdp⟩ := tcpDirect_inv hC
        obtain ⟨v', sp', dp', hv', hp', _, hsrc', hdst', hsp', hdp'⟩ := sackDirect_inv hS
        rw [hv] at hv'; cases hv'
        rw [hp] at hp'
        obtain ⟨rfl, rfl⟩ := some_pair_inj hp'
        rcases hd with (hd | hd) | ⟨hd | hd, _⟩
        · exact hd (hsrc.symm.trans hsrc')
        · exact hd (hsp.symm.trans hsp')
        · exact hd (hdst.symm.trans hdst')
        · exact hd (hdp.symm.trans hdp')

end TRV.Proofs
