import TRV.Model.Bpf
import TRV.Spec.Filters
/-!
# Helper lemmas for the capture-filter proofs (C12)

* `load` at the three sizes the filters use is the shared `u8/u16/u32` field reader;
* the `jset` masks of the filters as arithmetic (`&&& 0x1fff` = `% 8192`, `&&& 2^i ≠ 0` = `testBit i`);
* the indirect-load offsets `X + k` with `X = 4·IHL` rewritten to the spec's `14 + 4·IHL + …`;
* fields of `eth ++ ip` in terms of fields of the Ethernet header and of the IP packet, so that the
  covering theorems can be used from matcher models that work on the IP packet (after
  `stripEthernetHeader`).
-/
namespace TRV.Proofs.Bpf
open TRV TRV.Bpf

@[simp] theorem load_one (p : Bytes) (o : Nat) : load p o 1 = u8 p o := by simp [load]
@[simp] theorem load_two (p : Bytes) (o : Nat) : load p o 2 = u16 p o := by simp [load]
@[simp] theorem load_four (p : Bytes) (o : Nat) : load p o 4 = u32 p o := by simp [load]

/-- the fragment-offset mask -/
theorem and_1fff (w : Nat) : w &&& 0x1fff = w % 8192 := Nat.and_two_pow_sub_one_eq_mod w 13

theorem and_two_pow_ne_zero (w i : Nat) : (w &&& 2^i ≠ 0) ↔ (w.testBit i = true) := by
  constructor
  · intro h
    cases hb : w.testBit i with
    | true => rfl
    | false =>
      exfalso; apply h
      apply Nat.eq_of_testBit_eq; intro j
      by_cases hj : i = j
      · subst hj; simp [Nat.testBit_and, hb]
      · simp [Nat.testBit_and, hj]
  · intro hb h0
    have := congrArg (·.testBit i) h0
    simp [Nat.testBit_and, hb] at this

/-- SYN mask -/
theorem and_2 (w : Nat) : (w &&& 2 ≠ 0) ↔ (w.testBit 1 = true) := and_two_pow_ne_zero w 1
/-- ACK mask -/
theorem and_16 (w : Nat) : (w &&& 16 ≠ 0) ↔ (w.testBit 4 = true) := and_two_pow_ne_zero w 4
theorem and_2' (w : Nat) : (w &&& 2 = 0) ↔ (w.testBit 1 = false) := by
  have := and_2 w; cases h : w.testBit 1 <;> simp_all
theorem and_16' (w : Nat) : (w &&& 16 = 0) ↔ (w.testBit 4 = false) := by
  have := and_16 w; cases h : w.testBit 4 <;> simp_all

/-- `ldb [x+27]` with `x = 4·IHL` is the TCP flag byte at `14 + 4·IHL + 13` -/
theorem off27 (n : Nat) : 4 * n + 27 = 14 + 4 * n + 13 := by omega
/-- `ldh [x+14]`: source port at `14 + 4·IHL` -/
theorem off14 (n : Nat) : 4 * n + 14 = 14 + 4 * n := by omega
/-- `ldh [x+16]`: destination port at `14 + 4·IHL + 2` -/
theorem off16 (n : Nat) : 4 * n + 16 = 14 + 4 * n + 2 := by omega

/-! ## fields of `eth ++ ip` -/

theorem u8_append_left {a b : Bytes} {off : Nat} (h : off < a.length) : u8 (a ++ b) off = u8 a off := by
  simp [u8, List.getElem?_append_left h]

theorem u8_append_right {a b : Bytes} {k off : Nat} (h : a.length = k) :
    u8 (a ++ b) (k + off) = u8 b off := by
  subst h
  simp [u8, List.getElem?_append_right]

theorem u16_append_left {a b : Bytes} {off : Nat} (h : off + 1 < a.length) :
    u16 (a ++ b) off = u16 a off := by
  simp [u16, u8_append_left (a := a) (b := b) (off := off) (by omega), u8_append_left (a := a) (b := b) h]

theorem u16_append_right {a b : Bytes} {k off : Nat} (h : a.length = k) :
    u16 (a ++ b) (k + off) = u16 b off := by
  simp [u16, Nat.add_assoc, u8_append_right h]

theorem u32_append_right {a b : Bytes} {k off : Nat} (h : a.length = k) :
    u32 (a ++ b) (k + off) = u32 b off := by
  simp [u32, Nat.add_assoc, u16_append_right h]

end TRV.Proofs.Bpf
