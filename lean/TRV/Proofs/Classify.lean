import TRV.Model.Classify
/-! Proofs about the classification model (`TRV.Classify`). -/
namespace TRV.Classify

theorem contains_replicate_wrap_append (k : Nat) (c : Chain) (x : Link) (hx : x ≠ .wrap) :
    (List.replicate k Link.wrap ++ c).contains x = c.contains x := by
  induction k with
  | zero => simp
  | succ k ih =>
    simp only [List.replicate_succ, List.cons_append, List.contains_cons]
    rw [ih]
    have : (x == Link.wrap) = false := by simpa using hx
    simp [this]

/-- wrapping never changes the classification: any number of opaque layers around an error leaves
    `retryable`, `isDeadline` and `isNotSupported` as they were -/
theorem wrap_invariant (k : Nat) (c : Chain) :
    retryable (List.replicate k .wrap ++ c) = retryable c ∧
    isDeadline (List.replicate k .wrap ++ c) = isDeadline c ∧
    isNotSupported (List.replicate k .wrap ++ c) = isNotSupported c := by
  unfold retryable isDeadline isNotSupported
  rw [contains_replicate_wrap_append k c _ (by decide), contains_replicate_wrap_append k c _ (by decide),
    contains_replicate_wrap_append k c _ (by decide), contains_replicate_wrap_append k c _ (by decide)]
  exact ⟨rfl, rfl, rfl⟩

/-- a failed read is skipped exactly when the deadline sentinel is in its chain — however deeply it
    is wrapped, and whatever the error's `Timeout()` method answers -/
theorem read_error_skipped_iff_deadline (c : Chain) (hp : Plain c) :
    verdict (.err c) = .skip ↔ isDeadline c = true := by
  unfold verdict readAndParse
  by_cases hd : isDeadline c = true
  · simp [hd, retryable]
  · have hd' : isDeadline c = false := by simpa using hd
    simp only [hd', Bool.false_eq_true, if_false]
    have hr : retryable (Link.wrap :: c) = false := by
      unfold retryable
      simp only [List.contains_cons]
      rw [hp.1, hp.2]
      rfl
    simp [hr]

/-- … in particular a time-out-flavoured read FAILURE (ETIMEDOUT, EAGAIN, a net.Error time-out) that is
    not the deadline sentinel ends the run -/
theorem timeoutish_read_failure_aborts (k n : Nat) :
    verdict (.err (List.replicate k .wrap ++ [.cause true n])) = .abort := by
  have hp : Plain (List.replicate k Link.wrap ++ [Link.cause true n]) := by
    constructor <;> rw [contains_replicate_wrap_append _ _ _ (by decide)] <;> rfl
  have hd : isDeadline (List.replicate k Link.wrap ++ [Link.cause true n]) = false := by
    unfold isDeadline; rw [contains_replicate_wrap_append _ _ _ (by decide)]; rfl
  have := read_error_skipped_iff_deadline _ hp
  unfold verdict readAndParse at *
  simp only [hd, Bool.false_eq_true, if_false] at *
  unfold retryable
  simp only [List.contains_cons]
  rw [hp.1, hp.2]
  rfl

/-- the deadline sentinel wrapped the way real handles wrap it (`*os.PathError`, `*net.OpError`, any
    depth) is "no packet yet" -/
theorem wrapped_deadline_skipped (k : Nat) :
    verdict (.err (List.replicate k .wrap ++ [.deadline])) = .skip := by
  have hd : isDeadline (List.replicate k Link.wrap ++ [Link.deadline]) = true := by
    unfold isDeadline; rw [contains_replicate_wrap_append _ _ _ (by decide)]; rfl
  unfold verdict readAndParse
  simp [hd, retryable]

/-- zero bytes without an error end the run; unparseable bytes are skipped; parseable bytes are a packet -/
theorem data_verdicts (n : Nat) :
    verdict (.data 0 true) = .abort ∧ verdict (.data 0 false) = .abort ∧
    verdict (.data (n+1) true) = .skip ∧ verdict (.data (n+1) false) = .packet := by
  refine ⟨rfl, rfl, rfl, rfl⟩

/-- "SACK not supported" wrapped around a plain cause ends the run (and is recognisable as such);
    were the cause typed as a bad packet, the very same wrapper would be skipped — the marker inside
    decides, not the wrapper -/
theorem not_supported_is_not_retryable (k n : Nat) (t : Bool) :
    retryable (.notSupported :: (List.replicate k .wrap ++ [.cause t n])) = false ∧
    isNotSupported (.notSupported :: (List.replicate k .wrap ++ [.cause t n])) = true ∧
    retryable (.notSupported :: (List.replicate k .wrap ++ [.badPkt, .cause t n])) = true := by
  refine ⟨?_, ?_, ?_⟩
  · unfold retryable
    simp only [List.contains_cons]
    rw [contains_replicate_wrap_append _ _ _ (by decide), contains_replicate_wrap_append _ _ _ (by decide)]
    rfl
  · unfold isNotSupported; simp
  · unfold retryable
    simp only [List.contains_cons]
    rw [contains_replicate_wrap_append _ _ _ (by decide), contains_replicate_wrap_append _ _ _ (by decide)]
    rfl

end TRV.Classify
