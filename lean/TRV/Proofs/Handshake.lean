import TRV.Model.Handshake
namespace TRV.Proofs
open TRV TRV.Wire TRV.Drv

/-- what "this connection's SYN-ACK" means on the decoded view -/
def OwnSynAck (localA target : Bytes) (lport tport : Nat) (pkt : Bytes) (t : TCP) : Prop :=
  ∃ l3, parse (pkt.take bufSize) = some (l3, .tcp t) ∧ l3.src = target ∧ l3.dst = localA ∧
    t.sport = tport ∧ t.dport = lport ∧ t.syn = true ∧ t.ackf = true

theorem hsOpts_sp_mono (opts : List (Nat × Bytes)) (ts : Option (Nat × Nat)) (r : Bool × Option (Nat × Nat))
    (h : hsOpts opts true ts = some r) : r.1 = true := by
  induction opts generalizing ts with
  | nil => simp [hsOpts] at h; rw [← h]
  | cons o rest ih =>
    unfold hsOpts at h
    split at h
    · exact ih _ h
    · split at h
      · split at h
        · cases h
        · split at h
          · exact ih _ h
          · cases h
      · exact ih _ h

theorem hsOpts_true_has4 (opts : List (Nat × Bytes)) (ts ts' : Option (Nat × Nat))
    (h : hsOpts opts false ts = some (true, ts')) : ∃ d, (4, d) ∈ opts := by
  induction opts generalizing ts with
  | nil => simp [hsOpts] at h
  | cons o rest ih =>
    unfold hsOpts at h
    split at h
    · rename_i h4; exact ⟨o.2, by rw [← h4]; exact List.mem_cons_self⟩
    · split at h
      · split at h
        · cases h
        · split at h
          · obtain ⟨d, hd⟩ := ih _ h; exact ⟨d, List.mem_cons_of_mem _ hd⟩
          · cases h
      · obtain ⟨d, hd⟩ := ih _ h; exact ⟨d, List.mem_cons_of_mem _ hd⟩

theorem hsOpts_false_no4 (opts : List (Nat × Bytes)) (ts ts' : Option (Nat × Nat))
    (h : hsOpts opts false ts = some (false, ts')) : ∀ d, (4, d) ∉ opts := by
  induction opts generalizing ts with
  | nil => intro d hd; cases hd
  | cons o rest ih =>
    unfold hsOpts at h
    split at h
    · have := hsOpts_sp_mono _ _ _ h; simp at this
    · rename_i h4
      have hne : ∀ d, (4, d) ≠ o := fun d he => h4 (by rw [← he])
      split at h
      · split at h
        · cases h
        · split at h
          · intro d hd
            rcases List.mem_cons.mp hd with h1 | h1
            · exact hne d h1
            · exact ih _ h d h1
          · cases h
      · intro d hd
        rcases List.mem_cons.mp hd with h1 | h1
        · exact hne d h1
        · exact ih _ h d h1

/-- inversion of `hsRecv`: any outcome other than skip / fatal was produced by this connection's SYN-ACK -/
theorem hsRecv_own {localA target : Bytes} {lport tport : Nat} {pkt : Bytes} {o : HsOut}
    (h : hsRecv localA target lport tport pkt = o) (h1 : o ≠ .skip) (h2 : o ≠ .fatal) :
    ∃ t, OwnSynAck localA target lport tport pkt t ∧
      ((o = .truncTS ∧ hsOpts t.opts false none = none) ∨
       (o = .notSupported ∧ ∃ ts, hsOpts t.opts false none = some (false, ts)) ∨
       (∃ ts, o = .done t.ack ((t.seq + 1) % 4294967296) ts ∧ hsOpts t.opts false none = some (true, ts))) := by
  unfold hsRecv at h
  split at h
  · exact absurd h.symm h2
  · split at h
    · exact absurd h.symm h1
    · rename_i l3 l4 hp
      split at h
      · rename_i t
        split at h
        · exact absurd h.symm h1
        · rename_i hpair
          split at h
          · exact absurd h.symm h1
          · rename_i hports
            split at h
            · exact absurd h.symm h1
            · rename_i hfl
              have hpair' : l3.src = target ∧ l3.dst = localA := Classical.not_not.mp hpair
              have hp1 : t.sport = tport := by
                cases Nat.decEq tport t.sport with
                | isTrue e => exact e.symm
                | isFalse e => exact absurd (Or.inl e) hports
              have hp2 : t.dport = lport := by
                cases Nat.decEq lport t.dport with
                | isTrue e => exact e.symm
                | isFalse e => exact absurd (Or.inr e) hports
              have hfl' : t.syn = true ∧ t.ackf = true := by
                cases hs : t.syn <;> cases ha : t.ackf <;> simp [hs, ha] at hfl ⊢
              refine ⟨t, ⟨l3, hp, hpair'.1, hpair'.2, hp1, hp2, hfl'.1, hfl'.2⟩, ?_⟩
              split at h
              · rename_i ho; exact Or.inl ⟨h.symm, ho⟩
              · rename_i ts ho; exact Or.inr (Or.inl ⟨h.symm, ts, ho⟩)
              · rename_i ts ho; exact Or.inr (Or.inr ⟨ts, h.symm, ho⟩)
      · exact absurd h.symm h1

/-- a packet that is not this connection's SYN-ACK is skipped (or is the zero-length read) -/
theorem hsRecv_foreign {localA target : Bytes} {lport tport : Nat} {pkt : Bytes}
    (hne : pkt ≠ []) (h : ∀ t, ¬ OwnSynAck localA target lport tport pkt t) :
    hsRecv localA target lport tport pkt = .skip := by
  cases ho : hsRecv localA target lport tport pkt with
  | skip => rfl
  | fatal =>
    unfold hsRecv at ho
    have : pkt.isEmpty = false := by cases pkt <;> simp_all
    simp only [this] at ho
    exfalso
    revert ho
    simp only [Bool.false_eq_true, if_false]
    repeat' split
    all_goals simp
  | _ =>
    obtain ⟨t, hown, _⟩ := hsRecv_own ho (by simp) (by simp)
    exact absurd hown (h t)

theorem hsRead_append_skip {localA target : Bytes} {lport tport : Nat} (pre post : List Bytes)
    (h : ∀ p ∈ pre, hsRecv localA target lport tport p = .skip) :
    hsRead localA target lport tport (pre ++ post) = hsRead localA target lport tport post := by
  induction pre with
  | nil => rfl
  | cons p ps ih =>
    simp only [List.cons_append, hsRead, h p List.mem_cons_self]
    exact ih (fun q hq => h q (List.mem_cons_of_mem _ hq))

/-- inversion of the read loop -/
theorem hsRead_inv {localA target : Bytes} {lport tport : Nat} (pkts : List Bytes) {o : HsOut}
    (h : hsRead localA target lport tport pkts = o) (h0 : o ≠ .timeout) :
    ∃ pre p post, pkts = pre ++ p :: post ∧ (∀ q ∈ pre, hsRecv localA target lport tport q = .skip) ∧
      hsRecv localA target lport tport p = o ∧ o ≠ .skip := by
  induction pkts with
  | nil => exact absurd h.symm h0
  | cons p ps ih =>
    unfold hsRead at h
    split at h
    · rename_i hs
      obtain ⟨pre, q, post, he, hpre, hq, hne⟩ := ih h
      refine ⟨p :: pre, q, post, by rw [he]; rfl, ?_, hq, hne⟩
      intro x hx
      rcases List.mem_cons.mp hx with h1 | h1
      · rw [h1]; exact hs
      · exact hpre x h1
    · rename_i hns
      refine ⟨[], p, ps, rfl, ?_, h, ?_⟩
      · intro q hq; cases hq
      · intro he; rw [← h] at he; exact hns he

end TRV.Proofs
