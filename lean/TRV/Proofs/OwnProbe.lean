import TRV.Proofs.Probe
import TRV.Proofs.Wire
import TRV.Proofs.Drivers
set_option linter.unusedSimpArgs false
set_option linter.unusedVariables false
/-! The tool's own outgoing probes (the capture handle sees them too) never create a hop (C01). -/
namespace TRV.Proofs
open TRV TRV.Wire TRV.Build TRV.Drv TRV.Spec

theorem wfIp4_bytes {p src dst : Bytes} {ttl proto : Nat} (h : wfIp4 p src dst ttl proto = true) :
    u8 p 0 = some 0x45 ∧ u8 p 9 = some proto ∧ Spec.raw p 12 4 = some src ∧ Spec.raw p 16 4 = some dst := by
  unfold wfIp4 at h
  simp only [Bool.and_eq_true, decide_eq_true_eq] at h
  exact ⟨h.1.1.1.1.1.1, h.1.1.1.2, h.1.1.2, h.1.2⟩

theorem take_bufSize_of_small {p : Bytes} (h : p.length ≤ 1024) : p.take bufSize = p :=
  List.take_of_length_le (by simpa [bufSize] using h)

/-- ICMP/IPv4: the driver's own echo request is not a reply -/
theorem icmp4_own_probe (s : IcmpSt) {src dst : Bytes} {echoId ttl : Nat} (hs : src.length = 4) (hd : dst.length = 4)
    (hid : echoId < 65536) (httl : ttl < 256) :
    icmpRecv s (Build.icmp4 src dst echoId ttl) = .retry := by
  have hwf := icmp4_wf hs hd hid httl
  unfold wfIcmp4 at hwf
  simp only [Bool.and_eq_true, decide_eq_true_eq] at hwf
  obtain ⟨⟨⟨⟨⟨⟨hip, _⟩, h20⟩, _⟩, _⟩, _⟩, _⟩ := hwf
  obtain ⟨hb0, hb9, _, _⟩ := wfIp4_bytes hip
  have hlen : (Build.icmp4 src dst echoId ttl).length = 29 := by
    unfold Build.icmp4; rw [length_build _ _ _ _ _ _ _ _ _ hs hd]; simp [be16]
  have hne : Build.icmp4 src dst echoId ttl ≠ [] := by
    intro h; rw [h] at hlen; simp at hlen
  unfold icmpRecv
  rw [isEmpty_false_of_ne hne, take_bufSize_of_small (by omega)]
  simp only [Bool.false_eq_true, if_false]
  cases hp : parse (Build.icmp4 src dst echoId ttl) with
  | none => rfl
  | some v =>
    obtain ⟨l3, l4⟩ := v
    cases l4 with
    | tcp t => rfl
    | icmp6 i =>
      obtain ⟨_, c0, _, hc0, hc6, _⟩ := parse_icmp6 hp
      rw [hb0] at hc0; cases hc0; omega
    | icmp4 i =>
      obtain ⟨h4, b0, rfl, hb0', _, hip4, _, _, hic⟩ := parse_icmp4 hp
      obtain ⟨b0'', hb0'', hihl, _, _, _, _, _, _, _, _, hwo⟩ := ip4_spec hip4
      rw [hb0] at hb0''; cases hb0''
      obtain ⟨ht, _, _, _, _, _⟩ := icmp4_spec hic
      have e := hwo.u8 ht
      have h5 : h4.ihl * 4 + 0 = 20 := by rw [hihl]
      rw [h5, h20] at e
      simp only [Option.some.injEq] at e
      simp only
      rw [if_neg (by omega), if_neg (by omega)]

/-- UDP/IPv4: the driver's own datagram is not a reply (protocol 17 is not decoded) -/
theorem udp4_own_probe (s : UdpSt) {src dst : Bytes} {sport dport ttl : Nat} (hs : src.length = 4) (hd : dst.length = 4)
    (hsp : sport < 65536) (hdp : dport < 65536) (httl : ttl < 256) :
    udpRecv s (Build.udp4 src dst sport dport ttl) = .retry := by
  have hwf := udp4_wf hs hd hsp hdp httl
  unfold wfUdp4 at hwf
  simp only [Bool.and_eq_true, decide_eq_true_eq] at hwf
  obtain ⟨⟨⟨⟨hip, _⟩, _⟩, _⟩, _⟩ := hwf
  obtain ⟨hb0, hb9, _, _⟩ := wfIp4_bytes hip
  have hlen : (Build.udp4 src dst sport dport ttl).length = 36 := by
    unfold Build.udp4; rw [length_build _ _ _ _ _ _ _ _ _ hs hd]; simp [be16, magic]
  have hne : Build.udp4 src dst sport dport ttl ≠ [] := by
    intro h; rw [h] at hlen; simp at hlen
  unfold udpRecv
  rw [isEmpty_false_of_ne hne, take_bufSize_of_small (by omega)]
  simp only [Bool.false_eq_true, if_false]
  cases hp : parse (Build.udp4 src dst sport dport ttl) with
  | none => rfl
  | some v =>
    obtain ⟨l3, l4⟩ := v
    exfalso
    cases l4 with
    | tcp t =>
      cases l3 with
      | v4 h4 =>
        obtain ⟨_, _, _, hip4, _, hpr, _⟩ := parse_tcp4 hp
        obtain ⟨_, _, _, _, _, _, _, h9, _⟩ := ip4_spec hip4
        rw [hb9] at h9; simp only [Option.some.injEq] at h9; omega
      | v6 h6 =>
        obtain ⟨c0, hc0, hc6⟩ := parse_v6_nibble hp
        rw [hb0] at hc0; cases hc0; omega
    | icmp6 i =>
      obtain ⟨_, c0, _, hc0, hc6, _⟩ := parse_icmp6 hp
      rw [hb0] at hc0; cases hc0; omega
    | icmp4 i =>
      obtain ⟨h4, _, _, _, _, hip4, _, hpr, _⟩ := parse_icmp4 hp
      obtain ⟨_, _, _, _, _, _, _, h9, _⟩ := ip4_spec hip4
      rw [hb9] at h9; simp only [Option.some.injEq] at h9; omega

/-- TCP SYN: the driver's own SYN (flags 0x02: no ACK, no RST) is not a reply -/
theorem tcp_own_probe (s : TcpSt) {src dst : Bytes} {sport dport id seq ttl : Nat} (hs : src.length = 4) (hd : dst.length = 4)
    (hsp : sport < 65536) (hdp : dport < 65536) (hid : id < 65536) (hseq : seq < 4294967296) (httl : ttl < 256) :
    tcpRecv s (Build.tcpSyn src dst sport dport id seq ttl) = .retry := by
  have hwf := tcpSyn_wf hs hd hsp hdp hid hseq httl
  unfold wfTcpSyn at hwf
  simp only [Bool.and_eq_true, decide_eq_true_eq] at hwf
  obtain ⟨⟨⟨⟨⟨⟨⟨⟨hip, _⟩, _⟩, _⟩, _⟩, _⟩, h33⟩, _⟩, hlen⟩ := hwf
  obtain ⟨hb0, hb9, _, _⟩ := wfIp4_bytes hip
  have hne : Build.tcpSyn src dst sport dport id seq ttl ≠ [] := by
    intro h; rw [h] at hlen; simp at hlen
  unfold tcpRecv
  rw [isEmpty_false_of_ne hne, take_bufSize_of_small (by omega)]
  simp only [Bool.false_eq_true, if_false]
  cases hp : parse (Build.tcpSyn src dst sport dport id seq ttl) with
  | none => rfl
  | some v =>
    obtain ⟨l3, l4⟩ := v
    cases l4 with
    | icmp6 i => rfl
    | icmp4 i =>
      exfalso
      obtain ⟨h4, _, _, _, _, hip4, _, hpr, _⟩ := parse_icmp4 hp
      obtain ⟨_, _, _, _, _, _, _, h9, _⟩ := ip4_spec hip4
      rw [hb9] at h9; simp only [Option.some.injEq] at h9; omega
    | tcp t =>
      cases l3 with
      | v6 h6 =>
        exfalso
        obtain ⟨c0, hc0, hc6⟩ := parse_v6_nibble hp
        rw [hb0] at hc0; cases hc0; omega
      | v4 h4 =>
        obtain ⟨_, _, _, hip4, _, _, htcp⟩ := parse_tcp4 hp
        obtain ⟨b0'', hb0'', hihl, _, _, _, _, _, _, _, _, hwo⟩ := ip4_spec hip4
        rw [hb0] at hb0''; cases hb0''
        obtain ⟨_, _, _, _, h13, _⟩ := tcp_spec htcp
        have e := hwo.u8 h13
        have h5 : h4.ihl * 4 + 13 = 33 := by rw [hihl]
        rw [h5, h33] at e
        simp only [Option.some.injEq] at e
        simp only [TCP.syn, TCP.rst, TCP.ackf, ← e]
        simp

end TRV.Proofs
