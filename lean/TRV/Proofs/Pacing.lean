import TRV.Model.Timed
namespace TRV.Proofs
open TRV TRV.Timed TRV.Engine

/-- consecutive emissions: TTL goes up by exactly one and at least `d` passes between the instants
    at which consecutive `SendProbe` calls START -/
def Paced (d : Nat) : List (Nat × Nat) → Prop
  | [] => True
  | [_] => True
  | a :: b :: rest => b.1 = a.1 + 1 ∧ a.2 + d ≤ b.2 ∧ Paced d (b :: rest)

/-- a list is paced and, if non-empty, starts with the emission `(i, now')` for some `now' ≥ now` -/
def PacedFrom (d i now : Nat) (l : List (Nat × Nat)) : Prop :=
  Paced d l ∧ ∀ a ∈ l.head?, a.1 = i ∧ now ≤ a.2

theorem paced_cons {d : Nat} {a : Nat × Nat} {l : List (Nat × Nat)}
    (h : PacedFrom d (a.1 + 1) (a.2 + d) l) : Paced d (a :: l) := by
  cases l with
  | nil => trivial
  | cons b rest =>
    obtain ⟨hp, hh⟩ := h
    obtain ⟨h1, h2⟩ := hh b (by simp)
    exact ⟨h1, h2, hp⟩

theorem pacedFrom_mono {d i now now' : Nat} {l : List (Nat × Nat)} (hle : now ≤ now')
    (h : PacedFrom d i now' l) : PacedFrom d i now l :=
  ⟨h.1, fun a ha => ⟨(h.2 a ha).1, Nat.le_trans hle (h.2 a ha).2⟩⟩

theorem sendT_paced (c : Cfg) (wstop : Nat) (sd : Nat → Nat) (sfail : Nat → Bool) :
    ∀ (n i now : Nat), PacedFrom c.delay i now (sendT c wstop sd sfail n i now).sends := by
  intro n
  induction n with
  | zero => intro i now; simp [sendT, PacedFrom, Paced]
  | succ n ih =>
    intro i now
    unfold sendT
    split
    · simp [PacedFrom, Paced]
    · simp only
      split
      · simp [PacedFrom, Paced]
      · have h := ih (i + 1) (now + sd i + c.delay)
        refine ⟨?_, by simp⟩
        apply paced_cons
        exact pacedFrom_mono (by simp <;> omega) h

theorem serLoop_paced (c : Cfg) (cancel : Option Nat) (sd : Nat → Nat) (sfail : Nat → Bool) :
    ∀ (n i now : Nat) (script : List RCall),
      PacedFrom c.delay i now (serLoop c cancel sd sfail n i now script).sends := by
  intro n
  induction n with
  | zero => intro i now script; simp [serLoop, PacedFrom, Paced]
  | succ n ih =>
    intro i now script
    unfold serLoop
    split
    · simp [PacedFrom, Paced]
    · simp only
      split
      · simp [PacedFrom, Paced]
      · split
        · simp [PacedFrom, Paced]
        · split
          · simp [PacedFrom, Paced]
          · refine ⟨?_, by simp⟩
            apply paced_cons
            exact pacedFrom_mono (by simp <;> omega) (ih _ _ _)
        · refine ⟨?_, by simp⟩
          apply paced_cons
          exact pacedFrom_mono (by simp <;> omega) (ih _ _ _)


theorem parallelT_paced (c : Cfg) (cancel : Option Nat) (sd : Nat → Nat) (sfail : Nat → Bool)
    (start : Nat) (script : List RCall) :
    PacedFrom c.delay c.min start (parallelT c cancel sd sfail start script).sends := by
  unfold parallelT
  split
  · simp [PacedFrom, Paced]
  · simp only
    repeat' split
    all_goals exact sendT_paced c _ sd sfail _ _ _

theorem serialT_paced (c : Cfg) (cancel : Option Nat) (sd : Nat → Nat) (sfail : Nat → Bool)
    (start : Nat) (script : List RCall) :
    PacedFrom c.delay c.min start (serialT c cancel sd sfail start script).sends := by
  unfold serialT
  split
  · simp [PacedFrom, Paced]
  · exact serLoop_paced c cancel sd sfail _ _ _ _

/-- pairwise form: any two emissions of a paced list, the later one `k` positions further, are
    `k` TTLs and at least `k * d` apart -/
theorem paced_get {d : Nat} : ∀ (l : List (Nat × Nat)) (j k : Nat) (a b : Nat × Nat),
    Paced d l → l[j]? = some a → l[j + k]? = some b → b.1 = a.1 + k ∧ a.2 + k * d ≤ b.2 := by
  intro l
  induction l with
  | nil => intro j k a b _ h; simp at h
  | cons x rest ih =>
    intro j k a b hp ha hb
    cases j with
    | succ j =>
      have hp' : Paced d rest := by
        cases rest with
        | nil => trivial
        | cons y r => exact hp.2.2
      rw [show j + 1 + k = (j + k) + 1 by omega] at hb
      exact ih j k a b hp' (by simpa using ha) (by simpa using hb)
    | zero =>
      simp at ha; subst ha
      cases k with
      | zero => simp at hb; subst hb; simp
      | succ k =>
        cases rest with
        | nil => simp at hb
        | cons y r =>
          obtain ⟨h1, h2, h3⟩ := hp
          have := ih 0 k y b h3 (by simp) (by simpa using hb)
          refine ⟨by omega, ?_⟩
          have e : (k + 1) * d = k * d + d := by rw [Nat.add_mul]; simp
          omega

end TRV.Proofs
