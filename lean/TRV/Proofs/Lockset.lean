import TRV.Model.Sync
/-!
# Lockset soundness (helper lemmas for C14)

1. Lock hand-off (DESIGN Appendix B.8 lifted to the full event type): if `t` owns `m` after `es` and
   `u ≠ t` owns it after `fs ++ es`, then `fs` contains `acq u m` and, older than it, `rel t m`.
2. `lock_orders`: two accesses by different threads that both hold a common mutex are ordered by
   happens-before (program order → release/acquire edge → program order).
3. Phase lemmas: an access of the main thread before the fork of a child happens-before every event
   of the child; every event of a child happens-before what the main thread does after the join.
4. `lockset_sound`: `Disciplined tbl = true → Exec tbl h → RaceFree h`, any number of threads,
   instances and steps.
-/
namespace TRV.Proofs.Lockset
open TRV.Sync

section Generic
variable {X M : Type}

/-- every rule of `HB` relates an occurrence to a strictly newer one of the same history -/
theorem HB.suffix {p q : History X M} (h : HB p q) : ∃ b s, q = b :: s ∧ p <:+ s := by
  induction h with
  | po hs _ => exact ⟨_, _, rfl, hs⟩
  | sw hs => exact ⟨_, _, rfl, hs⟩
  | fork hs _ => exact ⟨_, _, rfl, hs⟩
  | join hs _ => exact ⟨_, _, rfl, hs⟩
  | trans _ _ ih1 ih2 =>
    obtain ⟨b, s, rfl, h1⟩ := ih1
    obtain ⟨c, s', rfl, h2⟩ := ih2
    exact ⟨c, s', rfl, h1.trans ((List.suffix_cons b s).trans h2)⟩

/-- an event that is in the newer past but not in the older one lies strictly between -/
theorem mem_between {e a : Ev X M} {s₁ s₂ : History X M} (hne : e ≠ a) (hs : (a :: s₁) <:+ s₂)
    (hin : e ∈ s₂) (hout : e ∉ s₁) : ∃ g, (e :: g) <:+ s₂ ∧ (a :: s₁) <:+ g := by
  obtain ⟨fs, rfl⟩ := hs
  rcases List.mem_append.mp hin with h | h
  · obtain ⟨g1, g2, rfl⟩ := List.append_of_mem h
    exact ⟨g2 ++ a :: s₁, ⟨g1, by simp⟩, ⟨g2, rfl⟩⟩
  · rcases List.mem_cons.mp h with h | h
    · exact absurd h hne
    · exact absurd h hout

theorem mem_of_suffix {e a : Ev X M} {s₁ s₂ : History X M} (hs : (a :: s₁) <:+ s₂) (h : e ∈ s₁) :
    e ∈ s₂ := hs.subset (List.mem_cons_of_mem _ h)

theorem access_ne_fork {a : Ev X M} (hacc : a.acc.isSome) (t c : Tid) : Ev.fork t c ≠ a := by
  intro h; subst h; simp [Ev.acc] at hacc

theorem access_ne_join {a : Ev X M} (hacc : a.acc.isSome) (t c : Tid) : Ev.join t c ≠ a := by
  intro h; subst h; simp [Ev.acc] at hacc

/-- an access of `t` made before `t` forks `b`'s thread happens-before `b` -/
theorem fork_orders {a b : Ev X M} {s₁ s₂ : History X M} (hs : (a :: s₁) <:+ s₂)
    (hacc : a.acc.isSome) (hnf : Ev.fork a.tid b.tid ∉ s₁) (hf : Ev.fork a.tid b.tid ∈ s₂) :
    HB (a :: s₁) (b :: s₂) := by
  obtain ⟨g, hg1, hg2⟩ := mem_between (access_ne_fork hacc _ _) hs hf hnf
  exact HB.trans (q := Ev.fork a.tid b.tid :: g) (HB.po hg2 rfl) (HB.fork hg1 rfl)

/-- an access of a thread happens-before what `b`'s thread does after joining it -/
theorem join_orders {a b : Ev X M} {s₁ s₂ : History X M} (hs : (a :: s₁) <:+ s₂)
    (hacc : a.acc.isSome) (hnj : Ev.join b.tid a.tid ∉ s₁) (hj : Ev.join b.tid a.tid ∈ s₂) :
    HB (a :: s₁) (b :: s₂) := by
  obtain ⟨g, hg1, hg2⟩ := mem_between (access_ne_join hacc _ _) hs hj hnj
  exact HB.trans (q := Ev.join b.tid a.tid :: g) (HB.join hg2 rfl) (HB.po hg1 rfl)

/-- two adjacent accesses by different threads are never ordered: nothing lies between them that
    could carry a synchronisation edge (used for the non-vacuity of `RaceFree`) -/
theorem no_hb_adjacent {a b : Ev X M} (ha : a.acc.isSome) (hb : b.acc.isSome) (hne : a.tid ≠ b.tid) :
    ¬ HB [a] [b, a] := by
  intro h
  generalize hq : [b, a] = q at h
  generalize hp : [a] = p at h
  induction h with
  | po hs ht => cases hp; cases hq; exact hne ht
  | sw hs => cases hp; simp [Ev.acc] at ha
  | fork hs _ => cases hp; simp [Ev.acc] at ha
  | join hs _ => cases hq; simp [Ev.acc] at hb
  | trans h1 h2 _ _ =>
    subst hp; subst hq
    obtain ⟨c, s, rfl, hs1⟩ := HB.suffix h1
    obtain ⟨b', s', hr, hs2⟩ := HB.suffix h2
    cases hr
    have l1 := hs1.length_le
    have l2 := hs2.length_le
    simp only [List.length_cons, List.length_nil] at l1 l2
    omega

variable [DecidableEq M]

theorem WF.tail {e : Ev X M} {es : History X M} (h : WF (e :: es)) : WF es := h.1

theorem WF.suffix {s h : History X M} (hs : s <:+ h) (hw : WF h) : WF s := by
  obtain ⟨p, rfl⟩ := hs
  induction p with
  | nil => simpa using hw
  | cons e p ih => exact ih (WF.tail (by simpa using hw))

/-- an access event does not change lock ownership -/
theorem owner_access {a : Ev X M} (ha : a.acc.isSome) (m : M) (es : History X M) :
    owner m (a :: es) = owner m es := by
  cases a <;> simp [Ev.acc] at ha <;> simp [owner]

/-- If `u` owns `m` after `fs ++ es` but not after `es`, the most recent acquire of `m` by `u`
    is inside `fs`. -/
theorem acquire_inside (m : M) (u : Tid) :
    ∀ (fs es : History X M), owner m (fs ++ es) = some u → owner m es ≠ some u →
      ∃ f1 f2, fs = f1 ++ Ev.acq u m :: f2 := by
  intro fs
  induction fs with
  | nil => intro es h1 h2; simp at h1; exact absurd h1 h2
  | cons e fs ih =>
    intro es h1 h2
    cases e
    case acq t m' =>
      simp only [List.cons_append, owner] at h1
      by_cases hm : m' = m
      · simp [hm] at h1; subst hm; subst h1; exact ⟨[], fs, rfl⟩
      · simp [hm] at h1
        obtain ⟨f1, f2, rfl⟩ := ih es h1 h2
        exact ⟨Ev.acq t m' :: f1, f2, rfl⟩
    case rel t m' =>
      simp only [List.cons_append, owner] at h1
      by_cases hm : m' = m
      · simp [hm] at h1
      · simp [hm] at h1
        obtain ⟨f1, f2, rfl⟩ := ih es h1 h2
        exact ⟨Ev.rel t m' :: f1, f2, rfl⟩
    all_goals
      simp only [List.cons_append, owner] at h1
      obtain ⟨f1, f2, rfl⟩ := ih es h1 h2
      exact ⟨_ :: f1, f2, rfl⟩

/-- Ownership by `t` can only end through a release by `t`. -/
theorem release_inside (m : M) (t : Tid) :
    ∀ (fs es : History X M), WF (fs ++ es) → owner m es = some t → owner m (fs ++ es) ≠ some t →
      Ev.rel t m ∈ fs := by
  intro fs
  induction fs with
  | nil => intro es _ h1 h2; simp at h2; exact absurd h1 h2
  | cons e fs ih =>
    intro es hwf h1 h2
    have hwf' : WF (fs ++ es) := WF.tail (by simpa using hwf)
    by_cases hprev : owner m (fs ++ es) = some t
    · -- the head event changed the owner
      have hstep : StepOK e (fs ++ es) := by
        have : WF (e :: (fs ++ es)) := by simpa using hwf
        exact this.2.2
      cases e
      case acq t' m' =>
        simp only [List.cons_append, owner] at h2
        by_cases hm : m' = m
        · subst hm; simp only [StepOK] at hstep; rw [hprev] at hstep; cases hstep
        · simp [hm] at h2; exact absurd hprev h2
      case rel t' m' =>
        simp only [List.cons_append, owner] at h2
        by_cases hm : m' = m
        · subst hm; simp only [StepOK] at hstep; rw [hprev] at hstep
          have : t = t' := by cases hstep; rfl
          subst this; simp
        · simp [hm] at h2; exact absurd hprev h2
      all_goals
        simp only [List.cons_append, owner] at h2
        exact absurd hprev h2
    · exact List.mem_cons_of_mem _ (ih es hwf' h1 hprev)

/-- **Hand-off**: if `t` owns `m` after `es` and `u ≠ t` owns it after `fs ++ es`, then `fs`
    contains an acquire by `u` and, *older* than it, a release by `t`. -/
theorem handoff (m : M) (t u : Tid) (hne : t ≠ u) (fs es : History X M)
    (hwf : WF (fs ++ es)) (ht : owner m es = some t) (hu : owner m (fs ++ es) = some u) :
    ∃ f1 f2, fs = f1 ++ Ev.acq u m :: f2 ∧ Ev.rel t m ∈ f2 := by
  have hne' : owner m es ≠ some u := by rw [ht]; intro h; cases h; exact hne rfl
  obtain ⟨f1, f2, rfl⟩ := acquire_inside m u fs es hu hne'
  refine ⟨f1, f2, rfl, ?_⟩
  have hwf2 : WF (Ev.acq u m :: (f2 ++ es)) :=
    WF.suffix (s := Ev.acq u m :: (f2 ++ es)) ⟨f1, by simp⟩ hwf
  have hfree : owner m (f2 ++ es) = none := hwf2.2.2
  apply release_inside m t f2 es hwf2.1 ht
  rw [hfree]; simp

/-- **Mutex core of the lockset theorem**: two accesses by different threads, both executed while
    holding the same mutex `m`, are ordered by happens-before. -/
theorem lock_orders {a b : Ev X M} {s₁ s₂ : History X M} {m : M}
    (hwf : WF s₂) (hs : (a :: s₁) <:+ s₂) (hacc : a.acc.isSome) (hne : a.tid ≠ b.tid)
    (ha : owner m s₁ = some a.tid) (hb : owner m s₂ = some b.tid) : HB (a :: s₁) (b :: s₂) := by
  obtain ⟨fs, rfl⟩ := hs
  have ha' : owner m (a :: s₁) = some a.tid := by rw [owner_access hacc]; exact ha
  obtain ⟨f1, f2, rfl, hrel⟩ := handoff m a.tid b.tid hne fs (a :: s₁) hwf ha' hb
  obtain ⟨g1, g2, rfl⟩ := List.append_of_mem hrel
  have h1 : HB (a :: s₁) (Ev.rel a.tid m :: (g2 ++ a :: s₁)) := HB.po ⟨g2, rfl⟩ rfl
  have h2 : HB (Ev.rel a.tid m :: (g2 ++ a :: s₁))
      (Ev.acq b.tid m :: ((g1 ++ Ev.rel a.tid m :: g2) ++ a :: s₁)) := HB.sw ⟨g1, by simp⟩
  have h3 : HB (Ev.acq b.tid m :: ((g1 ++ Ev.rel a.tid m :: g2) ++ a :: s₁))
      (b :: ((f1 ++ Ev.acq b.tid m :: (g1 ++ Ev.rel a.tid m :: g2)) ++ a :: s₁)) :=
    HB.po ⟨f1, by simp⟩ rfl
  exact HB.trans h1 (HB.trans h2 h3)

end Generic

section Table
variable {L K : Type}

theorem writeLike_of_kind {r : Row L K} {k : Acc} (hk : kindMatch r k) (hne : k ≠ .rd) :
    r.writeLike = true := by
  cases k
  · exact absurd rfl hne
  · simp [kindMatch] at hk; simp [Row.writeLike, hk.1]
  · simp [kindMatch] at hk; simp [Row.writeLike, hk]

theorem at_of_atomic {r : Row L K} {k : Acc} (hk : kindMatch r k) (ha : r.atomic = true) : k = .at := by
  cases k
  · simp [kindMatch, ha] at hk
  · simp [kindMatch, ha] at hk
  · rfl

variable [DecidableEq L] [DecidableEq K]

/-- two rows that are not hot pass the pair check by themselves -/
theorem pairOK_of_not_hot {a b : Row L K} (ha : a.hot = false) (hb : b.hot = false) :
    pairOK a b = true := by
  simp only [Row.hot, Bool.or_eq_false_iff, Bool.and_eq_false_iff, beq_eq_false_iff_ne, ne_eq] at ha hb
  have hsa : a.scope = .run := by cases h : a.scope <;> simp_all
  have hsb : b.scope = .run := by cases h : b.scope <;> simp_all
  simp only [pairOK, ordered, hsa, hsb, beq_self_eq_true, Bool.true_and]
  rcases ha.2 with h | h <;> rcases hb.2 with h' | h' <;> simp [h, h']

/-- the disciplined table check covers every pair of rows -/
theorem pairOK_of_disciplined {tbl : List (Row L K)} (hd : Disciplined tbl = true) {a b : Row L K}
    (ha : a ∈ tbl) (hb : b ∈ tbl) : pairOK a b = true := by
  have h1 := List.all_eq_true.mp hd a ha
  have h2 := List.all_eq_true.mp hd b hb
  simp only [Bool.or_eq_true, Bool.not_eq_true', List.all_eq_true, Bool.and_eq_true] at h1 h2
  rcases h1 with h1 | h1
  · rcases h2 with h2 | h2
    · exact pairOK_of_not_hot h1 h2
    · exact (h2 a ha).2
  · exact (h1 b hb).1

/-- **Lockset soundness.** If the table is disciplined, every execution it describes is free of
    data races — for any number of threads, instances and steps. -/
theorem lockset_sound (tbl : List (Row L K)) (hd : Disciplined tbl = true)
    (h : History (L × Inst) (K × Inst)) (hex : Exec tbl h) : RaceFree h := by
  obtain ⟨hwf, cx, hsingle, hsite⟩ := hex
  intro a s₁ b s₂ hb ha hconf
  obtain ⟨hne, x, ka, sa, kb, sb, haacc, hbacc, hwr, hnat⟩ := hconf
  obtain ⟨l, i⟩ := x
  have ha' : (a :: s₁) <:+ h := ha.trans ((List.suffix_cons b s₂).trans hb)
  have haS : a.acc.isSome := by rw [haacc]; rfl
  obtain ⟨ra, hra, -, hral, hrak, hralk, hraph⟩ := hsite a s₁ ha' l i ka sa haacc
  obtain ⟨rb, hrb, -, hrbl, hrbk, hrblk, hrbph⟩ := hsite b s₂ hb l i kb sb hbacc
  have hpair : pairOK ra rb = true := pairOK_of_disciplined hd hra hrb
  have hwfb : WF (b :: s₂) := WF.suffix hb hwf
  have hwfa : WF (a :: s₁) := WF.suffix ha' hwf
  have hwf2 : WF s₂ := hwfb.1
  simp only [pairOK, Bool.or_eq_true, Bool.and_eq_true, bne_iff_ne, ne_eq, beq_iff_eq,
    Bool.not_eq_true'] at hpair
  rcases hpair with ((hloc | hnw) | hat) | ⟨⟨hsa, hsb⟩, hlk | hord⟩
  · exact absurd (hral.trans hrbl.symm) hloc
  · -- neither row is write-like: then both events are plain reads
    have : ra.writeLike = true ∨ rb.writeLike = true := by
      rcases hwr with h | h
      · exact Or.inl (writeLike_of_kind hrak h)
      · exact Or.inr (writeLike_of_kind hrbk h)
    rcases this with h | h <;> simp [h] at hnw
  · exact absurd ⟨at_of_atomic hrak hat.1, at_of_atomic hrbk hat.2⟩ hnat
  · -- a common mutex: hand-off
    simp only [commonLock, List.any_eq_true, List.contains_iff_mem] at hlk
    obtain ⟨m, hma, hmb⟩ := hlk
    exact lock_orders hwf2 ha haS hne (hralk m hma) (hrblk m hmb)
  · -- phases / single-threaded roles
    have hpa := hraph hsa
    have hpb := hrbph hsb
    have hlive_a : ∀ p, Ev.join p a.tid ∉ s₁ := hwfa.2.1
    have hlive_b : ∀ p, Ev.join p b.tid ∉ s₂ := hwfb.2.1
    unfold PhaseOK at hpa hpb
    cases hphA : ra.phase <;> cases hphB : rb.phase <;> simp only [hphA, hphB] at hpa hpb
    case init.init => exact absurd (hpa.1.trans hpb.1.symm) hne
    case init.final => exact absurd (hpa.1.trans hpb.1.symm) hne
    case final.init => exact absurd (hpa.1.trans hpb.1.symm) hne
    case final.final => exact absurd (hpa.1.trans hpb.1.symm) hne
    case init.mid =>
      rcases hpb with ⟨-, hu⟩ | ⟨hrole, hru, hf⟩
      · exact absurd (hpa.1.trans hu.symm) hne
      · have hchild : cx.child b.tid i := ⟨rb.role, hru, hrole⟩
        rw [← hpa.1] at hf
        exact fork_orders ha haS (hpa.2 _ hchild) hf
    case mid.init =>
      rcases hpa with ⟨-, ht⟩ | ⟨hrole, hrt, hf⟩
      · exact absurd (ht.trans hpb.1.symm) hne
      · have hchild : cx.child a.tid i := ⟨ra.role, hrt, hrole⟩
        rw [← hpb.1] at hf
        exact absurd (mem_of_suffix ha hf) (hpb.2 _ hchild)
    case mid.final =>
      rcases hpa with ⟨-, ht⟩ | ⟨hrole, hrt, hf⟩
      · exact absurd (ht.trans hpb.1.symm) hne
      · have hchild : cx.child a.tid i := ⟨ra.role, hrt, hrole⟩
        rw [← hpb.1] at hf
        exact join_orders ha haS (hlive_a _) (hpb.2 _ hchild (mem_of_suffix ha hf))
    case final.mid =>
      rcases hpb with ⟨-, hu⟩ | ⟨hrole, hru, hf⟩
      · exact absurd (hpa.1.trans hu.symm) hne
      · have hchild : cx.child b.tid i := ⟨rb.role, hru, hrole⟩
        rw [← hpa.1] at hf
        by_cases hold : Ev.fork a.tid b.tid ∈ s₁
        · exact absurd (mem_of_suffix ha (hpa.2 _ hchild hold)) (hlive_b _)
        · exact fork_orders ha haS hold hf
    case mid.mid =>
      simp only [ordered, hphA, hphB, bne_self_eq_false, Bool.false_or, Bool.and_eq_true,
        beq_iff_eq, Bool.not_eq_true'] at hord
      obtain ⟨hroles, hmulti⟩ := hord
      rcases hpa with ⟨hma, ht⟩ | ⟨hrole, hrt, -⟩
      · rcases hpb with ⟨-, hu⟩ | ⟨hroleb, -, -⟩
        · exact absurd (ht.trans hu.symm) hne
        · exact absurd (hroles ▸ hma) hroleb
      · rcases hpb with ⟨hmb, -⟩ | ⟨-, hru, -⟩
        · exact absurd (hroles ▸ hmb) hrole
        · rw [← hroles] at hru
          exact absurd (hsingle _ _ i _ hrt hru hmulti) hne

end Table

/-! ## A concrete execution (non-vacuity of `Exec`, used by `TRV.Props.C14`) -/
namespace Demo

/-- a four-row table: init write, sender write and receiver read under `mu`, final read -/
def tbl : List (Row String String) := [
  ⟨"x", .run, .main, .init, .wr, [], false, "I"⟩,
  ⟨"x", .run, .sender, .mid, .wr, ["mu"], false, "S"⟩,
  ⟨"x", .run, .receiver, .mid, .rd, ["mu"], false, "R"⟩,
  ⟨"x", .run, .main, .final, .rd, [], false, "F"⟩ ]

/-- most recent first: init write; fork sender (1) and receiver (2); both touch `x` under `mu`
    (hand-off from 1 to 2); joins; final read -/
def hist : History (String × Inst) (String × Inst) := [
  .rd 0 ("x", 7) "F", .join 0 2, .join 0 1,
  .rel 2 ("mu", 7), .rd 2 ("x", 7) "R", .acq 2 ("mu", 7),
  .rel 1 ("mu", 7), .wr 1 ("x", 7) "S", .acq 1 ("mu", 7),
  .fork 0 2, .fork 0 1, .wr 0 ("x", 7) "I" ]

def cx : Ctx where
  role := fun t _ => if t = 0 then some .main else if t = 1 then some .sender
                     else if t = 2 then some .receiver else none
  main := fun _ => 0

theorem role_cases {t : Tid} {i : Inst} {r : Role} (h : cx.role t i = some r) :
    (r = .main ∧ t = 0) ∨ (r = .sender ∧ t = 1) ∨ (r = .receiver ∧ t = 2) := by
  simp only [cx] at h
  split at h
  · simp_all
  · split at h
    · simp_all
    · split at h <;> simp_all

/-- `Exec` is inhabited by a history with concurrency, a hand-off, forks and joins -/
theorem hist_exec : Exec tbl hist := by
  refine ⟨by simp [hist, WF, StepOK, owner, Ev.tid], cx, ?_, ?_⟩
  · intro t u i r ht hu _
    rcases role_cases ht with ⟨h1, rfl⟩ | ⟨h1, rfl⟩ | ⟨h1, rfl⟩ <;>
      rcases role_cases hu with ⟨h2, rfl⟩ | ⟨h2, rfl⟩ | ⟨h2, rfl⟩ <;> simp_all
  · intro e s hs
    simp only [hist, List.suffix_cons_iff, List.suffix_nil] at hs
    rcases hs with h | h | h | h | h | h | h | h | h | h | h | h | h <;> cases h <;>
      intro l i k site hacc <;> simp [Ev.acc] at hacc
    · obtain ⟨⟨rfl, rfl⟩, rfl, rfl⟩ := hacc
      refine ⟨⟨"x", .run, .main, .final, .rd, [], false, "F"⟩, by simp [tbl], rfl, rfl, ⟨rfl, rfl⟩,
        by simp, fun _ => ?_⟩
      simp [PhaseOK, cx, Ev.tid]
    · obtain ⟨⟨rfl, rfl⟩, rfl, rfl⟩ := hacc
      refine ⟨⟨"x", .run, .receiver, .mid, .rd, ["mu"], false, "R"⟩, by simp [tbl], rfl, rfl,
        ⟨rfl, rfl⟩, by simp [owner, Ev.tid], fun _ => ?_⟩
      simp [PhaseOK, cx, Ev.tid]
    · obtain ⟨⟨rfl, rfl⟩, rfl, rfl⟩ := hacc
      refine ⟨⟨"x", .run, .sender, .mid, .wr, ["mu"], false, "S"⟩, by simp [tbl], rfl, rfl,
        ⟨rfl, rfl⟩, by simp [owner, Ev.tid], fun _ => ?_⟩
      simp [PhaseOK, cx, Ev.tid]
    · obtain ⟨⟨rfl, rfl⟩, rfl, rfl⟩ := hacc
      refine ⟨⟨"x", .run, .main, .init, .wr, [], false, "I"⟩, by simp [tbl], rfl, rfl, ⟨rfl, rfl⟩,
        by simp, fun _ => ?_⟩
      simp [PhaseOK, cx, Ev.tid]

end Demo

end TRV.Proofs.Lockset
