import TRV.Proofs.Wire
set_option linter.unusedSimpArgs false
/-! Matcher soundness on raw bytes: `recv … = accept …` implies `Spec.genuine*` (C01, C04). -/
namespace TRV.Proofs
open TRV TRV.Wire TRV.Drv TRV.Spec

theorem icmpLookup_spec {s : IcmpSt} {seq : Nat} {p : Sent} (h : icmpLookup s seq = some p) :
    seq ≤ 255 ∧ s.cfg.min ≤ seq ∧ seq ≤ s.cfg.max ∧ sentTTL s.sent seq = true ∧ p ∈ s.sent ∧ p.ttl = seq := by
  unfold icmpLookup at h
  split at h; · simp at h
  split at h; · simp at h
  have := find_ttl h
  exact ⟨by omega, by omega, by omega, sentTTL_of_find h, this.1, this.2⟩

/-- ICMP over IPv4: every accepted outcome is genuine on the bytes the driver read -/
theorem icmp4_sound {s : IcmpSt} {pkt : Bytes} {t : Nat} {a : Bytes} {d : Bool} {tm : Nat}
    (h : icmpRecv s pkt = .accept t a d tm) (hv4 : ∃ b0, u8 pkt 0 = some b0 ∧ b0 / 16 = 4) :
    genuineIcmp4 s.cfg s.sent t a d (pkt.take bufSize) = true ∧ ∃ p ∈ s.sent, p.ttl = t ∧ p.time = tm := by
  unfold icmpRecv at h
  split at h; · simp at h
  split at h; · simp at h
  rename_i l3 l4 hparse
  split at h
  · -- ICMPv4
    rename_i i
    obtain ⟨hd, b0, rfl, hb0, hver, hip, hfr, hpr, hic⟩ := parse_icmp4 hparse
    have hview := view4_of_ip4 hip ⟨b0, hb0, hver⟩
    obtain ⟨_, _, hihl, _, _, _, _, _, _, _, _, hwo⟩ := ip4_spec hip
    split at h
    · -- time exceeded
      rename_i hty
      split at h; · simp at h
      rename_i info hinfo
      split at h; · simp at h
      split at h; · simp at h
      split at h; · simp at h
      rename_i hqd hqs hqp
      split at h; · simp at h
      rename_i id seq hecho
      split at h; · simp at h
      rename_i hid
      split at h; · simp at h
      rename_i p hlk
      simp only [Out.accept.injEq] at h
      obtain ⟨rfl, rfl, rfl, rfl⟩ := h
      obtain ⟨_, hmin, hmax, hsent, hpm, hpt⟩ := icmpLookup_spec hlk
      refine ⟨?_, p, hpm, hpt, rfl⟩
      -- quoted header
      unfold icmpInfo4 at hinfo
      cases hq : ip4 i.payload with
      | none => simp [hq] at hinfo
      | some q =>
        simp [hq] at hinfo
        subst hinfo
        obtain ⟨hquote, hwq⟩ := quote4_of_parse hwo hic hq
        unfold parseEcho4 at hecho
        split at hecho
        · rename_i ty eid eseq h1 h2 h3
          split at hecho
          · rename_i hty8
            simp only [Option.some.injEq, Prod.mk.injEq] at hecho
            obtain ⟨rfl, rfl⟩ := hecho
            have e1 := hwq.u8 h1
            have e2 := hwq.u16 h2
            have e3 := hwq.u16 h3
            simp only [Nat.add_zero] at e1
            simp only [genuineIcmp4, genuineIcmp4TE, hview, hquote, e1, e2, e3]
            simp only [L3.src] at *
            simp_all [IP4.isFrag]
          · simp at hecho
        · simp at hecho
    · split at h
      · -- echo reply
        rename_i hty0
        split at h; · simp at h
        split at h; · simp at h
        rename_i hid hsrc
        split at h; · simp at h
        rename_i p hlk
        simp only [Out.accept.injEq] at h
        obtain ⟨rfl, rfl, rfl, rfl⟩ := h
        obtain ⟨_, hmin, hmax, hsent, hpm, hpt⟩ := icmpLookup_spec hlk
        refine ⟨?_, p, hpm, hpt, rfl⟩
        obtain ⟨h1, _, h3, h4, _, _⟩ := icmp4_spec hic
        have e1 := hwo.u8 h1
        have e3 := hwo.u16 h3
        have e4 := hwo.u16 h4
        simp only [Nat.add_zero] at e1
        simp only [genuineIcmp4, genuineIcmp4Echo, hview, e1, e3, e4]
        simp only [L3.src] at *
        simp_all [IP4.isFrag]
      · simp at h
  · -- ICMPv6 layer: impossible for a version-4 first nibble
    rename_i i
    exfalso
    obtain ⟨b0, hb0, hver⟩ := hv4
    have hb0' : u8 (pkt.take bufSize) 0 = some b0 := by
      unfold u8 at *
      cases hp : pkt[0]? with
      | none => simp [hp] at hb0
      | some x =>
        have : (pkt.take bufSize)[0]? = some x := by
          rw [List.getElem?_take]; simp [bufSize, hp]
        simp [this, hp] at hb0 ⊢; exact hb0
    obtain ⟨_, c0, _, hc0, hc6, _⟩ := parse_icmp6 hparse
    rw [hb0'] at hc0; cases hc0; omega
  · simp at h

end TRV.Proofs

namespace TRV.Proofs
open TRV TRV.Wire TRV.Drv TRV.Spec

/-- reachable-state invariant of the UDP driver: every recorded probe carries the identifier the
    builder put on the wire for its TTL -/
def UdpInv (s : UdpSt) : Prop := ∀ p ∈ s.sent, p.id = udpId s.cfg p.ttl

theorem udpInv_init (cfg : UdpCfg) : UdpInv { cfg, sent := [] } := by
  intro p hp; simp at hp

theorem udpInv_send {s s' : UdpSt} {ttl now : Nat} {pkt : Bytes} (hi : UdpInv s)
    (h : udpSend s ttl now = .ok s' pkt) : UdpInv s' ∧ s'.cfg = s.cfg := by
  unfold udpSend at h
  simp only at h
  split at h; · simp at h
  simp only [SendRes.ok.injEq] at h
  obtain ⟨rfl, _⟩ := h
  refine ⟨?_, rfl⟩
  intro p hp
  simp only [List.mem_append, List.mem_singleton] at hp
  rcases hp with hp | rfl
  · exact hi p hp
  · rfl

theorem quotedPorts_spec {pl buf : Bytes} {k sp dp : Nat} (hw : Window pl buf k)
    (h : quotedPorts pl = some (sp, dp)) : portsAt buf k = some (sp, dp) ∧ 8 ≤ pl.length := by
  unfold quotedPorts at h
  split at h; · simp at h
  split at h
  · rename_i a b ha hb
    simp only [Option.some.injEq, Prod.mk.injEq] at h
    obtain ⟨rfl, rfl⟩ := h
    have e1 := hw.u16 ha
    have e2 := hw.u16 hb
    simp only [Nat.add_zero] at e1
    exact ⟨by simp [portsAt, e1, e2], by omega⟩
  · simp at h

/-- UDP over IPv4: every accepted outcome is genuine on the bytes the driver read -/
theorem udp4_sound {s : UdpSt} {pkt : Bytes} {t : Nat} {a : Bytes} {d : Bool} {tm : Nat}
    (hinv : UdpInv s) (h4 : s.cfg.target.length = 4)
    (h : udpRecv s pkt = .accept t a d tm) (hv4 : ∃ b0, u8 (pkt.take bufSize) 0 = some b0 ∧ b0 / 16 = 4) :
    genuineUdp4 s.cfg s.sent t a d (pkt.take bufSize) = true ∧ ∃ p ∈ s.sent, p.ttl = t ∧ p.time = tm := by
  unfold udpRecv at h
  split at h; · simp at h
  split at h; · simp at h
  rename_i l3 l4 hparse
  simp only at h
  split at h; · simp at h
  · simp at h
  rename_i info hinfo
  split at h; · simp at h
  rename_i hqp
  split at h; · simp at h
  rename_i sp dp hports
  split at h; · simp at h
  rename_i hdst
  split at h; · simp at h
  rename_i hsrc
  split at h; · simp at h
  rename_i p hfind
  simp only [Out.accept.injEq] at h
  obtain ⟨rfl, rfl, rfl, rfl⟩ := h
  have hpm := List.mem_of_find?_eq_some hfind
  have hpid : p.id = info.wrappedId := by
    have := List.find?_some hfind; simpa using this
  refine ⟨?_, p, hpm, rfl, rfl⟩
  -- which layer?
  cases l4 with
  | tcp t' => simp at hinfo
  | icmp6 i =>
    exfalso
    obtain ⟨_, c0, _, hc0, hc6, _⟩ := parse_icmp6 hparse
    obtain ⟨b0, hb0, hver⟩ := hv4
    rw [hb0] at hc0; cases hc0; omega
  | icmp4 i =>
    obtain ⟨hd, b0, rfl, hb0, hver, hip, hfr, hpr, hic⟩ := parse_icmp4 hparse
    have hview := view4_of_ip4 hip ⟨b0, hb0, hver⟩
    obtain ⟨_, _, hihl, _, _, _, _, _, _, _, _, hwo⟩ := ip4_spec hip
    simp only at hinfo
    split at hinfo
    · rename_i htype
      simp only [Option.some.injEq] at hinfo
      unfold icmpInfo4 at hinfo
      cases hq : ip4 i.payload with
      | none => simp [hq] at hinfo
      | some q =>
        simp [hq] at hinfo
        subst hinfo
        obtain ⟨hquote, hwq⟩ := quote4_of_parse hwo hic hq
        simp only at hports hdst hsrc hpid
        obtain ⟨hpa, _⟩ := quotedPorts_spec hwq hports
        have hid := hinv p hpm
        simp only [udpId, h4, if_true] at hid
        simp only [genuineUdp4, hview, hquote, hpa]
        have hany : s.sent.any (fun x => decide (x.ttl = p.ttl) && decide (x.id = q.id)) = true := by
          rw [List.any_eq_true]; exact ⟨p, hpm, by simp [hpid]⟩
        have hfr' : hd.ff % 16384 = 0 := by
          simp only [IP4.isFrag, decide_eq_false_iff_not, ne_eq, Classical.not_not] at hfr; exact hfr
        have hqid : q.id = (41821 + p.ttl) % 65536 := by
          rw [← hpid, hid]; rfl
        have hdst' : q.dst = s.cfg.target ∧ dp = s.cfg.tport := by
          simpa using hdst
        have hsrc' : s.cfg.loosen = true ∨ (q.src = s.cfg.localA ∧ sp = s.cfg.lport) := by
          cases hl : s.cfg.loosen with
          | true => exact Or.inl rfl
          | false =>
            right
            simp only [hl, Bool.not_false, true_and, Classical.not_not] at hsrc
            exact hsrc
        simp only [L3.src, Bool.and_eq_true, Bool.or_eq_true, decide_eq_true_eq, hpr, hfr',
          hdst'.1, hdst'.2, hany, and_true, true_and]
        have hqp' : q.proto = 17 := by simpa using hqp
        refine ⟨⟨⟨htype, hqp'⟩, hsrc'⟩, ?_⟩
        simp
    · simp at hinfo

end TRV.Proofs

namespace TRV.Proofs
open TRV TRV.Wire TRV.Drv TRV.Spec

theorem quotedSeq_spec {pl buf : Bytes} {k sq : Nat} (hw : Window pl buf k)
    (h : quotedSeq pl = some sq) : u32 buf (k + 4) = some sq := by
  unfold quotedSeq at h
  split at h; · simp at h
  exact hw.u32 h

theorem loosen_or {loosen : Bool} {P : Prop} (h : ¬((!loosen) = true ∧ ¬P)) : loosen = true ∨ P := by
  cases hl : loosen with
  | true => exact Or.inl rfl
  | false =>
    right
    simp only [hl, Bool.not_false, true_and, Classical.not_not] at h
    exact h

theorem isFrag_false {hd : IP4} (h : hd.isFrag = false) : hd.ff % 16384 = 0 := by
  simp only [IP4.isFrag, decide_eq_false_iff_not, ne_eq, Classical.not_not] at h; exact h

/-- TCP SYN: every accepted outcome is genuine on the bytes the driver read -/
theorem tcp_sound {s : TcpSt} {pkt : Bytes} {t : Nat} {a : Bytes} {d : Bool} {tm : Nat}
    (h : tcpRecv s pkt = .accept t a d tm) (hv4 : ∃ b0, u8 (pkt.take bufSize) 0 = some b0 ∧ b0 / 16 = 4) :
    genuineTcp s.cfg s.sent t a d (pkt.take bufSize) = true ∧ ∃ p ∈ s.sent, p.ttl = t ∧ p.time = tm := by
  unfold tcpRecv at h
  split at h; · simp at h
  split at h; · simp at h
  rename_i l3 l4 hparse
  split at h
  · -- direct TCP reply
    rename_i tt
    simp only at h
    split at h; · simp at h
    rename_i hflags
    split at h; · simp at h
    rename_i hpair
    split at h; · simp at h
    rename_i hsp
    split at h; · simp at h
    rename_i hdp
    split at h; · simp at h
    rename_i last hlast
    split at h; · simp at h
    rename_i hack
    simp only [Out.accept.injEq] at h
    obtain ⟨rfl, rfl, rfl, rfl⟩ := h
    refine ⟨?_, last, getLast_mem hlast, rfl, rfl⟩
    cases l3 with
    | v6 h6 =>
      exfalso
      obtain ⟨b0, hb0, hver⟩ := hv4
      obtain ⟨c0, hc0, hc6⟩ := parse_v6_nibble hparse
      rw [hb0] at hc0; cases hc0; omega
    | v4 hd =>
      obtain ⟨b0, hb0, hver, hip, hfr, hpr, htcp⟩ := parse_tcp4 hparse
      have hview := view4_of_ip4 hip ⟨b0, hb0, hver⟩
      obtain ⟨_, _, _, _, _, _, _, _, _, _, _, hwo⟩ := ip4_spec hip
      obtain ⟨h1, h2, _, h4, h5, _, _⟩ := tcp_spec htcp
      have e1 := hwo.u16 h1
      have e2 := hwo.u16 h2
      have e4 := hwo.u32 h4
      have e5 := hwo.u8 h5
      simp only [Nat.add_zero] at e1
      have hpa : portsAt (pkt.take bufSize) (hd.ihl * 4) = some (tt.sport, tt.dport) := by
        simp [portsAt, e1, e2]
      have hfr' := isFrag_false hfr
      simp only [L3.src, L3.dst] at hpair
      simp only [Classical.not_not] at hpair hsp hdp
      simp only [genuineTcp, genuineTcpDirect, hview, hpa, e4, e5, hlast, if_true, L3.src]
      simp only [TCP.syn, TCP.rst, TCP.ackf] at hflags hack
      simp only [Bool.and_eq_true, Bool.or_eq_true, decide_eq_true_eq, Bool.not_eq_true', hpair.1, hpair.2,
        hpr, hfr', hsp, hdp, and_true, true_and, Bool.decide_eq_true]
      refine ⟨?_, ?_⟩
      · -- (syn ∧ ack) ∨ rst
        by_cases hs : tt.flags / 2 % 2 = 1 <;> by_cases ha : tt.flags / 16 % 2 = 1 <;>
          by_cases hr : tt.flags / 4 % 2 = 1 <;> simp_all
      · by_cases ha : tt.flags / 16 % 2 = 1
        · right
          by_cases hs : tt.flags / 2 % 2 = 1 <;> by_cases hr : tt.flags / 4 % 2 = 1 <;> simp_all
        · left; simp [ha]
  · -- ICMPv4 time exceeded quoting the probe
    rename_i i
    split at h; · simp at h
    rename_i htype
    split at h; · simp at h
    rename_i info hinfo
    split at h; · simp at h
    rename_i hqp
    split at h
    · rename_i sp dp sq hports hseq
      split at h; · simp at h
      rename_i hdst
      split at h; · simp at h
      rename_i hsrc
      split at h; · simp at h
      rename_i p hfind
      simp only [Out.accept.injEq] at h
      obtain ⟨rfl, rfl, rfl, rfl⟩ := h
      have hpm := List.mem_of_find?_eq_some hfind
      have hpf := List.find?_some hfind
      simp only [Bool.decide_and, Bool.and_eq_true, decide_eq_true_eq] at hpf
      refine ⟨?_, p, hpm, rfl, rfl⟩
      obtain ⟨hd, b0, rfl, hb0, hver, hip, hfr, hpr, hic⟩ := parse_icmp4 hparse
      have hview := view4_of_ip4 hip ⟨b0, hb0, hver⟩
      obtain ⟨_, _, _, _, _, _, _, _, _, _, _, hwo⟩ := ip4_spec hip
      unfold icmpInfo4 at hinfo
      cases hq : ip4 i.payload with
      | none => simp [hq] at hinfo
      | some q =>
        simp [hq] at hinfo
        subst hinfo
        simp only at hports hseq hdst hsrc hpf
        obtain ⟨hquote, hwq⟩ := quote4_of_parse hwo hic hq
        obtain ⟨hpa, _⟩ := quotedPorts_spec hwq hports
        have hsq := quotedSeq_spec hwq hseq
        have hfr' := isFrag_false hfr
        have hdst' : q.dst = s.cfg.target ∧ dp = s.cfg.tport := by simpa using hdst
        have hsrc' := loosen_or hsrc
        have htype' : i.type = 11 ∧ i.code = 0 := by simpa using htype
        have hany : s.sent.any (fun x => decide (x.ttl = p.ttl) && decide (x.id = q.id) && decide (x.seq = sq)) = true := by
          rw [List.any_eq_true]; exact ⟨p, hpm, by simp [hpf.1, hpf.2]⟩
        simp only [genuineTcp, genuineTcpQuoted, hview, hquote, hpa, hsq, L3.src, Bool.false_eq_true, if_false]
        simp only [Bool.and_eq_true, Bool.or_eq_true, decide_eq_true_eq, hpr, hfr', htype'.1, htype'.2,
          hdst'.1, hdst'.2, hany, and_true, true_and]
        exact ⟨by simpa using hqp, hsrc'⟩
    · simp at h
  · simp at h

end TRV.Proofs

namespace TRV.Proofs
open TRV TRV.Wire TRV.Drv TRV.Spec

theorem sackLookup_spec {s : SackSt} {rel : Nat} {p : Sent} (h : sackLookup s rel = some p) :
    s.cfg.min ≤ rel ∧ rel ≤ s.cfg.max ∧ sentTTL s.sent rel = true ∧ p ∈ s.sent ∧ p.ttl = rel := by
  unfold sackLookup at h
  split at h; · simp at h
  have := find_ttl h
  exact ⟨by omega, by omega, sentTTL_of_find h, this.1, this.2⟩

/-- SACK: every accepted outcome is genuine on the bytes the driver read -/
theorem sack_sound {s : SackSt} {pkt : Bytes} {t : Nat} {a : Bytes} {d : Bool} {tm : Nat}
    (h : sackRecv s pkt = .accept t a d tm) (hv4 : ∃ b0, u8 (pkt.take bufSize) 0 = some b0 ∧ b0 / 16 = 4) :
    genuineSack s.cfg s.sent t a d (pkt.take bufSize) = true ∧ ∃ p ∈ s.sent, p.ttl = t ∧ p.time = tm := by
  unfold sackRecv at h
  split at h; · simp at h
  split at h; · simp at h
  rename_i l3 l4 hparse
  split at h
  · -- selective ACK from the target
    rename_i tt
    split at h; · simp at h
    rename_i hpair
    split at h; · simp at h
    rename_i hports
    split at h; · simp at h
    rename_i hflags
    split at h; · simp at h
    rename_i rel hmin
    split at h; · simp at h
    rename_i p hlk
    simp only [Out.accept.injEq] at h
    obtain ⟨rfl, rfl, rfl, rfl⟩ := h
    obtain ⟨hmn, hmx, hsent, hpm, hpt⟩ := sackLookup_spec hlk
    refine ⟨?_, p, hpm, hpt, rfl⟩
    cases l3 with
    | v6 h6 =>
      exfalso
      obtain ⟨b0, hb0, hver⟩ := hv4
      obtain ⟨c0, hc0, hc6⟩ := parse_v6_nibble hparse
      rw [hb0] at hc0; cases hc0; omega
    | v4 hd =>
      obtain ⟨b0, hb0, hver, hip, hfr, hpr, htcp⟩ := parse_tcp4 hparse
      have hview := view4_of_ip4 hip ⟨b0, hb0, hver⟩
      obtain ⟨_, _, _, _, _, _, _, _, _, _, _, hwo⟩ := ip4_spec hip
      obtain ⟨h1, h2, _, _, h5, hl20, b12, h12, hd5, hdl, hopts⟩ := tcp_spec htcp
      have e1 := hwo.u16 h1
      have e2 := hwo.u16 h2
      have e5 := hwo.u8 h5
      have e12 := hwo.u8 h12
      have eraw := hwo.raw' (off := 20) (n := b12 / 16 * 4 - 20) (by omega) (by omega)
      simp only [Nat.add_zero] at e1
      have hpa : portsAt (pkt.take bufSize) (hd.ihl * 4) = some (tt.sport, tt.dport) := by
        simp [portsAt, e1, e2]
      have hfr' := isFrag_false hfr
      simp only [L3.src, L3.dst, Classical.not_not] at hpair
      simp only [not_or, Classical.not_not] at hports
      simp only [TCP.syn, TCP.fin, TCP.rst, Bool.or_eq_true, decide_eq_true_eq, not_or] at hflags
      have hgd : genuineSackDirect s.cfg s.sent rel hd.src (pkt.take bufSize) = true := by
        simp only [genuineSackDirect, hview, hpa, e12, e5, eraw, hopts]
        simp only [Bool.and_eq_true, decide_eq_true_eq, hpair.1, hpair.2, hpr, hfr', hports.1, hports.2,
          hmin, hsent, hmn, hmx, and_true, true_and]
        omega
      simp only [genuineSack, L3.src, hgd, Bool.and_true, Bool.or_true]
  · -- ICMPv4 time exceeded quoting the probe
    rename_i i
    split at h; · simp at h
    rename_i htype
    split at h; · simp at h
    rename_i info hinfo
    split at h; · simp at h
    rename_i hqp
    split at h
    · rename_i sp dp sq hports hseq
      split at h; · simp at h
      rename_i hdst
      split at h; · simp at h
      rename_i hsrc
      simp only at h
      split at h; · simp at h
      rename_i p hlk
      simp only [Out.accept.injEq] at h
      obtain ⟨rfl, rfl, rfl, rfl⟩ := h
      obtain ⟨hmn, hmx, hsent, hpm, hpt⟩ := sackLookup_spec hlk
      refine ⟨?_, p, hpm, hpt, rfl⟩
      obtain ⟨hd, b0, rfl, hb0, hver, hip, hfr, hpr, hic⟩ := parse_icmp4 hparse
      have hview := view4_of_ip4 hip ⟨b0, hb0, hver⟩
      obtain ⟨_, _, _, _, _, _, _, _, _, _, _, hwo⟩ := ip4_spec hip
      unfold icmpInfo4 at hinfo
      cases hq : ip4 i.payload with
      | none => simp [hq] at hinfo
      | some q =>
        simp [hq] at hinfo
        subst hinfo
        simp only at hports hseq hdst hsrc
        obtain ⟨hquote, hwq⟩ := quote4_of_parse hwo hic hq
        obtain ⟨hpa, _⟩ := quotedPorts_spec hwq hports
        have hsq := quotedSeq_spec hwq hseq
        have hfr' := isFrag_false hfr
        have hdst' : q.dst = s.cfg.target ∧ dp = s.cfg.tport := by simpa using hdst
        have hsrc' := loosen_or hsrc
        have htype' : i.type = 11 ∧ i.code = 0 := by simpa using htype
        have hgq : ∀ df : Bool, df = decide (hd.src = s.cfg.target) →
            genuineSackQuoted s.cfg s.sent ((sq + 4294967296 - s.cfg.isn % 4294967296) % 4294967296)
              hd.src df (pkt.take bufSize) = true := by
          intro df hdf
          subst hdf
          simp only [genuineSackQuoted, hview, hquote, hpa, hsq]
          simp only [Bool.and_eq_true, Bool.or_eq_true, decide_eq_true_eq, hpr, hfr', htype'.1, htype'.2,
            hdst'.1, hdst'.2, hsent, hmn, hmx, and_true, true_and, beq_self_eq_true]
          exact ⟨by simpa using hqp, hsrc'⟩
        simp only [genuineSack]
        apply Bool.or_eq_true_iff.mpr
        left
        exact hgq _ rfl
    · simp at h
  · simp at h

end TRV.Proofs

namespace TRV.Proofs
open TRV TRV.Wire TRV.Drv TRV.Spec

theorem parse_v4_nibble {buf : Bytes} {h4 : IP4} {l4 : L4} (h : parse buf = some (.v4 h4, l4)) :
    ∃ b0, u8 buf 0 = some b0 ∧ b0 / 16 = 4 := by
  unfold parse at h
  split at h; · simp at h
  rename_i b0 hb0
  split at h
  · rename_i hv4; exact ⟨b0, hb0, hv4⟩
  · split at h
    · split at h; · simp at h
      rename_i hd' _
      split at h; · simp at h
      split at h
      · cases ht : tcp hd'.payload <;> simp [ht] at h
      · split at h
        · cases hi : icmp6 hd'.payload <;> simp [hi] at h
        · simp at h
    · simp at h

/-- quoted ICMPv6 echo: `extractEcho6` on a window of the packet -/
theorem extractEcho6_spec {pl buf : Bytes} {k id seq : Nat} (hw : Window pl buf k)
    (h : extractEcho6 pl = some (id, seq)) (hseq : seq ≠ 0) :
    ∃ ety, u8 buf k = some ety ∧ (ety = 128 ∨ ety = 129) ∧ u16 buf (k + 4) = some id ∧ u16 buf (k + 6) = some seq := by
  unfold extractEcho6 at h
  split at h; · simp at h
  rename_i j hj
  obtain ⟨h1, _, hpl, _⟩ := icmp6_spec hj
  split at h
  · simp at h; omega
  · split at h
    · rename_i hty
      split at h
      · rename_i a b ha hb
        simp only [Option.some.injEq, Prod.mk.injEq] at h
        obtain ⟨rfl, rfl⟩ := h
        have hwj : Window j.payload buf (k + 4) := by
          rw [hpl]; exact (Window.drop pl 4).trans hw
        have e1 := hw.u8 h1
        have e2 := hwj.u16 ha
        have e3 := hwj.u16 hb
        simp only [Nat.add_zero] at e1 e2
        exact ⟨j.type, e1, hty, e2, by simpa [Nat.add_assoc] using e3⟩
      · simp at h
    · simp at h

/-- ICMP over IPv6: every accepted outcome is genuine on the bytes the driver read.  (Before the
    fix for F11 this needed the extra hypothesis that the quoted IPv6 header carries no hop-by-hop
    header; the driver now demands that the quoted next-header field is ICMPv6, which excludes it.) -/
theorem icmp6_sound {s : IcmpSt} {pkt : Bytes} {t : Nat} {a : Bytes} {d : Bool} {tm : Nat}
    (hmin : 1 ≤ s.cfg.min)
    (h : icmpRecv s pkt = .accept t a d tm) (hv6 : ∃ b0, u8 (pkt.take bufSize) 0 = some b0 ∧ b0 / 16 = 6) :
    genuineIcmp6 s.cfg s.sent t a d (pkt.take bufSize) = true ∧ ∃ p ∈ s.sent, p.ttl = t ∧ p.time = tm := by
  unfold icmpRecv at h
  split at h; · simp at h
  split at h; · simp at h
  rename_i l3 l4 hparse
  split at h
  · -- ICMPv4 layer: impossible for a version-6 first nibble
    exfalso
    obtain ⟨hd, c0, _, hc0, hc4, _⟩ := parse_icmp4 hparse
    obtain ⟨b0, hb0, hver⟩ := hv6
    rw [hb0] at hc0; cases hc0; omega
  · rename_i i
    obtain ⟨hd, b0, rfl, hb0, hver, hip, hup, hic⟩ := parse_icmp6 hparse
    split at h
    · -- time exceeded
      rename_i hty
      split at h; · simp at h
      rename_i info hinfo
      split at h; · simp at h
      split at h; · simp at h
      split at h; · simp at h
      rename_i hqd hqs hqp
      split at h; · simp at h
      rename_i id seq hecho
      split at h; · simp at h
      rename_i hid
      split at h; · simp at h
      rename_i p hlk
      simp only [Out.accept.injEq] at h
      obtain ⟨rfl, rfl, rfl, rfl⟩ := h
      obtain ⟨_, hmn, hmx, hsent, hpm, hpt⟩ := icmpLookup_spec hlk
      refine ⟨?_, p, hpm, hpt, rfl⟩
      obtain ⟨k, hview, hwo⟩ := view6_of_ip6 hip ⟨b0, hb0, hver⟩ hup hic (by omega)
      have hqp' : info.proto = 58 := by simpa using hqp
      obtain ⟨qnh, qplen, hquote, hwq, _, hqnh⟩ := quote6_of_parse hwo hic hinfo (by omega)
      obtain ⟨ety, e1, hety, e2, e3⟩ := extractEcho6_spec hwq hecho (by omega)
      simp only [Classical.not_not] at hqd hqs hid
      simp only [genuineIcmp6, hview, hquote, e1, e2, e3, Bool.false_eq_true, if_false, L3.src]
      simp only [Bool.and_eq_true, Bool.or_eq_true, decide_eq_true_eq, hty, hqd, hqs, hid, hsent, hmn, hmx,
        and_true, true_and]
      exact ⟨by omega, hety⟩
    · split at h
      · -- echo reply
        rename_i hty
        split at h
        · rename_i id seq h1 h2
          split at h; · simp at h
          split at h; · simp at h
          rename_i hid hsrc
          split at h; · simp at h
          rename_i p hlk
          simp only [Out.accept.injEq] at h
          obtain ⟨rfl, rfl, rfl, rfl⟩ := h
          obtain ⟨_, hmn, hmx, hsent, hpm, hpt⟩ := icmpLookup_spec hlk
          refine ⟨?_, p, hpm, hpt, rfl⟩
          obtain ⟨k, hview, hwo⟩ := view6_of_ip6 hip ⟨b0, hb0, hver⟩ hup hic (by omega)
          obtain ⟨ht, _, hpl, _⟩ := icmp6_spec hic
          have hwi : Window i.payload (pkt.take bufSize) (k + 4) := by
            rw [hpl]; exact (Window.drop hd.payload 4).trans hwo
          have e0 := hwo.u8 ht
          have e1 := hwi.u16 h1
          have e2 := hwi.u16 h2
          simp only [Nat.add_zero] at e0 e1
          simp only [Classical.not_not] at hid hsrc
          simp only [L3.src] at hsrc
          simp only [genuineIcmp6, hview, if_true, e0, e1, L3.src]
          have e2' : u16 (pkt.take bufSize) (k + 6) = some seq := by simpa [Nat.add_assoc] using e2
          simp only [e2']
          simp only [Bool.and_eq_true, decide_eq_true_eq, hty, hid, hsrc, hsent, hmn, hmx, and_true, true_and]
        · simp at h
      · simp at h
  · simp at h

end TRV.Proofs

namespace TRV.Proofs
open TRV TRV.Wire TRV.Drv TRV.Spec

/-- UDP over IPv6: every accepted outcome is genuine on the bytes the driver read (a quoted
    hop-by-hop header is impossible here: the identifier is only taken when the quoted next header
    is UDP) -/
theorem udp6_sound {s : UdpSt} {pkt : Bytes} {t : Nat} {a : Bytes} {d : Bool} {tm : Nat}
    (hinv : UdpInv s) (h6 : s.cfg.target.length ≠ 4)
    (h : udpRecv s pkt = .accept t a d tm) (hv6 : ∃ b0, u8 (pkt.take bufSize) 0 = some b0 ∧ b0 / 16 = 6) :
    genuineUdp6 s.cfg s.sent t a d (pkt.take bufSize) = true ∧ ∃ p ∈ s.sent, p.ttl = t ∧ p.time = tm := by
  unfold udpRecv at h
  split at h; · simp at h
  split at h; · simp at h
  rename_i l3 l4 hparse
  simp only at h
  split at h; · simp at h
  · simp at h
  rename_i info hinfo
  split at h; · simp at h
  rename_i hqp
  split at h; · simp at h
  rename_i sp dp hports
  split at h; · simp at h
  rename_i hdst
  split at h; · simp at h
  rename_i hsrc
  split at h; · simp at h
  rename_i p hfind
  simp only [Out.accept.injEq] at h
  obtain ⟨rfl, rfl, rfl, rfl⟩ := h
  have hpm := List.mem_of_find?_eq_some hfind
  have hpid : p.id = info.wrappedId := by
    have := List.find?_some hfind; simpa using this
  refine ⟨?_, p, hpm, rfl, rfl⟩
  cases l4 with
  | tcp t' => simp at hinfo
  | icmp4 i =>
    exfalso
    obtain ⟨_, c0, _, hc0, hc4, _⟩ := parse_icmp4 hparse
    obtain ⟨b0, hb0, hver⟩ := hv6
    rw [hb0] at hc0; cases hc0; omega
  | icmp6 i =>
    obtain ⟨hd, b0, rfl, hb0, hver, hip, hup, hic⟩ := parse_icmp6 hparse
    simp only at hinfo
    split at hinfo
    · rename_i htype
      simp only [Option.some.injEq] at hinfo
      have hty58 : i.type ≠ 58 := by rcases htype with ⟨h1, _⟩ | h1 <;> omega
      obtain ⟨k, hview, hwo⟩ := view6_of_ip6 hip ⟨b0, hb0, hver⟩ hup hic hty58
      have hid := hinv p hpm
      simp only [udpId, h6, if_false, Build.udp6Id] at hid
      have hqp' : info.proto = 17 := by simpa using hqp
      obtain ⟨qnh, qplen, hquote, hwq, hwid, _⟩ := quote6_of_parse hwo hic hinfo (by omega)
      obtain ⟨hpa, _⟩ := quotedPorts_spec hwq hports
      have hdst' : info.qdst = s.cfg.target ∧ dp = s.cfg.tport := by simpa using hdst
      have hsrc' := loosen_or hsrc
      have hq17 : qnh = 17 ∧ qplen = 13 + p.ttl := by
        by_cases h17 : qnh = 17
        · simp [h17] at hwid; exact ⟨h17, by omega⟩
        · simp [h17] at hwid; omega
      have hany : s.sent.any (fun x => decide (x.ttl = p.ttl) && decide (x.id = qplen)) = true := by
        rw [List.any_eq_true]; exact ⟨p, hpm, by simp [hpid, hwid, hq17.1]⟩
      simp only [genuineUdp6, hview, hquote, hpa, L3.src]
      simp only [Bool.and_eq_true, Bool.or_eq_true, decide_eq_true_eq, hdst'.1, hdst'.2, hq17.1, hany,
        and_true, true_and, beq_self_eq_true]
      exact ⟨htype, hsrc'⟩
    · simp at hinfo

end TRV.Proofs
