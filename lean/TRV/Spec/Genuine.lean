import TRV.Model.Drivers
/-!
# Reference view of a reply packet at RFC offsets, and the genuineness predicates (C01, C04)

Independent of the layered parser model: every field is read directly from the raw packet bytes at
the offsets of RFC 791 / 792 / 4443 / 8200 / 9293 (outer header length from the IHL nibble, the
ICMP header is 8 bytes, the quoted header length from the quoted IHL nibble; IPv6: 40-byte header
plus the hop-by-hop header if present, ICMPv6 error body starts after 8 bytes).  `genuine*` say
what the property says: the packet was sent by `a`, and is an ICMP error quoting this run's probe
with TTL `t` (addresses, ports, per-probe identifier at full width) or a direct reply on the
probe's own flow.  `dest` is the destination-marking rule of C04.

Everything is `Bool`-valued and executable: the harness evaluates these on every packet the REAL
drivers accept.
-/
namespace TRV.Spec
open TRV TRV.Drv

/-- raw bytes `[off, off+n)`, `none` when out of range -/
def raw (p : Bytes) (off n : Nat) : Option Bytes :=
  if off + n ≤ p.length then some ((p.drop off).take n) else none

/-! ## IPv4 outer header -/

structure View4 where
  outerSrc : Bytes
  outerDst : Bytes
  outerProto : Nat
  outerFrag : Nat        -- flags/fragment word mod 0x4000 (MF + offset)
  l4 : Nat               -- offset of the transport header = IHL*4
deriving Repr, DecidableEq

def view4 (p : Bytes) : Option View4 :=
  match u8 p 0, u16 p 6, u8 p 9, raw p 12 4, raw p 16 4 with
  | some b0, some ff, some pr, some s, some d =>
    if b0 / 16 = 4 then
      some { outerSrc := s, outerDst := d, outerProto := pr, outerFrag := ff % 16384, l4 := (b0 % 16) * 4 }
    else none
  | _, _, _, _, _ => none

/-- the datagram quoted by an ICMPv4 error (offsets from the start of the packet) -/
structure Quote4 where
  icmpType : Nat
  icmpCode : Nat
  qSrc : Bytes
  qDst : Bytes
  qId : Nat
  qProto : Nat           -- protocol field of the quoted header: part of the probe's flow
  qL4 : Nat              -- offset of the quoted transport header
deriving Repr, DecidableEq

def quote4 (p : Bytes) (l4 : Nat) : Option Quote4 :=
  match u8 p l4, u8 p (l4 + 1), u8 p (l4 + 8), u16 p (l4 + 8 + 4), u8 p (l4 + 8 + 9), raw p (l4 + 8 + 12) 4, raw p (l4 + 8 + 16) 4 with
  | some ty, some co, some c0, some id, some pr, some s, some d =>
    some { icmpType := ty, icmpCode := co, qSrc := s, qDst := d, qId := id, qProto := pr, qL4 := l4 + 8 + (c0 % 16) * 4 }
  | _, _, _, _, _, _, _ => none

/-! ## Per-variant genuineness. `sent` = the probes recorded so far. -/

def sentTTL (sent : List Sent) (t : Nat) : Bool := sent.any (·.ttl = t)

/-- ICMP/IPv4: time-exceeded from `a` quoting our echo request for TTL `t` -/
def genuineIcmp4TE (c : IcmpCfg) (sent : List Sent) (t : Nat) (a p : Bytes) : Bool :=
  match view4 p with
  | none => false
  | some v =>
    match quote4 p v.l4 with
    | none => false
    | some q =>
      match u8 p q.qL4, u16 p (q.qL4 + 4), u16 p (q.qL4 + 6) with
      | some ety, some eid, some eseq =>
        v.outerSrc = a && v.outerProto = 1 && v.outerFrag = 0 && q.icmpType = 11 &&
        q.qSrc = c.localA && q.qDst = c.target && q.qProto = 1 && (ety = 8 || ety = 0) && eid = c.echoId && eseq = t &&
        sentTTL sent t && c.min ≤ t && t ≤ c.max
      | _, _, _ => false

/-- ICMP/IPv4: echo reply from the target carrying our id and sequence number `t` -/
def genuineIcmp4Echo (c : IcmpCfg) (sent : List Sent) (t : Nat) (a p : Bytes) : Bool :=
  match view4 p with
  | none => false
  | some v =>
    match u8 p v.l4, u16 p (v.l4 + 4), u16 p (v.l4 + 6) with
    | some ty, some id, some seq =>
      v.outerSrc = a && a = c.target && v.outerProto = 1 && v.outerFrag = 0 && ty = 0 && id = c.echoId && seq = t &&
      sentTTL sent t && c.min ≤ t && t ≤ c.max
    | _, _, _ => false

/-- C01+C04 for the ICMP/IPv4 variant: an accepted outcome `(t, a, dest)` on packet `p` -/
def genuineIcmp4 (c : IcmpCfg) (sent : List Sent) (t : Nat) (a : Bytes) (dest : Bool) (p : Bytes) : Bool :=
  if dest then genuineIcmp4Echo c sent t a p else genuineIcmp4TE c sent t a p

/-- quoted transport ports at `off` -/
def portsAt (p : Bytes) (off : Nat) : Option (Nat × Nat) :=
  match u16 p off, u16 p (off + 2) with
  | some a, some b => some (a, b)
  | _, _ => none

/-- UDP/IPv4: time-exceeded (code 0) or destination-unreachable from `a` quoting our datagram whose
    IP id is the one the probe for TTL `t` carried; destination iff `a` is the target -/
def genuineUdp4 (c : UdpCfg) (sent : List Sent) (t : Nat) (a : Bytes) (dest : Bool) (p : Bytes) : Bool :=
  match view4 p with
  | none => false
  | some v =>
    match quote4 p v.l4 with
    | none => false
    | some q =>
      match portsAt p q.qL4 with
      | none => false
      | some (sp, dp) =>
        v.outerSrc = a && v.outerProto = 1 && v.outerFrag = 0 &&
        ((q.icmpType = 11 && q.icmpCode = 0) || q.icmpType = 3) &&
        q.qProto = 17 && q.qDst = c.target && dp = c.tport && (c.loosen || (q.qSrc = c.localA && sp = c.lport)) &&
        sent.any (fun s => s.ttl = t && s.id = q.qId) &&
        (dest == decide (a = c.target))

/-- TCP SYN, quoted form: time-exceeded code 0 from `a` quoting (id, seq) of the probe for TTL `t` -/
def genuineTcpQuoted (c : TcpCfg) (sent : List Sent) (t : Nat) (a p : Bytes) : Bool :=
  match view4 p with
  | none => false
  | some v =>
    match quote4 p v.l4 with
    | none => false
    | some q =>
      match portsAt p q.qL4, u32 p (q.qL4 + 4) with
      | some (sp, dp), some sq =>
        v.outerSrc = a && v.outerProto = 1 && v.outerFrag = 0 && q.icmpType = 11 && q.icmpCode = 0 &&
        q.qProto = 6 && q.qDst = c.target && dp = c.tport && (c.loosen || (q.qSrc = c.localA && sp = c.lport)) &&
        sent.any (fun s => s.ttl = t && s.id = q.qId && s.seq = sq)
      | _, _ => false

/-- TCP SYN, direct form: SYN-ACK / RST from the target port to our port; acknowledged sequence
    number = last probe's sequence number when ACK is set; credited to the LAST sent probe (the
    caveat stated in C01) -/
def genuineTcpDirect (c : TcpCfg) (sent : List Sent) (t : Nat) (a p : Bytes) : Bool :=
  match view4 p with
  | none => false
  | some v =>
    match portsAt p v.l4, u32 p (v.l4 + 8), u8 p (v.l4 + 13), sent.getLast? with
    | some (sp, dp), some ack, some fl, some last =>
      let syn := (fl / 2) % 2 = 1
      let rst := (fl / 4) % 2 = 1
      let ackf := (fl / 16) % 2 = 1
      v.outerSrc = a && a = c.target && v.outerDst = c.localA && v.outerProto = 6 && v.outerFrag = 0 &&
      sp = c.tport && dp = c.lport && ((syn && ackf) || rst) &&
      (!ackf || last.seq = (ack + 4294967295) % 4294967296) && t = last.ttl
    | _, _, _, _ => false

def genuineTcp (c : TcpCfg) (sent : List Sent) (t : Nat) (a : Bytes) (dest : Bool) (p : Bytes) : Bool :=
  if dest then genuineTcpDirect c sent t a p else genuineTcpQuoted c sent t a p

/-- SACK, quoted form: time-exceeded code 0 quoting a segment whose sequence number is ISN + t
    (mod 2^32); destination iff the responder is the target -/
def genuineSackQuoted (c : SackCfg) (sent : List Sent) (t : Nat) (a : Bytes) (dest : Bool) (p : Bytes) : Bool :=
  match view4 p with
  | none => false
  | some v =>
    match quote4 p v.l4 with
    | none => false
    | some q =>
      match portsAt p q.qL4, u32 p (q.qL4 + 4) with
      | some (sp, dp), some sq =>
        v.outerSrc = a && v.outerProto = 1 && v.outerFrag = 0 && q.icmpType = 11 && q.icmpCode = 0 &&
        q.qProto = 6 && q.qDst = c.target && dp = c.tport && (c.loosen || (q.qSrc = c.localA && sp = c.lport)) &&
        (sq + 4294967296 - c.isn % 4294967296) % 4294967296 = t &&
        sentTTL sent t && c.min ≤ t && t ≤ c.max && (dest == decide (a = c.target))
      | _, _ => false

/-- SACK, direct form: an ACK (no SYN/FIN/RST) from the target port to our port whose smallest
    SACK left edge relative to the ISN is `t`. The TCP options are walked with the same option
    walker as the decoder (kind/length TLVs), on the raw option bytes. -/
def genuineSackDirect (c : SackCfg) (sent : List Sent) (t : Nat) (a p : Bytes) : Bool :=
  match view4 p with
  | none => false
  | some v =>
    match portsAt p v.l4, u8 p (v.l4 + 12), u8 p (v.l4 + 13) with
    | some (sp, dp), some b12, some fl =>
      let doff := b12 / 16
      match raw p (v.l4 + 20) (doff * 4 - 20) with
      | none => false
      | some ob =>
        match Wire.tcpOpts (doff * 4 - 20) ob with
        | none => false
        | some opts =>
          v.outerSrc = a && a = c.target && v.outerDst = c.localA && v.outerProto = 6 && v.outerFrag = 0 &&
          sp = c.tport && dp = c.lport && fl % 2 = 0 && (fl / 2) % 2 = 0 && (fl / 4) % 2 = 0 &&
          minSack c.isn opts = some t && sentTTL sent t && c.min ≤ t && t ≤ c.max
    | _, _, _ => false

def genuineSack (c : SackCfg) (sent : List Sent) (t : Nat) (a : Bytes) (dest : Bool) (p : Bytes) : Bool :=
  genuineSackQuoted c sent t a dest p || (dest && genuineSackDirect c sent t a p)

/-! ## IPv6 (a hop-by-hop header directly after the IPv6 header is skipped) -/

structure View6 where
  outerSrc : Bytes
  outerDst : Bytes
  upper : Nat            -- protocol after the IPv6 header (after the hop-by-hop header if present)
  l4 : Nat               -- offset of that protocol's header
deriving Repr, DecidableEq

def view6 (p : Bytes) : Option View6 :=
  match u8 p 0, u8 p 6, raw p 8 16, raw p 24 16 with
  | some b0, some nh, some s, some d =>
    if b0 / 16 ≠ 6 then none
    else if nh = 0 then
      match u8 p 40, u8 p 41 with
      | some hn, some hl => some { outerSrc := s, outerDst := d, upper := hn, l4 := 40 + hl * 8 + 8 }
      | _, _ => none
    else some { outerSrc := s, outerDst := d, upper := nh, l4 := 40 }
  | _, _, _, _ => none

/-- quoted IPv6 datagram of an ICMPv6 error whose header starts at `o` (40 without extension
    headers): the quote starts at `o + 8` -/
structure Quote6 where
  icmpType : Nat
  icmpCode : Nat
  qSrc : Bytes
  qDst : Bytes
  qNh : Nat
  qPlen : Nat
  qL4 : Nat
deriving Repr, DecidableEq

def quote6 (p : Bytes) (o : Nat) : Option Quote6 :=
  match u8 p o, u8 p (o + 1), u8 p (o + 8), u16 p (o + 8 + 4), u8 p (o + 8 + 6), raw p (o + 8 + 8) 16, raw p (o + 8 + 24) 16 with
  | some ty, some co, some b0, some plen, some nh, some s, some d =>
    if b0 / 16 ≠ 6 then none
    else if nh = 0 then
      -- quoted hop-by-hop header: the transport header follows it
      match u8 p (o + 8 + 41) with
      | some hl => some { icmpType := ty, icmpCode := co, qSrc := s, qDst := d, qNh := nh, qPlen := plen,
                          qL4 := o + 8 + 40 + hl * 8 + 8 }
      | none => none
    else
      some { icmpType := ty, icmpCode := co, qSrc := s, qDst := d, qNh := nh, qPlen := plen, qL4 := o + 8 + 40 }
  | _, _, _, _, _, _, _ => none

/-- ICMP/IPv6 accepted outcome -/
def genuineIcmp6 (c : IcmpCfg) (sent : List Sent) (t : Nat) (a : Bytes) (dest : Bool) (p : Bytes) : Bool :=
  match view6 p with
  | none => false
  | some v =>
    if dest then
      match u8 p v.l4, u16 p (v.l4 + 4), u16 p (v.l4 + 6) with
      | some ty, some id, some seq =>
        v.outerSrc = a && a = c.target && v.upper = 58 && ty = 129 && id = c.echoId && seq = t &&
        sentTTL sent t && c.min ≤ t && t ≤ c.max
      | _, _, _ => false
    else
      match quote6 p v.l4 with
      | none => false
      | some q =>
        match u8 p q.qL4, u16 p (q.qL4 + 4), u16 p (q.qL4 + 6) with
        | some ety, some eid, some eseq =>
          v.outerSrc = a && v.upper = 58 && q.icmpType = 3 && q.qSrc = c.localA && q.qDst = c.target && q.qNh = 58 &&
          (ety = 128 || ety = 129) && eid = c.echoId && eseq = t && sentTTL sent t && c.min ≤ t && t ≤ c.max
        | _, _, _ => false

/-- UDP/IPv6 accepted outcome: quoted next header 17, quoted payload length = the length (the
    per-probe identifier of this variant) the probe for TTL `t` carried -/
def genuineUdp6 (c : UdpCfg) (sent : List Sent) (t : Nat) (a : Bytes) (dest : Bool) (p : Bytes) : Bool :=
  match view6 p with
  | none => false
  | some v =>
    match quote6 p v.l4 with
    | none => false
    | some q =>
      match portsAt p q.qL4 with
      | none => false
      | some (sp, dp) =>
        v.outerSrc = a && v.upper = 58 && ((q.icmpType = 3 && q.icmpCode = 0) || q.icmpType = 1) &&
        q.qDst = c.target && dp = c.tport && (c.loosen || (q.qSrc = c.localA && sp = c.lport)) &&
        q.qNh = 17 && sent.any (fun s => s.ttl = t && s.id = q.qPlen) &&
        (dest == decide (a = c.target))

end TRV.Spec
