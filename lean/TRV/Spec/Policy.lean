import TRV.Model.Policy
/-!
# Reference predicate for C20 (TCP method policy), written from the property text

Observation of one selection: the method, what the SACK and SYN attempts return when made (`sack`,
`syn`, `sock`), how often each was made, and what came back.

* `sack`: the outcome is the SACK attempt's outcome (trace or error); SYN is never run.
* `prefer_sack`: SACK is attempted once; SYN is run exactly when SACK failed with "unsupported"
  somewhere in its error; then the outcome is the SYN outcome.  A successful SACK trace is returned.
  Any other SACK failure is returned as an error that still contains the SACK error (suffix of the
  chain) — it is not masked.
* `syn` / default: SACK is never attempted (no connection is opened); outcome is the SYN outcome.
* `syn_socket`: SACK is never attempted.
* anything else: an error, nothing attempted.
-/
namespace TRV.Spec.Policy
open TRV.Policy

def once (n : Nat) : Bool := n == 1
def never (n : Nat) : Bool := n == 0

def unsupported : Out → Bool
  | .err c => hasNS c
  | .ok _ => false

def policyOK (m : Method) (syn sack sock : Out) (res : Out) (calls : Calls) : Bool :=
  match m with
  | .sack => never calls.syn && never calls.synSocket && once calls.sack && res == sack
  | .preferSack =>
      once calls.sack && never calls.synSocket &&
      (if unsupported sack then once calls.syn && res == syn
       else never calls.syn &&
         match sack, res with
         | .ok r, .ok r' => r == r'
         | .err c, .err c' => c.isSuffixOf c' && !hasNS c'
         | _, _ => false)
  | .syn | .empty => never calls.sack && never calls.synSocket && once calls.syn && res == syn
  | .synSocket => never calls.sack && never calls.syn && once calls.synSocket && res == sock
  | .other =>
      never calls.sack && never calls.syn && never calls.synSocket &&
      match res with | .err _ => true | .ok _ => false

end TRV.Spec.Policy
