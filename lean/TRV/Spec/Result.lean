import TRV.Model.Result
/-!
# Reference predicates for C16 (self-consistent result document) and C17 (private-hop redaction)

Written from the property text.  They only *read* the document structures of `TRV.Result`; none of
the model's functions (`normalize…`, `isPrivate`, `removePrivate`, `hasAddrGo`, …) is used here.
Every predicate is decidable, so the oracle evaluates them on the implementation's own output.

C16: "a hop is reachable iff it has an address; hop-count min ≤ avg ≤ max and each lies within the
run lengths; packets sent equals the sample count, received equals the positive samples and loss
equals (sent−received)/sent; RTT min ≤ avg ≤ max over positive samples and 0 ≤ jitter ≤ max−min."

C17: "no hop entry in the output carries an address from the private IPv4 or IPv6 ranges (including
IPv4-mapped forms) or anything derived from it; the entry keeps its TTL and position, the number of
hops is unchanged, and hops with public addresses are left untouched."
-/
namespace TRV.ResSpec
open TRV TRV.Result

/-! ## C16 -/

/-- a hop "has an address": its address field is not empty -/
def HasAddr (h : Hop) : Prop := h.ip ≠ []

/-- reachable ⇔ address, for every hop of every run -/
def ReachableIffAddr (d : Doc) : Prop :=
  ∀ r ∈ d.runs, ∀ h ∈ r.hops, (h.reachable = true ↔ HasAddr h)

/-- length of the longest run (0 for no runs) -/
def longestRun : List Run → Nat
  | [] => 0
  | r :: rs => max r.hops.length (longestRun rs)

/-- hop-count min ≤ avg ≤ max -/
def HopCountOrder (d : Doc) : Prop :=
  (d.hopCount.min : Rat) ≤ d.hopCount.avg ∧ d.hopCount.avg ≤ (d.hopCount.max : Rat)

/-- … and each lies within the run lengths: at least one hop, at most the longest run -/
def HopCountWithin (d : Doc) : Prop :=
  d.runs ≠ [] → 1 ≤ d.hopCount.min ∧ d.hopCount.max ≤ longestRun d.runs

/-- the positive samples, in order -/
def positives (l : List Rat) : List Rat := l.filter (fun x => decide (0 < x))

def SentOK (e : E2e) : Prop := e.sent = e.rtts.length
def ReceivedOK (e : E2e) : Prop := e.received = (positives e.rtts).length
/-- loss = (sent − received)/sent (and 0 when nothing was sent) -/
def LossOK (e : E2e) : Prop :=
  (e.sent = 0 → e.loss = 0) ∧ (e.sent ≠ 0 → e.loss = ((e.sent : Rat) - (e.received : Rat)) / (e.sent : Rat))
def PacketsOK (e : E2e) : Prop := SentOK e ∧ ReceivedOK e ∧ LossOK e

/-- RTT min ≤ avg ≤ max -/
def RttOrder (e : E2e) : Prop := e.min ≤ e.avg ∧ e.avg ≤ e.max

/-- "over positive samples": min and max are the least and greatest positive sample -/
def RttExtremes (e : E2e) : Prop :=
  positives e.rtts ≠ [] →
    e.min ∈ positives e.rtts ∧ (∀ x ∈ positives e.rtts, e.min ≤ x) ∧
    e.max ∈ positives e.rtts ∧ (∀ x ∈ positives e.rtts, x ≤ e.max)

/-- avg is the arithmetic mean of the positive samples -/
def RttMean (e : E2e) : Prop :=
  positives e.rtts ≠ [] → e.avg * ((positives e.rtts).length : Rat) = (positives e.rtts).sum

/-- 0 ≤ jitter ≤ max − min -/
def JitterBounds (e : E2e) : Prop := 0 ≤ e.jitter ∧ e.jitter ≤ e.max - e.min

/-! ### what `Normalize` is handed

`runTracerouteMulti` builds the document from `ToHops` output (hops with `Reachable` unset) and raw
samples; no derived field has been written yet. -/

/-- no derived e2e field set yet -/
def FreshE2e (e : E2e) : Prop :=
  e.sent = 0 ∧ e.received = 0 ∧ e.loss = 0 ∧ e.jitter = 0 ∧ e.avg = 0 ∧ e.min = 0 ∧ e.max = 0

/-- `ToHops` never sets `Reachable` -/
def FreshHops (d : Doc) : Prop := ∀ r ∈ d.runs, ∀ h ∈ r.hops, h.reachable = false

/-- a document as `runTracerouteMulti` returns it -/
def Fresh (d : Doc) : Prop := FreshHops d ∧ d.hopCount = {} ∧ FreshE2e d.e2e

/-- every run has at least one hop (C03) -/
def RunsNonempty (d : Doc) : Prop := ∀ r ∈ d.runs, r.hops ≠ []

/-- the whole C16 consistency predicate on a finished document -/
def Consistent (d : Doc) : Prop :=
  ReachableIffAddr d ∧ HopCountOrder d ∧ HopCountWithin d ∧
  PacketsOK d.e2e ∧ RttOrder d.e2e ∧ RttExtremes d.e2e ∧ JitterBounds d.e2e

/-- identifiers: the test id and the run ids are pairwise distinct -/
def IdsDistinct (d : Doc) : Prop := (d.testRunId :: d.runs.map (·.runId)).Nodup

instance (h : Hop) : Decidable (HasAddr h) := by unfold HasAddr; infer_instance
instance (e : E2e) : Decidable (FreshE2e e) := by unfold FreshE2e; infer_instance
instance (d : Doc) : Decidable (FreshHops d) := by unfold FreshHops; infer_instance
instance (d : Doc) : Decidable (Fresh d) := by unfold Fresh; infer_instance
instance (d : Doc) : Decidable (RunsNonempty d) := by unfold RunsNonempty; infer_instance
instance (d : Doc) : Decidable (ReachableIffAddr d) := by unfold ReachableIffAddr; infer_instance
instance (d : Doc) : Decidable (HopCountOrder d) := by unfold HopCountOrder; infer_instance
instance (d : Doc) : Decidable (HopCountWithin d) := by unfold HopCountWithin; infer_instance
instance (e : E2e) : Decidable (SentOK e) := by unfold SentOK; infer_instance
instance (e : E2e) : Decidable (ReceivedOK e) := by unfold ReceivedOK; infer_instance
instance (e : E2e) : Decidable (LossOK e) := by unfold LossOK; infer_instance
instance (e : E2e) : Decidable (PacketsOK e) := by unfold PacketsOK; infer_instance
instance (e : E2e) : Decidable (RttOrder e) := by unfold RttOrder; infer_instance
instance (e : E2e) : Decidable (RttExtremes e) := by unfold RttExtremes; infer_instance
instance (e : E2e) : Decidable (RttMean e) := by unfold RttMean; infer_instance
instance (e : E2e) : Decidable (JitterBounds e) := by unfold JitterBounds; infer_instance
instance (d : Doc) : Decidable (Consistent d) := by unfold Consistent; infer_instance
instance (d : Doc) : Decidable (IdsDistinct d) := by unfold IdsDistinct; infer_instance

/-- the clauses of `Consistent` by name, for reporting which one fails -/
def consistentClauses (d : Doc) : List (String × Bool) :=
  [ ("reachable-iff-addr", decide (ReachableIffAddr d)),
    ("hop-min-le-avg", decide ((d.hopCount.min : Rat) ≤ d.hopCount.avg)),
    ("hop-avg-le-max", decide (d.hopCount.avg ≤ (d.hopCount.max : Rat))),
    ("hop-within-runs", decide (HopCountWithin d)),
    ("sent", decide (SentOK d.e2e)),
    ("received", decide (ReceivedOK d.e2e)),
    ("loss", decide (LossOK d.e2e)),
    ("e2e-min-le-avg", decide (d.e2e.min ≤ d.e2e.avg)),
    ("e2e-avg-le-max", decide (d.e2e.avg ≤ d.e2e.max)),
    ("e2e-extremes", decide (RttExtremes d.e2e)),
    ("jitter-nonneg", decide (0 ≤ d.e2e.jitter)),
    ("jitter-le-range", decide (d.e2e.jitter ≤ d.e2e.max - d.e2e.min)) ]

/-! ## C17 -/

/-- the 32-bit value of an IPv4 address given as 4 bytes or as the 16-byte IPv4-mapped form
    `::ffff:a.b.c.d` (top 96 bits = `0x…0000ffff`) -/
def v4Value (ip : Bytes) : Option Nat :=
  if ip.length = 4 then some (beNat ip)
  else if ip.length = 16 ∧ beNat (ip.take 12) = 0xffff then some (beNat (ip.drop 12))
  else none

/-- 10/8, 172.16/12, 192.168/16 as number ranges; fc00::/7 as a range of the 128-bit value -/
def PrivateRange (ip : Bytes) : Prop :=
  match v4Value ip with
  | some v =>
    (0x0A000000 ≤ v ∧ v ≤ 0x0AFFFFFF) ∨ (0xAC100000 ≤ v ∧ v ≤ 0xAC1FFFFF) ∨
    (0xC0A80000 ≤ v ∧ v ≤ 0xC0A8FFFF)
  | none =>
    ip.length = 16 ∧ 0xfc000000000000000000000000000000 ≤ beNat ip ∧
      beNat ip ≤ 0xfdffffffffffffffffffffffffffffff

instance (ip : Bytes) : Decidable (PrivateRange ip) := by
  unfold PrivateRange; split <;> infer_instance

/-- the TTL-only placeholder: no address, no RTT, not reachable, no names, not the destination -/
def blank (ttl : Int) : Hop := { ttl := ttl }

/-- one output entry against the input entry at the same position -/
def RedactedHop (i o : Hop) : Prop :=
  o.ttl = i.ttl ∧ (PrivateRange i.ip → o = blank i.ttl) ∧ (¬ PrivateRange i.ip → o = i) ∧
  ¬ PrivateRange o.ip

/-- same number of hops, position by position -/
def RedactedHops : List Hop → List Hop → Prop
  | [], [] => True
  | i :: is, o :: os => RedactedHop i o ∧ RedactedHops is os
  | _, _ => False

/-- same number of runs, position by position; nothing but the hop lists differs -/
def RedactedRuns : List Run → List Run → Prop
  | [], [] => True
  | i :: is, o :: os => RedactedHops i.hops o.hops ∧ o = { i with hops := o.hops } ∧ RedactedRuns is os
  | _, _ => False

def Redacted (inp out : Doc) : Prop :=
  RedactedRuns inp.runs out.runs ∧ out = { inp with runs := out.runs }

instance (i o : Hop) : Decidable (RedactedHop i o) := by unfold RedactedHop; infer_instance

instance decRedactedHops : (is os : List Hop) → Decidable (RedactedHops is os)
  | [], [] => isTrue trivial
  | i :: is, o :: os =>
    have := decRedactedHops is os
    (by unfold RedactedHops; infer_instance)
  | [], _ :: _ => isFalse (by simp [RedactedHops])
  | _ :: _, [] => isFalse (by simp [RedactedHops])

instance decRedactedRuns : (is os : List Run) → Decidable (RedactedRuns is os)
  | [], [] => isTrue trivial
  | i :: is, o :: os =>
    have := decRedactedRuns is os
    (by unfold RedactedRuns; infer_instance)
  | [], _ :: _ => isFalse (by simp [RedactedRuns])
  | _ :: _, [] => isFalse (by simp [RedactedRuns])

instance (i o : Doc) : Decidable (Redacted i o) := by unfold Redacted; infer_instance

end TRV.ResSpec
