import TRV.Model.Engine
/-!
# Reference predicates for the engine properties (C03, C07)

Written from the property text, not from the engine code: `best` is "the earliest accepted reply for
a TTL, except that a destination reply replaces a non-destination one"; `cutOf` is "the lowest TTL
answered by the destination, or the maximum TTL"; `shapeOK` is the path-shape predicate.
All are executable so the harness can evaluate them on the implementation's own output.
-/
namespace TRV.Spec
open TRV.Engine

def firstDest (σ : List Probe) (t : Nat) : Option Probe := σ.find? (fun p => p.ttl = t && p.dest)
def firstAny (σ : List Probe) (t : Nat) : Option Probe := σ.find? (fun p => p.ttl = t)

/-- C07: first destination reply for `t` if any, else first reply for `t` -/
def best (σ : List Probe) (t : Nat) : Option Probe :=
  match firstDest σ t with
  | some p => some p
  | none => firstAny σ t

/-- the destination answered the probe with TTL `t` -/
def destAnswered (σ : List Probe) (t : Nat) : Bool := σ.any (fun p => p.ttl = t && p.dest)

/-- lowest TTL in `0..max` answered by the destination -/
def lowestDest (σ : List Probe) (max : Nat) : Option Nat :=
  (List.range (max+1)).find? (destAnswered σ)

def cutOf (σ : List Probe) (max : Nat) : Nat := (lowestDest σ max).getD max

/-- C07 expected result: one slot per TTL `min..cut`, each holding `best` -/
def expected (min max : Nat) (σ : List Probe) : List (Option Probe) :=
  (List.range' min (cutOf σ max + 1 - min)).map (best σ)

/-- C03 path shape on the hop list: never empty, consecutive TTLs from `min`, ends at `cut`,
    only the last entry may be the destination -/
def shapeOK (min cut : Nat) (hops : List Hop) : Bool :=
  !hops.isEmpty &&
  hops.length == cut + 1 - min &&
  (List.range hops.length).all (fun i =>
    match hops[i]? with
    | some h => h.ttl == min + i && (!h.dest || i + 1 == hops.length)
    | none => false)

end TRV.Spec
