import TRV.Model.Wrapper
/-!
# Reference predicates for C10 (failure atomicity, cause-preserving errors, handle discipline)

Written from the property text over what is *observable* about one call of an entry point
(`Obs`: result or error chain, call log, the faults that were actually triggered). Executable, so
the harness evaluates them on the real implementation's observations.

* a fault is *benign* iff it is a deadline-class fault of a read (an ordinary time-out);
* `atomic`: an error carries no run (by type) and, if a non-benign fault was triggered, the chain
  contains the cause of one of the triggered non-benign faults; a success means no non-benign fault
  was triggered (no partial path reported as success);
* `closeOnce`: every handle is opened at most once and closed exactly as often as opened;
* `noUseAfterClose`: after `close h` no operation uses `h`.
-/
namespace TRV.Spec.Wrapper
open TRV.Wrapper

def nonBenign (f : Fault) : Bool := !(f.op == .read && f.cls == .deadline)

/-- the cause an error must carry for a triggered fault: the injected error value, or — for a
    zero-length read, which returns no error value — the "returned 0 bytes" error -/
def causeOf (f : Fault) : Cause :=
  if f.op == .read && f.cls == .zero then .zeroRead else .injected f.op f.k

def fatalHits (o : Obs) : List Fault := o.hit.filter nonBenign

def atomic (o : Obs) : Bool :=
  match o.res with
  | .error c => (fatalHits o).isEmpty || (fatalHits o).any (fun f => c.contains (.cause (causeOf f)))
  | .ok _ => (fatalHits o).isEmpty

def allHandles : List Handle := [.source, .sink, .localConn, .listener, .tcpConn]

def closeOnce (log : CallLog) : Bool :=
  allHandles.all (fun h => log.count (.open h) ≤ 1 && log.count (.close h) == log.count (.open h))

/-- the handle an operation works on -/
def usesHandle : Ev → Option Handle
  | .filter => some .source
  | .deadline => some .source
  | .read => some .source
  | .write => some .sink
  | _ => none

def noUseAfterClose : CallLog → Bool
  | [] => true
  | .close h :: rest => rest.all (fun e => usesHandle e != some h) && noUseAfterClose rest
  | _ :: rest => noUseAfterClose rest

/-- the whole property on one observation -/
def Atomic (o : Obs) : Bool := atomic o && closeOnce o.log && noUseAfterClose o.log

end TRV.Spec.Wrapper
