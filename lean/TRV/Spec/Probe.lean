import TRV.Model.Build
import TRV.Spec.Genuine
/-!
# Well-formed probes (C06), on raw bytes

Written from RFC 791/8200/792/4443/768/9293: version and header length, total/payload length equal
to the actual length, TTL/hop limit, protocol, addresses, header checksum and transport checksum
(with pseudo-header) verifying, ports, per-probe identifier.  Executable: the harness evaluates the
same predicates on the bytes the REAL drivers hand to the sink (and additionally re-verifies the
checksums with an independent Go implementation).
-/
namespace TRV.Spec
open TRV TRV.Build

/-- IPv4 header without options: version 4, IHL 5, total length = actual length, TTL, protocol,
    addresses, header checksum verifies -/
def wfIp4 (p src dst : Bytes) (ttl proto : Nat) : Bool :=
  u8 p 0 = some 0x45 && u16 p 2 = some p.length && u8 p 8 = some ttl && u8 p 9 = some proto &&
  raw p 12 4 = some src && raw p 16 4 = some dst && verifies 0 (p.take 20)

/-- IPv6 header: version 6, payload length = actual, next header, hop limit, addresses -/
def wfIp6 (p src dst : Bytes) (hop nh : Nat) : Bool :=
  (u8 p 0).map (· / 16) = some 6 && u16 p 4 = some (p.length - 40) && u8 p 6 = some nh && u8 p 7 = some hop &&
  raw p 8 16 = some src && raw p 24 16 = some dst && 40 ≤ p.length

/-- transport checksum over the IPv4 pseudo-header (TCP, UDP) -/
def l4ck4 (p src dst : Bytes) (proto : Nat) : Bool := verifies (pseudo src dst proto (p.length - 20)) (p.drop 20)
/-- ICMPv4 checksum (no pseudo-header) -/
def icmp4ck (p : Bytes) : Bool := verifies 0 (p.drop 20)
/-- transport checksum over the IPv6 pseudo-header (ICMPv6, UDP) -/
def l4ck6 (p src dst : Bytes) (nh : Nat) : Bool := verifies (pseudo src dst nh (p.length - 40)) (p.drop 40)

def wfIcmp4 (p src dst : Bytes) (echoId ttl : Nat) : Bool :=
  wfIp4 p src dst ttl 1 && icmp4ck p && u8 p 20 = some 8 && u8 p 21 = some 0 && u16 p 4 = some echoId &&
  u16 p 24 = some echoId && u16 p 26 = some ttl

def wfIcmp6 (p src dst : Bytes) (echoId ttl : Nat) : Bool :=
  wfIp6 p src dst ttl 58 && l4ck6 p src dst 58 && u8 p 40 = some 128 && u8 p 41 = some 0 &&
  u16 p 44 = some echoId && u16 p 46 = some ttl

def wfUdp4 (p src dst : Bytes) (sport dport ttl : Nat) : Bool :=
  wfIp4 p src dst ttl 17 && l4ck4 p src dst 17 && u16 p 20 = some sport && u16 p 22 = some dport &&
  u16 p 24 = some (p.length - 20)

def wfUdp6 (p src dst : Bytes) (sport dport ttl : Nat) : Bool :=
  wfIp6 p src dst ttl 17 && l4ck6 p src dst 17 && u16 p 40 = some sport && u16 p 42 = some dport &&
  u16 p 44 = some (p.length - 40)

def wfTcpSyn (p src dst : Bytes) (sport dport id seq ttl : Nat) : Bool :=
  wfIp4 p src dst ttl 6 && l4ck4 p src dst 6 && u16 p 20 = some sport && u16 p 22 = some dport &&
  u32 p 24 = some seq && u8 p 32 = some 0x50 && u8 p 33 = some 0x02 && u16 p 4 = some id && p.length = 40

def wfSack (p src dst : Bytes) (sport dport seq ack ttl : Nat) : Bool :=
  wfIp4 p src dst ttl 6 && l4ck4 p src dst 6 && u16 p 20 = some sport && u16 p 22 = some dport &&
  u32 p 24 = some seq && u32 p 28 = some ack && u8 p 33 = some 0x18 &&
  (u8 p 32).map (fun b => b / 16 * 4 + 20 + 1) = some p.length

end TRV.Spec
