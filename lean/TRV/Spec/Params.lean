import TRV.Model.Params
/-!
# Reference predicate for C19 (parameters honoured or rejected), written from the property text

`honoured p plan`: the probes on the wire are exactly what was asked for —

* TTLs: the requested bounds satisfy `1 ≤ min ≤ max ≤ 255` and the probes carry exactly
  `min, min+1, …, max` (nothing wrapped, truncated, dropped or added);
* port: UDP/TCP probes go to the requested port — the one written in the target literal if there is
  one, else the `port` parameter, else (parameter 0) the default 33434 — and it lies in `1..65535`;
  ICMP has no port and ignores the parameter;
* protocol as requested (one of udp/tcp/icmp), address family of the target literal;
* TCP method as requested: `syn`/default ⇒ SYN probes, `sack` ⇒ SACK probes, `prefer_sack` ⇒ either.

`acceptable p outcome`: rejected, or a plan that is honoured; a crash is never acceptable.
-/
namespace TRV.Spec.Params
open TRV.Params
open TRV.Policy (Method)

/-- the port the caller asked for -/
def requestedPort (p : P) : Option Int :=
  match p.litPort with
  | .num n => some n
  | .absent => some (if p.port = 0 then 33434 else p.port)
  | .garbage => none

def ttlsHonoured (p : P) (pl : Plan) : Bool :=
  decide (1 ≤ p.minTTL) && decide (p.minTTL ≤ p.maxTTL) && decide (p.maxTTL ≤ 255) &&
  pl.ttls == List.range' p.minTTL.toNat (p.maxTTL - p.minTTL + 1).toNat

def portHonoured (p : P) (pl : Plan) : Bool :=
  match p.proto with
  | .icmp => pl.port == none
  | _ =>
    match requestedPort p, pl.port with
    | some n, some q => decide (1 ≤ n) && decide (n ≤ 65535) && decide (n = (q : Int))
    | _, _ => false

def protoHonoured (p : P) (pl : Plan) : Bool :=
  p.proto != .other && pl.proto == p.proto && pl.v6 == p.v6

def methodHonoured (p : P) (pl : Plan) : Bool :=
  match p.proto with
  | .tcp =>
    match p.method with
    | .empty | .syn => pl.kind == .syn
    | .sack => pl.kind == .sack
    | .preferSack => pl.kind == .sack || pl.kind == .syn
    | _ => false          -- syn_socket does not exist on this platform; unknown methods must be rejected
  | _ => pl.kind == .none

def honoured (p : P) (pl : Plan) : Bool :=
  ttlsHonoured p pl && portHonoured p pl && protoHonoured p pl && methodHonoured p pl

/-- `Honoured` as a proposition -/
def Honoured (p : P) (pl : Plan) : Prop := honoured p pl = true

def acceptable (p : P) : Outcome → Bool
  | .reject => true
  | .plan pl => honoured p pl
  | .crash => false

end TRV.Spec.Params
