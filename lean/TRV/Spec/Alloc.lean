import TRV.Model.Alloc
import TRV.Model.Drivers
import TRV.Model.Engine
/-!
# Reference predicates for C11 (isolation of concurrent runs, identifier ranges)

Written from the property text:

* "Identifier ranges handed to concurrent runs (IP-ID blocks, echo identifiers) do not overlap":
  `Disjoint`, `PairwiseDisjoint`, `Distinct` (and executable `…B` versions the harness evaluates on
  the REAL allocators' return values).
* "to the same or different targets and with any mix of protocols": `FlowsDistinct…` says which
  identifying fields two concurrent runs of the same protocol differ in.  It is a HYPOTHESIS of the
  isolation theorems, discharged by what the operating system and the allocators guarantee:
  two sockets of one protocol that are bound at the same time have different local ports
  (`tcp/utils.go: reserveLocalPort`, `common.LocalAddrForHost` keep the socket open for the run;
  a connected SACK socket owns its 4-tuple), and live echo identifiers / IP-ID blocks are distinct
  (`c11_echo_distinct`, `c11_blocks_disjoint`).
-/
namespace TRV.Spec
open TRV TRV.Drv TRV.Alloc

/-! ## Identifier ranges -/

/-- two blocks share no identifier -/
def Disjoint (a b : Block) : Prop := ∀ x, x ∈ a.ids → x ∉ b.ids

instance (a b : Block) : Decidable (Disjoint a b) := by unfold Disjoint; exact inferInstance

/-- the blocks of distinct allocations are pairwise disjoint -/
def PairwiseDisjoint (bs : List Block) : Prop := bs.Pairwise Disjoint

/-- pairwise distinct identifiers -/
def Distinct (ids : List (BitVec 16)) : Prop := ids.Pairwise (· ≠ ·)

/-- executable: no identifier of `a` is an identifier of `b` -/
def disjointB (a b : Block) : Bool := a.ids.all (fun x => !b.ids.contains x)

def pairwiseDisjointB : List Block → Bool
  | [] => true
  | a :: rest => rest.all (disjointB a) && pairwiseDisjointB rest

def distinctB : List (BitVec 16) → Bool
  | [] => true
  | a :: rest => !rest.contains a && distinctB rest

/-! ## Which fields distinguish two concurrent runs of one protocol -/

/-- ICMP echo: the echo identifiers differ, or the targets differ -/
def FlowsDistinctIcmp (a b : IcmpCfg) : Prop := a.echoId ≠ b.echoId ∨ a.target ≠ b.target

/-- target address:port differs -/
def TargetDiff (ta : Bytes) (pa : Nat) (tb : Bytes) (pb : Nat) : Prop := ta ≠ tb ∨ pa ≠ pb

/-- local address:port differs -/
def LocalDiff (la : Bytes) (pa : Nat) (lb : Bytes) (pb : Nat) : Prop := la ≠ lb ∨ pa ≠ pb

/-- UDP: the target addr:port differs; or BOTH runs check the quoted source strictly
    (`LoosenICMPSrc = false`) and the local addr:port differs.  With a relaxed source check the
    local port is not looked at and every UDP run uses the same IP ids 41821 + ttl, so only the
    target distinguishes runs. -/
def FlowsDistinctUdp (a b : UdpCfg) : Prop :=
  TargetDiff a.target a.tport b.target b.tport ∨
  (a.loosen = false ∧ b.loosen = false ∧ LocalDiff a.localA a.lport b.localA b.lport)

/-- the (IP id, sequence number) pairs of two runs' probes are disjoint -/
def IdsDisjoint (sa sb : List Sent) : Prop := ∀ x ∈ sa, ∀ y ∈ sb, ¬ (x.id = y.id ∧ x.seq = y.seq)

/-- TCP SYN: the target addr:port differs; or the local addr:port differs and (both runs check the
    quoted source strictly, or their probes' (IP id, sequence number) pairs are disjoint — which is
    what disjoint `AllocPacketID` blocks give in the default mode).  The local addr:port is needed
    in every mode for the direct replies (SYN-ACK / RST), which carry no per-probe identifier. -/
def FlowsDistinctTcp (a b : TcpCfg) (sa sb : List Sent) : Prop :=
  TargetDiff a.target a.tport b.target b.tport ∨
  (LocalDiff a.localA a.lport b.localA b.lport ∧ ((a.loosen = false ∧ b.loosen = false) ∨ IdsDisjoint sa sb))

/-- the probe sequence-number windows `ISN + [min, max]` (mod 2^32) of two SACK runs are disjoint -/
def SeqWindowsDisjoint (a b : SackCfg) : Prop :=
  ∀ t t', a.min ≤ t → t ≤ a.max → b.min ≤ t' → t' ≤ b.max →
    (a.isn + t) % 4294967296 ≠ (b.isn + t') % 4294967296

/-- SACK: the target addr:port differs; or the local addr:port differs and (both strict, or the
    sequence-number windows are disjoint) -/
def FlowsDistinctSack (a b : SackCfg) : Prop :=
  TargetDiff a.target a.tport b.target b.tport ∨
  (LocalDiff a.localA a.lport b.localA b.lport ∧ ((a.loosen = false ∧ b.loosen = false) ∨ SeqWindowsDisjoint a b))

/-- UDP run `u` next to TCP-SYN run `c` (cross-protocol, see finding F11): the v4 matchers and the
    genuineness predicates do not look at the quoted IP protocol, and UDP and TCP ports are
    different name spaces, so equal port NUMBERS are possible.  What separates the runs is: target
    addr:port; or local addr:port under strict checking on both sides; or no TCP probe carrying an
    IP id in the UDP range `41821 + ttl` of a sent UDP probe. -/
def FlowsDistinctUdpTcp (u : UdpCfg) (c : TcpCfg) (su sc : List Sent) : Prop :=
  TargetDiff u.target u.tport c.target c.tport ∨
  (u.loosen = false ∧ c.loosen = false ∧ LocalDiff u.localA u.lport c.localA c.lport) ∨
  (∀ x ∈ su, ∀ y ∈ sc, x.id ≠ y.id)

/-! ## Executable versions (the oracle evaluates these on the harness' scenarios; equivalence with the
`Prop`s above: `Proofs.Alloc.flowsDistinct*B_iff`) -/

instance (a b : IcmpCfg) : Decidable (FlowsDistinctIcmp a b) := by unfold FlowsDistinctIcmp; exact inferInstance
instance (ta : Bytes) (pa : Nat) (tb : Bytes) (pb : Nat) : Decidable (TargetDiff ta pa tb pb) := by
  unfold TargetDiff; exact inferInstance
instance (la : Bytes) (pa : Nat) (lb : Bytes) (pb : Nat) : Decidable (LocalDiff la pa lb pb) := by
  unfold LocalDiff; exact inferInstance
instance (a b : UdpCfg) : Decidable (FlowsDistinctUdp a b) := by unfold FlowsDistinctUdp; exact inferInstance
instance (sa sb : List Sent) : Decidable (IdsDisjoint sa sb) := by unfold IdsDisjoint; exact inferInstance
instance (a b : TcpCfg) (sa sb : List Sent) : Decidable (FlowsDistinctTcp a b sa sb) := by
  unfold FlowsDistinctTcp; exact inferInstance
instance (u : UdpCfg) (c : TcpCfg) (su sc : List Sent) : Decidable (FlowsDistinctUdpTcp u c su sc) := by
  unfold FlowsDistinctUdpTcp; exact inferInstance

def seqWindowsDisjointB (a b : SackCfg) : Bool :=
  (List.range' a.min (a.max + 1 - a.min)).all fun t =>
    (List.range' b.min (b.max + 1 - b.min)).all fun t' =>
      decide ((a.isn + t) % 4294967296 ≠ (b.isn + t') % 4294967296)

def flowsDistinctSackB (a b : SackCfg) : Bool :=
  decide (TargetDiff a.target a.tport b.target b.tport) ||
  (decide (LocalDiff a.localA a.lport b.localA b.lport) &&
    ((a.loosen == false && b.loosen == false) || seqWindowsDisjointB a b))

/-! ## Cross-protocol witness configuration (finding F11), see `Props.C11` section 5 -/

def f11Local : Bytes := [10, 0, 0, 1]
def f11Target : Bytes := [10, 0, 0, 9]
def f11Router : Bytes := [10, 9, 9, 3]

/-- ICMP time-exceeded (code 0) from `src` to `dst` quoting the datagram `q` in full -/
def f11TE (src dst q : Bytes) : Bytes :=
  let body (ck : Nat) : Bytes := [byte 11, byte 0] ++ be16 ck ++ [byte 0, byte 0, byte 0, byte 0] ++ q
  Build.ip4Header 0xc0 (20 + 8 + q.length) 0x1234 0 250 1 src dst ++ body (Build.cksum (Build.sum16 (body 0)))

def f11UdpCfg : UdpCfg := { localA := f11Local, lport := 40000, target := f11Target, tport := 443, loosen := false }
def f11TcpCfg : TcpCfg := { localA := f11Local, lport := 40000, target := f11Target, tport := 443, loosen := false,
                            paris := false, baseId := 41820, seq := 7 }

/-- the UDP run after `SendProbe(2)` at time 5 -/
def f11UdpSt : UdpSt := match udpSend { cfg := f11UdpCfg, sent := [] } 2 5 with
  | .ok s _ => s
  | .err => { cfg := f11UdpCfg, sent := [] }

/-- the TCP run after `SendProbe(3)` at time 6, and the SYN it wrote -/
def f11TcpSt : TcpSt × Bytes := match tcpSend { cfg := f11TcpCfg, sent := [] } 3 6 0 with
  | .ok s p => (s, p)
  | .err => ({ cfg := f11TcpCfg, sent := [] }, [])

/-- the router's reply to the TCP run's TTL-3 probe -/
def f11Pkt : Bytes := f11TE f11Router f11Local f11TcpSt.2

/-- reverse direction: the UDP run's TTL-2 datagram, and a TCP run whose constant sequence number
    equals the UDP header's length and checksum words -/
def f11UdpProbe : Bytes := Build.udp4 f11Local f11Target 40000 443 2
def f11TcpCfg' : TcpCfg := { f11TcpCfg with baseId := 41821, seq := (u32 f11UdpProbe 24).getD 0 }
def f11TcpSt' : TcpSt := match tcpSend { cfg := f11TcpCfg', sent := [] } 2 6 0 with
  | .ok s _ => s
  | .err => { cfg := f11TcpCfg', sent := [] }


/-! ## "The result it would produce alone"

On the shared wire a run's receiver sees its own replies plus the other runs' traffic.  When every
foreign packet is classified `retry` by the run's matcher (isolation), the outcome list consumed on
the shared wire is the solo outcome list with extra `retry` entries inserted. -/

/-- an outcome list without its `retry` entries -/
def dropRetry : List Engine.ROut → List Engine.ROut
  | [] => []
  | .retry :: rest => dropRetry rest
  | .accept p :: rest => .accept p :: dropRetry rest
  | .fatal :: rest => .fatal :: dropRetry rest
  | .nilProbe :: rest => .nilProbe :: dropRetry rest

/-- two outcome lists differ only by `retry` entries -/
def SameUpToRetries (a b : List Engine.ROut) : Prop := dropRetry a = dropRetry b

end TRV.Spec
