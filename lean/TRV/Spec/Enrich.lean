import TRV.Model.Enrich
/-!
# C18 reference predicates, written from the property text

Independent of the model's control flow: the reverse-DNS spec talks about the finished document
only, the cache spec about a trace of observations, the public-IP spec about closed-form prefix
sums over the scripts (no recursion over retry state).  Shared vocabulary taken from the model file:
the document shape, `Attempt`, and `parseBody` (= what Go's `net.ParseIP ∘ strings.TrimSpace` accepts).
-/
namespace TRV.Spec.Enr
open TRV TRV.Enrich

variable {ν β γ δ κ : Type}

/-! ## reverse DNS -/

/-- "names attached to a hop are exactly those the resolver returned for that same address; a failed
    lookup (or an unanswered hop: empty address) leaves the names empty" -/
def want (str : Bytes → κ) (resolver : κ → Option ν) (ip : Bytes) : Option ν :=
  if ip = [] then none else resolver (str ip)

/-- every destination and every hop satisfies `P address names` -/
def HopsSatisfy (P : Bytes → Names ν → Prop) (out : Doc ν β γ δ) : Prop :=
  ∀ r ∈ out.runs, P r.destIp r.destNames ∧ ∀ h ∈ r.hops, P h.ip h.names

def NamesExact (w : Bytes → Option ν) (out : Doc ν β γ δ) : Prop :=
  HopsSatisfy (fun ip n => n = w ip) out

def namesExactB [DecidableEq ν] (w : Bytes → Option ν) (out : Doc ν β γ δ) : Bool :=
  out.runs.all fun r => decide (r.destNames = w r.destIp) && r.hops.all fun h => decide (h.names = w h.ip)

/-- the document with every names field blanked: what enrichment must not touch -/
def eraseNames (d : Doc ν β γ δ) : Doc ν β γ δ :=
  { d with runs := d.runs.map fun r =>
      { r with destNames := none, hops := r.hops.map fun h => { h with names := none } } }

/-- "never fails or alters the rest of the result" -/
def RestUntouched (before after : Doc ν β γ δ) : Prop := eraseNames after = eraseNames before

/-- for a resolver that may answer differently per call (`cs` = what each lookup returned): names
    come from a successful lookup *of that same raw address*, and are empty exactly when every
    lookup of that address failed -/
def FromSameAddress (cs : List (Completion ν)) (ip : Bytes) (n : Names ν) : Prop :=
  (∀ v, n = some v → (ip, some v) ∈ cs) ∧ (n = none ↔ ∀ c ∈ cs, c.1 = ip → c.2 = none)

/-- executable form of `FromSameAddress` -/
def fromSameB [DecidableEq ν] (cs : List (Completion ν)) (ip : Bytes) (n : Names ν) : Bool :=
  match n with
  | some v => cs.contains (ip, some v)
  | none => cs.all fun c => !(decide (c.1 = ip)) || c.2.isNone

/-- the lookups of one address all returned the same thing -/
def Consistent (cs : List (Completion ν)) : Prop :=
  ∀ c ∈ cs, ∀ c' ∈ cs, c.1 = c'.1 → c.2 = c'.2

/-! ## cache: a trace of sequential observations -/

variable {K V : Type} [DecidableEq K] [DecidableEq V]

/-- the latest stored success for `k` in the (reversed) history since the last flush -/
def lastSuccess (k : K) : List (Obs K V) → Option (V × Nat × Int)
  | [] => none
  | .flush :: _ => none
  | .call _ k' ttl ran out doneAt _ :: rest =>
    if k' = k ∧ ran = true then
      match out with
      | some v => some (v, doneAt, ttl)
      | none => lastSuccess k rest
    else lastSuccess k rest

/-- the stored success `(v, t, ttl)` is still to be served at `now` -/
def stillValid (now : Nat) (t : Nat) (ttl : Int) : Bool :=
  let d := if ttl = 0 then defaultExpire else ttl
  decide (d ≤ 0) || decide (now ≤ t + d.toNat)

/-- "return the stored success until expiry without re-querying; failures are never cached":
    the call is a hit (no callback, stored value returned) iff the latest success is still valid;
    otherwise the callback runs exactly once and its own outcome is returned -/
def callOK (hist : List (Obs K V)) : Obs K V → Bool
  | .flush => true
  | .call at_ k _ ran out _ result =>
    match lastSuccess k hist with
    | some (v, t, ttl) =>
      if stillValid at_ t ttl then ran == false && result == some v
      else ran == true && result == out
    | none => ran == true && result == out

/-- every observation is right given the ones before it (`hist` is most-recent-first) -/
def traceOKFrom (hist : List (Obs K V)) : List (Obs K V) → Bool
  | [] => true
  | o :: rest => callOK hist o && traceOKFrom (o :: hist) rest

def traceOK (tr : List (Obs K V)) : Bool := traceOKFrom [] tr

/-! ## public IP -/

/-- "client errors and invalid bodies are final for that provider" -/
def final : Attempt → Bool
  | .resp st body _ => (decide (400 ≤ st) && decide (st < 500)) || (parseBody body).isNone
  | _ => false

/-- a response carrying a valid address (and not a client error) -/
def valid : Attempt → Option Bytes
  | .resp st body _ => if 400 ≤ st ∧ st < 500 then none else parseBody body
  | _ => none

/-- neither: a failure worth retrying while the budget lasts -/
def retryable (a : Attempt) : Bool := !final a && (valid a).isNone

/-- the time (from the provider's start) at which the wait after attempt `j` ends -/
def endOfWait (p : Provider) (j : Nat) : Nat :=
  (((p.script.zip p.ivals).take (j + 1)).map fun ab => ab.1.dur + ab.2).sum

/-- provider `p` yields address `ip` at its `k`-th attempt (0-based) within its budget: every
    earlier attempt was retryable and the wait after it ended before the provider's deadline -/
def SucceedsAt (p : Provider) (k : Nat) (ip : Bytes) : Prop :=
  (∃ a, p.script[k]? = some a ∧ valid a = some ip) ∧
  ∀ j, j < k → (∃ a b, p.script[j]? = some a ∧ retryable a = true ∧ p.ivals[j]? = some b) ∧
    endOfWait p j < p.budget

def Succeeds (p : Provider) : Prop := ∃ k ip, SucceedsAt p k ip

/-- "asks providers in order, stops at the first valid address": provider `i` succeeds with `ip`
    and no provider before it succeeds -/
def FirstValid (ps : List Provider) (i : Nat) (ip : Bytes) : Prop :=
  (∃ p, ps[i]? = some p ∧ ∃ k, SucceedsAt p k ip) ∧
  ∀ j, j < i → ∀ p, ps[j]? = some p → ¬ Succeeds p

/-- executable form of `Succeeds`: index of the first non-retryable attempt, closed form -/
def providerYield (p : Provider) : Option Bytes :=
  let k := p.script.findIdx fun a => !retryable a
  match p.script[k]? with
  | none => none
  | some a =>
    match valid a with
    | none => none
    | some ip =>
      if k = 0 then some ip
      else if k ≤ p.ivals.length ∧ endOfWait p (k - 1) < p.budget then some ip
      else none

/-- executable form of `FirstValid` -/
def firstValid (ps : List Provider) : Option (Nat × Bytes) :=
  let i := ps.findIdx fun p => (providerYield p).isSome
  match ps[i]? with
  | none => none
  | some p => (providerYield p).map fun ip => (i, ip)

end TRV.Spec.Enr
