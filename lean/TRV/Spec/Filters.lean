import TRV.Basic.Bytes
/-!
# Reference predicates for the capture filters (C12)

Written from the property text, on the raw Ethernet frame as the `AF_PACKET` socket sees it, with
RFC field offsets — independent of the BPF programs and of the BPF interpreter.  A field that lies
(partly) beyond the end of the frame is "not present" and nothing that depends on it holds.

Frame layout used (Ethernet II, no VLAN tag):

| offset | field |
|---|---|
| 12..13 | EtherType (0x0800 IPv4, 0x86dd IPv6) |
| 14 | IPv4 version/IHL (IHL = low nibble, header length `4·IHL`) |
| 20..21 | IPv4 flags (3 bits: reserved, DF, MF) + fragment offset (13 bits) |
| 23 | IPv4 protocol (1 ICMP, 6 TCP, 17 UDP) |
| 26..29 / 30..33 | IPv4 source / destination address |
| 14+4·IHL .. +1 / +2 .. +3 | TCP source / destination port |
| 14+4·IHL+13 | TCP flag byte (FIN 0x01, SYN 0x02, RST 0x04, PSH 0x08, ACK 0x10, …) |
| 20 | IPv6 next header (58 ICMPv6, 44 fragment header, 17 UDP) |
| 54 | next header field of an IPv6 fragment header that directly follows the fixed header |

**What "unfragmented" means here.**  The property says "unfragmented IPv4 TCP".  The predicate below
(and tcpdump's generated code) requires only *fragment offset = 0*: the thirteen low bits of the
16-bit word at 20 are zero.  The MF (more fragments) bit is **not** inspected, so the *first*
fragment of a fragmented datagram (offset 0, MF set) counts as "unfragmented" — it is the fragment
that carries the TCP header, which is all the filters and the matchers look at.  Later fragments
(offset ≠ 0) are excluded.  The IHL nibble is taken as is (values 0..4 are not rejected; the ports
are then read from inside the IP header, exactly as the kernel's `ldxb 4*([14]&0xf)` does).
-/
namespace TRV.Spec.Filters
open TRV

/-- EtherType says IPv4 -/
def isIPv4 (f : Bytes) : Bool := u16 f 12 == some 0x0800
/-- EtherType says IPv6 -/
def isIPv6 (f : Bytes) : Bool := u16 f 12 == some 0x86dd

/-- IPv4 protocol field -/
def ipProto (f : Bytes) : Option Nat := u8 f 23

/-- the 13-bit IPv4 fragment offset is present and zero (MF is ignored, see the module text) -/
def fragOffsetZero (f : Bytes) : Bool :=
  match u16 f 20 with
  | some w => w % 8192 == 0
  | none => false

def ipSrc (f : Bytes) : Option Nat := u32 f 26
def ipDst (f : Bytes) : Option Nat := u32 f 30

/-- offset of the transport header: 14 + 4·IHL -/
def l4Offset (f : Bytes) : Option Nat := (u8 f 14).map fun b => 14 + 4 * (b % 16)

def tcpSrcPort (f : Bytes) : Option Nat := (l4Offset f).bind fun o => u16 f o
def tcpDstPort (f : Bytes) : Option Nat := (l4Offset f).bind fun o => u16 f (o + 2)
def tcpFlags (f : Bytes) : Option Nat := (l4Offset f).bind fun o => u8 f (o + 13)

/-- IPv6 next header of the fixed header -/
def ip6Next (f : Bytes) : Option Nat := u8 f 20
/-- next header of a fragment header placed directly after the fixed IPv6 header -/
def ip6FragNext (f : Bytes) : Option Nat := u8 f 54

/-- TCP-tuple filter: IPv4 ICMP, or IPv4 TCP at fragment offset 0 with the configured source and
    destination address and port.  Addresses are the big-endian values of the four address bytes. -/
def tupleSpec (srcAddr dstAddr srcPort dstPort : Nat) (f : Bytes) : Bool :=
  isIPv4 f &&
    (ipProto f == some 1 ||
     (ipProto f == some 6 && ipSrc f == some srcAddr && ipDst f == some dstAddr &&
      fragOffsetZero f && tcpSrcPort f == some srcPort && tcpDstPort f == some dstPort))

/-- SYN-ACK filter: IPv4 TCP at fragment offset 0 with both SYN (bit 1) and ACK (bit 4) set -/
def synackSpec (f : Bytes) : Bool :=
  isIPv4 f && ipProto f == some 6 && fragOffsetZero f &&
    (match tcpFlags f with
     | some fl => fl.testBit 1 && fl.testBit 4
     | none => false)

/-- ICMPv6 directly after the fixed IPv6 header or after one fragment header -/
def isICMPv6 (f : Bytes) : Bool :=
  isIPv6 f && (ip6Next f == some 58 || (ip6Next f == some 44 && ip6FragNext f == some 58))

/-- ICMP filter: ICMPv4, or ICMPv6 (directly or after a fragment header) -/
def icmpSpec (f : Bytes) : Bool :=
  (isIPv4 f && ipProto f == some 1) || isICMPv6 f

/-- UDP over IPv4, or over IPv6 directly or after one fragment header (tcpdump's `udp`) -/
def isUDP (f : Bytes) : Bool :=
  (isIPv4 f && ipProto f == some 17) ||
  (isIPv6 f && (ip6Next f == some 17 || (ip6Next f == some 44 && ip6FragNext f == some 17)))

/-- UDP filter ("ICMPv4, ICMPv6 and UDP traffic") -/
def udpSpec (f : Bytes) : Bool := icmpSpec f || isUDP f

/-- drop-all filter -/
def dropAllSpec (_ : Bytes) : Bool := false

/-! ## What each variant needs to see (superset direction)

Written from what the variants wait for, not from the filters: ICMP and UDP traceroute build hops
from ICMP / ICMPv6 messages only (echo reply, time exceeded, destination unreachable); TCP
traceroute from IPv4 ICMP messages and from TCP segments sent by the target's address and port to
the local address and port; SACK traceroute first waits for the SYN-ACK of its handshake (a TCP
segment from the target to the local socket with SYN and ACK set) and then probes like TCP
traceroute.  `srcAddr:srcPort` is the *remote* (target) end and `dstAddr:dstPort` the *local* end,
i.e. source and destination as they appear in a reply.

These are upper bounds on the frames a matcher can use (a matcher checks more: ICMP type, the
quoted probe, sequence numbers); the composition with the matcher models is owed by the drivers'
module. -/

inductive Need where
  /-- any ICMPv4 / ICMPv6 message -/
  | icmpAny
  /-- the handshake SYN-ACK from the target to the local socket -/
  | synackFromTarget
  /-- IPv4 ICMP, or TCP from the target's address:port to the local address:port -/
  | tuple
deriving Repr, DecidableEq

def needSpec (n : Need) (srcAddr dstAddr srcPort dstPort : Nat) (f : Bytes) : Bool :=
  match n with
  | .icmpAny => icmpSpec f
  | .synackFromTarget => synackSpec f && tupleSpec srcAddr dstAddr srcPort dstPort f
  | .tuple => tupleSpec srcAddr dstAddr srcPort dstPort f

/-- the phases of the four variants that install a capture filter, per file in source order -/
def siteNeeds : List (String × Need) := [
  ("icmp/traceroute_icmp.go", .icmpAny),
  ("sack/traceroute_sack.go", .synackFromTarget),
  ("sack/traceroute_sack.go", .tuple),
  ("tcp/tcp_traceroute.go", .tuple),
  ("udp/udp_traceroute.go", .icmpAny)]

end TRV.Spec.Filters
