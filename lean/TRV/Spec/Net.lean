import TRV.Model.Net
/-!
# Reference result for C13, written from the property text

"Every protocol variant reports exactly the chain of router addresses followed by the destination,
with the destination as the only destination-marked hop and non-negative RTTs; a silent router is an
empty hop."  For a trace that probes TTLs `min..max` over `N` routers:

* the hop for TTL `t ≤ N` is router `t`'s address (no address where the router is silent), not
  marked destination;
* the first probed TTL that reaches the destination is `d = max min (N+1)`; if `d ≤ max` the list
  ends with the destination's address at TTL `d`, marked destination, and nothing follows it;
  otherwise the list ends at `max` with routers only.

Executable: the harness evaluates `traceOK` on the hop list the real CLI printed.
-/
namespace TRV.Spec.Net
open TRV TRV.Engine TRV.Net

/-- the expected entry for a TTL that expires at a router -/
def routerHop (n : Net) (t : Nat) : PHop :=
  match n.routers[t - 1]? with
  | some r => { ttl := t, ip := if r.silent then [] else r.addr, dest := false }
  | none => { ttl := t, ip := [], dest := false }

/-- the expected entry for the destination -/
def destHop (n : Net) (t : Nat) : PHop := { ttl := t, ip := n.dest.addr, dest := true }

/-- the expected hop list (RTTs aside) -/
def expectedHops (n : Net) (min max : Nat) : List PHop :=
  let d := destTTL n min
  (List.range' min (Nat.min d (max + 1) - min)).map (routerHop n) ++
    (if d ≤ max then [destHop n d] else [])

/-- the property as a predicate on a reported hop list -/
def traceOK (n : Net) (min max : Nat) (hops : List Hop) : Bool :=
  hops.map erase == expectedHops n min max && hops.all (fun h => decide (0 ≤ h.rtt))

end TRV.Spec.Net
