import TRV.Model.Multi
/-!
# Reference predicates for C15 (multi-query all-or-error), written from the property text

The request is described by its outcomes in *request order* (`outs`: one entry per requested run and
per requested e2e probe), not by the order in which they completed.

* the call succeeds **iff** every outcome is a success;
* on success the result holds exactly the requested number of runs and samples, and as multisets they
  are the successful outcomes (none lost, none duplicated);
* on failure there is no result and the joined error exposes every individual failure exactly once;
* the public-IP outcome is irrelevant to success.

All predicates are executable (`List.isPerm` on naturals) so the harness evaluates them on the
implementation's own `(result, error)`.
-/
namespace TRV.Spec.Multi
open TRV.Multi

def isOk : Completion → Bool
  | .run _ (.ok _) => true
  | .probe _ (.ok _) => true
  | _ => false

def isRun : Completion → Bool
  | .run _ _ => true
  | _ => false

def allOk (outs : List Completion) : Bool := outs.all isOk

def nRuns (outs : List Completion) : Nat := (outs.filter isRun).length
def nProbes (outs : List Completion) : Nat := (outs.filter (fun c => !isRun c)).length

/-- results of the successful runs, request order -/
def okRuns (outs : List Completion) : List RunRes :=
  outs.filterMap fun | .run _ (.ok r) => some r | _ => none

/-- samples of the successful probes, request order -/
def okRtts (outs : List Completion) : List Rtt :=
  outs.filterMap fun | .probe _ (.ok t) => some t | _ => none

/-- every individual failure, request order -/
def failures (outs : List Completion) : List Err :=
  outs.filterMap fun | .run _ (.err e) => some e | .probe _ (.err e) => some e | _ => none

/-- the all-or-error contract on an observed `(result, error)` -/
def allOrError (outs : List Completion) (res : Res) : Bool :=
  match res with
  | .ok r =>
      allOk outs && r.runs.length == nRuns outs && r.rtts.length == nProbes outs &&
      r.runs.isPerm (okRuns outs) && r.rtts.isPerm (okRtts outs)
  | .joined es => !allOk outs && es.isPerm (failures outs)

end TRV.Spec.Multi
