import TRV.Model.Timed
import TRV.Model.Drivers
import TRV.Spec.Engine
/-!
# Reference predicates for RTT fidelity (C05) and bounded termination (C08)

Written from the property texts.  RTT: "the time between handing that TTL's probe to the network
and the arrival of the first reply accepted for it; never negative; never measured against a
different probe's send time; the end-to-end RTT is the destination hop's RTT, 0 = no answer".
Bounds: "listening timeout plus per-probe delays plus one poll interval for parallel runs, the
per-TTL sum for serial runs, handshake and lookup timeouts included; a cancelled run returns the
cancellation error within one poll interval plus one send delay".
-/
namespace TRV.Spec.Timed
open TRV TRV.Engine TRV.Timed

/-! ## C05 -/

/-- the reported RTT of a reply read at `now` for a probe handed to the sink at `sentAt` -/
def rttOf (now sentAt : Nat) : Int := (now : Int) - (sentAt : Int)

/-- monotone clock: every recorded probe was sent at or before `now` -/
def SentBefore (now : Nat) (sent : List Drv.Sent) : Prop := ∀ p ∈ sent, p.time ≤ now

/-- each TTL was probed at most once (the engines send every TTL once) -/
def SentOnce (sent : List Drv.Sent) : Prop := ∀ p ∈ sent, ∀ q ∈ sent, p.ttl = q.ttl → p = q

/-- the earliest accepted reply for TTL `t` -/
def firstAccepted (σ : List Probe) (t : Nat) : Option Probe := σ.find? (fun p => p.ttl = t)

/-- "no reply arrives after its own window" (the restriction under which the serial engine is
    specified, see C02): the reply accepted in the window of TTL `k` is a reply to that probe -/
def Aligned (min max : Nat) : Nat → List (List ROut) → Prop
  | _, [] => True
  | k, w :: ws => (∀ p, serialWindow min max w = .ok (some p) → p.ttl = k) ∧ Aligned min max (k + 1) ws

/-- the replies the serial engine accepted, in order: one per window at most, up to and including
    the first destination reply -/
def serialAccepted (min max : Nat) : List (List ROut) → List Probe
  | [] => []
  | w :: ws =>
    match serialWindow min max w with
    | .ok (some p) => if p.dest then [p] else p :: serialAccepted min max ws
    | .ok none => serialAccepted min max ws
    | .error _ => []

/-- end-to-end sample from a hop list: the destination hop's RTT, 0 when there is none -/
def e2eSpec (hops : List Hop) : Int :=
  match hops.filter (·.dest) with
  | [] => 0
  | h :: _ => h.rtt

/-- duration → milliseconds as an exact rational `num/den` (`ConvertDurationToMs`) -/
def msOf (ns : Int) : Int × Nat := (ns, 1000000)

/-! ## C08 -/

/-- `DriverOK`: every `ReceiveProbe` call returns within `poll`, every `SendProbe` within `σ` -/
def DriverOK (c : Cfg) (σ : Nat) (script : List RCall) (sd : Nat → Nat) : Prop :=
  (∀ e ∈ script, e.dur ≤ c.poll) ∧ ∀ i, sd i ≤ σ

/-- the driver never fails: no fatal receive error, no nil or out-of-range probe, no send error -/
def NoFail (c : Cfg) (script : List RCall) (sfail : Nat → Bool) : Prop :=
  (∀ e ∈ script, e.out = .retry ∨ ∃ p, e.out = .accept p ∧ validProbe c.min c.max p = true) ∧
  ∀ i, sfail i = false

def serialBound (c : Cfg) (σ : Nat) : Nat := c.count * (max c.timeout c.delay + c.poll + σ)

def parallelBound (c : Cfg) (σ : Nat) : Nat := c.timeout + c.count * c.delay + c.poll + c.count * σ

/-- after the caller's cancellation -/
def cancelBound (c : Cfg) (σ : Nat) : Nat := c.poll + c.delay + σ

/-- SACK: handshake dial budget `D`, handshake read budget `H` -/
def sackBound (c : Cfg) (σ D H : Nat) : Nat := D + H + parallelBound c σ

/-- executable form used on the implementation's own elapsed time -/
def withinBound (elapsed bound : Nat) : Bool := decide (elapsed ≤ bound)

end TRV.Spec.Timed
