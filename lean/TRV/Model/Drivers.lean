import TRV.Model.Wire
import TRV.Model.Build
/-!
# Driver models: `icmp/icmp_driver.go`, `udp/udp_driver.go`, `tcp/tcp_driver.go`, `sack/sack_driver.go`

`send` mirrors `SendProbe` (bookkeeping + bytes handed to the sink), `recv` mirrors
`ReceiveProbe` after a successful read of `pkt` (i.e. `ReadAndParse` + `handleProbeLayers`).
Outcome classes are the ones the engines distinguish:

* `accept ttl ip dest sentAt` — a `ProbeResponse` (RTT = now − sentAt)
* `retry`        — `CheckProbeRetryable` (no match / bad packet / ignored layer)
* `notSupported` — `sack.NotSupportedError`
* `fatal`        — any other error

Addresses are raw byte strings: 4 bytes = IPv4, 16 bytes = IPv6 (configuration addresses are
assumed canonical, i.e. not IPv4-mapped; `netip.Addr` equality is then byte equality).
-/
namespace TRV.Drv
open TRV TRV.Wire

inductive Out where
  | accept (ttl : Nat) (ip : Bytes) (dest : Bool) (sentAt : Nat)
  | retry
  | notSupported
  | fatal
deriving Repr, DecidableEq

/-- one recorded probe -/
structure Sent where
  ttl : Nat
  id : Nat        -- IP id / v6 payload-length id (UDP, TCP)
  seq : Nat       -- TCP sequence number (TCP)
  time : Nat      -- send time (ns on the harness clock)
deriving Repr, DecidableEq

inductive SendRes (σ : Type) where
  | ok (st : σ) (pkt : Bytes)
  | err                       -- `SendProbe` returned an error, nothing written
deriving Repr

/-! ## ICMP -/

structure IcmpCfg where
  localA : Bytes
  target : Bytes
  echoId : Nat
  min : Nat
  max : Nat
deriving Repr, DecidableEq

structure IcmpSt where
  cfg : IcmpCfg
  sent : List Sent       -- `sentProbes map[uint8]time.Time`, as an association list
deriving Repr

def IcmpSt.find (s : IcmpSt) (ttl : Nat) : Option Sent := s.sent.find? (·.ttl = ttl)

def icmpSend (s : IcmpSt) (ttl now : Nat) : SendRes IcmpSt :=
  if ttl < s.cfg.min ∨ ttl > s.cfg.max then .err
  else if (s.find ttl).isSome then .err
  else
    let pkt := if s.cfg.localA.length = 16 then Build.icmp6 s.cfg.localA s.cfg.target s.cfg.echoId ttl
               else Build.icmp4 s.cfg.localA s.cfg.target s.cfg.echoId ttl
    .ok { s with sent := s.sent ++ [{ ttl, id := s.cfg.echoId, seq := ttl, time := now }] } pkt

/-- `getRTTFromRelSeq` + the 16-bit sequence guard: the sequence number must be a probed TTL -/
def icmpLookup (s : IcmpSt) (seq : Nat) : Option Sent :=
  if seq > 255 then none
  else if seq < s.cfg.min ∨ seq > s.cfg.max then none
  else s.find seq

/-- `extractEchoRequest`: ICMPv6 + ICMPv6Echo decoding of the quoted payload; `none` = error -/
def extractEcho6 (p : Bytes) : Option (Nat × Nat) :=
  match icmp6 p with
  | none => none
  | some j =>
    if j.payload.isEmpty then some (0, 0)            -- loop ends after the ICMPv6 layer: zero Echo
    else if j.type = 128 ∨ j.type = 129 then
      match u16 j.payload 0, u16 j.payload 2 with
      | some id, some seq => some (id, seq)
      | _, _ => none
    else none                                        -- UnsupportedLayerType is returned as an error

/-- quoted ICMPv4 echo via `icmp.ParseMessage` + `.(*icmp.Echo)`; `none` = bad packet -/
def parseEcho4 (q : Bytes) : Option (Nat × Nat) :=
  match u8 q 0, u16 q 4, u16 q 6 with
  | some ty, some id, some seq => if ty = 8 ∨ ty = 0 then some (id, seq) else none
  | _, _, _ => none

def icmpRecv (s : IcmpSt) (pkt : Bytes) : Out :=
  if pkt.isEmpty then .fatal else   -- `ReadAndParse`: "Read() returned 0 bytes"
  match parse (pkt.take bufSize) with
  | none => .retry
  | some (l3, l4) =>
    match l4 with
    | .icmp4 i =>
      if i.type = 11 then
        match icmpInfo4 i with
        | none => .retry
        | some info =>
          if info.qdst ≠ s.cfg.target then .retry
          else if info.qsrc ≠ s.cfg.localA then .retry
          else if info.proto ≠ 1 then .retry        -- the quoted packet is not ICMP (fix for F11)
          else
            match parseEcho4 info.payload with
            | none => .retry
            | some (id, seq) =>
              if id ≠ s.cfg.echoId then .retry
              else match icmpLookup s seq with
                | none => .retry
                | some p => .accept seq l3.src false p.time
      else if i.type = 0 then
        if i.id ≠ s.cfg.echoId then .retry
        else if l3.src ≠ s.cfg.target then .retry
        else match icmpLookup s i.seq with
          | none => .retry
          | some p => .accept i.seq l3.src true p.time
      else .retry
    | .icmp6 i =>
      if i.type = 3 then
        match icmpInfo6 i with
        | none => .retry
        | some info =>
          if info.qdst ≠ s.cfg.target then .retry
          else if info.qsrc ≠ s.cfg.localA then .retry
          else if info.proto ≠ 58 then .retry       -- the quoted packet is not ICMPv6 (fix for F11)
          else
            match extractEcho6 info.payload with
            | none => .retry
            | some (id, seq) =>
              if id ≠ s.cfg.echoId then .retry
              else match icmpLookup s seq with
                | none => .retry
                | some p => .accept seq l3.src false p.time
      else if i.type = 129 then
        match u16 i.payload 0, u16 i.payload 2 with
        | some id, some seq =>
          if id ≠ s.cfg.echoId then .retry
          else if l3.src ≠ s.cfg.target then .retry
          else match icmpLookup s seq with
            | none => .retry
            | some p => .accept seq l3.src true p.time
        | _, _ => .retry
      else .retry
    | .tcp _ => .retry

/-! ## UDP -/

structure UdpCfg where
  localA : Bytes
  lport : Nat
  target : Bytes
  tport : Nat
  loosen : Bool
deriving Repr, DecidableEq

structure UdpSt where
  cfg : UdpCfg
  sent : List Sent      -- `sentProbes map[probeID]probeData`
deriving Repr

def udpId (cfg : UdpCfg) (ttl : Nat) : Nat :=
  if cfg.target.length = 4 then Build.udp4Id ttl else Build.udp6Id ttl

def udpSend (s : UdpSt) (ttl now : Nat) : SendRes UdpSt :=
  let id := udpId s.cfg ttl
  if (s.sent.find? (·.id = id)).isSome then .err
  else
    let pkt := if s.cfg.target.length = 4 then Build.udp4 s.cfg.localA s.cfg.target s.cfg.lport s.cfg.tport ttl
               else Build.udp6 s.cfg.localA s.cfg.target s.cfg.lport s.cfg.tport ttl
    .ok { s with sent := s.sent ++ [{ ttl, id, seq := 0, time := now }] } pkt

/-- first 8 bytes of the quoted transport header as (srcPort, dstPort) — `ParseUDPFirstBytes` /
    `ParseTCPFirstBytes` need 8 bytes -/
def quotedPorts (p : Bytes) : Option (Nat × Nat) :=
  if p.length < 8 then none else
  match u16 p 0, u16 p 2 with
  | some a, some b => some (a, b)
  | _, _ => none

def udpRecv (s : UdpSt) (pkt : Bytes) : Out :=
  if pkt.isEmpty then .fatal else   -- `ReadAndParse`: "Read() returned 0 bytes"
  match parse (pkt.take bufSize) with
  | none => .retry
  | some (l3, l4) =>
    let info? : Option (Option ICMPInfo) := match l4 with
      | .icmp4 i => if (i.type = 11 ∧ i.code = 0) ∨ i.type = 3 then some (icmpInfo4 i) else none
      | .icmp6 i => if (i.type = 3 ∧ i.code = 0) ∨ i.type = 1 then some (icmpInfo6 i) else none
      | .tcp _ => none
    match info? with
    | none => .retry
    | some none => .retry
    | some (some info) =>
      if info.proto ≠ 17 then .retry else           -- the quoted packet is not UDP (fix for F11)
      match quotedPorts info.payload with
      | none => .retry
      | some (sp, dp) =>
        if ¬ (info.qdst = s.cfg.target ∧ dp = s.cfg.tport) then .retry
        else if !s.cfg.loosen ∧ ¬ (info.qsrc = s.cfg.localA ∧ sp = s.cfg.lport) then .retry
        else match s.sent.find? (·.id = info.wrappedId) with
          | none => .retry
          | some p => .accept p.ttl l3.src (l3.src = s.cfg.target) p.time

/-! ## TCP SYN -/

structure TcpCfg where
  localA : Bytes
  lport : Nat
  target : Bytes
  tport : Nat
  loosen : Bool
  paris : Bool
  baseId : Nat        -- `basePacketID` (default mode)
  seq : Nat           -- constant sequence number (default mode)
deriving Repr, DecidableEq

structure TcpSt where
  cfg : TcpCfg
  sent : List Sent      -- `sentProbes []probeData`, in send order
deriving Repr

/-- `getNextPacketIDAndSeqNum`; in Paris mode the per-probe random sequence number is an input -/
def tcpIds (cfg : TcpCfg) (ttl rnd : Nat) : Nat × Nat :=
  if cfg.paris then (41821, rnd) else ((cfg.baseId + ttl) % 65536, cfg.seq)

def tcpSend (s : TcpSt) (ttl now rnd : Nat) : SendRes TcpSt :=
  let (id, seq) := tcpIds s.cfg ttl rnd
  .ok { s with sent := s.sent ++ [{ ttl, id, seq, time := now }] }
      (Build.tcpSyn s.cfg.localA s.cfg.target s.cfg.lport s.cfg.tport id seq ttl)

def quotedSeq (p : Bytes) : Option Nat := if p.length < 8 then none else u32 p 4

def tcpRecv (s : TcpSt) (pkt : Bytes) : Out :=
  if pkt.isEmpty then .fatal else   -- `ReadAndParse`: "Read() returned 0 bytes"
  match parse (pkt.take bufSize) with
  | none => .retry
  | some (l3, l4) =>
    match l4 with
    | .tcp t =>
      let isSynack := t.syn && t.ackf
      let isRst := t.rst
      let isRstAck := t.rst && t.ackf
      if !isSynack && !isRst && !isRstAck then .retry
      else if ¬ (l3.src = s.cfg.target ∧ l3.dst = s.cfg.localA) then .retry
      else if s.cfg.tport ≠ t.sport then .retry
      else if s.cfg.lport ≠ t.dport then .retry
      else
        match s.sent.getLast? with
        | none => .fatal                                      -- getLastSentProbe before any send
        | some last =>
          let expectedSeq := (t.ack + 4294967295) % 4294967296   -- Ack - 1 in uint32
          if (isSynack || isRstAck) && last.seq ≠ expectedSeq then .retry
          else .accept last.ttl l3.src true last.time
    | .icmp4 i =>
      if ¬ (i.type = 11 ∧ i.code = 0) then .retry
      else match icmpInfo4 i with
        | none => .retry
        | some info =>
          if info.proto ≠ 6 then .retry else        -- the quoted packet is not TCP (fix for F11)
          match quotedPorts info.payload, quotedSeq info.payload with
          | some (sp, dp), some sq =>
            if ¬ (info.qdst = s.cfg.target ∧ dp = s.cfg.tport) then .retry
            else if !s.cfg.loosen ∧ ¬ (info.qsrc = s.cfg.localA ∧ sp = s.cfg.lport) then .retry
            else match s.sent.find? (fun p => p.id = info.wrappedId ∧ p.seq = sq) with
              | none => .retry
              | some p => .accept p.ttl l3.src false p.time
          | _, _ => .retry
    | .icmp6 _ => .retry

/-! ## SACK -/

structure SackCfg where
  localA : Bytes
  lport : Nat
  target : Bytes
  tport : Nat
  loosen : Bool
  min : Nat
  max : Nat
  isn : Nat           -- localInitSeq
  iack : Nat          -- localInitAck
  ts : Option (Nat × Nat)   -- (tsValue, tsEcr) when timestamps were negotiated
deriving Repr, DecidableEq

structure SackSt where
  cfg : SackCfg
  sent : List Sent      -- `sendTimes []time.Time` indexed by TTL
deriving Repr

def SackSt.find (s : SackSt) (ttl : Nat) : Option Sent := s.sent.find? (·.ttl = ttl)

def sackSend (s : SackSt) (ttl now : Nat) : SendRes SackSt :=
  if ttl < s.cfg.min ∨ ttl > s.cfg.max then .err
  else if (s.find ttl).isSome then .err
  else .ok { s with sent := s.sent ++ [{ ttl, id := 41821, seq := (s.cfg.isn + ttl) % 4294967296, time := now }] }
        (Build.sack s.cfg.localA s.cfg.target s.cfg.lport s.cfg.tport s.cfg.isn s.cfg.iack ttl s.cfg.ts)

/-- left edges (relative to the ISN, mod 2^32) of every SACK block of one option's data -/
def sackEdges (isn : Nat) : Nat → Bytes → List Nat
  | 0, _ => []
  | fuel+1, data =>
    if data.length < 8 then [] else
    match u32 data 0 with
    | some l => ((l + 4294967296 - isn % 4294967296) % 4294967296) :: sackEdges isn fuel (data.drop 8)
    | none => []

/-- `getMinSack`: `none` = no SACK block found -/
def minSack (isn : Nat) (opts : List (Nat × Bytes)) : Option Nat :=
  let edges := (opts.filter (·.1 = 5)).flatMap (fun o => sackEdges isn o.2.length o.2)
  match edges with
  | [] => none
  | e :: es => some (es.foldl Nat.min e)

/-- `getRTTFromRelSeq` -/
def sackLookup (s : SackSt) (rel : Nat) : Option Sent :=
  if rel < s.cfg.min ∨ rel > s.cfg.max then none else s.find rel

def sackRecv (s : SackSt) (pkt : Bytes) : Out :=
  if pkt.isEmpty then .fatal else   -- `ReadAndParse`: "Read() returned 0 bytes"
  match parse (pkt.take bufSize) with
  | none => .retry
  | some (l3, l4) =>
    match l4 with
    | .tcp t =>
      if ¬ (l3.src = s.cfg.target ∧ l3.dst = s.cfg.localA) then .retry
      else if s.cfg.tport ≠ t.sport ∨ s.cfg.lport ≠ t.dport then .retry
      else if t.syn || t.fin || t.rst then .retry
      else match minSack s.cfg.isn t.opts with
        | none => .notSupported
        | some rel =>
          match sackLookup s rel with
          | none => .retry
          | some p => .accept rel l3.src true p.time
    | .icmp4 i =>
      if ¬ (i.type = 11 ∧ i.code = 0) then .retry
      else match icmpInfo4 i with
        | none => .retry
        | some info =>
          if info.proto ≠ 6 then .retry else        -- the quoted packet is not TCP (fix for F11)
          match quotedPorts info.payload, quotedSeq info.payload with
          | some (sp, dp), some sq =>
            if ¬ (info.qdst = s.cfg.target ∧ dp = s.cfg.tport) then .retry
            else if !s.cfg.loosen ∧ ¬ (info.qsrc = s.cfg.localA ∧ sp = s.cfg.lport) then .retry
            else
              let rel := (sq + 4294967296 - s.cfg.isn % 4294967296) % 4294967296
              match sackLookup s rel with
              | none => .retry
              | some p => .accept rel l3.src (l3.src = s.cfg.target) p.time
          | _, _ => .retry
    | .icmp6 _ => .retry

end TRV.Drv
