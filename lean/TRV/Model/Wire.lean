import TRV.Basic.Bytes
/-!
# Wire model: the reply parser (`packets/frame_parser.go`) over gopacket's decoders

Written line for line after gopacket v1.1.19 `layers/{ip4,ip6,tcp,icmp4,icmp6}.go` and
`parser.go`/`layers_decoder.go` (decoder chain of a `DecodingLayerParser` that owns the decoders
{IP, TCP, ICMP, Payload}).  `none` of a decoder = gopacket returned a decode error.

Outcome classes of `FrameParser.Parse` (after the `fix:` that classifies decode errors as bad
packets): a usable two-layer view, or "retryable" (ignored layer / bad packet).  The model does not
distinguish the two retryable classes because the engines do not.
-/
namespace TRV.Wire

/-- bytes `[off, off+n)` of `d` (Go `d[off:off+n]` when in range) -/
def slice (d : Bytes) (off n : Nat) : Bytes := (d.drop off).take n

/-! ## IPv4 (`layers.IPv4.DecodeFromBytes`) -/

/-- the IPv4 options loop; `false` = decode error. `fuel` bounds the iterations (each consumes ≥ 1
    byte); callers pass `data.length`. -/
def ip4OptsOK : Nat → Bytes → Bool
  | 0, _ => true
  | fuel+1, data =>
    match data with
    | [] => true
    | t :: rest =>
      if t.toNat = 0 then true                       -- end of options
      else if t.toNat = 1 then ip4OptsOK fuel rest   -- 1 byte padding
      else
        match rest with
        | [] => false                                -- len(data) < 2
        | l :: _ =>
          if data.length < l.toNat then false        -- option length exceeds remaining header
          else if l.toNat ≤ 2 then false             -- must be greater than 2
          else ip4OptsOK fuel (data.drop l.toNat)

structure IP4 where
  ihl : Nat
  tos : Nat
  len : Nat          -- total length (replaced by len(data) when the field is 0)
  id : Nat
  ff : Nat           -- flags+fragment offset, 16 bits
  ttl : Nat
  proto : Nat
  src : Bytes        -- 4 bytes
  dst : Bytes        -- 4 bytes
  payload : Bytes
deriving Repr, DecidableEq

/-- `if ip.Length == 0 { ip.Length = uint16(len(data)) }` -/
def ip4Len (l dlen : Nat) : Nat := if l = 0 then dlen % 65536 else l

/-- `if len(data) > Length { data = data[:Length] }` -/
def ip4Cut (d : Bytes) (len : Nat) : Bytes := if d.length > len then d.take len else d

def ip4 (d : Bytes) : Option IP4 :=
  if d.length < 20 then none else
  match u8 d 0, u8 d 1, u16 d 2, u16 d 4, u16 d 6, u8 d 8, u8 d 9 with
  | some b0, some tos, some l, some id, some ff, some ttl, some pr =>
    if ip4Len l d.length < 20 then none
    else if b0 % 16 < 5 then none
    else if b0 % 16 * 4 > ip4Len l d.length then none
    else if b0 % 16 * 4 > (ip4Cut d (ip4Len l d.length)).length then none   -- "Not all IP header bytes available"
    else if !ip4OptsOK (b0 % 16 * 4 - 20) (slice (ip4Cut d (ip4Len l d.length)) 20 (b0 % 16 * 4 - 20)) then none
    else some { ihl := b0 % 16, tos, len := ip4Len l d.length, id, ff, ttl, proto := pr,
                src := slice d 12 4, dst := slice d 16 4,
                payload := (ip4Cut d (ip4Len l d.length)).drop (b0 % 16 * 4) }
  | _, _, _, _, _, _, _ => none

/-- `IPv4.NextLayerType` is `LayerTypeFragment` -/
def IP4.isFrag (h : IP4) : Bool := h.ff % 16384 ≠ 0   -- MF (0x2000) or offset (0x1fff)

/-! ## IPv6 (`layers.IPv6.DecodeFromBytes`, hop-by-hop header folded in) -/

/-- `IPv6HopByHop.DecodeFromBytes` TLV loop (`decodeIPv6HeaderTLVOption`). `data` is the whole IPv6
    payload (the loop slices `data[offset:]`, i.e. it can read past the header length, as gopacket
    does), `off` the current offset, `alen` the header's ActualLength. `none` = decode error,
    else the options as (type, data). -/
def hbhTLVs : Nat → Bytes → Nat → Nat → Option (List (Nat × Bytes))
  | 0, _, _, _ => some []
  | fuel+1, data, off, alen =>
    if off < alen then
      if data.length - off < 2 then none                          -- "IPv6 header option too small"
      else
        match data[off]?, data[off+1]? with
        | some t, some l =>
          if t.toNat = 0 then (hbhTLVs fuel data (off+1) alen).map ((0, []) :: ·)
          else if data.length - off < l.toNat + 2 then none       -- "TLV option too small"
          else (hbhTLVs fuel data (off + l.toNat + 2) alen).map
                 ((t.toNat, slice data (off+2) l.toNat) :: ·)
        | _, _ => none
    else some []

/-- `getIPv6HopByHopJumboLength`: `none` = error; `some none` = no jumbo option; `some (some l)` -/
def hbhJumbo (opts : List (Nat × Bytes)) : Option (Option Nat) :=
  match opts.find? (fun o => o.1 = 0xC2) with
  | none => some none
  | some j =>
    if j.2.length ≠ 4 then none
    else if beNat j.2 ≤ 65535 then none
    else some (some (beNat j.2))

structure IP6 where
  len : Nat
  nextHeader : Nat      -- the fixed header's next-header field
  hop : Nat
  src : Bytes           -- 16 bytes
  dst : Bytes           -- 16 bytes
  upper : Nat           -- protocol of the layer after IPv6 (hop-by-hop's next header if present)
  payload : Bytes
deriving Repr, DecidableEq

def ip6 (d : Bytes) : Option IP6 :=
  if d.length < 40 then none else
  match u16 d 4, u8 d 6, u8 d 7 with
  | some len, some nh, some hop =>
    let src := slice d 8 16
    let dst := slice d 24 16
    let pl := d.drop 40
    if nh = 0 then
      -- decodeIPv6ExtensionBase
      if pl.length < 2 then none else
      match u8 pl 0, u8 pl 1 with
      | some hnext, some hlen =>
        let alen := hlen * 8 + 8
        if pl.length < alen then none else
        match hbhTLVs alen pl 2 alen with
        | none => none
        | some opts =>
          match hbhJumbo opts with
          | none => none
          | some (some j) =>
            -- jumbo: the payload keeps the hop-by-hop header (gopacket does not strip it here)
            if len = 0 then
              some { len, nextHeader := nh, hop, src, dst, upper := hnext, payload := pl.take j }
            else none
          | some none =>
            if len = 0 then none else
            some { len, nextHeader := nh, hop, src, dst, upper := hnext, payload := (pl.drop alen).take len }
      | _, _ => none
    else
      if len = 0 then none
      else some { len, nextHeader := nh, hop, src, dst, upper := nh, payload := pl.take len }
  | _, _, _ => none

/-! ## TCP (`layers.TCP.DecodeFromBytes`) -/

/-- TCP options loop: `none` = decode error, else the options as (kind, data) in order -/
def tcpOpts : Nat → Bytes → Option (List (Nat × Bytes))
  | 0, _ => some []
  | fuel+1, data =>
    match data with
    | [] => some []
    | k :: rest =>
      if k.toNat = 0 then some [(0, [])]                                   -- end of list
      else if k.toNat = 1 then (tcpOpts fuel rest).map ((1, []) :: ·)      -- nop
      else
        match rest with
        | [] => none
        | l :: _ =>
          if l.toNat < 2 then none
          else if l.toNat > data.length then none
          else (tcpOpts fuel (data.drop l.toNat)).map ((k.toNat, slice data 2 (l.toNat - 2)) :: ·)

structure TCP where
  sport : Nat
  dport : Nat
  seq : Nat
  ack : Nat
  flags : Nat          -- byte 13
  opts : List (Nat × Bytes)
  payload : Bytes
deriving Repr, DecidableEq

def TCP.fin (t : TCP) : Bool := t.flags % 2 = 1
def TCP.syn (t : TCP) : Bool := (t.flags / 2) % 2 = 1
def TCP.rst (t : TCP) : Bool := (t.flags / 4) % 2 = 1
def TCP.ackf (t : TCP) : Bool := (t.flags / 16) % 2 = 1

def tcp (d : Bytes) : Option TCP :=
  if d.length < 20 then none else
  match u16 d 0, u16 d 2, u32 d 4, u32 d 8, u8 d 12, u8 d 13 with
  | some sp, some dp, some seq, some ack, some b12, some fl =>
    let doff := b12 / 16
    if doff < 5 then none
    else if doff * 4 > d.length then none
    else
      match tcpOpts (doff * 4 - 20) (slice d 20 (doff * 4 - 20)) with
      | none => none
      | some opts => some { sport := sp, dport := dp, seq, ack, flags := fl, opts, payload := d.drop (doff * 4) }
  | _, _, _, _, _, _ => none

/-! ## ICMP -/

structure ICMP4 where
  type : Nat
  code : Nat
  id : Nat
  seq : Nat
  payload : Bytes
deriving Repr, DecidableEq

def icmp4 (d : Bytes) : Option ICMP4 :=
  if d.length < 8 then none else
  match u8 d 0, u8 d 1, u16 d 4, u16 d 6 with
  | some ty, some co, some id, some seq => some { type := ty, code := co, id, seq, payload := d.drop 8 }
  | _, _, _, _ => none

structure ICMP6 where
  type : Nat
  code : Nat
  payload : Bytes
deriving Repr, DecidableEq

def icmp6 (d : Bytes) : Option ICMP6 :=
  if d.length < 4 then none else
  match u8 d 0, u8 d 1 with
  | some ty, some co => some { type := ty, code := co, payload := d.drop 4 }
  | _, _ => none

/-! ## `FrameParser.Parse` -/

inductive L3 where
  | v4 (h : IP4)
  | v6 (h : IP6)
deriving Repr, DecidableEq

inductive L4 where
  | tcp (t : TCP)
  | icmp4 (i : ICMP4)
  | icmp6 (i : ICMP6)
deriving Repr, DecidableEq

def L3.src : L3 → Bytes
  | .v4 h => h.src
  | .v6 h => h.src
def L3.dst : L3 → Bytes
  | .v4 h => h.dst
  | .v6 h => h.dst

/-- read buffer size of every driver (`make([]byte, 1024)`): longer packets are cut by `Read` -/
def bufSize : Nat := 1024

/-- `FrameParser.Parse` on a non-empty buffer: `some view` when two usable layers were decoded and
    `checkLayers` passes, `none` for every retryable outcome (ignored layer, bad packet, decode
    error, recovered gopacket panic). -/
def parse (buf : Bytes) : Option (L3 × L4) :=
  match u8 buf 0 with
  | none => none
  | some b0 =>
    if b0 / 16 = 4 then
      match ip4 buf with
      | none => none
      | some h =>
        if h.payload.isEmpty then none          -- one layer only
        else if h.isFrag then none              -- LayerTypeFragment: no decoder
        else if h.proto = 6 then (tcp h.payload).map (fun t => (.v4 h, .tcp t))
        else if h.proto = 1 then (icmp4 h.payload).map (fun i => (.v4 h, .icmp4 i))
        else none                               -- other protocols: ignored / bad (incl. IPv4-in-IPv4)
    else if b0 / 16 = 6 then
      match ip6 buf with
      | none => none
      | some h =>
        if h.payload.isEmpty then none
        else if h.upper = 6 then (tcp h.payload).map (fun t => (.v6 h, .tcp t))
        else if h.upper = 58 then (icmp6 h.payload).map (fun i => (.v6 h, .icmp6 i))
        else none
    else none                                   -- unexpected IP version: BadPacketError

/-! ## `GetICMPInfo` -/

structure ICMPInfo where
  wrappedId : Nat
  proto : Nat           -- `WrappedProtocol`: protocol field of the quoted IPv4 header / next-header field of the quoted IPv6 header
  qsrc : Bytes
  qdst : Bytes
  payload : Bytes
deriving Repr, DecidableEq

/-- `GetICMPInfo` for an ICMPv4 layer: decode the quoted IPv4 header (direct `DecodeFromBytes`, no
    panic recovery — the IPv4 decoder has no panicking path) -/
def icmpInfo4 (i : ICMP4) : Option ICMPInfo :=
  (ip4 i.payload).map fun q => { wrappedId := q.id, proto := q.proto, qsrc := q.src, qdst := q.dst, payload := q.payload }

/-- `GetICMPInfo` for an ICMPv6 layer: `extractEmbeddedIPv6` (skip 4 bytes, version nibble 6) then
    decode the quoted IPv6 header (direct `DecodeFromBytes`; the decoder has no panicking path:
    every index is length-guarded). -/
def icmpInfo6 (i : ICMP6) : Option ICMPInfo :=
  match u8 i.payload 4 with
  | none => none                                  -- len(payload) < 5
  | some b =>
    if b / 16 ≠ 6 then none else
    (ip6 (i.payload.drop 4)).map fun q =>
      { wrappedId := if q.nextHeader = 17 then q.len else 0, proto := q.nextHeader, qsrc := q.src, qdst := q.dst, payload := q.payload }

end TRV.Wire
