import TRV.Model.Engine
import TRV.Model.Policy
/-!
# Abstract network with Linux-like behaviour, composed with the engine models (C13)

A path is a list of routers followed by one destination host.  `respond` says what the *network*
sends back for a probe of a given variant and IP TTL, the way a chain of Linux routers does:

* every router decrements the TTL; router `k` (1-based) is where a probe sent with TTL `k` expires and
  answers it with an ICMP time-exceeded from its own address — unless it is *silent* (ICMP generation
  suppressed), then nothing comes back; forwarding is unaffected;
* a probe sent with TTL ≥ N+1 reaches the destination, which answers by protocol: echo reply (ICMP),
  port-unreachable (UDP, no listener on the probed UDP port), SYN-ACK on an open / RST on a closed TCP
  port (TCP SYN), a duplicate ACK carrying SACK blocks when SACK was negotiated, a plain ACK when the
  destination has SACK disabled (SACK probes on an established connection).

Replies are kept abstract (`Reply`); how the drivers recognise their bytes is the subject of
C01/C02/C04.  `seen` is the destination-marking rule of each driver (C04, `TRV.Model.Drivers`) on
these abstract replies, producing the `Engine.Probe` the engine is given.  The end-to-end composition
feeds those probes, for the TTLs actually sent, to the *existing* engine models
`Engine.parallelRun` (ICMP, UDP, SACK) and `Engine.serialRun` (TCP SYN: one window per TTL).

The SACK capability handshake and the `sack` / `prefer_sack` method policy reuse `TRV.Policy`.
-/
namespace TRV.Net
open TRV TRV.Engine

/-- one kernel router on the path -/
structure Router where
  addr : Addr            -- the address its ICMP errors come from (interface facing the client)
  silent : Bool          -- ICMP generation suppressed; still forwards
deriving DecidableEq, Repr

inductive PortState where
  | opened               -- a TCP listener accepts on the probed port
  | closed               -- nothing listens: the kernel answers SYNs with RST
deriving DecidableEq, Repr

structure Dest where
  addr : Addr
  port : PortState
  sackEnabled : Bool     -- `net.ipv4.tcp_sack` of the destination
deriving DecidableEq, Repr

structure Net where
  routers : List Router
  dest : Dest
deriving DecidableEq, Repr

/-- the four engines of the repository (prefer-SACK is a policy over `sack` and `tcpSyn`) -/
inductive Variant where
  | icmp | udp | tcpSyn | sack
deriving DecidableEq, Repr

/-- what comes back from the network, by kind and sender -/
inductive Reply where
  | timeExceeded (src : Addr)      -- ICMP type 11 code 0 quoting the probe
  | echoReply (src : Addr)         -- ICMP type 0
  | portUnreachable (src : Addr)   -- ICMP type 3 code 3 quoting the probe
  | synAck (src : Addr)
  | rst (src : Addr)
  | dupAckSack (src : Addr)        -- ACK carrying SACK blocks
  | plainAck (src : Addr)          -- ACK without SACK blocks
deriving DecidableEq, Repr

/-- the destination host's answer to a probe that reaches it -/
def destReply (d : Dest) : Variant → Reply
  | .icmp => .echoReply d.addr
  | .udp => .portUnreachable d.addr
  | .tcpSyn => match d.port with
    | .opened => .synAck d.addr
    | .closed => .rst d.addr
  | .sack => if d.sackEnabled then .dupAckSack d.addr else .plainAck d.addr

/-- Linux forwarding: a packet arriving at a router with TTL ≤ 1 is answered with time-exceeded
    (unless the router is silent) and dropped; otherwise the TTL is decremented and the packet is
    forwarded.  A packet arriving at the destination with any TTL ≥ 1 is delivered. -/
def forward (atDest : Reply) : List Router → Nat → Option Reply
  | [], ttl => if ttl = 0 then none else some atDest
  | r :: rs, ttl =>
    if ttl = 0 then none
    else if ttl = 1 then (if r.silent then none else some (.timeExceeded r.addr))
    else forward atDest rs (ttl - 1)

/-- the network's answer to a probe of variant `v` sent with IP TTL `ttl` (`none` = nothing) -/
def respond (n : Net) (v : Variant) (ttl : Nat) : Option Reply :=
  forward (destReply n.dest v) n.routers ttl

/-- send / delivery instants (ns) of the probe with TTL `t` and of the reply it triggered -/
structure Timing where
  sendAt : Nat → Nat
  recvAt : Nat → Nat

/-- "reply delivered after send", and probes are sent in increasing TTL order -/
def Timing.OK (tm : Timing) : Prop :=
  (∀ a b, a ≤ b → tm.sendAt a ≤ tm.sendAt b) ∧ (∀ t, tm.sendAt t ≤ tm.recvAt t)

/-- what a driver makes of a reply -/
inductive Seen where
  | probe (p : Probe)        -- an accepted `ProbeResponse`
  | notSupported             -- `sack.NotSupportedError` (fatal for the engine)
  | ignored                  -- no match: retry
deriving DecidableEq, Repr

/-- RTT of a reply delivered at `recvAt t`, matched to the probe with TTL `u` -/
def rttOf (tm : Timing) (t u : Nat) : Int := (tm.recvAt t : Int) - (tm.sendAt u : Int)

/-- The drivers' matching + destination-marking rule (C04) on an abstract reply to the probe sent
    with TTL `t`:

    * ICMP: time-exceeded → hop, not destination; echo reply from the target → destination;
    * UDP: time-exceeded / unreachable → destination iff the sender is the target;
    * TCP SYN: time-exceeded → hop; SYN-ACK / RST from the target → destination, attributed to the
      last sent TTL (serial engine: `t`);
    * SACK: time-exceeded → destination iff the sender is the target; ACK with SACK blocks from the
      target → destination, attributed to the lowest acknowledged relative sequence number `low t`
      (the lowest TTL among the probes that had reached the destination when it answered probe
      `t`), RTT measured from that probe's send time; ACK without SACK blocks → `NotSupported`. -/
def seen (target : Addr) (v : Variant) (low : Nat → Nat) (tm : Timing) (t : Nat) : Reply → Seen
  | .timeExceeded a =>
    match v with
    | .icmp | .tcpSyn => .probe { ttl := t, ip := a, rtt := rttOf tm t t, dest := false }
    | .udp | .sack => .probe { ttl := t, ip := a, rtt := rttOf tm t t, dest := decide (a = target) }
  | .echoReply a =>
    if v = .icmp ∧ a = target then .probe { ttl := t, ip := a, rtt := rttOf tm t t, dest := true } else .ignored
  | .portUnreachable a =>
    if v = .udp then .probe { ttl := t, ip := a, rtt := rttOf tm t t, dest := decide (a = target) } else .ignored
  | .synAck a =>
    if v = .tcpSyn ∧ a = target then .probe { ttl := t, ip := a, rtt := rttOf tm t t, dest := true } else .ignored
  | .rst a =>
    if v = .tcpSyn ∧ a = target then .probe { ttl := t, ip := a, rtt := rttOf tm t t, dest := true } else .ignored
  | .dupAckSack a =>
    if v = .sack ∧ a = target then
      .probe { ttl := low t, ip := a, rtt := rttOf tm t (low t), dest := true } else .ignored
  | .plainAck a =>
    if v = .sack ∧ a = target then .notSupported else .ignored

/-- what the driver reports for the probe sent with TTL `t` (`none` = no reply came back) -/
def seenAt (n : Net) (v : Variant) (low : Nat → Nat) (tm : Timing) (t : Nat) : Option Seen :=
  (respond n v t).map (seen n.dest.addr v low tm t)

/-- the accepted `Engine.Probe` for the probe sent with TTL `t`, if any (at most one per TTL) -/
def probeAt (n : Net) (v : Variant) (low : Nat → Nat) (tm : Timing) (t : Nat) : Option Probe :=
  match seenAt n v low tm t with
  | some (.probe p) => some p
  | _ => none

/-- the TTLs `min..last` (the probes actually sent) -/
def ttls (min last : Nat) : List Nat := List.range' min (last + 1 - min)

/-- all accepted replies of a run that sent the probes `min..last`, in TTL order -/
def replies (n : Net) (v : Variant) (low : Nat → Nat) (tm : Timing) (min last : Nat) : List Probe :=
  (ttls min last).filterMap (probeAt n v low tm)

/-- the same as engine outcomes (`NotSupported` is a non-retryable error: `fatal`) -/
def outAt (n : Net) (v : Variant) (low : Nat → Nat) (tm : Timing) (t : Nat) : List ROut :=
  match seenAt n v low tm t with
  | some (.probe p) => [.accept p]
  | some .notSupported => [.fatal]
  | some .ignored => [.retry]
  | none => []

/-- first TTL that reaches the destination among the probes `min..`: `max min (N+1)` -/
def destTTL (n : Net) (min : Nat) : Nat := Nat.max min (n.routers.length + 1)

/-- in-order forward path: every SACK answer reports the first probe that reached the destination -/
def lowInOrder (n : Net) (min : Nat) : Nat → Nat := fun _ => destTTL n min

/-- the constraint on `low` for any forward-path ordering: the answer to probe `t` reports a probe
    that reached the destination no later than `t` did, and the answer to the first such probe
    (`destTTL`) can only report itself -/
def LowOK (n : Net) (min : Nat) (low : Nat → Nat) : Prop :=
  (∀ t, destTTL n min ≤ t → destTTL n min ≤ low t ∧ low t ≤ t) ∧ low (destTTL n min) = destTTL n min

/-! ## Parallel engine (ICMP, UDP, SACK): canonical arrival order -/

/-- one `ReceiveProbe` outcome per reply, in TTL order, for a run that sent `min..last` -/
def parallelOuts (n : Net) (v : Variant) (low : Nat → Nat) (tm : Timing) (min last : Nat) : List ROut :=
  (ttls min last).flatMap (outAt n v low tm)

/-! ## Serial engine (TCP SYN): one window per TTL -/

/-- the window of TTL `t`: `noise t` retryable outcomes (poll timeouts, foreign packets), then the
    reply if one comes back, else the window just times out -/
def synWindow (n : Net) (tm : Timing) (noise : Nat → Nat) (t : Nat) : List ROut :=
  List.replicate (noise t) .retry ++ outAt n .tcpSyn id tm t

/-- the windows of a serial run: TTLs `min..`, stopping with the one that reaches the destination -/
def synWindows (n : Net) (tm : Timing) (noise : Nat → Nat) (min max : Nat) : List (List ROut) :=
  (ttls min (Nat.min (destTTL n min) max)).map (synWindow n tm noise)

/-! ## SACK capability and the TCP method policy (reusing `TRV.Policy`) -/

/-- how the SACK attempt fares before any probe is sent: the connection cannot be opened on a closed
    port (`dial`), a SACK-disabled destination does not offer SACK-permitted in its SYN-ACK
    (`noSackPermitted`); both are `NotSupportedError`s (C20) -/
def sackHandshake (n : Net) : Option Policy.SackFailure :=
  match n.dest.port with
  | .closed => some .dial
  | .opened => if n.dest.sackEnabled then none else some .noSackPermitted

/-- what the CLI reports for a protocol + TCP method: which engine's trace, or an error -/
inductive Reported where
  | trace (v : Variant)
  | error (c : Policy.Chain)
  | unmodelled                       -- `syn_socket`
deriving DecidableEq, Repr

inductive Proto where
  | icmp | udp | tcp (m : Policy.Method)
deriving DecidableEq, Repr

/-- marker of the SYN / SACK / socket closure outcomes handed to `Policy.fallback` -/
def markSyn : Nat := 0
def markSack : Nat := 1
def markSock : Nat := 2

/-- `runTracerouteOnce`: protocol switch + `performTCPFallback` with the SACK closure's outcome on
    this network (the SYN and SACK traces themselves, when they run, succeed on this network — that
    is `c13_path_trace_*`) -/
def reported (n : Net) : Proto → Reported
  | .icmp => .trace .icmp
  | .udp => .trace .udp
  | .tcp m =>
    match (Policy.fallback m (.ok markSyn) (Policy.sackOut markSack (sackHandshake n)) (.ok markSock)).1 with
    | .err c => .error c
    | .ok r => if r = markSyn then .trace .tcpSyn else if r = markSack then .trace .sack else .unmodelled

/-- a hop as the result reports it, RTT left out -/
structure PHop where
  ttl : Nat
  ip : Addr
  dest : Bool
deriving DecidableEq, Repr

def erase (h : Hop) : PHop := { ttl := h.ttl, ip := h.ip, dest := h.dest }

/-- run the engine model of variant `v` on this network with the canonical arrival order, every
    probe `min..max` sent; `none` = the engine returned an error -/
def runEngine (n : Net) (v : Variant) (tm : Timing) (min max : Nat) : Option (List Hop) :=
  let res := match v with
    | .tcpSyn => serialRun min max (synWindows n tm (fun _ => 0) min max) false false
    | v => parallelRun min max true (parallelOuts n v (lowInOrder n min) tm min max) false false
  match res with
  | .ok r => toHops min r
  | .error _ => none

/-- a fixed timing for the oracle: probe `t` sent at `t·10 ms`, answered 1 ms later -/
def oracleTiming : Timing := { sendAt := fun t => t * 10000000, recvAt := fun t => t * 10000000 + 1000000 }

inductive CliOut where
  | hops (hs : List Hop)
  | notSupported          -- an error whose chain contains `NotSupportedError`
  | failed                -- any other error
  | unmodelled
deriving DecidableEq, Repr

/-- the whole CLI on this network, canonical arrival order -/
def cli (n : Net) (p : Proto) (min max : Nat) : CliOut :=
  match reported n p with
  | .trace v => match runEngine n v oracleTiming min max with
    | some hs => .hops hs
    | none => .failed
  | .error c => if Policy.hasNS c then .notSupported else .failed
  | .unmodelled => .unmodelled

end TRV.Net
