import TRV.Basic.Bytes
/-!
# Enrichment model (C18, and the public-IP / reverse-DNS part of C08)

Three pieces, each following the Go code function by function.

* **(a) reverse-DNS fan-out** — `result.(*Results).EnrichWithReverseDns` (`result/result.go:100-122`)
  and `reversedns.GetReverseDnsForIPs` (`reversedns/reversedns.go:30-52`): one goroutine per address
  *occurrence*; a lookup that succeeds writes `outputIPs[string(ip)]` under a mutex, so the map is
  the left fold of the successful completions in *completion order* and a later write for the same
  raw key overwrites; a failed lookup (resolver error, or `len(ip) == 0`) writes nothing.  Afterwards
  every destination and hop is assigned `ipToDnsMap[string(ip)]` (a missing key reads as `nil`).
  The resolver is asked for `ip.String()` — the model keeps that as an arbitrary function `str` from
  raw bytes to whatever the resolver is keyed by (the 4-byte and the 16-byte form of one IPv4 address
  are different map keys with the same `str`).
  Hop pointers are assumed non-nil (a nil `*TracerouteHop` panics in Go; `Results` never holds one).
* **(b) cache** — `cache.GetWithExpiration` (`cache/cache.go:47-58`) over go-cache's `Get`/`Set`:
  `get` and `set` are separate atomic steps (each takes the go-cache mutex once), the callback runs
  between them without any lock.  `CStep` is the interleaving semantics of any number of callers.
* **(c) public IP** — `publicip.GetPublicIP` / `getPublicIPUsingIPChecker` / `handleRequest`
  (`publicip/fetcher.go:25-81`) over `backoff.Retry` (v5.0.3 `retry.go:83-143`).  Time is abstract:
  every attempt carries its duration, the jittered back-off intervals are a parameter list.
-/
namespace TRV.Enrich

/-! ## (a) reverse DNS -/

/-- `none` = Go `nil` slice (no map entry); `some v` = the slice the resolver returned. -/
abbrev Names (ν : Type) := Option ν

structure Hop (ν β : Type) where
  ip : Bytes
  names : Names ν
  other : β

structure Run (ν β γ : Type) where
  destIp : Bytes
  destNames : Names ν
  hops : List (Hop ν β)
  other : γ

structure Doc (ν β γ δ : Type) where
  runs : List (Run ν β γ)
  other : δ

variable {ν β γ δ κ : Type}

/-- the address occurrences collected by `EnrichWithReverseDns`, in collection order
    (per run: destination first, then the hops) -/
def Run.ips (r : Run ν β γ) : List Bytes := r.destIp :: r.hops.map (·.ip)
def Doc.ips (d : Doc ν β γ δ) : List Bytes := d.runs.flatMap Run.ips

/-- the names fields, in the same order as `Doc.ips` -/
def Run.namesList (r : Run ν β γ) : List (Names ν) := r.destNames :: r.hops.map (·.names)
def Doc.namesList (d : Doc ν β γ δ) : List (Names ν) := d.runs.flatMap Run.namesList

/-- `GetReverseDnsForIP`: an empty address is an error; otherwise the resolver (behind the cache) is
    asked for the textual form.  `none` = error. -/
def lookupIP (str : Bytes → κ) (resolver : κ → Option ν) (ip : Bytes) : Option ν :=
  if ip.length = 0 then none else resolver (str ip)

/-- `outputIPs` -/
abbrev DnsMap (ν : Type) := Bytes → Option ν

def DnsMap.empty : DnsMap ν := fun _ => none

def DnsMap.write (m : DnsMap ν) (k : Bytes) (v : ν) : DnsMap ν :=
  fun k' => if k' = k then some v else m k'

/-- one goroutine finishing: `(string(ip), result)`; only a success takes the mutex and writes -/
abbrev Completion (ν : Type) := Bytes × Option ν

def complete (m : DnsMap ν) (c : Completion ν) : DnsMap ν :=
  match c.2 with
  | some v => m.write c.1 v
  | none => m

/-- the map after all goroutines finished, `cs` in completion order -/
def buildMap (cs : List (Completion ν)) : DnsMap ν := cs.foldl complete DnsMap.empty

/-- the assignment loop of `EnrichWithReverseDns` -/
def assignHop (m : DnsMap ν) (h : Hop ν β) : Hop ν β := { h with names := m h.ip }
def assignRun (m : DnsMap ν) (r : Run ν β γ) : Run ν β γ :=
  { r with destNames := m r.destIp, hops := r.hops.map (assignHop m) }
def assign (m : DnsMap ν) (d : Doc ν β γ δ) : Doc ν β γ δ :=
  { d with runs := d.runs.map (assignRun m) }

/-- enrichment given the per-occurrence lookup results in completion order -/
def enrichWith (cs : List (Completion ν)) (d : Doc ν β γ δ) : Doc ν β γ δ := assign (buildMap cs) d

/-- enrichment with a resolver that is a function of the address, lookups completing in `order` -/
def enrichOrder (str : Bytes → κ) (resolver : κ → Option ν) (order : List Bytes)
    (d : Doc ν β γ δ) : Doc ν β γ δ :=
  enrichWith (order.map fun ip => (ip, lookupIP str resolver ip)) d

/-- completions in collection order -/
def enrich (str : Bytes → κ) (resolver : κ → Option ν) (d : Doc ν β γ δ) : Doc ν β γ δ :=
  enrichOrder str resolver d.ips d

/-- `net.IP.To16`-style normal form: `ip.String()` is injective on it for lengths 4 and 16 (the
    4-byte form and the v4-in-v6 16-byte form print alike); other lengths print as `?hex`, kept
    apart from real addresses by the length.  Used as `str` by the oracle. -/
def norm16 (ip : Bytes) : Bytes :=
  if ip.length = 4 then (List.replicate 10 (byte 0)) ++ [byte 255, byte 255] ++ ip else ip

/-! ## (b) cache -/

/-- go-cache `Item`; `exp = 0` = never expires -/
structure Entry (V : Type) where
  val : V
  exp : Nat

abbrev Store (K V : Type) := K → Option (Entry V)

variable {K V : Type} [DecidableEq K]

/-- go-cache `Get`: expired iff `Expiration > 0 && now > Expiration` -/
def Entry.fresh (e : Entry V) (now : Nat) : Bool := e.exp == 0 || decide (now ≤ e.exp)

def Store.get (s : Store K V) (now : Nat) (k : K) : Option V :=
  match s k with
  | some e => if e.fresh now then some e.val else none
  | none => none

/-- `cache.New(5*time.Minute, …)`: the duration that `DefaultExpiration` (0) stands for -/
def defaultExpire : Int := 300000000000

/-- go-cache `Set`: `d == 0` ⇒ default; `d > 0` ⇒ `now + d`; otherwise never -/
def expOf (now : Nat) (ttl : Int) : Nat :=
  let d := if ttl = 0 then defaultExpire else ttl
  if d > 0 then now + d.toNat else 0

def Store.set (s : Store K V) (now : Nat) (k : K) (v : V) (ttl : Int) : Store K V :=
  fun k' => if k' = k then some ⟨v, expOf now ttl⟩ else s k'

def Store.flush : Store K V := fun _ => none

/-- second atomic step of `GetWithExpiration`: the callback returned `r` (`none` = error);
    only a success is stored -/
def Store.finish (s : Store K V) (now : Nat) (k : K) (r : Option V) (ttl : Int) : Store K V :=
  match r with
  | some v => s.set now k v ttl
  | none => s

structure GweRes (K V : Type) where
  result : Option V
  store : Store K V
  cbCalls : Nat
  now : Nat

/-- `GetWithExpiration` without another caller in between; the callback would return `cb` after
    `cbDur` ns -/
def getWithExpiration (s : Store K V) (now : Nat) (k : K) (cb : Option V) (cbDur : Nat) (ttl : Int) :
    GweRes K V :=
  match s.get now k with
  | some v => { result := some v, store := s, cbCalls := 0, now := now }
  | none => { result := cb, store := s.finish (now + cbDur) k cb ttl, cbCalls := 1, now := now + cbDur }

/-- one observed call of `GetWithExpiration`, or `Flush` (vocabulary shared with the spec) -/
inductive Obs (K V : Type) where
  /-- at `at_` a call for `k` returned `result`; `cbRan` = the callback was invoked, in which case it
      returned `cbOut` at time `doneAt`; `ttl` as passed -/
  | call (at_ : Nat) (k : K) (ttl : Int) (cbRan : Bool) (cbOut : Option V) (doneAt : Nat) (result : Option V)
  | flush

/-- a sequential client of the cache -/
inductive SeqOp (K V : Type) where
  | get (k : K) (cb : Option V) (dur : Nat) (ttl : Int)
  | sleep (d : Nat)
  | flush

/-- what a sequential client observes -/
def observe : List (SeqOp K V) → Store K V → Nat → List (Obs K V)
  | [], _, _ => []
  | .sleep d :: rest, s, now => observe rest s (now + d)
  | .flush :: rest, _, now => .flush :: observe rest Store.flush now
  | .get k cb dur ttl :: rest, s, now =>
    let r := getWithExpiration s now k cb dur ttl
    .call now k ttl (r.cbCalls != 0) (if r.cbCalls != 0 then cb else none) r.now r.result :: observe rest r.store r.now

/-- labels of the interleaving semantics -/
inductive CLabel (K V : Type) where
  | tick (d : Nat)
  | hit (id : Nat) (k : K) (v : V) (at_ : Nat)
  | miss (id : Nat) (k : K) (at_ : Nat)
  | stored (id : Nat) (k : K) (v : V) (at_ : Nat)
  | failed (id : Nat) (k : K) (at_ : Nat)

structure CSt (K V : Type) where
  store : Store K V
  now : Nat
  /-- caller id ↦ the key whose callback it is currently running -/
  pending : Nat → Option K

def setPending (p : Nat → Option K) (id : Nat) (v : Option K) : Nat → Option K :=
  fun i => if i = id then v else p i

/-- Interleavings of any number of callers of `GetWithExpiration`; `ttl` is the expiry each key is
    used with (the code uses one constant per key family). -/
inductive CStep (ttl : K → Int) : CSt K V → CLabel K V → CSt K V → Prop
  | tick (s : CSt K V) (d : Nat) : CStep ttl s (.tick d) { s with now := s.now + d }
  | getHit (s : CSt K V) (id : Nat) (k : K) (v : V) :
      s.pending id = none → s.store.get s.now k = some v → CStep ttl s (.hit id k v s.now) s
  | getMiss (s : CSt K V) (id : Nat) (k : K) :
      s.pending id = none → s.store.get s.now k = none →
      CStep ttl s (.miss id k s.now) { s with pending := setPending s.pending id (some k) }
  | cbOk (s : CSt K V) (id : Nat) (k : K) (v : V) :
      s.pending id = some k →
      CStep ttl s (.stored id k v s.now)
        { s with store := s.store.set s.now k v (ttl k), pending := setPending s.pending id none }
  | cbFail (s : CSt K V) (id : Nat) (k : K) :
      s.pending id = some k →
      CStep ttl s (.failed id k s.now) { s with pending := setPending s.pending id none }

def CSt.init (t0 : Nat) : CSt K V := { store := Store.flush, now := t0, pending := fun _ => none }

/-- reachable from the flushed cache, with the trace (most recent label first) -/
inductive CReach (ttl : K → Int) (t0 : Nat) : List (CLabel K V) → CSt K V → Prop
  | init : CReach ttl t0 [] (CSt.init t0)
  | step {tr s l s'} : CReach ttl t0 tr s → CStep ttl s l s' → CReach ttl t0 (l :: tr) s'

/-- any number of further steps -/
inductive CSteps (ttl : K → Int) : CSt K V → CSt K V → Prop
  | refl (s) : CSteps ttl s s
  | step {s l s' s''} : CSteps ttl s s' → CStep ttl s' l s'' → CSteps ttl s s''

/-! ### the fan-out with the cache in the loop

`GetReverseDnsForIPs` as an interleaving of goroutines, one per occurrence `i` of `ips`; each does
`cache.Get` (atomic), on a miss asks the resolver and `cache.Set`s a success (atomic), then writes
the map under the mutex (atomic).  Duplicates may therefore query the resolver once each, or be
answered by the cache once a twin has stored its success. -/

inductive GPc (ν : Type) where
  | init
  | missed
  | have (v : ν)
  | done

structure FSt (κ ν : Type) where
  cache : Store κ ν
  now : Nat
  m : DnsMap ν
  pc : Nat → GPc ν
  /-- ghost: resolver invocations, most recent first -/
  queries : List κ

def setPc {ν : Type} (p : Nat → GPc ν) (i : Nat) (v : GPc ν) : Nat → GPc ν := fun j => if j = i then v else p j

/-- `reverseDnsCacheTLL` -/
def rdnsTTL : Int := 3600000000000

inductive FStep {κ ν : Type} [DecidableEq κ] (str : Bytes → κ) (resolver : κ → Option ν) (ips : List Bytes) :
    FSt κ ν → FSt κ ν → Prop
  | tick (s : FSt κ ν) (d : Nat) : FStep str resolver ips s { s with now := s.now + d }
  | emptyAddr (s : FSt κ ν) (i : Nat) (ip : Bytes) : ips[i]? = some ip → s.pc i = .init → ip.length = 0 →
      FStep str resolver ips s { s with pc := setPc s.pc i .done }
  | hit (s : FSt κ ν) (i : Nat) (ip : Bytes) (v : ν) : ips[i]? = some ip → s.pc i = .init → ip.length ≠ 0 →
      s.cache.get s.now (str ip) = some v →
      FStep str resolver ips s { s with pc := setPc s.pc i (.have v) }
  | miss (s : FSt κ ν) (i : Nat) (ip : Bytes) : ips[i]? = some ip → s.pc i = .init → ip.length ≠ 0 →
      s.cache.get s.now (str ip) = none →
      FStep str resolver ips s { s with pc := setPc s.pc i .missed }
  | resolveOk (s : FSt κ ν) (i : Nat) (ip : Bytes) (v : ν) : ips[i]? = some ip → s.pc i = .missed →
      resolver (str ip) = some v →
      FStep str resolver ips s { s with cache := s.cache.set s.now (str ip) v rdnsTTL,
                                        pc := setPc s.pc i (.have v), queries := str ip :: s.queries }
  | resolveErr (s : FSt κ ν) (i : Nat) (ip : Bytes) : ips[i]? = some ip → s.pc i = .missed →
      resolver (str ip) = none →
      FStep str resolver ips s { s with pc := setPc s.pc i .done, queries := str ip :: s.queries }
  | write (s : FSt κ ν) (i : Nat) (ip : Bytes) (v : ν) : ips[i]? = some ip → s.pc i = .have v →
      FStep str resolver ips s { s with m := s.m.write ip v, pc := setPc s.pc i .done }

def FSt.init {κ ν : Type} (c0 : Store κ ν) (t0 : Nat) : FSt κ ν :=
  { cache := c0, now := t0, m := DnsMap.empty, pc := fun _ => .init, queries := [] }

inductive FReach {κ ν : Type} [DecidableEq κ] (str : Bytes → κ) (resolver : κ → Option ν) (ips : List Bytes)
    (c0 : Store κ ν) (t0 : Nat) : FSt κ ν → Prop
  | init : FReach str resolver ips c0 t0 (FSt.init c0 t0)
  | step {s s'} : FReach str resolver ips c0 t0 s → FStep str resolver ips s s' → FReach str resolver ips c0 t0 s'

/-- `wg.Wait()` returned: every goroutine is done -/
def FSt.terminal {κ ν : Type} (s : FSt κ ν) (ips : List Bytes) : Prop :=
  ∀ i, i < ips.length → s.pc i = .done

/-! ## (c) public IP -/

/-- ASCII / byte helpers -/
def isDigit (c : Nat) : Bool := 48 ≤ c && c ≤ 57
def hexVal (c : Nat) : Option Nat :=
  if 48 ≤ c ∧ c ≤ 57 then some (c - 48)
  else if 97 ≤ c ∧ c ≤ 102 then some (c - 97 + 10)
  else if 65 ≤ c ∧ c ≤ 70 then some (c - 65 + 10)
  else none

/-- UTF-8 encodings of the runes for which `unicode.IsSpace` is true -/
def spaceSeqs : List (List Nat) :=
  [[9], [10], [11], [12], [13], [32], [0xC2, 0x85], [0xC2, 0xA0], [0xE1, 0x9A, 0x80],
   [0xE2, 0x80, 0x80], [0xE2, 0x80, 0x81], [0xE2, 0x80, 0x82], [0xE2, 0x80, 0x83], [0xE2, 0x80, 0x84],
   [0xE2, 0x80, 0x85], [0xE2, 0x80, 0x86], [0xE2, 0x80, 0x87], [0xE2, 0x80, 0x88], [0xE2, 0x80, 0x89],
   [0xE2, 0x80, 0x8A], [0xE2, 0x80, 0xA8], [0xE2, 0x80, 0xA9], [0xE2, 0x80, 0xAF], [0xE2, 0x81, 0x9F],
   [0xE3, 0x80, 0x80]]

def stripOnePrefix (s : List Nat) : Option (List Nat) :=
  spaceSeqs.findSome? fun q => if q.isPrefixOf s then some (s.drop q.length) else none

def trimLeft : Nat → List Nat → List Nat
  | 0, s => s
  | fuel + 1, s => match stripOnePrefix s with
    | some s' => trimLeft fuel s'
    | none => s

/-- trailing trim = leading trim of the reversed string with reversed sequences (a space rune's
    encoding at the very end is always decoded as that rune by `utf8.DecodeLastRune`) -/
def stripOneSuffix (s : List Nat) : Option (List Nat) :=
  spaceSeqs.findSome? fun q =>
    if q.reverse.isPrefixOf s.reverse then some ((s.reverse.drop q.length).reverse) else none

def trimRight : Nat → List Nat → List Nat
  | 0, s => s
  | fuel + 1, s => match stripOneSuffix s with
    | some s' => trimRight fuel s'
    | none => s

/-- `strings.TrimSpace` on the bytes of the body -/
def trimSpace (s : List Nat) : List Nat := trimRight s.length (trimLeft s.length s)

/-- one IPv4 field scanner state of `netip.parseIPv4Fields` -/
def parseV4Fields : List Nat → (val digLen pos : Nat) → (prevDot first : Bool) → List Nat → Option (List Nat)
  | [], val, _, pos, prevDot, first, acc =>
      -- a trailing '.', or an empty string, is rejected; `pos < 3` = too short
      if prevDot || first then none else if pos < 3 then none else some (acc ++ [val])
  | c :: rest, val, digLen, pos, prevDot, first, acc =>
      if isDigit c then
        if digLen == 1 && val == 0 then none
        else
          let val' := val * 10 + (c - 48)
          if val' > 255 then none else parseV4Fields rest val' (digLen + 1) pos false false acc
      else if c == 46 then
        if first || prevDot || rest.isEmpty then none
        else if pos == 3 then none
        else parseV4Fields rest 0 0 (pos + 1) true false (acc ++ [val])
      else none

def parseV4 (s : List Nat) : Option (List Nat) := parseV4Fields s 0 0 0 false true []

def hexRun : List Nat → List Nat × List Nat
  | [] => ([], [])
  | c :: rest => match hexVal c with
    | some v => let (ds, r) := hexRun rest; (v :: ds, r)
    | none => ([], c :: rest)

/-- the group loop of `netip.parseIPv6`; `ip` = bytes written so far (`i = ip.length`) -/
def parseV6Loop : Nat → List Nat → List Nat → Option Nat → Option (List Nat × Option Nat × List Nat)
  | 0, s, ip, ell => some (ip, ell, s)
  | fuel + 1, s, ip, ell =>
    if ip.length ≥ 16 then some (ip, ell, s) else
    let (ds, rest) := hexRun s
    if ds.length > 4 then none
    else if ds.length = 0 then none
    else
      let acc := ds.foldl (fun a d => a * 16 + d) 0
      if rest.head? = some 46 then
        if ell.isNone && ip.length ≠ 12 then none
        else if ip.length + 4 > 16 then none
        else match parseV4 s with
          | some f => some (ip ++ f, ell, [])
          | none => none
      else
        let ip := ip ++ [acc / 256, acc % 256]
        match rest with
        | [] => some (ip, ell, [])
        | c :: rest1 =>
          if c ≠ 58 then none
          else match rest1 with
            | [] => none
            | c2 :: rest2 =>
              if c2 = 58 then
                if ell.isSome then none
                else match rest2 with
                  | [] => some (ip, some ip.length, [])
                  | _ => parseV6Loop fuel rest2 ip (some ip.length)
              else parseV6Loop fuel rest1 ip ell

def parseV6 (s : List Nat) : Option (List Nat) :=
  let start : Option (List Nat × Option Nat × Bool) :=
    match s with
    | 58 :: 58 :: rest => some (rest, some 0, rest.isEmpty)
    | _ => some (s, none, false)
  match start with
  | none => none
  | some (s, ell, onlyEllipsis) =>
    if onlyEllipsis then some (List.replicate 16 0) else
    match parseV6Loop 9 s [] ell with
    | none => none
    | some (ip, ell, rest) =>
      if !rest.isEmpty then none
      else if ip.length < 16 then
        match ell with
        | none => none
        | some e => some (ip.take e ++ List.replicate (16 - ip.length) 0 ++ ip.drop e)
      else if ell.isSome then none
      else some ip

/-- `net.ParseIP`: the 16-byte form, `none` if invalid (any zone is rejected) -/
def parseIP (s : List Nat) : Option (List Nat) :=
  match s.find? (fun c => c == 46 || c == 58 || c == 37) with
  | some 46 => (parseV4 s).map fun f => List.replicate 10 0 ++ [255, 255] ++ f
  | some 58 => if s.contains 37 then none else parseV6 s
  | _ => none

/-- `net.ParseIP(strings.TrimSpace(string(body)))` -/
def parseBody (body : Bytes) : Option Bytes :=
  (parseIP (trimSpace (body.map BitVec.toNat))).map fun l => l.map byte

/-- what one call of `handleRequest` meets -/
inductive Attempt where
  /-- `client.Do` returned an error -/
  | transport (dur : Nat)
  /-- a response arrived but `io.ReadAll(resp.Body)` failed (checked before the status) -/
  | bodyErr (status : Nat) (dur : Nat)
  | resp (status : Nat) (body : Bytes) (dur : Nat)

def Attempt.dur : Attempt → Nat
  | .transport d => d
  | .bodyErr _ d => d
  | .resp _ _ d => d

inductive Class where
  | ok (ip : Bytes)
  | permanent
  | transient
deriving DecidableEq

/-- `handleRequest`, same case order: transport error, read error, 4xx ⇒ `Permanent`, body not an
    address ⇒ `Permanent`, else success **whatever the status** (a 500 with an address succeeds). -/
def classify : Attempt → Class
  | .transport _ => .transient
  | .bodyErr _ _ => .transient
  | .resp st body _ =>
    if 400 ≤ st ∧ st < 500 then .permanent
    else match parseBody body with
      | none => .permanent
      | some ip => .ok ip

inductive POut where
  | ok (ip : Bytes)
  /-- `PermanentError` -/
  | permanent
  /-- the per-provider context was done (after an attempt, or while waiting) -/
  | ctxDone
  /-- `MaxElapsedTime` (15 min) would be exceeded by the next wait -/
  | maxElapsed
  /-- the script (or the interval list) supplied to the model is too short: no prediction -/
  | scriptEnd
deriving DecidableEq

structure PRes where
  out : POut
  attempts : Nat
  /-- time from the creation of `ctxWithTimeout` to the return of `backoff.Retry` -/
  elapsed : Nat

/-- `ipCheckerCallTimeout` -/
def callTimeout : Nat := 2000000000
/-- `backoff.DefaultMaxElapsedTime` -/
def maxElapsedTime : Nat := 900000000000

/-- `backoff.Retry` as configured by `getPublicIPUsingIPChecker`: the operation always runs at least
    once; after a failed attempt, in this order: permanent ⇒ stop; context done ⇒ stop; draw the
    next interval; `elapsed + next > MaxElapsedTime` ⇒ stop; wait for the timer or the context,
    whichever is first (ties excluded: the model lets the context win).  `budget` is the time until
    the per-provider context is done, counted from the start of `Retry`. -/
def retry (budget : Nat) : List Attempt → List Nat → (elapsed attempts : Nat) → PRes
  | [], _, el, n => ⟨.scriptEnd, n, el⟩
  | a :: rest, ivals, el, n =>
    let el' := el + a.dur
    match classify a with
    | .ok ip => ⟨.ok ip, n + 1, el'⟩
    | .permanent => ⟨.permanent, n + 1, el'⟩
    | .transient =>
      if budget ≤ el' then ⟨.ctxDone, n + 1, el'⟩
      else match ivals with
        | [] => ⟨.scriptEnd, n + 1, el'⟩
        | b :: bs =>
          if el' + b > maxElapsedTime then ⟨.maxElapsed, n + 1, el'⟩
          else if budget ≤ el' + b then ⟨.ctxDone, n + 1, budget⟩
          else retry budget rest bs (el' + b) (n + 1)

/-- one entry of `ipCheckers` as the run meets it -/
structure Provider where
  script : List Attempt
  /-- jittered back-off intervals drawn during this provider's `Retry` -/
  ivals : List Nat
  /-- time until `ctxWithTimeout` is done: 2 s, or less if the caller's context ends earlier -/
  budget : Nat

def Provider.run (p : Provider) : PRes := retry p.budget p.script p.ivals 0 0

structure GRes where
  /-- index of the provider whose address was returned, and the address -/
  result : Option (Nat × Bytes)
  /-- one entry per *contacted* provider, in order; providers beyond are never queried -/
  trace : List PRes

/-- `GetPublicIP`: providers in order, return at the first success -/
def getFrom : Nat → List Provider → GRes
  | _, [] => ⟨none, []⟩
  | i, p :: ps =>
    let r := p.run
    match r.out with
    | .ok ip => ⟨some (i, ip), [r]⟩
    | _ =>
      let g := getFrom (i + 1) ps
      ⟨g.result, r :: g.trace⟩

def get (ps : List Provider) : GRes := getFrom 0 ps

/-- budgets from the caller's context: provider `i` starts when the previous ones returned;
    `parent = some D` = the caller's context is done at absolute time `D` (start of the call = 0) -/
def withBudgets (parent : Option Nat) : Nat → List (List Attempt × List Nat) → List Provider
  | _, [] => []
  | start, (sc, iv) :: rest =>
    let budget := match parent with
      | none => callTimeout
      | some D => min callTimeout (D - start)
    let p : Provider := ⟨sc, iv, budget⟩
    p :: withBudgets parent (start + p.run.elapsed) rest

def GRes.elapsed (g : GRes) : Nat := (g.trace.map (·.elapsed)).sum

end TRV.Enrich
