/-!
# Synchronisation model for C14 (no data races): histories, happens-before, lockset discipline

This is not a model of one Go function but of the *Go memory model fragment* the property is about:
goroutines (`Tid`), mutexes, plain and atomic accesses to shared locations, `go` (fork) and
`Wait` (join).  A history is a list of events, **most recent first**.  An *occurrence* of an event
is a non-empty suffix `e :: past` of the history (the event together with everything that happened
before it); two occurrences of the same event differ in their past, so no indices are needed.

* `owner m h`      — who holds mutex `m` after history `h`.
* `WF h`           — acquire only a free mutex, release only an owned one, a forked thread is fresh
                     (fork before the child's first event), no event of a thread after it was joined
                     (join after the child's last event).
* `HB p q`         — happens-before between occurrences: program order ∪ {release of `m` → every
                     later acquire of `m`} ∪ {fork → every event of the child} ∪ {every event of the
                     child → join}, transitively closed (the synchronisation edges the Go memory
                     model gives for `sync.Mutex`, `go` and `WaitGroup.Wait`/`errgroup.Wait`).
* `RaceFree h`     — any two conflicting accesses (same location, different threads, at least one
                     write, not both atomic) are `HB`-ordered.
* `Row`, `Disciplined tbl` — the access table the translator regenerates from the Go source
                     (`harness/extract/access.go` → `TRV/Generated/Access.lean`) and the *decidable*
                     lockset/phase discipline over it.
* `Exec tbl h`     — well-formed histories that the table describes: every access carries a site of
                     the table, is executed by a thread of that site's role in that site's phase,
                     and the thread owns every mutex of the site's lock set.

Object instances.  A driver object, or one call of `TracerouteParallel` / `runTracerouteMulti` /
`GetReverseDnsForIPs`, is an *instance* `i : Inst`; its fields / captured locals are the locations
`(name, i)` and its mutexes are `(name, i)`.  Per instance there is one *main* thread (the goroutine
that constructs the object, later calls `Wait` and `Close`) and child threads with a role; a thread
can play different roles in different instances (a `Run(i)` child of the aggregator is the main
thread of its own driver).  Package-level variables have scope `pkg`: no role or phase structure is
assumed for them (any role of one run may touch them concurrently with any role of another run).
-/
namespace TRV.Sync

abbrev Tid := Nat
abbrev Inst := Nat

/-! ## Events and histories -/

/-- `X` = locations, `M` = mutexes.  Accesses carry the site (a key into the access table). -/
inductive Ev (X M : Type) where
  | acq (t : Tid) (m : M)
  | rel (t : Tid) (m : M)
  | rd (t : Tid) (x : X) (site : String)
  | wr (t : Tid) (x : X) (site : String)
  | atomic (t : Tid) (x : X) (site : String)
  | fork (t : Tid) (child : Tid)
  | join (t : Tid) (child : Tid)
deriving DecidableEq, Repr

/-- how an event touches a location -/
inductive Acc | rd | wr | at
deriving DecidableEq, Repr

variable {X M : Type}

/-- the thread executing the event -/
def Ev.tid : Ev X M → Tid
  | .acq t _ | .rel t _ | .rd t _ _ | .wr t _ _ | .atomic t _ _ | .fork t _ | .join t _ => t

/-- location, access kind and site of an access event -/
def Ev.acc : Ev X M → Option (X × Acc × String)
  | .rd _ x s => some (x, .rd, s)
  | .wr _ x s => some (x, .wr, s)
  | .atomic _ x s => some (x, .at, s)
  | _ => none

abbrev History (X M : Type) := List (Ev X M)

/-- owner of mutex `m` after the history (most recent event first) -/
def owner [DecidableEq M] (m : M) : History X M → Option Tid
  | [] => none
  | .acq t m' :: es => if m' = m then some t else owner m es
  | .rel _ m' :: es => if m' = m then none else owner m es
  | _ :: es => owner m es

/-- what the newest event requires of the past -/
def StepOK [DecidableEq M] : Ev X M → History X M → Prop
  | .acq _ m, es => owner m es = none
  | .rel t m, es => owner m es = some t
  | .fork _ c, es => ∀ e ∈ es, e.tid ≠ c
  | _, _ => True

/-- well-formed history -/
def WF [DecidableEq M] : History X M → Prop
  | [] => True
  | e :: es => WF es ∧ (∀ p, Ev.join p e.tid ∉ es) ∧ StepOK e es

/-! ## Happens-before and race freedom -/

/-- Happens-before between occurrences (`e :: past`).  Every rule requires the older occurrence to
    be a suffix of the newer one's past, so all occurrences on a chain are occurrences of the same
    history (`HB.suffix` in `TRV.Proofs.Lockset`). -/
inductive HB : History X M → History X M → Prop
  | po {a b : Ev X M} {s₁ s₂} : (a :: s₁) <:+ s₂ → a.tid = b.tid → HB (a :: s₁) (b :: s₂)
  | sw {t u : Tid} {m : M} {s₁ s₂} : (Ev.rel t m :: s₁) <:+ s₂ → HB (Ev.rel t m :: s₁) (Ev.acq u m :: s₂)
  | fork {t c : Tid} {b : Ev X M} {s₁ s₂} : (Ev.fork t c :: s₁) <:+ s₂ → b.tid = c →
      HB (Ev.fork t c :: s₁) (b :: s₂)
  | join {a : Ev X M} {t c : Tid} {s₁ s₂} : (a :: s₁) <:+ s₂ → a.tid = c →
      HB (a :: s₁) (Ev.join t c :: s₂)
  | trans {p q r} : HB p q → HB q r → HB p r

/-- Two events conflict: different threads access the same location, at least one access is not a
    plain read, and they are not both atomic.  (An atomic operation is treated as a potential write,
    so a plain read racing with an atomic counts.) -/
def Conflict (a b : Ev X M) : Prop :=
  a.tid ≠ b.tid ∧ ∃ x ka sa kb sb, a.acc = some (x, ka, sa) ∧ b.acc = some (x, kb, sb) ∧
    (ka ≠ .rd ∨ kb ≠ .rd) ∧ ¬ (ka = .at ∧ kb = .at)

/-- No data race: every pair of conflicting accesses is ordered by happens-before. -/
def RaceFree (h : History X M) : Prop :=
  ∀ a s₁ b s₂, (b :: s₂) <:+ h → (a :: s₁) <:+ s₂ → Conflict a b → HB (a :: s₁) (b :: s₂)

/-! ## The access table and the discipline -/

/-- Thread roles.  `main` is the goroutine that owns the instance (constructor, `ReadHandshake`,
    the body of `TracerouteParallel`/`runTracerouteMulti`/`GetReverseDnsForIPs`, `Close`). -/
inductive Role | main | sender | receiver | run | e2e | publicIP | lookup
deriving DecidableEq, Repr

/-- roles of which several threads exist per instance (`Run(i)`, `E2e(i)`, `Lookup(i)`) -/
def Role.multi : Role → Bool
  | .run | .e2e | .lookup => true
  | _ => false

/-- `init`: before the instance's children are started; `mid`: while they may run; `final`: after
    they were all joined. -/
inductive Phase | init | mid | final
deriving DecidableEq, Repr

inductive Kind | rd | wr
deriving DecidableEq, Repr

/-- `run`: field of a per-run object / captured local of one call; `pkg`: package-level variable -/
inductive Scope | run | pkg
deriving DecidableEq, Repr

/-- One row per syntactic access found by the translator. `L` = location names, `K` = mutex names
    (both generated enumerations). -/
structure Row (L K : Type) where
  loc : L
  scope : Scope
  role : Role
  phase : Phase
  kind : Kind
  locks : List K
  atomic : Bool
  site : String
deriving Repr

variable {L K : Type}

/-- a write, or an atomic operation (treated as a potential write) -/
def Row.writeLike (r : Row L K) : Bool := r.kind == .wr || r.atomic

/-- Two rows of one instance cannot run concurrently: one of them is in the `init` or `final` phase
    (main thread before the forks / after the joins), or both belong to the same single-threaded
    role. -/
def ordered (a b : Row L K) : Bool :=
  a.phase != .mid || b.phase != .mid || (a.role == b.role && !a.role.multi)

def commonLock [DecidableEq K] (a b : Row L K) : Bool := a.locks.any fun m => b.locks.contains m

/-- The discipline for one pair of rows. For package-level locations only "both atomic" is
    accepted (conservative: a package-level mutex would have to be modelled first). -/
def pairOK [DecidableEq L] [DecidableEq K] (a b : Row L K) : Bool :=
  a.loc != b.loc || !(a.writeLike || b.writeLike) || (a.atomic && b.atomic) ||
  (a.scope == .run && b.scope == .run && (commonLock a b || ordered a b))

/-- Rows that can be one side of an offending pair: package-level rows, and write-like rows of the
    `mid` phase.  (Any pair of two other rows passes `pairOK` by itself — `pairOK_of_not_hot` in
    `TRV.Proofs.Lockset` — so the check below only has to scan the pairs with a hot row; this keeps
    the kernel evaluation of `decide` linear-ish in the table size.) -/
def Row.hot (r : Row L K) : Bool := r.scope == .pkg || (r.writeLike && r.phase == .mid)

/-- **Decidable** discipline over a whole table: every pair of rows, in both orders (a row with
    itself included: two threads of a multi role execute the same site). -/
def Disciplined [DecidableEq L] [DecidableEq K] (tbl : List (Row L K)) : Bool :=
  tbl.all fun a => !a.hot || tbl.all fun b => pairOK a b && pairOK b a

/-- the first offending pair, for diagnostics -/
def firstOffence [DecidableEq L] [DecidableEq K] (tbl : List (Row L K)) : Option (Row L K × Row L K) :=
  tbl.findSome? fun a => (tbl.find? fun b => !(pairOK a b && pairOK b a)).map fun b => (a, b)

/-! ## Executions described by a table -/

/-- thread structure of an execution: the role a thread plays in an instance (if any) and the main
    thread of every instance -/
structure Ctx where
  role : Tid → Inst → Option Role
  main : Inst → Tid

/-- `c` is a child thread of instance `i` -/
def Ctx.child (cx : Ctx) (c : Tid) (i : Inst) : Prop := ∃ r, cx.role c i = some r ∧ r ≠ .main

/-- event kind agrees with the row -/
def kindMatch (r : Row L K) : Acc → Prop
  | .rd => r.kind = .rd ∧ r.atomic = false
  | .wr => r.kind = .wr ∧ r.atomic = false
  | .at => r.atomic = true

/-- The phase/role obligations of an access by thread `t` to a location of instance `i` with past
    `s`, for a `run`-scoped row `r`:
    * `init`  — executed by the instance's main thread before it forked any child of the instance;
    * `mid`   — executed by the main thread (role `main`) or by a thread of the row's role that the
                main thread forked;
    * `final` — executed by the main thread after it joined every child of the instance it forked. -/
def PhaseOK (cx : Ctx) (r : Row L K) (t : Tid) (i : Inst) (s : History (L × Inst) (K × Inst)) : Prop :=
  match r.phase with
  | .init => t = cx.main i ∧ ∀ c, cx.child c i → Ev.fork t c ∉ s
  | .mid => (r.role = .main ∧ t = cx.main i) ∨
            (r.role ≠ .main ∧ cx.role t i = some r.role ∧ Ev.fork (cx.main i) t ∈ s)
  | .final => t = cx.main i ∧ ∀ c, cx.child c i → Ev.fork t c ∈ s → Ev.join t c ∈ s

/-- the access occurrence `e :: s` is described by some row of the table -/
def SiteOK [DecidableEq K] (tbl : List (Row L K)) (cx : Ctx) (e : Ev (L × Inst) (K × Inst))
    (s : History (L × Inst) (K × Inst)) : Prop :=
  ∀ l i k site, e.acc = some ((l, i), k, site) →
    ∃ r ∈ tbl, r.site = site ∧ r.loc = l ∧ kindMatch r k ∧
      (∀ m ∈ r.locks, owner (m, i) s = some e.tid) ∧
      (r.scope = .run → PhaseOK cx r e.tid i s)

/-- Executions described by the table: well-formed, single-threaded roles really are played by one
    thread per instance, and every access occurrence is described by a row. -/
def Exec [DecidableEq K] (tbl : List (Row L K)) (h : History (L × Inst) (K × Inst)) : Prop :=
  WF h ∧ ∃ cx : Ctx,
    (∀ t u i r, cx.role t i = some r → cx.role u i = some r → r.multi = false → t = u) ∧
    ∀ e s, (e :: s) <:+ h → SiteOK tbl cx e s

end TRV.Sync
