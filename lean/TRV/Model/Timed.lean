import TRV.Model.Engine
import TRV.Model.Enrich
/-!
# Timed engine models: `common/traceroute_serial.go`, `common/traceroute_parallel.go`,
# `sack/traceroute_sack.go` (wrapper), `reversedns/reversedns.go` (time-out), on a virtual clock

Time is a `Nat` (nanoseconds on the harness clock).  A *script* says what the driver does: the
`k`-th `ReceiveProbe` call returns `out` after `dur` ns; `SendProbe` for TTL `i` lasts `sd i` ns and
fails iff `sfail i`.  After the script the driver is quiet: every further call lasts `poll` and
returns a retryable error (this is what the real drivers do on a silent wire, and what the
scripted driver of the harness does).  A script is a finite list, so a driver that returns
immediately for ever (the engines would spin without time passing) is outside the model.

The models are deterministic: ties between timers (a call ending exactly at a deadline, a
cancellation exactly at a loop test) are decided by `≤`; the harness generators exclude them.

* `serWindow`, `serLoop`, `serialT`   — `TracerouteSerial`
* `recvT`, `sendT`, `parallelT`       — `TracerouteParallel` as two processes over one clock
* `sackT`                             — `runSackTraceroute`: dial, handshake read, parallel engine
* `rdnsAll`                           — `GetReverseDnsForIPs`: concurrent look-ups under 5 s contexts
* `HonoursCtx`                        — "an HTTP attempt returns when its context is done" over
                                        `Enrich.retry` (public-IP discovery)

The *result* of a timed run is the untimed model (`TRV.Engine.serialRun` / `parallelRun`) applied to
the outcomes the timed run consumed, so every theorem about the untimed models applies.
-/
namespace TRV.Timed
open TRV.Engine

/-- one scripted `ReceiveProbe` call -/
structure RCall where
  out : ROut
  dur : Nat
deriving DecidableEq, Repr

/-- `TracerouteParams` (durations in ns) -/
structure Cfg where
  min : Nat
  max : Nat
  timeout : Nat
  delay : Nat
  poll : Nat
deriving DecidableEq, Repr

/-- `ProbeCount` -/
def Cfg.count (c : Cfg) : Nat := if c.min ≤ c.max then c.max - c.min + 1 else 0

/-- `ctx.Err() != nil` at time `now` for a caller that cancels at `cancel` -/
def isCancelled (cancel : Option Nat) (now : Nat) : Bool :=
  match cancel with
  | some c => decide (c ≤ now)
  | none => false

/-- the earlier of a deadline and an optional instant (a derived context is done when its own timer
    fires or when its parent is done) -/
def optMin (a : Nat) : Option Nat → Nat
  | none => a
  | some b => min a b

/-- quiet driver: calls of `poll` ns back to back from `now`; the loop test `now ≥ stop` is made at
    the start of each call, so the loop is left at the first grid point at or after `stop` -/
def idleEnd (poll stop now : Nat) : Nat :=
  if now ≥ stop then now else now + ((stop - now + poll - 1) / poll) * poll

/-- what a timed run returns -/
structure TRes where
  result : RunRes
  finish : Nat
  /-- `(ttl, time at which SendProbe was called)` in call order -/
  sends : List (Nat × Nat)
  /-- `(ttl, time at which the accepting ReceiveProbe call returned)` in call order -/
  accepts : List (Nat × Nat)

/-! ## Serial engine -/

inductive WRes where
  | none                   -- the per-TTL time-out (or the caller's cancellation) ended the window
  | got (p : Probe)
  | err (e : RunErr)
deriving DecidableEq, Repr

structure WEnd where
  res : WRes
  now : Nat
  rest : List RCall
  /-- outcomes consumed in this window -/
  used : List ROut

/-- the inner loop `for probe == nil { if timeoutCtx.Err() != nil { break }; ReceiveProbe … }` -/
def serWindow (c : Cfg) (deadline : Nat) : Nat → List RCall → WEnd
  | now, [] => ⟨.none, idleEnd c.poll deadline now, [], []⟩
  | now, e :: rest =>
    if now ≥ deadline then ⟨.none, now, e :: rest, []⟩
    else
      let now' := now + e.dur
      match e.out with
      | .retry =>
        let w := serWindow c deadline now' rest
        { w with used := .retry :: w.used }
      | .fatal => ⟨.err .recvFailed, now', rest, [.fatal]⟩
      | .nilProbe => ⟨.err .badProbe, now', rest, [.nilProbe]⟩
      | .accept p =>
        if validProbe c.min c.max p then ⟨.got p, now', rest, [.accept p]⟩
        else ⟨.err .badProbe, now', rest, [.accept p]⟩

structure SEnd where
  finish : Nat
  windows : List (List ROut)
  sendErr : Bool
  sends : List (Nat × Nat)
  accepts : List (Nat × Nat)

/-- the outer loop of `TracerouteSerial`, `n` iterations left, next TTL `i`:
    `if ctx.Err() != nil { break }`; `sendDelay := time.After(SendDelay)`;
    `timeoutCtx := WithTimeout(ctx, TracerouteTimeout)`; `SendProbe`; window;
    `results[probe.TTL] = probe` (in `serialRun`); destination ⇒ leave; `<-sendDelay`. -/
def serLoop (c : Cfg) (cancel : Option Nat) (sd : Nat → Nat) (sfail : Nat → Bool) :
    Nat → Nat → Nat → List RCall → SEnd
  | 0, _, now, _ => ⟨now, [], false, [], []⟩
  | n + 1, i, now, script =>
    if isCancelled cancel now then ⟨now, [], false, [], []⟩
    else
      let deadline := optMin (now + c.timeout) cancel
      let now1 := now + sd i
      if sfail i then ⟨now1, [[]], true, [(i, now)], []⟩
      else
        let w := serWindow c deadline now1 script
        match w.res with
        | .err _ => ⟨w.now, [w.used], false, [(i, now)], []⟩
        | .got p =>
          if p.dest then ⟨w.now, [w.used], false, [(i, now)], [(p.ttl, w.now)]⟩
          else
            let r := serLoop c cancel sd sfail n (i + 1) (max w.now (now + c.delay)) w.rest
            ⟨r.finish, w.used :: r.windows, r.sendErr, (i, now) :: r.sends, (p.ttl, w.now) :: r.accepts⟩
        | .none =>
          let r := serLoop c cancel sd sfail n (i + 1) (max w.now (now + c.delay)) w.rest
          ⟨r.finish, w.used :: r.windows, r.sendErr, (i, now) :: r.sends, r.accepts⟩

/-- `TracerouteSerial` started at `start` -/
def serialT (c : Cfg) (cancel : Option Nat) (sd : Nat → Nat) (sfail : Nat → Bool)
    (start : Nat) (script : List RCall) : TRes :=
  if !validParams c.min c.max then ⟨.error .invalidParams, start, [], []⟩
  else
    let r := serLoop c cancel sd sfail c.count c.min start script
    ⟨serialRun c.min c.max r.windows r.sendErr (isCancelled cancel r.finish), r.finish, r.sends, r.accepts⟩

/-! ## Parallel engine -/

structure REnd where
  endAt : Nat
  used : List ROut
  /-- the receiver goroutine returned an error at this time -/
  errAt : Option Nat
  /-- `writerCancel()`: a destination reply was written at this time (the first one) -/
  destAt : Option Nat
  accepts : List (Nat × Nat)

/-- receiver goroutine from `now`: `if groupCtx.Err() != nil { return nil }` at the start of each
    call (`stop` = the instant `groupCtx` is done); a call begun before `stop` is processed -/
def recvT (c : Cfg) (stop : Nat) : Nat → List RCall → REnd
  | now, [] => ⟨idleEnd c.poll stop now, [], none, none, []⟩
  | now, e :: rest =>
    if now ≥ stop then ⟨now, [], none, none, []⟩
    else
      let now' := now + e.dur
      match e.out with
      | .retry =>
        let r := recvT c stop now' rest
        { r with used := .retry :: r.used }
      | .fatal => ⟨now', [.fatal], some now', none, []⟩
      | .nilProbe => ⟨now', [.nilProbe], some now', none, []⟩
      | .accept p =>
        if validProbe c.min c.max p then
          let r := recvT c stop now' rest
          { r with used := .accept p :: r.used,
                   destAt := if p.dest then some now' else r.destAt,
                   accepts := (p.ttl, now') :: r.accepts }
        else ⟨now', [.accept p], some now', none, []⟩

structure SndEnd where
  endAt : Nat
  failed : Bool
  sends : List (Nat × Nat)

/-- sender goroutine, `n` probes left, next TTL `i`: `if writerCtx.Err() != nil { return nil }`
    (`wstop` = the instant `writerCtx` is done); `SendProbe`; `time.Sleep(SendDelay)` -/
def sendT (c : Cfg) (wstop : Nat) (sd : Nat → Nat) (sfail : Nat → Bool) : Nat → Nat → Nat → SndEnd
  | 0, _, now => ⟨now, false, []⟩
  | n + 1, i, now =>
    if now ≥ wstop then ⟨now, false, []⟩
    else
      let now1 := now + sd i
      if sfail i then ⟨now1, true, [(i, now)]⟩
      else
        let r := sendT c wstop sd sfail n (i + 1) (now1 + c.delay)
        { r with sends := (i, now) :: r.sends }

def optLt (a : Option Nat) (b : Nat) : Bool :=
  match a with
  | some x => decide (x < b)
  | none => false

/-- `TracerouteParallel` started at `start`.  `timeoutCtx` is done at `start + MaxTimeout()` or
    when the caller cancels; `groupCtx` additionally when a goroutine returned an error;
    `writerCtx` additionally when a destination reply was written.  The receiver starts when the
    first `SendProbe` has returned (`hasSent`).  `g.Wait()` returns when both goroutines have. -/
def parallelT (c : Cfg) (cancel : Option Nat) (sd : Nat → Nat) (sfail : Nat → Bool)
    (start : Nat) (script : List RCall) : TRes :=
  if !validParams c.min c.max then ⟨.error .invalidParams, start, [], []⟩
  else
    let stop0 := optMin (start + c.timeout + c.count * c.delay) cancel
    let r0 := if start ≥ stop0 then start else start + sd c.min
    let r1 := recvT c stop0 r0 script
    let wstop := optMin (optMin stop0 r1.destAt) r1.errAt
    let s := sendT c wstop sd sfail c.count c.min start
    if s.failed && !optLt r1.errAt s.endAt then
      -- `SendProbe` failed first: `groupCtx` is done at `s.endAt`, the receiver leaves at its next test
      let r2 := recvT c (min stop0 s.endAt) r0 script
      ⟨.error .sendFailed, max r2.endAt s.endAt, s.sends, r2.accepts⟩
    else
      let fin := max r1.endAt s.endAt
      ⟨parallelRun c.min c.max true r1.used false (isCancelled cancel fin), fin, s.sends, r1.accepts⟩

/-! ## SACK wrapper -/

inductive SackRes where
  | dialFailed          -- `NotSupportedError` (dial)
  | handshakeFailed     -- `ReadHandshake` failed (time-out, no SACK-permitted, read error)
  | engine (r : RunRes)

/-- `runSackTraceroute` after the handle is open: `dialSackTCP` (lasts `dialDur`, bounded by
    `net.Dialer.Timeout = HandshakeTimeout`), `ReadHandshake` (lasts `hsDur`, bounded by its 500 ms
    read deadline plus one read), then `TracerouteParallel` under the context whose deadline is
    `start + HandshakeTimeout + FinTimeout + MaxTimeout()` (`outer`). -/
def sackT (c : Cfg) (outer : Nat) (dialDur : Nat) (dialOK : Bool) (hsDur : Nat) (hsOK : Bool)
    (sd : Nat → Nat) (sfail : Nat → Bool) (start : Nat) (script : List RCall) : SackRes × Nat :=
  let t1 := start + dialDur
  if !dialOK then (.dialFailed, t1)
  else
    let t2 := t1 + hsDur
    if !hsOK then (.handshakeFailed, t2)
    else
      let r := parallelT c (some outer) sd sfail t2 script
      (.engine r.result, r.finish)

/-! ## End-to-end probe -/

/-- `TracerouteRun.GetDestinationHop`: the first hop marked as destination -/
def destHop (hops : List Hop) : Option Hop := hops.find? (·.dest)

/-- `runE2eProbeOnce`: one run with `MinTTL := MaxTTL`; the sample is the destination hop's RTT,
    `0` when there is no destination hop; a failed run is an error, not a sample -/
def e2eOnce {ε : Type} (runOnce : Nat → Nat → Except ε (List Hop)) (max : Nat) : Except ε Int :=
  match runOnce max max with
  | .error e => .error e
  | .ok hops =>
    match destHop hops with
    | none => .ok 0
    | some h => .ok h.rtt

/-! ## Reverse DNS -/

/-- `reverseDnsDefaultTimeout` -/
def rdnsTimeout : Nat := 5000000000

/-- one `LookupAddrFn(ctx, ip)` that would need `raw` ns: a resolver that honours its context
    returns when the context is done -/
def rdnsLookup (honours : Bool) (raw : Nat) : Nat := if honours then min raw rdnsTimeout else raw

/-- `GetReverseDnsForIPs`: all look-ups start together, `wg.Wait()` returns with the last one -/
def rdnsAll (honours : Bool) (raws : List Nat) : Nat := (raws.map (rdnsLookup honours)).foldl max 0

/-! ## Public IP: attempts that end when the per-provider context is done -/

open TRV.Enrich in
/-- `OpHonoursCtx` along `Enrich.retry budget script ivals el _`: an attempt started at elapsed time
    `el` returns at most `eps` after the per-provider context is done (`budget`).  This is what
    `client.Do(req)` does when `req` carries that context. -/
def HonoursCtx (budget eps : Nat) : List Attempt → List Nat → Nat → Prop
  | [], _, _ => True
  | a :: rest, ivals, el =>
    el + a.dur ≤ budget + eps ∧
    match ivals with
    | [] => True
    | b :: bs => HonoursCtx budget eps rest bs (el + a.dur + b)

end TRV.Timed
