import TRV.Basic.Bytes
/-!
# Result model: `result/result.go` (+ the `net.IP` methods it calls)

Function by function, same case order as the Go code:

* `ipEqual`           — `net.IP.Equal` (the four `if`s of `net/ip.go`)
* `hasAddrGo`         — the expression `!hop.IPAddress.Equal(net.IP{})` used twice in `result.go`
* `to4`, `isPrivate`  — `net.IP.To4`, `net.IP.IsPrivate`
* `normalizeHops`     — `normalizeTracerouteHops` (sets `Reachable`, never clears it)
* `hopCountOf`, `normalizeHopsCount` — `normalizeTracerouteHopsCount` (backwards scan for the last
                        hop with an address, default `len(run.Hops)`; the `hopsMin == 0` "unset"
                        idiom; early return on zero runs)
* `normalizeE2e`, `calculateJitter` — `normalizeE2eProbe`, `calculateJitter` over exact rationals
                        (the `float64`/`float32` rounding is enveloped by the harness, not modelled)
* `assignIds`         — `normalizeTestRunID` + `normalizeTracerouteRuns` with the UUID draws as a
                        parameter
* `normalize`         — `Results.Normalize`
* `removePrivate`     — `Results.RemovePrivateHops`
* `enrich`            — `Results.EnrichWithReverseDns` with the resolver as a parameter (minimal:
                        the detailed resolver/cache model belongs to C18)
* `pipeline`          — the tail of `Traceroute.RunTraceroute`: enrich → normalize → redact

`Hop`, `Run`, `E2e`, `HopCountStats`, `Doc` mirror the Go structs including the *previous* values of
the derived fields, because several passes return early and leave them untouched.
-/

namespace TRV.Result

/-! ## `net.IP` -/

/-- `v4InV6Prefix` -/
def v4InV6Prefix : Bytes := [0, 0, 0, 0, 0, 0, 0, 0, 0, 0, 0xff, 0xff]

/-- `net.IP.Equal` -/
def ipEqual (ip x : Bytes) : Bool :=
  if ip.length = x.length then ip == x
  else if ip.length = 4 ∧ x.length = 16 then x.take 12 == v4InV6Prefix && ip == x.drop 12
  else if ip.length = 16 ∧ x.length = 4 then ip.take 12 == v4InV6Prefix && ip.drop 12 == x
  else false

/-- `!hop.IPAddress.Equal(net.IP{})` -/
def hasAddrGo (ip : Bytes) : Bool := !ipEqual ip []

/-- `isZeros` -/
def isZeros (p : Bytes) : Bool := p.all (· == 0)

/-- `net.IP.To4`; `none` is Go's `nil` -/
def to4 (ip : Bytes) : Option Bytes :=
  if ip.length = 4 then some ip
  else if ip.length = 16 ∧ isZeros (ip.take 10) ∧ ip[10]? = some 0xff ∧ ip[11]? = some 0xff then
    some (ip.drop 12)
  else none

/-- byte `i` of a slice already known to be long enough (0 otherwise; never reached) -/
def at' (b : Bytes) (i : Nat) : Byte := b[i]?.getD 0

/-- `net.IP.IsPrivate` -/
def isPrivate (ip : Bytes) : Bool :=
  match to4 ip with
  | some ip4 =>
    at' ip4 0 == 10 ||
    (at' ip4 0 == 172 && at' ip4 1 &&& 0xf0 == 16) ||
    (at' ip4 0 == 192 && at' ip4 1 == 168)
  | none => ip.length == 16 && at' ip 0 &&& 0xfe == 0xfc

/-! ## the document -/

/-- `result.TracerouteHop` (`ReverseDns`: `nil` and the empty slice are both `[]`) -/
structure Hop where
  ttl : Int
  ip : Bytes := []
  rtt : Rat := 0
  reachable : Bool := false
  names : List String := []
  isDest : Bool := false
  port : Nat := 0
  icmpType : Nat := 0
  icmpCode : Nat := 0
deriving DecidableEq

/-- `result.TracerouteRun` (source/destination ports are not touched by any pass and are omitted) -/
structure Run where
  runId : Nat := 0
  hops : List Hop
  destIp : Bytes := []
  destNames : List String := []
deriving DecidableEq

/-- `result.HopCountStats` -/
structure HopCountStats where
  avg : Rat := 0
  min : Nat := 0
  max : Nat := 0
deriving DecidableEq

/-- `result.E2eProbe` (+ `E2eProbeRTT`) -/
structure E2e where
  rtts : List Rat := []
  sent : Nat := 0
  received : Nat := 0
  loss : Rat := 0
  jitter : Rat := 0
  avg : Rat := 0
  min : Rat := 0
  max : Rat := 0
deriving DecidableEq

/-- `result.Results`, the parts `Normalize`/`RemovePrivateHops`/`EnrichWithReverseDns` read or write -/
structure Doc where
  testRunId : Nat := 0
  runs : List Run := []
  hopCount : HopCountStats := {}
  e2e : E2e := {}
deriving DecidableEq

/-! ## `normalizeTestRunID`, `normalizeTracerouteRuns` -/

/-- the ids are whatever `uuid.New` returned: `draws[0]` for the test, `draws[i+1]` for run `i` -/
def assignRunIds : List Run → List Nat → List Run
  | [], _ => []
  | r :: rs, [] => { r with runId := 0 } :: assignRunIds rs []
  | r :: rs, d :: ds => { r with runId := d } :: assignRunIds rs ds

def assignIds (draws : List Nat) (d : Doc) : Doc :=
  { d with testRunId := draws.headD 0, runs := assignRunIds d.runs draws.tail }

/-! ## `normalizeTracerouteHops` -/

/-- the loop body: `if !hop.IPAddress.Equal(net.IP{}) { hop.Reachable = true }` -/
def normalizeHop (h : Hop) : Hop := if hasAddrGo h.ip then { h with reachable := true } else h

def normalizeHops (d : Doc) : Doc :=
  { d with runs := d.runs.map fun r => { r with hops := r.hops.map normalizeHop } }

/-! ## `normalizeTracerouteHopsCount` -/

/-- the backwards loop `for i := len-1; i >= 0; i--` over the reversed hop list: the first hop (from
    the end) that has an address gives `i+1` -/
def scanBack : List Hop → Option Nat
  | [] => none
  | h :: t => if hasAddrGo h.ip then some (t.length + 1) else scanBack t

/-- `hopCount := len(run.Hops)` unless the scan finds a hop with an address -/
def hopCountOf (hops : List Hop) : Nat := (scanBack hops.reverse).getD hops.length

/-- `if hopsCount < hopsMin || hopsMin == 0 { hopsMin = hopsCount }` -/
def stepMin (mn c : Nat) : Nat := if c < mn ∨ mn = 0 then c else mn
/-- `if hopsCount > hopsMax { hopsMax = hopsCount }` -/
def stepMax (mx c : Nat) : Nat := if c > mx then c else mx

def hopsMin (cs : List Nat) : Nat := cs.foldl stepMin 0
def hopsMax (cs : List Nat) : Nat := cs.foldl stepMax 0
def hopsTotal (cs : List Nat) : Nat := cs.foldl (· + ·) 0

def hopCounts (runs : List Run) : List Nat := runs.map fun r => hopCountOf r.hops

def normalizeHopsCount (d : Doc) : Doc :=
  if d.runs.length = 0 then d
  else
    let cs := hopCounts d.runs
    { d with hopCount :=
        { avg := (hopsTotal cs : Rat) / (cs.length : Rat), min := hopsMin cs, max := hopsMax cs } }

/-! ## `normalizeE2eProbe`, `calculateJitter` -/

/-- `math.Abs` -/
def absR (x : Rat) : Rat := if x < 0 then -x else x

/-- `|rtts[i] - rtts[i-1]|` for `i = 1..` -/
def absDiffs : List Rat → List Rat
  | a :: b :: t => absR (b - a) :: absDiffs (b :: t)
  | _ => []

/-- `calculateJitter` -/
def calculateJitter (rtts : List Rat) : Rat :=
  if rtts.length < 2 then 0
  else (absDiffs rtts).foldl (· + ·) 0 / ((rtts.length - 1 : Nat) : Rat)

/-- `validRTTs`: the samples with `rtt > 0.0`, in order -/
def validRTTs (rtts : List Rat) : List Rat := rtts.filter (fun r => decide (r > 0))

/-- `if rtt < minRTT { minRTT = rtt }` / `if rtt > maxRTT { maxRTT = rtt }` -/
def stepMinR (m x : Rat) : Rat := if x < m then x else m
def stepMaxR (m x : Rat) : Rat := if x > m then x else m

def normalizeE2eProbe (e : E2e) : E2e :=
  if e.rtts.length = 0 then e
  else
    let sent := e.rtts.length
    let valid := validRTTs e.rtts
    let received := valid.length
    -- `if r.E2eProbe.PacketsSent > 0` (always true here, kept as coded)
    let loss := if sent > 0 then ((sent - received : Nat) : Rat) / (sent : Rat) else e.loss
    let e1 : E2e := { e with sent := sent, received := received, loss := loss }
    let e2 : E2e :=
      match valid with
      | [] => e1
      | v0 :: _ =>
        { e1 with
          avg := valid.foldl (· + ·) 0 / (valid.length : Rat)
          min := valid.foldl stepMinR v0
          max := valid.foldl stepMaxR v0 }
    { e2 with jitter := calculateJitter valid }

def normalizeE2e (d : Doc) : Doc := { d with e2e := normalizeE2eProbe d.e2e }

/-! ## `Normalize` -/

def normalize (draws : List Nat) (d : Doc) : Doc :=
  normalizeE2e (normalizeHopsCount (normalizeHops (assignIds draws d)))

/-! ## `RemovePrivateHops` -/

/-- `if hop.IPAddress.IsPrivate() { Hops[j] = &TracerouteHop{TTL: run.Hops[j].TTL} }` -/
def redactHop (h : Hop) : Hop := if isPrivate h.ip then { ttl := h.ttl } else h

def removePrivate (d : Doc) : Doc :=
  { d with runs := d.runs.map fun r => { r with hops := r.hops.map redactHop } }

/-! ## `EnrichWithReverseDns` (minimal) -/

/-- what `GetReverseDnsForIPs` put into `ipToDnsMap` for one address: `none` = no entry (lookup
    failed, or the address is empty), `some names` otherwise -/
abbrev Resolver := Bytes → Option (List String)

/-- `ipToDnsMap[string(ip)]`: `GetReverseDnsForIP` rejects the empty address before resolving; a
    missing key reads as `nil` -/
def lookupNames (res : Resolver) (ip : Bytes) : List String :=
  if ip.length = 0 then [] else (res ip).getD []

def enrich (res : Resolver) (d : Doc) : Doc :=
  { d with runs := d.runs.map fun r =>
      { r with destNames := lookupNames res r.destIp
               hops := r.hops.map fun h => { h with names := lookupNames res h.ip } } }

/-! ## `RunTraceroute` after the runs were collected -/

def pipeline (reverseDns skipPrivate : Bool) (res : Resolver) (draws : List Nat) (d : Doc) : Doc :=
  let d1 := if reverseDns then enrich res d else d
  let d2 := normalize draws d1
  if skipPrivate then removePrivate d2 else d2

end TRV.Result
