import TRV.Basic.Bytes
/-!
# Classic BPF (the subset the capture filters use)

Model of the classic-BPF virtual machine as the Linux socket filter (`sk_run_filter` /
`bpf_prog_run` on a converted cBPF program) and `golang.org/x/net/bpf`'s `VM` execute it, restricted
to the ten opcodes that occur in `packets/cbpf_filters.go` and `packets/tcp_filter.go`:

| raw op | mnemonic | constructor |
|---|---|---|
| 0x30 / 0x28 / 0x20 | `ldb/ldh/ld [k]` | `ldAbs 1/2/4 k` |
| 0x50 / 0x48 / 0x40 | `ldb/ldh/ld [x+k]` | `ldInd 1/2/4 k` |
| 0xb1 | `ldxb 4*([k]&0xf)` | `ldxMsh k` |
| 0x15 | `jeq #k, jt, jf` | `jeq k jt jf` |
| 0x45 | `jset #k, jt, jf` | `jset k jt jf` |
| 0x06 | `ret #k` | `ret k` |

Semantics reproduced:
* a load whose last byte lies beyond the end of the frame terminates the program with verdict 0
  (the kernel's `load_pointer` returns NULL → `return 0`; x/net/bpf `loadAbsolute` returns `ok=false`);
* multi-byte loads are big endian;
* a conditional jump skips `jt` (condition true) or `jf` instructions *after* the jump;
* `ret k` ends the program; the frame is accepted iff the verdict is non-zero (the verdict is the
  number of bytes to keep; the filters use `0x40000` and `0`).

Registers hold natural numbers: every value the subset can put into `A` is a load of ≤ 4 bytes
(< 2^32) and `X` is `4*(b & 0xf)` ≤ 60, so the 32-bit wrap-around of the real machine is unreachable
(`x + k` with k ≤ 27 cannot overflow).  The program is interpreted over its *suffix*: a jump is
`List.drop`; running off the end yields verdict 0 (the kernel and `bpf.NewVM` refuse to load such a
program, so this case is unreachable for an installed filter).

Not modelled (unused by the filters): scratch memory, ALU ops, `ret A`, `ld #len`, negative
(ancillary `SKF_AD_*`) offsets — all `k` in the filters are < 0x1000.
-/
namespace TRV.Bpf

inductive Instr where
  | ldAbs (size : Nat) (off : Nat)
  | ldInd (size : Nat) (off : Nat)
  | ldxMsh (off : Nat)
  | jeq (k : Nat) (jt jf : Nat)
  | jset (k : Nat) (jt jf : Nat)
  | ret (k : Nat)
deriving Repr, DecidableEq

/-- Load `size` ∈ {1,2,4} bytes big-endian at `off`; `none` when the frame is too short (the
    machine then rejects the frame) -/
def load (pkt : Bytes) (off size : Nat) : Option Nat :=
  if size = 1 then u8 pkt off
  else if size = 2 then u16 pkt off
  else if size = 4 then u32 pkt off
  else none

structure St where
  a : Nat := 0
  x : Nat := 0
deriving Repr

/-- Run the program suffix `p` from state `s`; the result is the verdict. -/
def exec (pkt : Bytes) : List Instr → St → Nat
  | [], _ => 0
  | .ldAbs sz off :: rest, s =>
      match load pkt off sz with
      | none => 0
      | some v => exec pkt rest { s with a := v }
  | .ldInd sz off :: rest, s =>
      match load pkt (s.x + off) sz with
      | none => 0
      | some v => exec pkt rest { s with a := v }
  | .ldxMsh off :: rest, s =>
      match load pkt off 1 with
      | none => 0
      | some v => exec pkt rest { s with x := 4 * (v % 16) }
  | .jeq k jt jf :: rest, s => exec pkt (rest.drop (if s.a = k then jt else jf)) s
  | .jset k jt jf :: rest, s => exec pkt (rest.drop (if s.a &&& k ≠ 0 then jt else jf)) s
  | .ret k :: _, _ => k
termination_by p => p.length
decreasing_by all_goals (simp only [List.length_cons, List.length_drop]; omega)

/-- the socket filter keeps the frame iff the verdict is non-zero -/
def accepts (p : List Instr) (pkt : Bytes) : Bool := exec pkt p {} != 0

end TRV.Bpf
