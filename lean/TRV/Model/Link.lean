import TRV.Basic.Bytes
/-!
# Link-layer glue: `packets/strip_headers.go` and the AF_PACKET source's filter state

* `strip` — `stripEthernetHeader`: gopacket's Ethernet decoder needs 14 bytes; frames whose EtherType
  is neither IPv4 nor IPv6 yield no packet (`afPacketSource.Read` skips them and reads on);
  otherwise the bytes behind the 14-byte header are handed to the parser.  (An EtherType field
  below 0x0600 is a length: gopacket then trims the payload to it — it is never an IP EtherType, so
  the result is "no packet" all the same.)
* `Source` — what `afPacketSource.SetPacketFilter` leaves attached to the socket: `none` after
  `FilterTypeNone` (`RemoveBPF`), the program of the LAST request otherwise (`SetBPFAndDrain`
  replaces whatever was attached, and everything queued under the previous program is drained).
-/
namespace TRV.Link

inductive Strip where
  | error                 -- fewer than 14 bytes: decode error (the read fails)
  | skip                  -- not an IP frame: nothing is handed up
  | packet (p : Bytes)    -- the IP packet
deriving DecidableEq, Repr

def strip (f : Bytes) : Strip :=
  if f.length < 14 then .error else
  match u16 f 12 with
  | some et => if et = 0x0800 ∨ et = 0x86dd then .packet (f.drop 14) else .skip
  | none => .error

/-- the capture source: the attached program (as an abstract verdict function) and the frames
    queued for the reader -/
structure Source (Prog : Type) where
  attached : Option Prog
  queue : List Bytes

/-- `SetPacketFilter`: `none` = `FilterTypeNone`.  Attaching drains the queue. -/
def Source.setFilter {Prog : Type} (s : Source Prog) (p : Option Prog) : Source Prog :=
  match p with
  | none => { s with attached := none }
  | some q => { attached := some q, queue := [] }

/-- does the attached program (if any) let the frame through? -/
def Source.passes {Prog : Type} (accepts : Prog → Bytes → Bool) (s : Source Prog) (f : Bytes) : Bool :=
  match s.attached with
  | none => true
  | some p => accepts p f

/-- a frame arrives from the network -/
def Source.arrive {Prog : Type} (accepts : Prog → Bytes → Bool) (s : Source Prog) (f : Bytes) : Source Prog :=
  { s with queue := if s.passes accepts f then s.queue ++ [f] else s.queue }

inductive Ev (Prog : Type) where
  | set (p : Option Prog)
  | frame (f : Bytes)

/-- the program requested by the last `SetPacketFilter` call of a history (`init` if there was none) -/
def lastSet {Prog : Type} (init : Option Prog) (evs : List (Ev Prog)) : Option Prog :=
  evs.foldl (fun a e => match e with | .set p => p | .frame _ => a) init

def Source.step {Prog : Type} (accepts : Prog → Bytes → Bool) (s : Source Prog) : Ev Prog → Source Prog
  | .set p => s.setFilter p
  | .frame f => s.arrive accepts f

/-- what one frame contributes to a read (after the `fix:` for F13): the IP packet behind the
    Ethernet header if there is a non-empty one; frames of other EtherTypes, frames shorter than an
    Ethernet header and frames with nothing behind the header are skipped -/
def handUp (f : Bytes) : Option Bytes :=
  match strip f with
  | .packet p => if p.isEmpty then none else some p
  | _ => none

/-- `afPacketSource.Read` over the queued frames: the first frame that hands up a packet, and the
    frames left in the queue; `none` = the queue ran dry (the read then waits for its deadline) -/
def readNext : List Bytes → Option (Bytes × List Bytes)
  | [] => none
  | f :: rest =>
    match handUp f with
    | some p => some (p, rest)
    | none => readNext rest

end TRV.Link
