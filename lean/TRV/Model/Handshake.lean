import TRV.Model.Drivers
/-!
# The SACK capability handshake as a matcher (`sackDriver.ReadHandshake` / `handleHandshake`)

`runSackTraceroute` dials the target with an ordinary TCP socket and then reads the capture handle
(whose filter at that moment admits EVERY SYN-ACK on the machine) until `handleHandshake` has found
"its" SYN-ACK.  What it adopts from that segment — the acknowledgement number as the base of the
probe sequence numbers, sequence + 1 as the acknowledgement number, the timestamps — is the only
link between the probes it will send and the kernel connection they must belong to.
-/
namespace TRV.Drv
open TRV TRV.Wire

/-- the result of looking at one captured packet during the handshake, or of the whole read loop -/
inductive HsOut where
  | skip                -- not this connection's SYN-ACK (or unparseable): keep reading
  | fatal               -- `ReadAndParse`: zero-length read
  | truncTS             -- "found truncated timestamps option"
  | notSupported        -- this connection's SYN-ACK carries no SACK-permitted option
  | done (isn iack : Nat) (ts : Option (Nat × Nat))   -- `localInitSeq`, `localInitAck`, (tsValue, tsEcr)
  | timeout             -- (read loop only) nothing adopted before the 500 ms deadline
deriving Repr, DecidableEq

/-- the option loop of `handleHandshake`: `none` = truncated timestamps (returned at once),
    else (SACK-permitted seen, timestamps state) -/
def hsOpts : List (Nat × Bytes) → Bool → Option (Nat × Nat) → Option (Bool × Option (Nat × Nat))
  | [], sp, ts => some (sp, ts)
  | o :: r, sp, ts =>
    if o.1 = 4 then hsOpts r true ts
    else if o.1 = 8 then
      if o.2.length < 8 then none else
      match u32 o.2 0, u32 o.2 4 with
      | some v, some e => hsOpts r sp (some ((e + 50) % 4294967296, v))
      | _, _ => none
    else hsOpts r sp ts

/-- `handleHandshake` on one captured packet (after `ReadAndParse`) -/
def hsRecv (localA target : Bytes) (lport tport : Nat) (pkt : Bytes) : HsOut :=
  if pkt.isEmpty then .fatal else
  match parse (pkt.take bufSize) with
  | none => .skip
  | some (l3, l4) =>
    match l4 with
    | .tcp t =>
      if ¬ (l3.src = target ∧ l3.dst = localA) then .skip
      else if tport ≠ t.sport ∨ lport ≠ t.dport then .skip
      else if !(t.syn && t.ackf) then .skip
      else match hsOpts t.opts false none with
        | none => .truncTS
        | some (false, _) => .notSupported
        | some (true, ts) => .done t.ack ((t.seq + 1) % 4294967296) ts
    | _ => .skip

/-- `ReadHandshake`: the packets captured before the deadline, in order -/
def hsRead (localA target : Bytes) (lport tport : Nat) : List Bytes → HsOut
  | [] => .timeout
  | p :: ps =>
    match hsRecv localA target lport tport p with
    | .skip => hsRead localA target lport tport ps
    | o => o

end TRV.Drv
