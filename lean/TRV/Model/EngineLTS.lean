import TRV.Model.Engine
/-!
# Labelled transition system of `TracerouteParallel` (interleavings of sender and receiver)

The sender goroutine is split into the read of the cancel flag (`senderCheck*`) and the send itself
(`senderSend`) — the window between the two is where "one probe already in flight" comes from.
The receiver's `writeProbe` + `writerCancel()` is one atomic step (it runs under `resultsMu`, the
flag is a context).  `deadline` models `timeoutCtx` firing or the errgroup cancelling.
Ghost fields: `sigma` (accepted probes in order), `sends` (most recent first), `sendsAfterCancel`.
-/
namespace TRV.LTS
open TRV.Engine

inductive SPc | check | sending | done
deriving DecidableEq, Repr

structure St where
  minT : Nat
  maxT : Nat
  next : Nat
  spc : SPc
  cancelled : Bool
  slots : Slots
  rdone : Bool
  sigma : List Probe
  sends : List Nat
  sendsAfterCancel : Nat
  ctxDone : Bool

inductive Step : St → St → Prop
  | senderCheckGo (s) : s.spc = .check → s.next ≤ s.maxT → s.cancelled = false → s.ctxDone = false →
      Step s { s with spc := .sending }
  | senderCheckStop (s) : s.spc = .check → (s.next > s.maxT ∨ s.cancelled = true ∨ s.ctxDone = true) →
      Step s { s with spc := .done }
  | senderSend (s) : s.spc = .sending →
      Step s { s with spc := .check, next := s.next + 1, sends := s.next :: s.sends,
                      sendsAfterCancel := if s.cancelled then s.sendsAfterCancel + 1 else s.sendsAfterCancel }
  | recvAccept (s) (p : Probe) : s.rdone = false → s.sends ≠ [] →
      validProbe s.minT s.maxT p = true →
      Step s { s with slots := writeProbe s.slots p, sigma := s.sigma ++ [p],
                      cancelled := s.cancelled || p.dest }
  | recvIgnore (s) : s.rdone = false → s.sends ≠ [] → Step s s
  | deadline (s) : Step s { s with ctxDone := true }
  | recvExit (s) : s.ctxDone = true → Step s { s with rdone := true }

def init (minT maxT : Nat) : St :=
  { minT, maxT, next := minT, spc := .check, cancelled := false, slots := emptySlots,
    rdone := false, sigma := [], sends := [], sendsAfterCancel := 0, ctxDone := false }

inductive Reach (minT maxT : Nat) : St → Prop
  | init : Reach minT maxT (init minT maxT)
  | step {s s'} : Reach minT maxT s → Step s s' → Reach minT maxT s'

end TRV.LTS
