import TRV.Basic.Bytes
/-!
# Engine model: `common/traceroute_types.go`, `traceroute_parallel.go`, `traceroute_serial.go`

Function by function:

* `writeProbe`      — the closure of the same name in `TracerouteParallel`
* `validateProbe`   — `TracerouteParams.validateProbe`
* `clipList`        — `clipResults` (with the Go slice-bounds panic as `none`)
* `toHops`          — `ToHops` (with its sanity-check error branch)
* `parallelRun`     — what `TracerouteParallel` returns as a function of the sequence of
                      `ReceiveProbe` outcomes the receiver goroutine consumed (interleavings with the
                      sender are handled in `EngineLTS`)
* `serialRun`       — `TracerouteSerial` as a fold over per-TTL windows
-/

namespace TRV.Engine

abbrev Addr := Bytes

/-- `common.ProbeResponse` (RTT in nanoseconds, `time.Duration` is an int64) -/
structure Probe where
  ttl : Nat
  ip : Addr
  rtt : Int
  dest : Bool
deriving DecidableEq, Repr

/-- the `results` slice, indexed by TTL; the Go slice has length `max+1` -/
abbrev Slots := Nat → Option Probe

def emptySlots : Slots := fun _ => none

/-- the `writeProbe` closure: keep the first reply, except a destination reply replaces a
    non-destination one -/
def writeProbe (s : Slots) (p : Probe) : Slots := fun t =>
  if t = p.ttl then
    match s t with
    | none => some p
    | some prev => if !prev.dest && p.dest then some p else some prev
  else s t

def merge (σ : List Probe) : Slots := σ.foldl writeProbe emptySlots

/-- `TracerouteParams.validate` -/
def validParams (min max : Nat) : Bool := min ≤ max && 1 ≤ min

/-- `validateProbe` (nil probes are a separate outcome) -/
def validProbe (min max : Nat) (p : Probe) : Bool := min ≤ p.ttl && p.ttl ≤ max

/-- materialise the Go slice `results[0..max]` -/
def slotList (max : Nat) (s : Slots) : List (Option Probe) := (List.range (max+1)).map s

def isDestSlot : Option Probe → Bool
  | some p => p.dest
  | none => false

/-- `clipResults`: cut after the first destination slot, drop the slots below `min`.
    `none` = the Go runtime panic "slice bounds out of range" of `results[minTTL:]`. -/
def clipList (min : Nat) (rs : List (Option Probe)) : Option (List (Option Probe)) :=
  let rs' := match rs.findIdx? isDestSlot with
    | some i => rs.take (i+1)
    | none => rs
  if min ≤ rs'.length then some (rs'.drop min) else none

/-- one entry of the hop list produced by `ToHops` -/
structure Hop where
  ttl : Nat
  ip : Addr        -- empty = no address
  rtt : Int        -- ns; converted to float ms in Go (`ConvertDurationToMs`)
  dest : Bool
deriving DecidableEq, Repr

/-- `ToHops`; `none` = its "probe TTL mismatch" error -/
def toHops (min : Nat) : List (Option Probe) → Option (List Hop)
  | [] => some []
  | none :: rest => (toHops (min+1) rest).map (fun hs => { ttl := min, ip := [], rtt := 0, dest := false } :: hs)
  | some p :: rest =>
    if p.ttl = min then
      (toHops (min+1) rest).map (fun hs => { ttl := min, ip := p.ip, rtt := p.rtt, dest := p.dest } :: hs)
    else none

/-- what one `ReceiveProbe` call returned, as the engines classify it -/
inductive ROut where
  | accept (p : Probe)      -- a probe response, nil error
  | retry                   -- `CheckProbeRetryable` is true (no packet / bad packet)
  | fatal                   -- any other error
  | nilProbe                -- nil response with nil error (driver bug)
deriving DecidableEq, Repr

inductive RunErr where
  | invalidParams | notParallel | sendFailed | recvFailed | badProbe | cancelled | panic
deriving DecidableEq, Repr

abbrev RunRes := Except RunErr (List (Option Probe))

/-- receiver loop of `TracerouteParallel` over the outcomes it consumed -/
def recvLoop (min max : Nat) : Slots → List ROut → Except RunErr Slots
  | s, [] => .ok s
  | s, .retry :: rest => recvLoop min max s rest
  | _, .fatal :: _ => .error .recvFailed
  | _, .nilProbe :: _ => .error .badProbe
  | s, .accept p :: rest =>
    if validProbe min max p then recvLoop min max (writeProbe s p) rest else .error .badProbe

/-- the accepted probes of an outcome list, in order -/
def accepted : List ROut → List Probe
  | [] => []
  | .accept p :: rest => p :: accepted rest
  | _ :: rest => accepted rest

/-- `TracerouteParallel`, given what the receiver consumed; `sendErr` = a `SendProbe` call failed,
    `extCancel` = the caller's context was cancelled before return. The errgroup returns the first
    error; a receive error that happens-before a send error wins and vice versa — the harness only
    injects one of the two, and the model returns the receive error first (it is evaluated on the
    consumed prefix). -/
def parallelRun (min max : Nat) (supportsParallel : Bool) (outs : List ROut)
    (sendErr extCancel : Bool) : RunRes :=
  if !validParams min max then .error .invalidParams else
  if !supportsParallel then .error .notParallel else
  match recvLoop min max emptySlots outs with
  | .error e => .error e
  | .ok s =>
    if sendErr then .error .sendFailed else
    if extCancel then .error .cancelled else
    match clipList min (slotList max s) with
    | some r => .ok r
    | none => .error .panic

/-- one per-TTL window of the serial engine: the outcomes of the `ReceiveProbe` calls it made for
    this TTL (the window stops at the first accepted probe or when the per-TTL timeout expired) -/
def serialWindow (min max : Nat) : List ROut → Except RunErr (Option Probe)
  | [] => .ok none
  | .retry :: rest => serialWindow min max rest
  | .fatal :: _ => .error .recvFailed
  | .nilProbe :: _ => .error .badProbe
  | .accept p :: _ => if validProbe min max p then .ok (some p) else .error .badProbe

/-- serial slot update (after the `fix:` for F10): the same rule as the parallel engine — the first
    reply for a TTL wins, except that a destination reply replaces a non-destination one -/
def serialWrite (s : Slots) (p : Probe) : Slots := writeProbe s p

/-- `TracerouteSerial` as a fold over windows (one per probed TTL, in order). `sendFailAt` = index of
    the window whose `SendProbe` failed. -/
def serialLoop (min max : Nat) : Slots → List (List ROut) → Except RunErr Slots
  | s, [] => .ok s
  | s, w :: rest =>
    match serialWindow min max w with
    | .error e => .error e
    | .ok none => serialLoop min max s rest
    | .ok (some p) =>
      let s' := serialWrite s p
      if p.dest then .ok s' else serialLoop min max s' rest

def serialRun (min max : Nat) (windows : List (List ROut)) (sendErr extCancel : Bool) : RunRes :=
  if !validParams min max then .error .invalidParams else
  match serialLoop min max emptySlots windows with
  | .error e => .error e
  | .ok s =>
    if sendErr then .error .sendFailed else
    if extCancel then .error .cancelled else
    match clipList min (slotList max s) with
    | some r => .ok r
    | none => .error .panic

end TRV.Engine
