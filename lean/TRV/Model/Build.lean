import TRV.Basic.Bytes
/-!
# Probe builders: gopacket `SerializeLayers` with `FixLengths` + `ComputeChecksums`, re-derived

`icmp/icmp_packet.go`, `udp/udpv4.go` (`createRawUDPBuffer`), `tcp/tcpv4.go`
(`createRawTCPSynBuffer`), `sack/sack_packet.go`.  Checksums follow gopacket literally:
`layers.checksum` (IPv4 header) and `tcpipChecksum` (+ pseudo-header) — 16-bit big-endian word sum,
odd tail byte shifted left, end-around-carry fold, complement.
-/
namespace TRV.Build

/-- 16-bit word sum of `tcpipChecksum` (odd tail byte is the high byte of a last word) -/
def sum16 : Bytes → Nat
  | [] => 0
  | [a] => a.toNat * 256
  | a :: b :: rest => a.toNat * 256 + b.toNat + sum16 rest

/-- `for csum > 0xffff { csum = (csum >> 16) + (csum & 0xffff) }` -/
def fold16 (x : Nat) : Nat :=
  if h : x > 0xffff then fold16 (x / 65536 + x % 65536) else x
termination_by x
decreasing_by
  have : x / 65536 ≥ 1 := Nat.div_pos (by omega) (by decide)
  omega

/-- `^uint16(csum)` after folding -/
def cksum (sum : Nat) : Nat := 0xffff - fold16 sum

/-- a buffer verifies if the folded sum of all its 16-bit words (plus `init`) is 0xffff -/
def verifies (init : Nat) (d : Bytes) : Bool := fold16 (init + sum16 d) = 0xffff

/-- IPv4 header (no options) with a correct header checksum -/
def ip4Header (tos len id ff ttl proto : Nat) (src dst : Bytes) : Bytes :=
  let pre := [byte 0x45, byte tos] ++ be16 len ++ be16 id ++ be16 ff ++ [byte ttl, byte proto]
  let post := src ++ dst
  let ck := cksum (sum16 (pre ++ be16 0 ++ post))
  pre ++ be16 ck ++ post

/-- IPv6 fixed header (traffic class 0, flow label 0) -/
def ip6Header (plen nh hop : Nat) (src dst : Bytes) : Bytes :=
  [byte 0x60, byte 0, byte 0, byte 0] ++ be16 plen ++ [byte nh, byte hop] ++ src ++ dst

/-- pseudo-header sum used by gopacket: addresses + protocol + upper-layer length -/
def pseudo (src dst : Bytes) (proto len : Nat) : Nat :=
  sum16 src + sum16 dst + proto + (len % 65536) + (len / 65536)

/-- ICMPv4 echo request: `generatePacketV4` + payload `[ttl]` -/
def icmp4 (src dst : Bytes) (echoId ttl : Nat) : Bytes :=
  let body (ck : Nat) := [byte 8, byte 0] ++ be16 ck ++ be16 echoId ++ be16 ttl ++ [byte ttl]
  let ck := cksum (sum16 (body 0))
  ip4Header 0 29 echoId 0 ttl 1 src dst ++ body ck

/-- ICMPv6 echo request: `generatePacketV6` (payload id, seq, one data byte) -/
def icmp6 (src dst : Bytes) (echoId ttl : Nat) : Bytes :=
  let body (ck : Nat) := [byte 128, byte 0] ++ be16 ck ++ be16 echoId ++ be16 ttl ++ [byte ttl]
  let ck := cksum (pseudo src dst 58 9 + sum16 (body 0))
  ip6Header 9 58 ttl src dst ++ body ck

def magic : Bytes := [byte 0x4e, byte 0x53, byte 0x4d, byte 0x4e, byte 0x43]   -- "NSMNC"

/-- `repeatMagic` -/
def repeatMagic (n : Nat) : Bytes := ((List.replicate (n / 5 + 1) magic).flatten).take n

/-- UDP over IPv4: id = 41821 + ttl, DF set, payload "NSMNC" 0 idHi idLo -/
def udp4Id (ttl : Nat) : Nat := (41821 + ttl) % 65536

def udp4 (src dst : Bytes) (sport dport ttl : Nat) : Bytes :=
  let id := udp4Id ttl
  let payload := magic ++ [byte 0] ++ be16 id
  let seg (ck : Nat) := be16 sport ++ be16 dport ++ be16 16 ++ be16 ck ++ payload
  let ck := cksum (pseudo src dst 17 16 + sum16 (seg 0))
  ip4Header 0 36 id 0x4000 ttl 17 src dst ++ seg ck

/-- UDP over IPv6: payload length 5 + ttl, identifier = UDP length = 13 + ttl -/
def udp6Id (ttl : Nat) : Nat := 13 + ttl

def udp6 (src dst : Bytes) (sport dport ttl : Nat) : Bytes :=
  let ulen := udp6Id ttl
  let payload := repeatMagic (5 + ttl)
  let seg (ck : Nat) := be16 sport ++ be16 dport ++ be16 ulen ++ be16 ck ++ payload
  let ck := cksum (pseudo src dst 17 ulen + sum16 (seg 0))
  ip6Header ulen 17 ttl src dst ++ seg ck

/-- TCP header, data offset `doff` words, `opts` already padded to `doff*4 - 20` bytes -/
def tcpSeg (src dst : Bytes) (sport dport seq ack doff flags win : Nat) (opts payload : Bytes) : Bytes :=
  let seg (ck : Nat) := be16 sport ++ be16 dport ++ be32 seq ++ be32 ack ++
    [byte (doff * 16), byte flags] ++ be16 win ++ be16 ck ++ be16 0 ++ opts ++ payload
  let len := 20 + opts.length + payload.length
  seg (cksum (pseudo src dst 6 len + sum16 (seg 0)))

/-- TCP SYN probe: `createRawTCPSynBuffer` -/
def tcpSyn (src dst : Bytes) (sport dport id seq ttl : Nat) : Bytes :=
  ip4Header 0 40 id 0 ttl 6 src dst ++ tcpSeg src dst sport dport seq 0 5 0x02 1024 [] []

/-- SACK probe: ACK|PSH, seq = ISN + ttl (mod 2^32), one payload byte, optional timestamps -/
def sack (src dst : Bytes) (sport dport isn ack ttl : Nat) (ts : Option (Nat × Nat)) : Bytes :=
  let opts : Bytes := match ts with
    | none => []
    | some (tsval, tsecr) => [byte 8, byte 10] ++ be32 ((tsval + ttl) % 4294967296) ++ be32 tsecr ++ [byte 1, byte 1]
  let doff := 5 + opts.length / 4
  ip4Header 0 (20 + 20 + opts.length + 1) 41821 0 ttl 6 src dst ++
    tcpSeg src dst sport dport ((isn + ttl) % 4294967296) ack doff 0x18 1024 opts [byte ttl]

end TRV.Build
