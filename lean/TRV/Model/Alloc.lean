import TRV.Basic.Bytes
/-!
# Identifier allocators: `packets/packetid_alloc.go` (`AllocPacketID`), `icmp/icmp_driver.go` (`nextEchoID`)

Both allocators are one process-wide `atomic.Uint32` counter:

```go
func AllocPacketID(maxTTL uint8) uint16 {
	maxTTL32 := uint32(maxTTL)
	next := curPacketID.Add(maxTTL32) - maxTTL32     // Add returns the NEW value
	return uint16(next)
}
func nextEchoID() uint16 { next := curEchoID.Add(1); return uint16(next) }
```

The model keeps the integer widths: the counter is a `BitVec 32` (wraps at 2^32), the result is a
`BitVec 16` (truncation), the block size is a `BitVec 8`.  One call = one function from the counter
value to (result, new counter value); `atomic.Uint32.Add` is ONE step (that it is one indivisible
step is the Go memory model's guarantee for `sync/atomic`, an assumption of this module).

The TCP driver (`tcp/tcp_driver.go`, `getNextPacketIDAndSeqNum`) uses a block with base `b` as the
identifiers `b + uint16(ttl)` (16-bit wrap-around) for `ttl ∈ [MinTTL, MaxTTL] ⊆ [1, maxTTL]`:
`used b n` is that set for the whole block.
-/
namespace TRV.Alloc

/-- `AllocPacketID` from counter value `cur`: (returned base, new counter value) -/
def packetID (cur : BitVec 32) (maxTTL : BitVec 8) : BitVec 16 × BitVec 32 :=
  let n : BitVec 32 := maxTTL.zeroExtend 32          -- uint32(maxTTL)
  let new := cur + n                                  -- curPacketID.Add(maxTTL32)
  ((new - n).truncate 16, new)                        -- uint16(new - maxTTL32)

/-- `nextEchoID` from counter value `cur`: (returned id, new counter value) -/
def echoID (cur : BitVec 32) : BitVec 16 × BitVec 32 :=
  let new := cur + 1
  (new.truncate 16, new)

/-- identifier the TCP driver puts into the probe for TTL `t`: `basePacketID + uint16(ttl)` -/
def idOf (base : BitVec 16) (t : Nat) : BitVec 16 := base + BitVec.ofNat 16 t

/-- the identifiers of a block: `{base + t | 1 ≤ t ≤ n}` in 16-bit wrap-around arithmetic -/
def used (base : BitVec 16) (n : Nat) : List (BitVec 16) := (List.range' 1 n).map (idOf base)

/-- one allocated block: base and size -/
abbrev Block := BitVec 16 × Nat

def Block.ids (b : Block) : List (BitVec 16) := used b.1 b.2

/-! ## Sequences of allocations, as folds over the request list -/

/-- state of a sequential execution: blocks handed out so far (in order) and the counter -/
abbrev SeqSt := List Block × BitVec 32

def allocStep (st : SeqSt) (n : BitVec 8) : SeqSt :=
  let r := packetID st.2 n
  (st.1 ++ [(r.1, n.toNat)], r.2)

/-- sequential `AllocPacketID` calls with the requested sizes, starting from counter value `cur` -/
def allocSeq (cur : BitVec 32) (reqs : List (BitVec 8)) : SeqSt := reqs.foldl allocStep ([], cur)

/-- the blocks of `allocSeq`, by structural recursion (same list, see `Proofs.Alloc.allocSeq_blocks`) -/
def blocks : BitVec 32 → List (BitVec 8) → List Block
  | _, [] => []
  | c, n :: rest => ((packetID c n).1, n.toNat) :: blocks (packetID c n).2 rest

def echoStep (st : List (BitVec 16) × BitVec 32) (_ : Unit) : List (BitVec 16) × BitVec 32 :=
  let r := echoID st.2
  (st.1 ++ [r.1], r.2)

/-- `m` consecutive `nextEchoID` calls from counter value `cur` -/
def echoSeq (cur : BitVec 32) (m : Nat) : List (BitVec 16) × BitVec 32 :=
  (List.replicate m ()).foldl echoStep ([], cur)

/-- the ids of `echoSeq`, by structural recursion -/
def echoIds : BitVec 32 → Nat → List (BitVec 16)
  | _, 0 => []
  | c, m+1 => (echoID c).1 :: echoIds (echoID c).2 m

/-- total number of identifiers requested -/
def total (reqs : List (BitVec 8)) : Nat := (reqs.map BitVec.toNat).sum

/-! ## Concurrent callers

Each calling goroutine `t` executes `AllocPacketID(req t)` as two steps: the atomic `Add` (which
returns the new counter value into a goroutine-local variable) and, later, the goroutine-local
computation `uint16(next - maxTTL32)` + return.  A schedule is any list of such steps of any number
of goroutines.  (`nextEchoID` is the special case without the subtraction.) -/

inductive Step where
  | add (tid : Nat)      -- `next := curPacketID.Add(maxTTL32)`, one indivisible step
  | ret (tid : Nat)      -- `return uint16(next - maxTTL32)`, goroutine-local
deriving DecidableEq, Repr

structure ConcSt where
  ctr : BitVec 32
  pend : List (Nat × BitVec 32)       -- goroutines between their two steps: (tid, value `Add` returned)
  done : List (Nat × Block)           -- (tid, block) in return order
deriving Repr

/-- what goroutine `t` returns once `Add` handed it `new` -/
def retOf (req : Nat → BitVec 8) (e : Nat × BitVec 32) : Nat × Block :=
  (e.1, ((e.2 - (req e.1).zeroExtend 32).truncate 16, (req e.1).toNat))

def concStep (req : Nat → BitVec 8) (s : ConcSt) : Step → ConcSt
  | .add t =>
    let new := s.ctr + (req t).zeroExtend 32
    { s with ctr := new, pend := (t, new) :: s.pend }
  | .ret t =>
    match s.pend.find? (fun e => e.1 = t) with
    | none => s                                         -- nothing to return: not a step of the program
    | some e => { s with pend := s.pend.erase e, done := s.done ++ [retOf req e] }

def concRun (req : Nat → BitVec 8) (cur : BitVec 32) (sched : List Step) : ConcSt :=
  sched.foldl (concStep req) { ctr := cur, pend := [], done := [] }

/-- the goroutines in the order in which their `Add` steps were scheduled -/
def addOrder : List Step → List Nat
  | [] => []
  | .add t :: rest => t :: addOrder rest
  | .ret _ :: rest => addOrder rest

/-- sequential execution of the same calls, one after the other, in the given order of goroutines -/
def seqStep (req : Nat → BitVec 8) (st : List (Nat × Block) × BitVec 32) (t : Nat) : List (Nat × Block) × BitVec 32 :=
  let r := packetID st.2 (req t)
  (st.1 ++ [(t, (r.1, (req t).toNat))], r.2)

def seqRun (req : Nat → BitVec 8) (cur : BitVec 32) (order : List Nat) : List (Nat × Block) × BitVec 32 :=
  order.foldl (seqStep req) ([], cur)

/-! ## A broken allocator for contrast: `Load` then `Store` instead of one `Add`
(the mutation "nextEchoID uses a non-atomic load+store") -/

inductive RStep where
  | load (tid : Nat)
  | store (tid : Nat)    -- `cur.Store(loaded + 1); return uint16(loaded + 1)`
deriving DecidableEq, Repr

structure RacySt where
  ctr : BitVec 32
  loaded : List (Nat × BitVec 32)
  out : List (BitVec 16)
deriving Repr

def racyStep (s : RacySt) : RStep → RacySt
  | .load t => { s with loaded := (t, s.ctr) :: s.loaded }
  | .store t =>
    match s.loaded.find? (fun e => e.1 = t) with
    | none => s
    | some e => { ctr := e.2 + 1, loaded := s.loaded.erase e, out := s.out ++ [(e.2 + 1).truncate 16] }

def racyRun (cur : BitVec 32) (sched : List RStep) : RacySt :=
  sched.foldl racyStep { ctr := cur, loaded := [], out := [] }

end TRV.Alloc
