/-!
# Error classification: `packets.ReadAndParse` and `common.CheckProbeRetryable`

Every `ReceiveProbe` of the four drivers goes through these two functions; the engines decide from
their verdict whether an outcome is skipped (`retry`) or ends the run (`fatal`).

An error VALUE is modelled as its `Unwrap` chain, outermost link first.  `errors.Is` / `errors.As`
walk that chain, so a link is found however deeply it is wrapped:

* `wrap`          an opaque layer: `fmt.Errorf("…: %w", err)`, `*os.PathError`, `*net.OpError`, `*os.SyscallError`
* `noPkt`         `*common.ReceiveProbeNoPktError`
* `badPkt`        `*common.BadPacketError`
* `notSupported`  `*sack.NotSupportedError`
* `deadline`      the sentinel `os.ErrDeadlineExceeded`
* `cause t n`     any other innermost error number `n`; `t` = its `Timeout()` method answers true
                  (`syscall.ETIMEDOUT`, `EAGAIN`, `context.DeadlineExceeded`, a `net.Error` time-out …)
-/
namespace TRV.Classify

inductive Link where
  | wrap
  | noPkt
  | badPkt
  | notSupported
  | deadline
  | cause (timeoutFlag : Bool) (n : Nat)
deriving DecidableEq, Repr

abbrev Chain := List Link

/-- `errors.Is(err, os.ErrDeadlineExceeded)` -/
def isDeadline (c : Chain) : Bool := c.contains .deadline

/-- `CheckProbeRetryable`: `errors.As` finds a no-packet or a bad-packet error anywhere in the chain -/
def retryable (c : Chain) : Bool := c.contains .noPkt || c.contains .badPkt

/-- `errors.As(err, &NotSupportedError{})` -/
def isNotSupported (c : Chain) : Bool := c.contains .notSupported

/-- what `Source.Read` returned -/
inductive ReadRes where
  | err (c : Chain)                 -- an error (n is ignored)
  | data (n : Nat) (parseErr : Bool) -- n bytes, nil error; `parseErr` = `FrameParser.Parse` fails on them
deriving DecidableEq, Repr

/-- `ReadAndParse`: `none` = nil error (a parsed packet); `some c` = the returned error's chain -/
def readAndParse : ReadRes → Option Chain
  | .err c => if isDeadline c then some (.noPkt :: c) else some (.wrap :: c)
  | .data 0 _ => some [.cause false 0]          -- "ConnHandle Read() returned 0 bytes": a fresh error, nothing wrapped
  | .data (_+1) true => some [.badPkt, .cause false 1]
  | .data (_+1) false => none

/-- the engine's view of a `ReceiveProbe` that returned this `ReadAndParse` result unchanged -/
inductive Verdict where
  | packet | skip | abort
deriving DecidableEq, Repr

def verdict (r : ReadRes) : Verdict :=
  match readAndParse r with
  | none => .packet
  | some c => if retryable c then .skip else .abort

/-- a chain made by the code under the marker types: no marker links of its own -/
def Plain (c : Chain) : Prop := c.contains .noPkt = false ∧ c.contains .badPkt = false

end TRV.Classify
