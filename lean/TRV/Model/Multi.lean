/-!
# Multi-query aggregation model: `traceroute/traceroute.go`, `runTracerouteMulti`

`runTracerouteMulti` starts one goroutine per requested traceroute run and one per end-to-end probe
(plus one for the public IP).  Each goroutine, when its call returns, takes `resultsAndErrorsMu` and
appends to the shared accumulators.  Because the appends happen under the mutex, an execution is
fully described by the *order in which the calls complete*: a list of `Completion`s.

* `step`       — the body of the critical section of the two goroutine kinds, exactly as coded:
                 a failed run appends its error; a successful run appends its `TracerouteRun`;
                 a failed e2e probe appends its error AND a `0.0` sample; a successful probe appends
                 its RTT.
* `aggregate`  — fold of `step` over the completion order, then the tail of the function:
                 `if len(multiErr) > 0 { return nil, errors.Join(multiErr...) }; return &results`.
                 The public-IP goroutine only ever writes `results.Source.PublicIP` (on success) and
                 never touches `multiErr`.

Run results are opaque markers (`Nat`), errors are opaque identities (`Nat`, unique sentinels in the
harness), RTT samples are exact naturals (the harness uses integral millisecond values).
`errors.Join` is modelled by the list of joined errors in join order (`errors.Is` on the joined
error = membership in that list).
-/
namespace TRV.Multi

abbrev RunRes := Nat
abbrev Err := Nat
abbrev Rtt := Nat

/-- outcome of one call: `(value, nil)` or `(_, err)` -/
inductive Out (α : Type) where
  | ok (v : α)
  | err (e : Err)
deriving DecidableEq, Repr

/-- one finished call: traceroute run number `i`, or e2e probe number `j` -/
inductive Completion where
  | run (i : Nat) (o : Out RunRes)
  | probe (j : Nat) (o : Out Rtt)
deriving DecidableEq, Repr

/-- outcome of the public-IP goroutine (`off` = `CollectSourcePublicIP` false) -/
inductive PubIP where
  | off
  | ok (ip : Nat)
  | err
deriving DecidableEq, Repr

/-- the shared accumulators: `results.Traceroute.Runs`, `results.E2eProbe.RTTs`, `multiErr` -/
structure Acc where
  runs : List RunRes := []
  rtts : List Rtt := []
  errs : List Err := []
deriving DecidableEq, Repr

/-- the critical section executed when a call completes -/
def step (a : Acc) : Completion → Acc
  | .run _ (.ok r)    => { a with runs := a.runs ++ [r] }
  | .run _ (.err e)   => { a with errs := a.errs ++ [e] }
  | .probe _ (.ok t)  => { a with rtts := a.rtts ++ [t] }
  | .probe _ (.err e) => { a with errs := a.errs ++ [e], rtts := a.rtts ++ [0] }

/-- what `runTracerouteMulti` hands back on success -/
structure Results where
  runs : List RunRes
  rtts : List Rtt
  publicIP : Option Nat
deriving DecidableEq, Repr

/-- `(*Results, error)`: `joined es` is `errors.Join(es...)`, the result pointer is nil -/
inductive Res where
  | ok (r : Results)
  | joined (es : List Err)
deriving DecidableEq, Repr

def pubOf : PubIP → Option Nat
  | .ok ip => some ip
  | _ => none

def accumulate (cs : List Completion) : Acc := cs.foldl step {}

/-- `runTracerouteMulti` as a function of the completion order and the public-IP outcome -/
def aggregate (cs : List Completion) (pub : PubIP) : Res :=
  let a := accumulate cs
  if a.errs.length > 0 then .joined a.errs
  else .ok { runs := a.runs, rtts := a.rtts, publicIP := pubOf pub }

end TRV.Multi
