import TRV.Model.Engine
/-!
# Wrapper model: the four protocol entry points as sequences of resource operations

`icmp/traceroute_icmp.go` (`runICMPTraceroute` + `RunICMPTraceroute`), `udp/udp_traceroute.go`
(`UDPv4.Traceroute`), `tcp/tcp_traceroute.go` (`TCPv4.Traceroute`), `sack/traceroute_sack.go`
(`runSackTraceroute` + `RunSackTraceroute`, with `sackDriver.ReadHandshake`), the `Close` methods of
the four drivers, and the Source/Sink calls the drivers make per `SendProbe` / `ReceiveProbe`
(`packets.ReadAndParse`).

Every entry point is a function

    Cfg → FaultPlan → environment → Obs        (Obs = (Run ⊕ ErrChain) × CallLog × faults hit)

* `FaultPlan` — which k-th call of which operation fails with which class (any list of faults; the
  first fault listed for an (operation, k) pair applies);
* the environment is what the world outside the run decides: for the parallel engine the observed
  schedule of sender / receiver steps with the *natural* outcome of every read that was not faulted
  (`Step`), for the serial engine the natural outcomes per TTL window, for SACK additionally the
  natural outcomes of the handshake reads and of the TCP dial;
* errors are chains (outermost wrapper first, innermost cause last): a `fmt.Errorf("…: %w", err)`
  layer is `Link.wrap`, an error made without `%w` starts a fresh chain (the cause it hides is gone);
* the engine result is computed by `TRV.Engine.parallelRun` / `serialRun` from the effective
  `ReceiveProbe` outcomes (a fatal read / deadline error and a zero-length read are `ROut.fatal`, an
  `os.ErrDeadlineExceeded` read is `ROut.retry`), hops by `TRV.Engine.toHops`.

The model follows the code *as it is*, including the Windows-only `MustClosePort` branches (second
`Close` of the local UDP connection / the reserved listener) and the handshake time-out error that
does not wrap `os.ErrDeadlineExceeded`.
-/
namespace TRV.Wrapper
open TRV.Engine

/-- the resources a run opens -/
inductive Handle where
  | source      -- `handle.Source` (capture)
  | sink        -- `handle.Sink` (send)
  | localConn   -- the UDP socket of `common.LocalAddrForHost`
  | listener    -- `reserveLocalPort` (TCP)
  | tcpConn     -- `dialSackTCP` (SACK)
deriving DecidableEq, Repr

/-- one entry of the call log -/
inductive Ev where
  | open (h : Handle)
  | close (h : Handle)
  | filter      -- Source.SetPacketFilter
  | deadline    -- Source.SetReadDeadline
  | read        -- Source.Read
  | write       -- Sink.WriteTo
deriving DecidableEq, Repr

abbrev CallLog := List Ev

/-- operations a fault can be attached to -/
inductive FOp where
  | dial | listen | newSourceSink | filter | deadline | read | write | tcpDial
deriving DecidableEq, Repr

inductive Class where
  | fatal | deadline | zero
deriving DecidableEq, Repr

structure Fault where
  op : FOp
  k : Nat
  cls : Class
deriving DecidableEq, Repr

abbrev FaultPlan := List Fault

def lookup (plan : FaultPlan) (op : FOp) (k : Nat) : Option Class :=
  (plan.find? (fun f => f.op == op && f.k == k)).map (·.cls)

/-- what a fault of a class does to a call (as the simulated wire implements the classes): a read can
    fail, return 0 bytes or time out; `SetReadDeadline` only knows the fatal class; every other
    operation fails whatever the class -/
inductive Eff where
  | pass | fail | zero | timeout
deriving DecidableEq, Repr

def effect : FOp → Option Class → Eff
  | _, none => .pass
  | .read, some .fatal => .fail
  | .read, some .zero => .zero
  | .read, some .deadline => .timeout
  | .deadline, some .fatal => .fail
  | .deadline, some _ => .pass
  | _, some _ => .fail

def eff (plan : FaultPlan) (op : FOp) (k : Nat) : Eff := effect op (lookup plan op k)

/-- the fault (if any) that the k-th call of `op` triggers -/
def hitOf (plan : FaultPlan) (op : FOp) (k : Nat) : List Fault :=
  match lookup plan op k with
  | none => []
  | some c => if effect op (some c) = .pass then [] else [{ op := op, k := k, cls := c }]

inductive Cause where
  | injected (op : FOp) (k : Nat)   -- the error value the faulted call returned
  | zeroRead                        -- "ConnHandle Read() returned 0 bytes" (nothing to wrap)
  | handshakeTimeout                -- "sackDriver readHandshake timed out" (made without %w)
  | platform                        -- "SACK traceroute is not supported on this platform"
  | refused                         -- the target refused / did not complete the TCP connection
  | natural                         -- a failure the environment caused (driver-level error, bad probe)
  | engine (e : RunErr)             -- parameter validation etc. inside the engine
  | toHops                          -- "probe TTL mismatch"
  | badParams                       -- validate() / address conversion
deriving DecidableEq, Repr

/-- wrapper layers (`fmt.Errorf("<text>: %w", err)`) -/
inductive W where
  | outer | inner | params | localAddr | listen | newSourceSink | setFilter | dial | dialInner
  | handshake | hsDeadline | hsRead | hsHandle | connRead | sendProbe | recvProbe | driverWrite
  | driverDeadline | toHops
deriving DecidableEq, Repr

inductive Link where
  | wrap (w : W)
  | notSupported                    -- `&sack.NotSupportedError{Err: …}`
  | cause (c : Cause)
deriving DecidableEq, Repr

abbrev ErrChain := List Link

structure Run where
  hops : List Hop
deriving DecidableEq, Repr

/-- everything observable about one call of an entry point -/
structure Obs where
  res : Except ErrChain Run
  log : CallLog
  hit : List Fault
deriving Repr

/-- the shape the task statement asks for -/
def Obs.out (o : Obs) : Except ErrChain Run × CallLog := (o.res, o.log)

structure Cfg where
  min : Nat
  max : Nat
  validTarget : Bool := true
  mustClosePort : Bool := false      -- `handle.MustClosePort` (false on Linux)
  /-- the caller's context is done by the time the engine's goroutines have returned (ICMP and SACK
      take a context; `TracerouteParallel` then reports `ctx.Err()` instead of a path) -/
  cancelled : Bool := false
deriving DecidableEq, Repr

/-! ## Engine part -/

/-- per-operation call counters (how many calls of each Source/Sink operation were made so far) -/
structure Cnt where
  nd : Nat := 0
  nr : Nat := 0
  nw : Nat := 0
deriving DecidableEq, Repr

/-- one step of the observed schedule of the parallel engine -/
inductive Step where
  | send                  -- the sender goroutine calls SendProbe (one Sink.WriteTo)
  | rbegin                -- the receiver calls ReceiveProbe: SetReadDeadline, then Read starts
                          -- (a faulted Read returns at once: its outcome is applied here)
  | rend (nat : ROut)     -- an unfaulted Read returns; `nat` = how the driver classifies the delivery
deriving DecidableEq, Repr

structure PSt where
  cnt : Cnt
  sent : Nat := 0
  sDone : Bool := false   -- sender returned (write failed, all sent, or cancelled)
  rDone : Bool := false   -- receiver returned with an error
  pend : Bool := false    -- an unfaulted Read is in progress
deriving DecidableEq, Repr

/-- what the engine part of a run did -/
structure ETr where
  log : CallLog := []
  hit : List Fault := []
  outs : List ROut := []              -- effective ReceiveProbe outcomes, in order
  sendErr : Bool := false
  firstErr : Option ErrChain := none  -- errgroup: the first error wins
deriving Repr

def sendChain (k : Nat) : ErrChain :=
  [.wrap .sendProbe, .wrap .driverWrite, .cause (.injected .write k)]
def deadlineChain (k : Nat) : ErrChain :=
  [.wrap .recvProbe, .wrap .driverDeadline, .cause (.injected .deadline k)]
def readInjChain (k : Nat) : ErrChain :=
  [.wrap .recvProbe, .wrap .connRead, .cause (.injected .read k)]
def readZeroChain : ErrChain := [.wrap .recvProbe, .cause .zeroRead]
def naturalChain : ErrChain := [.wrap .recvProbe, .cause .natural]

/-- does this outcome make the receiver goroutine return an error? -/
def outErr (min max : Nat) : ROut → Bool
  | .retry => false
  | .accept p => !validProbe min max p
  | .fatal => true
  | .nilProbe => true

def outDest : ROut → Bool
  | .accept p => p.dest
  | _ => false

def ETr.cons (e : List Ev) (h : List Fault) (t : ETr) : ETr :=
  { t with log := e ++ t.log, hit := h ++ t.hit }

/-- the receiver goroutine returns an error: it is done, the errgroup cancels the sender -/
def PSt.recvFailed (st : PSt) : PSt := { st with pend := false, rDone := true, sDone := true }

/-- `TracerouteParallel` over a driver: the sender writes one probe per TTL until it has sent all,
    its write fails, or it is cancelled (destination found / receiver failed); the receiver loops
    SetReadDeadline + Read. Steps the code cannot take in a state are dropped (so a real log with
    such a step differs from the model's). -/
def parWalk (plan : FaultPlan) (min max : Nat) : PSt → List Step → ETr
  | _, [] => {}
  | st, .send :: rest =>
    if st.sDone || max + 1 - min ≤ st.sent then parWalk plan min max st rest else
    let k := st.cnt.nw
    let st' := { st with cnt := { st.cnt with nw := k + 1 }, sent := st.sent + 1 }
    match eff plan .write k with
    | .pass => (parWalk plan min max st' rest).cons [.write] []
    | _ =>
      let t := (parWalk plan min max { st' with sDone := true } rest).cons [.write] (hitOf plan .write k)
      { t with sendErr := true, firstErr := some (sendChain k) }
  | st, .rbegin :: rest =>
    if st.rDone || st.pend then parWalk plan min max st rest else
    let kd := st.cnt.nd
    let kr := st.cnt.nr
    match eff plan .deadline kd with
    | .fail =>
      let st' := { st with cnt := { st.cnt with nd := kd + 1 } }.recvFailed
      let t := (parWalk plan min max st' rest).cons [.deadline] (hitOf plan .deadline kd)
      { t with outs := .fatal :: t.outs, firstErr := some (deadlineChain kd) }
    | _ =>
      let st' := { st with cnt := { st.cnt with nd := kd + 1, nr := kr + 1 } }
      match eff plan .read kr with
      | .pass => (parWalk plan min max { st' with pend := true } rest).cons [.deadline, .read] []
      | .timeout =>
        let t := (parWalk plan min max st' rest).cons [.deadline, .read] (hitOf plan .read kr)
        { t with outs := .retry :: t.outs }
      | .fail =>
        let t := (parWalk plan min max st'.recvFailed rest).cons [.deadline, .read] (hitOf plan .read kr)
        { t with outs := .fatal :: t.outs, firstErr := some (readInjChain kr) }
      | .zero =>
        let t := (parWalk plan min max st'.recvFailed rest).cons [.deadline, .read] (hitOf plan .read kr)
        { t with outs := .fatal :: t.outs, firstErr := some readZeroChain }
  | st, .rend o :: rest =>
    if !st.pend then parWalk plan min max st rest else
    if outErr min max o then
      let t := parWalk plan min max st.recvFailed rest
      { t with outs := o :: t.outs, firstErr := some naturalChain }
    else
      let t := parWalk plan min max { st with pend := false, sDone := st.sDone || outDest o } rest
      { t with outs := o :: t.outs }

/-- what the serial engine did -/
structure STr where
  log : CallLog := []
  hit : List Fault := []
  windows : List (List ROut) := []    -- effective outcomes per TTL window
  sendErr : Bool := false
  firstErr : Option ErrChain := none
  cnt : Cnt := {}
deriving Repr

/-- result of one per-TTL receive window -/
structure WTr where
  log : CallLog := []
  hit : List Fault := []
  outs : List ROut := []
  err : Option ErrChain := none
  stop : Bool := false               -- a destination reply was accepted
  cnt : Cnt
deriving Repr

/-- the receive loop of one TTL of `TracerouteSerial`: one SetReadDeadline + Read per natural
    outcome, until a probe is accepted, an error occurs, or the window's time is up (list ends) -/
def winWalk (plan : FaultPlan) (min max : Nat) : Cnt → List ROut → WTr
  | c, [] => { cnt := c }
  | c, nat :: rest =>
    match eff plan .deadline c.nd with
    | .fail => { log := [.deadline], hit := hitOf plan .deadline c.nd, outs := [.fatal],
                 err := some (deadlineChain c.nd), cnt := { c with nd := c.nd + 1 } }
    | _ =>
      let c' : Cnt := { c with nd := c.nd + 1, nr := c.nr + 1 }
      let h := hitOf plan .read c.nr
      let fin (o : ROut) (e : ErrChain) : WTr :=
        { log := [.deadline, .read], hit := h, outs := [o], err := some e, cnt := c' }
      let go (o : ROut) : WTr :=
        let t := winWalk plan min max c' rest
        { t with log := [.deadline, .read] ++ t.log, hit := h ++ t.hit, outs := o :: t.outs }
      match eff plan .read c.nr with
      | .fail => fin .fatal (readInjChain c.nr)
      | .zero => fin .fatal readZeroChain
      | .timeout => go .retry
      | .pass =>
        if outErr min max nat then fin nat naturalChain else
        match nat with
        | .accept q => { log := [.deadline, .read], hit := h, outs := [nat], stop := q.dest, cnt := c' }
        | _ => go nat

/-- `TracerouteSerial` over a driver; `sent` = probes written so far -/
def serWalk (plan : FaultPlan) (min max : Nat) : Cnt → Nat → List (List ROut) → STr
  | c, _, [] => { cnt := c }
  | c, sent, w :: rest =>
    if max + 1 - min ≤ sent then { cnt := c } else
    let k := c.nw
    let c1 : Cnt := { c with nw := k + 1 }
    match eff plan .write k with
    | .pass =>
      let wt := winWalk plan min max c1 w
      match wt.err with
      | some e => { log := .write :: wt.log, hit := wt.hit, windows := [wt.outs], firstErr := some e, cnt := wt.cnt }
      | none =>
        if wt.stop then { log := .write :: wt.log, hit := wt.hit, windows := [wt.outs], cnt := wt.cnt } else
        let t := serWalk plan min max wt.cnt (sent + 1) rest
        { t with log := .write :: wt.log ++ t.log, hit := wt.hit ++ t.hit, windows := wt.outs :: t.windows }
    | _ => { log := [.write], hit := hitOf plan .write k, sendErr := true,
             firstErr := some (sendChain k), cnt := c1 }

/-! ## Result construction -/

def engChain (fe : Option ErrChain) (e : RunErr) : ErrChain :=
  match fe with
  | some c => c
  | none => [.cause (.engine e)]

/-- engine result → `ToHops` → `TracerouteRun`; `ew` = the wrappers put around an engine error,
    `hw` = around a `ToHops` error -/
def conclude (min : Nat) (ew hw : ErrChain) (r : RunRes) (fe : Option ErrChain) : Except ErrChain Run :=
  match r with
  | .error e => .error (ew ++ engChain fe e)
  | .ok slots =>
    match toHops min slots with
    | some hs => .ok { hops := hs }
    | none => .error (hw ++ [.cause .toHops])

def W.l (w : W) : Link := .wrap w

/-- `if handle.MustClosePort { x.Close() }` -/
def mcClose (b : Bool) (h : Handle) : CallLog := if b then [.close h] else []

/-! ## ICMP: `RunICMPTraceroute` → `runICMPTraceroute` -/

def icmp (cfg : Cfg) (plan : FaultPlan) (sched : List Step) : Obs :=
  -- p.validate()
  if !cfg.validTarget then ⟨.error [W.outer.l, W.params.l, .cause .badParams], [], []⟩ else
  -- common.LocalAddrForHost; udpConn.Close()
  if eff plan .dial 0 ≠ .pass then
    ⟨.error [W.outer.l, W.localAddr.l, .cause (.injected .dial 0)], [], hitOf plan .dial 0⟩ else
  let l0 : CallLog := [.open .localConn, .close .localConn]
  -- packets.NewSourceSink
  if eff plan .newSourceSink 0 ≠ .pass then
    ⟨.error [W.outer.l, W.newSourceSink.l, .cause (.injected .newSourceSink 0)], l0, hitOf plan .newSourceSink 0⟩ else
  let l1 : CallLog := l0 ++ [.open .source, .open .sink, .filter]
  -- SetPacketFilter; on failure the wrapper closes both handles itself
  if eff plan .filter 0 ≠ .pass then
    ⟨.error [W.outer.l, W.setFilter.l, .cause (.injected .filter 0)],
     l1 ++ [.close .source, .close .sink], hitOf plan .filter 0⟩ else
  -- newICMPDriver; defer driver.Close() (source, then sink); TracerouteParallel; ToHops
  let tr := parWalk plan cfg.min cfg.max { cnt := {} } sched
  let r := parallelRun cfg.min cfg.max true tr.outs tr.sendErr cfg.cancelled
  ⟨conclude cfg.min [W.outer.l, W.inner.l] [W.toHops.l] r tr.firstErr,
   l1 ++ tr.log ++ [.close .source, .close .sink], tr.hit⟩

/-! ## UDP: `UDPv4.Traceroute` -/

def udp (cfg : Cfg) (plan : FaultPlan) (sched : List Step) : Obs :=
  -- common.UnmappedAddrFromSlice(u.Target)
  if !cfg.validTarget then ⟨.error [.cause .badParams], [], []⟩ else
  -- LocalAddrForHost; defer conn.Close()
  if eff plan .dial 0 ≠ .pass then
    ⟨.error [W.localAddr.l, .cause (.injected .dial 0)], [], hitOf plan .dial 0⟩ else
  let l0 : CallLog := [.open .localConn]
  if eff plan .newSourceSink 0 ≠ .pass then
    ⟨.error [W.newSourceSink.l, .cause (.injected .newSourceSink 0)],
     l0 ++ [.close .localConn], hitOf plan .newSourceSink 0⟩ else
  -- if handle.MustClosePort { conn.Close() }   (the deferred Close still runs at return)
  let mc : CallLog := mcClose cfg.mustClosePort .localConn
  let l1 : CallLog := l0 ++ [.open .source, .open .sink] ++ mc ++ [.filter]
  if eff plan .filter 0 ≠ .pass then
    ⟨.error [W.setFilter.l, .cause (.injected .filter 0)],
     l1 ++ [.close .source, .close .sink, .close .localConn], hitOf plan .filter 0⟩ else
  -- newUDPDriver; defer driver.Close() (sink, then source); the engine error is returned unwrapped
  let tr := parWalk plan cfg.min cfg.max { cnt := {} } sched
  let r := parallelRun cfg.min cfg.max true tr.outs tr.sendErr false
  ⟨conclude cfg.min [] [W.toHops.l] r tr.firstErr,
   l1 ++ tr.log ++ [.close .sink, .close .source, .close .localConn], tr.hit⟩

/-! ## TCP SYN: `TCPv4.Traceroute` -/

def tcp (cfg : Cfg) (plan : FaultPlan) (windows : List (List ROut)) : Obs :=
  -- LocalAddrForHost; conn.Close()
  if eff plan .dial 0 ≠ .pass then
    ⟨.error [W.localAddr.l, .cause (.injected .dial 0)], [], hitOf plan .dial 0⟩ else
  let l0 : CallLog := [.open .localConn, .close .localConn]
  -- reserveLocalPort; defer tcpListener.Close()
  if eff plan .listen 0 ≠ .pass then
    ⟨.error [W.listen.l, W.listen.l, .cause (.injected .listen 0)], l0, hitOf plan .listen 0⟩ else
  let l1 : CallLog := l0 ++ [.open .listener]
  -- common.UnmappedAddrFromSlice(t.Target)
  if !cfg.validTarget then ⟨.error [.cause .badParams], l1 ++ [.close .listener], []⟩ else
  if eff plan .newSourceSink 0 ≠ .pass then
    ⟨.error [W.newSourceSink.l, .cause (.injected .newSourceSink 0)],
     l1 ++ [.close .listener], hitOf plan .newSourceSink 0⟩ else
  -- if handle.MustClosePort { tcpListener.Close() }
  let mc : CallLog := mcClose cfg.mustClosePort .listener
  let l2 : CallLog := l1 ++ [.open .source, .open .sink] ++ mc ++ [.filter]
  if eff plan .filter 0 ≠ .pass then
    ⟨.error [W.setFilter.l, .cause (.injected .filter 0)],
     l2 ++ [.close .source, .close .sink, .close .listener], hitOf plan .filter 0⟩ else
  -- newTCPDriver; defer driver.Close() (sink, then source); TracerouteSerial
  let tr := serWalk plan cfg.min cfg.max {} 0 windows
  let r := serialRun cfg.min cfg.max tr.windows tr.sendErr false
  ⟨conclude cfg.min [] [W.toHops.l] r tr.firstErr,
   l2 ++ tr.log ++ [.close .sink, .close .source, .close .listener], tr.hit⟩

/-! ## SACK: `RunSackTraceroute` → `runSackTraceroute` -/

/-- natural outcome of one read of `ReadHandshake` -/
inductive HOut where
  | ignore          -- unrelated / retryable packet, or `handleHandshake` returned nil without a state
  | done            -- the SYN-ACK with SACK-permitted: state set, loop ends
  | notSupported    -- SYN-ACK without SACK-permitted
  | fail            -- any other error (parse error, truncated timestamps)
  | timeout         -- the 500 ms read deadline passed
deriving DecidableEq, Repr

structure HTr where
  log : CallLog := []
  hit : List Fault := []
  err : Option ErrChain := none
  nr : Nat
deriving Repr

/-- the read loop of `ReadHandshake` (after its SetReadDeadline) -/
def hsLoop (plan : FaultPlan) : Nat → List HOut → HTr
  | nr, [] => { err := some [W.handshake.l, .cause .handshakeTimeout], nr := nr }
  | nr, h :: rest =>
    let hit := hitOf plan .read nr
    let fin (e : ErrChain) : HTr := { log := [.read], hit := hit, err := some e, nr := nr + 1 }
    match eff plan .read nr with
    | .fail => fin [W.handshake.l, W.hsRead.l, W.connRead.l, .cause (.injected .read nr)]
    | .zero => fin [W.handshake.l, W.hsRead.l, .cause .zeroRead]
    | .timeout => fin [W.handshake.l, .cause .handshakeTimeout]   -- no %w: the cause is dropped
    | .pass =>
      match h with
      | .ignore =>
        let t := hsLoop plan (nr + 1) rest
        { t with log := .read :: t.log, hit := hit ++ t.hit }
      | .done => { log := [.read], hit := hit, nr := nr + 1 }
      | .notSupported => fin [W.handshake.l, W.hsHandle.l, .notSupported, .cause .natural]
      | .fail => fin [W.handshake.l, W.hsHandle.l, .cause .natural]
      | .timeout => fin [W.handshake.l, .cause .handshakeTimeout]

structure SackEnv where
  listening : Bool := true      -- the target completes the TCP connection
  localAddrOk : Bool := true    -- the connection's local address is the expected one
  hs : List HOut := []
  sched : List Step := []
deriving Repr

/-- deferred at this point: `conn.Close()`, then `driver.Close()` (source, sink) -/
def sackClose2 : CallLog := [.close .tcpConn, .close .source, .close .sink]

/-- after a successful handshake: SetPacketFilter #2 (TCP filter) — on failure a plain return, the
    deferred closes run — then TracerouteParallel and ToHops. `pre` = the log so far, `hpre` = the
    faults hit so far, `nr` = reads made by the handshake. -/
def sackTail (cfg : Cfg) (plan : FaultPlan) (env : SackEnv) (pre : CallLog) (hpre : List Fault) (nr : Nat) : Obs :=
  if eff plan .filter 1 ≠ .pass then
    ⟨.error [W.outer.l, W.setFilter.l, .cause (.injected .filter 1)], pre ++ [.filter] ++ sackClose2,
     hpre ++ hitOf plan .filter 1⟩ else
  let tr := parWalk plan cfg.min cfg.max { cnt := { nd := 1, nr := nr } } env.sched
  let r := parallelRun cfg.min cfg.max true tr.outs tr.sendErr cfg.cancelled
  ⟨conclude cfg.min [W.outer.l, W.inner.l] [W.toHops.l] r tr.firstErr,
   pre ++ [.filter] ++ tr.log ++ sackClose2, hpre ++ tr.hit⟩

/-- after `dialSackTCP` succeeded (`defer conn.Close()` registered): local-address sanity check,
    `driver.ReadHandshake` (SetReadDeadline, then the read loop) -/
def sackConn (cfg : Cfg) (plan : FaultPlan) (env : SackEnv) (pre : CallLog) : Obs :=
  if !env.localAddrOk then ⟨.error [W.outer.l, .cause .natural], pre ++ sackClose2, []⟩ else
  if eff plan .deadline 0 ≠ .pass then
    ⟨.error [W.outer.l, W.handshake.l, W.hsDeadline.l, .cause (.injected .deadline 0)],
     pre ++ [.deadline] ++ sackClose2, hitOf plan .deadline 0⟩ else
  let ht := hsLoop plan 0 env.hs
  match ht.err with
  | some e => ⟨.error (W.outer.l :: e), pre ++ ([.deadline] ++ ht.log) ++ sackClose2, ht.hit⟩
  | none => sackTail cfg plan env (pre ++ ([.deadline] ++ ht.log)) ht.hit ht.nr

def sack (cfg : Cfg) (plan : FaultPlan) (env : SackEnv) : Obs :=
  if !cfg.validTarget then ⟨.error [W.outer.l, W.params.l, .cause .badParams], [], []⟩ else
  -- LocalAddrForHost; udpConn.Close()
  if eff plan .dial 0 ≠ .pass then
    ⟨.error [W.outer.l, W.localAddr.l, .cause (.injected .dial 0)], [], hitOf plan .dial 0⟩ else
  let l0 : CallLog := [.open .localConn, .close .localConn]
  if eff plan .newSourceSink 0 ≠ .pass then
    ⟨.error [W.outer.l, W.newSourceSink.l, .cause (.injected .newSourceSink 0)], l0, hitOf plan .newSourceSink 0⟩ else
  let l1 : CallLog := l0 ++ [.open .source, .open .sink, .filter]
  let cl : CallLog := [.close .source, .close .sink]
  -- SetPacketFilter (SYN-ACK filter); on failure the wrapper closes both handles itself
  if eff plan .filter 0 ≠ .pass then
    ⟨.error [W.outer.l, W.setFilter.l, .cause (.injected .filter 0)], l1 ++ cl, hitOf plan .filter 0⟩ else
  -- if handle.MustClosePort: close both, NotSupported
  if cfg.mustClosePort then ⟨.error [W.outer.l, .notSupported, .cause .platform], l1 ++ cl, []⟩ else
  -- newSackDriver (cannot fail); defer driver.Close(); dialSackTCP: failure ⇒ NotSupported, the
  -- deferred driver.Close() runs
  if eff plan .tcpDial 0 ≠ .pass then
    ⟨.error [W.outer.l, .notSupported, W.dial.l, W.dialInner.l, .cause (.injected .tcpDial 0)], l1 ++ cl, hitOf plan .tcpDial 0⟩ else
  if !env.listening then
    ⟨.error [W.outer.l, .notSupported, W.dial.l, W.dialInner.l, .cause .refused], l1 ++ cl, []⟩ else
  sackConn cfg plan env (l1 ++ [.open .tcpConn])

end TRV.Wrapper
