/-!
# TCP method policy model: `traceroute/runner.go` (`performTCPFallback`, `runE2eProbeOnce`) and the
# failure classification of `sack/traceroute_sack.go` + `sack/sack_driver.go`

Errors are *chains*: the list of layers from the outermost wrapper to the innermost cause, as produced
by `fmt.Errorf("…: %w", err)` and by `&NotSupportedError{Err: err}`.  `errors.As(err,
&*sack.NotSupportedError)` walks the whole chain, so it is `hasNS`: some layer, at any depth, is a
`NotSupportedError`.  (For `errors.Join` trees the chain is the depth-first pre-order that
`errors.As` visits.)

* `fallback`      — `performTCPFallback`, with the three closures replaced by their outcomes and an
                    invocation count per closure
* `e2eMethod`     — the method override at the top of `runE2eProbeOnce`
* `SackFailure`,
  `sackChain`     — every way `RunSackTraceroute` can fail, with the exact wrapping chain the code
                    builds for it; `sackUnsupported f = hasNS (sackChain f)`
-/
namespace TRV.Policy

/-- the `TCPMethod` string, by the cases the code distinguishes -/
inductive Method where
  | empty        -- ""
  | syn          -- "syn"
  | sack         -- "sack"
  | preferSack   -- "prefer_sack"
  | synSocket    -- "syn_socket"
  | other        -- anything else
deriving DecidableEq, Repr

/-- one layer of an error chain -/
inductive Layer where
  | notSupported          -- `*sack.NotSupportedError`
  | msg (id : Nat)        -- a `fmt.Errorf`/`errors.New` layer, identified by a tag
deriving DecidableEq, Repr

abbrev Chain := List Layer

/-- `errors.As(err, &sackNotSupportedErr)` -/
def hasNS (c : Chain) : Bool := c.any (· == .notSupported)

/-- outcome of a closure / of the whole selection: a run (opaque marker) or an error chain -/
inductive Out where
  | ok (r : Nat)
  | err (c : Chain)
deriving DecidableEq, Repr

/-- how often each closure was invoked -/
structure Calls where
  syn : Nat := 0
  sack : Nat := 0
  synSocket : Nat := 0
deriving DecidableEq, Repr

/-- tag of the wrapper "SACK traceroute failed fatally, not falling back: %w" -/
def tagFatal : Nat := 1
/-- tag of "unexpected TCPMethod: %s" -/
def tagUnexpected : Nat := 2

/-- `performTCPFallback(tcpMethod, doSyn, doSack, doSynSocket)`; `syn`, `sack`, `sock` are what the
    closures return when (and if) they are invoked -/
def fallback (m : Method) (syn sack sock : Out) : Out × Calls :=
  let m := if m = .empty then .syn else m      -- `if tcpMethod == "" { tcpMethod = "syn" }`
  match m with
  | .syn => (syn, { syn := 1 })
  | .sack => (sack, { sack := 1 })
  | .synSocket => (sock, { synSocket := 1 })
  | .preferSack =>
    match sack with
    | .err c =>
      if hasNS c then (syn, { sack := 1, syn := 1 })          -- errors.As … → doSyn()
      else (.err (.msg tagFatal :: c), { sack := 1 })        -- fmt.Errorf("… not falling back: %w", err)
    | .ok r => (.ok r, { sack := 1 })                         -- err == nil: As is false
  | _ => (.err [.msg tagUnexpected], {})

/-- `runE2eProbeOnce`: SACK methods are replaced by SYN for TCP -/
def e2eMethod (isTcp : Bool) (m : Method) : Method :=
  if isTcp && (m = .sack || m = .preferSack) then .syn else m

/-- every failure exit of `RunSackTraceroute` / `runSackTraceroute` / `sackDriver` -/
inductive SackFailure where
  | invalidParams        -- `p.validate()` (invalid or IPv6 address)
  | localAddr            -- `LocalAddrForHost`
  | sourceSink           -- `packets.NewSourceSink`
  | filterSynack         -- first `SetPacketFilter`
  | mustClosePort        -- platform cannot keep a second socket open
  | driverInit           -- `newSackDriver`
  | dial                 -- `dialSackTCP` (connection refused / timed out)
  | localAddrType        -- `conn.LocalAddr()` is not a TCP address
  | localAddrMismatch    -- negotiated local address differs
  | handshakeDeadline    -- `SetReadDeadline` failed in `ReadHandshake`
  | handshakeTimeout     -- no SYN-ACK captured within 500 ms
  | handshakeRead        -- `ReadAndParse` fault while waiting for the SYN-ACK
  | handshakeTruncTS     -- truncated timestamps option / unparsable pair in `handleHandshake`
  | noSackPermitted      -- SYN-ACK without SACK-permitted
  | filterTCP            -- second `SetPacketFilter`
  | send                 -- `SendProbe` fault inside the engine
  | read                 -- `ReceiveProbe` fault inside the engine
  | ackWithoutSack       -- matching ACK without SACK blocks
  | engineOther          -- invalid parameters / bad probe reported by the engine
  | toHops               -- `ToHops`
  | makeParams           -- `makeSackParams` inside the `doSack` closure (before `RunSackTraceroute`)
deriving DecidableEq, Repr

open Layer in
/-- the wrapping chain built by the code for each failure (outermost first; tag 10 = RunSack's
    "sack traceroute failed", 11.. = the message at the failing site, 99 = underlying cause) -/
def sackChain : SackFailure → Chain
  | .invalidParams     => [msg 10, msg 11, msg 99]
  | .localAddr         => [msg 10, msg 12, msg 99]
  | .sourceSink        => [msg 10, msg 13, msg 99]
  | .filterSynack      => [msg 10, msg 14, msg 99]
  | .mustClosePort     => [msg 10, notSupported, msg 15]
  | .driverInit        => [msg 10, msg 16, msg 99]
  | .dial              => [msg 10, notSupported, msg 17, msg 18, msg 99]
  | .localAddrType     => [msg 10, msg 19]
  | .localAddrMismatch => [msg 10, msg 20]
  | .handshakeDeadline => [msg 10, msg 21, msg 22, msg 99]
  | .handshakeTimeout  => [msg 10, msg 21, msg 23]
  | .handshakeRead     => [msg 10, msg 21, msg 24, msg 99]
  | .handshakeTruncTS  => [msg 10, msg 21, msg 25, msg 26]
  | .noSackPermitted   => [msg 10, msg 21, msg 25, notSupported, msg 27]
  | .filterTCP         => [msg 10, msg 14, msg 99]
  | .send              => [msg 10, msg 28, msg 29, msg 99]
  | .read              => [msg 10, msg 28, msg 30, msg 99]
  | .ackWithoutSack    => [msg 10, msg 28, msg 30, notSupported, msg 31, msg 32]
  | .engineOther       => [msg 10, msg 28, msg 99]
  | .toHops            => [msg 10, msg 33, msg 99]
  | .makeParams        => [msg 34, msg 35]

/-- does `errors.As(err, &*NotSupportedError)` succeed on the error `RunSackTraceroute` returns? -/
def sackUnsupported (f : SackFailure) : Bool := hasNS (sackChain f)

/-- the capability failures named by the property: cannot connect, no SACK-permitted in the
    handshake, acknowledgements without SACK blocks, platform cannot do SACK at all -/
def isCapability : SackFailure → Bool
  | .dial | .noSackPermitted | .ackWithoutSack | .mustClosePort => true
  | _ => false

/-- the outcome of the `doSack` closure: `none` = the SACK trace succeeded (marker `r`) -/
def sackOut (r : Nat) : Option SackFailure → Out
  | none => .ok r
  | some f => .err (sackChain f)

end TRV.Policy
