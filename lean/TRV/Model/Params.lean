import TRV.Model.Policy
/-!
# Parameter path model: `RunTraceroute → runTracerouteOnce → NewUDPv4 / NewTCPv4 / makeSackParams /
# icmp.Params → engine validate → SendProbe`

What a request turns into: rejected with an error, a *plan* (the probes that go on the wire), or a
process crash.  Integer narrowing is modelled exactly where the code narrows:

* `u8 x`   — Go's `uint8(x)` of an `int`: the low 8 bits, `Int.toNat (x mod 256)`
             (`traceroute/runner.go`: `uint8(params.MinTTL)`, `uint8(params.MaxTTL)` in all four
             protocol arms);
* `u16 x`  — `uint16(port)` in `parseTarget`, after its range check;
* `sackTableLen` — `make([]time.Time, params.ParallelParams.MaxTTL+1)` in `newSackDriver`
             (`sack/sack_driver.go`): the addition is done in `uint8` unless the code converts first.

The model is PARAMETRISED by two booleans that describe the code (regenerated from the source by
`harness/extract/params.go` into `TRV.Generated.ParamsFacts`):

* `ttlRangeChecked` — `runTracerouteOnce` rejects `MinTTL`/`MaxTTL` outside `1..255` before any
                       `uint8(…)` conversion;
* `sackTableInt`    — the SACK send-time table is sized as `int(MaxTTL)+1`.

Environment: `avail` says what the SACK attempt meets (a SACK-capable listener, an unsupported target,
or a fatal failure such as a handshake that is never captured) — see `TRV.Policy` for that part.
Platform: Linux/unix (`TracerouteSequentialSocket` is "not implemented or supported on unix").
-/
namespace TRV.Params
open TRV.Policy (Method)

inductive Proto where
  | udp | tcp | icmp | other
deriving DecidableEq, Repr

/-- the port part of the target literal, as `hasPort`/`SplitHostPort`/`Atoi` see it -/
inductive LitPort where
  | absent            -- "192.0.2.9", "[2001:db8::1]", "2001:db8::1": `hasPort` is false
  | num (n : Int)     -- "host:n" / "[v6]:n" with a decimal n
  | garbage           -- a port part `strconv.Atoi` rejects
deriving DecidableEq, Repr

inductive Avail where
  | capable | unsupported | fatal
deriving DecidableEq, Repr

/-- a request (`TracerouteParams` + the target literal's shape + the SACK environment) -/
structure P where
  proto : Proto
  method : Method
  minTTL : Int
  maxTTL : Int
  port : Int
  litPort : LitPort
  v6 : Bool
  avail : Avail
deriving DecidableEq, Repr

inductive Kind where
  | none | syn | sack
deriving DecidableEq, Repr

/-- the probes on the wire -/
structure Plan where
  proto : Proto
  kind : Kind
  port : Option Nat      -- destination port (`none`: ICMP has no ports)
  v6 : Bool
  ttls : List Nat        -- TTL / hop limit of every probe, in sending order
deriving DecidableEq, Repr

inductive Outcome where
  | reject
  | plan (pl : Plan)
  | crash
deriving DecidableEq, Repr

/-- Go `uint8(x)` for `x : int` -/
def u8 (x : Int) : Nat := (x % 256).toNat
/-- Go `uint16(x)` for `x : int` -/
def u16 (x : Int) : Nat := (x % 65536).toNat

def defaultPort : Int := 33434

/-- `RunTraceroute`: `if destinationPort == 0 { destinationPort = common.DefaultPort }` -/
def destPort (port : Int) : Int := if port = 0 then defaultPort else port

/-- `parseTarget(raw, defaultPort, _)` for an IP literal: the port is the literal's when `hasPort`,
    else `Itoa(defaultPort)` parsed back; rejected unless `1 ≤ port ≤ 65535`; then `uint16(port)` -/
def parseTarget (lit : LitPort) (dflt : Int) : Option Nat :=
  let portVal : Option Int :=
    match lit with
    | .absent => some dflt
    | .num n => some n
    | .garbage => none
  match portVal with
  | none => none
  | some n => if n < 1 ∨ n > 65535 then none else some (u16 n)

/-- the TTLs the engines send: `for i := int(MinTTL); i <= int(MaxTTL); i++ { SendProbe(uint8(i)) }` -/
def ttlList (min8 max8 : Nat) : List Nat := List.range' min8 (max8 + 1 - min8)

/-- `TracerouteParams.validate` on the narrowed values -/
def engineValid (min8 max8 : Nat) : Bool := decide (min8 ≤ max8) && decide (1 ≤ min8)

/-- length of `sendTimes` -/
def sackTableLen (sackTableInt : Bool) (max8 : Nat) : Nat :=
  if sackTableInt then max8 + 1 else (max8 + 1) % 256

/-- `sackDriver.SendProbe` over the TTLs in order: `s.sendTimes[ttl]` panics when `ttl ≥ len`
    (`none` = the runtime panic "index out of range", raised in the engine's sender goroutine) -/
def sackSend (len : Nat) : List Nat → Option (List Nat)
  | [] => some []
  | t :: ts => if t < len then (sackSend len ts).map (t :: ·) else none

/-- the new range check of `runTracerouteOnce` (present iff `ttlRangeChecked`) -/
def ttlInRange (x : Int) : Bool := decide (1 ≤ x) && decide (x ≤ 255)

/-- SYN traceroute (`tcp.TCPv4.Traceroute`): IPv4 only — the SYN builder writes an IPv4 header and
    fails to serialise for an IPv6 target at the first `SendProbe` (error, nothing on the wire) -/
def synRun (min8 max8 port : Nat) (v6 : Bool) : Outcome :=
  if !engineValid min8 max8 then .reject
  else if v6 then .reject
  else .plan { proto := .tcp, kind := .syn, port := some port, v6 := false, ttls := ttlList min8 max8 }

/-- SACK traceroute once the handshake has succeeded: driver table, engine validation, sends -/
def sackRun (sackTableInt : Bool) (min8 max8 port : Nat) : Outcome :=
  if !engineValid min8 max8 then .reject
  else match sackSend (sackTableLen sackTableInt max8) (ttlList min8 max8) with
    | none => .crash
    | some ttls => .plan { proto := .tcp, kind := .sack, port := some port, v6 := false, ttls := ttls }

/-- what the SACK attempt meets: IPv6 targets are refused by `Params.validate` (a fatal error) -/
def sackAttempt (v6 : Bool) (a : Avail) : Avail := if v6 then .fatal else a

/-- `runTracerouteOnce` (with `destinationPort` already defaulted by `RunTraceroute`) -/
def runOnce (ttlRangeChecked sackTableInt : Bool) (p : P) : Outcome :=
  if ttlRangeChecked && !(ttlInRange p.minTTL && ttlInRange p.maxTTL) then .reject else
  let min8 := u8 p.minTTL
  let max8 := u8 p.maxTTL
  match p.proto with
  | .other => .reject
  | .udp =>
    match parseTarget p.litPort (destPort p.port) with
    | none => .reject
    | some port =>
      if !engineValid min8 max8 then .reject
      else .plan { proto := .udp, kind := .none, port := some port, v6 := p.v6, ttls := ttlList min8 max8 }
  | .icmp =>
    match parseTarget p.litPort 80 with       -- the request's port is ignored, a literal's is still parsed
    | none => .reject
    | some _ =>
      if !engineValid min8 max8 then .reject
      else .plan { proto := .icmp, kind := .none, port := none, v6 := p.v6, ttls := ttlList min8 max8 }
  | .tcp =>
    match parseTarget p.litPort (destPort p.port) with
    | none => .reject
    | some port =>
      match (if p.method = .empty then Method.syn else p.method) with
      | .syn => synRun min8 max8 port p.v6
      | .sack =>
        match sackAttempt p.v6 p.avail with
        | .capable => sackRun sackTableInt min8 max8 port
        | _ => .reject
      | .preferSack =>
        match sackAttempt p.v6 p.avail with
        | .capable => sackRun sackTableInt min8 max8 port
        | .unsupported => synRun min8 max8 port p.v6
        | .fatal => .reject
      | .synSocket => .reject                  -- "not implemented or supported on unix"
      | _ => .reject                           -- "unexpected TCPMethod"

/-- `RunTraceroute` with one traceroute query and no e2e probes -/
def run (ttlRangeChecked sackTableInt : Bool) (p : P) : Outcome := runOnce ttlRangeChecked sackTableInt p

end TRV.Params
