/-!
# Bytes: the shared byte-string vocabulary

`Bytes = List (BitVec 8)`.  Multi-byte fields are decoded to `Nat` arithmetically (big endian) and
encoded with `byte (n / 256), byte (n % 256)`; wrap-around is used only where the Go code relies on
it.  `Window w d k` says "w is a window into d starting at offset k"; every decoder in `TRV.Model`
comes with a `_spec` lemma phrased with windows so that matcher soundness can be stated on the raw
bytes of the packet.
-/

abbrev Byte := BitVec 8
abbrev Bytes := List Byte

namespace TRV

def byte (n : Nat) : Byte := BitVec.ofNat 8 n
def be16 (n : Nat) : Bytes := [byte (n / 256), byte (n % 256)]
def be32 (n : Nat) : Bytes := be16 (n / 65536) ++ be16 (n % 65536)

def u8 (b : Bytes) (off : Nat) : Option Nat := (b[off]?).map BitVec.toNat
def u16 (b : Bytes) (off : Nat) : Option Nat :=
  match u8 b off, u8 b (off+1) with
  | some hi, some lo => some (hi * 256 + lo)
  | _, _ => none
def u32 (b : Bytes) (off : Nat) : Option Nat :=
  match u16 b off, u16 b (off+2) with
  | some hi, some lo => some (hi * 65536 + lo)
  | _, _ => none

/-- big-endian value of a whole byte string (used for addresses) -/
def beNat (b : Bytes) : Nat := b.foldl (fun acc x => acc * 256 + x.toNat) 0

theorem byte_toNat {n : Nat} (h : n < 256) : (byte n).toNat = n := by
  simp [byte, BitVec.toNat_ofNat]; omega

theorem u8_lt {b : Bytes} {off v : Nat} (h : u8 b off = some v) : v < 256 := by
  unfold u8 at h
  cases h0 : b[off]? <;> simp_all
  subst h; exact (‹Byte›).isLt

theorem u16_lt {b : Bytes} {off v : Nat} (h : u16 b off = some v) : v < 65536 := by
  unfold u16 at h
  cases h0 : u8 b off <;> cases h1 : u8 b (off+1) <;> simp_all
  have := u8_lt h0; have := u8_lt h1; omega

theorem u32_lt {b : Bytes} {off v : Nat} (h : u32 b off = some v) : v < 4294967296 := by
  unfold u32 at h
  cases h0 : u16 b off <;> cases h1 : u16 b (off+2) <;> simp_all
  have := u16_lt h0; have := u16_lt h1; omega

theorem u8_some_iff {b : Bytes} {off : Nat} : (u8 b off).isSome ↔ off < b.length := by
  unfold u8
  cases h : b[off]? with
  | none => simp at h ⊢; omega
  | some v =>
    have := (List.getElem?_eq_some_iff.mp h).1
    simp [this]

theorem u8_of_lt {b : Bytes} {off : Nat} (h : off < b.length) : ∃ v, u8 b off = some v := by
  have := (u8_some_iff (b := b) (off := off)).mpr h
  exact Option.isSome_iff_exists.mp this

theorem u16_of_lt {b : Bytes} {off : Nat} (h : off + 1 < b.length) : ∃ v, u16 b off = some v := by
  obtain ⟨a, ha⟩ := u8_of_lt (b := b) (off := off) (by omega)
  obtain ⟨c, hc⟩ := u8_of_lt (b := b) (off := off + 1) h
  exact ⟨a * 256 + c, by simp [u16, ha, hc]⟩

theorem u32_of_lt {b : Bytes} {off : Nat} (h : off + 3 < b.length) : ∃ v, u32 b off = some v := by
  obtain ⟨a, ha⟩ := u16_of_lt (b := b) (off := off) (by omega)
  obtain ⟨c, hc⟩ := u16_of_lt (b := b) (off := off + 2) (by omega)
  exact ⟨a * 65536 + c, by simp [u32, ha, hc]⟩

/-- `w` is a window into `d` starting at `k` -/
def Window (w d : Bytes) (k : Nat) : Prop := ∀ j x, w[j]? = some x → d[k+j]? = some x

theorem Window.refl (d : Bytes) : Window d d 0 := by intro j x h; simpa using h
theorem Window.drop (d : Bytes) (k : Nat) : Window (d.drop k) d k := by
  intro j x h; simpa [List.getElem?_drop] using h
theorem Window.take (d : Bytes) (n : Nat) : Window (d.take n) d 0 := by
  intro j x h
  rw [List.getElem?_take] at h
  split at h <;> simp_all
theorem Window.trans {a b c : Bytes} {k l : Nat} (h1 : Window a b k) (h2 : Window b c l) :
    Window a c (l + k) := by
  intro j x h
  have := h2 _ _ (h1 _ _ h)
  simpa [Nat.add_assoc] using this

theorem Window.u8 {w d : Bytes} {k off v : Nat} (hw : Window w d k)
    (h : TRV.u8 w off = some v) : TRV.u8 d (k + off) = some v := by
  unfold TRV.u8 at *
  cases h0 : w[off]? <;> simp_all
  have a := hw _ _ h0
  simp [a, h]

theorem Window.u16 {w d : Bytes} {k off v : Nat} (hw : Window w d k)
    (h : TRV.u16 w off = some v) : TRV.u16 d (k + off) = some v := by
  unfold TRV.u16 at *
  cases h0 : TRV.u8 w off <;> cases h1 : TRV.u8 w (off+1) <;> simp_all
  have a := hw.u8 h0
  have b := hw.u8 h1
  rw [← Nat.add_assoc] at b
  simp [a, b, h]

theorem Window.u32 {w d : Bytes} {k off v : Nat} (hw : Window w d k)
    (h : TRV.u32 w off = some v) : TRV.u32 d (k + off) = some v := by
  unfold TRV.u32 at *
  cases h0 : TRV.u16 w off <;> cases h1 : TRV.u16 w (off+2) <;> simp_all
  have a := hw.u16 h0
  have b := hw.u16 h1
  rw [← Nat.add_assoc] at b
  simp [a, b, h]

theorem Window.slice {w d : Bytes} {k : Nat} (hw : Window w d k) (off n : Nat)
    (hn : off + n ≤ w.length) : (d.drop (k + off)).take n = (w.drop off).take n := by
  apply List.ext_getElem?
  intro j
  by_cases hj : j < n
  · simp only [List.getElem?_take, hj, if_true, List.getElem?_drop]
    have hlt : off + j < w.length := by omega
    have := hw (off + j) w[off + j] (by simp [hlt])
    rw [← Nat.add_assoc] at this
    rw [this]; simp [hlt]
  · simp [List.getElem?_take, hj]

/-! ## Hex I/O for the oracle line protocol -/

def hexDigit (c : Char) : Option Nat :=
  if '0' ≤ c ∧ c ≤ '9' then some (c.toNat - '0'.toNat)
  else if 'a' ≤ c ∧ c ≤ 'f' then some (c.toNat - 'a'.toNat + 10)
  else if 'A' ≤ c ∧ c ≤ 'F' then some (c.toNat - 'A'.toNat + 10)
  else none

def parseHexChars : List Char → Option Bytes
  | [] => some []
  | [_] => none
  | a :: b :: rest => do
    let x ← hexDigit a
    let y ← hexDigit b
    let r ← parseHexChars rest
    pure (byte (x * 16 + y) :: r)

/-- `-` denotes the empty string -/
def parseHex (s : String) : Option Bytes :=
  if s = "-" then some [] else parseHexChars s.toList

def hexChar (n : Nat) : Char :=
  if n < 10 then Char.ofNat (n + '0'.toNat) else Char.ofNat (n - 10 + 'a'.toNat)

def toHex (b : Bytes) : String :=
  if b.isEmpty then "-" else
  String.ofList (b.flatMap fun x => [hexChar (x.toNat / 16), hexChar (x.toNat % 16)])

end TRV
