import TRV.Basic.Bytes
/-!
# Vocabulary of the regenerated decision trees (`TRV/Generated/Logic*.lean`)

`harness/extract/logic.go` translates the decision logic of selected Go functions into Lean
functions `run : Atoms → R`.  `R` records what happened on the path taken: the side effects (as the
canonical Go text of the statement) in execution order and the returned values.
-/
namespace TRV.Logic

/-- one returned value (or one field of a returned struct literal) -/
inductive V where
  | nil                      -- Go `nil`
  | int (i : Int)            -- an integer the translator could interpret
  | bool (b : Bool)
  | err (kind : String)      -- an error value: the type of an error literal (`common.BadPacketError`),
                             -- the name of a sentinel, `fmt.Errorf`, or `fmt.Errorf %w <wrapped>`
  | ref (text : String)      -- any other value, by its canonical Go text
deriving DecidableEq, Repr

/-- outcome of one path: effects in execution order, returned values keyed by position
    (`"0"`, `"1"`, and `"0.Field"` for the fields of a returned struct literal) -/
structure R where
  effects : List String
  rets : List (String × V)
deriving DecidableEq, Repr

instance : Inhabited R := ⟨⟨[], []⟩⟩

/-- look a returned value up by key -/
def R.get (r : R) (k : String) : Option V := (r.rets.find? (·.1 = k)).map (·.2)

/-- the error position holds `nil` -/
def R.okAt (r : R) (k : String) : Bool := r.get k = some V.nil

/-- `binary.BigEndian.Uint16 / Uint32` of an octet string: the big-endian value of its first `n` octets -/
def be (b : Bytes) (n : Nat) : Nat := beNat (b.take n)

end TRV.Logic
