import TRV.Oracle.Engine
import TRV.Oracle.Bpf
import TRV.Oracle.Result
import TRV.Oracle.Multi
import TRV.Oracle.Policy
import TRV.Oracle.Params
import TRV.Oracle.Enrich
import TRV.Oracle.Sync
import TRV.Oracle.Alloc
import TRV.Oracle.Wire
import TRV.Oracle.Drivers
import TRV.Oracle.Timed
import TRV.Oracle.Wrapper
import TRV.Oracle.Classify
import TRV.Oracle.Net
/-! Line-protocol driver: one case per input line, one answer per output line. Core-only. -/
open TRV.Oracle

def allHandlers : List (String × Handler) :=
  TRV.Oracle.Engine.handlers ++ TRV.Oracle.Bpf.handlers ++ TRV.Oracle.Result.handlers ++
  TRV.Oracle.Multi.handlers ++ TRV.Oracle.Policy.handlers ++ TRV.Oracle.Params.handlers ++
  TRV.Oracle.Enrich.handlers ++ TRV.Oracle.Sync.handlers ++ TRV.Oracle.Alloc.handlers ++
  TRV.Oracle.Wire.handlers ++ TRV.Oracle.Drivers.handlers ++ TRV.Oracle.Timed.handlers ++
  TRV.Oracle.Wrapper.handlers ++ TRV.Oracle.Classify.handlers ++ TRV.Oracle.Net.handlers

def step (line : String) : String :=
  match (line.trimAscii.toString.splitOn " ").filter (· ≠ "") with
  | [] => badOp
  | op :: args =>
    match allHandlers.lookup op with
    | some h => h args
    | none => badOp

partial def loop (hin hout : IO.FS.Stream) : IO Unit := do
  let line ← hin.getLine
  if line.isEmpty then return ()
  hout.putStrLn (step line)
  loop hin hout

def main : IO Unit := do
  let hin ← IO.getStdin
  let hout ← IO.getStdout
  loop hin hout
  hout.flush
