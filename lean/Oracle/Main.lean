import TRV.Oracle.Engine
/-! Line-protocol driver: one case per input line, one answer per output line. Core-only. -/
open TRV.Oracle

def allHandlers : List (String × Handler) :=
  TRV.Oracle.Engine.handlers

def step (line : String) : String :=
  match (line.trimAscii.toString.splitOn " ").filter (· ≠ "") with
  | [] => badOp
  | op :: args =>
    match allHandlers.lookup op with
    | some h => h args
    | none => badOp

partial def loop (hin hout : IO.FS.Stream) : IO Unit := do
  let line ← hin.getLine
  if line.isEmpty then return ()
  hout.putStrLn (step line)
  loop hin hout

def main : IO Unit := do
  let hin ← IO.getStdin
  let hout ← IO.getStdout
  loop hin hout
  hout.flush
