#!/bin/bash
# tools/controls.sh [check...]  applies every controls/benign-*.diff in a scratch worktree (tools/mutrun.sh)
# and runs the given checks (default: all) in the quick tier: there must be no VIOLATION line.
cd "$(dirname "$0")/.."
checks=("$@"); [ ${#checks[@]} -eq 0 ] && checks=($(ls checks.d | sed 's/.json//'))
bad=0
for d in controls/benign-*.diff; do
  out=$(TAIL=400 tools/mutrun.sh "$d" "${checks[@]}" 2>&1)
  n=$(echo "$out" | grep -c '^VIOLATION')
  echo "$(basename $d): $n violation lines"
  [ "$n" -gt 0 ] && { echo "$out" | grep '^VIOLATION' | head -5; bad=$((bad+1)); }
done
echo "controls finished: $bad diffs raised an alarm"
[ $bad -eq 0 ]
