#!/bin/bash
# tools/confirm_mut.sh <mutant-dir>   (dir holds patch.diff, demo_test.go, meta.json)
# Confirms in a scratch worktree: builds, existing suite passes with the change, demo fails with
# the change and passes without it. Prints a one-line verdict; exit 0 iff confirmed.
set -u
D=$(readlink -f "$1")
PKG=$(python3 -c "import json,re; v=json.load(open('$D/meta.json')).get('demo_package_dir',''); m=re.match(r'[./]*([A-Za-z0-9_/]+)', v); print(m.group(1).rstrip('/') if m else '')")
TAGS=$(python3 -c "
import json
v=json.load(open('$D/meta.json')).get('demo_build_tags','')
import re
v=' '.join(v) if isinstance(v,list) else (v or '')
print(' '.join(re.findall(r'^[A-Za-z0-9_]+', v.strip())))")
TAGFLAG=""; [ -n "$TAGS" ] && TAGFLAG="-tags=$(echo $TAGS | tr ' ' ',')"
S=$(mktemp -d /tmp/cm-XXXXXX)
cleanup() { git -C /repo worktree remove --force "$S/repo" >/dev/null 2>&1; rm -rf "$S"; }
trap cleanup EXIT
export GOFLAGS=-mod=mod GOPROXY=off
git -C /repo worktree add -q --detach "$S/repo" HEAD || exit 2
cd "$S/repo"
git apply "$D/patch.diff" || { echo "$(basename $D): PATCH-DOES-NOT-APPLY"; exit 1; }
go build ./... >/dev/null 2>&1 || { echo "$(basename $D): DOES-NOT-BUILD"; exit 1; }
go vet ./$PKG/ >/dev/null 2>&1 || { echo "$(basename $D): VET-FAILS"; exit 1; }
if ! go test -vet=off -count=1 ./... > "$S/suite.log" 2>&1; then echo "$(basename $D): EXISTING-SUITE-FAILS"; grep -E "^(FAIL|---)" "$S/suite.log" | head -5; exit 1; fi
cp "$D/demo_test.go" "$S/repo/$PKG/zz_demo_test.go"
go test ${RACEFLAG:-} $TAGFLAG -vet=off -count=1 -run "${RUNPAT:-Demo|Test_?C[0-9][0-9]}" ./$PKG/ > "$S/demo_with.log" 2>&1; WITH=$?
git stash -q -- . ':!'"$PKG"'/zz_demo_test.go' 2>/dev/null || git checkout -q -- .
git checkout -q -- . 2>/dev/null
cp "$D/demo_test.go" "$S/repo/$PKG/zz_demo_test.go"
go test ${RACEFLAG:-} $TAGFLAG -vet=off -count=1 -run "${RUNPAT:-Demo|Test_?C[0-9][0-9]}" ./$PKG/ > "$S/demo_without.log" 2>&1; WITHOUT=$?
if [ $WITH -ne 0 ] && [ $WITHOUT -eq 0 ]; then echo "$(basename $D): CONFIRMED (suite passes; demo fails with the change, passes without)"; exit 0; fi
echo "$(basename $D): NOT-CONFIRMED with=$WITH without=$WITHOUT"; tail -5 "$S/demo_with.log"; tail -5 "$S/demo_without.log"; exit 1
