#!/bin/bash
# tools/mutrun.sh <patch.diff> <prop> [<prop>...]
# Evaluates seeded changes WITHOUT touching /repo or /verif: a scratch worktree of /repo with the
# patch applied + a scratch copy of /verif whose harness `replace` points at it. Prints each
# check's last lines and exit status. Everything is removed afterwards.
set -u
PATCH=$(readlink -f "$1"); shift
S=$(mktemp -d /tmp/mr-XXXXXX)
cleanup() { git -C /repo worktree remove --force "$S/repo" >/dev/null 2>&1; rm -rf "$S"; }
trap cleanup EXIT
git -C /repo worktree add -q --detach "$S/repo" HEAD || exit 2
if ! git -C "$S/repo" apply "$PATCH"; then echo "PATCH DOES NOT APPLY"; exit 2; fi
rsync -a --exclude .git --exclude replays --exclude out /verif/ "$S/verif/"
export GOFLAGS=-mod=mod GOPROXY=off
( cd "$S/repo" && go build ./... ) || { echo "MUTANT DOES NOT BUILD"; exit 2; }
for p in "$@"; do
  ( cd "$S/verif" && VERIF_REPO="$S/repo" timeout 1800 ./check "$p" "${TIER:-quick}" 2>&1 | tail -${TAIL:-4} ); echo "== $p exit=$?"
  if [ -n "${KEEP:-}" ]; then mkdir -p "$KEEP"; cp -r "$S/verif/replays" "$KEEP/" 2>/dev/null; fi
done
