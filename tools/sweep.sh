#!/bin/bash
# tools/sweep.sh [tier] seed...   runs every registered check once per seed on the unchanged tree
# and prints the ones that raised an alarm or failed (there must be none).
TIER=${1:-quick}; shift
cd "$(dirname "$0")/.."
bad=0
for seed in "$@"; do
  for f in checks.d/*.json; do
    p=$(basename "$f" .json)
    out=$(VERIF_SEED=$seed ./check "$p" "$TIER" 2>&1); rc=$?
    last=$(echo "$out" | tail -1)
    if [ $rc -ne 0 ] || echo "$out" | grep -q '^VIOLATION'; then echo "ALARM seed=$seed $p rc=$rc :: $last"; echo "$out" | grep '^VIOLATION' | head -3; bad=$((bad+1)); else echo "ok    seed=$seed $last"; fi
  done
done
echo "sweep finished: $bad alarms"
