#!/bin/bash
# tools/regress_seeds.sh [dir...]  re-evaluates every seeded change (default: all of seeded/) against the
# first check listed in its caught_by and prints CAUGHT / MISSED per seed. Uses tools/mutrun.sh.
cd "$(dirname "$0")/.."
dirs=("$@"); [ ${#dirs[@]} -eq 0 ] && dirs=(seeded/*/)
for d in "${dirs[@]}"; do
  d=${d%/}; m=$(basename "$d")
  p=$(python3 -c "
import json,re,sys
c=json.load(open('$d/meta.json')).get('caught_by',[])
ids=[re.match(r'C\d\d',x).group(0) for x in c if re.match(r'C\d\d',x)]
print(ids[0] if ids else '$m'[:3])")
  out=$(TAIL=400 timeout 1500 tools/mutrun.sh "$d/patch.diff" "$p" 2>&1)
  if echo "$out" | grep -q '^VIOLATION'; then
    conc=$(echo "$out" | grep '^VIOLATION' | grep -vc 'no-failing-input-found')
    echo "CAUGHT $m by $p (concrete reports: $conc)"
  else
    echo "MISSED $m by $p :: $(echo "$out" | tail -2 | head -1 | cut -c1-120)"
  fi
done
